(* C07 - lemmas about the model M_efdd.v: homogeneity of the SDOF bell (degree 1, both methods, transported SVD),
   closed form of the bell on a rank-one-plus-floor spectral matrix, scale invariance of everything computed after the
   normalisation of the correlation, index_of = np.argmin(abs(x - v)).  The real-analysis part is P_efdd_R.v. *)
From Coq Require Import List Arith ZArith QArith Qcanon Lia Ring Field Bool.
From PyOMA.Base Require Import Carrier Cplx.
From PyOMA.Model Require Import M_efdd.
Import ListNotations.

Section BellProofs.
Variable R:Type. Variable K:Ops R. Variable gtb : R -> R -> bool.
Hypothesis Rth : ring_theory (o0 K) (o1 K) (oadd K) (omul K) (osub K) (oopp K) (@eq R).
Add Ring RrB : Rth.
Local Open Scope K_scope.
Notation "0" := (o0 K) : K_scope. Notation "1" := (o1 K) : K_scope.
Infix "+" := (oadd K) : K_scope. Infix "*" := (omul K) : K_scope. Infix "-" := (osub K) : K_scope.

Lemma cscal_c0 c : cscal K c (c0 K) = c0 K.
Proof. apply c_eq; cbn; ring. Qed.
Lemma cscal_ofR c s : cofR K (c * s) = cscal K c (cofR K s).
Proof. apply c_eq; cbn; ring. Qed.
Lemma cscal_cmul_r c x y : cmul K x (cscal K c y) = cscal K c (cmul K x y).
Proof. apply c_eq; cbn; ring. Qed.
Lemma cscal_cmul_l c x y : cmul K (cscal K c x) y = cscal K c (cmul K x y).
Proof. apply c_eq; cbn; ring. Qed.
Lemma csum_scal n c (f:nat -> C R) : sumn (COps K) n (fun k => cscal K c (f k)) = cscal K c (sumn (COps K) n f).
Proof. induction n; cbn [sumn]. - cbn. symmetry. apply cscal_c0.
  - rewrite IHn. apply c_eq; cbn; ring. Qed.
Lemma csum_ofR n (f:nat -> R) : sumn (COps K) n (fun k => cofR K (f k)) = cofR K (sumn K n f).
Proof. induction n; cbn [sumn]. - reflexivity. - rewrite IHn. apply c_eq; cbn; ring. Qed.

(* the SVD contract is transported along Sy -> c Sy by scaling the singular values only *)
Lemma svd_scale n A U V S c : svd_ok K n A U V S -> svd_ok K n (cmscal K c A) U V (fun k => c * S k).
Proof.
  intros (HA & HU & HV). split; [|split; assumption].
  intros i j Hi Hj. unfold cmscal. rewrite (HA i j Hi Hj), <- csum_scal.
  apply sumn_ext; intros k Hk. apply c_eq; cbn; ring.
Qed.

Lemma quadH_scale n phi A c : quadH K n phi (cmscal K c A) = cscal K c (quadH K n phi A).
Proof.
  unfold quadH, cmscal. rewrite <- csum_scal. apply sumn_ext; intros j Hj.
  rewrite <- cscal_cmul_l. f_equal. rewrite <- csum_scal. apply sumn_ext; intros i Hi. apply cscal_cmul_r.
Qed.

Lemma bell_term_scale m n phi A sig svec lim c :
  bell_term K gtb m n phi (cmscal K c A) (c * sig) svec lim = cscal K c (bell_term K gtb m n phi A sig svec lim).
Proof.
  unfold bell_term. destruct (mac_pass K gtb n phi svec lim).
  - destruct m; [apply cscal_ofR | apply quadH_scale].
  - symmetry; apply cscal_c0.
Qed.

Lemma sdof_bell_scale m n cm phi Sy sig svec lim lo hi c l :
  sdof_bell K gtb m n cm phi (fun l => cmscal K c (Sy l)) (fun l k => c * sig l k) svec lim lo hi l
  = cscal K c (sdof_bell K gtb m n cm phi Sy sig svec lim lo hi l).
Proof.
  unfold sdof_bell. destruct (Nat.leb lo l && Nat.ltb l hi).
  - unfold bell_line. rewrite <- csum_scal. apply sumn_ext; intros k Hk. apply bell_term_scale.
  - symmetry; apply cscal_c0.
Qed.

(* degree 1, both methods, with the transported SVD; the MAC mask does not see the singular values at all *)
Theorem efdd_bell_homogeneous n Nf (Sy U V:nat -> cmat R) (S:nat -> nat -> R) c :
  (forall l, (l < Nf)%nat -> svd_ok K n (Sy l) (U l) (V l) (S l)) ->
  (forall l, (l < Nf)%nat -> svd_ok K n (cmscal K c (Sy l)) (U l) (V l) (fun k => c * S l k)) /\
  (forall m phi lim l k,
     bell_term K gtb m n phi (cmscal K c (Sy l)) (c * S l k) (svec_of K U l k) lim
     = if mac_pass K gtb n phi (svec_of K U l k) lim
       then cscal K c (match m with EFDD => cofR K (S l k) | FSDD => quadH K n phi (Sy l) end) else c0 K) /\
  (forall m cm phi lim lo hi l,
     sdof_bell K gtb m n cm phi (fun l => cmscal K c (Sy l)) (fun l k => c * S l k) (svec_of K U) lim lo hi l
     = cscal K c (sdof_bell K gtb m n cm phi Sy S (svec_of K U) lim lo hi l)).
Proof.
  intros H. split; [|split].
  - intros l Hl. apply svd_scale, H, Hl.
  - intros m phi lim l k. rewrite bell_term_scale. unfold bell_term.
    destruct (mac_pass K gtb n phi (svec_of K U l k) lim); [reflexivity | apply cscal_c0].
  - intros. apply sdof_bell_scale.
Qed.
End BellProofs.

Section RankOne.
Variable R:Type. Variable K:Ops R. Variable gtb : R -> R -> bool.
Hypothesis Fth : field_theory (o0 K) (o1 K) (oadd K) (omul K) (osub K) (oopp K) (odiv K) (oinv K) (@eq R).
Let Rth := F_R Fth.
Add Field FfR1 : Fth.
Local Open Scope K_scope.
Notation "0" := (o0 K) : K_scope. Notation "1" := (o1 K) : K_scope.
Infix "+" := (oadd K) : K_scope. Infix "*" := (omul K) : K_scope. Infix "-" := (osub K) : K_scope.
Infix "/" := (odiv K) : K_scope.

Variable n:nat.
Variable Ur : nat -> nat -> R.          (* a real orthogonal matrix whose first column is the unit shape *)
Variables nrm a s eps lim : R.
Hypothesis Hn : (0 < n)%nat.
Definition kd (i j:nat) : R := if Nat.eqb i j then 1 else 0.
Hypothesis HUc : forall i j, (i<n)%nat -> (j<n)%nat -> sumn K n (fun k => Ur k i * Ur k j) = kd i j.
Hypothesis HUr : forall i j, (i<n)%nat -> (j<n)%nat -> sumn K n (fun k => Ur i k * Ur j k) = kd i j.
Hypothesis Ha : a <> 0.
Hypothesis Hlim : gtb 1 lim = true.

Definition r1_u (i:nat) : R := Ur i 0%nat.
Definition r1_phi (i:nat) : R := nrm * r1_u i.                      (* the true (real) shape *)
Definition r1_p (i:nat) : R := a * r1_u i.                          (* the FDD shape: a multiple of it *)
Definition r1_phin : cvec R := fun i => cofR K (r1_p i).
Definition r1_Sy : cmat R := fun i j => cofR K (s * r1_phi i * r1_phi j + kd i j * eps).
Definition r1_U : cmat R := fun i k => cofR K (Ur i k).
Definition r1_S (k:nat) : R := eps + kd k 0%nat * (s * (nrm * nrm)).

Lemma csum_ofR' m (f:nat -> R) : sumn (COps K) m (fun k => cofR K (f k)) = cofR K (sumn K m f).
Proof. induction m; cbn [sumn]. - reflexivity. - rewrite IHm. apply c_eq; cbn; ring. Qed.

Lemma sumn_kd m j (f:nat -> R) : (j<m)%nat -> sumn K m (fun k => kd k j * f k) = f j.
Proof. intros Hj. unfold kd. apply (sumn_delta R K Rth m j f Hj). Qed.

Lemma sum_uu : sumn K n (fun k => r1_u k * r1_u k) = 1.
Proof. unfold r1_u. rewrite (HUc 0%nat 0%nat Hn Hn). reflexivity. Qed.

Lemma r1_svd : svd_ok K n r1_Sy r1_U r1_U r1_S.
Proof.
  split; [|split].
  - intros i j Hi Hj. unfold r1_Sy, r1_U.
    rewrite (sumn_ext _ (COps K) n _ (fun k => cofR K (Ur i k * r1_S k * Ur j k))) by (intros k Hk; apply c_eq; cbn; ring).
    rewrite csum_ofR'. f_equal.
    rewrite (sumn_ext _ K n _ (fun k => eps * (Ur i k * Ur j k) + (s * (nrm*nrm)) * (kd k 0%nat * (Ur i k * Ur j k))))
      by (intros k Hk; unfold r1_S; ring).
    rewrite (sumn_add R K Rth), !(sumn_scal R K Rth), (HUr i j Hi Hj).
    rewrite (sumn_kd n 0%nat (fun k => Ur i k * Ur j k) Hn).
    unfold r1_phi, r1_u. ring.
  - intros i j Hi Hj. unfold r1_U.
    rewrite (sumn_ext _ (COps K) n _ (fun k => cofR K (Ur k i * Ur k j))) by (intros k Hk; apply c_eq; cbn; ring).
    rewrite csum_ofR', (HUc i j Hi Hj). unfold kd, cdelta. destruct (Nat.eqb i j); reflexivity.
  - intros i j Hi Hj. unfold r1_U.
    rewrite (sumn_ext _ (COps K) n _ (fun k => cofR K (Ur k i * Ur k j))) by (intros k Hk; apply c_eq; cbn; ring).
    rewrite csum_ofR', (HUc i j Hi Hj). unfold kd, cdelta. destruct (Nat.eqb i j); reflexivity.
Qed.

Lemma r1_mac l : mac K n r1_phin (svec_of K (fun _ => r1_U) l 0%nat) = 1.
Proof.
  unfold mac, cdotH, svec_of, r1_phin, r1_U, r1_p.
  rewrite (sumn_ext _ (COps K) n (fun k => cmul K (cconj K (cofR K (a * r1_u k))) (cconj K (cofR K (Ur k 0%nat)))) (fun k => cofR K (a * (r1_u k * r1_u k))))
    by (intros k Hk; apply c_eq; unfold r1_u; cbn; ring).
  rewrite (sumn_ext _ (COps K) n (fun k => cmul K (cconj K (cofR K (a * r1_u k))) (cofR K (a * r1_u k))) (fun k => cofR K ((a*a) * (r1_u k * r1_u k))))
    by (intros k Hk; apply c_eq; cbn; ring).
  rewrite (sumn_ext _ (COps K) n (fun k => cmul K (cconj K (cconj K (cofR K (Ur k 0%nat)))) (cconj K (cofR K (Ur k 0%nat)))) (fun k => cofR K (r1_u k * r1_u k)))
    by (intros k Hk; apply c_eq; unfold r1_u; cbn; ring).
  rewrite !csum_ofR', !(sumn_scal R K Rth), sum_uu.
  unfold cnorm2, cofR, cre, cim; cbn [fst snd]. field.
  exact Ha.
Qed.

Lemma r1_quad : quadH K n r1_phin r1_Sy
  = cofR K (s * (sumn K n (fun i => r1_p i * r1_phi i) * sumn K n (fun i => r1_p i * r1_phi i)) + eps * sumn K n (fun i => r1_p i * r1_p i)).
Proof.
  unfold quadH, r1_phin, r1_Sy.
  rewrite (sumn_ext _ (COps K) n _ (fun j => cofR K ((s * r1_phi j * sumn K n (fun i => r1_p i * r1_phi i) + eps * r1_p j) * r1_p j))).
  - rewrite csum_ofR'. f_equal.
    rewrite (sumn_ext _ K n _ (fun j => (s * sumn K n (fun i => r1_p i * r1_phi i)) * (r1_p j * r1_phi j) + eps * (r1_p j * r1_p j)))
      by (intros j Hj; ring).
    rewrite (sumn_add R K Rth), !(sumn_scal R K Rth). ring.
  - intros j Hj.
    rewrite (sumn_ext _ (COps K) n _ (fun i => cofR K ((s * r1_phi j) * (r1_p i * r1_phi i) + eps * (kd i j * r1_p i))))
      by (intros i Hi; apply c_eq; cbn; ring).
    rewrite csum_ofR', (sumn_add R K Rth), !(sumn_scal R K Rth), (sumn_kd n j r1_p Hj).
    apply c_eq; cbn; ring.
Qed.

(* Sy = s phi phi^T + eps I, phi real: the triple (U, diag(s|phi|^2+eps, eps, ..), U) meets the SVD contract, the
   FDD shape passes the MAC filter, the EFDD bell is s|phi|^2 + eps and the FSDD bell s (phi_n . phi)^2 + eps |phi_n|^2 *)
Theorem bell_rank_one :
  svd_ok K n r1_Sy r1_U r1_U r1_S /\
  r1_S 0%nat = s * sumn K n (fun i => r1_phi i * r1_phi i) + eps /\
  (forall k, (0 < k)%nat -> r1_S k = eps) /\
  (forall l, mac_pass K gtb n r1_phin (svec_of K (fun _ => r1_U) l 0%nat) lim = true) /\
  (forall l, bell_term K gtb EFDD n r1_phin r1_Sy (r1_S 0%nat) (svec_of K (fun _ => r1_U) l 0%nat) lim
             = cofR K (s * sumn K n (fun i => r1_phi i * r1_phi i) + eps)) /\
  (forall l, bell_term K gtb FSDD n r1_phin r1_Sy (r1_S 0%nat) (svec_of K (fun _ => r1_U) l 0%nat) lim
             = cofR K (s * (sumn K n (fun i => r1_p i * r1_phi i) * sumn K n (fun i => r1_p i * r1_phi i))
                       + eps * sumn K n (fun i => r1_p i * r1_p i))).
Proof.
  assert (HS0 : r1_S 0%nat = s * sumn K n (fun i => r1_phi i * r1_phi i) + eps).
  { unfold r1_S, r1_phi, kd. cbn [Nat.eqb].
    rewrite (sumn_ext _ K n _ (fun i => (nrm*nrm) * (r1_u i * r1_u i))) by (intros i Hi; ring).
    rewrite (sumn_scal R K Rth), sum_uu. ring. }
  assert (HP : forall l, mac_pass K gtb n r1_phin (svec_of K (fun _ => r1_U) l 0%nat) lim = true).
  { intros l. unfold mac_pass. rewrite r1_mac. exact Hlim. }
  split; [exact r1_svd|]. split; [exact HS0|]. split; [|split; [exact HP|split]].
  - intros k Hk. unfold r1_S, kd. destruct k; [lia|]. cbn [Nat.eqb]. ring.
  - intros l. unfold bell_term. rewrite HP, HS0. reflexivity.
  - intros l. unfold bell_term. rewrite HP. apply r1_quad.
Qed.
End RankOne.


Local Open Scope Qc_scope.



Lemma qc_mul_lt c x y : 0 < c -> x < y -> c * x < c * y.
Proof. intros Hc H. rewrite (Qcmult_comm c x), (Qcmult_comm c y). apply Qcmult_lt_compat_r; assumption. Qed.
Lemma qc_mul_le c x y : 0 < c -> x <= y -> c * x <= c * y.
Proof. intros Hc H. rewrite (Qcmult_comm c x), (Qcmult_comm c y). apply Qcmult_le_compat_r; [assumption|]. apply Qclt_le_weak; assumption. Qed.

Lemma qcmax_scale c m y : 0 < c -> qcmax (c * m) (c * y) = c * qcmax m y.
Proof.
  intros Hc. unfold qcmax. destruct (Qclt_le_dec m y) as [H|H], (Qclt_le_dec (c*m) (c*y)) as [H'|H']; try reflexivity.
  - exfalso. apply (Qclt_not_le _ _ (qc_mul_lt c m y Hc H) H').
  - exfalso. apply (Qclt_not_le _ _ H' (qc_mul_le c y m Hc H)).
Qed.

Lemma fold_max_scale c l m : 0 < c -> fold_left qcmax (map (Qcmult c) l) (c * m) = c * fold_left qcmax l m.
Proof. intros Hc. revert m. induction l as [|y t IH]; intros m; cbn [map fold_left]; [reflexivity|]. rewrite qcmax_scale by assumption. apply IH. Qed.

Lemma maxl_scale c l : 0 < c -> maxl (map (Qcmult c) l) = option_map (Qcmult c) (maxl l).
Proof. intros Hc. destruct l as [|x t]; cbn [map maxl option_map]; [reflexivity|]. rewrite fold_max_scale by assumption. reflexivity. Qed.

Lemma normcorr_scale c full : 0 < c -> normcorr (map (Qcmult c) full) = normcorr full.
Proof.
  intros Hc. unfold normcorr. rewrite maxl_scale by assumption.
  assert (Hc0 : c <> 0) by (intros E; rewrite E in Hc; apply (Qclt_not_le _ _ Hc); apply Qcle_refl).
  destruct (maxl full) as [m|]; cbn [option_map]; [|reflexivity].
  destruct (Qc_eq_dec m 0) as [E|E], (Qc_eq_dec (c*m) 0) as [E'|E']; try reflexivity.
  - exfalso. apply E'. rewrite E. ring.
  - exfalso. destruct (Qcmult_integral _ _ E') as [H|H]; contradiction.
  - f_equal. rewrite map_length, firstn_map, map_map. apply map_ext. intros y. field. split; assumption.
Qed.

(* positive scaling of the correlation (hence, the inverse FFT being linear, of the bell) changes nothing
   after the normalisation: same extremum indices, same log arguments, same period *)
Theorem efdd_time_scale_invariant c full tlag sppk npmax : 0 < c ->
  efdd_time (map (Qcmult c) full) tlag sppk npmax = efdd_time full tlag sppk npmax.
Proof. intros Hc. unfold efdd_time. rewrite normcorr_scale by assumption. rewrite map_length. reflexivity. Qed.

Section Pipeline.
Variable ifft_re : list QcC -> list Qc.
Hypothesis ifft_homog : forall c b, ifft_re (map (cscal QcOps c) b) = map (Qcmult c) (ifft_re b).

Theorem efdd_after_svd_scale_invariant c bell tlag sppk npmax : 0 < c ->
  efdd_after_svd ifft_re (map (cscal QcOps c) bell) tlag sppk npmax = efdd_after_svd ifft_re bell tlag sppk npmax.
Proof. intros Hc. unfold efdd_after_svd. rewrite ifft_homog. apply efdd_time_scale_invariant, Hc. Qed.
End Pipeline.



Lemma Qcabs_nonneg x : 0 <= Qcabs x.
Proof. unfold Qcabs. destruct (Qclt_le_dec x 0) as [H|H]; [|exact H].
  apply Qclt_le_weak in H. apply Qcopp_le_compat in H. replace (- 0) with 0 in H by ring. exact H. Qed.
Lemma Qcabs_diff_zero x v : x = v -> Qcabs (x - v) = 0.
Proof. intros ->. replace (v - v) with 0 by ring. unfold Qcabs. destruct (Qclt_le_dec 0 0); ring. Qed.
Lemma Qcabs_diff_pos x v : x <> v -> 0 < Qcabs (x - v).
Proof.
  intros Hne. destruct (Qcle_lt_or_eq _ _ (Qcabs_nonneg (x - v))) as [H|H]; [exact H|]. exfalso. apply Hne.
  unfold Qcabs in H. destruct (Qclt_le_dec (x - v) 0) as [H'|H'].
  - assert (x - v = 0) by (rewrite <- (Qcopp_involutive (x - v)), <- H; ring). rewrite <- (Qcplus_0_l v), <- H0. ring.
  - rewrite <- (Qcplus_0_l v), H. ring.
Qed.

Lemma argmin_from_zero l i bi : (forall x, In x l -> 0 <= x) -> argmin_from l i bi 0 = bi.
Proof.
  revert i bi. induction l as [|x r IH]; intros i bi H; cbn [argmin_from]; [reflexivity|].
  destruct (Qclt_le_dec x 0) as [Hx|Hx].
  - exfalso. apply (Qclt_not_le _ _ Hx). apply H. left; reflexivity.
  - apply IH. intros y Hy. apply H. right; exact Hy.
Qed.

Lemma argmin_from_index v l i bi bv j : 0 < bv -> index_of v l i = Some j ->
  argmin_from (map (fun y => Qcabs (y - v)) l) i bi bv = j.
Proof.
  revert i bi bv. induction l as [|x r IH]; intros i bi bv Hbv H; cbn [index_of] in H; [discriminate|].
  cbn [map argmin_from]. destruct (Qc_eq_dec x v) as [E|E].
  - inversion H; subst j. rewrite (Qcabs_diff_zero x v E).
    destruct (Qclt_le_dec 0 bv) as [_|Hc]; [|exfalso; apply (Qclt_not_le _ _ Hbv Hc)].
    apply argmin_from_zero. intros y Hy. apply in_map_iff in Hy. destruct Hy as (z & <- & _). apply Qcabs_nonneg.
  - destruct (Qclt_le_dec (Qcabs (x - v)) bv).
    + apply IH; [apply Qcabs_diff_pos, E | exact H].
    + apply IH; assumption.
Qed.

(* the model's index_of is np.argmin(abs(x - v)) whenever v occurs in x *)
Theorem index_of_argmin v l j : index_of v l 0 = Some j -> argmin_first (map (fun y => Qcabs (y - v)) l) = Some j.
Proof.
  destruct l as [|x r]; cbn [index_of map argmin_first]; [discriminate|].
  destruct (Qc_eq_dec x v) as [E|E]; intros H.
  - inversion H; subst j. rewrite (Qcabs_diff_zero x v E). f_equal.
    apply argmin_from_zero. intros y Hy. apply in_map_iff in Hy. destruct Hy as (z & <- & _). apply Qcabs_nonneg.
  - f_equal. apply argmin_from_index; [apply Qcabs_diff_pos, E | exact H].
Qed.


(* singular values stay non-negative and non-increasing under a positive factor *)
Definition sv_sorted (n:nat) (sg:nat -> Qc) : Prop :=
  forall k, (k < n)%nat -> 0 <= sg k /\ ((S k < n)%nat -> sg (S k) <= sg k).
Lemma sv_sorted_scale n sg c : 0 < c -> sv_sorted n sg -> sv_sorted n (fun k => c * sg k).
Proof.
  intros Hc H k Hk. destruct (H k Hk) as (H0 & H1). split.
  - replace 0 with (c * 0) by ring. apply qc_mul_le; assumption.
  - intros Hk'. apply qc_mul_le; [assumption | apply H1, Hk'].
Qed.

(* the whole chain after the SVD at Qc: Sy -> c Sy with the transported singular values leaves every extremum index,
   every log argument and the period unchanged (the inverse FFT enters through its linearity only) *)
Section PipelineQc.
Variable ifft_re : list QcC -> list Qc.
Hypothesis ifft_homog : forall c b, ifft_re (map (cscal QcOps c) b) = map (Qcmult c) (ifft_re b).
Theorem efdd_pipeline_scale_invariant m n cm phi (Sy:nat -> cmat Qc) (sig:nat -> nat -> Qc) svec lim lo hi Nf tlag sppk npmax c :
  0 < c ->
  efdd_after_svd ifft_re
    (map (sdof_bell QcOps Qcgtb m n cm phi (fun l => cmscal QcOps c (Sy l)) (fun l k => c * sig l k) svec lim lo hi) (seq 0 Nf))
    tlag sppk npmax
  = efdd_after_svd ifft_re (map (sdof_bell QcOps Qcgtb m n cm phi Sy sig svec lim lo hi) (seq 0 Nf)) tlag sppk npmax.
Proof.
  intros Hc.
  rewrite (map_ext _ (fun l => cscal QcOps c (sdof_bell QcOps Qcgtb m n cm phi Sy sig svec lim lo hi l)))
    by (intros l; apply (sdof_bell_scale Qc QcOps Qcgtb QcRth)).
  rewrite <- (map_map (sdof_bell QcOps Qcgtb m n cm phi Sy sig svec lim lo hi) (cscal QcOps c)).
  apply efdd_after_svd_scale_invariant; assumption.
Qed.
End PipelineQc.
