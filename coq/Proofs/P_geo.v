(* C19 - lemmas about the geometry model M_geo.v *)
From Coq Require Import List Arith ZArith QArith Qcanon Lia Bool String Permutation Ring.
From PyOMA.Base Require Import Carrier.
From PyOMA.Model Require Import M_geo.
Import ListNotations.
Local Open Scope string_scope.

(* ------------------------------------------------------------------ boolean tests = their declarative reading *)
Lemma smem_In s l : smem s l = true <-> In s l.
Proof.
  unfold smem. rewrite existsb_exists. split.
  - intros (x & Hx & He). apply String.eqb_eq in He. subst. exact Hx.
  - intros H. exists s. split; [exact H|apply String.eqb_refl].
Qed.
Lemma smem_false s l : smem s l = false <-> ~ In s l.
Proof. rewrite <- smem_In. destruct (smem s l); split; intros H; congruence. Qed.
Lemma sl_eqb_eq a b : sl_eqb a b = true <-> a = b.
Proof.
  revert b. induction a as [|x a IH]; intros [|y b]; cbn [sl_eqb]; split; intros H; try discriminate; try reflexivity.
  - apply andb_true_iff in H. destruct H as [H1 H2]. apply String.eqb_eq in H1. apply IH in H2. subst. reflexivity.
  - inversion H; subst. rewrite String.eqb_refl. cbn. apply IH. reflexivity.
Qed.
Lemma nodupb_NoDup l : nodupb l = true <-> NoDup l.
Proof.
  induction l as [|x l IH]; cbn [nodupb]; split; intros H.
  - constructor.
  - reflexivity.
  - apply andb_true_iff in H. destruct H as [H1 H2]. apply negb_true_iff in H1. apply smem_false in H1.
    constructor; [exact H1|apply IH; exact H2].
  - inversion H; subst. apply andb_true_iff. split; [apply negb_true_iff, smem_false; assumption|apply IH; assumption].
Qed.

Definition nonempty (t:tbl) : Prop := nrows t <> 0%nat /\ ncols t <> 0%nat.
Lemma tempty_false t : tempty t = false <-> nonempty t.
Proof.
  unfold tempty, nonempty. rewrite orb_false_iff, !Nat.eqb_neq. reflexivity.
Qed.
Definition Numeric (t:tbl) : Prop := forall r c s, In r (rows t) -> In c (snd r) -> c <> CName s.
Lemma numeric_cell_true c : numeric_cell c = true <-> forall s, c <> CName s.
Proof. destruct c; cbn; split; intros H; try reflexivity; try discriminate; try (intros s0; discriminate). exfalso. apply (H s). reflexivity. Qed.
Lemma numeric_Numeric t : numeric t = true <-> Numeric t.
Proof.
  unfold numeric, Numeric. rewrite forallb_forall. split.
  - intros H r c s Hr Hc. specialize (H r Hr). rewrite forallb_forall in H. specialize (H c Hc). apply numeric_cell_true. exact H.
  - intros H r Hr. rewrite forallb_forall. intros c Hc. apply numeric_cell_true. intros s. apply (H r c s Hr Hc).
Qed.

Lemma nth_error_map_inv {A B} (f:A->B) l k y : nth_error (map f l) k = Some y -> exists x, nth_error l k = Some x /\ f x = y.
Proof.
  revert k. induction l as [|a l IH]; intros [|k] H; cbn in H; try discriminate.
  - inversion H; subst. exists a. split; reflexivity.
  - apply IH. exact H.
Qed.
(* ------------------------------------------------------------------ re-indexing *)
Lemma find_row_some n rs c : find_row n rs = Some c -> In (n,c) rs.
Proof.
  induction rs as [|[l c'] rs IH]; cbn [find_row]; intros H; [discriminate|].
  destruct (String.eqb_spec n l) as [->|Hne].
  - inversion H; subst. left. reflexivity.
  - right. apply IH. exact H.
Qed.
Lemma find_row_none n rs : find_row n rs = None <-> ~ In n (map fst rs).
Proof.
  induction rs as [|[l c'] rs IH]; cbn [find_row map fst].
  - split; [intros _ []|reflexivity].
  - destruct (String.eqb_spec n l) as [->|Hne].
    + split; [discriminate|]. intros H. exfalso. apply H. left. reflexivity.
    + rewrite IH. split; intros H.
      * intros [Hl|Hr]; [apply Hne; symmetry; exact Hl|apply H; exact Hr].
      * intros Hr. apply H. right. exact Hr.
Qed.
Lemma find_row_In n c rs : NoDup (map fst rs) -> In (n,c) rs -> find_row n rs = Some c.
Proof.
  induction rs as [|[l c'] rs IH]; cbn [find_row map fst]; intros Hnd Hin; [destruct Hin|].
  inversion Hnd as [|? ? Hnotin Hnd']; subst.
  destruct Hin as [He|Hin].
  - inversion He; subst. rewrite String.eqb_refl. reflexivity.
  - destruct (String.eqb_spec n l) as [->|Hne].
    + exfalso. apply Hnotin. apply (in_map fst) in Hin. exact Hin.
    + apply IH; assumption.
Qed.
Lemma find_row_perm n rs rs' : Permutation rs rs' -> NoDup (map fst rs) -> find_row n rs = find_row n rs'.
Proof.
  intros Hp Hnd.
  assert (Hnd' : NoDup (map fst rs')) by (eapply Permutation_NoDup; [apply Permutation_map; exact Hp|exact Hnd]).
  destruct (find_row n rs) as [c|] eqn:E.
  - symmetry. apply find_row_In; [exact Hnd'|]. eapply Permutation_in; [exact Hp|]. apply find_row_some. exact E.
  - symmetry. apply find_row_none. apply find_row_none in E. intros Hin. apply E.
    eapply Permutation_in; [apply Permutation_sym, Permutation_map; exact Hp|exact Hin].
Qed.

Lemma reindex_labels names t : labels (reindex names t) = names.
Proof.
  unfold labels, reindex, reindex_rows. cbn [rows]. rewrite map_map.
  induction names as [|n ns IH]; cbn [map]; [reflexivity|].
  rewrite IH. destruct (find_row n (rows t)); reflexivity.
Qed.
Lemma reindex_nrows names t : nrows (reindex names t) = List.length names.
Proof. unfold nrows, reindex, reindex_rows. cbn [rows]. apply map_length. Qed.

(* row k of the re-indexed table is THE row of the table labelled names[k] *)
Theorem reindex_spec : forall names t, NoDup (labels t) -> incl names (labels t) ->
  forall k n, nth_error names k = Some n ->
  exists c, nth_error (rows (reindex names t)) k = Some (n, c) /\ In (n, c) (rows t) /\
            (forall c', In (n, c') (rows t) -> c' = c).
Proof.
  intros names t Hnd Hincl k n Hk.
  assert (Hin : In n (labels t)) by (apply Hincl; eapply nth_error_In; exact Hk).
  destruct (find_row n (rows t)) as [c|] eqn:E.
  - exists c. split; [|split].
    + unfold reindex, reindex_rows. cbn [rows].
      erewrite map_nth_error by exact Hk. rewrite E. reflexivity.
    + apply find_row_some. exact E.
    + intros c' Hc'. apply (find_row_In n c' (rows t) Hnd) in Hc'. congruence.
  - exfalso. apply find_row_none in E. apply E. exact Hin.
Qed.
(* ... whatever the order of the rows of the table *)
Theorem reindex_perm : forall names t t', cols t = cols t' -> Permutation (rows t) (rows t') -> NoDup (labels t) ->
  reindex names t = reindex names t'.
Proof.
  intros names t t' Hc Hp Hnd. unfold reindex, reindex_rows, ncols. rewrite Hc. f_equal.
  apply map_ext. intros n. rewrite (find_row_perm n _ _ Hp Hnd). reflexivity.
Qed.
Lemma reindex_p_eq names t : reindex_ok names t = true -> incl names (labels t) ->
  labels (reindex_p names t) = names /\
  forall k n, nth_error names k = Some n -> exists c, nth_error (rows (reindex_p names t)) k = Some (n, c) /\ In (n, c) (rows t).
Proof.
  unfold reindex_ok, reindex_p. intros Hok Hincl.
  destruct (sl_eqb (labels t) names) eqn:E.
  - apply sl_eqb_eq in E. split; [exact E|]. intros k n Hk. rewrite <- E in Hk. unfold labels in Hk.
    apply nth_error_map_inv in Hk. destruct Hk as ([l c] & Er & Hl). cbn in Hl. subst l. exists c. split; [exact Er|]. eapply nth_error_In. exact Er.
  - rewrite orb_false_r in Hok. apply nodupb_NoDup in Hok. split; [apply reindex_labels|].
    intros k n Hk. destruct (reindex_spec names t Hok Hincl k n Hk) as (c & H1 & H2 & _). exists c. split; assumption.
Qed.

(* ------------------------------------------------------------------ validation: pieces *)
Definition shift_val (o:option tbl) : option (list (list cell)) :=
  match o with Some t => if tempty t then None else Some (shift_body t) | None => None end.
Definition shiftable (o:option tbl) : Prop := forall t, o = Some t -> nonempty t -> Numeric t.
Definition cols_ok (o:option tbl) (n:nat) : Prop := forall t, o = Some t -> nonempty t -> ncols t = n.
Definition keys_ok (allowed:list string) (d:list (string*tbl)) : Prop := forall k, In k (map fst d) -> In k allowed.

Lemma shift_out_ok o x : shift_out o = Ok x <-> shiftable o /\ x = shift_val o.
Proof.
  unfold shift_out, shiftable, shift_val. destruct o as [t|].
  - destruct (tempty t) eqn:Et.
    + split.
      * intros H. inversion H; subst. split; [|reflexivity]. intros t' Ht' Hne. inversion Ht'; subst.
        apply tempty_false in Hne. congruence.
      * intros [_ ->]. reflexivity.
    + destruct (numeric t) eqn:En.
      * split.
        -- intros H. inversion H; subst. split; [|reflexivity]. intros t' Ht' _. inversion Ht'; subst. apply numeric_Numeric. exact En.
        -- intros [_ ->]. reflexivity.
      * split; [discriminate|]. intros [H _]. exfalso.
        assert (Hn : Numeric t) by (apply H; [reflexivity|apply tempty_false; exact Et]).
        apply numeric_Numeric in Hn. congruence.
  - split.
    + intros H. inversion H; subst. split; [intros t Ht; discriminate|reflexivity].
    + intros [_ ->]. reflexivity.
Qed.
Lemma bad_cols_false o n : bad_cols o n = false <-> cols_ok o n.
Proof.
  unfold bad_cols, cols_ok. destruct o as [t|].
  - split.
    + intros H t' Ht' Hne. inversion Ht'; subst. apply tempty_false in Hne. rewrite Hne in H. cbn in H.
      apply negb_false_iff in H. apply Nat.eqb_eq in H. exact H.
    + intros H. destruct (tempty t) eqn:Et; [reflexivity|]. cbn. apply negb_false_iff, Nat.eqb_eq.
      apply H; [reflexivity|apply tempty_false; exact Et].
  - split; [intros _ t Ht; discriminate|reflexivity].
Qed.
Lemma keys_okb allowed d : forallb (fun kv : string * tbl => smem (fst kv) allowed) d = true <-> keys_ok allowed d.
Proof.
  unfold keys_ok. rewrite forallb_forall. split.
  - intros H k Hk. apply in_map_iff in Hk. destruct Hk as (kv & <- & Hin). apply smem_In. apply H. exact Hin.
  - intros H kv Hin. apply smem_In. apply H. apply in_map. exact Hin.
Qed.
Lemma shape_eqb_true a b : shape_eqb a b = true <-> nrows a = nrows b /\ ncols a = ncols b.
Proof. unfold shape_eqb. rewrite andb_true_iff, !Nat.eqb_eq. reflexivity. Qed.
Lemma incl_b names l : forallb (fun n => smem n l) names = true <-> incl names l.
Proof.
  rewrite forallb_forall. unfold incl. split; intros H n Hn.
  - apply smem_In. apply H. exact Hn.
  - apply smem_In. apply H. exact Hn.
Qed.
Lemma reindex_ok_true names t : reindex_ok names t = true <-> NoDup (labels t) \/ labels t = names.
Proof. unfold reindex_ok. rewrite orb_true_iff, nodupb_NoDup, sl_eqb_eq. reflexivity. Qed.

Ltac brk H :=
  repeat match type of H with
  | (if negb ?b then _ else _) = Ok _ => let E := fresh "E" in destruct b eqn:E; cbn [negb] in H; [|discriminate H]
  | (if ?b then Err _ else _) = Ok _ => let E := fresh "E" in destruct b eqn:E; [discriminate H|]
  | match ?x with _ => _ end = Ok _ => let E := fresh "E" in destruct x eqn:E; try discriminate H
  end.

(* ------------------------------------------------------------------ check_on_geo1: Ok iff well-formed, and what it returns *)
Definition wf_geo1_at (fd:fdict) (ref:option (list (list nat))) (nf:names_form) (co di:tbl) (names:list string) : Prop :=
  let d := drop_info (fd_tabs fd) in
  (* required sheets present *)
  fd_names fd = Some nf /\ getk "sensors coordinates" d = Some co /\ getk "sensors directions" d = Some di /\
  (* no unknown sheet *)
  keys_ok geo1_sheets d /\
  (* column count; equal shapes and indices *)
  ncols co = 3%nat /\ (nrows co = nrows di /\ ncols co = ncols di) /\ labels co = labels di /\
  (* the names (in mode-shape row order) all label a row of the coordinate table, whose labels are unambiguous *)
  flatten_names nf ref = Ok names /\ incl names (labels co) /\ (NoDup (labels co) \/ labels co = names) /\
  (* optional sheets: only IF present and non-empty *)
  cols_ok (getk "BG nodes" d) 3 /\ cols_ok (getk "BG lines" d) 2 /\ cols_ok (getk "BG surfaces" d) 3 /\
  shiftable (getk "sensors lines" d) /\ shiftable (getk "BG lines" d) /\ shiftable (getk "BG surfaces" d).
Definition wf_geo1 (fd:fdict) (ref:option (list (list nat))) : Prop := exists nf co di names, wf_geo1_at fd ref nf co di names.
Definition geo1_of (fd:fdict) (co di:tbl) (names:list string) : geo1 :=
  let d := drop_info (fd_tabs fd) in
  mkG1 names (reindex_p names co) (body (reindex_p names di)) (shift_val (getk "sensors lines" d))
       (arr_out (getk "BG nodes" d)) (shift_val (getk "BG lines" d)) (shift_val (getk "BG surfaces" d)).

Theorem geo1_ok_iff : forall fd ref g,
  check_geo1 fd ref = Ok g <-> exists nf co di names, wf_geo1_at fd ref nf co di names /\ g = geo1_of fd co di names.
Proof.
  intros fd ref g. unfold wf_geo1_at, geo1_of. split.
  - intros H. unfold check_geo1 in H. brk H.
    match goal with Hs : shift_out _ = Ok _ |- _ => apply shift_out_ok in Hs end.
    match goal with Hs : shift_out _ = Ok _ |- _ => apply shift_out_ok in Hs end.
    match goal with Hs : shift_out _ = Ok _ |- _ => apply shift_out_ok in Hs end.
    repeat match goal with Hs : shiftable _ /\ _ = _ |- _ => destruct Hs as [? ->] end.
    inversion H; subst g.
    eexists _, _, _, _. repeat split; try eassumption; try reflexivity.
    + apply keys_okb. assumption.
    + apply Nat.eqb_eq. assumption.
    + match goal with Hs : shape_eqb _ _ = true |- _ => apply shape_eqb_true in Hs; apply Hs end.
    + match goal with Hs : shape_eqb _ _ = true |- _ => apply shape_eqb_true in Hs; apply Hs end.
    + apply sl_eqb_eq. assumption.
    + apply incl_b. assumption.
    + apply reindex_ok_true. assumption.
    + apply bad_cols_false. assumption.
    + apply bad_cols_false. assumption.
    + apply bad_cols_false. assumption.
  - intros (nf & co & di & names & (Hn & Hco & Hdi & Hk & Hc3 & Hsh & Hlab & Hfl & Hincl & Hnd & Hb1 & Hb2 & Hb3 & Hs1 & Hs2 & Hs3) & ->).
    unfold check_geo1. rewrite Hn, Hco, Hdi.
    apply keys_okb in Hk. rewrite Hk. cbn [negb].
    apply Nat.eqb_eq in Hc3. rewrite Hc3. cbn [negb].
    apply shape_eqb_true in Hsh. rewrite Hsh. cbn [negb].
    apply bad_cols_false in Hb1. apply bad_cols_false in Hb2. apply bad_cols_false in Hb3. rewrite Hb1, Hb2, Hb3.
    apply sl_eqb_eq in Hlab. rewrite Hlab. cbn [negb]. rewrite Hfl.
    apply incl_b in Hincl. rewrite Hincl. cbn [negb].
    apply reindex_ok_true in Hnd. rewrite Hnd. cbn [negb].
    assert (X1 := proj2 (shift_out_ok _ _) (conj Hs1 eq_refl)).
    assert (X2 := proj2 (shift_out_ok _ _) (conj Hs2 eq_refl)).
    assert (X3 := proj2 (shift_out_ok _ _) (conj Hs3 eq_refl)).
    rewrite X1, X2, X3. reflexivity.
Qed.
Theorem geo1_valid_iff : forall fd ref, (exists g, check_geo1 fd ref = Ok g) <-> wf_geo1 fd ref.
Proof.
  intros fd ref. unfold wf_geo1. split.
  - intros (g & H). apply geo1_ok_iff in H. destruct H as (nf & co & di & names & H & _). eauto.
  - intros (nf & co & di & names & H). exists (geo1_of fd co di names). apply geo1_ok_iff. eauto 8.
Qed.

(* ------------------------------------------------------------------ check_on_geo2 *)
Lemma cells_fill t : cells_of (fill_tbl t) = map fill0 (cells_of t).
Proof.
  unfold cells_of, body, fill_tbl. cbn [rows]. rewrite map_map.
  induction (rows t) as [|r rs IH]; cbn [map List.concat snd] in *; [reflexivity|]. rewrite map_app, <- IH. reflexivity.
Qed.
Lemma in_fill_name n l : In (CName n) (map fill0 l) <-> In (CName n) l.
Proof.
  rewrite in_map_iff. split.
  - intros (c & Hc & Hin). destruct c; cbn in Hc; try discriminate. inversion Hc; subst. exact Hin.
  - intros H. exists (CName n). split; [reflexivity|exact H].
Qed.
Lemma named_b n l : existsb (cell_named n) l = true <-> In (CName n) l.
Proof.
  rewrite existsb_exists. split.
  - intros (c & Hin & Hc). destruct c; cbn in Hc; try discriminate. apply String.eqb_eq in Hc. subst. exact Hin.
  - intros H. exists (CName n). split; [exact H|]. cbn. apply String.eqb_refl.
Qed.
Lemma cstr_b names i l : existsb (cell_cstr names i) l = true <-> In (CName i) l /\ ~ In i names /\ ~ In i reserved_cells.
Proof.
  rewrite existsb_exists. split.
  - intros (c & Hin & Hc). destruct c; cbn [cell_cstr] in Hc; try discriminate.
    apply andb_true_iff in Hc. destruct Hc as [Hc H3]. apply andb_true_iff in Hc. destruct Hc as [H1 H2].
    apply String.eqb_eq in H1. subst. apply negb_true_iff in H2, H3. apply smem_false in H2, H3. auto.
  - intros (H1 & H2 & H3). exists (CName i). split; [exact H1|]. cbn [cell_cstr]. rewrite String.eqb_refl.
    apply smem_false in H2, H3. rewrite H2, H3. reflexivity.
Qed.
Lemma fill_cols t : cols (fill_tbl t) = cols t. Proof. reflexivity. Qed.
Lemma fill_labels t : labels (fill_tbl t) = labels t.
Proof. unfold labels, fill_tbl. cbn [rows]. rewrite map_map. reflexivity. Qed.

Definition sign_ok (pts:tbl) (o:option tbl) : Prop := forall sg, o = Some sg -> nonempty sg -> nrows pts = nrows sg /\ ncols pts = ncols sg.
Lemma sign_b pts o : given o && negb (shape_eqb pts (or_empty o)) = false <-> sign_ok pts o.
Proof.
  unfold given, sign_ok, or_empty. destruct o as [sg|].
  - split.
    + intros H sg' Hs Hne. inversion Hs; subst. apply tempty_false in Hne. rewrite Hne in H. cbn in H.
      apply negb_false_iff in H. apply shape_eqb_true in H. exact H.
    + intros H. destruct (tempty sg) eqn:Et; [reflexivity|]. cbn. apply negb_false_iff, shape_eqb_true.
      apply H; [reflexivity|apply tempty_false; exact Et].
  - split; [intros _ sg Hs; discriminate|reflexivity].
Qed.

Definition cstr0 (fd:fdict) : tbl := or_empty (getk "constraints" (drop_info (fd_tabs fd))).
Definition wf_geo2_at (fd:fdict) (ref:option (list (list nat))) (nf:names_form) (pts mp:tbl) (names:list string) : Prop :=
  let d := drop_info (fd_tabs fd) in
  (* required sheets present *)
  fd_names fd = Some nf /\ getk "points coordinates" d = Some pts /\ getk "mapping" d = Some mp /\
  (* no unknown sheet *)
  keys_ok geo2_sheets d /\
  (* column count; equal shapes *)
  ncols pts = 3%nat /\ (nrows pts = nrows mp /\ ncols pts = ncols mp) /\
  (* every sensor name (in mode-shape row order) is named by a cell of the mapping *)
  flatten_names nf ref = Ok names /\ (forall n, In n names -> In (CName n) (cells_of mp)) /\
  (* constraint columns are sensor names; constraint rows are names the mapping uses and that are not sensors *)
  incl (cols (cstr0 fd)) names /\
  (forall i, In i (labels (cstr0 fd)) -> In (CName i) (cells_of mp) /\ ~ In i names /\ ~ In i reserved_cells) /\
  (* optional sheets: only IF present and non-empty *)
  sign_ok pts (getk "sensors sign" d) /\
  cols_ok (getk "BG nodes" d) 3 /\ cols_ok (getk "BG lines" d) 2 /\ cols_ok (getk "BG surfaces" d) 3 /\
  shiftable (getk "sensors lines" d) /\ shiftable (getk "sensors surfaces" d) /\ shiftable (getk "BG lines" d) /\ shiftable (getk "BG surfaces" d).
Definition wf_geo2 (fd:fdict) (ref:option (list (list nat))) : Prop := exists nf pts mp names, wf_geo2_at fd ref nf pts mp names.
Definition sign_of (fd:fdict) (pts:tbl) : tbl :=
  let o := getk "sensors sign" (drop_info (fd_tabs fd)) in if given o then or_empty o else ones_like pts.
Definition geo2_of (fd:fdict) (pts mp:tbl) (names:list string) : geo2 :=
  let d := drop_info (fd_tabs fd) in
  mkG2 names (opt_tbl pts) (opt_tbl (fill_tbl mp)) (opt_tbl (complete_cstr names (fill_tbl (cstr0 fd)))) (opt_tbl (sign_of fd pts))
       (shift_val (getk "sensors lines" d)) (shift_val (getk "sensors surfaces" d)) (arr_out (getk "BG nodes" d))
       (shift_val (getk "BG lines" d)) (shift_val (getk "BG surfaces" d)).

Lemma names_in_map_b names mp :
  forallb (fun n => existsb (cell_named n) (cells_of (fill_tbl mp))) names = true <-> (forall n, In n names -> In (CName n) (cells_of mp)).
Proof.
  rewrite forallb_forall. split; intros H n Hn.
  - specialize (H n Hn). apply named_b in H. rewrite cells_fill in H. apply (proj1 (in_fill_name _ _)) in H. exact H.
  - apply named_b. rewrite cells_fill. apply (proj2 (in_fill_name _ _)). apply H. exact Hn.
Qed.
Lemma cstr_rows_b names mp cs :
  forallb (fun i => existsb (cell_cstr names i) (cells_of (fill_tbl mp))) (labels (fill_tbl cs)) = true <->
  (forall i, In i (labels cs) -> In (CName i) (cells_of mp) /\ ~ In i names /\ ~ In i reserved_cells).
Proof.
  rewrite forallb_forall, fill_labels. split; intros H i Hi.
  - specialize (H i Hi). apply cstr_b in H. rewrite cells_fill, in_fill_name in H. exact H.
  - apply cstr_b. rewrite cells_fill, in_fill_name. apply H. exact Hi.
Qed.

Theorem geo2_ok_iff : forall fd ref g,
  check_geo2 fd ref = Ok g <-> exists nf pts mp names, wf_geo2_at fd ref nf pts mp names /\ g = geo2_of fd pts mp names.
Proof.
  intros fd ref g. unfold wf_geo2_at, geo2_of, sign_of, cstr0. split.
  - intros H. unfold check_geo2 in H. brk H.
    repeat match goal with Hs : shift_out _ = Ok _ |- _ => apply shift_out_ok in Hs end.
    repeat match goal with Hs : shiftable _ /\ _ = _ |- _ => destruct Hs as [? ->] end.
    inversion H; subst g.
    eexists _, _, _, _. split; [|reflexivity].
    split; [reflexivity|]. split; [reflexivity|]. split; [reflexivity|].
    split; [apply keys_okb; assumption|].
    split; [apply Nat.eqb_eq; assumption|].
    split; [apply shape_eqb_true; assumption|].
    split; [eassumption|].
    split; [apply names_in_map_b; assumption|].
    split; [apply incl_b; assumption|].
    split; [apply cstr_rows_b; assumption|].
    split; [apply sign_b; assumption|].
    split; [apply bad_cols_false; assumption|].
    split; [apply bad_cols_false; assumption|].
    split; [apply bad_cols_false; assumption|].
    split; [assumption|]. split; [assumption|]. split; assumption.
  - intros (nf & pts & mp & names & (Hn & Hp & Hm & Hk & Hc3 & Hsh & Hfl & Hnm & Hcc & Hcr & Hsg & Hb1 & Hb2 & Hb3 & Hs1 & Hs2 & Hs3 & Hs4) & ->).
    unfold check_geo2. rewrite Hn, Hp, Hm.
    apply keys_okb in Hk. rewrite Hk. cbn [negb].
    apply Nat.eqb_eq in Hc3. rewrite Hc3. cbn [negb].
    apply shape_eqb_true in Hsh. rewrite Hsh. cbn [negb].
    apply sign_b in Hsg. rewrite Hsg.
    apply bad_cols_false in Hb1. apply bad_cols_false in Hb2. apply bad_cols_false in Hb3. rewrite Hb1, Hb2, Hb3.
    rewrite Hfl.
    apply names_in_map_b in Hnm. rewrite Hnm. cbn [negb].
    rewrite fill_cols. apply incl_b in Hcc. rewrite Hcc. cbn [negb].
    apply cstr_rows_b in Hcr. rewrite Hcr. cbn [negb].
    assert (X1 := proj2 (shift_out_ok _ _) (conj Hs1 eq_refl)).
    assert (X2 := proj2 (shift_out_ok _ _) (conj Hs2 eq_refl)).
    assert (X3 := proj2 (shift_out_ok _ _) (conj Hs3 eq_refl)).
    assert (X4 := proj2 (shift_out_ok _ _) (conj Hs4 eq_refl)).
    rewrite X1, X2, X3, X4. reflexivity.
Qed.
Theorem geo2_valid_iff : forall fd ref, (exists g, check_geo2 fd ref = Ok g) <-> wf_geo2 fd ref.
Proof.
  intros fd ref. unfold wf_geo2. split.
  - intros (g & H). apply geo2_ok_iff in H. destruct H as (nf & co & di & names & H & _). eauto.
  - intros (nf & co & di & names & H). exists (geo2_of fd co di names). apply geo2_ok_iff. eauto 8.
Qed.

(* ------------------------------------------------------------------ every optional sheet may be omitted *)
Lemma getk_filter k k' d :
  getk k' (filter (fun kv : string * tbl => negb (String.eqb (fst kv) k)) d) = if String.eqb k' k then None else getk k' d.
Proof.
  unfold getk. induction d as [|[a t] d IH]; cbn [filter find fst].
  - destruct (String.eqb k' k); reflexivity.
  - destruct (String.eqb_spec a k) as [->|Hak]; cbn [negb].
    + rewrite IH. destruct (String.eqb_spec k' k) as [->|Hk]; [reflexivity|].
      cbn [find fst]. destruct (String.eqb_spec k k') as [Hkk|_]; [exfalso; apply Hk; symmetry; exact Hkk|reflexivity].
    + cbn [find fst]. destruct (String.eqb_spec a k') as [->|Hak'].
      * destruct (String.eqb_spec k' k) as [->|_]; [exfalso; apply Hak; reflexivity|reflexivity].
      * exact IH.
Qed.
Lemma filter_comm {A} (f g:A->bool) l : filter f (filter g l) = filter g (filter f l).
Proof.
  induction l as [|x l IH]; cbn [filter]; [reflexivity|].
  destruct (g x) eqn:Eg, (f x) eqn:Ef; cbn [filter]; rewrite ?Eg, ?Ef, IH; reflexivity.
Qed.
Lemma drop_info_remove k fd : drop_info (fd_tabs (remove_key k fd)) = filter (fun kv => negb (String.eqb (fst kv) k)) (drop_info (fd_tabs fd)).
Proof. unfold drop_info, remove_key. cbn [fd_tabs]. apply filter_comm. Qed.
Lemma getk_remove k k' fd :
  getk k' (drop_info (fd_tabs (remove_key k fd))) = if String.eqb k' k then None else getk k' (drop_info (fd_tabs fd)).
Proof. rewrite drop_info_remove. apply getk_filter. Qed.
Lemma keys_ok_filter allowed (p:string*tbl->bool) d : keys_ok allowed d -> keys_ok allowed (filter p d).
Proof.
  unfold keys_ok. intros H k Hk. apply H. apply in_map_iff in Hk. destruct Hk as (kv & <- & Hin).
  apply filter_In in Hin. apply in_map. apply Hin.
Qed.
Lemma cols_ok_if (b:bool) o n : cols_ok o n -> cols_ok (if b then None else o) n.
Proof. destruct b; [intros _ t Ht; discriminate|auto]. Qed.
Lemma shiftable_if (b:bool) o : shiftable o -> shiftable (if b then None else o).
Proof. destruct b; [intros _ t Ht; discriminate|auto]. Qed.
Lemma sign_ok_if (b:bool) pts o : sign_ok pts o -> sign_ok pts (if b then None else o).
Proof. destruct b; [intros _ t Ht; discriminate|auto]. Qed.
Lemma shift_val_if (b:bool) o : shift_val (if b then None else o) = if b then None else shift_val o.
Proof. destruct b; reflexivity. Qed.
Lemma arr_out_if (b:bool) o : arr_out (if b then None else o) = if b then None else arr_out o.
Proof. destruct b; reflexivity. Qed.
Lemma neq_eqb a b : a <> b -> String.eqb a b = false.
Proof. intros H. destruct (String.eqb_spec a b); [contradiction|reflexivity]. Qed.

(* the geometry obtained when sheet k is left out: that field is None, everything else is unchanged *)
Definition clear1 (k:string) (g:geo1) : geo1 :=
  mkG1 (g1_names g) (g1_coord g) (g1_dir g)
    (if String.eqb "sensors lines" k then None else g1_lines g) (if String.eqb "BG nodes" k then None else g1_bgn g)
    (if String.eqb "BG lines" k then None else g1_bgl g) (if String.eqb "BG surfaces" k then None else g1_bgs g).
Theorem geo1_omit : forall fd ref g k, k <> "sensors coordinates" -> k <> "sensors directions" ->
  check_geo1 fd ref = Ok g -> check_geo1 (remove_key k fd) ref = Ok (clear1 k g).
Proof.
  intros fd ref g k Hk1 Hk2 H. apply geo1_ok_iff in H. destruct H as (nf & co & di & names & Hwf & ->).
  apply geo1_ok_iff. exists nf, co, di, names.
  assert (E1 : String.eqb "sensors coordinates" k = false) by (apply neq_eqb; intros E; apply Hk1; symmetry; exact E).
  assert (E2 : String.eqb "sensors directions" k = false) by (apply neq_eqb; intros E; apply Hk2; symmetry; exact E).
  split.
  - unfold wf_geo1_at in *. rewrite !getk_remove, E1, E2, drop_info_remove.
    destruct Hwf as (Hn & Hco & Hdi & Hk & Hc3 & Hsh & Hlab & Hfl & Hincl & Hnd & Hb1 & Hb2 & Hb3 & Hs1 & Hs2 & Hs3).
    repeat (split; [first [assumption | apply keys_ok_filter; assumption | apply cols_ok_if; assumption | apply shiftable_if; assumption]|]).
    apply shiftable_if; assumption.
  - unfold geo1_of, clear1. cbn [g1_names g1_coord g1_dir g1_lines g1_bgn g1_bgl g1_bgs].
    rewrite !getk_remove, !shift_val_if, arr_out_if. reflexivity.
Qed.
Theorem geo1_optional_sheets_optional : forall fd ref g k, In k geo1_optional ->
  check_geo1 fd ref = Ok g -> check_geo1 (remove_key k fd) ref = Ok (clear1 k g).
Proof.
  intros fd ref g k Hin. apply geo1_omit; intros ->; cbn in Hin; repeat (destruct Hin as [Hin|Hin]; [discriminate Hin|]); exact Hin.
Qed.

Lemma ones_like_empty t : tempty (ones_like t) = tempty t.
Proof. unfold tempty, ones_like, nrows, ncols. cbn [rows cols]. rewrite map_length, seq_length. reflexivity. Qed.
Definition clear2 (k:string) (g:geo2) : geo2 :=
  mkG2 (g2_names g) (g2_pts g) (g2_map g)
    (if String.eqb "constraints" k then None else g2_cstr g)
    (if String.eqb "sensors sign" k then match g2_pts g with Some pts => Some (ones_like pts) | None => None end else g2_sign g)
    (if String.eqb "sensors lines" k then None else g2_lines g) (if String.eqb "sensors surfaces" k then None else g2_surf g)
    (if String.eqb "BG nodes" k then None else g2_bgn g)
    (if String.eqb "BG lines" k then None else g2_bgl g) (if String.eqb "BG surfaces" k then None else g2_bgs g).
Lemma cstr0_remove k fd : cstr0 (remove_key k fd) = if String.eqb "constraints" k then empty_tbl else cstr0 fd.
Proof. unfold cstr0. rewrite getk_remove. destruct (String.eqb "constraints" k); reflexivity. Qed.
Theorem geo2_omit : forall fd ref g k, k <> "points coordinates" -> k <> "mapping" ->
  check_geo2 fd ref = Ok g -> check_geo2 (remove_key k fd) ref = Ok (clear2 k g).
Proof.
  intros fd ref g k Hk1 Hk2 H. apply geo2_ok_iff in H. destruct H as (nf & pts & mp & names & Hwf & ->).
  apply geo2_ok_iff. exists nf, pts, mp, names.
  assert (E1 : String.eqb "points coordinates" k = false) by (apply neq_eqb; intros E; apply Hk1; symmetry; exact E).
  assert (E2 : String.eqb "mapping" k = false) by (apply neq_eqb; intros E; apply Hk2; symmetry; exact E).
  split.
  - unfold wf_geo2_at in *. rewrite !getk_remove, E1, E2, drop_info_remove, cstr0_remove.
    destruct Hwf as (Hn & Hp & Hm & Hk & Hc3 & Hsh & Hfl & Hnm & Hcc & Hcr & Hsg & Hb1 & Hb2 & Hb3 & Hs1 & Hs2 & Hs3 & Hs4).
    split; [assumption|]. split; [assumption|]. split; [assumption|].
    split; [apply keys_ok_filter; assumption|].
    split; [assumption|]. split; [assumption|]. split; [assumption|]. split; [assumption|].
    split; [destruct (String.eqb "constraints" k); [intros x []|assumption]|].
    split; [destruct (String.eqb "constraints" k); [intros x []|assumption]|].
    split; [apply sign_ok_if; assumption|].
    split; [apply cols_ok_if; assumption|]. split; [apply cols_ok_if; assumption|]. split; [apply cols_ok_if; assumption|].
    split; [apply shiftable_if; assumption|]. split; [apply shiftable_if; assumption|]. split; apply shiftable_if; assumption.
  - unfold geo2_of, clear2, sign_of. cbn [g2_names g2_pts g2_map g2_cstr g2_sign g2_lines g2_surf g2_bgn g2_bgl g2_bgs].
    rewrite !getk_remove, !shift_val_if, arr_out_if, cstr0_remove. f_equal.
    + destruct (String.eqb "constraints" k); reflexivity.
    + destruct (String.eqb "sensors sign" k); [|reflexivity]. cbn [given]. unfold opt_tbl. rewrite ones_like_empty.
      destruct (tempty pts); reflexivity.
Qed.
Theorem geo2_optional_sheets_optional : forall fd ref g k, In k geo2_optional ->
  check_geo2 fd ref = Ok g -> check_geo2 (remove_key k fd) ref = Ok (clear2 k g).
Proof.
  intros fd ref g k Hin. apply geo2_omit; intros ->; cbn in Hin; repeat (destruct Hin as [Hin|Hin]; [discriminate Hin|]); exact Hin.
Qed.

(* ------------------------------------------------------------------ one-based -> zero-based *)
Definition cell_at {A} (m:list (list A)) (i j:nat) : option A :=
  match nth_error m i with Some r => nth_error r j | None => None end.
Lemma cell_at_map {A B} (f:A->B) m i j c : cell_at m i j = Some c -> cell_at (map (map f) m) i j = Some (f c).
Proof.
  unfold cell_at. destruct (nth_error m i) as [r|] eqn:E; [|discriminate]. intros H.
  erewrite map_nth_error by exact E. apply map_nth_error. exact H.
Qed.
Definition dec1 (c:cell) : cell := match c with CNum x => CNum (x - 1)%Qc | c' => c' end.
(* out is the sheet o with every number decreased by one (same shape, NaN kept), None when the sheet is absent or empty *)
Definition shifted (o:option tbl) (out:option (list (list cell))) : Prop :=
  (forall t, o = Some t -> nonempty t -> exists b, out = Some b /\ List.length b = nrows t /\
      forall i j c, cell_at (body t) i j = Some c -> cell_at b i j = Some (dec1 c)) /\
  ((o = None \/ exists t, o = Some t /\ ~ nonempty t) -> out = None).
Definition kept (o:option tbl) (out:option (list (list cell))) : Prop :=
  (forall t, o = Some t -> nonempty t -> out = Some (body t)) /\
  ((o = None \/ exists t, o = Some t /\ ~ nonempty t) -> out = None).
Lemma shift_val_shifted o : shifted o (shift_val o).
Proof.
  unfold shifted, shift_val. split.
  - intros t -> Hne. apply tempty_false in Hne. rewrite Hne. exists (shift_body t). split; [reflexivity|]. split.
    + unfold shift_body, body, nrows. rewrite !map_length. reflexivity.
    + intros i j c Hc. unfold shift_body. apply (cell_at_map shift_cell) in Hc. exact Hc.
  - intros [->|(t & -> & Hne)]; [reflexivity|]. destruct (tempty t) eqn:Et; [reflexivity|].
    exfalso. apply Hne. apply tempty_false. exact Et.
Qed.
Lemma arr_out_kept o : kept o (arr_out o).
Proof.
  unfold kept, arr_out. split.
  - intros t -> Hne. apply tempty_false in Hne. rewrite Hne. reflexivity.
  - intros [->|(t & -> & Hne)]; [reflexivity|]. destruct (tempty t) eqn:Et; [reflexivity|].
    exfalso. apply Hne. apply tempty_false. exact Et.
Qed.
Theorem geo1_index_shift : forall fd ref g, check_geo1 fd ref = Ok g ->
  let d := drop_info (fd_tabs fd) in
  shifted (getk "sensors lines" d) (g1_lines g) /\ shifted (getk "BG lines" d) (g1_bgl g) /\
  shifted (getk "BG surfaces" d) (g1_bgs g) /\ kept (getk "BG nodes" d) (g1_bgn g).
Proof.
  intros fd ref g H. apply geo1_ok_iff in H. destruct H as (nf & co & di & names & _ & ->).
  unfold geo1_of. cbn [g1_lines g1_bgl g1_bgs g1_bgn].
  repeat split; first [apply shift_val_shifted | apply arr_out_kept].
Qed.
Theorem geo2_index_shift : forall fd ref g, check_geo2 fd ref = Ok g ->
  let d := drop_info (fd_tabs fd) in
  shifted (getk "sensors lines" d) (g2_lines g) /\ shifted (getk "sensors surfaces" d) (g2_surf g) /\
  shifted (getk "BG lines" d) (g2_bgl g) /\ shifted (getk "BG surfaces" d) (g2_bgs g) /\ kept (getk "BG nodes" d) (g2_bgn g).
Proof.
  intros fd ref g H. apply geo2_ok_iff in H. destruct H as (nf & co & di & names & _ & ->).
  unfold geo2_of. cbn [g2_lines g2_surf g2_bgl g2_bgs g2_bgn].
  repeat split; first [apply shift_val_shifted | apply arr_out_kept].
Qed.

(* ------------------------------------------------------------------ order of the sensor names *)
(* drop_at keeps, in ascending position, exactly the entries whose position is not listed *)
Lemma drop_at_spec {A} (l:list A) idx p :
  drop_at l idx p = map snd (filter (fun jx => negb (existsb (Nat.eqb (fst jx)) idx)) (combine (seq p (List.length l)) l)).
Proof.
  revert p. induction l as [|x l IH]; intros p; cbn [drop_at List.length seq combine filter map fst]; [reflexivity|].
  destruct (existsb (Nat.eqb p) idx); cbn [negb map snd]; rewrite IH; reflexivity.
Qed.
Lemma ref_names_nth k i : (i < k)%nat -> nth_error (ref_names k) i = Some ("REF" ++ nat_str (S i)).
Proof.
  intros Hi. unfold ref_names. apply (map_nth_error (fun i0 => "REF" ++ nat_str (S i0))).
  rewrite nth_error_nth' with (d:=0%nat) by (rewrite seq_length; exact Hi). rewrite seq_nth by exact Hi. reflexivity.
Qed.
Lemma ref_names_length k : List.length (ref_names k) = k.
Proof. unfold ref_names. rewrite map_length, seq_length. reflexivity. Qed.
Definition rovings (setups:list (list string)) (rl:list (list nat)) : list string :=
  List.concat (map (fun nr => drop_at (fst nr) (snd nr) 0) (combine setups rl)).
Theorem flatten_forms : forall ref,
  (forall r, flatten_names (NRow r) ref = Ok r) /\ (forall l, flatten_names (NArr l) ref = Ok l) /\
  (forall l, l <> [] -> flatten_names (NList l) ref = Ok l) /\
  (forall setups r0 rl, (List.length setups <= List.length (r0::rl))%nat ->
     flatten_names (NLists setups) (Some (r0::rl)) = Ok (ref_names (List.length r0) ++ rovings setups (r0::rl))%list) /\
  (forall r1 r2 rs, flatten_names (NTab r1 r2 rs) ref = flatten_names (NLists (map somes (r1::r2::rs))) ref) /\
  (forall setups, flatten_names (NLists setups) None = Err AttrErr).
Proof.
  intros ref. repeat split; try reflexivity.
  - intros [|x l] H; [contradiction H; reflexivity|reflexivity].
  - intros setups r0 rl Hlen. cbn [flatten_names flatten_multi].
    destruct (Nat.ltb_spec (List.length (r0::rl)) (List.length setups)) as [Hlt|_]; [lia|reflexivity].
Qed.
(* multi-setup: the first k rows of every mode shape are REF1..REFk, then each setup's roving names in setup order *)
Theorem flatten_ref_first : forall setups r0 rl names, flatten_names (NLists setups) (Some (r0::rl)) = Ok names ->
  (forall i, (i < List.length r0)%nat -> nth_error names i = Some ("REF" ++ nat_str (S i))) /\
  (forall j, nth_error names (List.length r0 + j) = nth_error (rovings setups (r0::rl)) j).
Proof.
  intros setups r0 rl names H. cbn [flatten_names flatten_multi] in H.
  destruct (Nat.ltb (List.length (r0::rl)) (List.length setups)); [discriminate|]. inversion H; subst names. split.
  - intros i Hi. rewrite nth_error_app1 by (rewrite ref_names_length; exact Hi). apply ref_names_nth. exact Hi.
  - intros j. rewrite nth_error_app2 by (rewrite ref_names_length; lia). rewrite ref_names_length. f_equal. lia.
Qed.

(* ------------------------------------------------------------------ mapping a mode shape to the points *)
Lemma assoc_last_none_iff {A} s (l:list (string*A)) : assoc_last s l = None <-> ~ In s (map fst l).
Proof.
  induction l as [|[k v] l IH]; cbn [assoc_last map fst].
  - split; [intros _ []|reflexivity].
  - destruct (assoc_last s l) as [x|] eqn:E.
    + split; [discriminate|]. intros H. exfalso. apply H. right.
      destruct (in_dec string_dec s (map fst l)) as [Hin|Hn]; [exact Hin|]. apply IH in Hn. discriminate.
    + destruct (String.eqb_spec s k) as [->|Hne].
      * split; [discriminate|]. intros H. exfalso. apply H. left. reflexivity.
      * split; [|reflexivity]. intros _ [Hk|Hin]; [apply Hne; symmetry; exact Hk|]. apply (proj1 IH eq_refl). exact Hin.
Qed.
Lemma assoc_last_In {A} s (v:A) l : NoDup (map fst l) -> In (s,v) l -> assoc_last s l = Some v.
Proof.
  induction l as [|[k w] l IH]; cbn [assoc_last map fst]; intros Hnd Hin; [destruct Hin|].
  inversion Hnd as [|? ? Hnotin Hnd']; subst. destruct Hin as [He|Hin].
  - inversion He; subst. rewrite (proj2 (assoc_last_none_iff s l) Hnotin). rewrite String.eqb_refl. reflexivity.
  - rewrite (IH Hnd' Hin). reflexivity.
Qed.
Lemma combine_fst_eq {A B} (a:list A) (b:list B) : List.length a = List.length b -> map fst (combine a b) = a.
Proof.
  revert b. induction a as [|x a IH]; intros [|y b] H; cbn in *; try discriminate; [reflexivity|].
  f_equal. apply IH. lia.
Qed.
Lemma nth_error_combine {A B} (a:list A) (b:list B) k x y :
  nth_error a k = Some x -> nth_error b k = Some y -> nth_error (combine a b) k = Some (x,y).
Proof.
  revert b k. induction a as [|x' a IH]; intros [|y' b] [|k] Ha Hb; cbn in *; try discriminate.
  - inversion Ha; inversion Hb; reflexivity.
  - apply IH; assumption.
Qed.

Lemma cell_val0_spec sens cv c : NoDup (map fst sens) -> NoDup (map fst cv) ->
  match c with
  | CNum x => cell_val0 sens cv c = Some x
  | CNaN => cell_val0 sens cv c = None
  | CName s => (forall v, In (s,v) cv -> cell_val0 sens cv c = Some v) /\
               (~ In s (map fst cv) -> forall p, In (s,p) sens -> cell_val0 sens cv c = Some p)
  end.
Proof.
  intros Hs Hc. destruct c as [s|x|]; unfold cell_val0; cbn [cell_val]; try reflexivity. split.
  - intros v Hin. rewrite (assoc_last_In s v cv Hc Hin). reflexivity.
  - intros Hn p Hin. rewrite (proj2 (assoc_last_none_iff s cv) Hn). rewrite (assoc_last_In s p sens Hs Hin). reflexivity.
Qed.
Definition cvals (phi:list Qc) (cstr:option tbl) : list (string*Qc) := match cstr with Some cs => cstr_vals phi cs | None => [] end.
Lemma cvals_keys phi cstr : map fst (cvals phi cstr) = match cstr with Some cs => labels cs | None => [] end.
Proof. destruct cstr as [cs|]; [|reflexivity]. unfold cvals, cstr_vals, labels. rewrite map_map. reflexivity. Qed.
Lemma dfphi_map_result phi names smap cstr M : dfphi_map phi names smap cstr = Ok M ->
  M = map (map (cell_val0 (combine names phi) (cvals phi cstr))) (body smap) /\ List.length names = List.length phi.
Proof.
  unfold dfphi_map. intros H. brk H; inversion H; (split; [reflexivity|apply Nat.eqb_eq; assumption]).
Qed.

(* each sensor's component at exactly the cells that name it, the prescribed combination at the cells naming a
   constraint, a number (0 in the documented forms) stays, NaN stays *)
Theorem dfphi_map_spec : forall phi names smap cstr M,
  NoDup names -> (forall cs, cstr = Some cs -> NoDup (labels cs)) ->
  dfphi_map phi names smap cstr = Ok M ->
  List.length M = nrows smap /\
  forall i j c, cell_at (body smap) i j = Some c ->
    exists v, cell_at M i j = Some v /\
      match c with
      | CNum x => v = Some x
      | CNaN => v = None
      | CName s =>
          (forall cs coefs, cstr = Some cs -> In (s, coefs) (rows cs) -> v = Some (dotq (map cnum coefs) phi)) /\
          ((forall cs, cstr = Some cs -> ~ In s (labels cs)) ->
           forall k p, nth_error names k = Some s -> nth_error phi k = Some p -> v = Some p)
      end.
Proof.
  intros phi names smap cstr M Hnd Hcd H. apply dfphi_map_result in H. destruct H as [-> Hlen]. split.
  - unfold body, nrows. rewrite !map_length. reflexivity.
  - intros i j c Hc. exists (cell_val0 (combine names phi) (cvals phi cstr) c). split; [apply cell_at_map; exact Hc|].
    assert (Hs : NoDup (map fst (combine names phi))) by (rewrite combine_fst_eq by exact Hlen; exact Hnd).
    assert (Hv : NoDup (map fst (cvals phi cstr))).
    { rewrite cvals_keys. destruct cstr as [cs|]; [apply Hcd; reflexivity|constructor]. }
    pose proof (cell_val0_spec (combine names phi) (cvals phi cstr) c Hs Hv) as Hspec.
    destruct c as [s|x|]; try exact Hspec. destruct Hspec as [Ha Hb]. split.
    + intros cs coefs -> Hin. apply Ha. unfold cvals, cstr_vals.
      apply (in_map (fun r : string * list cell => (fst r, dotq (map cnum (snd r)) phi))) in Hin. exact Hin.
    + intros Hno k p Hk Hp. apply Hb.
      * rewrite cvals_keys. destruct cstr as [cs|]; [apply Hno; reflexivity|intros []].
      * eapply nth_error_In. apply nth_error_combine; eassumption.
Qed.

(* ---- composed with check_on_geo2: the geometry's own mapping and (completed, re-ordered) constraint table *)
Lemma cell_at_In (m:list (list cell)) i j c : cell_at m i j = Some c -> In c (List.concat m).
Proof.
  unfold cell_at. destruct (nth_error m i) as [r|] eqn:E; [|discriminate]. intros H.
  apply in_concat. exists r. split; [eapply nth_error_In; exact E|eapply nth_error_In; exact H].
Qed.
Lemma body_fill t : body (fill_tbl t) = map (map fill0) (body t).
Proof. unfold body, fill_tbl. cbn [rows]. rewrite !map_map. reflexivity. Qed.
Lemma col_lookup_fill n cs r : col_lookup n cs (map fill0 r) = fill0 (col_lookup n cs r).
Proof.
  revert r. induction cs as [|c cs IH]; intros [|x r]; cbn [col_lookup map]; try reflexivity.
  destruct (String.eqb n c); [reflexivity|apply IH].
Qed.
Lemma cnum_fill0 c : cnum (fill0 c) = cnum c.
Proof. destruct c; reflexivity. Qed.
Lemma col_lookup_numeric n cs r : forallb numeric_cell r = true -> numeric_cell (col_lookup n cs r) = true.
Proof.
  revert r. induction cs as [|c cs IH]; intros [|x r] H; cbn [col_lookup]; try reflexivity.
  cbn [forallb] in H. apply andb_true_iff in H. destruct H as [Hx Hr].
  destruct (String.eqb n c); [exact Hx|apply IH; exact Hr].
Qed.
Lemma fill0_numeric r : forallb numeric_cell r = true -> forallb numeric_cell (map fill0 r) = true.
Proof.
  induction r as [|x r IH]; cbn [map forallb]; [reflexivity|]. intros H. apply andb_true_iff in H. destruct H as [Hx Hr].
  rewrite (IH Hr), andb_true_r. destruct x; cbn in *; congruence.
Qed.
Lemma ct_facts names cs : names <> [] ->
  labels (complete_cstr names (fill_tbl cs)) = labels cs /\
  ncols (complete_cstr names (fill_tbl cs)) = List.length names /\
  (tempty (complete_cstr names (fill_tbl cs)) = true -> rows cs = []) /\
  (Numeric cs -> numeric (complete_cstr names (fill_tbl cs)) = true) /\
  (forall s coefs, In (s,coefs) (rows cs) ->
     In (s, map (fun n => col_lookup n (cols cs) (map fill0 coefs)) names) (rows (complete_cstr names (fill_tbl cs)))).
Proof.
  intros Hne. unfold complete_cstr, fill_tbl, labels, ncols, nrows, tempty. cbn [rows cols]. repeat split.
  - rewrite !map_map. reflexivity.
  - unfold nrows, ncols. cbn [rows cols]. rewrite !map_length. intros H. apply orb_true_iff in H. destruct H as [H|H]; apply Nat.eqb_eq in H.
    + apply length_zero_iff_nil. exact H.
    + apply length_zero_iff_nil in H. contradiction.
  - intros Hnum. apply numeric_Numeric in Hnum. unfold numeric in *. cbn [rows]. rewrite forallb_forall in *.
    intros r Hr. rewrite map_map in Hr. apply in_map_iff in Hr. destruct Hr as (r0 & <- & Hr0). cbn [snd fst].
    rewrite forallb_forall. intros c Hc. apply in_map_iff in Hc. destruct Hc as (n & <- & _).
    apply col_lookup_numeric. apply fill0_numeric. apply Hnum. exact Hr0.
  - intros s coefs Hin. rewrite map_map.
    apply (in_map (fun x : string * list cell => (fst (fst x, map fill0 (snd x)), map (fun n => col_lookup n (cols cs) (snd (fst x, map fill0 (snd x)))) names))) in Hin.
    exact Hin.
Qed.
Lemma dfphi_map_ok phi names smap cstr : List.length names = List.length phi ->
  (forall cs, cstr = Some cs -> numeric cs = true /\ ncols cs = List.length phi) ->
  forallb (forallb (cell_known (combine names phi) (cvals phi cstr))) (body smap) = true ->
  dfphi_map phi names smap cstr = Ok (map (map (cell_val0 (combine names phi) (cvals phi cstr))) (body smap)).
Proof.
  intros Hlen Hcs Hk. unfold dfphi_map. apply Nat.eqb_eq in Hlen. rewrite Hlen. cbn [negb].
  destruct cstr as [cs|]; cbn [cvals] in *.
  - destruct (Hcs cs eq_refl) as [Hn Hc]. rewrite Hn. cbn [negb]. apply Nat.eqb_eq in Hc. rewrite Hc. cbn [negb]. rewrite Hk. reflexivity.
  - rewrite Hk. reflexivity.
Qed.
Lemma fill_shape t : nrows (fill_tbl t) = nrows t /\ ncols (fill_tbl t) = ncols t.
Proof. unfold nrows, ncols, fill_tbl. cbn [rows cols]. rewrite map_length. split; reflexivity. Qed.

Theorem map_faithful : forall fd ref g phi mp,
  check_geo2 fd ref = Ok g -> getk "mapping" (drop_info (fd_tabs fd)) = Some mp ->
  NoDup (g2_names g) -> g2_names g <> [] -> List.length phi = List.length (g2_names g) ->
  NoDup (labels (cstr0 fd)) -> Numeric (cstr0 fd) ->
  (forall s, In (CName s) (cells_of mp) -> In s (g2_names g) \/ In s (labels (cstr0 fd))) ->
  exists M, geo2_mapped fd ref phi = Ok M /\ List.length M = nrows mp /\
    forall i j c, cell_at (body mp) i j = Some c ->
      exists v, cell_at M i j = Some (Some v) /\
        match c with
        | CNum x => v = x
        | CNaN => v = 0%Qc
        | CName s =>
            (forall coefs, In (s, coefs) (rows (cstr0 fd)) ->
               v = dotq (map (fun n => cnum (col_lookup n (cols (cstr0 fd)) coefs)) (g2_names g)) phi) /\
            (forall k p, nth_error (g2_names g) k = Some s -> nth_error phi k = Some p -> v = p)
        end.
Proof.
  intros fd ref g phi mp Hchk Hmp Hnd Hne Hlen Hcnd Hcnum Hknown.
  pose proof Hchk as H0. apply geo2_ok_iff in H0. destruct H0 as (nf & pts & mp' & names & Hwf & Hg).
  destruct Hwf as (Hn & Hp & Hm & Hk & Hc3 & Hsh & Hfl & Hnm & Hcc & Hcr & _).
  rewrite Hmp in Hm. inversion Hm; subst mp'. clear Hm.
  assert (Hgn : g2_names g = names) by (rewrite Hg; reflexivity). rewrite Hgn in *.
  set (cs := cstr0 fd) in *. set (ct := complete_cstr names (fill_tbl cs)).
  destruct (ct_facts names cs Hne) as (Hctl & Hctc & Hcte & Hctn & Hctr). fold ct in Hctl, Hctc, Hcte, Hctn, Hctr.
  (* the mapping is not empty *)
  assert (Hmne : tempty (fill_tbl mp) = false).
  { apply tempty_false. unfold nonempty. destruct (fill_shape mp) as [-> ->]. split.
    - destruct names as [|n0 ns]; [contradiction Hne; reflexivity|].
      specialize (Hnm n0 (or_introl eq_refl)). unfold cells_of, body, nrows in *. intros Hz. apply length_zero_iff_nil in Hz. rewrite Hz in Hnm. destruct Hnm.
    - destruct Hsh as [_ <-]. rewrite Hc3. discriminate. }
  assert (Hgm : g2_map g = Some (fill_tbl mp)) by (rewrite Hg; cbn [geo2_of g2_map]; unfold opt_tbl; rewrite Hmne; reflexivity).
  assert (Hgc : g2_cstr g = opt_tbl ct) by (rewrite Hg; reflexivity).
  (* keys of the constraint values *)
  assert (Hcvk : forall s, In s (labels cs) -> In s (map fst (cvals phi (opt_tbl ct)))).
  { intros s Hs. rewrite cvals_keys. unfold opt_tbl. destruct (tempty ct) eqn:Et.
    - pose proof (Hcte eq_refl) as Er. unfold labels in Hs. rewrite Er in Hs. destruct Hs.
    - rewrite Hctl. exact Hs. }
  assert (Hcvk' : forall s, In s (map fst (cvals phi (opt_tbl ct))) -> In s (labels cs)).
  { intros s Hs. rewrite cvals_keys in Hs. unfold opt_tbl in Hs. destruct (tempty ct); [destruct Hs|]. rewrite Hctl in Hs. exact Hs. }
  assert (Hlen' : List.length names = List.length phi) by (symmetry; exact Hlen).
  assert (Hsk : map fst (combine names phi) = names) by (apply combine_fst_eq; exact Hlen').
  (* dfphi_map_func succeeds *)
  assert (Hok : dfphi_map phi names (fill_tbl mp) (opt_tbl ct) =
                Ok (map (map (cell_val0 (combine names phi) (cvals phi (opt_tbl ct)))) (body (fill_tbl mp)))).
  { apply dfphi_map_ok; [exact Hlen'| |].
    - intros cs' Hcs'. unfold opt_tbl in Hcs'. destruct (tempty ct); [discriminate|]. inversion Hcs'; subst cs'.
      split; [apply Hctn; exact Hcnum|]. rewrite Hctc. exact Hlen'.
    - rewrite forallb_forall. intros r Hr. rewrite forallb_forall. intros c' Hc'.
      rewrite body_fill in Hr. apply in_map_iff in Hr. destruct Hr as (r0 & <- & Hr0).
      apply in_map_iff in Hc'. destruct Hc' as (c & <- & Hc).
      assert (Hcin : In c (cells_of mp)) by (unfold cells_of; apply in_concat; exists r0; split; assumption).
      destruct c as [s|x|]; try reflexivity. cbn [fill0]. unfold cell_known. cbn [cell_val].
      destruct (assoc_last s (cvals phi (opt_tbl ct))) eqn:E1; [reflexivity|].
      destruct (assoc_last s (combine names phi)) eqn:E2; [reflexivity|]. exfalso.
      apply assoc_last_none_iff in E1. apply assoc_last_none_iff in E2. rewrite Hsk in E2.
      destruct (Hknown s Hcin) as [Hs|Hs]; [apply E2; exact Hs|apply E1, Hcvk; exact Hs]. }
  eexists. split.
  - unfold geo2_mapped. rewrite Hchk, Hgm, Hgn, Hgc. exact Hok.
  - split.
    + rewrite map_length. unfold body. rewrite map_length. apply (proj1 (fill_shape mp)).
    + intros i j c Hc.
      assert (Hcin : In c (cells_of mp)) by (apply (cell_at_In _ i j); exact Hc).
      assert (Hc' : cell_at (body (fill_tbl mp)) i j = Some (fill0 c)) by (rewrite body_fill; apply cell_at_map; exact Hc).
      assert (Hcd' : forall cs', opt_tbl ct = Some cs' -> NoDup (labels cs')).
      { intros cs' Hcs'. unfold opt_tbl in Hcs'. destruct (tempty ct); [discriminate|]. inversion Hcs'; subst cs'. rewrite Hctl. exact Hcnd. }
      destruct (dfphi_map_spec phi names (fill_tbl mp) (opt_tbl ct) _ Hnd Hcd' Hok) as [_ Hspec].
      destruct (Hspec i j (fill0 c) Hc') as (v & Hv & Hcase).
      destruct c as [s|x|]; cbn [fill0] in Hcase.
      * destruct Hcase as [Ha Hb].
        assert (Ha' : forall coefs, In (s, coefs) (rows cs) -> v = Some (dotq (map (fun n => cnum (col_lookup n (cols cs) coefs)) names) phi)).
        { intros coefs Hin.
          assert (Ene : tempty ct = false).
          { destruct (tempty ct) eqn:Et; [|reflexivity]. pose proof (Hcte eq_refl) as Er. rewrite Er in Hin. destruct Hin. }
          rewrite (Ha ct _ (eq_trans (f_equal (fun b : bool => if b then None else Some ct) Ene) eq_refl) (Hctr s coefs Hin)).
          f_equal. f_equal. rewrite map_map. apply map_ext. intros n. rewrite col_lookup_fill. apply cnum_fill0. }
        assert (Hb' : forall k p, nth_error names k = Some s -> nth_error phi k = Some p -> v = Some p).
        { intros k p Hk' Hp'. apply (Hb) with (k:=k); try assumption.
          intros cs' Hcs' Hin. unfold opt_tbl in Hcs'. destruct (tempty ct); [discriminate|]. inversion Hcs'; subst cs'.
          rewrite Hctl in Hin. destruct (Hcr s Hin) as (_ & Hnot & _). apply Hnot. eapply nth_error_In. exact Hk'. }
        destruct (Hknown s Hcin) as [Hs|Hs].
        -- apply In_nth_error in Hs. destruct Hs as (k & Hk').
           assert (Hlt : (k < List.length phi)%nat) by (rewrite <- Hlen'; apply nth_error_Some; congruence).
           destruct (nth_error phi k) as [p|] eqn:Ep; [|apply nth_error_None in Ep; lia].
           exists p. split; [rewrite Hv, (Hb' k p Hk' Ep); reflexivity|]. split.
           ++ intros coefs Hin. specialize (Ha' coefs Hin). rewrite (Hb' k p Hk' Ep) in Ha'. inversion Ha'. reflexivity.
           ++ intros k2 p2 Hk2 Hp2. pose proof (Hb' k2 p2 Hk2 Hp2) as X. rewrite (Hb' k p Hk' Ep) in X. inversion X. reflexivity.
        -- unfold labels in Hs. apply in_map_iff in Hs. destruct Hs as ([s' coefs] & Hs' & Hin). cbn in Hs'. subst s'.
           exists (dotq (map (fun n => cnum (col_lookup n (cols cs) coefs)) names) phi).
           split; [rewrite Hv, (Ha' coefs Hin); reflexivity|]. split.
           ++ intros coefs2 Hin2. pose proof (Ha' coefs2 Hin2) as X. rewrite (Ha' coefs Hin) in X. inversion X. reflexivity.
           ++ intros k2 p2 Hk2 Hp2. pose proof (Hb' k2 p2 Hk2 Hp2) as X. rewrite (Ha' coefs Hin) in X. inversion X. reflexivity.
      * exists x. split; [rewrite Hv, Hcase; reflexivity|reflexivity].
      * exists 0%Qc. split; [rewrite Hv, Hcase; reflexivity|reflexivity].
Qed.

(* ------------------------------------------------------------------ what is displayed *)
Lemma nth_error_map2 {A B C} (f:A->B->C) a b i x y :
  nth_error a i = Some x -> nth_error b i = Some y -> nth_error (map2 f a b) i = Some (f x y).
Proof.
  revert b i. induction a as [|x' a IH]; intros [|y' b] [|i] Ha Hb; cbn in *; try discriminate.
  - inversion Ha; inversion Hb; reflexivity.
  - apply IH; assumption.
Qed.
Lemma disp_num v s : disp (Some v) (CNum s) = Some (v * s)%Qc.
Proof. reflexivity. Qed.
Lemma disp_one v : disp (Some v) (CNum 1%Qc) = Some v.
Proof. cbn. f_equal. ring. Qed.

(* displayed coordinate = point coordinate + (mapped value of phi*scale) x the cell's sign *)
Theorem displacement_spec : forall g phi scale P, newpoints2 g phi scale = Ok P ->
  exists pts mp sg M, g2_pts g = Some pts /\ g2_map g = Some mp /\ g2_sign g = Some sg /\
    dfphi_map (map (fun x => (x*scale)%Qc) phi) (g2_names g) mp (g2_cstr g) = Ok M /\
    forall i j p v s, cell_at (body pts) i j = Some p -> cell_at M i j = Some v -> cell_at (body sg) i j = Some s ->
      cell_at P i j = Some (oq_add (cell_q p) (disp v s)).
Proof.
  intros g phi scale P H. unfold newpoints2 in H.
  destruct (g2_pts g) as [pts|]; [|discriminate]. destruct (g2_map g) as [mp|]; [|discriminate]. destruct (g2_sign g) as [sg|]; [|discriminate].
  destruct (dfphi_map _ _ mp _) as [M|] eqn:EM; [|discriminate]. brk H. inversion H; subst P. clear H.
  exists pts, mp, sg, M. split; [reflexivity|]. split; [reflexivity|]. split; [reflexivity|]. split; [exact EM|].
  intros i j p v s Hp Hv Hs. unfold cell_at in *.
  destruct (nth_error (body pts) i) as [pr|] eqn:Ep; [|discriminate].
  destruct (nth_error M i) as [mr|] eqn:Em; [|discriminate].
  destruct (nth_error (body sg) i) as [sr|] eqn:Es; [|discriminate].
  erewrite nth_error_map2; [| apply nth_error_map2; eassumption | eassumption].
  erewrite nth_error_map2; [ | apply nth_error_combine; eassumption | eassumption]. reflexivity.
Qed.
(* the default sign table is +1 everywhere: the displacement is the mapped value itself *)
Lemma ones_like_cell t i j c : cell_at (body (ones_like t)) i j = Some c -> c = CNum 1%Qc.
Proof.
  intros H. apply cell_at_In in H. unfold body, ones_like in H. cbn [rows] in H. rewrite map_map in H. cbn [snd] in H.
  apply in_concat in H. destruct H as (r & Hr & Hc). apply in_map_iff in Hr. destruct Hr as (k & <- & _).
  apply repeat_spec in Hc. exact Hc.
Qed.

(* geo1: arrow k starts at the coordinates in row k and points along direction row k times phi[k] times scale *)
Theorem arrows1_spec : forall g phi scale A, arrows1 g phi scale = Ok A ->
  forall k crow drow f, nth_error (body (g1_coord g)) k = Some crow -> nth_error (g1_dir g) k = Some drow -> nth_error phi k = Some f ->
    nth_error A k = Some (map cell_q crow,
                          map2 (fun c dd => oq_add (cell_q c) (oq_mul (oq_mul (cell_q dd) (Some f)) (Some scale))) crow drow).
Proof.
  intros g phi scale A H. unfold arrows1 in H. brk H. inversion H; subst A. clear H.
  intros k crow drow f Hc Hd Hf.
  erewrite nth_error_map2; [ | apply nth_error_combine; eassumption | eassumption]. reflexivity.
Qed.
(* ... and row k of the geometry is the row of the input tables labelled with the k-th sensor name *)
Theorem geo1_rows_at_sensor : forall fd ref g, check_geo1 fd ref = Ok g ->
  exists co di, getk "sensors coordinates" (drop_info (fd_tabs fd)) = Some co /\
                getk "sensors directions" (drop_info (fd_tabs fd)) = Some di /\
    labels (g1_coord g) = g1_names g /\
    forall k n, nth_error (g1_names g) k = Some n ->
      exists crow drow, In (n, crow) (rows co) /\ In (n, drow) (rows di) /\
        nth_error (body (g1_coord g)) k = Some crow /\ nth_error (g1_dir g) k = Some drow.
Proof.
  intros fd ref g H. apply geo1_ok_iff in H. destruct H as (nf & co & di & names & Hwf & ->).
  destruct Hwf as (_ & Hco & Hdi & _ & _ & _ & Hlab & _ & Hincl & Hnd & _).
  exists co, di. split; [exact Hco|]. split; [exact Hdi|]. unfold geo1_of. cbn [g1_coord g1_names g1_dir].
  assert (Hok : reindex_ok names co = true) by (apply reindex_ok_true; exact Hnd).
  assert (Hok' : reindex_ok names di = true) by (apply reindex_ok_true; rewrite <- Hlab; exact Hnd).
  assert (Hincl' : incl names (labels di)) by (rewrite <- Hlab; exact Hincl).
  destruct (reindex_p_eq names co Hok Hincl) as [Hl Hr]. destruct (reindex_p_eq names di Hok' Hincl') as [_ Hr'].
  split; [exact Hl|]. intros k n Hk.
  destruct (Hr k n Hk) as (crow & Hc1 & Hc2). destruct (Hr' k n Hk) as (drow & Hd1 & Hd2).
  exists crow, drow. repeat split; try assumption.
  - unfold body. erewrite map_nth_error by exact Hc1. reflexivity.
  - unfold body. erewrite map_nth_error by exact Hd1. reflexivity.
Qed.

(* ------------------------------------------------------------------ the part of well-formedness that mentions no optional sheet *)
Definition wf_req1 (fd:fdict) (ref:option (list (list nat))) : Prop :=
  let d := drop_info (fd_tabs fd) in
  exists nf co di names,
  fd_names fd = Some nf /\ getk "sensors coordinates" d = Some co /\ getk "sensors directions" d = Some di /\
  keys_ok geo1_sheets d /\ ncols co = 3%nat /\ (nrows co = nrows di /\ ncols co = ncols di) /\ labels co = labels di /\
  flatten_names nf ref = Ok names /\ incl names (labels co) /\ (NoDup (labels co) \/ labels co = names).
Definition wf_req2 (fd:fdict) (ref:option (list (list nat))) : Prop :=
  let d := drop_info (fd_tabs fd) in
  exists nf pts mp names,
  fd_names fd = Some nf /\ getk "points coordinates" d = Some pts /\ getk "mapping" d = Some mp /\
  keys_ok geo2_sheets d /\ ncols pts = 3%nat /\ (nrows pts = nrows mp /\ ncols pts = ncols mp) /\
  flatten_names nf ref = Ok names /\ (forall n, In n names -> In (CName n) (cells_of mp)).
Theorem geo1_required_only : forall fd ref,
  (forall k, In k geo1_optional -> getk k (drop_info (fd_tabs fd)) = None) ->
  ((exists g, check_geo1 fd ref = Ok g) <-> wf_req1 fd ref).
Proof.
  intros fd ref Hnone. rewrite geo1_valid_iff. unfold wf_geo1, wf_geo1_at, wf_req1.
  assert (E1 := Hnone "sensors lines" (or_introl eq_refl)).
  assert (E2 := Hnone "BG nodes" (or_intror (or_introl eq_refl))).
  assert (E3 := Hnone "BG lines" (or_intror (or_intror (or_introl eq_refl)))).
  assert (E4 := Hnone "BG surfaces" (or_intror (or_intror (or_intror (or_introl eq_refl))))).
  split.
  - intros (nf & co & di & names & H). exists nf, co, di, names. intuition.
  - intros (nf & co & di & names & H). exists nf, co, di, names. rewrite E1, E2, E3, E4.
    assert (C : forall n, cols_ok None n) by (intros n t Ht; discriminate).
    assert (S : shiftable None) by (intros t Ht; discriminate).
    intuition.
Qed.
Theorem geo2_required_only : forall fd ref,
  (forall k, In k geo2_optional -> getk k (drop_info (fd_tabs fd)) = None) ->
  ((exists g, check_geo2 fd ref = Ok g) <-> wf_req2 fd ref).
Proof.
  intros fd ref Hnone. rewrite geo2_valid_iff. unfold wf_geo2, wf_geo2_at, wf_req2, cstr0.
  assert (E0 := Hnone "constraints" (or_introl eq_refl)).
  assert (E00 := Hnone "sensors sign" (or_intror (or_introl eq_refl))).
  assert (E1 := Hnone "sensors lines" (or_intror (or_intror (or_introl eq_refl)))).
  assert (E1' := Hnone "sensors surfaces" (or_intror (or_intror (or_intror (or_introl eq_refl))))).
  assert (E2 := Hnone "BG nodes" (or_intror (or_intror (or_intror (or_intror (or_introl eq_refl)))))).
  assert (E3 := Hnone "BG lines" (or_intror (or_intror (or_intror (or_intror (or_intror (or_introl eq_refl))))))).
  assert (E4 := Hnone "BG surfaces" (or_intror (or_intror (or_intror (or_intror (or_intror (or_intror (or_introl eq_refl)))))))).
  split.
  - intros (nf & co & di & names & H). exists nf, co, di, names. intuition.
  - intros (nf & co & di & names & H). exists nf, co, di, names. rewrite E0, E00, E1, E1', E2, E3, E4.
    assert (C : forall n, cols_ok None n) by (intros n t Ht; discriminate).
    assert (S : shiftable None) by (intros t Ht; discriminate).
    assert (G : forall p, sign_ok p None) by (intros p t Ht; discriminate).
    cbn [or_empty empty_tbl cols labels rows map].
    assert (I : incl (@nil string) names) by (intros x []).
    intuition.
Qed.

(* which exception: ValueError, unless the names themselves cannot be flattened (that error) or an index table holds a string *)
Ltac brke H :=
  repeat match type of H with
  | (if ?b then _ else _) = Err _ => destruct b eqn:?
  | match ?x with _ => _ end = Err _ => destruct x eqn:?
  end.
Theorem geo1_error_kind : forall fd ref e, check_geo1 fd ref = Err e ->
  e = ValueErr \/ (exists nf, fd_names fd = Some nf /\ flatten_names nf ref = Err e) \/ e = TypeErr.
Proof.
  intros fd ref e H. unfold check_geo1 in H. brke H; try discriminate H;
    try (inversion H; subst; auto; fail); try (inversion H; subst; right; left; eexists; split; [reflexivity|eassumption]).
Qed.
Theorem geo2_error_kind : forall fd ref e, check_geo2 fd ref = Err e ->
  e = ValueErr \/ (exists nf, fd_names fd = Some nf /\ flatten_names nf ref = Err e) \/ e = TypeErr.
Proof.
  intros fd ref e H. unfold check_geo2 in H. brke H; try discriminate H;
    try (inversion H; subst; auto; fail); try (inversion H; subst; right; left; eexists; split; [reflexivity|eassumption]).
Qed.
