(* C11 - the class-level extraction (Model/M_mpe_class.v) is the function-level extraction (Model/M_mpe.v) on the result
   tables of the object; the function-level theorems of Proofs/P_mpe.v carried through the glue. *)
From Coq Require Import List Arith ZArith QArith Qabs Bool Lia String.
From PyOMA.Base Require Import Argmin.
From PyOMA.Model Require Import M_mpe M_mpe_class.
From PyOMA.Proofs Require Import P_mpe.
Import ListNotations.
Open Scope list_scope.
Open Scope Q_scope.

(* ------------------------------------------------------------------------------------------------------- *)
(* zipped tables and lists moved in parallel *)
Lemma cell_tzip_l {A B} (T:list (list A)) (U:list (list B)) r c p : cell (tzip T U) r c = Some p -> cell T r c = Some (fst p).
Proof. unfold tzip. rewrite cell_map2. destruct (cell T r c), (cell U r c); intros H; inversion H; reflexivity. Qed.

Lemma cell_tzip_r {A B} (T:list (list A)) (U:list (list B)) r c p : cell (tzip T U) r c = Some p -> cell U r c = Some (snd p).
Proof. unfold tzip. rewrite cell_map2. destruct (cell T r c), (cell U r c); intros H; inversion H; reflexivity. Qed.

Lemma cell_tzip {A B} (T:list (list A)) (U:list (list B)) r c a b :
  cell (tzip T U) r c = Some (a, b) <-> cell T r c = Some a /\ cell U r c = Some b.
Proof.
  split.
  - intros H. split; [apply (cell_tzip_l _ _ _ _ _ H)|apply (cell_tzip_r _ _ _ _ _ H)].
  - intros [H1 H2]. unfold tzip. rewrite cell_map2, H1, H2. reflexivity.
Qed.

Lemma rect_tzip {A B} n m (T:list (list A)) (U:list (list B)) : rect n m T -> rect n m U -> rect n m (tzip T U).
Proof. apply rect_map2. Qed.

Lemma F2_map_r {A B C} (R:A->B->Prop) (Sr:A->C->Prop) (g:B->C) l1 l2 :
  (forall a b, R a b -> Sr a (g b)) -> Forall2 R l1 l2 -> Forall2 Sr l1 (map g l2).
Proof. intros H F. induction F; cbn [map]; constructor; auto. Qed.

Lemma F2_map_l {A B C} (R:A->B->Prop) (Sr:C->B->Prop) (g:A->C) l1 l2 :
  (forall a b, R a b -> Sr (g a) b) -> Forall2 R l1 l2 -> Forall2 Sr (map g l1) l2.
Proof. intros H F. induction F; cbn [map]; constructor; auto. Qed.

Lemma F2_split_ex {A B C} (G:A->C->Prop) (H:C->B->Prop) l1 l2 :
  Forall2 (fun a b => exists c, G a c /\ H c b) l1 l2 -> exists l3, Forall2 G l1 l3 /\ Forall2 H l3 l2.
Proof.
  induction 1 as [|a b l1 l2 (c & Hg & Hh) _ (l3 & IH1 & IH2)].
  - exists []. split; constructor.
  - exists (c :: l3). split; constructor; assumption.
Qed.

Lemma F2_nil_l {A B} (R:A->B->Prop) l : Forall2 R [] l -> l = [].
Proof. intros H. inversion H. reflexivity. Qed.

Section ClassProofs.
Variables X S CF CX CS : Type.
Notation tables := (@tables X S CF CX CS).
Notation results := (@results X S CF CX CS).
Notation algo := (@algo X S CF CX CS).

(* every stored array but Fn comes from the cells [cells] *)
Definition pay_ok (T:tables) (R:results) (cells:list (nat*nat)) : Prop := from_cells3 T R cells /\ from_cells_cov T R cells.

(* ------------------------------------------------------------------------------------------------------- *)
(* the two function-level models on separate tables: one run of M_mpe on a payload table all of whose cells unzip
   into the cells of the separate tables *)
Lemma ssi_fun_cells (T:tables) rp freq ord rtol R : ssi_fun (ssi_args T rp freq ord rtol) = Ok R ->
  exists (P:Type) (Pay:list (list P)) vals oo,
    ssi_mpe (Fn_poles T) Pay (Lab T) freq ord rtol = Ok (vals, oo) /\ r_order_out R = PExp oo /\ r_Fn R = map fst vals /\
    (forall n m, rect n m (Xi_poles T) -> rect n m (Phi_poles T) ->
                 match cov_poles T with None => True | Some (F, Xc, Sc) => rect n m F /\ rect n m Xc /\ rect n m Sc end -> rect n m Pay) /\
    forall cells, Forall2 (fun rc vp => cell Pay (fst rc) (snd rc) = Some (snd vp)) cells vals -> pay_ok T R cells.
Proof.
  unfold ssi_fun, ssi_args. cbn [fa_cov fa_Fn fa_Xi fa_Phi fa_Lab fa_freq fa_order fa_rtol].
  destruct (cov_poles T) as [[[F Xc] Sc]|] eqn:Ec.
  - destruct (ssi_mpe (Fn_poles T) (tzip (tzip (Xi_poles T) (Phi_poles T)) (tzip (tzip F Xc) Sc)) (Lab T) freq ord rtol)
      as [[vals oo]|e] eqn:E; intros H; inversion H; subst R; clear H.
    exists _, (tzip (tzip (Xi_poles T) (Phi_poles T)) (tzip (tzip F Xc) Sc)), vals, oo.
    split; [exact E|]. split; [reflexivity|]. split; [reflexivity|]. split.
    { intros n m HX HS (HF & HXc & HSc). repeat apply rect_tzip; assumption. }
    intros cells HF. unfold pay_ok, from_cells3, from_cells_cov. cbn [r_Xi r_Phi r_cov]. rewrite Ec.
    repeat split; (eapply F2_map_r; [|exact HF]); intros rc v Hc; cbn beta.
    + apply cell_tzip_l in Hc. apply cell_tzip_l in Hc. exact Hc.
    + apply cell_tzip_l in Hc. apply cell_tzip_r in Hc. exact Hc.
    + apply cell_tzip_r in Hc. apply cell_tzip_l in Hc. apply cell_tzip_l in Hc. exact Hc.
    + apply cell_tzip_r in Hc. apply cell_tzip_l in Hc. apply cell_tzip_r in Hc. exact Hc.
    + apply cell_tzip_r in Hc. apply cell_tzip_r in Hc. exact Hc.
  - destruct (ssi_mpe (Fn_poles T) (tzip (Xi_poles T) (Phi_poles T)) (Lab T) freq ord rtol)
      as [[vals oo]|e] eqn:E; intros H; inversion H; subst R; clear H.
    exists _, (tzip (Xi_poles T) (Phi_poles T)), vals, oo.
    split; [exact E|]. split; [reflexivity|]. split; [reflexivity|]. split.
    { intros n m HX HS _. apply rect_tzip; assumption. }
    intros cells HF. unfold pay_ok, from_cells3, from_cells_cov. cbn [r_Xi r_Phi r_cov]. rewrite Ec.
    repeat split; (eapply F2_map_r; [|exact HF]); intros rc v Hc; cbn beta.
    + apply cell_tzip_l in Hc. exact Hc.
    + apply cell_tzip_r in Hc. exact Hc.
Qed.

(* pLSCF: the unzipping of a list of (value, (damping, shape)) *)
Lemma plscf_vals_cells (T:tables) (R:results) (vals:list (Q * (X * S))) cells :
  r_Xi R = map (fun v => fst (snd v)) vals -> r_Phi R = map (fun v => snd (snd v)) vals ->
  Forall2 (fun rc vp => cell (tzip (Xi_poles T) (Phi_poles T)) (fst rc) (snd rc) = Some (snd vp)) cells vals ->
  from_cells3 T R cells.
Proof.
  intros HX HP HF. unfold from_cells3. rewrite HX, HP.
  split; (eapply F2_map_r; [|exact HF]); intros rc v Hc; cbn beta.
  - apply cell_tzip_l in Hc. exact Hc.
  - apply cell_tzip_r in Hc. exact Hc.
Qed.

(* ------------------------------------------------------------------------------------------------------- *)
(* the method: success = tables present, the routine succeeded on the handed-over arguments, its results stored,
   the three arguments written to the run parameters, everything else as before *)
Lemma class_mpe_ok args f (A A':algo) freq ord rtol : class_mpe args f A freq ord rtol = COk A' ->
  exists T R, a_tabs A = Some T /\ f (args T (a_rp A) freq ord rtol) = Ok R /\ a_res A' = Some R /\ params_stored A A' freq ord rtol.
Proof.
  unfold class_mpe. destruct (a_tabs A) as [T|] eqn:ET; [|discriminate].
  destruct (f (args T (a_rp A) freq ord rtol)) as [R|e] eqn:EF; [|discriminate].
  intros H. inversion H; subst A'. exists T, R. unfold params_stored, store. cbn. repeat split; auto.
Qed.

Theorem class_mpe_outcome args f (A:algo) freq ord rtol :
  match class_mpe args f A freq ord rtol with
  | COk A' => exists T R, a_tabs A = Some T /\ f (args T (a_rp A) freq ord rtol) = Ok R /\ a_res A' = Some R /\
                          params_stored A A' freq ord rtol
  | CErr NotRun => a_tabs A = None
  | CErr (FunErr e) => exists T, a_tabs A = Some T /\ f (args T (a_rp A) freq ord rtol) = Err e
  | CErr NoAlg => False
  end.
Proof.
  destruct (class_mpe args f A freq ord rtol) as [A'|e] eqn:E.
  - apply class_mpe_ok. exact E.
  - revert E. unfold class_mpe. destruct (a_tabs A) as [T|] eqn:ET.
    + destruct (f (args T (a_rp A) freq ord rtol)) as [R|e'] eqn:EF; intros H; inversion H. exists T. auto.
    + intros H. inversion H. reflexivity.
Qed.

(* the hand-over, written out: the result tables as they are, the order as it is (a column index; neither ordmin nor
   step nor ordmax enter), rtol as it is; pLSCF: no covariances and the routine's default search band *)
Theorem class_handover (T:tables) rp freq ord rtol :
  ssi_args T rp freq ord rtol =
    {| fa_freq := freq; fa_Fn := Fn_poles T; fa_Xi := Xi_poles T; fa_Phi := Phi_poles T; fa_order := ord; fa_Lab := Lab T;
       fa_rtol := rtol; fa_deltaf := 1 # 20; fa_cov := cov_poles T |} /\
  plscf_args T rp freq ord rtol =
    {| fa_freq := freq; fa_Fn := Fn_poles T; fa_Xi := Xi_poles T; fa_Phi := Phi_poles T; fa_order := ord; fa_Lab := Lab T;
       fa_rtol := rtol; fa_deltaf := 1 # 20; fa_cov := None |}.
Proof. split; reflexivity. Qed.

(* ------------------------------------------------------------------------------------------------------- *)
(* EXPLICIT ORDER through the classes *)
Definition explicit_statement (T:tables) (R:results) freq eo rtol : Prop :=
  r_order_out R = PExp (order_out_explicit eo) /\
  exists sels, pick_all (Fn_poles T) rtol (requests freq eo) = Ok sels /\
    Forall2 (fun req sel => exists c col r d p,
               snd req = Some c /\ getcol (Fn_poles T) c = Some col /\ is_first_argmin (dists col (fst req)) r d /\
               nth_error col r = Some (Some p) /\ cell (Fn_poles T) r c = Some (Some p) /\
               (Qabs (p - fst req) <= atol + rtol * Qabs (fst req) -> sel = Some (r,c)) /\
               (atol + rtol * Qabs (fst req) < Qabs (p - fst req) -> sel = None)) (requests freq eo) sels /\
    from_cells_fn T R (somes sels) /\ from_cells3 T R (somes sels).

Theorem class_ssi_explicit (A A':algo) freq eo rtol : ssi_class_mpe A freq (Explicit eo) rtol = COk A' ->
  exists T R, a_tabs A = Some T /\ a_res A' = Some R /\ params_stored A A' freq (Explicit eo) rtol /\
    explicit_statement T R freq eo rtol /\
    forall sels, pick_all (Fn_poles T) rtol (requests freq eo) = Ok sels -> from_cells_cov T R (somes sels).
Proof.
  intros H. apply class_mpe_ok in H. destruct H as (T & R & ET & EF & ER & EP).
  exists T, R. split; [exact ET|]. split; [exact ER|]. split; [exact EP|].
  apply ssi_fun_cells in EF. destruct EF as (P & Pay & vals & oo & E & Eo & EFn & _ & Hpay).
  cbn [ssi_mpe] in E. destruct (mpe_whole _ _ _ _ _ _ _ E) as (Hoo & sels & Hs & HF).
  assert (Hok : pay_ok T R (somes sels)).
  { apply Hpay. eapply F2_impl; [|exact HF]. intros rc vp [_ Hc]. exact Hc. }
  split.
  - split; [rewrite Eo, Hoo; reflexivity|]. exists sels. split; [exact Hs|]. split; [apply mpe_only_if_close; exact Hs|].
    split; [|apply Hok]. unfold from_cells_fn. rewrite EFn. eapply F2_map_r; [|exact HF]. intros rc vp [Hc _]. exact Hc.
  - intros sels' Hs'. rewrite Hs in Hs'. inversion Hs'; subst sels'. apply Hok.
Qed.

Theorem class_plscf_explicit conf (A A':algo) freq eo rtol : plscf_class_mpe conf A freq (Explicit eo) rtol = COk A' ->
  exists T R, a_tabs A = Some T /\ a_res A' = Some R /\ params_stored A A' freq (Explicit eo) rtol /\
    explicit_statement T R freq eo rtol /\ r_cov R = None.
Proof.
  intros H. apply class_mpe_ok in H. destruct H as (T & R & ET & EF & ER & EP).
  exists T, R. split; [exact ET|]. split; [exact ER|]. split; [exact EP|].
  revert EF. unfold plscf_fun, plscf_args, plscf_mpe_explicit. cbn [fa_order fa_Fn fa_Xi fa_Phi fa_freq fa_rtol].
  destruct (mpe_explicit (Fn_poles T) (tzip (Xi_poles T) (Phi_poles T)) freq eo rtol) as [[vals oo]|e] eqn:E; intros H; inversion H; subst R; clear H.
  destruct (mpe_whole _ _ _ _ _ _ _ E) as (Hoo & sels & Hs & HF).
  split; [|reflexivity]. split; [cbn [r_order_out]; rewrite Hoo; reflexivity|].
  exists sels. split; [exact Hs|]. split; [apply mpe_only_if_close; exact Hs|]. split.
  - unfold from_cells_fn. cbn [r_Fn]. eapply F2_map_r; [|exact HF]. intros rc vp [Hc _]. exact Hc.
  - eapply plscf_vals_cells; [reflexivity|reflexivity|]. eapply F2_impl; [|exact HF]. intros rc vp [_ Hc]. exact Hc.
Qed.

(* ------------------------------------------------------------------------------------------------------- *)
(* FIND_MIN through the classes *)
Definition find_min_statement (band:Q->Q->bool) (T:tables) (R:results) freq rtol (cov_clause:list (nat*nat) -> Prop) : Prop :=
  match r_order_out R with
  | PExp (OutInt i) =>
      (i < ncols (Fn_poles T))%nat /\ qualifies band 1 (Lab T) (Fn_poles T) freq rtol i /\
      (forall i', (i' < i)%nat -> ~ qualifies band 1 (Lab T) (Fn_poles T) freq rtol i') /\
      exists rps : list (nat * Q),
        Forall2 (fun f rp => stable_at 1 (Lab T) (Fn_poles T) i (fst rp) (snd rp) /\ region band f (snd rp) /\
                             isclose rtol (snd rp) f = true) freq rps /\
        Forall2 (fun rp fo => fo == snd rp) rps (r_Fn R) /\
        from_cells3 T R (map (fun rp => (fst rp, i)) rps) /\ cov_clause (map (fun rp => (fst rp, i)) rps)
  | PExp OutNone =>
      r_Fn R = [] /\ r_Xi R = [] /\ r_Phi R = [] /\ cov_clause [] /\
      forall i', (i' < ncols (Fn_poles T))%nat -> ~ qualifies band 1 (Lab T) (Fn_poles T) freq rtol i'
  | _ => False
  end.

(* carrying the statement of P_mpe.mpe_find_min_gen through an unzipping *)
Lemma find_min_carry (band:Q->Q->bool) (P:Type) (T:tables) (R:results) (Pay:list (list P)) freq rtol vals oo (cc:list (nat*nat) -> Prop) :
  separated band freq -> no_reach band freq rtol ->
  find_min_gen band 1 (Fn_poles T) Pay (Lab T) freq rtol = Ok (vals, oo) ->
  r_order_out R = PExp oo -> r_Fn R = map fst vals ->
  (forall cells, Forall2 (fun rc vp => cell Pay (fst rc) (snd rc) = Some (snd vp)) cells vals -> from_cells3 T R cells /\ cc cells) ->
  find_min_statement band T R freq rtol cc.
Proof.
  intros Hsep Hnr E Eo EFn Hpay.
  pose proof (mpe_find_min_gen band 1%Z (Fn_poles T) Pay (Lab T) freq rtol Hsep Hnr) as M. rewrite E in M.
  unfold find_min_statement. rewrite Eo. destruct oo as [i|l|].
  - destruct M as (Hi & Hq & Hmin & HF). split; [exact Hi|]. split; [exact Hq|]. split; [exact Hmin|].
    assert (HF' : Forall2 (fun f vp => exists rp : nat * Q,
                    (stable_at 1 (Lab T) (Fn_poles T) i (fst rp) (snd rp) /\ region band f (snd rp) /\ isclose rtol (snd rp) f = true) /\
                    (fst vp == snd rp /\ cell Pay (fst rp) i = Some (snd vp))) freq vals).
    { eapply F2_impl; [|exact HF]. intros f vp (r & p & H1 & H2 & H3 & H4 & H5). exists (r, p). cbn [fst snd]. auto. }
    apply F2_split_ex in HF'. destruct HF' as (rps & G1 & G2). exists rps. split; [exact G1|]. split.
    + rewrite EFn. eapply F2_map_r; [|exact G2]. intros rp vp [Hv _]. exact Hv.
    + apply Hpay. eapply F2_map_l; [|exact G2]. intros rp vp [_ Hc]. exact Hc.
  - destruct M.
  - destruct M as [Hv Hno]. subst vals. destruct (Hpay [] (Forall2_nil _)) as [[H1 H2] H3].
    split; [rewrite EFn; reflexivity|]. split; [apply (F2_nil_l _ _ H1)|]. split; [apply (F2_nil_l _ _ H2)|]. split; [exact H3|exact Hno].
Qed.

Theorem class_ssi_find_min (A A':algo) freq rtol :
  ForallOrdPairs (fun f g => f + rtol < g - rtol) freq ->
  (forall f g, In f freq -> In g freq -> f = g \/ rtol + (atol + rtol * Qabs g) < Qabs (f - g)) ->
  ssi_class_mpe A freq FindMin rtol = COk A' ->
  exists T R, a_tabs A = Some T /\ a_res A' = Some R /\ params_stored A A' freq FindMin rtol /\
    find_min_statement (inb rtol) T R freq rtol (from_cells_cov T R).
Proof.
  intros H1 H2 H. apply class_mpe_ok in H. destruct H as (T & R & ET & EF & ER & EP).
  exists T, R. split; [exact ET|]. split; [exact ER|]. split; [exact EP|].
  apply ssi_fun_cells in EF. destruct EF as (P & Pay & vals & oo & E & Eo & EFn & _ & Hpay).
  cbn [ssi_mpe] in E. unfold find_min in E.
  eapply find_min_carry; [apply separated_inb; exact H1|apply no_reach_inb; exact H2|exact E|exact Eo|exact EFn|].
  intros cells HF. apply Hpay. exact HF.
Qed.

Theorem class_plscf_find_min_conforming (A A':algo) freq rtol :
  ForallOrdPairs (fun f g => f + (1#20) <= g - (1#20)) freq ->
  (forall f g, In f freq -> In g freq -> f = g \/ (1#20) + (atol + rtol * Qabs g) <= Qabs (f - g)) ->
  plscf_class_mpe true A freq FindMin rtol = COk A' ->
  exists T R, a_tabs A = Some T /\ a_res A' = Some R /\ params_stored A A' freq FindMin rtol /\
    find_min_statement (inbs (1#20)) T R freq rtol (fun _ => r_cov R = None).
Proof.
  intros H1 H2 H. apply class_mpe_ok in H. destruct H as (T & R & ET & EF & ER & EP).
  exists T, R. split; [exact ET|]. split; [exact ER|]. split; [exact EP|].
  revert EF. unfold plscf_fun, plscf_args, plscf_find_min_conforming, default_deltaf.
  cbn [fa_order fa_Fn fa_Xi fa_Phi fa_freq fa_rtol fa_Lab fa_deltaf].
  destruct (find_min_gen (inbs (1#20)) 1 (Fn_poles T) (tzip (Xi_poles T) (Phi_poles T)) (Lab T) freq rtol) as [[vals oo]|e] eqn:E;
    intros H; inversion H; subst R; clear H.
  eapply find_min_carry; [apply separated_inbs; exact H1|apply no_reach_inbs; exact H2|exact E|reflexivity|reflexivity|].
  intros cells HF. split; [|reflexivity]. eapply plscf_vals_cells; [reflexivity|reflexivity|exact HF].
Qed.

(* the PRESENT pLSCF class on tables without a label 7 (gen.SC_apply writes 0 and 1): nothing is extracted, whatever is asked *)
Theorem class_plscf_present_blind (A A':algo) freq rtol :
  (forall T, a_tabs A = Some T -> Forall (Forall (fun l => l <> 7%Z)) (Lab T)) ->
  plscf_class_mpe false A freq FindMin rtol = COk A' ->
  exists T R, a_tabs A = Some T /\ a_res A' = Some R /\
    r_Fn R = [] /\ r_Xi R = [] /\ r_Phi R = [] /\ r_cov R = None /\
    r_order_out R = PZ (Z.of_nat (ncols (Fn_poles T) - 1) - 1)%Z.
Proof.
  intros HL H. apply class_mpe_ok in H. destruct H as (T & R & ET & EF & ER & EP).
  exists T, R. split; [exact ET|]. split; [exact ER|].
  revert EF. unfold plscf_fun, plscf_args. cbn [fa_order fa_Fn fa_Xi fa_Phi fa_freq fa_rtol fa_Lab fa_deltaf].
  pose proof (plscf_present_blind (Fn_poles T) (tzip (Xi_poles T) (Phi_poles T)) (Lab T) freq default_deltaf rtol (HL T ET)) as B.
  destruct (plscf_find_min_present (Fn_poles T) (tzip (Xi_poles T) (Phi_poles T)) (Lab T) freq default_deltaf rtol) as [[[us ps] z]|e];
    intros H; inversion H; subst R; clear H.
  destruct B as (Hu & Hp & Hz). subst us ps z. cbn. repeat split; reflexivity.
Qed.

(* ------------------------------------------------------------------------------------------------------- *)
(* no exception on rectangular tables *)
Definition rect_tables n m (T:tables) : Prop :=
  rect n m (Fn_poles T) /\ rect n m (Xi_poles T) /\ rect n m (Phi_poles T) /\ rect n m (Lab T) /\
  match cov_poles T with None => True | Some (F, Xc, Sc) => rect n m F /\ rect n m Xc /\ rect n m Sc end.

Theorem class_ssi_total (A:algo) T n m freq ord rtol : a_tabs A = Some T -> rect_tables n m T ->
  match ord with
  | Explicit eo => Forall (fun req => exists c r p, snd req = Some c /\ cell (Fn_poles T) r c = Some (Some p)) (requests freq eo)
  | FindMin => True
  end ->
  exists A', ssi_class_mpe A freq ord rtol = COk A'.
Proof.
  intros ET (RF & RX & RS & RL & RC) Hord.
  unfold ssi_class_mpe, class_mpe. rewrite ET.
  assert (HR : exists R, ssi_fun (ssi_args T (a_rp A) freq ord rtol) = Ok R).
  { unfold ssi_fun, ssi_args. cbn [fa_cov fa_Fn fa_Xi fa_Phi fa_Lab fa_freq fa_order fa_rtol].
    destruct (cov_poles T) as [[[F Xc] Sc]|].
    - destruct RC as (R1 & R2 & R3).
      assert (RP : rect n m (tzip (tzip (Xi_poles T) (Phi_poles T)) (tzip (tzip F Xc) Sc))) by (repeat apply rect_tzip; assumption).
      destruct ord as [eo|]; cbn [ssi_mpe].
      + destruct (mpe_explicit_total n m _ _ freq eo rtol RF RP Hord) as (vals & E). rewrite E. eauto.
      + destruct (mpe_find_min_total n m _ _ (Lab T) freq rtol RF RL RP) as (vals & oo & E). cbn [ssi_mpe] in E. rewrite E. eauto.
    - assert (RP : rect n m (tzip (Xi_poles T) (Phi_poles T))) by (apply rect_tzip; assumption).
      destruct ord as [eo|]; cbn [ssi_mpe].
      + destruct (mpe_explicit_total n m _ _ freq eo rtol RF RP Hord) as (vals & E). rewrite E. eauto.
      + destruct (mpe_find_min_total n m _ _ (Lab T) freq rtol RF RL RP) as (vals & oo & E). cbn [ssi_mpe] in E. rewrite E. eauto. }
  destruct HR as (R & E). rewrite E. eauto.
Qed.

(* ------------------------------------------------------------------------------------------------------- *)
(* setup.mpe(name, ...): exactly the algorithm registered under that name is updated, by its own class method *)
Theorem setup_mpe_frame conf (st:list (string * alg X S CF CX CS)) name freq ord rtol :
  match setup_mpe conf st name freq ord rtol with
  | COk st' => exists pre g g' post, st = pre ++ (name, g) :: post /\ st' = pre ++ (name, g') :: post /\
                 (forall n h, In (n, h) pre -> n <> name) /\ alg_mpe conf g freq ord rtol = COk g'
  | CErr NoAlg => forall n h, In (n, h) st -> n <> name
  | CErr e => exists pre g post, st = pre ++ (name, g) :: post /\ (forall n h, In (n, h) pre -> n <> name) /\
                 alg_mpe conf g freq ord rtol = CErr e
  end.
Proof.
  induction st as [|[n g] t IH]; cbn [setup_mpe].
  - intros n h [].
  - destruct (String.eqb n name) eqn:En.
    + apply String.eqb_eq in En. subst n.
      destruct (alg_mpe conf g freq ord rtol) as [g'|e] eqn:E.
      * exists [], g, g', t. cbn [app]. repeat split; auto; intros ? ? [].
      * assert (G : exists pre g0 post, (name, g) :: t = pre ++ (name, g0) :: post /\ (forall n h, In (n, h) pre -> n <> name) /\
                      alg_mpe conf g0 freq ord rtol = CErr e).
        { exists [], g, t. cbn [app]. repeat split; auto; intros ? ? []. }
        destruct e as [e| |]; [exact G|exact G|].
        exfalso. destruct g as [a|a]; cbn [alg_mpe] in E.
        -- unfold ssi_class_mpe, class_mpe in E. destruct (a_tabs a); [destruct (ssi_fun _)|]; discriminate.
        -- unfold plscf_class_mpe, class_mpe in E. destruct (a_tabs a); [destruct (plscf_fun _ _)|]; discriminate.
    + apply String.eqb_neq in En.
      destruct (setup_mpe conf t name freq ord rtol) as [t'|e] eqn:E.
      * destruct IH as (pre & g0 & g' & post & H1 & H2 & H3 & H4).
        exists ((n, g) :: pre), g0, g', post. cbn [app]. subst t t'. repeat split; auto.
        intros n' h [Hh|Hh]; [inversion Hh; subst; exact En|eapply H3; exact Hh].
      * assert (G : (exists pre g0 post, t = pre ++ (name, g0) :: post /\ (forall n h, In (n, h) pre -> n <> name) /\
                       alg_mpe conf g0 freq ord rtol = CErr e) ->
                    exists pre g0 post, (n, g) :: t = pre ++ (name, g0) :: post /\ (forall n h, In (n, h) pre -> n <> name) /\
                       alg_mpe conf g0 freq ord rtol = CErr e).
        { intros (pre & g0 & post & H1 & H3 & H4). exists ((n, g) :: pre), g0, post. cbn [app]. subst t. repeat split; auto.
          intros n' h [Hh|Hh]; [inversion Hh; subst; exact En|eapply H3; exact Hh]. }
        destruct e as [e| |]; [apply G; exact IH|apply G; exact IH|].
        intros n' h [Hh|Hh]; [inversion Hh; subst; exact En|eapply IH; exact Hh].
Qed.

End ClassProofs.
