(* C01 - proofs about the realisation step (Model/M_realise.v): Hankel factorisation of a free decay, the basis
   delivered by a truncated SVD, the nested QR left inverse, similarity of the identified pair with the true one,
   transport of eigen-pairs.  Generic commutative ring; inverses enter as two-sided inverse witnesses, so no
   division is ever cancelled and no rank / determinant theory is needed. *)
From Coq Require Import List Arith Lia Ring Setoid Morphisms Psatz Bool.
From PyOMA.Base Require Import Carrier FMat.
From PyOMA.Model Require Import M_hankel M_realise.
Import ListNotations.

Section P.
Variable R:Type. Variable K:Ops R.
Hypothesis Rth : ring_theory (o0 K) (o1 K) (oadd K) (omul K) (osub K) (oopp K) (@eq R).
Add Ring RrRe : Rth.
Local Open Scope K_scope.
Notation "0" := (o0 K) : K_scope. Notation "1" := (o1 K) : K_scope.
Infix "+" := (oadd K) : K_scope. Infix "*" := (omul K) : K_scope.
Notation fmul := (fmul K). Notation fid := (fid K). Notation fscal := (fscal K). Notation fpow := (fpow K).
Let assoc := fmul_assoc R K Rth.
Let idl := fmul_id_l R K Rth.
Let idr := fmul_id_r R K Rth.

(* ---------- small facts ---------- *)
Lemma feq_sub m n m' n' (A B:fmat R) : (m' <= m)%nat -> (n' <= n)%nat -> feq m n A B -> feq m' n' A B.
Proof. intros Hm Hn H i j Hi Hj. apply H; lia. Qed.

Lemma rows_dn_fmul l n (A B:fmat R) i j : rows_dn l (fmul n A B) i j = fmul n (rows_dn l A) B i j.
Proof. reflexivity. Qed.

Lemma sumn_trunc n k (f:nat->R) : (n <= k)%nat -> (forall j, (n <= j < k)%nat -> f j = 0) -> sumn K k f = sumn K n f.
Proof.
  intros Hnk Hz. induction k.
  - replace n with 0%nat by lia. reflexivity.
  - destruct (Nat.eq_dec n (S k)) as [->|Hne]; [reflexivity|].
    cbn [sumn]. rewrite IHk by (try lia; intros; apply Hz; lia). rewrite (Hz k) by lia. ring.
Qed.

Lemma fdiag_mul_l n (d:nat->R) (B:fmat R) c j : (c < n)%nat -> fmul n (fdiag K d) B c j = d c * B c j.
Proof.
  intros Hc. unfold FMat.fmul, fdiag.
  rewrite (sumn_ext R K n _ (fun e => (if Nat.eqb e c then 1 else 0) * (d c * B e j))).
  - apply (sumn_delta R K Rth n c (fun e => d c * B e j) Hc).
  - intros e He. rewrite (Nat.eqb_sym c e). destruct (Nat.eqb e c); ring.
Qed.

(* ---------- matrix powers ---------- *)
Lemma fpow_add n A i s : feq n n (fpow n A (i + s)) (fmul n (fpow n A i) (fpow n A s)).
Proof.
  induction s.
  - rewrite Nat.add_0_r. cbn [M_realise.fpow]. rewrite (idr n n). reflexivity.
  - rewrite Nat.add_succ_r. cbn [M_realise.fpow]. rewrite IHs. apply (assoc n n n n).
Qed.

(* ---------- free decay: future outputs = observability x state sequence ---------- *)
(* sample i+s of the response is block i of the observability matrix times the state at s *)
Lemma free_decay_split l n (C A:fmat R) x0 i s a : (a < l)%nat ->
  free_decay K n C A x0 a (i + s)%nat = fmul n (fmul n C (fpow n A i)) (state_seq K n s A x0) a 0%nat.
Proof.
  intros Ha. unfold free_decay, state_seq.
  assert (E: feq l 1 (fmul n (fmul n C (fpow n A (i+s))) (colv x0))
                     (fmul n (fmul n C (fpow n A i)) (fun k t => fmul n (fpow n A (s + t)) (colv x0) k 0%nat))).
  { rewrite (fpow_add n A i s). rewrite <- (assoc l n n n C). rewrite (assoc l n n 1 (fmul n C (fpow n A i))).
    intros r c Hr Hc.
    change (sumn K n (fun k => fmul n C (fpow n A i) r k * fmul n (fpow n A s) (colv x0) k c)
            = sumn K n (fun k => fmul n C (fpow n A i) r k * fmul n (fpow n A (s + c)) (colv x0) k 0%nat)).
    apply sumn_ext; intros k Hk. f_equal.
    replace c with 0%nat by lia. rewrite Nat.add_0_r. reflexivity. }
  apply E; lia.
Qed.

Theorem free_decay_factor l n br N (C A:fmat R) x0 : (0 < l)%nat ->
  feq (hank_rows l br) N (mm_Yf l br (free_decay K n C A x0))
      (fmul n (obs_blk K l n C A) (state_seq K n (S br + 1) A x0)).
Proof.
  intros Hl I t HI Ht. unfold mm_Yf.
  replace (S br + 1 + I / l + t)%nat with (I / l + (S br + 1 + t))%nat by lia.
  rewrite (free_decay_split l n C A x0 (I / l) (S br + 1 + t) (I mod l)) by (apply Nat.mod_upper_bound; lia).
  change (sumn K n (fun k => fmul n C (fpow n A (I / l)) (I mod l)%nat k * state_seq K n (S br + 1 + t) A x0 k 0%nat)
          = sumn K n (fun k => obs_blk K l n C A I k * state_seq K n (S br + 1) A x0 k t)).
  apply sumn_ext; intros k Hk. unfold obs_blk. f_equal.
  unfold state_seq. replace (S br + 1 + t + 0)%nat with (S br + 1 + t)%nat by lia. reflexivity.
Qed.

(* the block shift structure of the observability matrix: O[l:, :] = O[:-l, :] . A *)
Theorem obs_blk_shift l n pr (C A:fmat R) : (0 < l)%nat ->
  feq pr n (rows_dn l (obs_blk K l n C A)) (fmul n (obs_blk K l n C A) A).
Proof.
  intros Hl I k HI Hk. unfold rows_dn, obs_blk.
  replace (I + l)%nat with (I + 1 * l)%nat by lia. rewrite Nat.div_add, Nat.mod_add by lia.
  replace (I / l + 1)%nat with (S (I / l)) by lia. cbn [M_realise.fpow].
  assert (Hm: (I mod l < l)%nat) by (apply Nat.mod_upper_bound; lia).
  symmetry. apply (assoc l n n n C (fpow n A (I / l)) A (I mod l)%nat k Hm Hk).
Qed.
(* its first block is C *)
Theorem obs_blk_first l n (C A:fmat R) : feq l n (obs_blk K l n C A) C.
Proof.
  intros I k HI Hk. unfold obs_blk. rewrite Nat.div_small, Nat.mod_small by lia. cbn [M_realise.fpow].
  apply (idr l n C I k HI Hk).
Qed.

(* the moment-matrix Hankel of a free decay is an exact product observability x controllability-like factor *)
Definition mm_Gamma invN n r br Ndat (A:fmat R) x0 (Yref:sig R) : fmat R :=
  fscal invN (fmul (mm_N br Ndat - 1) (state_seq K n (S br + 1) A x0) (ftr (mm_Yp r br Yref))).
Theorem hank_factor invN l r n br Ndat (C A:fmat R) x0 (Yref:sig R) : (0 < l)%nat ->
  feq (hank_rows l br) (hank_cols r br)
      (hank_mm K invN l r br Ndat (free_decay K n C A x0) Yref)
      (fmul n (obs_blk K l n C A) (mm_Gamma invN n r br Ndat A x0 Yref)).
Proof.
  intros Hl. unfold hank_mm, mm_Gamma.
  rewrite (free_decay_factor l n br (mm_N br Ndat - 1) C A x0 Hl).
  rewrite (assoc (hank_rows l br) n (mm_N br Ndat - 1) (hank_cols r br)).
  rewrite (fmul_scal_r R K Rth (hank_rows l br) n (hank_cols r br)). reflexivity.
Qed.

(* ---------- the basis delivered by the truncated SVD ---------- *)
Section Svd.
Variables (M N n : nat).
Variables (H U V D Dq Dqi Ob Gam OL GR : fmat R).
Hypothesis Hsvd : feq M N H (fmul n U (fmul n D (ftr V))).
Hypothesis HUU : feq n n (fmul M (ftr U) U) fid.
Hypothesis HVV : feq n n (fmul N (ftr V) V) fid.
Hypothesis HDq : feq n n (fmul n Dq Dq) D.
Hypothesis HDqi1 : feq n n (fmul n Dq Dqi) fid.
Hypothesis HDqi2 : feq n n (fmul n Dqi Dq) fid.
Hypothesis Hfac : feq M N H (fmul n Ob Gam).
Hypothesis HOL : feq n n (fmul M OL Ob) fid.
Hypothesis HGR : feq n n (fmul N Gam GR) fid.

Definition svd_T : fmat R := fmul N Gam (fmul n V Dqi).
Definition svd_Ti : fmat R := fmul n Dqi (fmul M (ftr U) Ob).

Lemma svd_ObT : feq M n (fmul n U Dq) (fmul n Ob svd_T).
Proof.
  unfold svd_T. rewrite <- (assoc M n N n Ob Gam). rewrite <- Hfac. rewrite Hsvd.
  rewrite (assoc M n N n U). rewrite (assoc n n N n D).
  rewrite <- (assoc n N n n (ftr V) V Dqi). rewrite HVV. rewrite (idl n n).
  rewrite <- HDq. rewrite (assoc n n n n Dq Dq Dqi). rewrite HDqi1. rewrite (idr n n). reflexivity.
Qed.

Lemma svd_TiT : feq n n (fmul n svd_Ti svd_T) fid.
Proof.
  unfold svd_Ti at 1. rewrite (assoc n n n n Dqi). rewrite (assoc n M n n (ftr U) Ob).
  rewrite <- svd_ObT. rewrite <- (assoc n M n n (ftr U) U Dq). rewrite HUU. rewrite (idl n n). exact HDqi2.
Qed.

Lemma svd_ObT_TiGam : feq M N (fmul n (fmul n Ob svd_T) (fmul n svd_Ti Gam)) H.
Proof.
  rewrite <- svd_ObT. unfold svd_Ti. rewrite (assoc n n n N Dqi). rewrite (assoc n M n N (ftr U) Ob Gam).
  rewrite <- Hfac. rewrite (assoc M n n N U Dq). rewrite <- (assoc n n n N Dq Dqi). rewrite HDqi1. rewrite (idl n N).
  rewrite Hsvd at 1. rewrite <- (assoc n M n N (ftr U) U). rewrite HUU. rewrite (idl n N). symmetry. exact Hsvd.
Qed.

Lemma svd_TTi : feq n n (fmul n svd_T svd_Ti) fid.
Proof.
  set (X := fmul n svd_T svd_Ti).
  assert (E: feq M N (fmul n Ob (fmul n X Gam)) (fmul n Ob Gam)).
  { unfold X. rewrite (assoc n n n N svd_T svd_Ti Gam). rewrite <- (assoc M n n N Ob svd_T).
    rewrite svd_ObT_TiGam. exact Hfac. }
  transitivity (fmul M OL (fmul N (fmul n Ob (fmul n X Gam)) GR)).
  - symmetry. rewrite (assoc M n N n Ob (fmul n X Gam) GR). rewrite (assoc n n N n X Gam GR). rewrite HGR.
    rewrite (idr n n X). rewrite <- (assoc n M n n OL Ob X). rewrite HOL. apply (idl n n).
  - rewrite E. rewrite (assoc M n N n Ob Gam GR). rewrite HGR. rewrite (idr M n Ob). exact HOL.
Qed.
End Svd.

(* the contract of np.linalg.svd as the code uses it: k singular triplets, sigma_j = 0 beyond the rank n,
   sq_j^2 = sigma_j with sq_j sqi_j = 1 below it.  Obs[:, :n] = U[:, :n] diag(sq) is then O . T for an invertible T. *)
Theorem svd_basis M N k n (H U V Ob Gam OL GR:fmat R) (sg sq sqi:nat->R) : (n <= k)%nat ->
  feq M N H (fmul k U (fmul k (fdiag K sg) (ftr V))) ->
  feq k k (fmul M (ftr U) U) fid ->
  feq k k (fmul N (ftr V) V) fid ->
  (forall j, (n <= j < k)%nat -> sg j = 0) ->
  (forall j, (j < n)%nat -> sq j * sq j = sg j /\ sq j * sqi j = 1) ->
  feq M N H (fmul n Ob Gam) -> feq n n (fmul M OL Ob) fid -> feq n n (fmul N Gam GR) fid ->
  let T := svd_T N n V (fdiag K sqi) Gam in
  let Ti := svd_Ti M n U (fdiag K sqi) Ob in
  feq M n (obs_scaled K U sq) (fmul n Ob T) /\ feq n n (fmul n T Ti) fid /\ feq n n (fmul n Ti T) fid.
Proof.
  intros Hnk Hsvd HUU HVV Hz Hsq Hfac HOL HGR T Ti.
  assert (Hsvd': feq M N H (fmul n U (fmul n (fdiag K sg) (ftr V)))).
  { intros i j Hi Hj. rewrite (Hsvd i j Hi Hj).
    transitivity (sumn K k (fun c => U i c * (sg c * ftr V c j))).
    { apply sumn_ext; intros c Hc. rewrite (fdiag_mul_l k sg (ftr V) c j Hc). reflexivity. }
    rewrite (sumn_trunc n k) by (try exact Hnk; intros c Hc; rewrite (Hz c Hc); ring).
    apply sumn_ext; intros c Hc. rewrite (fdiag_mul_l n sg (ftr V) c j Hc). reflexivity. }
  assert (Hsvd'': feq M N H (fmul n U (fmul n (fdiag K sg) (ftr V)))) by exact Hsvd'.
  assert (Hdg: forall (d e:nat->R), feq n n (fmul n (fdiag K d) (fdiag K e)) (fdiag K (fun j => d j * e j))).
  { intros d e i j Hi Hj. unfold FMat.fmul, fdiag.
    rewrite (sumn_ext R K n _ (fun c => (if Nat.eqb c i then 1 else 0) * (if Nat.eqb c j then d i * e c else 0))).
    - rewrite (sumn_delta R K Rth n i (fun c => if Nat.eqb c j then d i * e c else 0) Hi).
      destruct (Nat.eqb_spec i j) as [->|]; reflexivity.
    - intros c Hc. rewrite (Nat.eqb_sym c i). destruct (Nat.eqb_spec i c) as [->|]; destruct (Nat.eqb c j); ring. }
  assert (Hd1: forall (d e:nat->R), (forall j, (j<n)%nat -> d j = e j) -> feq n n (fdiag K d) (fdiag K e)).
  { intros d e He i j Hi Hj. unfold fdiag. destruct (Nat.eqb i j); [apply He; exact Hi|reflexivity]. }
  assert (Hone: feq n n (fdiag K (fun _ => 1)) fid).
  { intros i j _ _. reflexivity. }
  assert (HDq: feq n n (fmul n (fdiag K sq) (fdiag K sq)) (fdiag K sg)).
  { rewrite Hdg. apply Hd1. intros j Hj. apply (Hsq j Hj). }
  assert (HDqi1: feq n n (fmul n (fdiag K sq) (fdiag K sqi)) fid).
  { rewrite Hdg. rewrite <- Hone. apply Hd1. intros j Hj. apply (Hsq j Hj). }
  assert (HDqi2: feq n n (fmul n (fdiag K sqi) (fdiag K sq)) fid).
  { rewrite Hdg. rewrite <- Hone. apply Hd1. intros j Hj. destruct (Hsq j Hj) as [_ E]. rewrite <- E. ring. }
  assert (HUU': feq n n (fmul M (ftr U) U) fid) by (apply (feq_sub k k); [exact Hnk|exact Hnk|exact HUU]).
  assert (HVV': feq n n (fmul N (ftr V) V) fid) by (apply (feq_sub k k); [exact Hnk|exact Hnk|exact HVV]).
  assert (Hobs: feq M n (obs_scaled K U sq) (fmul n U (fdiag K sq))).
  { intros i j Hi Hj. unfold obs_scaled, FMat.fmul, fdiag.
    rewrite (sumn_ext R K n _ (fun c => (if Nat.eqb c j then 1 else 0) * (U i c * sq c))).
    - rewrite (sumn_delta R K Rth n j (fun c => U i c * sq c) Hj). reflexivity.
    - intros c Hc. destruct (Nat.eqb c j); ring. }
  split; [|split].
  - rewrite Hobs. apply (svd_ObT M N n H U V (fdiag K sg) (fdiag K sq) (fdiag K sqi) Ob Gam); assumption.
  - apply (svd_TTi M N n H U V (fdiag K sg) (fdiag K sq) (fdiag K sqi) Ob Gam OL GR); assumption.
  - apply (svd_TiT M N n H U V (fdiag K sg) (fdiag K sq) (fdiag K sqi) Ob Gam); assumption.
Qed.

(* ---------- nested QR: the fast routine applies a left inverse of O_p[:, :n] for every order n <= ordmax ---------- *)
Section Qr.
Variables (pr n0 n : nat) (Op Q Rq Rni : fmat R).
Hypothesis Hn : (n <= n0)%nat.
Hypothesis Hqr : feq pr n0 Op (fmul n0 Q Rq).
Hypothesis HQQ : feq n0 n0 (fmul pr (ftr Q) Q) fid.
Hypothesis Htri : forall i j, (j < i)%nat -> (i < n0)%nat -> Rq i j = 0.
Hypothesis HRi : feq n n (fmul n Rni Rq) fid.

Lemma qr_leading : feq pr n Op (fmul n Q Rq).
Proof.
  intros i j Hi Hj. rewrite (Hqr i j Hi) by lia. unfold FMat.fmul.
  apply (sumn_trunc n n0 _ Hn). intros c Hc. rewrite (Htri c j) by lia. ring.
Qed.

Theorem qr_nested : feq n n (fmul pr (fmul n Rni (ftr Q)) Op) fid.
Proof.
  rewrite qr_leading. rewrite (assoc n n pr n Rni (ftr Q)). rewrite <- (assoc n pr n n (ftr Q) Q Rq).
  rewrite (feq_sub n0 n0 n n _ _ Hn Hn HQQ). rewrite (idl n n). exact HRi.
Qed.

(* inv(R[:n,:n]) (Q^T O_m)[:n,:n] = (inv(R[:n,:n]) Q[:, :n]^T) O_m[:, :n] *)
Lemma ssi_fast_A_left (Om:fmat R) : feq n n (ssi_fast_A K pr n Rni Q Om) (fmul pr (fmul n Rni (ftr Q)) Om).
Proof. unfold ssi_fast_A. symmetry. apply (assoc n n pr n). Qed.
End Qr.

(* ---------- similarity of the identified pair with the true one ---------- *)
(* generic form: any left inverse L of O_p[:, :n] *)
Theorem realisation_similar_gen rows l n (Obs Ob A C T Ti L:fmat R) :
  feq rows n Obs (fmul n Ob T) ->
  feq (rows - l) n (rows_dn l Ob) (fmul n Ob A) ->
  feq l n Ob C -> (l <= rows)%nat ->
  feq n n (fmul n T Ti) fid ->
  feq n n (fmul (rows - l) L Obs) fid ->
  feq n n (fmul (rows - l) L (rows_dn l Obs)) (fmul n Ti (fmul n A T)) /\ feq l n (ssi_C Obs) (fmul n C T).
Proof.
  intros HObs Hshift HC Hl HT HL. split.
  - assert (Hdn: feq (rows - l) n (rows_dn l Obs) (fmul n (rows_dn l Ob) T)).
    { intros i j Hi Hj. unfold rows_dn at 1. rewrite (HObs (i + l)%nat j) by lia. reflexivity. }
    rewrite Hdn.
    apply (shift_invariance_similarity R K Rth (rows - l) n Ob (rows_dn l Ob) A T Ti L Hshift HT).
    rewrite <- (feq_sub rows n (rows - l) n _ _ (Nat.le_sub_l rows l) (le_n n) HObs). exact HL.
  - unfold ssi_C. rewrite (feq_sub rows n l n _ _ Hl (le_n n) HObs). rewrite HC. reflexivity.
Qed.

(* SSI_fast: QR of the full-width O_p, order n <= ordmax *)
Theorem realisation_similar_fast rows l n0 n (Obs Ob A C T Ti Q Rq Rni:fmat R) :
  (n <= n0)%nat -> (l <= rows)%nat ->
  feq rows n Obs (fmul n Ob T) ->
  feq (rows - l) n (rows_dn l Ob) (fmul n Ob A) ->
  feq l n Ob C ->
  feq n n (fmul n T Ti) fid ->
  feq (rows - l) n0 Obs (fmul n0 Q Rq) ->
  feq n0 n0 (fmul (rows - l) (ftr Q) Q) fid ->
  (forall i j, (j < i)%nat -> (i < n0)%nat -> Rq i j = 0) ->
  feq n n (fmul n Rni Rq) fid ->
  feq n n (ssi_fast_A K (rows - l) n Rni Q (rows_dn l Obs)) (fmul n Ti (fmul n A T)) /\ feq l n (ssi_C Obs) (fmul n C T).
Proof.
  intros Hn Hl HObs Hshift HC HT Hqr HQQ Htri HRi.
  rewrite (ssi_fast_A_left (rows - l) n Q Rni).
  apply (realisation_similar_gen rows l n Obs Ob A C T Ti (fmul n Rni (ftr Q))); try assumption.
  apply (qr_nested (rows - l) n0 n Obs Q Rq Rni); assumption.
Qed.

(* SSI (legacy): the pseudo-inverse of a full-column-rank O_p[:, :n] is a left inverse *)
Theorem realisation_similar_legacy rows l n (Obs Ob A C T Ti Pinv:fmat R) :
  (l <= rows)%nat ->
  feq rows n Obs (fmul n Ob T) ->
  feq (rows - l) n (rows_dn l Ob) (fmul n Ob A) ->
  feq l n Ob C ->
  feq n n (fmul n T Ti) fid ->
  feq n n (fmul (rows - l) Pinv Obs) fid ->
  feq n n (ssi_legacy_A K (rows - l) Pinv (rows_dn l Obs)) (fmul n Ti (fmul n A T)) /\ feq l n (ssi_C Obs) (fmul n C T).
Proof.
  intros Hl HObs Hshift HC HT HP. unfold ssi_legacy_A.
  apply (realisation_similar_gen rows l n Obs Ob A C T Ti Pinv); assumption.
Qed.

(* ---------- eigen-pairs are transported by a similarity, in both directions ---------- *)
Definition eigpair (n:nat) (A:fmat R) (lam:R) (v:fmat R) : Prop :=
  feq n 1 (fmul n A v) (fscal lam v) /\ ~ feq n 1 v (fzero K).

Theorem eigpair_transport_fwd n l (A Ah C Ch T Ti:fmat R) lam phi :
  feq n n Ah (fmul n Ti (fmul n A T)) -> feq l n Ch (fmul n C T) ->
  feq n n (fmul n T Ti) fid ->
  eigpair n A lam phi ->
  eigpair n Ah lam (fmul n Ti phi) /\ feq l 1 (fmul n Ch (fmul n Ti phi)) (fmul n C phi).
Proof.
  intros HA HC HT [He Hnz].
  assert (HTT: feq n 1 (fmul n T (fmul n Ti phi)) phi).
  { rewrite <- (assoc n n n 1 T Ti phi). rewrite HT. apply (idl n 1). }
  split; [split|].
  - rewrite HA. rewrite (assoc n n n 1 Ti). rewrite (assoc n n n 1 A T). rewrite HTT. rewrite He.
    apply (fmul_scal_r R K Rth n n 1).
  - intros Hz. apply Hnz. rewrite <- HTT. rewrite Hz. apply (fmul_zero_r R K Rth n n 1).
  - rewrite HC. rewrite (assoc l n n 1 C T). rewrite HTT. reflexivity.
Qed.

Lemma similar_sym n l (A Ah C Ch T Ti:fmat R) :
  feq n n Ah (fmul n Ti (fmul n A T)) -> feq l n Ch (fmul n C T) ->
  feq n n (fmul n T Ti) fid ->
  feq n n A (fmul n T (fmul n Ah Ti)) /\ feq l n C (fmul n Ch Ti).
Proof.
  intros HA HC HT. split.
  - rewrite HA. rewrite (assoc n n n n Ti (fmul n A T) Ti). rewrite (assoc n n n n A T Ti). rewrite HT. rewrite (idr n n A).
    rewrite <- (assoc n n n n T Ti A). rewrite HT. rewrite (idl n n). reflexivity.
  - rewrite HC. rewrite (assoc l n n n C T Ti). rewrite HT. rewrite (idr l n). reflexivity.
Qed.

Theorem eigpair_transport_bwd n l (A Ah C Ch T Ti:fmat R) lam psi :
  feq n n Ah (fmul n Ti (fmul n A T)) -> feq l n Ch (fmul n C T) ->
  feq n n (fmul n T Ti) fid -> feq n n (fmul n Ti T) fid ->
  eigpair n Ah lam psi ->
  eigpair n A lam (fmul n T psi) /\ feq l 1 (fmul n C (fmul n T psi)) (fmul n Ch psi).
Proof.
  intros HA HC HT HT' Hp. destruct (similar_sym n l A Ah C Ch T Ti HA HC HT) as [HA' HC'].
  apply (eigpair_transport_fwd n l Ah A Ch C Ti T lam psi HA' HC' HT' Hp).
Qed.

(* the eigenvalue sets coincide *)
Corollary eigval_iff n l (A Ah C Ch T Ti:fmat R) lam :
  feq n n Ah (fmul n Ti (fmul n A T)) -> feq l n Ch (fmul n C T) ->
  feq n n (fmul n T Ti) fid -> feq n n (fmul n Ti T) fid ->
  ((exists v, eigpair n A lam v) <-> (exists w, eigpair n Ah lam w)).
Proof.
  intros HA HC HT HT'. split.
  - intros [v Hv]. exists (fmul n Ti v). apply (eigpair_transport_fwd n l A Ah C Ch T Ti lam v HA HC HT Hv).
  - intros [w Hw]. exists (fmul n T w). apply (eigpair_transport_bwd n l A Ah C Ch T Ti lam w HA HC HT HT' Hw).
Qed.
End P.

(* ---------- composition: SVD contract + QR / pinv contract => the identified pair is similar to the true one ---------- *)
Section Compose.
Variable R:Type. Variable K:Ops R.
Hypothesis Rth : ring_theory (o0 K) (o1 K) (oadd K) (omul K) (osub K) (oopp K) (@eq R).
Local Open Scope K_scope.
Notation "0" := (o0 K) : K_scope. Notation "1" := (o1 K) : K_scope.
Infix "*" := (omul K) : K_scope.
Notation fmul := (fmul K). Notation fid := (fid K).

Definition similar_pair (l n:nat) (A C Ah Ch T Ti:fmat R) : Prop :=
  feq n n (fmul n T Ti) fid /\ feq n n (fmul n Ti T) fid /\
  feq n n Ah (fmul n Ti (fmul n A T)) /\ feq l n Ch (fmul n C T).

Theorem ssi_fast_exact rows cols l k n0 n (H U V Ob Gam OL GR A C Q Rq Rni:fmat R) (sg sq sqi:nat->R) :
  (n <= n0)%nat -> (n <= k)%nat -> (l <= rows)%nat ->
  feq rows cols H (fmul k U (fmul k (fdiag K sg) (ftr V))) ->
  feq k k (fmul rows (ftr U) U) fid -> feq k k (fmul cols (ftr V) V) fid ->
  (forall j, (n <= j < k)%nat -> sg j = 0) ->
  (forall j, (j < n)%nat -> sq j * sq j = sg j /\ sq j * sqi j = 1) ->
  feq rows cols H (fmul n Ob Gam) -> feq n n (fmul rows OL Ob) fid -> feq n n (fmul cols Gam GR) fid ->
  feq (rows - l) n (rows_dn l Ob) (fmul n Ob A) -> feq l n Ob C ->
  feq (rows - l) n0 (obs_scaled K U sq) (fmul n0 Q Rq) ->
  feq n0 n0 (fmul (rows - l) (ftr Q) Q) fid ->
  (forall i j, (j < i)%nat -> (i < n0)%nat -> Rq i j = 0) ->
  feq n n (fmul n Rni Rq) fid ->
  similar_pair l n A C (ssi_fast_A K (rows - l) n Rni Q (rows_dn l (obs_scaled K U sq))) (ssi_C (obs_scaled K U sq))
               (svd_T R K cols n V (fdiag K sqi) Gam) (svd_Ti R K rows n U (fdiag K sqi) Ob).
Proof.
  intros Hn Hnk Hl Hsvd HUU HVV Hz Hsq Hfac HOL HGR Hshift HC Hqr HQQ Htri HRi.
  destruct (svd_basis R K Rth rows cols k n H U V Ob Gam OL GR sg sq sqi Hnk Hsvd HUU HVV Hz Hsq Hfac HOL HGR) as [HObs [HT HT']].
  destruct (realisation_similar_fast R K Rth rows l n0 n (obs_scaled K U sq) Ob A C _ _ Q Rq Rni Hn Hl HObs Hshift HC HT Hqr HQQ Htri HRi) as [HA HCh].
  repeat split; assumption.
Qed.

Theorem ssi_legacy_exact rows cols l k n (H U V Ob Gam OL GR A C Pinv:fmat R) (sg sq sqi:nat->R) :
  (n <= k)%nat -> (l <= rows)%nat ->
  feq rows cols H (fmul k U (fmul k (fdiag K sg) (ftr V))) ->
  feq k k (fmul rows (ftr U) U) fid -> feq k k (fmul cols (ftr V) V) fid ->
  (forall j, (n <= j < k)%nat -> sg j = 0) ->
  (forall j, (j < n)%nat -> sq j * sq j = sg j /\ sq j * sqi j = 1) ->
  feq rows cols H (fmul n Ob Gam) -> feq n n (fmul rows OL Ob) fid -> feq n n (fmul cols Gam GR) fid ->
  feq (rows - l) n (rows_dn l Ob) (fmul n Ob A) -> feq l n Ob C ->
  feq n n (fmul (rows - l) Pinv (obs_scaled K U sq)) fid ->
  similar_pair l n A C (ssi_legacy_A K (rows - l) Pinv (rows_dn l (obs_scaled K U sq))) (ssi_C (obs_scaled K U sq))
               (svd_T R K cols n V (fdiag K sqi) Gam) (svd_Ti R K rows n U (fdiag K sqi) Ob).
Proof.
  intros Hnk Hl Hsvd HUU HVV Hz Hsq Hfac HOL HGR Hshift HC HP.
  destruct (svd_basis R K Rth rows cols k n H U V Ob Gam OL GR sg sq sqi Hnk Hsvd HUU HVV Hz Hsq Hfac HOL HGR) as [HObs [HT HT']].
  destruct (realisation_similar_legacy R K Rth rows l n (obs_scaled K U sq) Ob A C _ _ Pinv Hl HObs Hshift HC HT HP) as [HA HCh].
  repeat split; assumption.
Qed.

(* the same, stated on the data: the channels are a noise-free free decay y_t = C A^t x0 and H is the moment-matrix
   Hankel of pyoma2 (Model/M_hankel.v).  Factorisation, shift structure and first block are now theorems; what remains
   assumed is observability over the block rows used (OL), excitation / record length / references (GR), and the
   contracts of the numerical kernels. *)
Theorem free_decay_realisation_fast invN l r n br Ndat k n0 (C A:fmat R) (x0:nat->R) (Yref:sig R)
    (U V OL GR Q Rq Rni:fmat R) (sg sq sqi:nat->R) :
  (0 < l)%nat -> (n <= n0)%nat -> (n <= k)%nat ->
  let rows := hank_rows l br in let cols := hank_cols r br in
  let H := hank_mm K invN l r br Ndat (free_decay K n C A x0) Yref in
  let Ob := obs_blk K l n C A in
  let Gam := mm_Gamma R K invN n r br Ndat A x0 Yref in
  feq rows cols H (fmul k U (fmul k (fdiag K sg) (ftr V))) ->
  feq k k (fmul rows (ftr U) U) fid -> feq k k (fmul cols (ftr V) V) fid ->
  (forall j, (n <= j < k)%nat -> sg j = 0) ->
  (forall j, (j < n)%nat -> sq j * sq j = sg j /\ sq j * sqi j = 1) ->
  feq n n (fmul rows OL Ob) fid -> feq n n (fmul cols Gam GR) fid ->
  feq (rows - l) n0 (obs_scaled K U sq) (fmul n0 Q Rq) ->
  feq n0 n0 (fmul (rows - l) (ftr Q) Q) fid ->
  (forall i j, (j < i)%nat -> (i < n0)%nat -> Rq i j = 0) ->
  feq n n (fmul n Rni Rq) fid ->
  similar_pair l n A C (ssi_fast_A K (rows - l) n Rni Q (rows_dn l (obs_scaled K U sq))) (ssi_C (obs_scaled K U sq))
               (svd_T R K cols n V (fdiag K sqi) Gam) (svd_Ti R K rows n U (fdiag K sqi) Ob).
Proof.
  intros Hl Hn Hnk rows cols H Ob Gam Hsvd HUU HVV Hz Hsq HOL HGR Hqr HQQ Htri HRi.
  apply (ssi_fast_exact rows cols l k n0 n H U V Ob Gam OL GR A C Q Rq Rni sg sq sqi); try assumption.
  - unfold rows, hank_rows. nia.
  - apply (hank_factor R K Rth invN l r n br Ndat C A x0 Yref Hl).
  - apply (obs_blk_shift R K Rth l n (rows - l) C A Hl).
  - apply (obs_blk_first R K Rth l n C A).
Qed.

Theorem free_decay_realisation_legacy invN l r n br Ndat k (C A:fmat R) (x0:nat->R) (Yref:sig R)
    (U V OL GR Pinv:fmat R) (sg sq sqi:nat->R) :
  (0 < l)%nat -> (n <= k)%nat ->
  let rows := hank_rows l br in let cols := hank_cols r br in
  let H := hank_mm K invN l r br Ndat (free_decay K n C A x0) Yref in
  let Ob := obs_blk K l n C A in
  let Gam := mm_Gamma R K invN n r br Ndat A x0 Yref in
  feq rows cols H (fmul k U (fmul k (fdiag K sg) (ftr V))) ->
  feq k k (fmul rows (ftr U) U) fid -> feq k k (fmul cols (ftr V) V) fid ->
  (forall j, (n <= j < k)%nat -> sg j = 0) ->
  (forall j, (j < n)%nat -> sq j * sq j = sg j /\ sq j * sqi j = 1) ->
  feq n n (fmul rows OL Ob) fid -> feq n n (fmul cols Gam GR) fid ->
  feq n n (fmul (rows - l) Pinv (obs_scaled K U sq)) fid ->
  similar_pair l n A C (ssi_legacy_A K (rows - l) Pinv (rows_dn l (obs_scaled K U sq))) (ssi_C (obs_scaled K U sq))
               (svd_T R K cols n V (fdiag K sqi) Gam) (svd_Ti R K rows n U (fdiag K sqi) Ob).
Proof.
  intros Hl Hnk rows cols H Ob Gam Hsvd HUU HVV Hz Hsq HOL HGR HP.
  apply (ssi_legacy_exact rows cols l k n H U V Ob Gam OL GR A C Pinv sg sq sqi); try assumption.
  - unfold rows, hank_rows. nia.
  - apply (hank_factor R K Rth invN l r n br Ndat C A x0 Yref Hl).
  - apply (obs_blk_shift R K Rth l n (rows - l) C A Hl).
  - apply (obs_blk_first R K Rth l n C A).
Qed.

(* data-driven Hankel (LQ contract as in P_hankel.hank_dat_gram): the returned block L21 = Yf Q1 is again
   observability x something whenever the future outputs are, so everything above applies to method 'dat' too *)
Theorem hank_dat_factor a b T n (Yf L21 L22 Q1 Q2 Ob X:fmat R) :
  feq b T Yf (fadd K (fmul a L21 (ftr Q1)) (fmul b L22 (ftr Q2))) ->
  feq a a (fmul T (ftr Q1) Q1) fid ->
  feq b a (fmul T (ftr Q2) Q1) (fzero K) ->
  feq b T Yf (fmul n Ob X) ->
  feq b a L21 (fmul n Ob (fmul T X Q1)).
Proof.
  intros HYf HQ11 HQ21 Hfac.
  rewrite <- (fmul_assoc R K Rth b n T a Ob X Q1). rewrite <- Hfac. rewrite HYf.
  rewrite (fmul_add_l R K Rth b T a).
  rewrite (fmul_assoc R K Rth b a T a L21). rewrite HQ11. rewrite (fmul_id_r R K Rth b a).
  rewrite (fmul_assoc R K Rth b b T a L22). rewrite HQ21. rewrite (fmul_zero_r R K Rth b b a).
  rewrite (fadd_zero_r R K Rth b a). reflexivity.
Qed.
End Compose.

(* ---------- complexification: real matrices, complex eigen-pairs ---------- *)
From PyOMA.Base Require Import Cplx.
Section Cx.
Variable R:Type. Variable K:Ops R.
Hypothesis Rth : ring_theory (o0 K) (o1 K) (oadd K) (omul K) (osub K) (oopp K) (@eq R).
Add Ring RrCx : Rth.
Let KC := COps K.
Let CRt := CRth R K Rth.

Definition cemb (A:fmat R) : fmat (C R) := fun i j => cofR K (A i j).

Lemma cemb_sum n (f g:nat->R) :
  sumn KC n (fun c => cmul K (cofR K (f c)) (cofR K (g c))) = cofR K (sumn K n (fun c => omul K (f c) (g c))).
Proof.
  induction n; [reflexivity|]. cbn [sumn]. rewrite IHn. apply c_eq; cbn; ring.
Qed.
Lemma cemb_fmul m n p (A B:fmat R) : feq m p (fmul KC n (cemb A) (cemb B)) (cemb (fmul K n A B)).
Proof. intros i j _ _. unfold fmul, cemb. apply cemb_sum. Qed.
Lemma cemb_fid n : feq n n (cemb (fid K)) (fid KC).
Proof. intros i j _ _. unfold cemb, fid. destruct (Nat.eqb i j); reflexivity. Qed.
Lemma cemb_feq m n (A B:fmat R) : feq m n A B -> feq m n (cemb A) (cemb B).
Proof. intros H i j Hi Hj. unfold cemb. rewrite (H i j Hi Hj). reflexivity. Qed.

Lemma similar_pair_cx l n (A C Ah Ch T Ti:fmat R) :
  similar_pair R K l n A C Ah Ch T Ti -> similar_pair (Cplx.C R) KC l n (cemb A) (cemb C) (cemb Ah) (cemb Ch) (cemb T) (cemb Ti).
Proof.
  intros [H1 [H2 [H3 H4]]]. unfold similar_pair. repeat split.
  - rewrite (cemb_fmul n n n). rewrite <- (cemb_fid n). apply cemb_feq. exact H1.
  - rewrite (cemb_fmul n n n). rewrite <- (cemb_fid n). apply cemb_feq. exact H2.
  - rewrite (cemb_fmul n n n A T). rewrite (cemb_fmul n n n Ti). apply cemb_feq. exact H3.
  - rewrite (cemb_fmul l n n). apply cemb_feq. exact H4.
Qed.

(* the identified pair has exactly the complex eigenvalues of the true one; eigenvectors correspond through T / Ti and
   the OBSERVED shapes are equal: C_hat psi = C (T psi), C_hat (Ti phi) = C phi *)
Theorem eigpair_transport l n (A C Ah Ch T Ti:fmat R) (lam:Cplx.C R) :
  similar_pair R K l n A C Ah Ch T Ti ->
  (forall phi, eigpair (Cplx.C R) KC n (cemb A) lam phi ->
     eigpair (Cplx.C R) KC n (cemb Ah) lam (fmul KC n (cemb Ti) phi) /\
     feq l 1 (fmul KC n (cemb Ch) (fmul KC n (cemb Ti) phi)) (fmul KC n (cemb C) phi)) /\
  (forall psi, eigpair (Cplx.C R) KC n (cemb Ah) lam psi ->
     eigpair (Cplx.C R) KC n (cemb A) lam (fmul KC n (cemb T) psi) /\
     feq l 1 (fmul KC n (cemb C) (fmul KC n (cemb T) psi)) (fmul KC n (cemb Ch) psi)) /\
  ((exists v, eigpair (Cplx.C R) KC n (cemb A) lam v) <-> (exists w, eigpair (Cplx.C R) KC n (cemb Ah) lam w)).
Proof.
  intros Hs. destruct (similar_pair_cx l n A C Ah Ch T Ti Hs) as [H1 [H2 [H3 H4]]]. split; [|split].
  - intros phi Hp. apply (eigpair_transport_fwd (Cplx.C R) KC CRt n l _ _ _ _ _ _ lam phi H3 H4 H1 Hp).
  - intros psi Hp. apply (eigpair_transport_bwd (Cplx.C R) KC CRt n l _ _ _ _ _ _ lam psi H3 H4 H1 H2 Hp).
  - apply (eigval_iff (Cplx.C R) KC CRt n l _ _ _ _ _ _ lam H3 H4 H1 H2).
Qed.
End Cx.

(* ---------- non-vacuity: a concrete rational instance meeting every hypothesis of ssi_fast_exact ----------
   l = 1, br = 1, n = 1: A = [3/4], C = [1], O = [1; 3/4], Gamma = [4, 3], H = O Gamma = [[4,3],[3,9/4]] = U diag(25/4, 0) V^T
   with the 3-4-5 rotation U = V = [[4/5,-3/5],[3/5,4/5]], sqrt(25/4) = 5/2. *)
From Coq Require Import QArith Qcanon.
Section Ex.
Definition exm (L:list (list Qc)) : fmat Qc := fun i j => ent QcOps L i j.
Definition exv (L:list Qc) : nat -> Qc := fun i => lget QcOps L i.
Let q (a:Z) (b:positive) : Qc := Q2Qc (a # b).
Definition ex_H := exm [[q 4 1; q 3 1];[q 3 1; q 9 4]].
Definition ex_U := exm [[q 4 5; q (-3) 5];[q 3 5; q 4 5]].
Definition ex_Ob := exm [[q 1 1];[q 3 4]].
Definition ex_Gam := exm [[q 4 1; q 3 1]].
Definition ex_OL := exm [[q 1 1; q 0 1]].
Definition ex_GR := exm [[q 1 4];[q 0 1]].
Definition ex_A := exm [[q 3 4]].
Definition ex_C := exm [[q 1 1]].
Definition ex_Q := exm [[q 1 1]].
Definition ex_Rq := exm [[q 2 1]].
Definition ex_Rni := exm [[q 1 2]].
Definition ex_sg := exv [q 25 4; q 0 1].
Definition ex_sq := exv [q 5 2; q 0 1].
Definition ex_sqi := exv [q 2 5; q 0 1].

Ltac fin_feq := intros i j Hi Hj;
  destruct i as [|[|[|i]]]; try (exfalso; lia);
  destruct j as [|[|[|j]]]; try (exfalso; lia);
  apply Qc_is_canon; vm_compute; reflexivity.

Theorem example_fast :
  similar_pair Qc QcOps 1 1 ex_A ex_C
     (ssi_fast_A QcOps 1 1 ex_Rni ex_Q (rows_dn 1 (obs_scaled QcOps ex_U ex_sq))) (ssi_C (obs_scaled QcOps ex_U ex_sq))
     (svd_T Qc QcOps 2 1 ex_U (fdiag QcOps ex_sqi) ex_Gam) (svd_Ti Qc QcOps 2 1 ex_U (fdiag QcOps ex_sqi) ex_Ob)
  /\ ssi_fast_A QcOps 1 1 ex_Rni ex_Q (rows_dn 1 (obs_scaled QcOps ex_U ex_sq)) 0%nat 0%nat = q 3 4
  /\ svd_T Qc QcOps 2 1 ex_U (fdiag QcOps ex_sqi) ex_Gam 0%nat 0%nat = q 2 1.
Proof.
  split; [|split; apply Qc_is_canon; vm_compute; reflexivity].
  apply (ssi_fast_exact Qc QcOps QcRth 2 2 1 2 1 1 ex_H ex_U ex_U ex_Ob ex_Gam ex_OL ex_GR ex_A ex_C ex_Q ex_Rq ex_Rni ex_sg ex_sq ex_sqi);
    try lia; try fin_feq.
  - intros j Hj. assert (j = 1%nat) by lia. subst j. apply Qc_is_canon; vm_compute; reflexivity.
  - intros j Hj. assert (j = 0%nat) by lia. subst j. split; apply Qc_is_canon; vm_compute; reflexivity.
Qed.
End Ex.

(* ---------- the EXECUTABLE list-level model (the one the correspondence check evaluates) is an instance of the above ---------- *)
Section Exec.
Variable R:Type. Variable K:Ops R.
Hypothesis Rth : ring_theory (o0 K) (o1 K) (oadd K) (omul K) (osub K) (oopp K) (@eq R).
Add Ring RrEx : Rth.
Local Open Scope K_scope.
Notation "0" := (o0 K) : K_scope. Notation "1" := (o1 K) : K_scope.
Infix "+" := (oadd K) : K_scope. Infix "*" := (omul K) : K_scope. Infix "-" := (osub K) : K_scope.
Variable zerob : R -> bool.
Hypothesis zerob_spec : forall x, zerob x = true -> x = 0.

Definition mat_of (M:list (list R)) : fmat R := fun i j => ent K M i j.
Definition rect (a b:nat) (M:list (list R)) : Prop := length M = a /\ Forall (fun r => length r = b) M.

Lemma In_firstn_c {A:Type} (p:nat) (M:list A) x : In x (firstn p M) -> In x M.
Proof. revert M. induction p; intros M H; [destruct H|]. destruct M; [destruct H|]. cbn in H. destruct H; [left; assumption|right; apply IHp; assumption]. Qed.

Lemma ldot_sumn (u v:list R) b : length u = b -> length v = b ->
  ldot K u v = sumn K b (fun k => nth k u 0 * nth k v 0).
Proof.
  revert v b. induction u as [|x u IH]; intros v b Hu Hv.
  - cbn in Hu. subst b. reflexivity.
  - destruct v as [|y v]; [cbn in *; lia|]. cbn [length] in *. destruct b as [|b]; [lia|].
    unfold ldot. cbn [combine fold_right fst snd]. fold (ldot K u v).
    rewrite (IH v b) by lia. rewrite (sumn_S_l R K Rth). cbn [nth]. reflexivity.
Qed.

Lemma rect_nth a b M i : rect a b M -> (i < a)%nat -> length (nth i M []) = b.
Proof. intros [Hl Hf] Hi. rewrite Forall_forall in Hf. apply Hf. apply nth_In. lia. Qed.

Lemma nth_lcol M j k a b : rect a b M -> (k < a)%nat -> nth k (lcol K M j) 0 = ent K M k j.
Proof.
  intros [Hl _] Hk. unfold lcol, ent.
  rewrite (nth_indep _ 0 ((fun r => nth j r 0) [])) by (rewrite map_length; lia).
  rewrite (map_nth (fun r => nth j r 0)). reflexivity.
Qed.

Lemma ent_lmul a b c (A B:list (list R)) i j : rect a b A -> rect b c B -> (i < a)%nat -> (j < c)%nat -> (0 < b)%nat ->
  ent K (lmul K A B) i j = sumn K b (fun k => ent K A i k * ent K B k j).
Proof.
  intros HA HB Hi Hj Hb. unfold lmul.
  assert (Hnc: lncols B = c).
  { destruct HB as [Hl Hf]. destruct B as [|r0 B']; [cbn in Hl; lia|]. cbn. inversion Hf; assumption. }
  unfold ent at 1.
  destruct HA as [HlA HfA].
  rewrite (nth_indep _ [] ((fun r => map (fun col => ldot K r col) (ltr K B)) [])) by (rewrite map_length; lia).
  rewrite (map_nth (fun r => map (fun col => ldot K r col) (ltr K B))).
  unfold ltr. rewrite Hnc. rewrite map_map.
  rewrite (nth_indep _ 0 ((fun x => ldot K (nth i A []) (lcol K B x)) 0%nat)) by (rewrite map_length, seq_length; exact Hj).
  rewrite (map_nth (fun x => ldot K (nth i A []) (lcol K B x))). rewrite seq_nth by exact Hj. cbn [Nat.add].
  rewrite (ldot_sumn _ _ b).
  - apply sumn_ext; intros k Hk. rewrite (nth_lcol B j k b c HB Hk). reflexivity.
  - apply (rect_nth a b A i); [split; assumption|exact Hi].
  - unfold lcol. rewrite map_length. apply HB.
Qed.

Lemma forallb_combine_nth {A B:Type} (f:A*B->bool) (xs:list A) (ys:list B) da db i :
  forallb f (combine xs ys) = true -> (i < length xs)%nat -> (i < length ys)%nat -> f (nth i xs da, nth i ys db) = true.
Proof.
  revert ys i. induction xs as [|x xs IH]; intros ys i H Hx Hy; [cbn in Hx; lia|].
  destruct ys as [|y ys]; [cbn in Hy; lia|]. cbn [combine forallb] in H. apply andb_true_iff in H. destruct H as [H1 H2].
  destruct i as [|i]; [exact H1|]. cbn [nth]. apply IH; [exact H2| cbn in Hx; lia| cbn in Hy; lia].
Qed.

Lemma leqb_spec (X Y:list (list R)) i j : leqb K zerob X Y = true ->
  length X = length Y /\ ((i < length Y)%nat -> (j < length (nth i Y []))%nat -> ent K X i j = ent K Y i j).
Proof.
  unfold leqb. intros H. apply andb_true_iff in H. destruct H as [H1 H2]. apply Nat.eqb_eq in H1. split; [exact H1|].
  intros Hi Hj.
  pose proof (forallb_combine_nth _ X Y [] [] i H2 ltac:(lia) Hi) as Hr. cbn [fst snd] in Hr.
  apply andb_true_iff in Hr. destruct Hr as [Hl Hc]. apply Nat.eqb_eq in Hl.
  pose proof (forallb_combine_nth _ (nth i X []) (nth i Y []) 0 0 j Hc ltac:(lia) Hj) as Hz. cbn [fst snd] in Hz.
  apply zerob_spec in Hz. unfold ent.
  transitivity ((nth j (nth i X []) 0 - nth j (nth i Y []) 0) + nth j (nth i Y []) 0); [ring|]. rewrite Hz. ring.
Qed.

Lemma lmul_length (A B:list (list R)) : length (lmul K A B) = length A.
Proof. unfold lmul. apply map_length. Qed.
Lemma lmul_row_length (A B:list (list R)) : Forall (fun r => length r = lncols B) (lmul K A B).
Proof. unfold lmul. apply Forall_forall. intros r Hr. apply in_map_iff in Hr. destruct Hr as [x [<- _]].
  rewrite map_length. unfold ltr. rewrite map_length, seq_length. reflexivity. Qed.
Lemma lncols_rect a b M : rect a b M -> (0 < a)%nat -> lncols M = b.
Proof. intros [Hl Hf] Ha. destruct M as [|r0 M']; [cbn in Hl; lia|]. cbn. inversion Hf; assumption. Qed.
Lemma ltr_rect a b M : rect a b M -> (0 < a)%nat -> rect b a (ltr K M).
Proof.
  intros HM Ha. unfold ltr. rewrite (lncols_rect a b M HM Ha). split; [rewrite map_length, seq_length; reflexivity|].
  apply Forall_forall. intros r Hr. apply in_map_iff in Hr. destruct Hr as [x [<- _]]. unfold lcol. rewrite map_length. apply HM.
Qed.
Lemma lid_ent n i j : (i < n)%nat -> (j < n)%nat -> ent K (lid K n) i j = fid K i j.
Proof. intros. unfold lid. apply ent_tab2; assumption. Qed.
Lemma lid_dims n i : (i < n)%nat -> length (lid K n) = n /\ length (nth i (lid K n) []) = n.
Proof. intros Hi. unfold lid. split; [apply tab2_length|]. rewrite nth_tab2 by exact Hi. apply tab_length. Qed.

(* the certified left inverse really is one *)
Theorem left_inv_sound pr n (M L:list (list R)) : rect pr n M -> (0 < pr)%nat -> (0 < n)%nat ->
  left_inv K zerob M = Some L -> rect n pr L /\ feq n n (fmul K pr (mat_of L) (mat_of M)) (fid K).
Proof.
  intros HM Hpr Hn. unfold left_inv. rewrite (lncols_rect pr n M HM Hpr).
  destruct (linv K zerob n (lmul K (ltr K M) M)) as [G|]; [|discriminate].
  destruct (leqb K zerob (lmul K (lmul K G (ltr K M)) M) (lid K n)) eqn:E; [|discriminate].
  intros HL. injection HL as <-. set (L := lmul K G (ltr K M)) in *.
  assert (HLr: rect n pr L).
  { split.
    - destruct (leqb_spec _ _ 0%nat 0%nat E) as [Hlen _]. rewrite lmul_length in Hlen. rewrite Hlen. apply (lid_dims n 0 Hn).
    - pose proof (lmul_row_length G (ltr K M)) as Hf. rewrite (lncols_rect n pr (ltr K M) (ltr_rect pr n M HM Hpr) Hn) in Hf. exact Hf. }
  split; [exact HLr|].
  intros i j Hi Hj. destruct (leqb_spec _ _ i j E) as [_ Hent].
  rewrite <- (lid_ent n i j Hi Hj). rewrite <- Hent.
  - symmetry. apply (ent_lmul n pr n L M i j HLr HM Hi Hj Hpr).
  - destruct (lid_dims n i Hi) as [-> _]. exact Hi.
  - destruct (lid_dims n i Hi) as [_ ->]. exact Hj.
Qed.

Lemma nth_skipn_c {A:Type} (l:nat) (M:list A) k d : nth k (skipn l M) d = nth (l + k) M d.
Proof. revert M. induction l; intros M; [reflexivity|]. destruct M; [destruct k; reflexivity|]. cbn. apply IHl. Qed.
Lemma nth_firstn_c {A:Type} (p:nat) (M:list A) k d : (k < p)%nat -> nth k (firstn p M) d = nth k M d.
Proof. revert M k. induction p; intros M k Hk; [lia|]. destruct M; [reflexivity|]. destruct k; [reflexivity|]. cbn. apply IHp. lia. Qed.
Lemma rect_firstn a b p M : rect a b M -> (p <= a)%nat -> rect p b (firstn p M).
Proof. intros [Hl Hf] Hp. split; [rewrite firstn_length; lia|]. apply Forall_forall. intros r Hr.
  rewrite Forall_forall in Hf. apply Hf. apply (In_firstn_c _ _ _ Hr). Qed.

Lemma rect_skipn a b l M : rect a b M -> rect (a - l) b (skipn l M).
Proof. intros [Hl Hf]. split; [rewrite skipn_length; lia|]. apply Forall_forall. intros r Hr.
  rewrite Forall_forall in Hf. apply Hf. rewrite <- (firstn_skipn l M). apply in_or_app. right. exact Hr. Qed.

(* the executable realisation step is an instance of what the similarity theorems talk about:
   A_n = L . Obs[l:, :] for a left inverse L of Obs[:rows-l, :], C_n = Obs[:l, :] *)
Theorem realise_exec_sound rows n l (Obs A:list (list R)) : rect rows n Obs -> (l < rows)%nat -> (0 < n)%nat ->
  realise_A K zerob l Obs = Some A ->
  exists L:fmat R,
    feq n n (fmul K (rows - l) L (mat_of Obs)) (fid K) /\
    feq n n (mat_of A) (ssi_legacy_A K (rows - l) L (rows_dn l (mat_of Obs))) /\
    feq l n (mat_of (realise_C l Obs)) (ssi_C (mat_of Obs)).
Proof.
  intros HO Hl Hn. unfold realise_A, drop_last. destruct HO as [Hlen Hf]. rewrite Hlen.
  assert (HO: rect rows n Obs) by (split; assumption).
  destruct (left_inv K zerob (firstn (rows - l) Obs)) as [L|] eqn:E; [|discriminate].
  intros HA. injection HA as <-.
  destruct (left_inv_sound (rows - l) n _ L (rect_firstn rows n (rows - l) Obs HO ltac:(lia)) ltac:(lia) Hn E) as [HLr HLI].
  exists (mat_of L). split; [|split].
  - intros i j Hi Hj. rewrite <- (HLI i j Hi Hj). unfold fmul. apply sumn_ext; intros k Hk. f_equal.
    unfold mat_of, ent. rewrite nth_firstn_c by exact Hk. reflexivity.
  - intros i j Hi Hj. unfold mat_of at 1. unfold ssi_legacy_A.
    rewrite (ent_lmul n (rows - l) n L (skipn l Obs) i j HLr (rect_skipn rows n l Obs HO) Hi Hj ltac:(lia)).
    unfold fmul. apply sumn_ext; intros k Hk. f_equal. unfold rows_dn, mat_of, ent. rewrite nth_skipn_c. f_equal. f_equal. lia.
  - intros i j Hi Hj. unfold ssi_C, realise_C, mat_of, ent. rewrite nth_firstn_c by exact Hi. reflexivity.
Qed.

(* hence: evaluated on the first n columns of ANY observability estimate Obs = O . T of a shift-invariant O (block shift
   O[l:] = O[:-l] A0, first block C0), the executable model returns a pair similar to (A0, C0) *)
Theorem realise_exec_similar rows n l (Obs A:list (list R)) (Ob A0 C0 T Ti:fmat R) :
  rect rows n Obs -> (l < rows)%nat -> (0 < n)%nat ->
  realise_A K zerob l Obs = Some A ->
  feq rows n (mat_of Obs) (fmul K n Ob T) ->
  feq (rows - l) n (rows_dn l Ob) (fmul K n Ob A0) ->
  feq l n Ob C0 ->
  feq n n (fmul K n T Ti) (fid K) ->
  feq n n (mat_of A) (fmul K n Ti (fmul K n A0 T)) /\ feq l n (mat_of (realise_C l Obs)) (fmul K n C0 T).
Proof.
  intros HO Hl Hn HA HObs Hshift HC HT.
  destruct (realise_exec_sound rows n l Obs A HO Hl Hn HA) as [L [HL [HAeq HCeq]]].
  destruct (realisation_similar_legacy R K Rth rows l n (mat_of Obs) Ob A0 C0 T Ti L ltac:(lia) HObs Hshift HC HT HL) as [H1 H2].
  split.
  - intros i j Hi Hj. rewrite (HAeq i j Hi Hj). apply (H1 i j Hi Hj).
  - intros i j Hi Hj. rewrite (HCeq i j Hi Hj). apply (H2 i j Hi Hj).
Qed.
End Exec.

Lemma Qc_zerob_spec (x:Qc) : Qc_zerob x = true -> x = o0 QcOps.
Proof. unfold Qc_zerob. intros H. apply Qc_eq_bool_correct in H. exact H. Qed.
