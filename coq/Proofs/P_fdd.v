(* C06 - lemmas about the model of FDD_mpe / SD_svalsvec (Model/M_fdd.v).
   1 pick (Q): band limits = nearest lines (first on ties), first index of the largest ratio on [lo,hi), errors;
     the pick is the same whether the stored values or their squares are compared.
   2 shape: unity normalisation (generic field), MAC of collinear vectors (generic ring), executable instance (Qc).
   3 SD_svalsvec from the SVD contract (generic ring, complex pairs): unitary, reconstruction, left action,
     narrow-band response collinear with the channels' amplitudes.
   4 real square roots: ordering of the stored values, pick invariant under the sqrt convention. *)
From Coq Require Import List Arith ZArith QArith Qabs Qcanon Bool Lia Lqa Ring Field.
From PyOMA.Base Require Import Carrier FMat Cplx Argmin.
From PyOMA.Model Require Import M_fdd.
Import ListNotations.

Open Scope Q_scope.
(* ---------- lists ---------- *)
Lemma nth_error_skipn_c06 {A} (l:list A) n i : nth_error (skipn n l) i = nth_error l (n+i).
Proof.
  revert l; induction n as [|n IH]; intros l; [reflexivity|].
  destruct l as [|x l]; cbn [skipn Nat.add nth_error]; [destruct i; reflexivity|apply IH].
Qed.
Lemma nth_error_firstn_c06 {A} (l:list A) n i : nth_error (firstn n l) i = if (i <? n)%nat then nth_error l i else None.
Proof.
  revert l i; induction n as [|n IH]; intros l i.
  - cbn [firstn]. destruct i; reflexivity.
  - destruct l as [|x l]; cbn [firstn].
    + destruct i; cbn [nth_error]; match goal with |- _ = if ?c then _ else _ => destruct c end; reflexivity.
    + destruct i as [|i]; [reflexivity|]. cbn [nth_error]. rewrite IH. reflexivity.
Qed.
Lemma pyslice_nth {A} (l:list A) lo hi i :
  nth_error (pyslice lo hi l) i = if (i <? hi - lo)%nat then nth_error l (lo + i) else None.
Proof. unfold pyslice. rewrite nth_error_firstn_c06, nth_error_skipn_c06. reflexivity. Qed.
Lemma pyslice_empty {A} (l:list A) lo hi : (hi <= lo)%nat -> pyslice lo hi l = [].
Proof. intros H. unfold pyslice. replace (hi - lo)%nat with 0%nat by lia. reflexivity. Qed.
Lemma pyslice_length {A} (l:list A) lo hi : length (pyslice lo hi l) = Nat.min (hi - lo) (length l - lo).
Proof. unfold pyslice. rewrite firstn_length, skipn_length. reflexivity. Qed.

(* ---------- element-wise quotient ---------- *)
Lemma zipdiv_nth a : forall b r, zipdiv a b = Ok r ->
  length a = length b /\
  forall i, nth_error r i = match nth_error a i, nth_error b i with Some x, Some y => Some (x / y) | _, _ => None end.
Proof.
  induction a as [|x a IH]; intros b r H; destruct b as [|y b]; cbn [zipdiv] in H; try discriminate.
  - inversion H; subst. split; [reflexivity|]. intros i; destruct i; reflexivity.
  - destruct (Qeq_bool y 0) eqn:Ey; [discriminate|].
    destruct (zipdiv a b) as [r'|e] eqn:Ez; [|discriminate]. inversion H; subst.
    destruct (IH b r' Ez) as [Hl Hn]. split; [cbn; lia|].
    intros i; destruct i as [|i]; [reflexivity|]. cbn [nth_error]. apply Hn.
Qed.
Lemma zipdiv_total a : forall b, length a = length b -> (forall y, In y b -> ~ y == 0) -> exists r, zipdiv a b = Ok r /\ length r = length a.
Proof.
  induction a as [|x a IH]; intros b Hl Hnz; destruct b as [|y b]; cbn in Hl; try discriminate.
  - exists []. split; reflexivity.
  - cbn [zipdiv]. destruct (Qeq_bool y 0) eqn:Ey.
    + exfalso. apply (Hnz y (or_introl eq_refl)). apply Qeq_bool_iff. exact Ey.
    + destruct (IH b) as [r [Hr Hlen]]; [lia|intros z Hz; apply Hnz; right; exact Hz|].
      rewrite Hr. exists (x / y :: r). split; [reflexivity|cbn; lia].
Qed.

(* ---------- maximum and its first index ---------- *)
Lemma qstep_cases x y : (qstep x y = y /\ x < y) \/ (qstep x y = x /\ y <= x).
Proof. unfold qstep. destruct (Qlt_le_dec x y); [left|right]; split; auto. Qed.
Lemma qfold_spec t : forall x,
  (fold_left qstep t x = x \/ In (fold_left qstep t x) t) /\ x <= fold_left qstep t x /\
  forall r, In r t -> r <= fold_left qstep t x.
Proof.
  induction t as [|y t IH]; intros x; cbn [fold_left].
  - split; [left; reflexivity|]. split; [apply Qle_refl|]. intros r [].
  - destruct (IH (qstep x y)) as (Hin & Hle & Hall).
    destruct (qstep_cases x y) as [[E Hxy]|[E Hyx]]; rewrite E in *.
    + split; [destruct Hin as [Hin|Hin]; right; [left; symmetry; exact Hin|right; exact Hin]|].
      split; [apply Qlt_le_weak; eapply Qlt_le_trans; eassumption|].
      intros r [<-|Hr]; [exact Hle|apply Hall; exact Hr].
    + split; [destruct Hin as [Hin|Hin]; [left; exact Hin|right; right; exact Hin]|].
      split; [exact Hle|]. intros r [<-|Hr]; [eapply Qle_trans; eassumption|apply Hall; exact Hr].
Qed.
Lemma qmaxl_spec l m : qmaxl l = Some m -> In m l /\ forall r, In r l -> r <= m.
Proof.
  destruct l as [|x t]; cbn [qmaxl]; intros H; [discriminate|]. inversion H; subst; clear H.
  destruct (qfold_spec t x) as (Hin & Hle & Hall). split.
  - destruct Hin as [Hin|Hin]; [left; symmetry; exact Hin|right; exact Hin].
  - intros r [<-|Hr]; [exact Hle|apply Hall; exact Hr].
Qed.

Lemma first_max_spec l k : first_max l = Some k ->
  exists m, nth_error l k = Some m /\
    (forall j r, nth_error l j = Some r -> r <= m) /\
    (forall j r, (j < k)%nat -> nth_error l j = Some r -> r < m).
Proof.
  unfold first_max. destruct (qmaxl l) as [M|] eqn:EM; [|discriminate].
  destruct (qmaxl_spec l M EM) as [HinM HleM].
  pose proof (nanargmin_spec (map (fun r => Some (Qabs (r - M))) l)) as Hs.
  destruct (nanargmin (map (fun r => Some (Qabs (r - M))) l)) as [[k' d]|]; [|discriminate].
  intros H; inversion H; subst k'; clear H. destruct Hs as (Hk & Hmin & Hfirst).
  rewrite nth_error_map in Hk. destruct (nth_error l k) as [rk|] eqn:Ek; [|discriminate].
  cbn in Hk. inversion Hk; subst d; clear Hk.
  destruct (In_nth_error l M HinM) as [j0 Hj0].
  assert (H0: Qabs (rk - M) <= Qabs (M - M)).
  { apply (Hmin j0). rewrite nth_error_map, Hj0. reflexivity. }
  assert (Hz: Qabs (M - M) <= 0) by (apply Qabs_Qle_condition; split; lra).
  assert (Hrk: Qabs (rk - M) <= 0) by (eapply Qle_trans; eassumption).
  apply Qabs_Qle_condition in Hrk. destruct Hrk as [Hr1 Hr2].
  exists rk. split; [reflexivity|]. split.
  - intros j r Hj. specialize (HleM r (nth_error_In l j Hj)). lra.
  - intros j r Hjk Hj. specialize (HleM r (nth_error_In l j Hj)).
    assert (Hlt: Qabs (rk - M) < Qabs (r - M)).
    { apply (Hfirst j); [exact Hjk|]. rewrite nth_error_map, Hj. reflexivity. }
    destruct (Qlt_le_dec r rk) as [Hok|Hge]; [exact Hok|exfalso].
    assert (Hr0: Qabs (r - M) <= 0) by (apply Qabs_Qle_condition; split; lra).
    pose proof (Qabs_nonneg (rk - M)). lra.
Qed.
Lemma first_max_some l : l <> [] -> exists k, first_max l = Some k.
Proof.
  intros Hne. unfold first_max. destruct l as [|x t]; [congruence|].
  cbn [qmaxl]. set (M := fold_left qstep t x).
  pose proof (nanargmin_spec (map (fun r => Some (Qabs (r - M))) (x::t))) as Hs.
  destruct (nanargmin (map (fun r => Some (Qabs (r - M))) (x::t))) as [[k d]|]; [eexists; reflexivity|].
  exfalso. specialize (Hs 0%nat). cbn in Hs. assert (Some (Some (Qabs (x - M))) = Some None) by (apply Hs; lia). discriminate.
Qed.
Lemma first_max_nil : first_max [] = None.
Proof. reflexivity. Qed.

(* ---------- band limits: nearest grid line, first on ties ---------- *)
Lemma nearest_spec freq x k : nearest freq x = Some k ->
  exists p, nth_error freq k = Some p /\
    (forall j g, nth_error freq j = Some g -> Qabs (p - x) <= Qabs (g - x)) /\
    (forall j g, (j < k)%nat -> nth_error freq j = Some g -> Qabs (p - x) < Qabs (g - x)).
Proof.
  unfold nearest, absd. pose proof (nanargmin_spec (map (fun p => Some (Qabs (p - x))) freq)) as Hs.
  destruct (nanargmin (map (fun p => Some (Qabs (p - x))) freq)) as [[k' d]|]; [|discriminate].
  intros H; inversion H; subst k'; clear H. destruct Hs as (Hk & Hmin & Hfirst).
  rewrite nth_error_map in Hk. destruct (nth_error freq k) as [p|] eqn:Ek; [|discriminate].
  cbn in Hk. inversion Hk; subst d; clear Hk. exists p. split; [reflexivity|]. split.
  - intros j g Hj. apply (Hmin j). rewrite nth_error_map, Hj. reflexivity.
  - intros j g Hjk Hj. apply (Hfirst j); [exact Hjk|]. rewrite nth_error_map, Hj. reflexivity.
Qed.
Lemma nearest_some freq x : freq <> [] -> exists k, nearest freq x = Some k.
Proof.
  intros Hne. unfold nearest, absd. pose proof (nanargmin_spec (map (fun p => Some (Qabs (p - x))) freq)) as Hs.
  destruct (nanargmin (map (fun p => Some (Qabs (p - x))) freq)) as [[k d]|]; [eexists; reflexivity|].
  exfalso. destruct freq as [|p t]; [congruence|]. specialize (Hs 0%nat). cbn in Hs.
  assert (Some (Some (Qabs (p - x))) = Some None) by (apply Hs; lia). discriminate.
Qed.
Lemma nearest_nil x : nearest [] x = None.
Proof. reflexivity. Qed.

(* ---------- the pick ---------- *)
Theorem fdd_pick_spec freq Sval f DF lo hi idx :
  fdd_idx freq Sval f DF = Ok (lo, hi, idx) ->
  nearest freq (f - DF) = Some lo /\ nearest freq (f + DF) = Some hi /\
  first_max_on (ratio_at Sval) lo hi idx.
Proof.
  unfold fdd_idx.
  destruct (nearest freq (f - DF)) as [lo'|] eqn:Elo; [|discriminate].
  destruct (nearest freq (f + DF)) as [hi'|] eqn:Ehi; [|discriminate].
  destruct (line Sval 0 0) as [s1|] eqn:E1; [|discriminate].
  destruct (line Sval 1 1) as [s2|] eqn:E2; [|discriminate].
  destruct (zipdiv (pyslice lo' hi' s1) (pyslice lo' hi' s2)) as [r|e] eqn:Ez; [|discriminate].
  destruct (first_max r) as [i1|] eqn:Ef; [|discriminate].
  intros H; inversion H; subst lo' hi' idx; clear H.
  split; [reflexivity|]. split; [reflexivity|].
  destruct (zipdiv_nth _ _ _ Ez) as [_ Hn].
  assert (Hr: forall i, nth_error r i =
     if (i <? hi - lo)%nat then match nth_error s1 (lo+i), nth_error s2 (lo+i) with Some x, Some y => Some (x/y) | _, _ => None end else None).
  { intros i. rewrite Hn, !pyslice_nth. destruct (i <? hi - lo)%nat; reflexivity. }
  destruct (first_max_spec r i1 Ef) as (m & Hm & Hmax & Hfst).
  assert (Hi1: (i1 < hi - lo)%nat).
  { rewrite Hr in Hm. destruct (i1 <? hi - lo)%nat eqn:E; [apply Nat.ltb_lt; exact E|discriminate]. }
  assert (Hat: forall k, (lo <= k < hi)%nat -> ratio_at Sval k = nth_error r (k - lo)).
  { intros k Hk. unfold ratio_at. rewrite E1, E2, Hr.
    replace (lo + (k - lo))%nat with k by lia.
    assert (Hb: (k - lo <? hi - lo)%nat = true) by (apply Nat.ltb_lt; lia). rewrite Hb.
    destruct (nth_error s1 k), (nth_error s2 k); reflexivity. }
  unfold first_max_on. split; [lia|]. exists m. split.
  - rewrite Hat by lia. replace (lo + i1 - lo)%nat with i1 by lia. exact Hm.
  - split.
    + intros k x Hk Hx. rewrite Hat in Hx by lia. apply (Hmax (k - lo)%nat x Hx).
    + intros k x Hk Hx. rewrite Hat in Hx by lia. apply (Hfst (k - lo)%nat x); [lia|exact Hx].
Qed.

Theorem fdd_pick_total freq Sval f DF lo hi s1 s2 :
  nearest freq (f - DF) = Some lo -> nearest freq (f + DF) = Some hi ->
  line Sval 0 0 = Some s1 -> line Sval 1 1 = Some s2 -> length s1 = length s2 ->
  (forall y, In y (pyslice lo hi s2) -> ~ y == 0) ->
  (lo < hi)%nat -> (lo < length s1)%nat ->
  exists idx, fdd_idx freq Sval f DF = Ok (lo, hi, idx).
Proof.
  intros Elo Ehi E1 E2 Hlen Hnz Hlh Hl1. unfold fdd_idx. rewrite Elo, Ehi, E1, E2.
  destruct (zipdiv_total (pyslice lo hi s1) (pyslice lo hi s2)) as [r [Hr Hrl]].
  - rewrite !pyslice_length. lia.
  - exact Hnz.
  - rewrite Hr. destruct (first_max_some r) as [k Hk].
    + intros ->. rewrite pyslice_length in Hrl. cbn in Hrl. lia.
    + rewrite Hk. eexists; reflexivity.
Qed.

Theorem fdd_empty_band freq Sval f DF lo hi s1 s2 :
  nearest freq (f - DF) = Some lo -> nearest freq (f + DF) = Some hi ->
  line Sval 0 0 = Some s1 -> line Sval 1 1 = Some s2 -> (hi <= lo)%nat ->
  fdd_idx freq Sval f DF = Err ValueErr.
Proof.
  intros Elo Ehi E1 E2 Hle. unfold fdd_idx. rewrite Elo, Ehi, E1, E2.
  rewrite !pyslice_empty by exact Hle. reflexivity.
Qed.

Theorem fdd_one_singular_value freq Sval f DF :
  freq <> [] -> line Sval 1 1 = None -> fdd_idx freq Sval f DF = Err IndexErr.
Proof.
  intros Hne E2. unfold fdd_idx.
  destruct (nearest_some freq (f - DF) Hne) as [lo ->]. destruct (nearest_some freq (f + DF) Hne) as [hi ->].
  rewrite E2. destruct (line Sval 0 0); reflexivity.
Qed.

Theorem fdd_empty_grid Sval f DF : fdd_idx [] Sval f DF = Err ValueErr.
Proof. reflexivity. Qed.

(* ---------- either convention (stored value or its square) gives the same pick ---------- *)
Lemma ratio_pos a b : 0 < a -> 0 < b -> 0 < a / b.
Proof. intros Ha Hb. apply Qlt_shift_div_l; [exact Hb|lra]. Qed.
Lemma ratio_sq a b : 0 < b -> (a*a) / (b*b) == (a/b) * (a/b).
Proof. intros Hb. field. intros H. lra. Qed.
Lemma sq_le_iff x y : 0 < x -> 0 < y -> (x <= y <-> x*x <= y*y).
Proof. intros Hx Hy; split; intros H; nra. Qed.
Lemma sq_lt_iff x y : 0 < x -> 0 < y -> (x < y <-> x*x < y*y).
Proof. intros Hx Hy; split; intros H; nra. Qed.
Lemma ratio_sq_le a b c d : 0 < a -> 0 < b -> 0 < c -> 0 < d -> (a/b <= c/d <-> (a*a)/(b*b) <= (c*c)/(d*d)).
Proof. intros Ha Hb Hc Hd. rewrite !ratio_sq by assumption. apply sq_le_iff; apply ratio_pos; assumption. Qed.
Lemma ratio_sq_lt a b c d : 0 < a -> 0 < b -> 0 < c -> 0 < d -> (a/b < c/d <-> (a*a)/(b*b) < (c*c)/(d*d)).
Proof. intros Ha Hb Hc Hd. rewrite !ratio_sq by assumption. apply sq_lt_iff; apply ratio_pos; assumption. Qed.

Definition band_positive (Sval:list (list (list Q))) (lo hi:nat) : Prop :=
  forall k s1 s2 a b, (lo <= k < hi)%nat -> line Sval 0 0 = Some s1 -> line Sval 1 1 = Some s2 ->
    nth_error s1 k = Some a -> nth_error s2 k = Some b -> 0 < a /\ 0 < b.

Theorem fdd_pick_either_convention Sval lo hi idx : band_positive Sval lo hi ->
  (first_max_on (ratio_at Sval) lo hi idx <-> first_max_on (sqratio_at Sval) lo hi idx).
Proof.
  intros Hpos. unfold first_max_on, ratio_at, sqratio_at.
  destruct (line Sval 0 0) as [s1|] eqn:E1; [|split; intros (Hb & m & Hm & _); discriminate].
  destruct (line Sval 1 1) as [s2|] eqn:E2; [|split; intros (Hb & m & Hm & _); discriminate].
  assert (P: forall k a b, (lo <= k < hi)%nat -> nth_error s1 k = Some a -> nth_error s2 k = Some b -> 0 < a /\ 0 < b).
  { intros k a b Hk Ha Hb. apply (Hpos k s1 s2 a b Hk E1 E2 Ha Hb). }
  split; intros (Hb & m & Hm & Hmax & Hfst); (split; [exact Hb|]).
  - destruct (nth_error s1 idx) as [a|] eqn:Ea; [|discriminate]. destruct (nth_error s2 idx) as [b|] eqn:Eb; [|discriminate].
    inversion Hm; subst m; clear Hm. destruct (P idx a b Hb Ea Eb) as [Pa Pb].
    exists ((a*a)/(b*b)). split; [reflexivity|]. split.
    + intros k x Hk Hx. destruct (nth_error s1 k) as [c|] eqn:Ec; [|discriminate]. destruct (nth_error s2 k) as [d|] eqn:Ed; [|discriminate].
      inversion Hx; subst x. destruct (P k c d Hk Ec Ed) as [Pc Pd].
      apply (proj1 (ratio_sq_le c d a b Pc Pd Pa Pb)). apply (Hmax k); [exact Hk|]. rewrite Ec, Ed. reflexivity.
    + intros k x Hk Hx. destruct (nth_error s1 k) as [c|] eqn:Ec; [|discriminate]. destruct (nth_error s2 k) as [d|] eqn:Ed; [|discriminate].
      inversion Hx; subst x. destruct (P k c d ltac:(lia) Ec Ed) as [Pc Pd].
      apply (proj1 (ratio_sq_lt c d a b Pc Pd Pa Pb)). apply (Hfst k); [exact Hk|]. rewrite Ec, Ed. reflexivity.
  - destruct (nth_error s1 idx) as [a|] eqn:Ea; [|discriminate]. destruct (nth_error s2 idx) as [b|] eqn:Eb; [|discriminate].
    inversion Hm; subst m; clear Hm. destruct (P idx a b Hb Ea Eb) as [Pa Pb].
    exists (a/b). split; [reflexivity|]. split.
    + intros k x Hk Hx. destruct (nth_error s1 k) as [c|] eqn:Ec; [|discriminate]. destruct (nth_error s2 k) as [d|] eqn:Ed; [|discriminate].
      inversion Hx; subst x. destruct (P k c d Hk Ec Ed) as [Pc Pd].
      apply (proj2 (ratio_sq_le c d a b Pc Pd Pa Pb)). apply (Hmax k); [exact Hk|]. rewrite Ec, Ed. reflexivity.
    + intros k x Hk Hx. destruct (nth_error s1 k) as [c|] eqn:Ec; [|discriminate]. destruct (nth_error s2 k) as [d|] eqn:Ed; [|discriminate].
      inversion Hx; subst x. destruct (P k c d ltac:(lia) Ec Ed) as [Pc Pd].
      apply (proj2 (ratio_sq_lt c d a b Pc Pd Pa Pb)). apply (Hfst k); [exact Hk|]. rewrite Ec, Ed. reflexivity.
Qed.

Close Scope Q_scope.

(* ---------- unity normalisation, generic field ---------- *)
Section Unity.
Variable R:Type. Variable K:Ops R.
Hypothesis Fth : field_theory (o0 K) (o1 K) (oadd K) (omul K) (osub K) (oopp K) (odiv K) (oinv K) (@eq R).
Add Field FfU : Fth.

Lemma cdiv_mul_back (d z:C R) : cnorm2 K d <> o0 K -> cmul K d (cdiv K z d) = z.
Proof.
  destruct d as [a b], z as [x y]. cbv [cmul cdiv cinv cnorm2 cre cim fst snd]. intros H.
  f_equal; field; exact H.
Qed.
Lemma cdiv_self (d:C R) : cnorm2 K d <> o0 K -> cdiv K d d = c1 K.
Proof.
  destruct d as [a b]. cbv [cmul cdiv cinv cnorm2 c1 cre cim fst snd]. intros H.
  f_equal; field; exact H.
Qed.

Theorem unity_by_spec (d:C R) (v:list (C R)) : cnorm2 K d <> o0 K ->
  length (unity_by K d v) = length v /\
  (forall p, nth_error v p = Some d -> nth_error (unity_by K d v) p = Some (c1 K)) /\
  (forall i z, nth_error v i = Some z -> exists y, nth_error (unity_by K d v) i = Some y /\ z = cmul K d y).
Proof.
  intros Hd. unfold unity_by. split; [apply map_length|]. split.
  - intros p Hp. rewrite nth_error_map, Hp. cbn. rewrite cdiv_self by exact Hd. reflexivity.
  - intros i z Hi. exists (cdiv K z d). rewrite nth_error_map, Hi. split; [reflexivity|].
    symmetry. apply cdiv_mul_back. exact Hd.
Qed.
End Unity.

(* ---------- MAC of collinear vectors, generic ring ---------- *)
Section MacP.
Variable R:Type. Variable K:Ops R.
Hypothesis Rth : ring_theory (o0 K) (o1 K) (oadd K) (omul K) (osub K) (oopp K) (@eq R).
Add Ring RrMac : Rth.

Lemma hdot_scale n (a b:nat -> C R) (d:C R) : (forall k, (k < n)%nat -> a k = cmul K d (b k)) ->
  hdot K n a b = cmul K (cconj K d) (hdot K n b b).
Proof.
  unfold hdot. induction n as [|n IH]; intros H.
  - cbn [sumn]. apply c_eq; cbn; ring.
  - cbn [sumn]. rewrite IH by (intros k Hk; apply H; lia). rewrite (H n) by lia.
    generalize (sumn (COps K) n (fun k => cmul K (cconj K (b k)) (b k))). intros s.
    destruct s as [s1 s2], d as [d1 d2], (b n) as [b1 b2]. apply c_eq; cbn; ring.
Qed.
Lemma hdot_self n (b:nat -> C R) : hdot K n b b = cofR K (nrm2 K n b).
Proof.
  unfold hdot, nrm2. induction n as [|n IH]; cbn [sumn]; [reflexivity|]. rewrite IH.
  generalize (sumn K n (fun k => cnorm2 K (b k))). intros s. destruct (b n) as [b1 b2].
  apply c_eq; unfold cnorm2; cbn; ring.
Qed.
Lemma nrm2_scale n (a b:nat -> C R) (d:C R) : (forall k, (k < n)%nat -> a k = cmul K d (b k)) ->
  nrm2 K n a = omul K (cnorm2 K d) (nrm2 K n b).
Proof.
  unfold nrm2. induction n as [|n IH]; intros H; cbn [sumn]; [ring|].
  rewrite IH by (intros k Hk; apply H; lia). rewrite (H n) by lia. rewrite (cnorm2_mul R K Rth). ring.
Qed.
(* MAC(a,b) = |a^H b|^2 / ((a^H a)(b^H b)) is 1 for a = d b: numerator = denominator *)
Theorem mac_collinear n (a b:nat -> C R) (d:C R) : (forall k, (k < n)%nat -> a k = cmul K d (b k)) ->
  mac_num K n a b = mac_den K n a b.
Proof.
  intros H. unfold mac_num, mac_den. rewrite (hdot_scale n a b d H), hdot_self, (nrm2_scale n a b d H).
  rewrite (cnorm2_mul R K Rth), (cnorm2_conj R K Rth). unfold cnorm2, cofR; cbn. ring.
Qed.
End MacP.

(* ---------- largest modulus (Qc) ---------- *)
Lemma argmax_abs_spec (v:list CQ) p : argmax_abs v = Some p ->
  exists d, nth_error v p = Some d /\
    (forall j z, nth_error v j = Some z -> (cnorm2 QcOps z <= cnorm2 QcOps d)%Qc) /\
    (forall j z, (j < p)%nat -> nth_error v j = Some z -> (cnorm2 QcOps z < cnorm2 QcOps d)%Qc).
Proof.
  unfold argmax_abs. pose proof (nanargmin_spec (map (fun z => Some (- this (cnorm2 QcOps z))%Q) v)) as Hs.
  destruct (nanargmin (map (fun z => Some (- this (cnorm2 QcOps z))%Q) v)) as [[p' e]|]; [|discriminate].
  intros H. assert (Hpp: p' = p) by congruence. subst p'. clear H. destruct Hs as (Hk & Hmin & Hfirst).
  rewrite nth_error_map in Hk. unfold CQ, C in *. destruct (nth_error v p) as [d|] eqn:Ed; [|discriminate].
  cbn in Hk. inversion Hk; subst e; clear Hk. exists d. split; [reflexivity|]. split.
  - intros j z Hj. unfold Qcle.
    assert (H: (- this (cnorm2 QcOps d) <= - this (cnorm2 QcOps z))%Q).
    { apply (Hmin j). rewrite nth_error_map, Hj. reflexivity. }
    lra.
  - intros j z Hjp Hj. unfold Qclt.
    assert (H: (- this (cnorm2 QcOps d) < - this (cnorm2 QcOps z))%Q).
    { apply (Hfirst j); [exact Hjp|]. rewrite nth_error_map, Hj. reflexivity. }
    lra.
Qed.
Lemma argmax_abs_none v : argmax_abs v = None -> v = [].
Proof.
  unfold argmax_abs. pose proof (nanargmin_spec (map (fun z => Some (- this (cnorm2 QcOps z))%Q) v)) as Hs.
  destruct (nanargmin (map (fun z => Some (- this (cnorm2 QcOps z))%Q) v)) as [[p e]|]; [discriminate|].
  intros _. destruct v as [|z t]; [reflexivity|]. specialize (Hs 0%nat). cbn in Hs.
  assert (Some (Some (- this (cnorm2 QcOps z))%Q) = Some None) by (apply Hs; lia). discriminate.
Qed.

Lemma unity_spec (v phi:list CQ) : unity v = Ok phi ->
  exists p d, nth_error v p = Some d /\ cnorm2 QcOps d <> 0%Qc /\
    (forall j z, nth_error v j = Some z -> (cnorm2 QcOps z <= cnorm2 QcOps d)%Qc) /\
    (forall j z, (j < p)%nat -> nth_error v j = Some z -> (cnorm2 QcOps z < cnorm2 QcOps d)%Qc) /\
    phi = unity_by QcOps d v.
Proof.
  unfold unity. destruct (argmax_abs v) as [p|] eqn:Ep; [|discriminate].
  destruct (argmax_abs_spec v p Ep) as (d & Hd & Hmax & Hfst). rewrite Hd.
  destruct (Qeq_bool (this (cnorm2 QcOps d)) 0) eqn:Ez; [discriminate|].
  intros H; inversion H; subst phi; clear H. exists p, d. repeat split; try assumption.
  intros Hc. apply Qeq_bool_neq in Ez. apply Ez. rewrite Hc. reflexivity.
Qed.

(* ---------- Svec[0,:,k] ---------- *)
Lemma all_some_spec {A} (l:list (option A)) v : all_some l = Some v ->
  length v = length l /\ forall c, nth_error l c = option_map Some (nth_error v c).
Proof.
  revert v; induction l as [|o t IH]; intros v H; cbn [all_some] in H.
  - inversion H; subst. split; [reflexivity|]. intros c; destruct c; reflexivity.
  - destruct o as [x|]; [|discriminate]. destruct (all_some t) as [r|] eqn:Er; [|discriminate].
    inversion H; subst v; clear H. destruct (IH r eq_refl) as [Hl Hn]. split; [cbn; lia|].
    intros c; destruct c as [|c]; [reflexivity|]. cbn [nth_error]. apply Hn.
Qed.
Lemma row0_spec {A} (Svec:list (list (list A))) k v : row0 Svec k = Ok v ->
  exists chans, nth_error Svec 0 = Some chans /\ length v = length chans /\
    forall c ln, nth_error chans c = Some ln -> exists z, nth_error ln k = Some z /\ nth_error v c = Some z.
Proof.
  unfold row0. destruct (nth_error Svec 0) as [chans|]; [|discriminate].
  destruct (all_some (map (fun ln => nth_error ln k) chans)) as [v'|] eqn:Ea; [|discriminate].
  intros H; inversion H; subst v'; clear H. destruct (all_some_spec _ _ Ea) as [Hl Hn].
  exists chans. split; [reflexivity|]. split; [rewrite Hl; apply map_length|].
  intros c ln Hc. specialize (Hn c). rewrite nth_error_map, Hc in Hn. cbn in Hn.
  destruct (nth_error v c) as [z|]; cbn in Hn; [|discriminate]. inversion Hn as [Hz]. exists z. split; congruence.
Qed.

(* ---------- the returned shape ---------- *)
Theorem fdd_shape freq Sval Svec f DF idx fn phi :
  fdd_mpe1 freq Sval Svec f DF = Ok (idx, fn, phi) ->
  exists lo hi v p d,
    fdd_idx freq Sval f DF = Ok (lo, hi, idx) /\ nth_error freq idx = Some fn /\
    row0 Svec idx = Ok v /\ nth_error v p = Some d /\ cnorm2 QcOps d <> 0%Qc /\
    (forall j z, nth_error v j = Some z -> (cnorm2 QcOps z <= cnorm2 QcOps d)%Qc) /\
    (forall j z, (j < p)%nat -> nth_error v j = Some z -> (cnorm2 QcOps z < cnorm2 QcOps d)%Qc) /\
    length phi = length v /\ nth_error phi p = Some (c1 QcOps) /\
    (forall i z, nth_error v i = Some z -> exists y, nth_error phi i = Some y /\ z = cmul QcOps d y) /\
    mac_num QcOps (length v) (vecC QcOps v) (vecC QcOps phi) = mac_den QcOps (length v) (vecC QcOps v) (vecC QcOps phi).
Proof.
  unfold fdd_mpe1. destruct (fdd_idx freq Sval f DF) as [[[lo hi] idx']|e] eqn:Ei; [|discriminate].
  destruct (nth_error freq idx') as [fn'|] eqn:Ef; [|discriminate].
  destruct (row0 Svec idx') as [v|e] eqn:Er; [|discriminate].
  destruct (unity v) as [phin|e] eqn:Eu; [|discriminate].
  intros H; inversion H; subst idx' fn' phin; clear H.
  destruct (unity_spec v phi Eu) as (p & d & Hp & Hd & Hmax & Hfst & Hphi).
  destruct (unity_by_spec Qc QcOps QcFth d v Hd) as (Hlen & Hpiv & Hmul). rewrite <- Hphi in Hlen, Hpiv, Hmul.
  exists lo, hi, v, p, d. repeat split; try assumption; try reflexivity.
  - apply Hpiv. exact Hp.
  - apply (mac_collinear Qc QcOps QcRth (length v) (vecC QcOps v) (vecC QcOps phi) d).
    intros k Hk. unfold vecC. destruct (nth_error v k) as [z|] eqn:Ez.
    + destruct (Hmul k z Ez) as (y & Hy & Hzy).
      rewrite (nth_error_nth v k _ Ez), (nth_error_nth phi k _ Hy). exact Hzy.
    + apply nth_error_None in Ez. lia.
Qed.

(* ---------- Fn lies between the band-limit lines of an increasing grid ---------- *)
Definition increasing (freq:list Q) : Prop :=
  forall i j a b, (i < j)%nat -> nth_error freq i = Some a -> nth_error freq j = Some b -> (a < b)%Q.

Theorem fdd_fn_in_band freq Sval Svec f DF idx fn phi :
  increasing freq -> fdd_mpe1 freq Sval Svec f DF = Ok (idx, fn, phi) ->
  exists lo hi flo fhi, fdd_idx freq Sval f DF = Ok (lo, hi, idx) /\
    nth_error freq idx = Some fn /\ nth_error freq lo = Some flo /\ nth_error freq hi = Some fhi /\
    (flo <= fn)%Q /\ (fn < fhi)%Q /\
    (forall j g, nth_error freq j = Some g -> Qabs (flo - (f - DF)) <= Qabs (g - (f - DF)))%Q /\
    (forall j g, nth_error freq j = Some g -> Qabs (fhi - (f + DF)) <= Qabs (g - (f + DF)))%Q.
Proof.
  intros Hinc H. destruct (fdd_shape _ _ _ _ _ _ _ _ H) as (lo & hi & v & p & d & Hi & Hfn & _).
  destruct (fdd_pick_spec _ _ _ _ _ _ _ Hi) as (Hlo & Hhi & (Hb & _)).
  destruct (nearest_spec _ _ _ Hlo) as (flo & Eflo & Hlomin & _).
  destruct (nearest_spec _ _ _ Hhi) as (fhi & Efhi & Hhimin & _).
  exists lo, hi, flo, fhi. repeat split; try assumption.
  - destruct (Nat.eq_dec lo idx) as [->|Hne].
    + rewrite Hfn in Eflo. inversion Eflo. apply Qle_refl.
    + apply Qlt_le_weak. apply (Hinc lo idx); [lia|assumption|assumption].
  - apply (Hinc idx hi); [lia|assumption|assumption].
Qed.

(* ---------- rectangular identity and diagonal factors, generic ring ---------- *)
Section Rect.
Variable R:Type. Variable K:Ops R.
Hypothesis Rth : ring_theory (o0 K) (o1 K) (oadd K) (omul K) (osub K) (oopp K) (@eq R).
Add Ring RrRect : Rth.

Lemma fid_rect_l n (A:fmat R) i j : fmul K n (fid K) A i j = if (i <? n)%nat then A i j else o0 K.
Proof.
  unfold fmul, fid. destruct (i <? n)%nat eqn:E.
  - apply Nat.ltb_lt in E.
    rewrite (sumn_ext R K n _ (fun k => omul K (if Nat.eqb k i then o1 K else o0 K) (A k j))).
    + apply (sumn_delta R K Rth n i (fun k => A k j)); exact E.
    + intros k Hk. rewrite Nat.eqb_sym. reflexivity.
  - apply Nat.ltb_ge in E.
    rewrite (sumn_ext R K n _ (fun _ => o0 K)); [apply (sumn_zero R K Rth)|].
    intros k Hk. destruct (Nat.eqb_spec i k); [lia|ring].
Qed.
Lemma fdiag_mul_l n (d:nat -> R) (B:fmat R) i j : (i < n)%nat ->
  fmul K n (fun a b => if Nat.eqb a b then d a else o0 K) B i j = omul K (d i) (B i j).
Proof.
  intros Hi. unfold fmul.
  rewrite (sumn_ext R K n _ (fun k => omul K (if Nat.eqb k i then o1 K else o0 K) (omul K (d i) (B k j)))).
  - apply (sumn_delta R K Rth n i (fun k => omul K (d i) (B k j))); exact Hi.
  - intros k Hk. rewrite (Nat.eqb_sym k i). destruct (Nat.eqb i k); ring.
Qed.
End Rect.

(* ---------- SD_svalsvec from the SVD contract ---------- *)
Section SVP.
Variable R:Type. Variable K:Ops R.
Hypothesis Rth : ring_theory (o0 K) (o1 K) (oadd K) (omul K) (osub K) (oopp K) (@eq R).
Add Ring RrSV : Rth.
Let KC := COps K.
Let CR := CRth R K Rth.

Lemma cconj_cofR a : cconj K (cofR K a) = cofR K a.
Proof. apply c_eq; cbn; ring. Qed.
Lemma fherm_invol (A:fmat (C R)) i j : fherm K (fherm K A) i j = A i j.
Proof. unfold fherm. apply (cconj_invol R K Rth). Qed.
Lemma sval_sq_of sq k : sval_sq K (sval_of K sq) k = omul K (sq k) (sq k).
Proof. unfold sval_sq, sval_of. rewrite Nat.eqb_refl. reflexivity. Qed.
Lemma sval_of_offdiag sq i j : i <> j -> sval_of K sq i j = o0 K.
Proof. intros H. unfold sval_of. destruct (Nat.eqb_spec i j); [contradiction|reflexivity]. Qed.
Lemma sval_of_diag sq i : sval_of K sq i i = sq i.
Proof. unfold sval_of. rewrite Nat.eqb_refl. reflexivity. Qed.

(* witnesses: what np.linalg.svd (full_matrices) and np.sqrt returned at one line, with their contracts *)
Variables (nr nc:nat) (Sy U Vh:fmat (C R)) (sigma sq:nat -> R).
Hypothesis Hdim : (nc <= nr)%nat.
Hypothesis svd_recon : feq nr nc Sy (fmul KC nc U (fmul KC nc (cdiag K sigma) Vh)).
Hypothesis svd_UhU : feq nr nr (fmul KC nr (fherm K U) U) (fid KC).
Hypothesis svd_UUh : feq nr nr (fmul KC nr U (fherm K U)) (fid KC).
Hypothesis sqrt_spec : forall k, (k < nc)%nat -> omul K (sq k) (sq k) = sigma k.

Theorem svec_unitary :
  feq nr nr (fmul KC nr (svec_of K U) (fherm K (svec_of K U))) (fid KC) /\
  feq nr nr (fmul KC nr (fherm K (svec_of K U)) (svec_of K U)) (fid KC).
Proof.
  unfold svec_of. split; intros i j Hi Hj.
  - rewrite <- (svd_UhU i j Hi Hj). unfold fmul. apply sumn_ext; intros k Hk. rewrite fherm_invol. reflexivity.
  - rewrite <- (svd_UUh i j Hi Hj). unfold fmul. apply sumn_ext; intros k Hk. rewrite fherm_invol. reflexivity.
Qed.

Lemma cdiag_stored i l : (i < nc)%nat -> cdiag K (sval_sq K (sval_of K sq)) i l = cdiag K sigma i l.
Proof. intros Hi. unfold cdiag. rewrite sval_sq_of, sqrt_spec by exact Hi. reflexivity. Qed.

(* S_vec^H diag(S_val^2) V^H = Sy *)
Theorem svalsvec_recon :
  feq nr nc (fmul KC nc (fherm K (svec_of K U)) (fmul KC nc (cdiag K (sval_sq K (sval_of K sq))) Vh)) Sy.
Proof.
  intros i j Hi Hj. rewrite (svd_recon i j Hi Hj). unfold svec_of, fmul.
  apply sumn_ext; intros k Hk. rewrite fherm_invol. f_equal.
  apply sumn_ext; intros l Hl. rewrite cdiag_stored by exact Hk. reflexivity.
Qed.

(* S_vec Sy = diag(S_val^2) V^H on the first nc rows and 0 below: row k of S_vec is the k-th left singular
   direction, u_k^H Sy = sigma_k v_k^H ; in particular row 0 belongs to the largest stored value *)
Theorem svec_left_action i j : (i < nr)%nat -> (j < nc)%nat ->
  fmul KC nr (svec_of K U) Sy i j =
  if (i <? nc)%nat then cmul K (cofR K (sval_sq K (sval_of K sq) i)) (Vh i j) else c0 K.
Proof.
  intros Hi Hj. unfold svec_of.
  set (DV := fmul KC nc (cdiag K sigma) Vh).
  assert (H1: fmul KC nr (fherm K U) Sy i j = fmul KC nr (fherm K U) (fmul KC nc U DV) i j).
  { unfold fmul at 1 3. apply sumn_ext; intros k Hk. rewrite (svd_recon k j Hk Hj). reflexivity. }
  rewrite H1.
  rewrite <- (fmul_assoc (C R) KC CR nr nr nc nc (fherm K U) U DV i j Hi Hj).
  assert (H2: fmul KC nc (fmul KC nr (fherm K U) U) DV i j = fmul KC nc (fid KC) DV i j).
  { unfold fmul at 1 3. apply sumn_ext; intros k Hk. rewrite (svd_UhU i k Hi ltac:(lia)). reflexivity. }
  rewrite H2. rewrite (fid_rect_l (C R) KC CR nc DV i j).
  destruct (i <? nc)%nat eqn:E; [|reflexivity]. apply Nat.ltb_lt in E.
  unfold DV. change (fmul KC nc (cdiag K sigma) Vh i j) with (fmul KC nc (fun a b => if Nat.eqb a b then cofR K (sigma a) else o0 KC) Vh i j).
  rewrite (fdiag_mul_l (C R) KC CR nc (fun a => cofR K (sigma a)) Vh i j E).
  rewrite sval_sq_of, sqrt_spec by exact E. reflexivity.
Qed.
End SVP.

Section SumFirst.
Variable R:Type. Variable K:Ops R.
Hypothesis Rth : ring_theory (o0 K) (o1 K) (oadd K) (omul K) (osub K) (oopp K) (@eq R).
Add Ring RrSF : Rth.
Lemma sumn_first n (f:nat -> R) : (0 < n)%nat -> (forall k, (0 < k < n)%nat -> f k = o0 K) -> sumn K n f = f 0%nat.
Proof.
  intros Hn Hz. destruct n as [|n]; [lia|]. rewrite (sumn_S_l R K Rth).
  rewrite (sumn_ext R K n _ (fun _ => o0 K)) by (intros k Hk; apply Hz; lia).
  rewrite (sumn_zero R K Rth). ring.
Qed.
End SumFirst.

(* ---------- narrow-band response: the stored row 0 is collinear with the channels' complex amplitudes ---------- *)
Section Narrow.
Variable R:Type. Variable K:Ops R.
Hypothesis Rth : ring_theory (o0 K) (o1 K) (oadd K) (omul K) (osub K) (oopp K) (@eq R).
Add Ring RrNB : Rth.
Let KC := COps K.
Let CR := CRth R K Rth.

Lemma minor_alg (u u' w x x':C R) :
  cmul K (cconj K w) (csub K (cmul K (cconj K u) x') (cmul K (cconj K u') x))
  = csub K (cmul K (cconj K (cmul K u w)) x') (cmul K (cconj K (cmul K u' w)) x).
Proof. destruct u, u', w, x, x'. apply c_eq; cbn; ring. Qed.
Lemma minor_zero (g:R) (x x' y:C R) :
  csub K (cmul K (cconj K (cmul K (cofR K g) (cmul K (cconj K x) y))) x')
         (cmul K (cconj K (cmul K (cofR K g) (cmul K (cconj K x') y))) x) = c0 K.
Proof. destruct x, x', y. apply c_eq; cbn; ring. Qed.

Variables (nr nc:nat) (Sy U Vh:fmat (C R)) (sigma:nat -> R) (a:nat -> C R) (g:R).
Hypothesis Hnc : (0 < nc)%nat.
Hypothesis svd_recon : feq nr nc Sy (fmul KC nc U (fmul KC nc (cdiag K sigma) Vh)).
Hypothesis rank_one : forall k, (0 < k < nc)%nat -> sigma k = o0 K.
(* cross-spectrum convention of scipy.signal.csd(x, y) = conj(X) Y : Sy[i][j] = g conj(a_i) a_j *)
Hypothesis narrow : forall i j, (i < nr)%nat -> (j < nc)%nat -> Sy i j = cmul K (cofR K g) (cmul K (cconj K (a i)) (a j)).

Lemma narrow_first i j : (i < nr)%nat -> (j < nc)%nat ->
  cmul K (U i 0%nat) (cmul K (cofR K (sigma 0%nat)) (Vh 0%nat j)) = cmul K (cofR K g) (cmul K (cconj K (a i)) (a j)).
Proof.
  intros Hi Hj. rewrite <- (narrow i j Hi Hj), (svd_recon i j Hi Hj). unfold fmul at 1.
  rewrite (sumn_first (C R) KC CR nc _ Hnc).
  - change (fmul KC nc (cdiag K sigma) Vh 0%nat j) with (fmul KC nc (fun p q => if Nat.eqb p q then cofR K (sigma p) else o0 KC) Vh 0%nat j).
    rewrite (fdiag_mul_l (C R) KC CR nc (fun p => cofR K (sigma p)) Vh 0%nat j Hnc). reflexivity.
  - intros k Hk.
    change (fmul KC nc (cdiag K sigma) Vh k j) with (fmul KC nc (fun p q => if Nat.eqb p q then cofR K (sigma p) else o0 KC) Vh k j).
    rewrite (fdiag_mul_l (C R) KC CR nc (fun p => cofR K (sigma p)) Vh k j ltac:(lia)).
    rewrite (rank_one k Hk). destruct (U i k), (Vh k j). apply c_eq; cbn; ring.
Qed.

Theorem narrowband_minor i i' j : (i < nr)%nat -> (i' < nr)%nat -> (j < nc)%nat ->
  cmul K (cconj K (cmul K (cofR K (sigma 0%nat)) (Vh 0%nat j)))
       (csub K (cmul K (svec_of K U 0%nat i) (a i')) (cmul K (svec_of K U 0%nat i') (a i))) = c0 K.
Proof.
  intros Hi Hi' Hj. unfold svec_of, fherm. rewrite minor_alg.
  rewrite (narrow_first i j Hi Hj), (narrow_first i' j Hi' Hj). apply minor_zero.
Qed.
End Narrow.

Section NarrowF.
Variable R:Type. Variable K:Ops R.
Hypothesis Fth : field_theory (o0 K) (o1 K) (oadd K) (omul K) (osub K) (oopp K) (odiv K) (oinv K) (@eq R).
Let Rth := F_R Fth.
Add Field FfNF : Fth.
Lemma cmul_cancel_l (w d:C R) : cnorm2 K w <> o0 K -> cmul K w d = c0 K -> d = c0 K.
Proof.
  intros Hw H.
  assert (E: d = cmul K (cinv K w) (cmul K w d)).
  { transitivity (cmul K (cmul K (cinv K w) w) d).
    - rewrite (cinv_l R K Fth w Hw). destruct d. apply c_eq; cbn; ring.
    - generalize (cinv K w). intros v. destruct v, w, d. apply c_eq; cbn; ring. }
  rewrite E, H. generalize (cinv K w). intros v. destruct v. apply c_eq; cbn; ring.
Qed.
Lemma csub_zero (x y:C R) : csub K x y = c0 K -> x = y.
Proof.
  destruct x as [x1 x2], y as [y1 y2]. cbv [csub c0 cre cim fst snd]. intros H. injection H as H1 H2.
  assert (E1: x1 = oadd K (osub K x1 y1) y1) by ring.
  assert (E2: x2 = oadd K (osub K x2 y2) y2) by ring.
  rewrite E1, E2, H1, H2. f_equal; ring.
Qed.

Theorem narrowband_collinear (nr nc:nat) (Sy U Vh:fmat (C R)) (sigma:nat -> R) (a:nat -> C R) (g:R) :
  (0 < nc)%nat ->
  feq nr nc Sy (fmul (COps K) nc U (fmul (COps K) nc (cdiag K sigma) Vh)) ->
  (forall k, (0 < k < nc)%nat -> sigma k = o0 K) ->
  (forall i j, (i < nr)%nat -> (j < nc)%nat -> Sy i j = cmul K (cofR K g) (cmul K (cconj K (a i)) (a j))) ->
  forall i i' j, (i < nr)%nat -> (i' < nr)%nat -> (j < nc)%nat ->
  cnorm2 K (cmul K (cofR K (sigma 0%nat)) (Vh 0%nat j)) <> o0 K ->
  cmul K (svec_of K U 0%nat i) (a i') = cmul K (svec_of K U 0%nat i') (a i).
Proof.
  intros Hnc Hrec Hr1 Hnar i i' j Hi Hi' Hj Hw.
  apply csub_zero. apply (cmul_cancel_l (cconj K (cmul K (cofR K (sigma 0%nat)) (Vh 0%nat j)))).
  - rewrite (cnorm2_conj R K Rth). exact Hw.
  - apply (narrowband_minor R K Rth nr nc Sy U Vh sigma a g Hnc Hrec Hr1 Hnar i i' j Hi Hi' Hj).
Qed.
End NarrowF.

(* ---------- real numbers ---------- *)
From Coq Require Import Reals Lra.
Open Scope R_scope.
(* ---------- sqrt convention: the pick is the same for sigma and for sqrt(sigma) ---------- *)
Lemma ratio_posR a b : 0 < a -> 0 < b -> 0 < a / b.
Proof. intros Ha Hb. apply Rdiv_lt_0_compat; assumption. Qed.
Lemma sqrt_ratio_le a b c d : 0 < a -> 0 < b -> 0 < c -> 0 < d ->
  (sqrt a / sqrt b <= sqrt c / sqrt d <-> a / b <= c / d).
Proof.
  intros Ha Hb Hc Hd. rewrite <- !sqrt_div_alt by assumption.
  pose proof (ratio_posR a b Ha Hb). pose proof (ratio_posR c d Hc Hd). split; intros H1.
  - apply sqrt_le_0; lra.
  - apply sqrt_le_1; lra.
Qed.
Lemma sqrt_ratio_lt a b c d : 0 < a -> 0 < b -> 0 < c -> 0 < d ->
  (sqrt a / sqrt b < sqrt c / sqrt d <-> a / b < c / d).
Proof.
  intros Ha Hb Hc Hd. rewrite <- !sqrt_div_alt by assumption.
  pose proof (ratio_posR a b Ha Hb). pose proof (ratio_posR c d Hc Hd). split; intros H1.
  - apply sqrt_lt_0; lra.
  - apply sqrt_lt_1; lra.
Qed.

Definition first_max_onR (r:nat -> R) (lo hi idx:nat) : Prop :=
  (lo <= idx < hi)%nat /\ (forall k, (lo <= k < hi)%nat -> r k <= r idx) /\ (forall k, (lo <= k < idx)%nat -> r k < r idx).

Theorem pick_sqrt_invariant (s1 s2:nat -> R) lo hi idx :
  (forall k, (lo <= k < hi)%nat -> 0 < s1 k /\ 0 < s2 k) ->
  (first_max_onR (fun k => sqrt (s1 k) / sqrt (s2 k)) lo hi idx <-> first_max_onR (fun k => s1 k / s2 k) lo hi idx).
Proof.
  intros Hpos. unfold first_max_onR. split; intros (Hb & Hmax & Hfst); (split; [exact Hb|]);
    destruct (Hpos idx Hb) as [Pa Pb]; split; intros k Hk.
  - destruct (Hpos k Hk) as [Pc Pd]. apply (proj1 (sqrt_ratio_le _ _ _ _ Pc Pd Pa Pb)). apply Hmax; exact Hk.
  - destruct (Hpos k ltac:(lia)) as [Pc Pd]. apply (proj1 (sqrt_ratio_lt _ _ _ _ Pc Pd Pa Pb)). apply Hfst; exact Hk.
  - destruct (Hpos k Hk) as [Pc Pd]. apply (proj2 (sqrt_ratio_le _ _ _ _ Pc Pd Pa Pb)). apply Hmax; exact Hk.
  - destruct (Hpos k ltac:(lia)) as [Pc Pd]. apply (proj2 (sqrt_ratio_lt _ _ _ _ Pc Pd Pa Pb)). apply Hfst; exact Hk.
Qed.

(* stored values sqrt(sigma_k): non-negative, non-increasing, and their squares are the singular values *)
Theorem sval_order_R (sigma:nat -> R) : (forall k, 0 <= sigma k) -> (forall k, sigma (S k) <= sigma k) ->
  forall k, 0 <= sqrt (sigma k) /\ sqrt (sigma (S k)) <= sqrt (sigma k) /\ sqrt (sigma k) * sqrt (sigma k) = sigma k.
Proof.
  intros Hnn Hdec k. split; [apply sqrt_pos|]. split; [apply sqrt_le_1; auto|apply sqrt_sqrt; auto].
Qed.

(* the real carrier (used only to WRITE the composed statement C06_full_statement) *)
Definition ROps_c06 : Ops R := {| o0:=0; o1:=1; oadd:=Rplus; omul:=Rmult; osub:=Rminus; oopp:=Ropp; odiv:=Rdiv; oinv:=Rinv |}.

(* ---------- the links composed over the reals (declarative: first-max line, stored row 0, unity normalisation, MAC) ---------- *)
From Coq Require Import RealField.
Lemma ROps_c06_Rth : ring_theory (o0 ROps_c06) (o1 ROps_c06) (oadd ROps_c06) (omul ROps_c06) (osub ROps_c06) (oopp ROps_c06) (@eq R).
Proof. exact RTheory. Qed.

Lemma first_max_exists (r:nat -> R) n : forall lo, exists idx, first_max_onR r lo (lo + S n) idx.
Proof.
  induction n as [|n IH]; intros lo.
  - exists lo. unfold first_max_onR. split; [lia|]. split; intros k Hk.
    + replace k with lo by lia. apply Rle_refl.
    + lia.
  - destruct (IH lo) as (i0 & Hb & Hmax & Hfst).
    destruct (Rlt_le_dec (r i0) (r (lo + S n)%nat)) as [Hlt|Hle].
    + exists (lo + S n)%nat. unfold first_max_onR. split; [lia|]. split; intros k Hk.
      * destruct (Nat.eq_dec k (lo + S n)) as [->|Hne]; [apply Rle_refl|].
        apply Rlt_le. eapply Rle_lt_trans; [apply Hmax; lia|exact Hlt].
      * eapply Rle_lt_trans; [apply Hmax; lia|exact Hlt].
    + exists i0. unfold first_max_onR. split; [lia|]. split; intros k Hk.
      * destruct (Nat.eq_dec k (lo + S n)) as [->|Hne]; [exact Hle|]. apply Hmax; lia.
      * apply Hfst; exact Hk.
Qed.

Lemma cnorm2_nonneg (z:Cplx.C R) : 0 <= cnorm2 ROps_c06 z.
Proof. destruct z as [a b]. unfold cnorm2; cbn. nra. Qed.
Lemma nrm2_le0 n (a:nat -> Cplx.C R) : (forall k, (k < n)%nat -> cnorm2 ROps_c06 (a k) <= 0) -> nrm2 ROps_c06 n a <= 0.
Proof.
  unfold nrm2. induction n as [|n IH]; intros H; cbn [sumn]; [cbn; lra|].
  specialize (IH ltac:(intros k Hk; apply H; lia)). specialize (H n ltac:(lia)). cbn [oadd ROps_c06]. lra.
Qed.

Theorem composed_R : forall (nr nc nf:nat) (Sy U Vh:nat -> fmat (Cplx.C R)) (sigma:nat -> nat -> R) (freq:nat -> R) (f DF:R) (lo hi:nat),
  (2 <= nc <= nr)%nat ->
  (forall k, (k < nf)%nat ->
     feq nr nc (Sy k) (fmul (COps ROps_c06) nc (U k) (fmul (COps ROps_c06) nc (cdiag ROps_c06 (sigma k)) (Vh k))) /\
     feq nr nr (fmul (COps ROps_c06) nr (fherm ROps_c06 (U k)) (U k)) (fid (COps ROps_c06)) /\
     feq nr nr (fmul (COps ROps_c06) nr (U k) (fherm ROps_c06 (U k))) (fid (COps ROps_c06)) /\
     (forall i, (i < nc)%nat -> 0 < sigma k i) /\ (forall i, sigma k (S i) <= sigma k i)) ->
  (lo < hi < nf)%nat ->
  exists idx (d:Cplx.C R),
    first_max_onR (fun k => sqrt (sigma k 0%nat) / sqrt (sigma k 1%nat)) lo hi idx /\
    first_max_onR (fun k => sigma k 0%nat / sigma k 1%nat) lo hi idx /\
    cnorm2 ROps_c06 d <> 0 /\ (exists p, (p < nr)%nat /\ svec_of ROps_c06 (U idx) 0%nat p = d) /\
    (forall i, (i < nr)%nat -> cnorm2 ROps_c06 (svec_of ROps_c06 (U idx) 0%nat i) <= cnorm2 ROps_c06 d) /\
    mac_num ROps_c06 nr (fun i => cdiv ROps_c06 (svec_of ROps_c06 (U idx) 0%nat i) d) (fun i => cconj ROps_c06 (U idx i 0%nat))
    = mac_den ROps_c06 nr (fun i => cdiv ROps_c06 (svec_of ROps_c06 (U idx) 0%nat i) d) (fun i => cconj ROps_c06 (U idx i 0%nat)).
Proof.
  intros nr nc nf Sy U Vh sigma freq f DF lo hi Hdim Hsvd Hband.
  destruct (first_max_exists (fun k => sqrt (sigma k 0%nat) / sqrt (sigma k 1%nat)) (hi - lo - 1) lo) as [idx Hidx].
  replace (lo + S (hi - lo - 1))%nat with hi in Hidx by lia.
  assert (Hpos: forall k, (lo <= k < hi)%nat -> 0 < sigma k 0%nat /\ 0 < sigma k 1%nat).
  { intros k Hk. destruct (Hsvd k ltac:(lia)) as (_ & _ & _ & Hp & _). split; apply Hp; lia. }
  pose proof (proj1 (pick_sqrt_invariant (fun k => sigma k 0%nat) (fun k => sigma k 1%nat) lo hi idx Hpos) Hidx) as Hidx2.
  assert (Hin: (idx < nf)%nat) by (destruct Hidx as [Hb _]; lia).
  destruct (Hsvd idx Hin) as (_ & HUhU & _ & _ & _).
  set (row := fun i => svec_of ROps_c06 (U idx) 0%nat i).
  (* largest squared modulus on the row *)
  destruct (first_max_exists (fun i => cnorm2 ROps_c06 (row i)) (nr - 1) 0%nat) as [p (Hp & Hpmax & _)].
  replace (0 + S (nr - 1))%nat with nr in Hp, Hpmax by lia.
  exists idx, (row p). split; [exact Hidx|]. split; [exact Hidx2|].
  assert (Hn1: nrm2 ROps_c06 nr (fun k => U idx k 0%nat) = 1).
  { pose proof (HUhU 0%nat 0%nat ltac:(lia) ltac:(lia)) as H00. unfold fmul, fid in H00. cbn [Nat.eqb] in H00.
    change (sumn (COps ROps_c06) nr (fun k => omul (COps ROps_c06) (fherm ROps_c06 (U idx) 0%nat k) (U idx k 0%nat)))
      with (hdot ROps_c06 nr (fun k => U idx k 0%nat) (fun k => U idx k 0%nat)) in H00.
    rewrite (hdot_self R ROps_c06 ROps_c06_Rth) in H00. unfold cofR in H00. cbn in H00. inversion H00. reflexivity. }
  assert (Hd: cnorm2 ROps_c06 (row p) <> 0).
  { intros Hz. assert (Hle: nrm2 ROps_c06 nr (fun k => U idx k 0%nat) <= 0).
    { apply nrm2_le0. intros k Hk. specialize (Hpmax k ltac:(lia)). cbv beta in Hpmax. rewrite Hz in Hpmax.
      unfold row, svec_of, fherm in Hpmax. rewrite (cnorm2_conj R ROps_c06 ROps_c06_Rth) in Hpmax. exact Hpmax. }
    rewrite Hn1 in Hle. lra. }
  split; [exact Hd|]. split; [exists p; split; [lia|reflexivity]|].
  split; [intros i Hi; apply Hpmax; lia|].
  apply (mac_collinear R ROps_c06 ROps_c06_Rth nr _ _ (cinv ROps_c06 (row p))).
  intros k Hk. unfold row, svec_of, fherm, cdiv.
  generalize (cinv ROps_c06 (cconj ROps_c06 (U idx p 0%nat))). intros w. generalize (cconj ROps_c06 (U idx k 0%nat)). intros z.
  destruct w, z. apply c_eq; cbn; ring.
Qed.
