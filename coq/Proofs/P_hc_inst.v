(* C09 - the hard criteria with instantiated indicators: gen.MPC / gen.MPD / the damping ratio do not see the sign of
   the imaginary part (generic carrier), hence conjugate closure of the run() mask sequences without any assumption on
   how the criteria decide; and the criteria on an arbitrary selection / labelling of the order columns. *)
From Coq Require Import List Arith Lia Ring Field ZArith QArith Qcanon Bool.
From PyOMA.Base Require Import Carrier Cplx Argmin.
From PyOMA.Model Require Import M_indicators M_hc M_hc_inst.
From PyOMA.Proofs Require Import P_indicators P_hc.
Import ListNotations.

(* ===================================================================================================================
   A. generic carrier: the indicator models are even in the imaginary part
   =================================================================================================================== *)
Section G.
Variable R:Type. Variable K:Ops R.
Hypothesis Fth : field_theory (o0 K) (o1 K) (oadd K) (omul K) (osub K) (oopp K) (odiv K) (oinv K) (@eq R).
Add Field FfHcI : Fth.
Local Open Scope K_scope.
Notation "0" := (o0 K) : K_scope. Notation "1" := (o1 K) : K_scope.
Infix "+" := (oadd K) : K_scope. Infix "*" := (omul K) : K_scope. Infix "-" := (osub K) : K_scope.
Notation "- x" := (oopp K x) : K_scope. Infix "/" := (odiv K) : K_scope.
Let Rth := F_R Fth.

Definition vconj (phi:cvec R) : cvec R := fun k => cconj K (phi k).

Lemma cen_opp n (u:nat->R) k : cen K n (fun j => - u j) k = - cen K n u k.
Proof. rewrite (cen_comb R K Fth n (- (1)) 0 u u (fun j => - u j)) by (intros; ring). ring. Qed.

Lemma rdot_opp_r n (a w:nat->R) : rdot K n a (cen K n (fun j => - w j)) = - rdot K n a (cen K n w).
Proof. unfold rdot. rewrite <- (sumn_opp R K Rth). apply sumn_ext; intros k _. rewrite cen_opp. ring. Qed.
Lemma rdot_opp_lr n (w:nat->R) :
  rdot K n (cen K n (fun j => - w j)) (cen K n (fun j => - w j)) = rdot K n (cen K n w) (cen K n w).
Proof. unfold rdot. apply sumn_ext; intros k _. rewrite cen_opp. ring. Qed.

Lemma cov_conj f n phi :
  cov_xx K f n (vconj phi) = cov_xx K f n phi /\ cov_yy K f n (vconj phi) = cov_yy K f n phi /\
  cov_xy K f n (vconj phi) = - cov_xy K f n phi.
Proof.
  unfold cov_xx, cov_yy, cov_xy.
  change (vre (vconj phi)) with (vre phi). change (vim (vconj phi)) with (fun j => - vim phi j).
  rewrite rdot_opp_lr, rdot_opp_r. repeat split; ring.
Qed.
Lemma cov_tr_conj f n phi : cov_tr K f n (vconj phi) = cov_tr K f n phi.
Proof. unfold cov_tr. destruct (cov_conj f n phi) as (-> & -> & _). reflexivity. Qed.
Lemma cov_det_conj f n phi : cov_det K f n (vconj phi) = cov_det K f n phi.
Proof. unfold cov_det. destruct (cov_conj f n phi) as (-> & -> & ->). ring. Qed.

(* gen.MPC of the conjugate shape is gen.MPC of the shape: no side condition *)
Theorem mpc_f_conj f n phi : mpc_f K f n (vconj phi) = mpc_f K f n phi.
Proof. unfold mpc_f. rewrite cov_tr_conj, cov_det_conj. reflexivity. Qed.
Theorem mpc_conj n phi : mpc K n (vconj phi) = mpc K n phi.
Proof. apply mpc_f_conj. Qed.

(* gen.MPD: the cosine argument for the conjugate component and the mirrored singular vector (any non-zero multiple) *)
Lemma mpd_arg_conj c z v0 v1 : c <> 0 -> v0 * v0 + v1 * v1 <> 0 -> cnorm2 K z <> 0 ->
  mpd_arg K (cconj K z) (c * v0) (- (c * v1)) = mpd_arg K z v0 v1.
Proof.
  intros Hc Hv Hz. destruct z as [x y]. unfold mpd_arg, mpd_num, cconj, cnorm2 in *. cbn [cre cim fst snd] in *.
  replace ((x * - (c * v1) - - y * (c * v0)) * (x * - (c * v1) - - y * (c * v0)))
    with (c * c * ((x * v1 - y * v0) * (x * v1 - y * v0))) by ring.
  replace (c * v0 * (c * v0) + - (c * v1) * - (c * v1)) with (c * c * (v0 * v0 + v1 * v1)) by ring.
  replace (x * x + - y * - y) with (x * x + y * y) by ring.
  set (V := v0 * v0 + v1 * v1) in *. set (W := x * x + y * y) in *. set (N := (x * v1 - y * v0) * (x * v1 - y * v0)).
  field. repeat split; assumption.
Qed.

Section Guards.
Variable leb : R -> R -> bool.
Variable isz : R -> bool.
Hypothesis isz_spec : forall x, isz x = true <-> x = 0.

Theorem mpc_o_conj n phi : mpc_o K isz n (vconj phi) = mpc_o K isz n phi.
Proof. unfold mpc_o. rewrite cov_tr_conj, mpc_f_conj. reflexivity. Qed.

Theorem mpd_terms_conj n phi c v0 v1 : c <> 0 -> v0 * v0 + v1 * v1 <> 0 ->
  mpd_terms K leb isz n (vconj phi) (c * v0) (- (c * v1)) = mpd_terms K leb isz n phi v0 v1.
Proof.
  intros Hc Hv. unfold mpd_terms. induction (seq 0 n) as [|k l IH]; [reflexivity|].
  cbn [flat_map]. rewrite IH. f_equal.
  unfold mpd_term, vconj. rewrite (cnorm2_conj R K Rth).
  destruct (isz (cnorm2 K (phi k))) eqn:E; [reflexivity|].
  assert (Hz: cnorm2 K (phi k) <> 0) by (intros H; apply isz_spec in H; congruence).
  rewrite mpd_arg_conj by assumption. reflexivity.
Qed.

(* the models read the shape at positions < n only *)
Lemma cen_ext n (u v:nat->R) : (forall k, (k < n)%nat -> u k = v k) -> forall k, (k < n)%nat -> cen K n u k = cen K n v k.
Proof. intros H k Hk. unfold cen, mean. rewrite (sumn_ext R K n u v H), (H k Hk). reflexivity. Qed.
Lemma rdot_cen_ext n (u v u' v':nat->R) :
  (forall k, (k < n)%nat -> u k = u' k) -> (forall k, (k < n)%nat -> v k = v' k) ->
  rdot K n (cen K n u) (cen K n v) = rdot K n (cen K n u') (cen K n v').
Proof.
  intros Hu Hv. unfold rdot. apply sumn_ext; intros k Hk.
  rewrite (cen_ext n u u' Hu k Hk), (cen_ext n v v' Hv k Hk). reflexivity.
Qed.
Lemma mpc_o_ext n phi psi : (forall k, (k < n)%nat -> phi k = psi k) -> mpc_o K isz n phi = mpc_o K isz n psi.
Proof.
  intros H.
  assert (Hre: forall k, (k < n)%nat -> vre phi k = vre psi k) by (intros k Hk; unfold vre; rewrite (H k Hk); reflexivity).
  assert (Him: forall k, (k < n)%nat -> vim phi k = vim psi k) by (intros k Hk; unfold vim; rewrite (H k Hk); reflexivity).
  unfold mpc_o, mpc_f, cov_tr, cov_det, cov_xx, cov_xy, cov_yy.
  rewrite (rdot_cen_ext n (vre phi) (vre phi) (vre psi) (vre psi) Hre Hre),
          (rdot_cen_ext n (vim phi) (vim phi) (vim psi) (vim psi) Him Him),
          (rdot_cen_ext n (vre phi) (vim phi) (vre psi) (vim psi) Hre Him).
  reflexivity.
Qed.
Lemma mpd_terms_ext n phi psi v0 v1 : (forall k, (k < n)%nat -> phi k = psi k) ->
  mpd_terms K leb isz n phi v0 v1 = mpd_terms K leb isz n psi v0 v1.
Proof.
  intros H. unfold mpd_terms.
  assert (Hs: forall k, In k (seq 0 n) -> (k < n)%nat) by (intros k Hk; apply in_seq in Hk; lia).
  induction (seq 0 n) as [|k l IH]; [reflexivity|]. cbn [flat_map].
  rewrite (H k) by (apply Hs; left; reflexivity). rewrite IH by (intros j Hj; apply Hs; right; exact Hj). reflexivity.
Qed.
End Guards.
End G.

(* ===================================================================================================================
   B. the instantiated indicators of a table cell and the conjugate shape
   =================================================================================================================== *)
Lemma all_some_conj (v:shape) : all_some (conj_shape v) = option_map (map cj) (all_some v).
Proof.
  induction v as [|[x|] r IH]; [reflexivity| |reflexivity].
  change (conj_shape (Some x :: r)) with (Some (cj x) :: conj_shape r). cbn [all_some]. rewrite IH.
  destruct (all_some r); reflexivity.
Qed.
Lemma vec_of_conj (x:list QcCplx) k : (k < length x)%nat -> vec_of (map cj x) k = vconj Qc QcOps (vec_of x) k.
Proof.
  intros Hk. unfold vec_of, vconj. rewrite (nth_indep (map cj x) (c0 QcOps) (cj (c0 QcOps))) by (rewrite map_length; exact Hk).
  apply map_nth.
Qed.
Theorem mpc_l_conj (x:list QcCplx) : mpc_l (map cj x) = mpc_l x.
Proof.
  unfold mpc_l. rewrite map_length.
  rewrite (mpc_o_ext Qc QcOps Qc_isz (length x) (vec_of (map cj x)) (vconj Qc QcOps (vec_of x))) by (apply vec_of_conj).
  apply (mpc_o_conj Qc QcOps QcFth).
Qed.
(* gen.MPC of the conjugate shape = gen.MPC of the shape, nan cases included *)
Theorem mpc_inst_conj (v:shape) : mpc_inst (conj_shape v) = mpc_inst v.
Proof. unfold mpc_inst. rewrite all_some_conj. destruct (all_some v) as [x|]; [|reflexivity]. cbn [option_map]. rewrite mpc_l_conj. reflexivity. Qed.

Definition qc_nz2 (w:Qc*Qc) : Prop := (fst w * fst w + snd w * snd w <> 0)%Qc.
Section SV.
Variable sv2 : list QcCplx -> Qc * Qc.
Variable sqrtf acosf : Qc -> Qc.
(* contract of np.linalg.svd used here: the second right-singular vector is not the null vector, and the one returned for
   [Re phi, -Im phi] = [Re phi, Im phi] diag(1,-1) is a non-zero multiple of (v0, -v1) (it is +-(v0, -v1) for distinct singular values) *)
Hypothesis sv2_nz : forall x, qc_nz2 (sv2 x).
Hypothesis sv2_conj : forall x, exists c:Qc, c <> 0%Qc /\ sv2 (map cj x) = ((c * fst (sv2 x))%Qc, (- (c * snd (sv2 x)))%Qc).

Theorem mpd_terms_inst_conj (v:shape) : mpd_terms_inst sv2 (conj_shape v) = mpd_terms_inst sv2 v.
Proof.
  unfold mpd_terms_inst. rewrite all_some_conj. destruct (all_some v) as [x|]; [|reflexivity]. cbn [option_map]. f_equal.
  destruct (sv2_conj x) as (c & Hc & ->). cbn [fst snd]. unfold mpd_terms_l. rewrite map_length.
  rewrite (mpd_terms_ext Qc QcOps Qc_leb Qc_isz (length x) (vec_of (map cj x)) (vconj Qc QcOps (vec_of x))) by (apply vec_of_conj).
  apply (mpd_terms_conj Qc QcOps QcFth Qc_leb Qc_isz Qc_isz_spec); [exact Hc|apply sv2_nz].
Qed.
(* gen.MPD of the conjugate shape = gen.MPD of the shape, for every sqrt and arccos *)
Theorem mpd_inst_conj (v:shape) : mpd_inst sv2 sqrtf acosf (conj_shape v) = mpd_inst sv2 sqrtf acosf v.
Proof. unfold mpd_inst. rewrite mpd_terms_inst_conj. reflexivity. Qed.
End SV.

(* ---------------- damping of the conjugate eigenvalue ---------------- *)
Lemma oqeq_sym a b : oqeq a b -> oqeq b a.
Proof. destruct a, b; cbn; auto. intros H; symmetry; exact H. Qed.
Lemma oqeq_trans a b c : oqeq a b -> oqeq b c -> oqeq a c.
Proof. destruct a, b, c; cbn; try tauto. intros H1 H2. rewrite H1. exact H2. Qed.
Lemma Qeq_bool_comp a b : a == b -> Qeq_bool a 0 = Qeq_bool b 0.
Proof.
  intros H. destruct (Qeq_bool a 0) eqn:Ea, (Qeq_bool b 0) eqn:Eb; try reflexivity.
  - apply Qeq_bool_iff in Ea. rewrite H in Ea. apply Qeq_bool_iff in Ea. congruence.
  - apply Qeq_bool_iff in Eb. rewrite <- H in Eb. apply Qeq_bool_iff in Eb. congruence.
Qed.
Section XI.
Variable absf : cplx -> Q.
(* contract of abs (hypot): it does not see the sign of the imaginary part *)
Hypothesis absf_conj : forall z z', ceq z' (cconjq z) -> absf z' == absf z.
Theorem xi_of_conj z z' : ceq z' (cconjq z) -> oqeq (xi_of absf z') (xi_of absf z).
Proof.
  intros He. pose proof (absf_conj z z' He) as Ha. destruct He as [Hr _]. cbn [cconjq fst] in Hr.
  unfold xi_of. rewrite (Qeq_bool_comp _ _ Ha). destruct (Qeq_bool (absf z) 0); cbn; [exact I|].
  rewrite Hr, Ha. reflexivity.
Qed.
Lemma xi_ok_mirror xmax (L:tbl cplx) (X:tbl Q) i o i' o' z z' :
  xi_table absf L X -> cell L i o = Some z -> cell L i' o' = Some z' -> ceq z' (cconjq z) ->
  xi_ok xmax X i o -> xi_ok xmax X i' o'.
Proof.
  intros HX Hz Hz' He (x & Hx & H0 & H1).
  pose proof (HX i o z Hz) as A. pose proof (HX i' o' z' Hz') as B. rewrite Hx in A.
  pose proof (oqeq_trans _ _ _ B (oqeq_trans _ _ _ (xi_of_conj z z' He) (oqeq_sym _ _ A))) as D.
  unfold xi_ok. destruct (cell X i' o') as [x'|]; [|destruct D]. change (x' == x) in D. exists x'.
  split; [reflexivity|]. split; rewrite D; assumption.
Qed.
End XI.

Lemma cov_ok_mirror cmax (F:tbl Q) i o i' o' : oqeq (cell F i' o') (cell F i o) -> cov_ok cmax F i o -> cov_ok cmax F i' o'.
Proof. intros H (c & Hc & Hlt). rewrite Hc in H. unfold cov_ok. destruct (cell F i' o') as [c'|]; [|destruct H]. change (c' == c) in H. exists c'.
  split; [reflexivity|]. rewrite H. exact Hlt. Qed.

(* ===================================================================================================================
   C. conjugate closure of the two mask sequences with the indicators instantiated
   =================================================================================================================== *)
Section CC.
Variable absf : cplx -> Q.
Variable sv2 : list QcCplx -> Qc * Qc.
Variable sqrtf acosf : Qc -> Qc.
Hypothesis absf_conj : forall z z', ceq z' (cconjq z) -> absf z' == absf z.
Hypothesis sv2_nz : forall x, qc_nz2 (sv2 x).
Hypothesis sv2_conj : forall x, exists c:Qc, c <> 0%Qc /\ sv2 (map cj x) = ((c * fst (sv2 x))%Qc, (- (c * snd (sv2 x)))%Qc).
Notation MPC := mpc_inst.
Notation MPD := (mpd_inst sv2 sqrtf acosf).

Lemma phi_ok_mirror (L:tbl cplx) (P:tbl3 QcCplx) i o i' o' lc ld : mirror_cell L P i o i' o' ->
  mpc_ok QcCplx MPC lc P i o -> mpd_ok QcCplx MPD ld P i o -> mpc_ok QcCplx MPC lc P i' o' /\ mpd_ok QcCplx MPD ld P i' o'.
Proof.
  intros (z & z' & v & _ & _ & _ & Hv & Hv') (v1 & c & Hv1 & Hc & Hlc) (v2 & d & Hv2 & Hd & Hld).
  rewrite Hv in Hv1, Hv2. inversion Hv1; subst v1. inversion Hv2; subst v2. split.
  - exists (conj_shape v), c. rewrite mpc_inst_conj. auto.
  - exists (conj_shape v), d. rewrite (mpd_inst_conj sv2 sqrtf acosf sv2_nz sv2_conj). auto.
Qed.

Section SSI.
Variable EC : Type.
Notation keep := (ssi_keep QcCplx EC MPC MPD).
Notation other := (ssi_other QcCplx EC MPC MPD).
Notation run := (run_ssi QcCplx EC MPC MPD).

(* the criteria other than the conjugate one decide alike for a pole and its mirror image: a THEOREM here *)
Theorem ssi_other_mirror h (s:ssi_tabs QcCplx EC) i o i' o' :
  xi_table absf (sLam s) (sXi s) -> mirror_cell (sLam s) (sPhi s) i o i' o' ->
  (forall F, sFnC s = Some F -> oqeq (cell F i' o') (cell F i o)) ->
  other h s i o -> other h s i' o'.
Proof.
  intros HX HM HF (H1 & H2 & H3 & H4).
  destruct (phi_ok_mirror _ _ _ _ _ _ _ _ HM H2 H3) as [H2' H3'].
  destruct HM as (z & z' & v & Hz & Hz' & He & _).
  refine (conj _ (conj H2' (conj H3' _))).
  - exact (xi_ok_mirror absf absf_conj _ _ _ _ _ _ _ _ _ HX Hz Hz' He H1).
  - intros F EF. apply (cov_ok_mirror _ _ i o i' o' (HF F EF)). exact (H4 F EF).
Qed.

Theorem hc_conj_closed_ssi_inst : forall (h:hcrit) (s:ssi_tabs QcCplx EC), hc_conj_on h = true ->
  xi_table absf (sLam s) (sXi s) -> mirror_ssi s ->
  forall i o z, cell (sLam (run h s)) i o = Some z ->
  exists i' o' z', cell (sLam (run h s)) i' o' = Some z' /\ ceq z' (cconjq z).
Proof.
  intros h s Hon HX HM i o z Hr.
  destruct (hc_sound_complete_ssi QcCplx EC MPC MPD h s i o) as (_ & _ & _ & HL & _). apply HL in Hr. destruct Hr as [Hz [Hc Ho]].
  destruct (HM i o (Hc Hon)) as (i' & o' & Hm & HF).
  pose proof Hm as (z0 & z' & v & Hz0 & Hz' & He & _). rewrite Hz in Hz0. inversion Hz0; subst z0.
  exists i', o', z'. split; [|exact He].
  destruct (hc_sound_complete_ssi QcCplx EC MPC MPD h s i' o') as (_ & _ & _ & HL' & _). apply HL'. split; [exact Hz'|]. split.
  - intros _. apply (has_conj_partner _ i o i' o' z z' Hz Hz' He).
  - exact (ssi_other_mirror h s i o i' o' HX Hm HF Ho).
Qed.
End SSI.

Notation pkeep := (pl_keep QcCplx MPC MPD).
Theorem pl_other_mirror h (s:pl_tabs QcCplx) i o i' o' :
  xi_table absf (pLam s) (pXi s) -> mirror_cell (pLam s) (pPhi s) i o i' o' ->
  pl_other QcCplx MPC MPD h s i o -> pl_other QcCplx MPC MPD h s i' o'.
Proof.
  intros HX HM (H1 & H2 & H3).
  destruct (phi_ok_mirror _ _ _ _ _ _ _ _ HM H2 H3) as [H2' H3'].
  destruct HM as (z & z' & v & Hz & Hz' & He & _).
  refine (conj _ (conj H2' H3')).
  exact (xi_ok_mirror absf absf_conj _ _ _ _ _ _ _ _ _ HX Hz Hz' He H1).
Qed.
(* Lambds is not part of a pLSCF result: the statement is about the cells that survive (see hc_sound_complete_pl) *)
Theorem hc_conj_closed_pl_inst : forall (h:hcrit) (s:pl_tabs QcCplx), hc_conj_on h = true ->
  xi_table absf (pLam s) (pXi s) -> mirror_pl s ->
  forall i o, pkeep h s i o ->
  exists z i' o' z', cell (pLam s) i o = Some z /\ cell (pLam s) i' o' = Some z' /\ ceq z' (cconjq z) /\ pkeep h s i' o'.
Proof.
  intros h s Hon HX HM i o [Hc Ho].
  destruct (HM i o (Hc Hon)) as (i' & o' & Hm).
  pose proof Hm as (z & z' & v & Hz & Hz' & He & _).
  exists z, i', o', z'. refine (conj Hz (conj Hz' (conj He (conj _ _)))).
  - intros _. apply (has_conj_partner _ i o i' o' z z' Hz Hz' He).
  - exact (pl_other_mirror h s i o i' o' HX Hm Ho).
Qed.
End CC.

(* ===================================================================================================================
   D. the order axis: the criteria on any selection / labelling of the order columns
   =================================================================================================================== *)
Lemma nth_as_error {A} (d:A) r n : nth n r d = match nth_error r n with Some c => c | None => d end.
Proof. rewrite <- nth_default_eq. reflexivity. Qed.
Lemma vget_sel {A} (d:A) sel (t:list (list A)) i j :
  vget (sel_cols d sel t) i j = match nth_error t i with Some r => option_map (fun n => nth n r d) (nth_error sel j) | None => None end.
Proof. unfold vget, sel_cols. rewrite nth_error_map. destruct (nth_error t i) as [r|]; cbn [option_map]; [apply nth_error_map|reflexivity]. Qed.
Lemma cell_sel {A} sel (t:tbl A) i j n : nth_error sel j = Some n -> cell (sel_cols None sel t) i j = cell t i n.
Proof.
  intros Hj. unfold cell. rewrite vget_sel, Hj. unfold vget. destruct (nth_error t i) as [r|]; [|reflexivity].
  cbn [option_map]. apply nth_as_error.
Qed.
Lemma cell_sel_out {A} sel (t:tbl A) i j : nth_error sel j = None -> cell (sel_cols None sel t) i j = None.
Proof. intros Hj. unfold cell. rewrite vget_sel, Hj. destruct (nth_error t i); reflexivity. Qed.
Lemma vget_sel3 {X} sel (P:tbl3 X) i j n : cols_ok sel P -> nth_error sel j = Some n -> vget (sel_cols [] sel P) i j = vget P i n.
Proof.
  intros Hok Hj. rewrite vget_sel, Hj. unfold vget. destruct (nth_error P i) as [r|] eqn:Er; [|reflexivity].
  cbn [option_map]. symmetry. apply nth_error_nth'. apply (Hok r n); [eapply nth_error_In; exact Er|eapply nth_error_In; exact Hj].
Qed.
Lemma cell3_sel {X} sel (P:tbl3 X) i j n k : cols_ok sel P -> nth_error sel j = Some n -> cell3 (sel_cols [] sel P) i j k = cell3 P i n k.
Proof. intros Hok Hj. unfold cell3. rewrite (vget_sel3 sel P i j n Hok Hj). reflexivity. Qed.

(* the conjugate criterion inside the restricted table implies it on the full table; conversely when conjugates share the column *)
Lemma has_conj_sel_full sel (L:tbl cplx) i j n : nth_error sel j = Some n -> has_conj (sel_cols None sel L) i j -> has_conj L i n.
Proof.
  intros Hj (z & Hz & i' & j' & z' & Hz' & He). rewrite (cell_sel sel L i j n Hj) in Hz.
  exists z. split; [exact Hz|]. destruct (nth_error sel j') as [n'|] eqn:Ej'.
  - rewrite (cell_sel sel L i' j' n' Ej') in Hz'. exists i', n', z'. auto.
  - rewrite (cell_sel_out sel L i' j' Ej') in Hz'. discriminate Hz'.
Qed.
Lemma has_conj_full_sel sel (L:tbl cplx) i j n : conj_local L -> nth_error sel j = Some n -> has_conj L i n -> has_conj (sel_cols None sel L) i j.
Proof.
  intros Hloc Hj Hc. destruct (Hloc i n Hc) as (z & i' & z' & Hz & Hz' & He).
  exists z. split; [rewrite (cell_sel sel L i j n Hj); exact Hz|].
  exists i', j, z'. split; [rewrite (cell_sel sel L i' j n Hj); exact Hz'|exact He].
Qed.

Section SEL.
Variable E EC : Type.
Variable mpc mpd : list (option E) -> option Q.

Lemma ssi_other_sel h (s:ssi_tabs E EC) sel i j n : cols_ok sel (sPhi s) -> nth_error sel j = Some n ->
  (ssi_other E EC mpc mpd h (sel_ssi sel s) i j <-> ssi_other E EC mpc mpd h s i n).
Proof.
  intros Hok Hj. unfold ssi_other, xi_ok, mpc_ok, mpd_ok, cov_ok. cbn [sel_ssi sXi sPhi sFnC].
  rewrite (cell_sel sel (sXi s) i j n Hj), (vget_sel3 sel (sPhi s) i j n Hok Hj).
  destruct (sFnC s) as [F0|]; cbn [option_map].
  - split; intros (H1 & H2 & H3 & H4); repeat split; try assumption.
    + intros F EF. inversion EF; subst F. specialize (H4 _ eq_refl). rewrite (cell_sel sel F0 i j n Hj) in H4. exact H4.
    + intros F EF. inversion EF; subst F. rewrite (cell_sel sel F0 i j n Hj). exact (H4 _ eq_refl).
  - split; intros (H1 & H2 & H3 & H4); repeat split; try assumption; intros F EF; discriminate EF.
Qed.
Lemma ssi_keep_sel_iff h (s:ssi_tabs E EC) sel i j n : cols_ok sel (sPhi s) -> nth_error sel j = Some n ->
  (ssi_keep E EC mpc mpd h (sel_ssi sel s) i j <-> ssi_keep_sel mpc mpd h sel s i j n).
Proof. intros Hok Hj. unfold ssi_keep, ssi_keep_sel. rewrite (ssi_other_sel h s sel i j n Hok Hj). reflexivity. Qed.

Lemma cell_spec_of_tbl {A} (K K':Prop) (t0 t:tbl A) sel i j n : nth_error sel j = Some n -> (K' <-> K) ->
  tbl_spec K' (sel_cols None sel t0) t i j -> cell_spec K (cell t0 i n) (cell t i j).
Proof. intros Hj HK H v. rewrite (H v), (cell_sel sel t0 i j n Hj), HK. reflexivity. Qed.
Lemma cell3_spec_of_tbl {X} (K K':Prop) (t0 t:tbl3 X) sel i j n : cols_ok sel t0 -> nth_error sel j = Some n -> (K' <-> K) ->
  tbl3_spec K' (sel_cols [] sel t0) t i j -> forall k, cell_spec K (cell3 t0 i n k) (cell3 t i j k).
Proof. intros Hok Hj HK H k v. rewrite (H k v), (cell3_sel sel t0 i j n k Hok Hj), HK. reflexivity. Qed.

(* SSI classes: run the mask sequence on the columns sel (ANY list of orders: 0, step, 2 step, ...; gaps; permuted;
   repeated) of an unfiltered table set.  Column j of every returned table holds exactly the poles of order n = sel[j]
   of the unfiltered solution that meet the criteria - the damping / MPC / MPD / covariance criteria of the pole itself
   (no reference to n, j or to any other column), the conjugate criterion among the eigenvalues handed over. *)
Theorem hc_sound_complete_ssi_sel : forall (h:hcrit) (s:ssi_tabs E EC) (sel:list nat), cols_ok sel (sPhi s) ->
  forall i j n, nth_error sel j = Some n ->
  let r := run_ssi E EC mpc mpd h (sel_ssi sel s) in
  let K := ssi_keep_sel mpc mpd h sel s i j n in
  cell_spec K (cell (sFn s) i n) (cell (sFn r) i j) /\ cell_spec K (cell (sXi s) i n) (cell (sXi r) i j)
  /\ (forall k, cell_spec K (cell3 (sPhi s) i n k) (cell3 (sPhi r) i j k))
  /\ cell_spec K (cell (sLam s) i n) (cell (sLam r) i j) /\ ocell_spec K (sXiC s) (sXiC r) i n j.
Proof.
  intros h s sel Hok i j n Hj r K.
  destruct (hc_sound_complete_ssi E EC mpc mpd h (sel_ssi sel s) i j) as (H1 & H2 & H3 & H4 & H5 & _).
  pose proof (ssi_keep_sel_iff h s sel i j n Hok Hj) as HK. cbn [sel_ssi sFn sXi sPhi sLam sXiC] in H1, H2, H3, H4, H5.
  refine (conj _ (conj _ (conj _ (conj _ _)))).
  - exact (cell_spec_of_tbl _ _ _ _ sel i j n Hj HK H1).
  - exact (cell_spec_of_tbl _ _ _ _ sel i j n Hj HK H2).
  - exact (cell3_spec_of_tbl _ _ _ _ sel i j n Hok Hj HK H3).
  - exact (cell_spec_of_tbl _ _ _ _ sel i j n Hj HK H4).
  - fold r in H5. unfold ocell_spec, otbl_spec in *. destruct (sXiC s) as [X0|]; cbn [option_map] in H5; destruct (sXiC r) as [X1|]; try exact H5.
    exact (cell_spec_of_tbl _ _ _ _ sel i j n Hj HK H5).
Qed.

(* when conjugates sit in the column of their pole, the restricted run is the restriction of the full criteria *)
Theorem hc_sound_complete_ssi_orders : forall (h:hcrit) (s:ssi_tabs E EC) (sel:list nat), cols_ok sel (sPhi s) ->
  conj_local (sLam s) -> forall i j n, nth_error sel j = Some n ->
  let r := run_ssi E EC mpc mpd h (sel_ssi sel s) in
  let K := ssi_keep E EC mpc mpd h s i n in
  cell_spec K (cell (sFn s) i n) (cell (sFn r) i j) /\ cell_spec K (cell (sXi s) i n) (cell (sXi r) i j)
  /\ (forall k, cell_spec K (cell3 (sPhi s) i n k) (cell3 (sPhi r) i j k))
  /\ cell_spec K (cell (sLam s) i n) (cell (sLam r) i j) /\ ocell_spec K (sXiC s) (sXiC r) i n j.
Proof.
  intros h s sel Hok Hloc i j n Hj r K.
  assert (HK: ssi_keep_sel mpc mpd h sel s i j n <-> K).
  { unfold ssi_keep_sel, K, ssi_keep. split; intros [Hc Ho]; (split; [|exact Ho]); intros Hon.
    - exact (has_conj_sel_full sel _ i j n Hj (Hc Hon)).
    - exact (has_conj_full_sel sel _ i j n Hloc Hj (Hc Hon)). }
  destruct (hc_sound_complete_ssi_sel h s sel Hok i j n Hj) as (H1 & H2 & H3 & H4 & H5). fold r in H1, H2, H3, H4, H5.
  assert (T: forall A (c0 c:option A), cell_spec (ssi_keep_sel mpc mpd h sel s i j n) c0 c -> cell_spec K c0 c)
    by (intros A c0 c H v; rewrite (H v), HK; reflexivity).
  refine (conj (T _ _ _ H1) (conj (T _ _ _ H2) (conj (fun k => T _ _ _ (H3 k)) (conj (T _ _ _ H4) _)))).
  unfold ocell_spec in *. destruct (sXiC s), (sXiC r); try exact H5. exact (T _ _ _ H5).
Qed.

End SEL.

Section SELPL.
Variable E : Type.
Variable mpc mpd : list (option E) -> option Q.
Lemma pl_other_sel h (s:pl_tabs E) sel i j n : cols_ok sel (pPhi s) -> nth_error sel j = Some n ->
  (pl_other E mpc mpd h (sel_pl sel s) i j <-> pl_other E mpc mpd h s i n).
Proof.
  intros Hok Hj. unfold pl_other, xi_ok, mpc_ok, mpd_ok. cbn [sel_pl pXi pPhi].
  rewrite (cell_sel sel (pXi s) i j n Hj), (vget_sel3 sel (pPhi s) i j n Hok Hj). reflexivity.
Qed.
Theorem hc_sound_complete_pl_sel : forall (h:hcrit) (s:pl_tabs E) (sel:list nat), cols_ok sel (pPhi s) ->
  forall i j n, nth_error sel j = Some n ->
  let r := run_pl E mpc mpd h (sel_pl sel s) in
  let K := pl_keep_sel mpc mpd h sel s i j n in
  cell_spec K (cell (pFn s) i n) (cell (pFn r) i j) /\ cell_spec K (cell (pXi s) i n) (cell (pXi r) i j)
  /\ (forall k, cell_spec K (cell3 (pPhi s) i n k) (cell3 (pPhi r) i j k)).
Proof.
  intros h s sel Hok i j n Hj r K.
  destruct (hc_sound_complete_pl E mpc mpd h (sel_pl sel s) i j) as (H1 & H2 & H3).
  assert (HK: pl_keep E mpc mpd h (sel_pl sel s) i j <-> K).
  { unfold pl_keep, K, pl_keep_sel. rewrite (pl_other_sel h s sel i j n Hok Hj). reflexivity. }
  cbn [sel_pl pFn pXi pPhi] in H1, H2, H3.
  refine (conj _ (conj _ _)).
  - exact (cell_spec_of_tbl _ _ _ _ sel i j n Hj HK H1).
  - exact (cell_spec_of_tbl _ _ _ _ sel i j n Hj HK H2).
  - exact (cell3_spec_of_tbl _ _ _ _ sel i j n Hok Hj HK H3).
Qed.
End SELPL.

(* ===================================================================================================================
   E. the boolean form of the mirror-image structure (evaluated by the harness on real unfiltered tables) is sound
   =================================================================================================================== *)
Lemma qc_eqb_eq a b : qc_eqb a b = true -> a = b.
Proof. unfold qc_eqb. intros H. apply Qc_is_canon. apply Qeq_bool_iff. exact H. Qed.
Lemma cqc_eqb_eq (a b:QcCplx) : cqc_eqb a b = true -> a = b.
Proof.
  destruct a as [a1 a2], b as [b1 b2]. unfold cqc_eqb. cbn [fst snd]. intros H. apply andb_true_iff in H. destruct H as [H1 H2].
  rewrite (qc_eqb_eq _ _ H1), (qc_eqb_eq _ _ H2). reflexivity.
Qed.
Lemma shape_eqb_eq (a b:shape) : shape_eqb a b = true -> a = b.
Proof.
  revert b. induction a as [|x r IH]; intros [|y r'] H; cbn [shape_eqb] in H; try discriminate H; [reflexivity|].
  apply andb_true_iff in H. destruct H as [H1 H2]. rewrite (IH r' H2). f_equal.
  destruct x as [x|], y as [y|]; cbn [ocqc_eqb] in H1; try discriminate H1; [|reflexivity]. rewrite (cqc_eqb_eq _ _ H1). reflexivity.
Qed.
Lemma oqeqb_oqeq a b : oqeqb a b = true -> oqeq a b.
Proof. destruct a, b; cbn; try discriminate; [|exact (fun _ => I)]. intros H. apply Qeq_bool_iff. exact H. Qed.
Lemma In_idx nr nc i o : (i < nr)%nat -> (o < nc)%nat -> In (i, o) (idx nr nc).
Proof.
  intros Hi Ho. unfold idx. apply in_flat_map. exists i. split; [apply in_seq; lia|].
  apply in_map_iff. exists o. split; [reflexivity|apply in_seq; lia].
Qed.
Lemma boundb_cell {A} nr nc (t:tbl A) i o z : boundb nr nc t = true -> cell t i o = Some z -> (i < nr)%nat /\ (o < nc)%nat.
Proof.
  unfold boundb, cell, vget. intros H Hz. apply andb_true_iff in H. destruct H as [H1 H2]. apply Nat.leb_le in H1.
  destruct (nth_error t i) as [r|] eqn:Er; [|discriminate Hz].
  destruct (nth_error r o) as [c|] eqn:Eo; [|discriminate Hz].
  assert (Hi: (i < length t)%nat) by (apply nth_error_Some; congruence).
  assert (Ho: (o < length r)%nat) by (apply nth_error_Some; congruence).
  rewrite forallb_forall in H2. specialize (H2 r (nth_error_In _ _ Er)). apply Nat.leb_le in H2. lia.
Qed.
Lemma mirrorb_sound nr nc (L:tbl cplx) (P:tbl3 QcCplx) (F:option (tbl Q)) :
  boundb nr nc L = true -> mirrorb nr nc L P F = true ->
  forall i o, has_conj L i o ->
  exists i' o', mirror_cell L P i o i' o' /\ (forall F0, F = Some F0 -> oqeq (cell F0 i' o') (cell F0 i o)).
Proof.
  intros Hb Hm i o Hc. pose proof Hc as (z & Hz & _).
  destruct (boundb_cell nr nc L i o z Hb Hz) as [Hi Ho].
  unfold mirrorb in Hm. rewrite forallb_forall in Hm. specialize (Hm (i, o) (In_idx nr nc i o Hi Ho)). cbn [fst snd] in Hm.
  apply conj_okb_iff in Hc. rewrite Hc in Hm. cbn [negb orb] in Hm.
  apply existsb_exists in Hm. destruct Hm as ([i' o'] & _ & Hm). cbn [fst snd] in Hm.
  exists i', o'. unfold mirror_cellb in Hm. rewrite Hz in Hm.
  destruct (cell L i' o') as [z'|] eqn:Ez'; [|discriminate Hm].
  destruct (vget P i o) as [v|] eqn:Ev; [|discriminate Hm].
  destruct (vget P i' o') as [v'|] eqn:Ev'; [|discriminate Hm].
  destruct (ceqb z' (cconjq z)) eqn:H1; [|discriminate Hm].
  destruct (shape_eqb v' (conj_shape v)) eqn:H2; [|discriminate Hm]. pose proof Hm as H3.
  split.
  - exists z, z', v. rewrite <- (shape_eqb_eq _ _ H2). apply ceqb_iff in H1. repeat split; try assumption; try reflexivity; apply H1.
  - intros F0 EF. subst F. apply oqeqb_oqeq. exact H3.
Qed.
Theorem mirror_ssib_sound EC nr nc (s:ssi_tabs QcCplx EC) : mirror_ssib nr nc s = true -> mirror_ssi s.
Proof.
  unfold mirror_ssib. intros H. apply andb_true_iff in H. destruct H as [Hb Hm]. intros i o Hc.
  exact (mirrorb_sound nr nc _ _ _ Hb Hm i o Hc).
Qed.
Theorem mirror_plb_sound nr nc (s:pl_tabs QcCplx) : mirror_plb nr nc s = true -> mirror_pl s.
Proof.
  unfold mirror_plb. intros H. apply andb_true_iff in H. destruct H as [Hb Hm]. intros i o Hc.
  destruct (mirrorb_sound nr nc _ _ None Hb Hm i o Hc) as (i' & o' & H1 & _). exists i', o'. exact H1.
Qed.
