(* C03 - proofs about the reference / roving split (Model/M_split.v). *)
From Coq Require Import List Arith ZArith Lia ZifyBool Bool Permutation.
From PyOMA.Base Require Import Carrier.
From PyOMA.Model Require Import M_split.
Import ListNotations.

(* ---------- list.remove ---------- *)
Definition keep_not (x:nat) (l:list nat) := filter (fun y => negb (Nat.eqb x y)) l.

Lemma remove1_none x l : ~ In x l -> remove1 x l = None.
Proof.
  induction l as [|y t IH]; intros Hn; [reflexivity|]. cbn [remove1].
  destruct (Nat.eqb_spec x y) as [->|Hne]; [exfalso; apply Hn; left; reflexivity|].
  rewrite IH; [reflexivity|]. intros Hin; apply Hn; right; exact Hin.
Qed.

Lemma keep_not_id x l : ~ In x l -> keep_not x l = l.
Proof.
  induction l as [|y t IH]; intros Hn; [reflexivity|]. unfold keep_not in *. cbn [filter].
  destruct (Nat.eqb_spec x y) as [->|Hne]; [exfalso; apply Hn; left; reflexivity|]. cbn [negb].
  rewrite IH; [reflexivity|]. intros Hin; apply Hn; right; exact Hin.
Qed.

Lemma remove1_some x l : NoDup l -> In x l -> remove1 x l = Some (keep_not x l).
Proof.
  induction l as [|y t IH]; intros Hnd Hin; [destruct Hin|]. cbn [remove1]. unfold keep_not. cbn [filter].
  inversion Hnd as [|y' t' Hny Hndt]; subst.
  destruct (Nat.eqb_spec x y) as [->|Hne]; cbn [negb].
  - f_equal. symmetry. apply (keep_not_id y t Hny).
  - destruct Hin as [->|Hin]; [contradiction|]. rewrite (IH Hndt Hin). reflexivity.
Qed.

Lemma remove1_in x l l' : remove1 x l = Some l' -> In x l.
Proof.
  intros H. destruct (in_dec Nat.eq_dec x l) as [Hi|Hn]; [exact Hi|]. rewrite (remove1_none x l Hn) in H. discriminate.
Qed.

Lemma keep_not_in x l z : In z (keep_not x l) <-> In z l /\ z <> x.
Proof.
  unfold keep_not. rewrite filter_In. split; intros [H1 H2]; split; try exact H1.
  - destruct (Nat.eqb_spec x z); [discriminate|congruence].
  - destruct (Nat.eqb_spec x z); [congruence|reflexivity].
Qed.

Lemma keep_not_nodup x l : NoDup l -> NoDup (keep_not x l).
Proof. intros H. unfold keep_not. apply NoDup_filter. exact H. Qed.

Definition not_in_b (refl:list nat) (c:nat) : bool := negb (existsb (Nat.eqb c) refl).
Lemma not_in_b_spec refl c : not_in_b refl c = true <-> ~ In c refl.
Proof.
  unfold not_in_b. rewrite negb_true_iff. split.
  - intros H Hin. assert (E: existsb (Nat.eqb c) refl = true) by (apply existsb_exists; exists c; split; [exact Hin|apply Nat.eqb_refl]).
    congruence.
  - intros Hn. destruct (existsb (Nat.eqb c) refl) eqn:E; [|reflexivity].
    apply existsb_exists in E. destruct E as [z [Hz Hcz]]. apply Nat.eqb_eq in Hcz. subst z. contradiction.
Qed.

Lemma filter_keep_not r rs l :
  filter (not_in_b rs) (keep_not r l) = filter (not_in_b (r::rs)) l.
Proof.
  induction l as [|y t IH]; [reflexivity|]. unfold keep_not in *. cbn [filter].
  unfold not_in_b at 2. cbn [existsb].
  destruct (Nat.eqb_spec r y) as [->|Hne]; cbn [negb].
  - rewrite Nat.eqb_refl. cbn [orb negb]. exact IH.
  - destruct (Nat.eqb_spec y r) as [E|_]; [congruence|]. cbn [orb filter].
    change (negb (existsb (Nat.eqb y) rs)) with (not_in_b rs y).
    destruct (not_in_b rs y); rewrite IH; reflexivity.
Qed.

(* the loop of removals succeeds exactly on duplicate-free in-range lists and leaves the ascending complement *)
Lemma remove_all_some refs : forall l, NoDup l -> NoDup refs -> incl refs l ->
  remove_all refs l = Some (filter (not_in_b refs) l).
Proof.
  induction refs as [|r rs IH]; intros l Hl Hr Hi.
  - cbn [remove_all]. f_equal. clear. induction l as [|y t IH]; [reflexivity|]. cbn [filter]. unfold not_in_b at 1. cbn [existsb negb].
    rewrite <- IH at 1. reflexivity.
  - cbn [remove_all]. inversion Hr as [|r' rs' Hnr Hrs]; subst.
    rewrite (remove1_some r l Hl) by (apply Hi; left; reflexivity).
    rewrite IH.
    + f_equal. apply filter_keep_not.
    + apply keep_not_nodup; exact Hl.
    + exact Hrs.
    + intros z Hz. apply keep_not_in. split; [apply Hi; right; exact Hz|]. intros ->. contradiction.
Qed.

Lemma remove_all_ok_inv refs : forall l l', NoDup l -> remove_all refs l = Some l' -> NoDup refs /\ incl refs l.
Proof.
  induction refs as [|r rs IH]; intros l l' Hl H.
  - split; [constructor|intros z []].
  - cbn [remove_all] in H. destruct (remove1 r l) as [l1|] eqn:E1; [|discriminate].
    assert (Hin: In r l) by (eapply remove1_in; exact E1).
    rewrite (remove1_some r l Hl Hin) in E1. injection E1 as <-.
    destruct (IH _ _ (keep_not_nodup r l Hl) H) as [Hnd Hincl]. split.
    + constructor; [|exact Hnd]. intros Hr. apply Hincl in Hr. apply keep_not_in in Hr. destruct Hr as [_ Hr]. congruence.
    + intros z [<-|Hz]; [exact Hin|]. apply Hincl in Hz. apply keep_not_in in Hz. tauto.
Qed.

(* ---------- one setup ---------- *)
Section P.
Variable R:Type. Variable K:Ops R.

Definition valid_refs (n:nat) (refs:list Z) : Prop :=
  NoDup refs /\ (forall z, In z refs -> (0 <= z < Z.of_nat n)%Z) /\ refs <> [] /\ (length refs < n)%nat.

Lemma existsb_neg_false refs : (forall z, In z refs -> (0 <= z)%Z) -> existsb (fun z => Z.ltb z 0) refs = false.
Proof.
  intros H. destruct (existsb (fun z => Z.ltb z 0) refs) eqn:E; [|reflexivity].
  apply existsb_exists in E. destruct E as [z [Hz Hlt]]. apply H in Hz. lia.
Qed.

Lemma to_nat_nodup refs : (forall z, In z refs -> (0 <= z)%Z) -> NoDup refs -> NoDup (map Z.to_nat refs).
Proof.
  induction refs as [|a t IH]; intros Hp Hnd; [constructor|]. inversion Hnd as [|a' t' Hna Hndt]; subst. cbn [map]. constructor.
  - intros Hin. apply in_map_iff in Hin. destruct Hin as [b [Hb Hbt]].
    assert (a = b) by (assert (0 <= a)%Z by (apply Hp; left; reflexivity); assert (0 <= b)%Z by (apply Hp; right; exact Hbt); lia).
    subst b. contradiction.
  - apply IH; [intros z Hz; apply Hp; right; exact Hz|exact Hndt].
Qed.

(* the partition as a permutation of the channel list *)
Lemma split_perm refl n : NoDup refl -> (forall r, In r refl -> (r < n)%nat) ->
  Permutation (refl ++ roving_of n refl) (seq 0 n).
Proof.
  intros Hnd Hlt. unfold roving_of. change (fun c => negb (existsb (Nat.eqb c) refl)) with (not_in_b refl).
  apply NoDup_Permutation.
  - assert (G: forall (rs l:list nat), NoDup rs -> NoDup l -> (forall z, In z l -> ~ In z rs) -> NoDup (rs ++ l)).
    { induction rs as [|a t IHt]; intros l Hrs Hl Hd; [exact Hl|]. inversion Hrs as [|a' t' Hna Ht]; subst. cbn [app]. constructor.
      - intros Hin. apply in_app_or in Hin. destruct Hin as [Hin|Hin]; [contradiction|]. apply (Hd a Hin). left; reflexivity.
      - apply IHt; [exact Ht|exact Hl|]. intros z Hz Hzt. apply (Hd z Hz). right; exact Hzt. }
    apply G; [exact Hnd|apply NoDup_filter, seq_NoDup|]. intros z Hz. apply filter_In in Hz. destruct Hz as [_ Hb].
    apply not_in_b_spec in Hb. exact Hb.
  - apply seq_NoDup.
  - intros z. split.
    + intros Hin. apply in_app_or in Hin. destruct Hin as [Hin|Hin]; [apply in_seq; specialize (Hlt z Hin); lia|]. apply filter_In in Hin. tauto.
    + intros Hin. apply in_or_app. destruct (in_dec Nat.eq_dec z refl) as [Hi|Hn]; [left; exact Hi|right].
      apply filter_In. split; [exact Hin|]. apply not_in_b_spec. exact Hn.
Qed.

Lemma filter_length_lt refl n : NoDup refl -> incl refl (seq 0 n) ->
  (length (filter (not_in_b refl) (seq 0 n)) + length refl = n)%nat.
Proof.
  intros Hnd Hincl.
  assert (P: Permutation (refl ++ roving_of n refl) (seq 0 n)).
  { apply split_perm; [exact Hnd|]. intros r Hr. apply Hincl in Hr. apply in_seq in Hr. lia. }
  apply Permutation_length in P. rewrite app_length, seq_length in P. unfold roving_of in P.
  change (fun c => negb (existsb (Nat.eqb c) refl)) with (not_in_b refl) in P. lia.
Qed.

Lemma map_to_of refl : map Z.to_nat (map Z.of_nat refl) = refl.
Proof. rewrite map_map. rewrite <- (map_id refl) at 2. apply map_ext. intros a. apply Nat2Z.id. Qed.

(* split_spec: on a duplicate-free, in-range, non-empty, non-exhaustive reference list the split returns
   the reference channels in the LISTED order and the other channels in ASCENDING order, every record unchanged,
   and together they are a permutation of all channels (nothing lost, nothing duplicated). *)
Theorem split_spec n (y:list (list R)) (refl:list nat) :
  NoDup refl -> (forall r, In r refl -> (r < n)%nat) -> refl <> [] -> (length refl < n)%nat ->
  exists ref mov,
    split_one K n y (map Z.of_nat refl) = SplitOk (ref, mov) /\
    ref = map (chan K y) refl /\
    mov = map (chan K y) (roving_of n refl) /\
    (forall j t, (j < length refl)%nat -> nth t (nth j ref []) (o0 K) = nth (nth j refl 0%nat) (nth t y []) (o0 K)) /\
    (forall j t, (j < length (roving_of n refl))%nat ->
        nth t (nth j mov []) (o0 K) = nth (nth j (roving_of n refl) 0%nat) (nth t y []) (o0 K)) /\
    Permutation (ref ++ mov) (map (chan K y) (seq 0 n)).
Proof.
  intros Hnd Hlt Hne Hlen.
  assert (Hincl: incl refl (seq 0 n)) by (intros z Hz; apply in_seq; specialize (Hlt z Hz); lia).
  exists (map (chan K y) refl), (map (chan K y) (roving_of n refl)).
  assert (Hsamp: forall ids j t, (j < length ids)%nat ->
            nth t (nth j (map (chan K y) ids) []) (o0 K) = nth (nth j ids 0%nat) (nth t y []) (o0 K)).
  { intros ids j t Hj. rewrite nth_indep with (d':= chan K y 0%nat) by (rewrite map_length; exact Hj).
    rewrite map_nth. unfold chan.
    destruct (Nat.lt_ge_cases t (length y)) as [Ht|Ht].
    - rewrite nth_indep with (d':= (fun row => nth (nth j ids 0%nat) row (o0 K)) []) by (rewrite map_length; exact Ht).
      exact (map_nth (fun row => nth (nth j ids 0%nat) row (o0 K)) y [] t).
    - rewrite nth_overflow by (rewrite map_length; exact Ht). rewrite (nth_overflow y) by exact Ht.
      destruct (nth j ids 0%nat); reflexivity. }
  repeat split.
  - unfold split_one. rewrite existsb_neg_false by (intros z Hz; apply in_map_iff in Hz; destruct Hz as [a [<- _]]; lia).
    rewrite map_to_of. rewrite (remove_all_some refl (seq 0 n) (seq_NoDup n 0) Hnd Hincl).
    assert (Hl := filter_length_lt refl n Hnd Hincl).
    destruct (Nat.eqb_spec (length refl) 0) as [E|_]; [destruct refl; [congruence|discriminate]|].
    destruct (Nat.eqb_spec (length (filter (not_in_b refl) (seq 0 n))) 0) as [E|_]; [lia|].
    cbn [orb]. reflexivity.
  - intros j t Hj. apply Hsamp; exact Hj.
  - intros j t Hj. apply Hsamp; exact Hj.
  - rewrite <- map_app. apply Permutation_map. apply split_perm; assumption.
Qed.

(* split_err_spec: the split raises ValueError exactly when the reference list is not valid *)
Theorem split_err_spec n (y:list (list R)) (refs:list Z) :
  (exists s, split_one K n y refs = SplitOk s) <-> valid_refs n refs.
Proof.
  split.
  - intros [s H]. unfold split_one in H.
    destruct (existsb (fun z => Z.ltb z 0) refs) eqn:En; [discriminate|].
    destruct (remove_all (map Z.to_nat refs) (seq 0 n)) as [mov|] eqn:Er; [|discriminate].
    destruct (Nat.eqb_spec (length (map Z.to_nat refs)) 0) as [E0|N0]; [discriminate|].
    destruct (Nat.eqb_spec (length mov) 0) as [E1|N1]; [discriminate|].
    destruct (remove_all_ok_inv _ _ _ (seq_NoDup n 0) Er) as [Hnd Hincl].
    assert (Hpos: forall z, In z refs -> (0 <= z)%Z).
    { intros z Hz. destruct (Z.ltb_spec z 0) as [Hl|Hg]; [|exact Hg].
      assert (X: existsb (fun z => Z.ltb z 0) refs = true) by (apply existsb_exists; exists z; split; [exact Hz|lia]). congruence. }
    rewrite (remove_all_some _ _ (seq_NoDup n 0) Hnd Hincl) in Er. injection Er as <-.
    assert (Hl := filter_length_lt _ n Hnd Hincl). rewrite map_length in *.
    repeat split.
    + clear -Hnd. induction refs as [|a t IH]; [constructor|]. cbn [map] in Hnd. inversion Hnd as [|a' t' Hna Ht]; subst.
      constructor; [|apply IH; exact Ht]. intros Hin. apply Hna. apply in_map. exact Hin.
    + apply Hpos; assumption.
    + assert (In (Z.to_nat z) (seq 0 n)) by (apply Hincl, in_map; assumption). rewrite in_seq in *. specialize (Hpos z H0). lia.
    + intros ->. cbn in N0. congruence.
    + lia.
  - intros [Hnd [Hrng [Hne Hlen]]].
    assert (E: refs = map Z.of_nat (map Z.to_nat refs)).
    { rewrite map_map. rewrite <- (map_id refs) at 1. apply map_ext_in. intros a Ha. specialize (Hrng a Ha). lia. }
    destruct (split_spec n y (map Z.to_nat refs)) as [ref [mov [H _]]].
    + apply to_nat_nodup; [intros z Hz; apply Hrng; exact Hz|exact Hnd].
    + intros r Hr. apply in_map_iff in Hr. destruct Hr as [z [<- Hz]]. specialize (Hrng z Hz). lia.
    + destruct refs; [congruence|discriminate].
    + rewrite map_length. exact Hlen.
    + exists (ref, mov). rewrite E. exact H.
Qed.

Corollary split_value_error n (y:list (list R)) (refs:list Z) :
  ~ valid_refs n refs -> split_one K n y refs = SplitValueErr.
Proof.
  intros Hn. destruct (split_one K n y refs) as [s| |] eqn:E.
  - exfalso. apply Hn. apply (split_err_spec n y refs). exists s. exact E.
  - reflexivity.
  - exfalso. unfold split_one in E.
    destruct (existsb (fun z => Z.ltb z 0) refs); [discriminate|].
    destruct (remove_all (map Z.to_nat refs) (seq 0 n)); [|discriminate].
    destruct (Nat.eqb (length (map Z.to_nat refs)) 0 || Nat.eqb (length l) 0); discriminate.
Qed.

(* ---------- all setups ---------- *)
(* every setup valid and enough reference lists: the result is the list of the per-setup splits, setup order kept *)
Theorem pre_multisetup_spec : forall (data:list (nat * list (list R))) (refl:list (list nat)),
  (length data <= length refl)%nat ->
  (forall k, (k < length data)%nat ->
     let n := fst (nth k data (0%nat, [])) in let rf := nth k refl [] in
     NoDup rf /\ (forall r, In r rf -> (r < n)%nat) /\ rf <> [] /\ (length rf < n)%nat) ->
  pre_multisetup K data (map (map Z.of_nat) refl)
  = SplitOk (map (fun dr => (map (chan K (snd (fst dr))) (snd dr),
                             map (chan K (snd (fst dr))) (roving_of (fst (fst dr)) (snd dr))))
                 (combine data refl)).
Proof.
  induction data as [|[n y] ds IH]; intros refl Hlen Hv; [reflexivity|].
  destruct refl as [|r rs]; [cbn in Hlen; lia|]. cbn [map pre_multisetup combine fst snd].
  destruct (Hv 0%nat) as [H1 [H2 [H3 H4]]]; [cbn; lia|]. cbn [nth fst] in H1, H2, H3, H4.
  destruct (split_spec n y r H1 H2 H3 H4) as [ref [mov [Hs [-> [-> _]]]]]. rewrite Hs.
  rewrite IH.
  - reflexivity.
  - cbn in Hlen. lia.
  - intros k Hk. apply (Hv (S k)). cbn. lia.
Qed.

Theorem pre_multisetup_index_error : forall (data:list (nat * list (list R))) (refl:list (list Z)),
  (length refl < length data)%nat ->
  (forall k, (k < length refl)%nat -> valid_refs (fst (nth k data (0%nat, []))) (nth k refl [])) ->
  pre_multisetup K data refl = SplitIndexErr.
Proof.
  induction data as [|[n y] ds IH]; intros refl Hlen Hv; [cbn in Hlen; lia|].
  destruct refl as [|r rs]; [reflexivity|]. cbn [pre_multisetup].
  assert (V0: valid_refs n r) by (apply (Hv 0%nat); cbn; lia).
  apply (split_err_spec n y r) in V0. destruct V0 as [s Hs]. rewrite Hs.
  rewrite IH; [reflexivity|cbn in Hlen; lia|]. intros k Hk. apply (Hv (S k)). cbn. lia.
Qed.
End P.
