(* C04 - lemmas about the model of fdd.SD_PreGER (Model/M_preger_sd.v). *)
From Coq Require Import List Arith Bool Lia Ring Setoid Morphisms.
From PyOMA.Base Require Import Carrier FMat.
From PyOMA.Model Require Import M_preger_sd.
Import ListNotations.

(* ------------------------------------------------------------------ stacking *)
Lemma off_shift nm k : off nm (S k) = (nm 0 + off (fun j => nm (S j)) k)%nat.
Proof. induction k as [|k IH]; cbn [off]; [lia|]. cbn [off] in IH. rewrite IH. lia. Qed.

Lemma off_ext nm nm' k : (forall j, (j < k)%nat -> nm j = nm' j) -> off nm k = off nm' k.
Proof. induction k as [|k IH]; intros H; cbn [off]; [reflexivity|]. rewrite IH, H by (intros; try apply H; lia). reflexivity. Qed.

Lemma vpick_block {T:Type} (d:T) n : forall nm B k a, (k < n)%nat -> (a < nm k)%nat ->
  vpick d n nm B (off nm k + a) = B k a.
Proof.
  induction n as [|n IH]; intros nm B k a Hk Ha; [lia|].
  destruct k as [|k].
  - cbn [off vpick]. cbn [Nat.add]. destruct (Nat.ltb_spec a (nm 0%nat)) as [_|Hge]; [reflexivity|lia].
  - rewrite off_shift. cbn [vpick].
    destruct (Nat.ltb_spec (nm 0 + off (fun j => nm (S j)) k + a) (nm 0%nat)) as [Hlt|_]; [lia|].
    replace (nm 0 + off (fun j => nm (S j)) k + a - nm 0)%nat with (off (fun j => nm (S j)) k + a)%nat by lia.
    apply (IH (fun j => nm (S j)) (fun j => B (S j)) k a); [lia|exact Ha].
Qed.

(* every row below the reference block belongs to exactly one (setup, local row) pair, in setup order *)
Lemma off_cover n : forall nm r, (r < off nm n)%nat -> exists k a, (k < n)%nat /\ (a < nm k)%nat /\ r = (off nm k + a)%nat.
Proof.
  induction n as [|n IH]; intros nm r Hr; cbn [off] in Hr; [lia|].
  destruct (Nat.lt_ge_cases r (off nm n)) as [Hlt|Hge].
  - destruct (IH nm r Hlt) as (k & a & Hk & Ha & E). exists k, a. repeat split; [lia|exact Ha|exact E].
  - exists n, (r - off nm n)%nat. repeat split; lia.
Qed.

Lemma off_mono nm k n : (k <= n)%nat -> (off nm k <= off nm n)%nat.
Proof. induction 1 as [|m _ IH]; [lia|]. cbn [off]. lia. Qed.

Lemma off_block_bound nm k a n : (k < n)%nat -> (a < nm k)%nat -> (off nm k + a < off nm n)%nat.
Proof. intros Hk Ha. assert (H := off_mono nm (S k) n Hk). cbn [off] in H. lia. Qed.

Lemma off_unique nm k a k' a' : (a < nm k)%nat -> (a' < nm k')%nat -> (off nm k + a = off nm k' + a')%nat -> k = k' /\ a = a'.
Proof.
  intros Ha Ha' E. destruct (Nat.lt_trichotomy k k') as [H|[H|H]].
  - assert (M := off_mono nm (S k) k' H). cbn [off] in M. lia.
  - subst k'. split; [reflexivity|lia].
  - assert (M := off_mono nm (S k') k H). cbn [off] in M. lia.
Qed.

Section P.
Variable R:Type. Variable K:Ops R.
Hypothesis Rth : ring_theory (o0 K) (o1 K) (oadd K) (omul K) (osub K) (oopp K) (@eq R).
Add Ring RrP : Rth.
Local Open Scope K_scope.
Notation "0" := (o0 K) : K_scope. Notation "1" := (o1 K) : K_scope.
Infix "+" := (oadd K) : K_scope. Infix "*" := (omul K) : K_scope. Infix "-" := (osub K) : K_scope.

Notation setupG := (setupG R).
Notation fmat := (fmat R).

(* ------------------------------------------------------------------ sums over setups *)
Lemma ofnat_S n : ofnat K (S n) = ofnat K n + 1.
Proof. reflexivity. Qed.

Lemma sumn_const n c : sumn K n (fun _ => c) = ofnat K n * c.
Proof. induction n as [|n IH]; cbn [sumn]. - unfold ofnat; cbn [sumn]. ring. - rewrite IH, ofnat_S. ring. Qed.

Lemma sumn_upd n i c (f:nat->R) : (i < n)%nat ->
  sumn K n (fun k => if Nat.eqb k i then c * f k else f k) = sumn K n f + (c - 1) * f i.
Proof.
  induction n as [|n IH]; intros Hi; [lia|]. cbn [sumn].
  destruct (Nat.eqb_spec n i) as [->|Hne].
  - rewrite (sumn_ext R K i _ f).
    + ring.
    + intros k Hk. destruct (Nat.eqb_spec k i); [lia|reflexivity].
  - rewrite IH by lia. ring.
Qed.

Lemma gmean_const invn nr n (Gs:nat->setupG) (G:fmat) :
  (forall k, (k < n)%nat -> feq nr nr (Grr (Gs k)) G) -> ofnat K n * invn = 1 ->
  feq nr nr (gmean K invn n Gs) G.
Proof.
  intros HG Hn a b Ha Hb. unfold gmean, gsum.
  rewrite (sumn_ext R K n _ (fun _ => G a b)) by (intros k Hk; apply HG; assumption).
  rewrite sumn_const.
  transitivity ((ofnat K n * invn) * G a b); [ring|]. rewrite Hn. ring.
Qed.

(* ------------------------------------------------------------------ structure of the merged matrix *)
Lemma merge_with_ref M nr n nm T a b : (a < nr)%nat -> merge_with K M nr n nm T a b = M a b.
Proof. intros Ha. unfold merge_with. destruct (Nat.ltb_spec a nr); [reflexivity|lia]. Qed.

Lemma merge_with_rov M nr n nm T k a b : (k < n)%nat -> (a < nm k)%nat ->
  merge_with K M nr n nm T (nr + off nm k + a)%nat b = fmul K nr (T k) M a b.
Proof.
  intros Hk Ha. unfold merge_with, vstk.
  destruct (Nat.ltb_spec (nr + off nm k + a)%nat nr) as [Hlt|_]; [lia|].
  replace (nr + off nm k + a - nr)%nat with (off nm k + a)%nat by lia.
  apply (vpick_block 0 n nm (fun k0 a0 => fmul K nr (T k0) M a0 b) k a Hk Ha).
Qed.

Lemma rows_cover nr n nm r : (r < nr + off nm n)%nat ->
  (r < nr)%nat \/ exists k a, (k < n)%nat /\ (a < nm k)%nat /\ r = (nr + off nm k + a)%nat.
Proof.
  intros Hr. destruct (Nat.lt_ge_cases r nr) as [H|H]; [left; exact H|right].
  destruct (off_cover n nm (r - nr)%nat) as (k & a & Hk & Ha & E); [lia|].
  exists k, a. repeat split; [exact Hk|exact Ha|lia].
Qed.

Lemma merge_with_ext nr n nm nm' (M M':fmat) (T T':nat->fmat) :
  (forall k, (k < n)%nat -> nm k = nm' k) ->
  feq nr nr M M' ->
  (forall k, (k < n)%nat -> feq (nm k) nr (T k) (T' k)) ->
  feq (nr + off nm n)%nat nr (merge_with K M nr n nm T) (merge_with K M' nr n nm' T').
Proof.
  intros Hnm HM HT r c Hr Hc.
  destruct (rows_cover nr n nm r Hr) as [Hlt|(k & a & Hk & Ha & ->)].
  - rewrite !merge_with_ref by assumption. apply HM; assumption.
  - rewrite (merge_with_rov M nr n nm T k a c Hk Ha).
    rewrite (off_ext nm nm' k) by (intros j Hj; apply Hnm; lia).
    rewrite (merge_with_rov M' nr n nm' T' k a c Hk) by (rewrite <- Hnm by assumption; exact Ha).
    apply (fmul_ext R K (nm k) nr nr (T k) (T' k) M M'); [apply HT; assumption|exact HM|exact Ha|exact Hc].
Qed.

(* preger_structure: reference block = mean over setups of Grr; roving block k = Gmr(k).X(k).mean, rows in setup order;
   every row is one of these; nothing else. *)
Theorem preger_structure invn nr n (Gs:nat->setupG) (X:nat->fmat) :
  let nm := fun k => nmov (Gs k) in
  let M := gmean K invn n Gs in
  (forall a b, (a < nr)%nat -> merge K invn nr n Gs X a b = invn * sumn K n (fun i => Grr (Gs i) a b)) /\
  (forall k a b, (k < n)%nat -> (a < nm k)%nat ->
     merge K invn nr n Gs X (nr + off nm k + a)%nat b = fmul K nr (fmul K nr (Gmr (Gs k)) (X k)) M a b) /\
  (forall r, (r < merge_rows nr n Gs)%nat ->
     (r < nr)%nat \/ exists k a, (k < n)%nat /\ (a < nm k)%nat /\ r = (nr + off nm k + a)%nat) /\
  (forall k a k' a', (a < nm k)%nat -> (a' < nm k')%nat -> (nr + off nm k + a = nr + off nm k' + a')%nat -> k = k' /\ a = a') /\
  (forall k a, (k < n)%nat -> (a < nm k)%nat -> (nr + off nm k + a < merge_rows nr n Gs)%nat).
Proof.
  intros nm M. split; [|split; [|split; [|split]]].
  - intros a b Ha. unfold merge. rewrite merge_with_ref by assumption. reflexivity.
  - intros k a b Hk Ha. unfold merge. rewrite merge_with_rov by assumption. reflexivity.
  - intros r Hr. apply (rows_cover nr n nm r Hr).
  - intros k a k' a' Ha Ha' E. apply (off_unique nm k a k' a' Ha Ha'). lia.
  - intros k a Hk Ha. unfold merge_rows. assert (H := off_block_bound nm k a n Hk Ha). fold nm. lia.
Qed.

(* ------------------------------------------------------------------ transmissibilities *)
Lemma transm_invariant m nr (A A' G' X X':fmat) :
  feq m nr A' (fmul K nr (fmul K nr A X) G') -> feq nr nr (fmul K nr G' X') (fid K) ->
  feq m nr (fmul K nr A' X') (fmul K nr A X).
Proof.
  intros HA HX.
  apply (feq_trans R m nr _ (fmul K nr (fmul K nr (fmul K nr A X) G') X')).
  { apply (fmul_ext R K m nr nr); [exact HA|apply feq_refl]. }
  apply (feq_trans R m nr _ (fmul K nr (fmul K nr A X) (fmul K nr G' X'))).
  { apply (fmul_assoc R K Rth m nr nr nr). }
  apply (feq_trans R m nr _ (fmul K nr (fmul K nr A X) (fid K))).
  { apply (fmul_ext R K m nr nr); [apply feq_refl|exact HX]. }
  apply (fmul_id_r R K Rth m nr).
Qed.

Lemma transm_same m nr (A G X:fmat) :
  feq nr nr (fmul K nr X G) (fid K) -> feq m nr A (fmul K nr (fmul K nr A X) G).
Proof.
  intros HX. apply feq_sym.
  apply (feq_trans R m nr _ (fmul K nr A (fmul K nr X G))).
  { apply (fmul_assoc R K Rth m nr nr nr). }
  apply (feq_trans R m nr _ (fmul K nr A (fid K))).
  { apply (fmul_ext R K m nr nr); [apply feq_refl|exact HX]. }
  apply (fmul_id_r R K Rth m nr).
Qed.

Lemma transm_scaled m nr g2 (A G X:fmat) :
  feq nr nr (fmul K nr X G) (fid K) -> feq m nr (fscal K g2 A) (fmul K nr (fmul K nr A X) (fscal K g2 G)).
Proof.
  intros HX. apply feq_sym.
  apply (feq_trans R m nr _ (fscal K g2 (fmul K nr (fmul K nr A X) G))).
  { apply (fmul_scal_r R K Rth m nr nr). }
  intros i j Hi Hj. unfold fscal. f_equal. symmetry. apply (transm_same m nr A G X HX); assumption.
Qed.

(* the general replacement lemma: if every new setup has the old transmissibility (Gmr' = Gmr.X.Grr'), the merged
   matrix is the old transmissibilities applied to the new mean *)
Lemma merge_change invn nr n (Gs Gs':nat->setupG) (X X':nat->fmat) :
  (forall k, (k < n)%nat -> nmov (Gs' k) = nmov (Gs k)) ->
  (forall k, (k < n)%nat -> feq nr nr (fmul K nr (Grr (Gs' k)) (X' k)) (fid K)) ->
  (forall k, (k < n)%nat ->
     feq (nmov (Gs k)) nr (Gmr (Gs' k)) (fmul K nr (fmul K nr (Gmr (Gs k)) (X k)) (Grr (Gs' k)))) ->
  (forall k, (k < n)%nat -> feq (nmov (Gs k)) nr (transm K nr Gs' X' k) (transm K nr Gs X k)) /\
  feq (merge_rows nr n Gs) nr (merge K invn nr n Gs' X')
      (merge_with K (gmean K invn n Gs') nr n (fun k => nmov (Gs k)) (transm K nr Gs X)).
Proof.
  intros Hnm HX' HT.
  assert (HTr : forall k, (k < n)%nat -> feq (nmov (Gs k)) nr (transm K nr Gs' X' k) (transm K nr Gs X k)).
  { intros k Hk. unfold transm. apply (transm_invariant (nmov (Gs k)) nr (Gmr (Gs k)) (Gmr (Gs' k)) (Grr (Gs' k)) (X k) (X' k)).
    - apply HT; exact Hk.
    - apply HX'; exact Hk. }
  split; [exact HTr|].
  unfold merge, merge_rows.
  rewrite (off_ext (fun k => nmov (Gs k)) (fun k => nmov (Gs' k)) n) by (intros j Hj; symmetry; apply Hnm; exact Hj).
  apply merge_with_ext.
  - intros k Hk. apply Hnm; exact Hk.
  - apply feq_refl.
  - intros k Hk. rewrite Hnm by exact Hk. apply HTr; exact Hk.
Qed.

(* ------------------------------------------------------------------ identical reference spectra *)
Theorem preger_identical_refs invn nr n (Gs:nat->setupG) (X:nat->fmat) (G:fmat) :
  (forall k, (k < n)%nat -> feq nr nr (Grr (Gs k)) G) ->
  (forall k, (k < n)%nat -> inv_contract K nr (Grr (Gs k)) (X k)) ->
  ofnat K n * invn = 1 ->
  feq (merge_rows nr n Gs) nr (merge K invn nr n Gs X)
      (fun r c => if (r <? nr)%nat then G r c else vstk K n (fun k => nmov (Gs k)) (fun k => Gmr (Gs k)) (r - nr)%nat c).
Proof.
  intros HG HX Hn.
  assert (HM : feq nr nr (gmean K invn n Gs) G) by (apply gmean_const; assumption).
  intros r c Hr Hc. unfold merge.
  destruct (rows_cover nr n (fun k => nmov (Gs k)) r Hr) as [Hlt|(k & a & Hk & Ha & ->)].
  - rewrite merge_with_ref by exact Hlt. destruct (Nat.ltb_spec r nr); [|lia]. apply HM; assumption.
  - rewrite (merge_with_rov (gmean K invn n Gs) nr n (fun k0 => nmov (Gs k0)) (transm K nr Gs X) k a c Hk Ha).
    destruct (Nat.ltb_spec (nr + off (fun k0 => nmov (Gs k0)) k + a) nr) as [Hlt|_]; [lia|].
    replace (nr + off (fun k0 => nmov (Gs k0)) k + a - nr)%nat with (off (fun k0 => nmov (Gs k0)) k + a)%nat by lia.
    unfold vstk. rewrite (vpick_block 0 n (fun k0 => nmov (Gs k0)) (fun k0 a0 => Gmr (Gs k0) a0 c) k a Hk Ha).
    unfold transm.
    assert (E : feq (nmov (Gs k)) nr (fmul K nr (fmul K nr (Gmr (Gs k)) (X k)) (gmean K invn n Gs)) (Gmr (Gs k))).
    { apply (feq_trans R _ nr _ (fmul K nr (fmul K nr (Gmr (Gs k)) (X k)) (Grr (Gs k)))).
      - apply (fmul_ext R K (nmov (Gs k)) nr nr); [apply feq_refl|].
        apply (feq_trans R nr nr _ G); [exact HM|apply feq_sym; apply HG; exact Hk].
      - apply feq_sym. apply transm_same. apply (HX k Hk). }
    apply E; assumption.
Qed.

(* ------------------------------------------------------------------ well-definedness / congruence *)
Theorem preger_congr invn nr n (Gs Gs':nat->setupG) (X X':nat->fmat) :
  (forall k, (k < n)%nat -> nmov (Gs' k) = nmov (Gs k)) ->
  (forall k, (k < n)%nat -> feq nr nr (Grr (Gs' k)) (Grr (Gs k))) ->
  (forall k, (k < n)%nat -> feq (nmov (Gs k)) nr (Gmr (Gs' k)) (Gmr (Gs k))) ->
  (forall k, (k < n)%nat -> inv_contract K nr (Grr (Gs k)) (X k)) ->
  (forall k, (k < n)%nat -> inv_contract K nr (Grr (Gs' k)) (X' k)) ->
  feq (merge_rows nr n Gs) nr (merge K invn nr n Gs' X') (merge K invn nr n Gs X).
Proof.
  intros Hnm Hrr Hmr HX HX'.
  destruct (merge_change invn nr n Gs Gs' X X' Hnm) as [_ HM].
  - intros k Hk. apply (HX' k Hk).
  - intros k Hk.
    apply (feq_trans R _ nr _ (Gmr (Gs k))); [apply Hmr; exact Hk|].
    apply (feq_trans R _ nr _ (fmul K nr (fmul K nr (Gmr (Gs k)) (X k)) (Grr (Gs k)))).
    + apply transm_same. apply (HX k Hk).
    + apply (fmul_ext R K (nmov (Gs k)) nr nr); [apply feq_refl|apply feq_sym; apply Hrr; exact Hk].
  - apply (feq_trans R _ nr _ _ _ HM). unfold merge.
    apply merge_with_ext; [reflexivity| |intros; apply feq_refl].
    intros a b Ha Hb. unfold gmean, gsum. f_equal. apply sumn_ext. intros k Hk. apply Hrr; assumption.
Qed.

(* ------------------------------------------------------------------ per-setup gain *)
Theorem preger_gain invn nr n (Gs Gs':nat->setupG) (X X':nat->fmat) (i:nat) (g2:R) :
  (i < n)%nat ->
  (forall k, (k < n)%nat -> inv_contract K nr (Grr (Gs k)) (X k)) ->
  (forall k, (k < n)%nat -> inv_contract K nr (Grr (Gs' k)) (X' k)) ->
  (forall k, (k < n)%nat -> nmov (Gs' k) = nmov (Gs k)) ->
  (forall k, (k < n)%nat -> k <> i ->
     feq nr nr (Grr (Gs' k)) (Grr (Gs k)) /\ feq (nmov (Gs k)) nr (Gmr (Gs' k)) (Gmr (Gs k))) ->
  feq nr nr (Grr (Gs' i)) (fscal K g2 (Grr (Gs i))) ->
  feq (nmov (Gs i)) nr (Gmr (Gs' i)) (fscal K g2 (Gmr (Gs i))) ->
  let M := gmean K invn n Gs in
  let M' := fadd K M (fscal K ((g2 - 1) * invn) (Grr (Gs i))) in
  feq nr nr (gmean K invn n Gs') M' /\
  (forall k, (k < n)%nat -> feq (nmov (Gs k)) nr (transm K nr Gs' X' k) (transm K nr Gs X k)) /\
  feq (merge_rows nr n Gs) nr (merge K invn nr n Gs' X')
      (merge_with K M' nr n (fun k => nmov (Gs k)) (transm K nr Gs X)).
Proof.
  intros Hi HX HX' Hnm Hoth Hrr Hmr M M'.
  assert (HMean : feq nr nr (gmean K invn n Gs') M').
  { intros a b Ha Hb. unfold M', M, fadd, fscal, gmean, gsum.
    rewrite (sumn_ext R K n _ (fun k => if Nat.eqb k i then g2 * Grr (Gs k) a b else Grr (Gs k) a b)).
    - rewrite (sumn_upd n i g2 (fun k => Grr (Gs k) a b) Hi). ring.
    - intros k Hk. destruct (Nat.eqb_spec k i) as [->|Hne].
      + apply Hrr; assumption.
      + apply (proj1 (Hoth k Hk Hne)); assumption. }
  destruct (merge_change invn nr n Gs Gs' X X' Hnm) as [HT HM].
  - intros k Hk. apply (HX' k Hk).
  - intros k Hk. destruct (Nat.eq_dec k i) as [->|Hne].
    + apply (feq_trans R _ nr _ (fscal K g2 (Gmr (Gs i)))); [exact Hmr|].
      apply (feq_trans R _ nr _ (fmul K nr (fmul K nr (Gmr (Gs i)) (X i)) (fscal K g2 (Grr (Gs i))))).
      * apply transm_scaled. apply (HX i Hi).
      * apply (fmul_ext R K (nmov (Gs i)) nr nr); [apply feq_refl|apply feq_sym; exact Hrr].
    + destruct (Hoth k Hk Hne) as [Hr Hm].
      apply (feq_trans R _ nr _ (Gmr (Gs k))); [exact Hm|].
      apply (feq_trans R _ nr _ (fmul K nr (fmul K nr (Gmr (Gs k)) (X k)) (Grr (Gs k)))).
      * apply transm_same. apply (HX k Hk).
      * apply (fmul_ext R K (nmov (Gs k)) nr nr); [apply feq_refl|apply feq_sym; exact Hr].
  - split; [exact HMean|]. split; [exact HT|].
    apply (feq_trans R _ nr _ _ _ HM).
    apply merge_with_ext; [reflexivity|exact HMean|intros; apply feq_refl].
Qed.

(* all setups scaled by the same constant: the merged matrix is scaled by it (used to feed integer-scaled spectra) *)
Theorem preger_homogeneous invn nr n (Gs Gs':nat->setupG) (X X':nat->fmat) (c:R) :
  (forall k, (k < n)%nat -> inv_contract K nr (Grr (Gs k)) (X k)) ->
  (forall k, (k < n)%nat -> inv_contract K nr (Grr (Gs' k)) (X' k)) ->
  (forall k, (k < n)%nat -> nmov (Gs' k) = nmov (Gs k)) ->
  (forall k, (k < n)%nat -> feq nr nr (Grr (Gs' k)) (fscal K c (Grr (Gs k)))) ->
  (forall k, (k < n)%nat -> feq (nmov (Gs k)) nr (Gmr (Gs' k)) (fscal K c (Gmr (Gs k)))) ->
  feq (merge_rows nr n Gs) nr (merge K invn nr n Gs' X') (fscal K c (merge K invn nr n Gs X)).
Proof.
  intros HX HX' Hnm Hrr Hmr.
  destruct (merge_change invn nr n Gs Gs' X X' Hnm) as [_ HM].
  - intros k Hk. apply (HX' k Hk).
  - intros k Hk.
    apply (feq_trans R _ nr _ (fscal K c (Gmr (Gs k)))); [apply Hmr; exact Hk|].
    apply (feq_trans R _ nr _ (fmul K nr (fmul K nr (Gmr (Gs k)) (X k)) (fscal K c (Grr (Gs k))))).
    + apply transm_scaled. apply (HX k Hk).
    + apply (fmul_ext R K (nmov (Gs k)) nr nr); [apply feq_refl|apply feq_sym; apply Hrr; exact Hk].
  - apply (feq_trans R _ nr _ _ _ HM).
    assert (HMean : feq nr nr (gmean K invn n Gs') (fscal K c (gmean K invn n Gs))).
    { intros a b Ha Hb. unfold fscal, gmean, gsum.
      rewrite (sumn_ext R K n _ (fun k => c * Grr (Gs k) a b)) by (intros k Hk; apply Hrr; assumption).
      rewrite (sumn_scal R K Rth). ring. }
    intros r cc Hr Hc. unfold merge_rows in Hr.
    destruct (rows_cover nr n (fun k => nmov (Gs k)) r Hr) as [Hlt|(k & a & Hk & Ha & ->)].
    + unfold fscal at 1, merge. rewrite !merge_with_ref by exact Hlt. apply HMean; assumption.
    + unfold fscal at 1, merge.
      rewrite !(merge_with_rov _ nr n (fun k0 => nmov (Gs k0)) (transm K nr Gs X) k a cc Hk Ha).
      transitivity (fmul K nr (transm K nr Gs X k) (fscal K c (gmean K invn n Gs)) a cc).
      * apply (fmul_ext R K (nmov (Gs k)) nr nr); [apply feq_refl|exact HMean|exact Ha|exact Hc].
      * apply (fmul_scal_r R K Rth (nmov (Gs k)) nr nr); assumption.
Qed.

(* ------------------------------------------------------------------ division-free evaluation *)
(* for ANY inverse X meeting the contract: row denominator * merged entry = numerator entry *)
Theorem merge_ff_spec invn nr n (Gs:nat->setupG) (X A:nat->fmat) (d:nat->R) :
  (forall k, (k < n)%nat -> inv_contract K nr (Grr (Gs k)) (X k)) ->
  (forall k, (k < n)%nat -> feq nr nr (fmul K nr (Grr (Gs k)) (A k)) (fscal K (d k) (fid K))) ->
  ofnat K n * invn = 1 ->
  let nm := fun k => nmov (Gs k) in
  forall r c, (r < merge_rows nr n Gs)%nat -> (c < nr)%nat ->
    ff_merged_den K nr n nm (ofnat K n) d r * merge K invn nr n Gs X r c
    = ff_merged_num K nr n nm (gsum K n Gs) (ff_num K nr n Gs A) r c.
Proof.
  intros HX HA Hn nm r c Hr Hc. unfold merge_rows in Hr. fold nm in Hr.
  destruct (rows_cover nr n nm r Hr) as [Hlt|(k & a & Hk & Ha & ->)].
  - unfold ff_merged_den, ff_merged_num, merge. rewrite merge_with_ref by exact Hlt.
    destruct (Nat.ltb_spec r nr); [|lia]. unfold gmean.
    transitivity ((ofnat K n * invn) * gsum K n Gs r c); [ring|]. rewrite Hn. ring.
  - unfold ff_merged_den, ff_merged_num, merge. change (fun k0 => nmov (Gs k0)) with nm.
    rewrite (merge_with_rov (gmean K invn n Gs) nr n nm (transm K nr Gs X) k a c Hk Ha).
    destruct (Nat.ltb_spec (nr + off nm k + a) nr) as [Hlt|_]; [lia|].
    replace (nr + off nm k + a - nr)%nat with (off nm k + a)%nat by lia.
    unfold vstk.
    rewrite (vpick_block 0 n nm (fun k0 _ => d k0 * ofnat K n) k a Hk Ha).
    rewrite (vpick_block 0 n nm (fun k0 a0 => ff_num K nr n Gs A k0 a0 c) k a Hk Ha).
    (* A = d . X *)
    assert (HAX : feq nr nr (A k) (fscal K (d k) (X k))).
    { apply (feq_trans R nr nr _ (fmul K nr (fid K) (A k))); [apply feq_sym; apply (fmul_id_l R K Rth nr nr)|].
      apply (feq_trans R nr nr _ (fmul K nr (fmul K nr (X k) (Grr (Gs k))) (A k))).
      { apply (fmul_ext R K nr nr nr); [apply feq_sym; apply (HX k Hk)|apply feq_refl]. }
      apply (feq_trans R nr nr _ (fmul K nr (X k) (fmul K nr (Grr (Gs k)) (A k)))).
      { apply (fmul_assoc R K Rth nr nr nr nr). }
      apply (feq_trans R nr nr _ (fmul K nr (X k) (fscal K (d k) (fid K)))).
      { apply (fmul_ext R K nr nr nr); [apply feq_refl|apply HA; exact Hk]. }
      apply (feq_trans R nr nr _ (fscal K (d k) (fmul K nr (X k) (fid K)))).
      { apply (fmul_scal_r R K Rth nr nr nr). }
      intros i j Hi Hj. unfold fscal. f_equal. apply (fmul_id_r R K Rth nr nr); assumption. }
    unfold ff_num, transm.
    assert (E1 : fmul K nr (fmul K nr (Gmr (Gs k)) (A k)) (gsum K n Gs) a c
                 = d k * fmul K nr (fmul K nr (Gmr (Gs k)) (X k)) (gsum K n Gs) a c).
    { transitivity (fmul K nr (fscal K (d k) (fmul K nr (Gmr (Gs k)) (X k))) (gsum K n Gs) a c).
      - apply (fmul_ext R K (nm k) nr nr); [|apply feq_refl|exact Ha|exact Hc].
        apply (feq_trans R _ nr _ (fmul K nr (Gmr (Gs k)) (fscal K (d k) (X k)))).
        + apply (fmul_ext R K (nm k) nr nr); [apply feq_refl|exact HAX].
        + apply (fmul_scal_r R K Rth (nm k) nr nr).
      - apply (fmul_scal_l R K Rth (nm k) nr nr); assumption. }
    rewrite E1.
    assert (E2 : fmul K nr (fmul K nr (Gmr (Gs k)) (X k)) (gmean K invn n Gs) a c
                 = invn * fmul K nr (fmul K nr (Gmr (Gs k)) (X k)) (gsum K n Gs) a c).
    { apply (fmul_scal_r R K Rth (nm k) nr nr invn (fmul K nr (Gmr (Gs k)) (X k)) (gsum K n Gs)); assumption. }
    rewrite E2.
    transitivity ((ofnat K n * invn) * (d k * fmul K nr (fmul K nr (Gmr (Gs k)) (X k)) (gsum K n Gs) a c)); [ring|].
    rewrite Hn. ring.
Qed.
End P.

(* ------------------------------------------------------------------ call structure *)
Section PC.
Variable R:Type. Variable K:Ops R.
Hypothesis Rth : ring_theory (o0 K) (o1 K) (oadd K) (omul K) (osub K) (oopp K) (@eq R).
Add Ring RrPC : Rth.
Local Open Scope K_scope.
Notation "1" := (o1 K) : K_scope.
Infix "+" := (oadd K) : K_scope. Infix "*" := (omul K) : K_scope. Infix "-" := (osub K) : K_scope.
Variable Rec : Type. Variable P : Type.
Variable csd csd' : P -> Rec -> Rec -> nat -> R.

(* the model of SD_PreGER is, by construction, the merge of the per-setup estimates made with the run parameters *)
Lemma preger_call_structure invn nr n (p:P) (Y:nat->setupD Rec) X f :
  sd_preger K csd invn nr n p Y X f = merge K invn nr n (fun k => setup_sd csd p f (Y k)) (X f).
Proof. reflexivity. Qed.

(* ... and it depends on (nxseg, pov, method) only through those estimates: two runs (other parameters, even another
   estimator) whose per-setup blocks agree give the same merged matrix, whichever inverses the kernel returned *)
Theorem preger_uses_run_params invn nr n (p p':P) (Y:nat->setupD Rec) (X X':nat->nat->fmat R) (f:nat) :
  (forall k a b, (k < n)%nat -> (a < nr)%nat -> (b < nr)%nat ->
     csd p (d_ref (Y k) a) (d_ref (Y k) b) f = csd' p' (d_ref (Y k) a) (d_ref (Y k) b) f) ->
  (forall k a b, (k < n)%nat -> (a < d_nmov (Y k))%nat -> (b < nr)%nat ->
     csd p (d_mov (Y k) a) (d_ref (Y k) b) f = csd' p' (d_mov (Y k) a) (d_ref (Y k) b) f) ->
  (forall k, (k < n)%nat -> inv_contract K nr (Grr (setup_sd csd p f (Y k))) (X f k)) ->
  (forall k, (k < n)%nat -> inv_contract K nr (Grr (setup_sd csd' p' f (Y k))) (X' f k)) ->
  feq (merge_rows nr n (fun k => setup_sd csd p f (Y k))) nr
      (sd_preger K csd' invn nr n p' Y X' f) (sd_preger K csd invn nr n p Y X f).
Proof.
  intros Hrr Hmr HX HX'. unfold sd_preger.
  apply (preger_congr R K Rth invn nr n (fun k => setup_sd csd p f (Y k)) (fun k => setup_sd csd' p' f (Y k)) (X f) (X' f)).
  - intros k Hk. reflexivity.
  - intros k Hk a b Ha Hb. cbn [setup_sd Grr]. unfold sd_est. symmetry. apply Hrr; assumption.
  - intros k Hk a b Ha Hb. cbn [setup_sd Gmr nmov] in *. unfold sd_est. symmetry. apply Hmr; assumption.
  - exact HX.
  - exact HX'.
Qed.

(* all setups cut from one simultaneous recording: the merged matrix is the single-setup cross-spectral matrix of
   (references, roving sensors in setup order) against the references, at the same line *)
Theorem preger_simultaneous invn nr n (p:P) (Y:nat->setupD Rec) (X:nat->nat->fmat R) (ref:nat->Rec) (f:nat) :
  (forall k a, (k < n)%nat -> (a < nr)%nat -> d_ref (Y k) a = ref a) ->
  (forall k, (k < n)%nat -> inv_contract K nr (Grr (setup_sd csd p f (Y k))) (X f k)) ->
  ofnat K n * invn = 1 ->
  feq (merge_rows nr n (fun k => setup_sd csd p f (Y k))) nr
      (sd_preger K csd invn nr n p Y X f) (sd_est csd p (all_sensors nr n ref Y) ref f).
Proof.
  intros Href HX Hn. unfold sd_preger.
  set (Gs := fun k => setup_sd csd p f (Y k)).
  assert (HG : forall k, (k < n)%nat -> feq nr nr (Grr (Gs k)) (sd_est csd p ref ref f)).
  { intros k Hk a b Ha Hb. unfold Gs. cbn [setup_sd Grr]. unfold sd_est. rewrite !Href by assumption. reflexivity. }
  intros r c Hr Hc.
  rewrite (preger_identical_refs R K Rth invn nr n Gs (X f) (sd_est csd p ref ref f) HG HX Hn r c Hr Hc).
  unfold sd_est, all_sensors. unfold merge_rows in Hr.
  destruct (rows_cover nr n (fun k => nmov (Gs k)) r Hr) as [Hlt|(k & a & Hk & Ha & ->)].
  - destruct (Nat.ltb_spec r nr); [reflexivity|lia].
  - destruct (Nat.ltb_spec (nr + off (fun k0 => nmov (Gs k0)) k + a) nr) as [Hlt|_]; [lia|].
    replace (nr + off (fun k0 => nmov (Gs k0)) k + a - nr)%nat with (off (fun k0 => nmov (Gs k0)) k + a)%nat by lia.
    unfold vstk. rewrite (vpick_block (o0 K) n (fun k0 => nmov (Gs k0)) (fun k0 a0 => Gmr (Gs k0) a0 c) k a Hk Ha).
    change (fun k0 => nmov (Gs k0)) with (fun k0 => d_nmov (Y k0)) in *.
    rewrite (vpick_block (ref 0%nat) n (fun k0 => d_nmov (Y k0)) (fun k0 a0 => d_mov (Y k0) a0) k a Hk Ha).
    unfold Gs. cbn [setup_sd Gmr]. unfold sd_est. rewrite Href by assumption. reflexivity.
Qed.

(* one setup's channels all multiplied by a constant g (csd homogeneous of degree 2: csd (g x) (g y) = g2 csd x y):
   the merged matrix is the SAME transmissibilities applied to the new mean, mean' = mean + (g2-1)/n Grr(i) *)
Theorem preger_gain_data invn nr n (p:P) (Y:nat->setupD Rec) (X X':nat->nat->fmat R) (i:nat) (g2:R) (scal:Rec->Rec) (f:nat) :
  (i < n)%nat ->
  (forall x y, csd p (scal x) (scal y) f = g2 * csd p x y f) ->
  let Y' := fun k => if Nat.eqb k i then scaleD scal (Y k) else Y k in
  let Gs := fun k => setup_sd csd p f (Y k) in
  (forall k, (k < n)%nat -> inv_contract K nr (Grr (Gs k)) (X f k)) ->
  (forall k, (k < n)%nat -> inv_contract K nr (Grr (setup_sd csd p f (Y' k))) (X' f k)) ->
  let M' := fadd K (gmean K invn n Gs) (fscal K ((g2 - 1) * invn) (Grr (Gs i))) in
  feq (merge_rows nr n Gs) nr (sd_preger K csd invn nr n p Y' X' f)
      (merge_with K M' nr n (fun k => d_nmov (Y k)) (transm K nr Gs (X f))).
Proof.
  intros Hi Hsc Y' Gs HX HX' M'. unfold sd_preger.
  apply (preger_gain R K Rth invn nr n Gs (fun k => setup_sd csd p f (Y' k)) (X f) (X' f) i g2 Hi HX HX').
  - intros k Hk. unfold Y', Gs. destruct (Nat.eqb k i); reflexivity.
  - intros k Hk Hne. unfold Y', Gs. destruct (Nat.eqb_spec k i) as [E|_]; [contradiction|]. split; apply feq_refl.
  - unfold Y', Gs. rewrite Nat.eqb_refl. intros a b Ha Hb. cbn [setup_sd scaleD Grr d_ref]. unfold fscal, sd_est. apply Hsc.
  - unfold Y', Gs. rewrite Nat.eqb_refl. intros a b Ha Hb. cbn [setup_sd scaleD Gmr d_ref d_mov]. unfold fscal, sd_est. apply Hsc.
Qed.
End PC.

(* ------------------------------------------------------------------ the executable model *)
Section PX.
Variable R:Type. Variable K:Ops R.
Hypothesis Rth : ring_theory (o0 K) (o1 K) (oadd K) (omul K) (osub K) (oopp K) (@eq R).
Add Ring RrPX : Rth.
Local Open Scope K_scope.
Notation "0" := (o0 K) : K_scope. Notation "1" := (o1 K) : K_scope.
Infix "+" := (oadd K) : K_scope. Infix "*" := (omul K) : K_scope. Infix "-" := (osub K) : K_scope.
Variable eqbR : R -> R -> bool.

Definition skip (i a:nat) : nat := if (a <? i)%nat then a else S a.

Lemma del_nil {T:Type} i : del i (@nil T) = [].
Proof. destruct i; reflexivity. Qed.

Lemma nth_del {T:Type} (d:T) (l:list T) : forall i a, nth a (del i l) d = nth (skip i a) l d.
Proof.
  induction l as [|x l IH]; intros i a.
  - rewrite del_nil. unfold skip. destruct (a <? i)%nat; destruct a; reflexivity.
  - destruct i as [|i]; cbn [del].
    + unfold skip. cbn [Nat.ltb Nat.leb]. reflexivity.
    + destruct a as [|a]; [reflexivity|]. cbn [nth]. rewrite IH. unfold skip.
      change (S a <? S i)%nat with (a <? i)%nat. destruct (a <? i)%nat; reflexivity.
Qed.

Lemma ent_minor (A:list (list R)) i j a b : ent K (minor i j A) a b = ent K A (skip i a) (skip j b).
Proof.
  unfold ent, minor.
  replace (nth a (map (del j) (del i A)) []) with (del j (nth a (del i A) [])).
  - rewrite nth_del. rewrite nth_del. reflexivity.
  - rewrite <- (map_nth (del j)). rewrite del_nil. reflexivity.
Qed.

(* the adjugate formula is exact for the sizes the property allows (1..3 reference channels) *)
Lemma adj_right nr (A:list (list R)) : (nr <= 3)%nat ->
  feq nr nr (fmul K nr (fm_of K A) (fm_of K (adj K nr A))) (fscal K (det K nr A) (fid K)).
Proof.
  intros Hn i j Hi Hj.
  destruct nr as [|[|[|[|nr]]]]; [lia| | | |lia];
  unfold fmul, fm_of, adj, fscal, fid;
  repeat (destruct i as [|i]; [|try lia]); repeat (destruct j as [|j]; [|try lia]);
  cbn [sumn]; rewrite ?ent_tab2 by lia; cbn [det sumn pred Nat.add sgn Nat.even Nat.eqb];
  rewrite ?ent_minor; cbn [skip Nat.ltb Nat.leb det sumn sgn Nat.even]; rewrite ?ent_minor; cbn [skip Nat.ltb Nat.leb];
  try ring.
Qed.

Lemma adj_left nr (A:list (list R)) : (nr <= 3)%nat ->
  feq nr nr (fmul K nr (fm_of K (adj K nr A)) (fm_of K A)) (fscal K (det K nr A) (fid K)).
Proof.
  intros Hn i j Hi Hj.
  destruct nr as [|[|[|[|nr]]]]; [lia| | | |lia];
  unfold fmul, fm_of, adj, fscal, fid;
  repeat (destruct i as [|i]; [|try lia]); repeat (destruct j as [|j]; [|try lia]);
  cbn [sumn]; rewrite ?ent_tab2 by lia; cbn [det sumn pred Nat.add sgn Nat.even Nat.eqb];
  rewrite ?ent_minor; cbn [skip Nat.ltb Nat.leb det sumn sgn Nat.even]; rewrite ?ent_minor; cbn [skip Nat.ltb Nat.leb];
  try ring.
Qed.

(* ---- list level = tab2 of the function level ---- *)
Lemma nth_map_in {A B:Type} (f:A->B) (l:list A) (d:A) (d':B) k : (k < List.length l)%nat -> nth k (map f l) d' = f (nth k l d).
Proof. intros Hk. rewrite (nth_indep (map f l) d' (f d)) by (rewrite map_length; exact Hk). apply map_nth. Qed.

Lemma nth_map_seq {B:Type} (f:nat->B) (d':B) n k : (k < n)%nat -> nth k (map f (seq 0 n)) d' = f k.
Proof. intros Hk. rewrite (nth_map_in f (seq 0 n) 0%nat d' k) by (rewrite seq_length; exact Hk). rewrite seq_nth by exact Hk. reflexivity. Qed.

Lemma ff_merged_num_ext nr n nm (M M':fmat R) (Nk Nk':nat->fmat R) :
  feq nr nr M M' -> (forall k, (k < n)%nat -> feq (nm k) nr (Nk k) (Nk' k)) ->
  feq (nr + off nm n)%nat nr (ff_merged_num K nr n nm M Nk) (ff_merged_num K nr n nm M' Nk').
Proof.
  intros HM HN r c Hr Hc. unfold ff_merged_num.
  destruct (rows_cover nr n nm r Hr) as [Hlt|(k & a & Hk & Ha & ->)].
  - destruct (Nat.ltb_spec r nr); [|lia]. apply HM; assumption.
  - destruct (Nat.ltb_spec (nr + off nm k + a) nr) as [Hlt|_]; [lia|].
    replace (nr + off nm k + a - nr)%nat with (off nm k + a)%nat by lia. unfold vstk.
    rewrite (vpick_block 0 n nm (fun k0 a0 => Nk k0 a0 c) k a Hk Ha).
    rewrite (vpick_block 0 n nm (fun k0 a0 => Nk' k0 a0 c) k a Hk Ha).
    apply HN; assumption.
Qed.

Lemma vpick_ext {T:Type} (d:T) q : forall (B B':nat->nat->T) nm1 m1,
  (forall k0 a0, (k0 < q)%nat -> B k0 a0 = B' k0 a0) -> vpick d q nm1 B m1 = vpick d q nm1 B' m1.
Proof.
  induction q as [|q IH]; intros B B' nm1 m1 HB; [reflexivity|]. cbn [vpick].
  destruct (m1 <? nm1 0%nat)%nat; [apply HB; lia|]. apply IH. intros k0 a0 Hk0. apply HB. lia.
Qed.

Definition Gs_of (L:list (setupL R)) : nat -> setupG R := fun k => setup_of K (nthS L k).
Definition A_of (nr:nat) (L:list (setupL R)) : nat -> fmat R := fun k => fm_of K (adj K nr (fst (nthS L k))).
Definition d_of (nr:nat) (L:list (setupL R)) : nat -> R := fun k => det K nr (fst (nthS L k)).

(* the tables computed by ff_tab are the function-level numerators and denominators *)
Lemma ff_tab_spec docert nr (L:list (setupL R)) :
  let n := List.length L in let Gs := Gs_of L in let nm := fun k => nmov (Gs k) in
  forall r c, (r < merge_rows nr n Gs)%nat -> (c < nr)%nat ->
    ent K (ff_numt (ff_tab K eqbR docert nr L)) r c
      = ff_merged_num K nr n nm (gsum K n Gs) (ff_num K nr n Gs (A_of nr L)) r c /\
    lget K (ff_dent (ff_tab K eqbR docert nr L)) r = ff_merged_den K nr n nm (ofnat K n) (d_of nr L) r.
Proof.
  intros n Gs nm r c Hr Hc. unfold ff_tab. cbn [ff_numt ff_dent]. fold n. fold (Gs_of L). fold Gs. fold nm.
  split.
  - rewrite ent_tab2 by assumption.
    apply (ff_merged_num_ext nr n nm); [| |exact Hr|exact Hc].
    + intros a b Ha Hb. unfold fm_of. apply ent_tab2; assumption.
    + intros k Hk a b Ha Hb. rewrite (nth_map_seq _ [] n k Hk). unfold fm_of at 1. rewrite ent_tab2 by assumption.
      unfold ff_num.
      apply (fmul_ext R K (nm k) nr nr); [| |exact Ha|exact Hb].
      * intros a' b' Ha' Hb'. rewrite (nth_map_seq _ [] n k Hk). unfold fm_of at 1. rewrite ent_tab2 by assumption.
        apply (fmul_ext R K (nm k) nr nr); [apply feq_refl| |exact Ha'|exact Hb'].
        intros x y _ _. unfold A_of, nthS. rewrite (nth_map_in _ L ([],[]) [] k Hk). reflexivity.
      * intros a' b' Ha' Hb'. unfold fm_of. apply ent_tab2; assumption.
  - rewrite (lget_tab R K _ _ r Hr). unfold ff_merged_den.
    destruct (r <? nr)%nat; [reflexivity|].
    apply vpick_ext. intros k0 a0 Hk0. unfold d_of, nthS. rewrite (nth_map_in _ L ([],[]) 0 k0 Hk0). reflexivity.
Qed.

(* soundness of the executed comparison: for 1..3 references, any inverse meeting the contract and n.invn = 1,
   (row denominator computed by ff_tab) . (merged entry) = (numerator computed by ff_tab) *)
Theorem ff_tab_sound docert nr (L:list (setupL R)) invn (X:nat->fmat R) :
  (nr <= 3)%nat ->
  let n := List.length L in let Gs := Gs_of L in
  (forall k, (k < n)%nat -> inv_contract K nr (Grr (Gs k)) (X k)) ->
  ofnat K n * invn = 1 ->
  forall r c, (r < merge_rows nr n Gs)%nat -> (c < nr)%nat ->
    lget K (ff_dent (ff_tab K eqbR docert nr L)) r * merge K invn nr n Gs X r c
      = ent K (ff_numt (ff_tab K eqbR docert nr L)) r c.
Proof.
  intros Hnr n Gs HX Hn r c Hr Hc.
  destruct (ff_tab_spec docert nr L r c Hr Hc) as [E1 E2]. fold n in E1, E2. fold Gs in E1, E2.
  rewrite E1, E2.
  apply (merge_ff_spec R K Rth invn nr n Gs X (A_of nr L) (d_of nr L) HX); [|exact Hn|exact Hr|exact Hc].
  intros k Hk. unfold A_of, d_of, Gs, Gs_of. cbn [setup_of Grr]. apply (adj_right nr (fst (nthS L k)) Hnr).
Qed.

(* sizes of the merged matrix returned by merge_l: n_ref + sum of the roving counts rows, n_ref columns *)
Lemma merge_l_dims nr (L:list (setupL R)) M : merge_l K eqbR nr L = Ok M ->
  List.length M = merge_rows nr (List.length L) (Gs_of L) /\
  forall r, (r < merge_rows nr (List.length L) (Gs_of L))%nat -> List.length (nth r M []) = nr.
Proof.
  unfold merge_l. destruct (existsb (fun s => eqbR (det K nr (fst s)) 0) L); [discriminate|]. intros E. injection E as <-.
  unfold merge_tab. fold (Gs_of L). split.
  - apply tab2_length.
  - intros r Hr. rewrite nth_tab2 by exact Hr. apply tab_length.
Qed.

(* merge_l = tab2 of the function-level merge with the adjugate inverses and invn = 1/n of the carrier *)
Lemma merge_l_spec nr (L:list (setupL R)) M : merge_l K eqbR nr L = Ok M ->
  let n := List.length L in
  forall r c, (r < merge_rows nr n (Gs_of L))%nat -> (c < nr)%nat ->
    ent K M r c = merge K (oinv K (ofnat K n)) nr n (Gs_of L) (X_of K (invs_l K nr L)) r c.
Proof.
  unfold merge_l. destruct (existsb (fun s => eqbR (det K nr (fst s)) 0) L); [discriminate|]. intros E r c Hr Hc. injection E as <-.
  set (n := List.length L) in *. unfold merge_tab. fold n. fold (Gs_of L). rewrite ent_tab2 by assumption. unfold merge.
  apply (merge_with_ext R K nr n (fun k => nmov (Gs_of L k)) (fun k => nmov (Gs_of L k))); [reflexivity| | |exact Hr|exact Hc].
  - intros a b Ha Hb. unfold fm_of. apply ent_tab2; assumption.
  - intros k Hk a b Ha Hb. rewrite (nth_map_seq _ [] n k Hk). unfold fm_of at 1. apply ent_tab2; assumption.
Qed.
End PX.
