(* C17 - the damping (xi) row of the (f, xi) Jacobian of ssi.SSI_poles(calc_unc=True).

   The code forms, for one pole  lam_c = a + i b,  lam_d = c + i d  (lam_d = exp(dt lam_c)):
       Mat1 = [[1/(2 pi), 0], [0, 100/|lam_c|^2]]
       Mat2 = [[a, b], [-(b^2), a b]]
       Mat3 = [[c, d], [-d, c]]
       Jfx_l = 1/(dt |lam_d|^2 |lam_c|) * (Mat1 Mat2 Mat3)            (2 x 2)
       Ufx   = Jfx_l [Re(d lam); Im(d lam)]                            d lam = x + i y
   Model/M_unc.v has the first row (jf_lin / jf_row); the second row is modelled HERE (jxi_lin / jxi_row) together with the
   whole 2 x 2 product (jfx_mat), so that both rows are tied to the matrix product the code executes.  The literal 100 of
   Mat1 is the argument [pct]; |lam_c| and 1/(2 pi) are the caller's kernels (witness values), as in jf_row.

   1 generic field:  row 0 / row 1 of the code's product applied to (x, y) are jf_row / jxi_row (jfx_rows);
                     jxi_row = pct * [ -Re(dlc) |lc|^2 + Re(lc) Re(conj(lc) dlc) ] / |lc|^3,  dlc = d lam / (lam_d dt)  (jxi_row_is)
   2 stdlib R:       that bracket is the derivative of t |-> -Re(lc(t))/|lc(t)| along ANY differentiable curve with
                     |lc(t0)| <> 0 (d_xi_curve), and the code's row is the derivative of pct * xi for any differentiable
                     branch lc of log(lam_d)/dt (jac_xi) - same structure as P_unc.jac_f. *)
From Coq Require Import List Arith Lia Ring Field.
From PyOMA.Base Require Import Carrier FMat Cplx.
From PyOMA.Model Require Import M_unc.
From PyOMA.Proofs Require Import P_unc.
Import ListNotations.

(* ================= model of the second row and of the 2 x 2 product (definitions only) ================= *)
Section XiModel.
Variable R:Type. Variable K:Ops R.
Local Open Scope K_scope.
Notation "0" := (o0 K) : K_scope. Notation "1" := (o1 K) : K_scope.
Infix "+" := (oadd K) : K_scope. Infix "*" := (omul K) : K_scope. Infix "-" := (osub K) : K_scope.
Notation "- x" := (oopp K x) : K_scope. Infix "/" := (odiv K) : K_scope.

(* 2 x 2 matrices as function matrices *)
Definition m22 (p q r s:R) : fmat R :=
  fun i j => match i, j with 0%nat, 0%nat => p | 0%nat, _ => q | _, 0%nat => r | _, _ => s end.
Definition jMat1 (inv2pi pct absc:R) : fmat R := m22 inv2pi 0 0 (pct / (absc * absc)).
Definition jMat2 (a b:R) : fmat R := m22 a b (- (b * b)) (a * b).
Definition jMat3 (c d:R) : fmat R := m22 c d (- d) c.
(* Jfx_l = 1/(dt |lam_d|^2 |lam_c|) * np.dot(np.dot(Mat1, Mat2), Mat3) *)
Definition jfx_mat (inv2pi pct dt absc a b c d:R) : fmat R :=
  fscal K (1 / (dt * (c*c + d*d) * absc)) (fmul K 2 (fmul K 2 (jMat1 inv2pi pct absc) (jMat2 a b)) (jMat3 c d)).

(* second row of Mat2 Mat3 applied to (x, y): entries as the matrix product forms them *)
Definition jxi_lin (a b c d x y:R) : R :=
  ((- (b * b)) * c + (a * b) * (- d)) * x + ((- (b * b)) * d + (a * b) * c) * y.
(* second row of Jfx_l applied to (x, y) = (Re, Im) d lam *)
Definition jxi_row (pct dt absc a b c d x y:R) : R :=
  pct / (absc * absc) * jxi_lin a b c d x y / (dt * (c*c + d*d) * absc).
End XiModel.
Arguments m22 {R} p q r s i j. Arguments jMat1 {R} K inv2pi pct absc. Arguments jMat2 {R} K a b. Arguments jMat3 {R} K c d.
Arguments jfx_mat {R} K inv2pi pct dt absc a b c d. Arguments jxi_lin {R} K a b c d x y.
Arguments jxi_row {R} K pct dt absc a b c d x y.

(* ================= generic field ================= *)
Section XiF.
Variable R:Type. Variable K:Ops R.
Hypothesis Fth : field_theory (o0 K) (o1 K) (oadd K) (omul K) (osub K) (oopp K) (odiv K) (oinv K) (@eq R).
Add Field FfXi : Fth.
Local Open Scope K_scope.
Notation "0" := (o0 K) : K_scope. Notation "1" := (o1 K) : K_scope.
Infix "+" := (oadd K) : K_scope. Infix "*" := (omul K) : K_scope. Infix "-" := (osub K) : K_scope.
Notation "- x" := (oopp K x) : K_scope. Infix "/" := (odiv K) : K_scope.

(* both rows of the code's product Jfx_l [x; y] are the modelled rows *)
Theorem jfx_rows (inv2pi pct dt absc a b c d x y:R) :
  dt <> 0 -> c*c + d*d <> 0 -> absc <> 0 ->
  mapply K 2 (jfx_mat K inv2pi pct dt absc a b c d) (fun k => match k with 0%nat => x | _ => y end) 0%nat
    = jf_row K inv2pi dt absc a b c d x y /\
  mapply K 2 (jfx_mat K inv2pi pct dt absc a b c d) (fun k => match k with 0%nat => x | _ => y end) 1%nat
    = jxi_row K pct dt absc a b c d x y.
Proof.
  intros H1 H2 H3.
  unfold mapply, jfx_mat, fscal, fmul, jMat1, jMat2, jMat3, m22, jf_row, jf_lin, jxi_row, jxi_lin. cbn [sumn].
  split; field; repeat split; assumption.
Qed.

(* the second row is pct * d(-Re(lc)/|lc|):  with dlc = dlam/(lam_d dt) = da + i db,
     d xi = [ -da |lc|^2 + a (a da + b db) ] / |lc|^3,     a da + b db = Re(conj(lc) dlc);
   absc is the caller's |lam_c|: any value whose square is a^2 + b^2 *)
Theorem jxi_row_is (pct dt absc a b c d x y:R) :
  dt <> 0 -> c*c + d*d <> 0 -> absc <> 0 -> absc * absc = a*a + b*b ->
  let da := (c*x + d*y) / (c*c + d*d) / dt in
  let db := (c*y - d*x) / (c*c + d*d) / dt in
  jxi_row K pct dt absc a b c d x y
  = pct * (((- da) * (absc * absc) + a * (a * da + b * db)) / (absc * absc * absc)).
Proof.
  intros H1 H2 H3 Habs. cbv zeta. unfold jxi_row, jxi_lin.
  assert (H4: a*a + b*b <> 0).
  { rewrite <- Habs. intros E. apply H3.
    assert (E2: absc = absc * absc / absc) by (field; exact H3). rewrite E2, E. field. exact H3. }
  rewrite !Habs. field. repeat split; assumption.
Qed.
End XiF.

(* ================= over the reals ================= *)
From Coq Require Import Reals Lra.
Local Open Scope R_scope.

(* what the implicit relation lam_d = exp(dt lam_c) says about the derivatives (as inside P_unc.jac_f) *)
Lemma branch_relations (dt t0:R) (a b c d : R -> R) (a' b' c' d':R) :
  (forall t, c t = exp (dt * a t) * cos (dt * b t)) ->
  (forall t, d t = exp (dt * a t) * sin (dt * b t)) ->
  derivable_pt_lim a t0 a' -> derivable_pt_lim b t0 b' -> derivable_pt_lim c t0 c' -> derivable_pt_lim d t0 d' ->
  c t0 * c' + d t0 * d' = dt * a' * (c t0 * c t0 + d t0 * d t0) /\
  c t0 * d' - d t0 * c' = dt * b' * (c t0 * c t0 + d t0 * d t0) /\
  c t0 * c t0 + d t0 * d t0 <> 0.
Proof.
  intros Hc Hd Da Db Dc Dd.
  assert (Ec: c' = dt * (a' * c t0 - b' * d t0)).
  { rewrite (Hc t0), (Hd t0). apply (uniqueness_limite c t0); [exact Dc|].
    apply (derivable_pt_lim_ext (fun t => exp (dt * a t) * cos (dt * b t))); [intros z; symmetry; apply Hc|].
    apply d_exp_cos; assumption. }
  assert (Ed: d' = dt * (a' * d t0 + b' * c t0)).
  { rewrite (Hc t0), (Hd t0). apply (uniqueness_limite d t0); [exact Dd|].
    apply (derivable_pt_lim_ext (fun t => exp (dt * a t) * sin (dt * b t))); [intros z; symmetry; apply Hd|].
    apply d_exp_sin; assumption. }
  split; [rewrite Ec, Ed; ring|]. split; [rewrite Ec, Ed; ring|].
  rewrite (Hc t0), (Hd t0).
  replace (exp (dt * a t0) * cos (dt * b t0) * (exp (dt * a t0) * cos (dt * b t0)) + exp (dt * a t0) * sin (dt * b t0) * (exp (dt * a t0) * sin (dt * b t0)))
    with (exp (dt * a t0) * exp (dt * a t0) * ((sin (dt * b t0))² + (cos (dt * b t0))²)) by (unfold Rsqr; ring).
  rewrite sin2_cos2. pose proof (exp_pos (dt * a t0)). nra.
Qed.

(* the damping ratio along ANY differentiable curve lc(t) = a(t) + i b(t) with |lc(t0)| <> 0:
   d/dt ( -Re(lc)/|lc| ) = [ -Re(lc') |lc|^2 + Re(lc) Re(conj(lc) lc') ] / |lc|^3 *)
Theorem d_xi_curve (t0:R) (a b : R -> R) (a' b':R) :
  derivable_pt_lim a t0 a' -> derivable_pt_lim b t0 b' -> 0 < a t0 * a t0 + b t0 * b t0 ->
  let absc := sqrt (a t0 * a t0 + b t0 * b t0) in
  derivable_pt_lim (fun t => - a t / sqrt (a t * a t + b t * b t)) t0
    (((- a') * (absc * absc) + a t0 * (a t0 * a' + b t0 * b')) / (absc * absc * absc)).
Proof.
  intros Da Db Hpos absc.
  pose proof (derivable_pt_lim_plus _ _ _ _ _ (derivable_pt_lim_mult _ _ _ _ _ Da Da) (derivable_pt_lim_mult _ _ _ _ _ Db Db)) as Dh.
  pose proof (derivable_pt_lim_comp _ _ _ _ _ Dh (derivable_pt_lim_sqrt ((a * a + b * b)%F t0) Hpos)) as Ds.
  pose proof (derivable_pt_lim_opp _ _ _ Da) as Dn.
  assert (Hs: absc <> 0) by (apply Rgt_not_eq, sqrt_lt_R0, Hpos).
  assert (Hs2: comp sqrt (a * a + b * b)%F t0 <> 0) by (unfold comp, plus_fct, mult_fct; exact Hs).
  pose proof (derivable_pt_lim_div _ _ _ _ _ Dn Ds Hs2) as Dq.
  apply (derivable_pt_lim_ext _ (fun t => - a t / sqrt (a t * a t + b t * b t))) in Dq;
    [| intros z; unfold div_fct, opp_fct, comp, plus_fct, mult_fct; reflexivity].
  replace (((- a') * (absc * absc) + a t0 * (a t0 * a' + b t0 * b')) / (absc * absc * absc))
    with ((- a' * comp sqrt (a * a + b * b)%F t0
           - / (2 * sqrt ((a * a + b * b)%F t0)) * (a' * a t0 + a t0 * a' + (b' * b t0 + b t0 * b')) * (- a)%F t0)
          / (comp sqrt (a * a + b * b)%F t0)²).
  - exact Dq.
  - unfold comp, plus_fct, mult_fct, opp_fct, Rsqr. fold absc. field. exact Hs.
Qed.

(* The (xi) row of the code's Jacobian IS the derivative of pct * xi, xi = -Re(lam_c)/|lam_c|, for any differentiable
   branch lam_c(t) = a(t) + i b(t) of log(lam_d(t))/dt  (exp(dt lam_c) = lam_d = c + i d) *)
Theorem jac_xi (pct dt t0:R) (a b c d : R -> R) (a' b' c' d':R) :
  dt <> 0 ->
  (forall t, c t = exp (dt * a t) * cos (dt * b t)) ->
  (forall t, d t = exp (dt * a t) * sin (dt * b t)) ->
  derivable_pt_lim a t0 a' -> derivable_pt_lim b t0 b' -> derivable_pt_lim c t0 c' -> derivable_pt_lim d t0 d' ->
  0 < a t0 * a t0 + b t0 * b t0 ->
  derivable_pt_lim (fun t => pct * (- a t / sqrt (a t * a t + b t * b t))) t0
    (jxi_row ROps17 pct dt (sqrt (a t0 * a t0 + b t0 * b t0)) (a t0) (b t0) (c t0) (d t0) c' d').
Proof.
  intros Hdt Hc Hd Da Db Dc Dd Hpos.
  destruct (branch_relations dt t0 a b c d a' b' c' d' Hc Hd Da Db Dc Dd) as (N1 & N2 & Hm).
  pose proof (d_xi_curve t0 a b a' b' Da Db Hpos) as Dx. cbv zeta in Dx.
  pose proof (derivable_pt_lim_scal _ pct _ _ Dx) as Df.
  apply (derivable_pt_lim_ext _ (fun t => pct * (- a t / sqrt (a t * a t + b t * b t)))) in Df;
    [| intros z; unfold mult_real_fct; reflexivity].
  assert (Hss: sqrt (a t0 * a t0 + b t0 * b t0) * sqrt (a t0 * a t0 + b t0 * b t0) = a t0 * a t0 + b t0 * b t0)
    by (apply sqrt_sqrt; lra).
  assert (Hs: sqrt (a t0 * a t0 + b t0 * b t0) <> 0) by (apply Rgt_not_eq, sqrt_lt_R0, Hpos).
  set (s := sqrt (a t0 * a t0 + b t0 * b t0)) in *. clearbody s.
  replace (jxi_row ROps17 pct dt s (a t0) (b t0) (c t0) (d t0) c' d')
    with (pct * (((- a') * (s * s) + a t0 * (a t0 * a' + b t0 * b')) / (s * s * s))).
  - exact Df.
  - unfold jxi_row, jxi_lin. cbn [oadd omul osub odiv oopp ROps17].
    replace ((- (b t0 * b t0) * c t0 + a t0 * b t0 * - d t0) * c' + (- (b t0 * b t0) * d t0 + a t0 * b t0 * c t0) * d')
      with ((- (b t0 * b t0) * a' + a t0 * b t0 * b') * dt * (c t0 * c t0 + d t0 * d t0))
      by (replace ((- (b t0 * b t0) * c t0 + a t0 * b t0 * - d t0) * c' + (- (b t0 * b t0) * d t0 + a t0 * b t0 * c t0) * d')
            with (- (b t0 * b t0) * (c t0 * c' + d t0 * d') + a t0 * b t0 * (c t0 * d' - d t0 * c')) by ring;
          rewrite N1, N2; ring).
    assert (Hb2: b t0 * b t0 = s * s - a t0 * a t0) by lra.
    rewrite Hb2. field. repeat split; assumption.
Qed.
