(* C03 - the modal level of the multi-setup identification (uses Base/EigCount.v).
   P_multi_ssi.v proves A_hat = T_0^-1 A T_0 and C_hat = C_global T_0.  Here: if the global system has a complete modal
   basis A Phi = Phi diag(lamg) (Phi two-sided invertible, lamg pairwise different), then every full eigen-decomposition
   (Psi, lam), Psii Psi = I, the eigen-solver returns for A_hat is, through a bijection sigma of the poles, the global one:
   lam_j = lamg_(sigma j), [lam_0 ..] is a Permutation of [lamg_0 ..], and column j of C_hat Psi is a non-zero multiple of
   the global mode shape C_global Phi[:, sigma j] (independent of the per-setup bases T k).
   Carrier: commutative ring without zero divisors, 1 <> 0, decidable equality (instantiate at the complexified carrier
   for complex poles: EigCount.cplx_integral). *)
From Coq Require Import List Arith Lia Ring Setoid Morphisms Permutation.
From PyOMA.Base Require Import Carrier FMat EigCount.
From PyOMA.Model Require Import M_multi_ssi.
From PyOMA.Proofs Require Import P_multi_ssi.
Import ListNotations.

Section C03count.
Variable R:Type. Variable K:Ops R.
Hypothesis Rth : ring_theory (o0 K) (o1 K) (oadd K) (omul K) (osub K) (oopp K) (@eq R).
Hypothesis Hint : forall a b:R, omul K a b = o0 K -> a = o0 K \/ b = o0 K.
Hypothesis H10 : o1 K <> o0 K.
Hypothesis Rdec : forall x y:R, {x = y} + {x <> y}.
Add Ring RrC03c : Rth.
Notation fm := (fmul K). Notation fI := (fid K).

(* conclusion shared by the two variants (QR route of the library, any left inverse of O_p) *)
Definition modal_match (l n:nat) (Chat Cg Phi Psi:fmat R) (lamg lam:nat -> R) : Prop :=
  (exists sigma : nat -> nat,
    (forall j, (j < n)%nat -> (sigma j < n)%nat) /\
    (forall i j, (i < n)%nat -> (j < n)%nat -> sigma i = sigma j -> i = j) /\
    (forall i, (i < n)%nat -> exists j, (j < n)%nat /\ sigma j = i) /\
    (forall j, (j < n)%nat -> lam j = lamg (sigma j)) /\
    (forall j, (j < n)%nat -> exists c:R, c <> o0 K /\
       forall i, (i < l)%nat -> fm n Chat Psi i j = omul K c (fm n Cg Phi i (sigma j)))) /\
  Permutation (tab n lam) (tab n lamg).

Lemma modal_match_of_similar l n (A Cg Ah Chat T Ti Phi Phii Psi Psii:fmat R) (lamg lam:nat -> R) :
  feq n n (fm n T Ti) fI -> feq n n (fm n Ti T) fI ->
  feq n n Ah (fm n Ti (fm n A T)) -> feq l n Chat (fm n Cg T) ->
  feq n n (fm n A Phi) (fm n Phi (ediag K lamg)) -> feq n n (fm n Phi Phii) fI -> feq n n (fm n Phii Phi) fI ->
  (forall i j, (i < n)%nat -> (j < n)%nat -> i <> j -> lamg i <> lamg j) ->
  feq n n (fm n Ah Psi) (fm n Psi (ediag K lam)) -> feq n n (fm n Psii Psi) fI ->
  modal_match l n Chat Cg Phi Psi lamg lam.
Proof.
  intros H1 H2 H3 H4 HPhi HPr HPl Hdist HV HWl.
  destruct (eig_count_similar R K Rth Hint H10 Rdec l n A Cg Ah Chat T Ti Phi Phii Psi Psii lamg lam
              H1 H2 H3 H4 HPhi HPr HPl Hdist HV HWl) as [sg [c [Hb [Hinj [Hsur [Hd [Hc HP]]]]]]].
  split; [|exact HP].
  exists sg. split; [exact Hb|split; [exact Hinj|split; [exact Hsur|split; [exact Hd|]]]].
  intros j Hj. destruct (Hc j Hj) as [Hc0 Hcol]. exists (c j). split; [exact Hc0|].
  intros i Hi. rewrite (Hcol i Hi). ring.
Qed.

Section Main.
Variables (br n_ref:nat) (nmov:list nat) (n:nat) (obs L:nat -> fmat R) (Cr A:fmat R) (Cm T Ti:nat -> fmat R).
Hypothesis Hobs : forall k, (k < length nmov)%nat ->
  feq (S br * (n_ref + nth k nmov 0%nat)) n (obs k)
      (fm n (obsv K n (n_ref + nth k nmov 0%nat) (stack n_ref Cr (Cm k)) A) (T k)).
Hypothesis HT : forall k, (k < length nmov)%nat -> feq n n (fm n (T k) (Ti k)) fI.
Hypothesis HT0 : feq n n (fm n (Ti 0%nat) (T 0%nat)) fI.
Hypothesis HL : forall k, (k < length nmov)%nat -> feq n n (fm (br * n_ref) (L k) (O_ref br n_ref nmov obs k)) fI.
Hypothesis Hset : (0 < length nmov)%nat.
Hypothesis Hbr : (1 <= br)%nat.
Hypothesis Href_pos : (0 < n_ref)%nat.
Variables (Phi Phii Psi Psii:fmat R) (lamg lam:nat -> R).
Hypothesis HPhi : feq n n (fm n A Phi) (fm n Phi (ediag K lamg)).
Hypothesis HPr : feq n n (fm n Phi Phii) fI.
Hypothesis HPl : feq n n (fm n Phii Phi) fI.
Hypothesis Hdist : forall i j, (i < n)%nat -> (j < n)%nat -> i <> j -> lamg i <> lamg j.
Hypothesis HWl : feq n n (fm n Psii Psi) fI.

(* the library's route: A_hat through the QR contract *)
Theorem ms_modal_qr (Q Rq Ri:fmat R) :
  feq ((br - 1) * nDOF n_ref nmov) n (obs_all K br n_ref nmov n obs L) (fm n Q Rq) ->
  feq n n (fm ((br - 1) * nDOF n_ref nmov) (ftr Q) Q) fI ->
  feq n n (fm n Ri Rq) fI ->
  feq n n (fm n (A_hat K br n_ref nmov n obs L Q Ri) Psi) (fm n Psi (ediag K lam)) ->
  modal_match (nDOF n_ref nmov) n (C_hat K br n_ref nmov n obs L) (C_global K n_ref nmov Cr Cm) Phi Psi lamg lam.
Proof.
  intros HQR HQ HR HV.
  pose proof (ms_A_similar R K Rth br n_ref nmov n obs L Cr A Cm T Ti Hobs HT HL Hset Hbr Q Rq Ri Href_pos HQR HQ HR) as HA.
  pose proof (ms_C_global R K Rth br n_ref nmov n obs L Cr A Cm T Ti Hobs HT HL Hset Hbr) as HC.
  apply (modal_match_of_similar (nDOF n_ref nmov) n A (C_global K n_ref nmov Cr Cm) _ _ (T 0%nat) (Ti 0%nat) Phi Phii Psi Psii lamg lam
           (HT 0%nat Hset) HT0 HA HC HPhi HPr HPl Hdist HV HWl).
Qed.

(* any left inverse of O_p (the routine the correspondence check executes) *)
Theorem ms_modal_linv (Lp:fmat R) :
  feq n n (fm ((br - 1) * nDOF n_ref nmov) Lp (obs_all K br n_ref nmov n obs L)) fI ->
  feq n n (fm n (A_of_linv K br n_ref nmov n obs L Lp) Psi) (fm n Psi (ediag K lam)) ->
  modal_match (nDOF n_ref nmov) n (C_hat K br n_ref nmov n obs L) (C_global K n_ref nmov Cr Cm) Phi Psi lamg lam.
Proof.
  intros HLp HV.
  pose proof (ms_A_similar_linv R K Rth br n_ref nmov n obs L Cr A Cm T Ti Hobs HT HL Hset Hbr Href_pos Lp HLp) as HA.
  pose proof (ms_C_global R K Rth br n_ref nmov n obs L Cr A Cm T Ti Hobs HT HL Hset Hbr) as HC.
  apply (modal_match_of_similar (nDOF n_ref nmov) n A (C_global K n_ref nmov Cr Cm) _ _ (T 0%nat) (Ti 0%nat) Phi Phii Psi Psii lamg lam
           (HT 0%nat Hset) HT0 HA HC HPhi HPr HPl Hdist HV HWl).
Qed.
End Main.
End C03count.

(* ---------- a concrete instance over Qc: global A = [[0,1],[-1/8,3/4]] (poles 1/2 and 1/4, modes (1, lam)), one reference
   sensor, two setups with one roving sensor each, br = 3, bases T_0 = 2 [[1,1],[0,1]], T_1 = 1/8 [[0,1],[1,0]];
   the solver output lists the poles in the other order with eigenvectors scaled by 2 and 3 ---------- *)
From Coq Require Import QArith Qcanon.
From PyOMA.Base Require Import Show.
Definition ec3_A : fmat Qc := fm_of QcOps [[q 0 1; q 1 1]; [q (-1) 8; q 3 4]].
Definition ec3_Cr : fmat Qc := fm_of QcOps [[q 1 1; q 0 1]].
Definition ec3_Cm (k:nat) : fmat Qc := match k with O => fm_of QcOps [[q 2 1; q 1 1]] | _ => fm_of QcOps [[q (-1) 1; q 3 1]] end.
Definition ec3_T (k:nat) : fmat Qc :=
  match k with O => fm_of QcOps [[q 2 1; q 2 1]; [q 0 1; q 2 1]] | _ => fm_of QcOps [[q 0 1; q 1 8]; [q 1 8; q 0 1]] end.
Definition ec3_Ti (k:nat) : fmat Qc :=
  match k with O => fm_of QcOps [[q 1 2; q (-1) 2]; [q 0 1; q 1 2]] | _ => fm_of QcOps [[q 0 1; q 8 1]; [q 8 1; q 0 1]] end.
Definition ec3_obs (k:nat) : fmat Qc := fmul QcOps 2 (obsv QcOps 2 2 (stack 1 ec3_Cr (ec3_Cm k)) ec3_A) (ec3_T k).
Definition ec3_L (k:nat) : fmat Qc :=
  match left_inv_l QcOps Qc_isz0 3 2 (O_ref 3 1 [1;1]%nat ec3_obs k) with Some l => fm_of QcOps l | None => fzero QcOps end.
Definition ec3_Lp : fmat Qc :=
  match left_inv_l QcOps Qc_isz0 6 2 (obs_all QcOps 3 1 [1;1]%nat 2 ec3_obs ec3_L) with Some l => fm_of QcOps l | None => fzero QcOps end.
Definition ec3_Phi : fmat Qc := fm_of QcOps [[q 1 1; q 1 1]; [q 1 2; q 1 4]].
Definition ec3_Phii : fmat Qc := fm_of QcOps [[q (-1) 1; q 4 1]; [q 2 1; q (-4) 1]].
Definition ec3_lamg (i:nat) : Qc := match i with O => q 1 2 | _ => q 1 4 end.
Definition ec3_lam (i:nat) : Qc := match i with O => q 1 4 | _ => q 1 2 end.
Definition ec3_Pm : fmat Qc := fm_of QcOps [[q 0 1; q 3 1]; [q 2 1; q 0 1]].
Definition ec3_Pmi : fmat Qc := fm_of QcOps [[q 0 1; q 1 2]; [q 1 3; q 0 1]].
Definition ec3_Psi : fmat Qc := fmul QcOps 2 (ec3_Ti 0%nat) (fmul QcOps 2 ec3_Phi ec3_Pm).
Definition ec3_Psii : fmat Qc := fmul QcOps 2 ec3_Pmi (fmul QcOps 2 ec3_Phii (ec3_T 0%nat)).

Lemma ec3_hyps :
  (forall k, (k < 2)%nat -> feq (4 * 2) 2 (ec3_obs k) (fmul QcOps 2 (obsv QcOps 2 2 (stack 1 ec3_Cr (ec3_Cm k)) ec3_A) (ec3_T k))) /\
  (forall k, (k < 2)%nat -> feq 2 2 (fmul QcOps 2 (ec3_T k) (ec3_Ti k)) (fid QcOps)) /\
  feq 2 2 (fmul QcOps 2 (ec3_Ti 0%nat) (ec3_T 0%nat)) (fid QcOps) /\
  (forall k, (k < 2)%nat -> feq 2 2 (fmul QcOps (3 * 1) (ec3_L k) (O_ref 3 1 [1;1]%nat ec3_obs k)) (fid QcOps)) /\
  feq 2 2 (fmul QcOps 2 ec3_A ec3_Phi) (fmul QcOps 2 ec3_Phi (ediag QcOps ec3_lamg)) /\
  feq 2 2 (fmul QcOps 2 ec3_Phi ec3_Phii) (fid QcOps) /\ feq 2 2 (fmul QcOps 2 ec3_Phii ec3_Phi) (fid QcOps) /\
  (forall i j, (i < 2)%nat -> (j < 2)%nat -> i <> j -> ec3_lamg i <> ec3_lamg j) /\
  feq 2 2 (fmul QcOps 2 ec3_Psii ec3_Psi) (fid QcOps) /\
  feq 2 2 (fmul QcOps ((3 - 1) * 3) ec3_Lp (obs_all QcOps 3 1 [1;1]%nat 2 ec3_obs ec3_L)) (fid QcOps) /\
  feq 2 2 (fmul QcOps 2 (A_of_linv QcOps 3 1 [1;1]%nat 2 ec3_obs ec3_L ec3_Lp) ec3_Psi) (fmul QcOps 2 ec3_Psi (ediag QcOps ec3_lam)) /\
  tab 2 ec3_lam = [ec3_lamg 1%nat; ec3_lamg 0%nat].
Proof.
  split; [intros k _; apply feq_refl|].
  split; [intros k Hk; destruct k as [|[|k]]; [| |lia]; apply ec_feqb_sound; vm_compute; reflexivity|].
  split; [apply ec_feqb_sound; vm_compute; reflexivity|].
  split; [intros k Hk; destruct k as [|[|k]]; [| |lia]; apply ec_feqb_sound; vm_compute; reflexivity|].
  split; [apply ec_feqb_sound; vm_compute; reflexivity|].
  split; [apply ec_feqb_sound; vm_compute; reflexivity|].
  split; [apply ec_feqb_sound; vm_compute; reflexivity|].
  split.
  { intros i j Hi Hj Hne E.
    assert (Hc: ((i = 0 /\ j = 1) \/ (i = 1 /\ j = 0))%nat) by lia.
    destruct Hc as [[-> ->]|[-> ->]]; vm_compute in E; discriminate E. }
  split; [apply ec_feqb_sound; vm_compute; reflexivity|].
  split; [apply ec_feqb_sound; vm_compute; reflexivity|].
  split; [apply ec_feqb_sound; vm_compute; reflexivity|].
  reflexivity.
Qed.
