(* C18 - order-dependent facts about the indicator models, over the standard library's real numbers
   (these theorems depend on the stdlib axioms of R only). *)
From Coq Require Import List Arith Lia Reals Lra Psatz RealField Classical.
From PyOMA.Base Require Import Carrier Cplx.
From PyOMA.Model Require Import M_indicators.
From PyOMA.Proofs Require Import P_indicators.
Import ListNotations.
Local Open Scope R_scope.

Definition ROps_ind : Ops R :=
  {| o0 := 0; o1 := 1; oadd := Rplus; omul := Rmult; osub := Rminus; oopp := Ropp; odiv := Rdiv; oinv := Rinv |}.
Lemma RFth_ind : field_theory (o0 ROps_ind) (o1 ROps_ind) (oadd ROps_ind) (omul ROps_ind) (osub ROps_ind)
  (oopp ROps_ind) (odiv ROps_ind) (oinv ROps_ind) (@eq R).
Proof. exact Rfield. Qed.
Notation RK := ROps_ind.
Ltac rsimp := cbn [o0 o1 oadd omul osub oopp odiv oinv ROps_ind] in *.

Lemma div_bounds N D : 0 <= N <= D -> 0 < D -> 0 <= N / D <= 1.
Proof.
  intros [H0 H1] HD. split.
  - apply Rmult_le_pos; [lra | left; apply Rinv_0_lt_compat; lra].
  - apply Rmult_le_reg_r with D; [lra|]. unfold Rdiv. rewrite Rmult_assoc, Rinv_l by lra. lra.
Qed.

Lemma sumn_nonneg n (f:nat->R) : (forall k, 0 <= f k) -> 0 <= sumn RK n f.
Proof. intros H. induction n; cbn [sumn]; rsimp; [lra | specialize (H n); lra]. Qed.
Lemma sumn_pos_some n (f:nat->R) k : (forall j, 0 <= f j) -> (k < n)%nat -> 0 < f k -> 0 < sumn RK n f.
Proof.
  intros H Hk Hp. induction n; [lia|]. cbn [sumn]; rsimp.
  destruct (Nat.eq_dec k n) as [->|Hne].
  - assert (0 <= sumn RK n f) by (apply sumn_nonneg; exact H). lra.
  - assert (0 < sumn RK n f) by (apply IHn; lia). specialize (H n). lra.
Qed.
Lemma sumn_zero_all n (f:nat->R) : (forall j, 0 <= f j) -> sumn RK n f = 0 -> forall k, (k < n)%nat -> f k = 0.
Proof.
  intros H E k Hk. destruct (Req_dec (f k) 0) as [|Hne]; [assumption|].
  assert (0 < f k) by (specialize (H k); lra).
  assert (0 < sumn RK n f) by (apply (sumn_pos_some n f k); assumption). lra.
Qed.

Lemma cnorm2_nonneg (z:C R) : 0 <= cnorm2 RK z.
Proof. unfold cnorm2; rsimp. nra. Qed.
Lemma cnorm2_zero_iff (z:C R) : cnorm2 RK z = 0 <-> z = c0 RK.
Proof.
  destruct z as [a b]. unfold cnorm2, c0; cbn [cre cim fst snd]; rsimp. split.
  - intros H. assert (a = 0) by nra. assert (b = 0) by nra. subst. reflexivity.
  - intros E. inversion E. subst. ring.
Qed.
Lemma nrm2_nonneg n (x:cvec R) : 0 <= nrm2 RK n x.
Proof. unfold nrm2. apply sumn_nonneg. intros k. apply cnorm2_nonneg. Qed.
(* a shape is the zero vector exactly when its squared norm vanishes *)
Lemma nrm2_nonzero_iff n (x:cvec R) : nrm2 RK n x <> 0 <-> exists k, (k < n)%nat /\ x k <> c0 RK.
Proof.
  split.
  - intros H. destruct (classic (exists k, (k < n)%nat /\ x k <> c0 RK)) as [E|NE]; [exact E|].
    exfalso. apply H. unfold nrm2.
    rewrite (sumn_ext R RK n _ (fun _ => 0)); [apply (sumn_zero' R RK RFth_ind); reflexivity|].
    intros k Hk. apply cnorm2_zero_iff. destruct (classic (x k = c0 RK)) as [E|Hx]; [exact E|].
    exfalso. apply NE. exists k. split; assumption.
  - intros (k & Hk & Hx) E. unfold nrm2 in E.
    assert (Hz := sumn_zero_all n _ (fun j => cnorm2_nonneg (x j)) E k Hk). cbn beta in Hz.
    apply cnorm2_zero_iff in Hz. contradiction.
Qed.

(* ---------- Cauchy-Schwarz, complex, by induction with the invariant P^2+Q^2 <= X*A ---------- *)
Lemma cs_step (p q x a p' q' xi al : R) :
  0 <= x -> 0 <= a -> 0 <= xi -> 0 <= al ->
  p*p + q*q <= x*a -> p'*p' + q'*q' = xi*al ->
  (p+p')*(p+p') + (q+q')*(q+q') <= (x+xi)*(a+al).
Proof.
  intros Hx Ha Hxi Hal H1 H2.
  assert (H3: (p*p'+q*q')*(p*p'+q*q') <= (p*p+q*q)*(p'*p'+q'*q')).
  { assert (Hs := Rle_0_sqr (p*q' - q*p')). unfold Rsqr in Hs. nra. }
  assert (H4: (p*p'+q*q')*(p*p'+q*q') <= (x*a)*(xi*al)).
  { rewrite <- H2. apply Rle_trans with ((p*p+q*q)*(p'*p'+q'*q')); [exact H3|]. apply Rmult_le_compat_r; nra. }
  assert (H5: 2*(p*p'+q*q') <= x*al + xi*a).
  { destruct (Rle_dec (p*p'+q*q') 0) as [Hn|Hp]; [nra|].
    assert (0 <= x*al) by nra. assert (0 <= xi*a) by nra.
    assert (Hs := Rle_0_sqr (x*al - xi*a)). unfold Rsqr in Hs.
    assert ((2*(p*p'+q*q'))*(2*(p*p'+q*q')) <= (x*al + xi*a)*(x*al + xi*a)) by nra.
    nra. }
  nra.
Qed.
Lemma cs_complex n (xr xi ar ai : nat -> R) :
  sumn RK n (fun k => xr k * ar k + xi k * ai k) * sumn RK n (fun k => xr k * ar k + xi k * ai k)
  + sumn RK n (fun k => xr k * ai k - xi k * ar k) * sumn RK n (fun k => xr k * ai k - xi k * ar k)
  <= sumn RK n (fun k => xr k * xr k + xi k * xi k) * sumn RK n (fun k => ar k * ar k + ai k * ai k).
Proof.
  induction n; cbn [sumn]; rsimp; [lra|].
  apply cs_step; try assumption.
  - apply sumn_nonneg; intros; nra.
  - apply sumn_nonneg; intros; nra.
  - nra.
  - nra.
  - ring.
Qed.
Lemma cs_real n (u v : nat -> R) : rdot RK n u v * rdot RK n u v <= rdot RK n u u * rdot RK n v v.
Proof.
  unfold rdot; rsimp.
  assert (H := cs_complex n u (fun _ => 0) v (fun _ => 0)). cbn beta in H.
  rewrite (sumn_ext R RK n (fun k => u k * v k + 0 * 0) (fun k => u k * v k)) in H by (intros; rsimp; ring).
  rewrite (sumn_ext R RK n (fun k => u k * 0 - 0 * v k) (fun _ => 0)) in H by (intros; rsimp; ring).
  rewrite (sumn_ext R RK n (fun k => u k * u k + 0 * 0) (fun k => u k * u k)) in H by (intros; rsimp; ring).
  rewrite (sumn_ext R RK n (fun k => v k * v k + 0 * 0) (fun k => v k * v k)) in H by (intros; rsimp; ring).
  rewrite (sumn_zero' R RK RFth_ind n (fun _ => 0)) in H by reflexivity. rsimp. lra.
Qed.
Lemma rdot_self_nonneg n (u:nat->R) : 0 <= rdot RK n u u.
Proof. unfold rdot. apply sumn_nonneg. intros k; rsimp; nra. Qed.

(* ================= bounds ================= *)
Theorem mac_bounds n (x a:cvec R) : nrm2 RK n x <> 0 -> nrm2 RK n a <> 0 -> 0 <= mac RK n x a <= 1.
Proof.
  intros Hx Ha. unfold mac.
  assert (HX := nrm2_nonneg n x). assert (HA := nrm2_nonneg n a).
  assert (CS: cnorm2 RK (hdot RK n x a) <= nrm2 RK n x * nrm2 RK n a).
  { unfold cnorm2 at 1. rewrite (cre_hdot R RK RFth_ind), (cim_hdot R RK RFth_ind). unfold nrm2, cnorm2. rsimp.
    apply (cs_complex n (fun k => cre (x k)) (fun k => cim (x k)) (fun k => cre (a k)) (fun k => cim (a k))). }
  rsimp. apply div_bounds.
  - split; [apply cnorm2_nonneg | exact CS].
  - apply Rmult_lt_0_compat; lra.
Qed.

Theorem mcf_bounds n (phi:cvec R) : nrm2 RK n phi <> 0 -> 0 <= mcf RK n phi <= 1.
Proof.
  intros Hp. assert (HP := nrm2_nonneg n phi). rewrite (nrm2_split R RK RFth_ind) in Hp, HP.
  unfold mcf, mcf_of, four, two.
  assert (Hxx := rdot_self_nonneg n (vre phi)). assert (Hyy := rdot_self_nonneg n (vim phi)).
  assert (CS := cs_real n (vre phi) (vim phi)).
  set (sxx := rdot RK n (vre phi) (vre phi)) in *. set (syy := rdot RK n (vim phi) (vim phi)) in *.
  set (sxy := rdot RK n (vre phi) (vim phi)) in *. clearbody sxx syy sxy. rsimp.
  assert (B: 0 <= ((sxx - syy) * (sxx - syy) + (1 + 1) * (1 + 1) * (sxy * sxy)) / ((sxx + syy) * (sxx + syy)) <= 1).
  { assert (H1 := Rle_0_sqr (sxx - syy)). assert (H2 := Rle_0_sqr sxy). unfold Rsqr in H1, H2.
    apply div_bounds; [split; nra | nra]. }
  lra.
Qed.

Theorem mpc_bounds f n (phi:cvec R) : cov_tr RK f n phi <> 0 -> 0 <= mpc_f RK f n phi <= 1.
Proof.
  intros Ht. unfold mpc_f, mpc_of, four, two.
  unfold cov_tr, cov_det, cov_xx, cov_xy, cov_yy in *.
  assert (Hxx := rdot_self_nonneg n (cen RK n (vre phi))). assert (Hyy := rdot_self_nonneg n (cen RK n (vim phi))).
  assert (CS := cs_real n (cen RK n (vre phi)) (cen RK n (vim phi))).
  set (sxx := rdot RK n (cen RK n (vre phi)) (cen RK n (vre phi))) in *.
  set (syy := rdot RK n (cen RK n (vim phi)) (cen RK n (vim phi))) in *.
  set (sxy := rdot RK n (cen RK n (vre phi)) (cen RK n (vim phi))) in *. clearbody sxx syy sxy. rsimp.
  apply div_bounds.
  - assert (0 <= f * f) by nra. assert (0 <= f * f * (sxx * syy - sxy * sxy)) by (apply Rmult_le_pos; lra).
    split; [|nra].
    replace ((f * sxx + f * syy) * (f * sxx + f * syy) - (1 + 1) * (1 + 1) * (f * sxx * (f * syy) - f * sxy * (f * sxy)))
      with (f * f * ((sxx - syy) * (sxx - syy) + 4 * (sxy * sxy))) by ring.
    assert (H1 := Rle_0_sqr (sxx - syy)). assert (H2 := Rle_0_sqr sxy). unfold Rsqr in H1, H2.
    apply Rmult_le_pos; [assumption | lra].
  - assert (f * sxx + f * syy <> 0) by exact Ht. nra.
Qed.

(* ================= MPD ================= *)
(* (v0,v1) is a non-zero (for numpy.linalg.svd: unit) eigenvector of G = [Re phi, Im phi]^T [Re phi, Im phi] for its
   SMALLER eigenvalue l: the contract of the second right-singular vector returned by numpy.linalg.svd *)
Definition svd_min_contract (n:nat) (phi:cvec R) (v0 v1 l:R) : Prop :=
  v0 * v0 + v1 * v1 <> 0 /\
  rdot RK n (vre phi) (vre phi) * v0 + rdot RK n (vre phi) (vim phi) * v1 = l * v0 /\
  rdot RK n (vre phi) (vim phi) * v0 + rdot RK n (vim phi) (vim phi) * v1 = l * v1 /\
  l + l <= rdot RK n (vre phi) (vre phi) + rdot RK n (vim phi) (vim phi).

Lemma svd_contract_collinear n (c:C R) (u:nat->R) v0 v1 l : cnorm2 RK c <> 0 -> rdot RK n u u <> 0 ->
  svd_min_contract n (vscale RK c (vreal RK u)) v0 v1 l -> cre c * v0 + cim c * v1 = 0.
Proof.
  intros Hc Hu (Hn & E1 & E2 & Hl).
  destruct (gram_collinear R RK RFth_ind n c u) as (Gxx & Gxy & Gyy). rewrite Gxx, Gxy in E1. rewrite Gxy, Gyy in E2.
  rewrite Gxx, Gyy in Hl. clear Gxx Gxy Gyy.
  assert (HU: 0 < rdot RK n u u) by (assert (H := rdot_self_nonneg n u); lra).
  assert (HN: 0 < cnorm2 RK c) by (assert (H := cnorm2_nonneg c); lra).
  destruct c as [a b]. unfold cnorm2 in *. cbn [cre cim fst snd] in *. rsimp.
  set (U := rdot RK n u u) in *. set (t := a * v0 + b * v1).
  assert (Et: (a * a + b * b) * U * t = l * t).
  { unfold t. transitivity (a * (a * a * U * v0 + a * b * U * v1) + b * (a * b * U * v0 + b * b * U * v1)); [ring|].
    rewrite E1, E2. ring. }
  destruct (Req_dec t 0) as [Hz|Hnz]; [exact Hz|]. exfalso.
  assert (El: l = (a * a + b * b) * U).
  { apply Rmult_eq_reg_r with t; [lra | exact Hnz]. }
  assert (0 < (a * a + b * b) * U) by (apply Rmult_lt_0_compat; assumption).
  nra.
Qed.

(* the rotated witness is a witness for the scaled shape (eigenvalue |c|^2 l) *)
Lemma svd_contract_scale n (c:C R) (phi:cvec R) v0 v1 l : c <> c0 RK ->
  svd_min_contract n phi v0 v1 l ->
  svd_min_contract n (vscale RK c phi) (rot0 R RK c v0 v1) (rot1 R RK c v0 v1) (cnorm2 RK c * l).
Proof.
  intros Hc (Hn & E1 & E2 & Hl).
  assert (HN: 0 < cnorm2 RK c).
  { assert (H := cnorm2_nonneg c). assert (cnorm2 RK c <> 0) by (intros E; apply cnorm2_zero_iff in E; contradiction). lra. }
  destruct c as [a b]. unfold svd_min_contract, rot0, rot1, cnorm2 in *. cbn [cre cim fst snd] in *.
  set (P := vscale RK (a,b) phi).
  rewrite (rdot_comb' R RK RFth_ind n a (- b) a (- b) (vre phi) (vim phi) (vre P) (vre P))
    by (intros k; apply (vre_vscale R RK RFth_ind (a,b))).
  rewrite (rdot_comb' R RK RFth_ind n a (- b) b a (vre phi) (vim phi) (vre P) (vim P))
    by (intros k; first [apply (vre_vscale R RK RFth_ind (a,b)) | apply (vim_vscale R RK RFth_ind (a,b))]).
  rewrite (rdot_comb' R RK RFth_ind n b a b a (vre phi) (vim phi) (vim P) (vim P))
    by (intros k; apply (vim_vscale R RK RFth_ind (a,b))).
  set (sxx := rdot RK n (vre phi) (vre phi)) in *. set (syy := rdot RK n (vim phi) (vim phi)) in *.
  set (sxy := rdot RK n (vre phi) (vim phi)) in *. clearbody sxx syy sxy. rsimp.
  repeat split.
  - replace ((a * v0 - b * v1) * (a * v0 - b * v1) + (b * v0 + a * v1) * (b * v0 + a * v1))
      with ((a * a + b * b) * (v0 * v0 + v1 * v1)) by ring.
    apply Rmult_integral_contrapositive_currified; lra.
  - transitivity ((a * a + b * b) * (a * (sxx * v0 + sxy * v1) - b * (sxy * v0 + syy * v1))); [ring|].
    rewrite E1, E2. ring.
  - transitivity ((a * a + b * b) * (b * (sxx * v0 + sxy * v1) + a * (sxy * v0 + syy * v1))); [ring|].
    rewrite E1, E2. ring.
  - replace (a * a * sxx + (a * - b + - b * a) * sxy + - b * - b * syy + (b * b * sxx + (b * a + a * b) * sxy + a * a * syy))
      with ((a * a + b * b) * (sxx + syy)) by ring.
    replace ((a * a + b * b) * l + (a * a + b * b) * l) with ((a * a + b * b) * (l + l)) by ring.
    apply Rmult_le_compat_l; lra.
Qed.

Section MPD.
Variable leb : R -> R -> bool.
Variable isz : R -> bool.
Hypothesis leb_spec : forall a b, leb a b = true <-> a <= b.
Hypothesis isz_spec : forall x, isz x = true <-> x = o0 RK.
(* NumPy's sqrt and arccos: only these clauses of their contracts are used *)
Variable sqrtf acosf : R -> R.
Hypothesis sqrt_pos : forall x, 0 < x -> 0 < sqrtf x.
Hypothesis sqrt_unit : forall x, 0 <= x <= 1 -> 0 <= sqrtf x <= 1.
Hypothesis sqrt_one : sqrtf 1 = 1.
Hypothesis acos_range : forall x, 0 <= x <= 1 -> 0 <= acosf x <= PI / 2.
Hypothesis acos_one : acosf 1 = 0.

Lemma clip01_range x : 0 <= clip01 RK leb x <= 1.
Proof.
  unfold clip01; rsimp. destruct (leb x 0) eqn:E0; [lra|]. destruct (leb 1 x) eqn:E1; [lra|].
  assert (N0: ~ x <= 0) by (intros H; apply leb_spec in H; congruence).
  assert (N1: ~ 1 <= x) by (intros H; apply leb_spec in H; congruence). lra.
Qed.
Lemma clip01_id x : 0 <= x <= 1 -> clip01 RK leb x = x.
Proof.
  intros Hx. unfold clip01; rsimp. destruct (leb x 0) eqn:E0.
  - apply leb_spec in E0. lra.
  - destruct (leb 1 x) eqn:E1; [apply leb_spec in E1; lra | reflexivity].
Qed.
(* in exact arithmetic the clip of the repaired code is the identity: the argument already lies in [0,1] *)
Lemma mpd_arg_range (z:C R) v0 v1 : v0 * v0 + v1 * v1 <> 0 -> cnorm2 RK z <> 0 -> 0 <= mpd_arg RK z v0 v1 <= 1.
Proof.
  intros Hv Hz. destruct z as [x y]. unfold mpd_arg, mpd_num, cnorm2 in *. cbn [cre cim fst snd] in *. rsimp.
  apply div_bounds.
  - assert (H := Rle_0_sqr (x * v0 + y * v1)). assert (H' := Rle_0_sqr (x * v1 - y * v0)). unfold Rsqr in H, H'.
    split; [exact H'|].
    replace ((v0 * v0 + v1 * v1) * (x * x + y * y))
      with ((x * v1 - y * v0) * (x * v1 - y * v0) + (x * v0 + y * v1) * (x * v0 + y * v1)) by ring. lra.
  - assert (0 < v0 * v0 + v1 * v1) by nra. assert (0 < x * x + y * y) by nra. apply Rmult_lt_0_compat; assumption.
Qed.
Lemma mpd_clip_noop (z:C R) v0 v1 : v0 * v0 + v1 * v1 <> 0 -> cnorm2 RK z <> 0 ->
  clip01 RK leb (mpd_arg RK z v0 v1) = mpd_arg RK z v0 v1.
Proof. intros Hv Hz. apply clip01_id. apply mpd_arg_range; assumption. Qed.

Definition good_terms (t:list (R*R)) : Prop := forall wc, In wc t -> 0 < fst wc /\ 0 <= snd wc <= 1.
Lemma mpd_terms_good n phi v0 v1 : good_terms (mpd_terms RK leb isz n phi v0 v1).
Proof.
  intros wc Hin. destruct (mpd_terms_weights R RK leb isz isz_spec n phi v0 v1 wc Hin) as (k & Hk & Ew & Hz & Ec).
  rewrite Ew, Ec. split; [|apply clip01_range].
  assert (H := cnorm2_nonneg (phi k)). rsimp. lra.
Qed.
Lemma wsum_bounds t : good_terms t ->
  0 <= mpd_wsum RK sqrtf acosf t <= PI / 2 * mpd_wtot RK sqrtf t /\ 0 <= mpd_wtot RK sqrtf t /\ (t <> [] -> 0 < mpd_wtot RK sqrtf t).
Proof.
  induction t as [|[w c] r IH]; intros G; cbn [mpd_wsum mpd_wtot fst snd]; rsimp.
  - repeat split; try lra. intros H; congruence.
  - destruct IH as (IH1 & IH2 & _); [intros wc Hin; apply G; right; exact Hin|].
    destruct (G (w,c) (or_introl eq_refl)) as [Hw Hc]. cbn [fst snd] in *.
    assert (Hs := sqrt_pos w Hw). assert (Ha := acos_range (sqrtf c) (sqrt_unit c Hc)).
    assert (0 <= sqrtf w * acosf (sqrtf c)) by (apply Rmult_le_pos; lra).
    assert (sqrtf w * acosf (sqrtf c) <= PI / 2 * sqrtf w) by nra.
    repeat split; try lra.
Qed.
Theorem mpd_bounds n (phi:cvec R) v0 v1 k : (k < n)%nat -> phi k <> c0 RK ->
  0 <= mpd_val RK sqrtf acosf (mpd_terms RK leb isz n phi v0 v1) <= PI / 2.
Proof.
  intros Hk Hz.
  assert (Hne: mpd_terms RK leb isz n phi v0 v1 <> []).
  { apply (mpd_terms_nonempty R RK leb isz isz_spec n phi v0 v1 k Hk). intros E. apply cnorm2_zero_iff in E. contradiction. }
  destruct (wsum_bounds _ (mpd_terms_good n phi v0 v1)) as ((H1 & H2) & H3 & H4). specialize (H4 Hne).
  unfold mpd_val; rsimp. set (s := mpd_wsum RK sqrtf acosf _) in *. set (w := mpd_wtot RK sqrtf _) in *.
  assert (Hp := PI_RGT_0). split.
  - apply Rmult_le_pos; [lra | left; apply Rinv_0_lt_compat; lra].
  - apply Rmult_le_reg_r with w; [lra|]. unfold Rdiv. rewrite Rmult_assoc, Rinv_l by lra. lra.
Qed.

Lemma wsum_all_one t : (forall wc, In wc t -> snd wc = 1) -> mpd_wsum RK sqrtf acosf t = 0.
Proof.
  induction t as [|[w c] r IH]; intros H; cbn [mpd_wsum fst snd]; rsimp; [reflexivity|].
  rewrite IH by (intros wc Hin; apply H; right; exact Hin).
  assert (Ec := H (w,c) (or_introl eq_refl)). cbn [snd] in Ec. rewrite Ec, sqrt_one, acos_one. ring.
Qed.
(* a complex multiple of a real vector: every cosine argument is exactly 1, MPD = 0 (finite: the weight sum is > 0) *)
Theorem mpd_collinear n (c:C R) (u:nat->R) v0 v1 l : c <> c0 RK -> (exists k, (k < n)%nat /\ u k <> 0) ->
  svd_min_contract n (vscale RK c (vreal RK u)) v0 v1 l ->
  mpd_val RK sqrtf acosf (mpd_terms RK leb isz n (vscale RK c (vreal RK u)) v0 v1) = 0 /\
  0 < mpd_wtot RK sqrtf (mpd_terms RK leb isz n (vscale RK c (vreal RK u)) v0 v1).
Proof.
  intros Hc (k & Hk & Hu) Hsvd.
  assert (Hc2: cnorm2 RK c <> 0) by (intros E; apply cnorm2_zero_iff in E; contradiction).
  assert (HU: rdot RK n u u <> 0).
  { intros E. unfold rdot in E. apply Hu.
    assert (H := sumn_zero_all n (fun j => u j * u j) (fun j => Rle_0_sqr (u j)) E k Hk). cbn beta in H. rsimp. nra. }
  assert (Ht := svd_contract_collinear n c u v0 v1 l Hc2 HU Hsvd).
  assert (Hv: v0 * v0 + v1 * v1 <> 0) by (destruct Hsvd as [Hn _]; exact Hn).
  set (T := mpd_terms RK leb isz n (vscale RK c (vreal RK u)) v0 v1).
  assert (Hne: T <> []).
  { apply (mpd_terms_nonempty R RK leb isz isz_spec n _ v0 v1 k Hk). unfold vscale, vreal.
    rewrite (cnorm2_mul R RK (F_R RFth_ind)). unfold cnorm2 at 2, cofR. cbn [cre cim fst snd]. rsimp.
    apply Rmult_integral_contrapositive_currified; [exact Hc2|].
    intros E. apply Hu. assert (E2: u k * u k = 0) by lra. destruct (Rmult_integral _ _ E2); assumption. }
  destruct (wsum_bounds T (mpd_terms_good n _ v0 v1)) as (_ & _ & Hw). specialize (Hw Hne).
  split; [|exact Hw]. unfold mpd_val. rewrite wsum_all_one.
  - rsimp. unfold Rdiv. ring.
  - intros wc Hin. rewrite (mpd_terms_collinear R RK RFth_ind leb isz isz_spec n c u v0 v1 Hc2 Hv Ht wc Hin).
    apply clip01_id. rsimp. lra.
Qed.

(* scale invariance of MPD: rotate the witness with the shape; needs sqrt multiplicative *)
Hypothesis sqrt_mul : forall a b, 0 <= a -> 0 <= b -> sqrtf (a * b) = sqrtf a * sqrtf b.
Lemma wsum_scaled s t : 0 < s -> good_terms t ->
  mpd_wsum RK sqrtf acosf (map (fun wc => (s * fst wc, snd wc)) t) = sqrtf s * mpd_wsum RK sqrtf acosf t /\
  mpd_wtot RK sqrtf (map (fun wc => (s * fst wc, snd wc)) t) = sqrtf s * mpd_wtot RK sqrtf t.
Proof.
  intros Hs. induction t as [|[w c] r IH]; intros G; cbn [map mpd_wsum mpd_wtot fst snd]; rsimp; [split; ring|].
  destruct IH as [-> ->]; [intros wc Hin; apply G; right; exact Hin|].
  destruct (G (w,c) (or_introl eq_refl)) as [Hw _]. cbn [fst] in Hw.
  rewrite sqrt_mul by lra. split; ring.
Qed.
Theorem mpd_scale n (c:C R) (phi:cvec R) v0 v1 k : c <> c0 RK -> v0 * v0 + v1 * v1 <> 0 -> (k < n)%nat -> phi k <> c0 RK ->
  mpd_val RK sqrtf acosf (mpd_terms RK leb isz n (vscale RK c phi) (rot0 R RK c v0 v1) (rot1 R RK c v0 v1))
  = mpd_val RK sqrtf acosf (mpd_terms RK leb isz n phi v0 v1).
Proof.
  intros Hc Hv Hk Hz.
  assert (Hc2: cnorm2 RK c <> 0) by (intros E; apply cnorm2_zero_iff in E; contradiction).
  assert (Hs: 0 < cnorm2 RK c) by (assert (H := cnorm2_nonneg c); lra).
  rewrite (mpd_terms_scale R RK RFth_ind leb isz isz_spec n c phi v0 v1 Hc2 Hv).
  destruct (wsum_scaled (cnorm2 RK c) _ Hs (mpd_terms_good n phi v0 v1)) as [E1 E2].
  unfold mpd_val. rsimp. rewrite E1, E2.
  assert (Hne: mpd_terms RK leb isz n phi v0 v1 <> []).
  { apply (mpd_terms_nonempty R RK leb isz isz_spec n phi v0 v1 k Hk). intros E. apply cnorm2_zero_iff in E. contradiction. }
  destruct (wsum_bounds _ (mpd_terms_good n phi v0 v1)) as (_ & _ & Hw). specialize (Hw Hne).
  assert (Hq := sqrt_pos _ Hs). field. split; lra.
Qed.
End MPD.

(* the contracts are satisfiable: the standard library's sqrt and acos, and decidable comparisons on R *)
Definition leb_R (a b:R) : bool := if Rle_dec a b then true else false.
Definition isz_R (x:R) : bool := if Req_EM_T x 0 then true else false.
Lemma leb_R_spec a b : leb_R a b = true <-> a <= b.
Proof. unfold leb_R. destruct (Rle_dec a b); split; intros; try assumption; try reflexivity; try discriminate; contradiction. Qed.
Lemma isz_R_spec x : isz_R x = true <-> x = o0 RK.
Proof. unfold isz_R. rsimp. destruct (Req_EM_T x 0); split; intros; try assumption; try reflexivity; try discriminate; contradiction. Qed.
Lemma acos_range_std x : 0 <= x <= 1 -> 0 <= acos x <= PI / 2.
Proof.
  intros Hx. split; [apply acos_bound|].
  destruct (Req_dec x 0) as [->|Hne]; [rewrite acos_0; lra|].
  rewrite acos_atan by lra. left. apply atan_bound.
Qed.
Lemma sqrt_unit_std x : 0 <= x <= 1 -> 0 <= sqrt x <= 1.
Proof. intros Hx. split; [apply sqrt_pos|]. rewrite <- sqrt_1. apply sqrt_le_1_alt. lra. Qed.
