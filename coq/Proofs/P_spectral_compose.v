(* Composition of C13 (model of fdd.SD_est, Model/M_spectra.v) with C04 (PreGER merging, Model/M_preger_sd.v) and with
   C06 (FDD singular vectors, Model/M_fdd.v).

   C04 treats the spectral estimator as an uninterpreted function csd : P -> Rec -> Rec -> nat -> R with two
   hypotheses (entry-locality, built into its type, and degree-2 homogeneity in a common gain); C06 takes the rank-one
   form of a narrow-band spectral matrix as a hypothesis.  Here both are DISCHARGED by the model of C13:
     1. sd_model (the 'per' / 'cor' model on stacked data) is entry-wise the two-record estimator welch_csd, is
        extensional in the samples and homogeneous of degree 2 in a common real gain;
     2. C04's gain clause and "merged = single-setup matrix on a simultaneous recording" with csd := welch_csd at the
        carrier of complex pairs, with no hypothesis left on the estimator;
     3. for data whose segment transforms are A_c * Z^s at a line, the modelled 'per' matrix is g conj(A_i) A_j with the
        explicit real g = coefficient * sum_s |Z^s|^2, hence the stored row 0 of any SVD reconstruction is collinear
        with the amplitudes A (MAC = 1).
   Bridges: rsig R = nat -> nat -> R is (convertibly) nat -> Rec with Rec = nat -> R; a function matrix over the ring
   COps K of complex pairs is a matrix of M_spectra's complex entries; cscal a z = cofR a * z. *)
From Coq Require Import List Arith Bool Lia Ring Field ZArith QArith Qcanon.
From PyOMA.Base Require Import Carrier FMat Cplx Show.
From PyOMA.Model Require Import M_spectra M_preger_sd M_fdd.
From PyOMA.Proofs Require Import P_spectra P_preger_sd P_fdd.
Import ListNotations.
Close Scope R_scope.
Close Scope Q_scope.

(* ------------------------------------------------------------------ the estimator in the shape C04 expects *)
Section EstDefs.
Variable R:Type. Variable K:Ops R.

(* the run parameters of SD_est as the model sees them (method, derived constants, witness tables) *)
Inductive sd_par : Type :=
| ParPer (tw:nat->nat->C R) (w:nat->R) (invn scale invK:R) (n step nseg:nat)
| ParCor (tw:nat->nat->C R) (we:nat->R) (invm invn invK:R) (n nseg:nat).

(* SD_est on stacked data: entry (a,b) at line f *)
Definition sd_model (p:sd_par) (Y Yref:rsig R) : nat -> nat -> nat -> C R :=
  match p with
  | ParPer tw w invn scale invK n step nseg => sd_per K tw w invn scale invK n step nseg Y Yref
  | ParCor tw we invm invn invK n nseg => sd_cor K tw we invm invn invK n nseg Y Yref
  end.

(* one channel record against one reference record: C04's  csd : P -> Rec -> Rec -> nat -> carrier  with Rec = nat -> R *)
Definition welch_csd (p:sd_par) (x y:nat->R) (f:nat) : C R := sd_model p (fun _ => x) (fun _ => y) 0%nat 0%nat f.

(* a record multiplied by a real gain *)
Definition gain_rec (g:R) (x:nat->R) : nat->R := fun t => omul K g (x t).

(* the real factor of a narrow-band 'per' matrix: coefficient * sum over segments of |Z^s|^2 *)
Definition nb_gain (scale invK:R) (n nseg:nat) (Z:nat->C R) (k:nat) : R :=
  omul K (omul K (omul K (dbl K n k) scale) invK) (sumn K nseg (fun s => cnorm2 K (Z s))).
End EstDefs.

Arguments sd_par R : clear implicits.
Arguments ParPer {R} tw w invn scale invK n step nseg.
Arguments ParCor {R} tw we invm invn invK n nseg.
Arguments sd_model {R} K p Y Yref a b f : rename.
Arguments welch_csd {R} K p x y f.
Arguments gain_rec {R} K g x t : rename.
Arguments nb_gain {R} K scale invK n nseg Z k.

(* ------------------------------------------------------------------ matrices: the inverse contract respects feq *)
Lemma inv_contract_feq (A:Type) (KA:Ops A) (nr:nat) (G G' X:fmat A) :
  feq nr nr G G' -> inv_contract KA nr G X -> inv_contract KA nr G' X.
Proof.
  intros HG [H1 H2]. split; intros a b Ha Hb.
  - rewrite <- (H1 a b Ha Hb). unfold fmul. apply (sumn_ext A KA). intros k Hk. rewrite (HG a k Ha Hk). reflexivity.
  - rewrite <- (H2 a b Ha Hb). unfold fmul. apply (sumn_ext A KA). intros k Hk. rewrite (HG k b Hk Hb). reflexivity.
Qed.

Section Compose.
Variable R:Type. Variable K:Ops R.
Hypothesis Rth : ring_theory (o0 K) (o1 K) (oadd K) (omul K) (osub K) (oopp K) (@eq R).
Add Ring RrSC : Rth.
Let KC := COps K.
Let CRt := CRth R K Rth.
Lemma CRsc : ring_theory (c0 K) (c1 K) (cadd K) (cmul K) (csub K) (copp K) (@eq (C R)).
Proof. exact (CRth R K Rth). Qed.
Add Ring CrSC : CRsc.

(* ---------- 1. the modelled estimator meets what C04 asks of csd ---------- *)
(* entry-locality, as an identity: the matrix computed on the stacked data is entry-wise the two-record estimator *)
Lemma sd_model_entry (p:sd_par R) (Y Yref:rsig R) a b f :
  sd_model K p Y Yref a b f = welch_csd K p (Y a) (Yref b) f.
Proof. destruct p; reflexivity. Qed.

(* ... and only the samples count (no other channel, no identity of the record) *)
Lemma sd_model_local (p:sd_par R) (Y Y' Yref Yref':rsig R) a b f :
  (forall t, Y a t = Y' a t) -> (forall t, Yref b t = Yref' b t) ->
  sd_model K p Y Yref a b f = sd_model K p Y' Yref' a b f.
Proof.
  intros H1 H2. destruct p as [tw w invn scale invK n step nseg|tw we invm invn invK n nseg]; cbn [sd_model].
  - exact (pxy_local R K tw w invn scale invK n n step nseg Y Y' Yref Yref' a b f H1 H2).
  - exact (sd_cor_local R K tw we invm invn invK n nseg Y Y' Yref Yref' a b f H1 H2).
Qed.

Lemma welch_csd_ext (p:sd_par R) (x x' y y':nat->R) f :
  (forall t, x t = x' t) -> (forall t, y t = y' t) -> welch_csd K p x y f = welch_csd K p x' y' f.
Proof.
  intros H1 H2. unfold welch_csd.
  exact (sd_model_local p (fun _ => x) (fun _ => x') (fun _ => y) (fun _ => y') 0%nat 0%nat f H1 H2).
Qed.

(* degree-2 homogeneity in a common real gain, in the carrier of complex pairs: csd (g x) (g y) = (g^2 + 0i) * csd x y *)
Lemma welch_csd_gain (p:sd_par R) (g:R) (x y:nat->R) f :
  welch_csd K p (gain_rec K g x) (gain_rec K g y) f = omul KC (cofR K (omul K g g)) (welch_csd K p x y f).
Proof.
  unfold welch_csd, KC. cbn [omul COps].
  destruct p as [tw w invn scale invK n step nseg|tw we invm invn invK n nseg]; cbn [sd_model];
    rewrite <- (cscal_is_mul R K Rth).
  - exact (pxy_gain R K Rth tw w invn scale invK n n step nseg g (fun _ => x) (fun _ => y) 0%nat 0%nat f).
  - exact (sd_cor_scal R K Rth tw we invm invn invK n nseg g g (fun _ => x) (fun _ => y) 0%nat 0%nat f).
Qed.

Theorem welch_admissible (p:sd_par R) :
  (forall (Y Yref:rsig R) a b f, sd_model K p Y Yref a b f = welch_csd K p (Y a) (Yref b) f) /\
  (forall (x x' y y':nat->R) f, (forall t, x t = x' t) -> (forall t, y t = y' t) ->
     welch_csd K p x y f = welch_csd K p x' y' f) /\
  (forall (g:R) (x y:nat->R) f,
     welch_csd K p (gain_rec K g x) (gain_rec K g y) f = omul KC (cofR K (omul K g g)) (welch_csd K p x y f)).
Proof.
  split; [intros; apply sd_model_entry|]. split; [intros; apply welch_csd_ext; assumption|intros; apply welch_csd_gain].
Qed.

(* the per-setup blocks SD_PreGER keeps ARE blocks of the modelled matrix of that setup *)
Lemma setup_blocks_model (p:sd_par R) (f:nat) (d:setupD (nat->R)) :
  (forall a b, Grr (setup_sd (welch_csd K) p f d) a b = sd_model K p (d_ref d) (d_ref d) a b f) /\
  (forall a b, Gmr (setup_sd (welch_csd K) p f d) a b = sd_model K p (d_mov d) (d_ref d) a b f).
Proof. split; intros a b; cbn [setup_sd Grr Gmr]; unfold sd_est; symmetry; apply sd_model_entry. Qed.

(* ---------- 2. C04 with csd := the modelled estimator ---------- *)
Theorem preger_gain_data_welch invn nr n (p:sd_par R) (Y:nat->setupD (nat->R)) (X X':nat->nat->fmat (C R)) (i:nat) (g:R) (f:nat) :
  (i < n)%nat ->
  let Y' := fun k => if Nat.eqb k i then scaleD (gain_rec K g) (Y k) else Y k in
  let Gs := fun k => setup_sd (welch_csd K) p f (Y k) in
  (forall k, (k < n)%nat -> inv_contract KC nr (Grr (Gs k)) (X f k)) ->
  (forall k, (k < n)%nat -> inv_contract KC nr (Grr (setup_sd (welch_csd K) p f (Y' k))) (X' f k)) ->
  let M' := fadd KC (gmean KC invn n Gs)
                 (fscal KC (omul KC (osub KC (cofR K (omul K g g)) (o1 KC)) invn) (Grr (Gs i))) in
  feq (merge_rows nr n Gs) nr (sd_preger KC (welch_csd K) invn nr n p Y' X' f)
      (merge_with KC M' nr n (fun k => d_nmov (Y k)) (transm KC nr Gs (X f))).
Proof.
  intros Hi Y' Gs HX HX' M'.
  exact (preger_gain_data (C R) KC CRt (nat->R) (sd_par R) (welch_csd K) invn nr n p Y X X' i
           (cofR K (omul K g g)) (gain_rec K g) f Hi (fun x y => welch_csd_gain p g x y f) HX HX').
Qed.

(* simultaneous recording: the reference records of all setups carry the same SAMPLES (pointwise; the estimator's
   locality makes the identity of the records irrelevant) *)
Theorem preger_simultaneous_welch invn nr n (p:sd_par R) (Y:nat->setupD (nat->R)) (X:nat->nat->fmat (C R))
        (ref:nat->nat->R) (f:nat) :
  (forall k a t, (k < n)%nat -> (a < nr)%nat -> d_ref (Y k) a t = ref a t) ->
  (forall k, (k < n)%nat -> inv_contract KC nr (Grr (setup_sd (welch_csd K) p f (Y k))) (X f k)) ->
  omul KC (M_preger_sd.ofnat KC n) invn = o1 KC ->
  feq (merge_rows nr n (fun k => setup_sd (welch_csd K) p f (Y k))) nr
      (sd_preger KC (welch_csd K) invn nr n p Y X f)
      (fun r c => sd_model K p (all_sensors nr n ref Y) ref r c f).
Proof.
  intros Href HX Hn.
  set (Y0 := fun k => mkD (d_nmov (Y k)) ref (d_mov (Y k))).
  set (Gs := fun k => setup_sd (welch_csd K) p f (Y k)).
  set (Gs0 := fun k => setup_sd (welch_csd K) p f (Y0 k)).
  assert (Hrr : forall k, (k < n)%nat -> feq nr nr (Grr (Gs k)) (Grr (Gs0 k))).
  { intros k Hk a b Ha Hb. unfold Gs, Gs0, Y0. cbn [setup_sd Grr d_ref]. unfold sd_est.
    apply welch_csd_ext; intros t; apply Href; assumption. }
  assert (Hmr : forall k, (k < n)%nat -> feq (nmov (Gs0 k)) nr (Gmr (Gs k)) (Gmr (Gs0 k))).
  { intros k Hk a b Ha Hb. unfold Gs, Gs0, Y0. cbn [setup_sd Gmr d_ref d_mov]. unfold sd_est.
    apply welch_csd_ext; intros t; [reflexivity|apply Href; assumption]. }
  assert (HX0 : forall k, (k < n)%nat -> inv_contract KC nr (Grr (Gs0 k)) (X f k)).
  { intros k Hk. apply (inv_contract_feq (C R) KC nr (Grr (Gs k))); [apply Hrr; exact Hk|apply HX; exact Hk]. }
  intros r c Hr Hc.
  transitivity (merge KC invn nr n Gs0 (X f) r c).
  - unfold sd_preger. fold Gs.
    apply (preger_congr (C R) KC CRt invn nr n Gs0 Gs (X f) (X f)); try assumption.
    intros k Hk. reflexivity.
  - rewrite sd_model_entry.
    exact (preger_simultaneous (C R) KC CRt (nat->R) (sd_par R) (welch_csd K) invn nr n p Y0 X ref f
             (fun k a _ _ => eq_refl) HX0 Hn r c Hr Hc).
Qed.

(* the complex count of setups is the real one: n.invn = 1 can be checked in R *)
Lemma ofnat_cofR n : M_preger_sd.ofnat KC n = cofR K (M_preger_sd.ofnat K n).
Proof.
  unfold M_preger_sd.ofnat. induction n as [|n IH]; cbn [sumn]; [reflexivity|].
  rewrite IH. unfold KC. cbn [oadd o1 COps]. apply c_eq; cbn; ring.
Qed.
Lemma count_inverse_cofR n (invn:R) :
  omul K (M_preger_sd.ofnat K n) invn = o1 K -> omul KC (M_preger_sd.ofnat KC n) (cofR K invn) = o1 KC.
Proof.
  intros H. rewrite ofnat_cofR. unfold KC. cbn [omul o1 COps]. rewrite (cofR_mul R K Rth), H. reflexivity.
Qed.

(* ---------- 3. narrow-band data: the modelled 'per' matrix has the rank-one form of C06 ---------- *)
Theorem welch_rank_one tw w invn scale invK n step nseg (Y:rsig R) (A Z:nat->C R) (k nch:nat) :
  (forall c s, (c < nch)%nat -> (s < nseg)%nat -> stft K tw w invn n step (Y c) s k = cmul K (A c) (Z s)) ->
  forall i j, (i < nch)%nat -> (j < nch)%nat ->
  sd_per K tw w invn scale invK n step nseg Y Y i j k
  = cmul K (cofR K (nb_gain K scale invK n nseg Z k)) (cmul K (cconj K (A i)) (A j)).
Proof.
  intros HA i j Hi Hj.
  destruct (pxy_common_factor R K Rth tw w invn scale invK n n step nseg Y A Z i j k
              (fun s Hs => HA i s Hi Hs) (fun s Hs => HA j s Hj Hs)) as [E _].
  unfold sd_per. rewrite E. unfold nb_gain.
  rewrite (sumn_ext (C R) (COps K) nseg _ (fun s => cofR K (cnorm2 K (Z s))))
    by (intros s _; apply (cmul_conj R K Rth)).
  rewrite (csum_cofR R K Rth), (cscal_is_mul R K Rth), (cofR_mul R K Rth). ring.
Qed.
End Compose.

Section ComposeF.
Variable R:Type. Variable K:Ops R.
Hypothesis Fth : field_theory (o0 K) (o1 K) (oadd K) (omul K) (osub K) (oopp K) (odiv K) (oinv K) (@eq R).
Let Rth := F_R Fth.
Lemma CRscF : ring_theory (c0 K) (c1 K) (cadd K) (cmul K) (csub K) (copp K) (@eq (C R)).
Proof. exact (CRth R K Rth). Qed.
Add Ring CrSCF : CRscF.

(* the dominant stored singular vector of any SVD reconstruction of the modelled matrix is collinear with the
   channels' complex amplitudes (row index = conjugated side, so with A itself, not conj A) *)
Theorem narrowband_from_welch tw w invn scale invK n step nseg (Y:rsig R) (A Z:nat->C R) (k nr nc:nat)
        (U Vh:fmat (C R)) (sigma:nat->R) :
  (0 < nc)%nat -> (nc <= nr)%nat ->
  (forall c s, (c < nr)%nat -> (s < nseg)%nat -> stft K tw w invn n step (Y c) s k = cmul K (A c) (Z s)) ->
  feq nr nc (fun i j => sd_per K tw w invn scale invK n step nseg Y Y i j k)
      (fmul (COps K) nc U (fmul (COps K) nc (cdiag K sigma) Vh)) ->
  (forall q, (0 < q < nc)%nat -> sigma q = o0 K) ->
  forall i i' j, (i < nr)%nat -> (i' < nr)%nat -> (j < nc)%nat ->
  cnorm2 K (cmul K (cofR K (sigma 0%nat)) (Vh 0%nat j)) <> o0 K ->
  cmul K (svec_of K U 0%nat i) (A i') = cmul K (svec_of K U 0%nat i') (A i).
Proof.
  intros Hnc Hle HA Hrec Hr1.
  apply (narrowband_collinear R K Fth nr nc (fun i j => sd_per K tw w invn scale invK n step nseg Y Y i j k)
           U Vh sigma A (nb_gain K scale invK n nseg Z k) Hnc Hrec Hr1).
  intros i j Hi Hj.
  apply (welch_rank_one R K Rth tw w invn scale invK n step nseg Y A Z k nr HA i j Hi); lia.
Qed.

Lemma cross_to_multiple (u u' a a':C R) : cnorm2 K a' <> o0 K ->
  cmul K u a' = cmul K u' a -> u = cmul K (cdiv K u' a') a.
Proof.
  intros Hn H. unfold cdiv.
  transitivity (cmul K (cmul K u a') (cinv K a')).
  - transitivity (cmul K u (cmul K (cinv K a') a')); [rewrite (cinv_l R K Fth a' Hn); ring|ring].
  - rewrite H. ring.
Qed.

(* ... hence MAC(stored row 0, amplitudes) = 1 as soon as one channel has a non-zero amplitude *)
Theorem narrowband_from_welch_mac tw w invn scale invK n step nseg (Y:rsig R) (A Z:nat->C R) (k nr nc:nat)
        (U Vh:fmat (C R)) (sigma:nat->R) :
  (0 < nc)%nat -> (nc <= nr)%nat ->
  (forall c s, (c < nr)%nat -> (s < nseg)%nat -> stft K tw w invn n step (Y c) s k = cmul K (A c) (Z s)) ->
  feq nr nc (fun i j => sd_per K tw w invn scale invK n step nseg Y Y i j k)
      (fmul (COps K) nc U (fmul (COps K) nc (cdiag K sigma) Vh)) ->
  (forall q, (0 < q < nc)%nat -> sigma q = o0 K) ->
  forall i' j, (i' < nr)%nat -> (j < nc)%nat ->
  cnorm2 K (A i') <> o0 K ->
  cnorm2 K (cmul K (cofR K (sigma 0%nat)) (Vh 0%nat j)) <> o0 K ->
  mac_num K nr (svec_of K U 0%nat) A = mac_den K nr (svec_of K U 0%nat) A.
Proof.
  intros Hnc Hle HA Hrec Hr1 i' j Hi' Hj HAn Hw.
  apply (mac_collinear R K Rth nr (svec_of K U 0%nat) A (cdiv K (svec_of K U 0%nat i') (A i'))).
  intros i Hi. apply (cross_to_multiple _ _ _ _ HAn).
  exact (narrowband_from_welch tw w invn scale invK n step nseg Y A Z k nr nc U Vh sigma Hnc Hle HA Hrec Hr1
           i i' j Hi Hi' Hj Hw).
Qed.
End ComposeF.

(* ------------------------------------------------------------------ tiny exact instance (Gaussian rationals)
   n = 4: omega = -i exactly, periodic Hann samples [0, 1/2, 1, 1/2], 50 % overlap, 8 samples = 3 segments, fs = 1:
   1/n = 1/4, scale = 1/(fs sum w^2) = 2/3, 1/K = 1/3.  'cor': box-car half segments of length 2 (4 of them), an
   exponential-like window [1, 1/2, 1/4, 1/2]. *)
Definition sc_ex_tw : list (Qc*Qc) := [(q 1 1, q 0 1); (q 0 1, q (-1) 1); (q (-1) 1, q 0 1); (q 0 1, q 1 1)].
Definition sc_ex_w : list Qc := [q 0 1; q 1 2; q 1 1; q 1 2].
Definition sc_ex_we : list Qc := [q 1 1; q 1 2; q 1 4; q 1 2].
Definition sc_ex_per : sd_par Qc := ParPer (tw_of QcOps sc_ex_tw 4) (lget QcOps sc_ex_w) (q 1 4) (q 2 3) (q 1 3) 4 2 3.
Definition sc_ex_cor : sd_par Qc := ParCor (tw_of QcOps sc_ex_tw 4) (lget QcOps sc_ex_we) (q 1 2) (q 1 4) (q 1 4) 4 4.
(* records: cos(2 pi t/4), 2 sin(2 pi t/4), a broadband one, (4/3) sin(2 pi t/4) *)
Definition sc_ex_cos : nat -> Qc := lget QcOps [q 1 1;q 0 1;q (-1) 1;q 0 1;q 1 1;q 0 1;q (-1) 1;q 0 1].
Definition sc_ex_sin2 : nat -> Qc := lget QcOps [q 0 1;q 2 1;q 0 1;q (-2) 1;q 0 1;q 2 1;q 0 1;q (-2) 1].
Definition sc_ex_broad : nat -> Qc := lget QcOps [q 1 1;q 2 1;q (-1) 1;q 0 1;q 1 1;q 3 1;q (-1) 1;q 0 1].
Definition sc_ex_sin43 : nat -> Qc := lget QcOps [q 0 1;q 4 3;q 0 1;q (-4) 3;q 0 1;q 4 3;q 0 1;q (-4) 3].
Definition sc_ceqb (x y:Qc*Qc) : bool := Qc_eq_bool (fst x) (fst y) && Qc_eq_bool (snd x) (snd y).
(* the 1 x 1 inverse a kernel would return for the reference block of a setup *)
Definition sc_ex_inv1 (p:sd_par Qc) (Y:nat->setupD (nat->Qc)) : nat -> nat -> fmat (Qc*Qc) :=
  fun f k _ _ => cinv QcOps (Grr (setup_sd (welch_csd QcOps) p f (Y k)) 0%nat 0%nat).
Definition sc_ex_contract1 (G X:fmat (Qc*Qc)) : bool :=
  feqb sc_ceqb 1 1 (fmul QcC 1 G X) (fid QcC) && feqb sc_ceqb 1 1 (fmul QcC 1 X G) (fid QcC).
