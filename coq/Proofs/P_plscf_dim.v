(* C05 - the modal-matrix witness of the pole count follows from dimension theory (Base/Dim.v).
   Carrier: a field with decidable equality (Qc; classically the reals; the complexification of a formally real field by
   Dim.cplx_field_theory + EigCount.cplx_dec - complex latent roots live there).
   comp_modal_invertible(_P) : the block-geometric vectors of p m latent pairs with pairwise different non-zero roots and
     non-zero latent vectors, followed by the m border unit vectors, form a two-sided invertible (p+1)m x (p+1)m matrix
     (eigenvectors of the bordered companion: different eigenvalues -> independent (Dim.eig_indep_border); the border block is
     independent; N independent vectors of K^N -> two-sided inverse (Dim.indep_two_sided)).
   pole_count_P / companion_pole_count_free(_nz) : the pole count of P_eigcount_c05.companion_pole_count WITHOUT the witness
     hypothesis and with a ONE-sided inverse of the eigenvector matrix returned by the eigen-solver (Dim.left_inv_is_right_inv).
   companion_pole_count_real : the same for what the code actually does - the solves and the companion matrix in REAL
     arithmetic (carrier K formally real), latent roots / eigen-decomposition over the complexification COps K.
   Concrete instances: ec5_* (Qc, m = 2, p = 1) and eg_* (Gaussian rationals, real coefficients, m = 2, p = 2, a complex pair). *)
From Coq Require Import List Arith Lia Ring Field Setoid Morphisms Permutation Bool.
From PyOMA.Base Require Import Carrier FMat Cplx EigCount Dim.
From PyOMA.Model Require Import M_plscf.
From PyOMA.Proofs Require Import P_plscf P_eigcount_c05.
Import ListNotations.

Section C05dim.
Variable R:Type. Variable K:Ops R.
Hypothesis Fth : field_theory (o0 K) (o1 K) (oadd K) (omul K) (osub K) (oopp K) (odiv K) (oinv K) (@eq R).
Hypothesis Rdec : forall x y:R, {x = y} + {x <> y}.
Add Field FfC05dim : Fth.
Local Open Scope K_scope.
Notation "0" := (o0 K) : K_scope. Notation "1" := (o1 K) : K_scope.
Infix "*" := (omul K) : K_scope.
Notation fm := (fmul K). Notation fI := (fid K).
Let Rth : ring_theory 0 1 (oadd K) (omul K) (osub K) (oopp K) (@eq R) := F_R Fth.
Let Hint : forall a b:R, a * b = 0 -> a = 0 \/ b = 0 := field_integral R K Fth Rdec.
Let H10 : 1 <> 0 := field_one_neq_zero R K Fth.

(* ---------- level of the solves P_j (A_p P_j = A_j): the bordered companion comp_mat m p P ---------- *)
Section PLevel.
Variables (m p:nat) (P Ad Bn:nat -> fmat R).
Hypothesis Hm : (0 < m)%nat.
Hypothesis Hp : (1 <= p)%nat.
Hypothesis HP : forall j, (j < p)%nat -> feq m m (fm m (Ad p) (P j)) (Ad j).
Notation N := (S p * m)%nat.
Notation Ac := (comp_mat K m p P).
Notation Cc := (out_mat K m p Bn P).
Variables (z zi:nat -> R) (v:nat -> fmat R) (ApInv:fmat R).
Hypothesis Hinv : feq m m (fm m ApInv (Ad p)) fI.
Hypothesis Hroots : forall j, (j < p*m)%nat -> z j * zi j = 1 /\ feq m 1 (polymat_apply K m p Ad (z j) (v j)) (fzero K).
Hypothesis Hdist : forall i j, (i < p*m)%nat -> (j < p*m)%nat -> i <> j -> z i <> z j.
Hypothesis Hvnz : forall j, (j < p*m)%nat -> ~ feq m 1 (v j) (fzero K).
Notation Phi := (comp_modal R K m p z zi v).
Notation lamf := (comp_lam R K m p z).

Lemma root_nz_P j : (j < p*m)%nat -> z j <> 0.
Proof.
  intros Hj E. destruct (Hroots j Hj) as [Hz _]. rewrite E in Hz. apply H10. rewrite <- Hz. ring.
Qed.

Lemma comp_modal_diag_P : feq N N (fm N Ac Phi) (fm N Phi (ediag K lamf)).
Proof.
  intros I j HI Hj. rewrite (fmul_ediag_r R K Rth N Phi lamf I j Hj). unfold comp_lam.
  destruct (Nat.ltb_spec j (p*m)) as [Hlt|Hge].
  - destruct (Hroots j Hlt) as [Hz Hroot].
    pose proof (comp_eig_of_root R K Rth m p P Ad Hm Hp HP (z j) (zi j) (v j) ApInv Hz Hinv Hroot) as Heig.
    pose proof (Heig I 0%nat HI Nat.lt_0_1) as E. unfold fscal in E.
    transitivity (fm N Ac (geo_vec K m p (z j) (zi j) (v j)) I 0%nat).
    { unfold fmul. apply sumn_ext; intros J HJ. unfold comp_modal.
      destruct (Nat.ltb_spec j (p*m)) as [_|]; [reflexivity|lia]. }
    rewrite E. unfold comp_modal. destruct (Nat.ltb_spec j (p*m)) as [_|]; [ring|lia].
  - destruct (comp_zero_border R K Rth m p P Bn Hm Hp (fun J (_:nat) => Phi J j) 1%nat) as [[_ Hback] _].
    assert (Hs: forall J c, (J < p*m)%nat -> (c < 1)%nat -> Phi J j = 0).
    { intros J c HJ _. unfold comp_modal. destruct (Nat.ltb_spec j (p*m)) as [|_]; [lia|].
      destruct (Nat.eqb_spec J j); [lia|reflexivity]. }
    pose proof (Hback Hs I 0%nat HI Nat.lt_0_1) as E. unfold fzero in E.
    transitivity (fm N Ac (fun J (_:nat) => Phi J j) I 0%nat); [reflexivity|]. rewrite E. ring.
Qed.

Lemma comp_modal_indep_P : cols_indep K N N Phi.
Proof.
  pose proof comp_modal_diag_P as HD.
  apply (eig_cols_matrix R K Fth N Ac Phi lamf) in HD.
  assert (EN: N = (p*m + m)%nat) by lia.
  revert HD. generalize N EN. intros N' -> HD.
  apply (eig_indep_border R K Fth Rdec (p*m+m) Ac m (p*m) Phi lamf HD).
  - intros k Hk Hz. apply (Hvnz k Hk). intros a c Ha Hc. assert (c = 0%nat) by lia; subst c.
    assert (Ha': (p*m + a < p*m + m)%nat) by lia.
    pose proof (Hz (p*m + a)%nat Ha') as E. unfold comp_modal, geo_vec in E.
    destruct (Nat.ltb_spec k (p*m)) as [_|]; [|lia].
    destruct (Nat.ltb_spec (p*m + a) (p*m)) as [|_]; [lia|].
    replace ((p*m + a) mod m)%nat with a in E.
    2:{ replace (p*m + a)%nat with (a + p*m)%nat by lia. rewrite Nat.mod_add by lia. symmetry. apply Nat.mod_small. exact Ha. }
    destruct (Hint _ _ E) as [E1|E1]; [exfalso|exact E1].
    destruct (Hroots k Hk) as [Hz1 _]. rewrite E1 in Hz1. apply H10. rewrite <- Hz1. ring.
  - intros k j Hk Hj Hne. unfold comp_lam. destruct (Nat.ltb_spec k (p*m)) as [_|]; [|lia].
    destruct (Nat.ltb_spec j (p*m)) as [Hlt|_]; [apply Hdist; assumption|].
    exact (root_nz_P k Hk).
  - intros c Hc k Hk.
    assert (Hi: (p*m + k < p*m + m)%nat) by lia.
    rewrite <- (Hc (p*m + k)%nat Hi). symmetry.
    rewrite (sumn_single R K Rth m k _ Hk).
    + unfold comp_modal. destruct (Nat.ltb_spec (p*m + k) (p*m)) as [|_]; [lia|]. rewrite Nat.eqb_refl. ring.
    + intros j Hj Hne. unfold comp_modal. destruct (Nat.ltb_spec (p*m + j) (p*m)) as [|_]; [lia|].
      destruct (Nat.eqb_spec (p*m + k) (p*m + j)); [lia|ring].
Qed.

Theorem comp_modal_invertible_P :
  exists Phii:fmat R, feq N N (fm N Phi Phii) fI /\ feq N N (fm N Phii Phi) fI.
Proof. exact (indep_two_sided R K Fth Rdec N Phi comp_modal_indep_P). Qed.

Variables (V W:fmat R) (d:nat -> R).
Hypothesis HV : feq N N (fm N Ac V) (fm N V (ediag K d)).
Hypothesis HWl : feq N N (fm N W V) fI.

Theorem pole_count_P :
  Permutation (tab N d) (tab (p*m) z ++ repeat 0 m) /\
  (forall eqz:R -> bool, (forall x, eqz x = true <-> x = 0) ->
     Permutation (filter (fun x => negb (eqz x)) (tab N d)) (tab (p*m) z) /\ length (filter eqz (tab N d)) = m) /\
  exists (sg:nat -> nat) (c:nat -> R),
    (forall k, (k < N)%nat -> (sg k < N)%nat) /\
    (forall k k', (k < N)%nat -> (k' < N)%nat -> (sg k < p*m)%nat -> sg k = sg k' -> k = k') /\
    (forall j, (j < p*m)%nat -> exists k, (k < N)%nat /\ sg k = j) /\
    (forall k, (k < N)%nat -> (sg k < p*m)%nat ->
       d k = z (sg k) /\ c k <> 0 /\
       (forall a, (a < N)%nat -> V a k = geo_vec K m p (z (sg k)) (zi (sg k)) (v (sg k)) a 0%nat * c k) /\
       (forall l r, (r < l)%nat -> fm N Cc V r k = polymat_apply K m p Bn (z (sg k)) (v (sg k)) r 0%nat * c k)) /\
    (forall k, (k < N)%nat -> (p*m <= sg k)%nat -> d k = 0).
Proof.
  destruct comp_modal_invertible_P as [Phii [HPr HPl]].
  pose proof (left_inv_is_right_inv R K Fth Rdec N V W HWl) as HWr.
  assert (Hr: (p*m <= N)%nat) by lia.
  assert (Hd1: forall i j, (i < p*m)%nat -> (j < N)%nat -> i <> j -> lamf i <> lamf j).
  { intros i j Hi Hj Hne. unfold comp_lam. destruct (Nat.ltb_spec i (p*m)) as [_|]; [|lia].
    destruct (Nat.ltb_spec j (p*m)) as [Hlt|_]; [apply Hdist; assumption|apply root_nz_P; exact Hi]. }
  assert (Hmu: forall i, (p*m <= i < N)%nat -> lamf i = 0).
  { intros i Hi. unfold comp_lam. destruct (Nat.ltb_spec i (p*m)) as [|_]; [lia|reflexivity]. }
  destruct (eig_count_border R K Rth Hint H10 Rdec N (p*m)%nat 0 Ac Phi Phii V W lamf d Hr comp_modal_diag_P HPr HPl Hd1 Hmu HV HWl HWr)
    as [sg [c [Hb [Hinj [Hsur [Hc [HP1 _]]]]]]].
  assert (Etab: tab (p*m) lamf = tab (p*m) z).
  { unfold tab. apply map_ext_in. intros j Hj. apply in_seq in Hj. unfold comp_lam.
    destruct (Nat.ltb_spec j (p*m)) as [_|]; [reflexivity|lia]. }
  assert (EN: (N - p*m = m)%nat) by lia.
  rewrite Etab, EN in HP1.
  split; [exact HP1|split].
  - intros eqz Heqz.
    assert (Hz0: eqz 0 = true) by (apply Heqz; reflexivity).
    assert (Hzn: forall x, In x (tab (p*m) z) -> eqz x = false).
    { intros x Hx. unfold tab in Hx. apply in_map_iff in Hx. destruct Hx as [j [<- Hj]]. apply in_seq in Hj.
      destruct (eqz (z j)) eqn:E; [|reflexivity]. apply Heqz in E. exfalso. apply (root_nz_P j); [lia|exact E]. }
    split.
    + rewrite (perm_filter (fun x => negb (eqz x)) _ _ HP1). rewrite filter_app.
      rewrite (filter_true_id (fun x => negb (eqz x)) (tab (p*m) z)) by (intros x Hx; rewrite (Hzn x Hx); reflexivity).
      rewrite (filter_false_nil (fun x => negb (eqz x)) (repeat 0 m)).
      * rewrite app_nil_r. apply Permutation_refl.
      * intros x Hx. apply repeat_spec in Hx. subst x. rewrite Hz0. reflexivity.
    + rewrite (Permutation_length (perm_filter eqz _ _ HP1)). rewrite filter_app, app_length.
      rewrite (filter_false_nil eqz (tab (p*m) z) Hzn).
      rewrite (filter_true_id eqz (repeat 0 m)) by (intros x Hx; apply repeat_spec in Hx; subst x; exact Hz0).
      rewrite repeat_length. reflexivity.
  - exists sg, c. split; [intros k Hk; apply (Hb k Hk)|split; [exact Hinj|split; [exact Hsur|split]]].
    + intros k Hk Hlt. destruct (Hb k Hk) as [_ Hdk]. destruct (Hc k Hk Hlt) as [Hc0 Hcol].
      assert (Hcol': forall a, (a < N)%nat -> V a k = geo_vec K m p (z (sg k)) (zi (sg k)) (v (sg k)) a 0%nat * c k).
      { intros a Ha. rewrite (Hcol a Ha). unfold comp_modal. destruct (Nat.ltb_spec (sg k) (p*m)) as [_|]; [reflexivity|lia]. }
      split; [|split; [exact Hc0|split; [exact Hcol'|]]].
      * rewrite Hdk. unfold comp_lam. destruct (Nat.ltb_spec (sg k) (p*m)) as [_|]; [reflexivity|lia].
      * intros l r Hrl. destruct (Hroots (sg k) Hlt) as [Hz Hroot].
        pose proof (comp_shape R K Rth m p P Ad Bn Hm Hp HP (z (sg k)) (zi (sg k)) (v (sg k)) l Hroot ApInv Hinv) as Hshape.
        rewrite <- (Hshape r 0%nat Hrl Nat.lt_0_1). unfold fmul.
        rewrite <- (sumn_scal_r R K Rth). apply sumn_ext. intros a Ha. rewrite (Hcol' a Ha). ring.
    + intros k Hk Hge. destruct (Hb k Hk) as [Hlt Hdk]. rewrite Hdk. apply Hmu. lia.
Qed.
End PLevel.

(* ---------- level of the model: rmfd2ac with any solver meeting the solve contract ---------- *)
Section Body.
Variable solve : solver R.
Hypothesis Hsolve : forall d c A B X, solve d c A B = POk X -> feq d c (fm d A X) B.
Variables (m p:nat) (Ad Bn:nat -> fmat R) (Ac Cc:fmat R).
Hypothesis Hm : (0 < m)%nat.
Hypothesis Hp : (1 <= p)%nat.
Hypothesis Hcomp : rmfd2ac K solve m p Ad Bn = POk (Ac, Cc).
Notation N := (S p * m)%nat.
Variables (z zi:nat -> R) (v:nat -> fmat R) (ApInv:fmat R).
Hypothesis Hinv : feq m m (fm m ApInv (Ad p)) fI.
Hypothesis Hroots : forall j, (j < p*m)%nat -> z j * zi j = 1 /\ feq m 1 (polymat_apply K m p Ad (z j) (v j)) (fzero K).
Hypothesis Hdist : forall i j, (i < p*m)%nat -> (j < p*m)%nat -> i <> j -> z i <> z j.
Hypothesis Hvnz : forall j, (j < p*m)%nat -> ~ feq m 1 (v j) (fzero K).
Notation Phi := (comp_modal R K m p z zi v).

Theorem comp_modal_invertible :
  exists Phii:fmat R, feq N N (fm N Phi Phii) fI /\ feq N N (fm N Phii Phi) fI.
Proof.
  destruct (rmfd2ac_spec R K solve Hsolve m p Ad Bn Ac Cc Hcomp) as (P & HP & _ & _).
  exact (comp_modal_invertible_P m p P Ad Bn Hm Hp HP z zi v ApInv Hinv Hroots Hdist Hvnz).
Qed.

Variables (V W:fmat R) (d:nat -> R).
Hypothesis HV : feq N N (fm N Ac V) (fm N V (ediag K d)).
Hypothesis HWl : feq N N (fm N W V) fI.

Theorem companion_pole_count_free :
  Permutation (tab N d) (tab (p*m) z ++ repeat 0 m) /\
  (forall eqz:R -> bool, (forall x, eqz x = true <-> x = 0) ->
     Permutation (filter (fun x => negb (eqz x)) (tab N d)) (tab (p*m) z) /\ length (filter eqz (tab N d)) = m) /\
  exists (sg:nat -> nat) (c:nat -> R),
    (forall k, (k < N)%nat -> (sg k < N)%nat) /\
    (forall k k', (k < N)%nat -> (k' < N)%nat -> (sg k < p*m)%nat -> sg k = sg k' -> k = k') /\
    (forall j, (j < p*m)%nat -> exists k, (k < N)%nat /\ sg k = j) /\
    (forall k, (k < N)%nat -> (sg k < p*m)%nat ->
       d k = z (sg k) /\ c k <> 0 /\
       (forall a, (a < N)%nat -> V a k = geo_vec K m p (z (sg k)) (zi (sg k)) (v (sg k)) a 0%nat * c k) /\
       (forall l r, (r < l)%nat -> fm N Cc V r k = polymat_apply K m p Bn (z (sg k)) (v (sg k)) r 0%nat * c k)) /\
    (forall k, (k < N)%nat -> (p*m <= sg k)%nat -> d k = 0).
Proof.
  destruct (rmfd2ac_spec R K solve Hsolve m p Ad Bn Ac Cc Hcomp) as (P & HP & EA & EC).
  revert HV. rewrite EA, EC. intros HV'.
  exact (pole_count_P m p P Ad Bn Hm Hp HP z zi v ApInv Hinv Hroots Hdist Hvnz V W d HV' HWl).
Qed.
End Body.

(* the same with "non-zero root" said directly: in a field the inverse witness is 1/z *)
Theorem companion_pole_count_free_nz (solve:solver R)
  (Hsolve:forall d c A B X, solve d c A B = POk X -> feq d c (fm d A X) B)
  (m p:nat) (Ad Bn:nat -> fmat R) (Ac Cc:fmat R) :
  (0 < m)%nat -> (1 <= p)%nat ->
  rmfd2ac K solve m p Ad Bn = POk (Ac, Cc) ->
  let N := (S p * m)%nat in
  forall (z:nat -> R) (v:nat -> fmat R) (ApInv:fmat R),
  feq m m (fm m ApInv (Ad p)) fI ->
  (forall j, (j < p*m)%nat -> z j <> 0 /\ ~ feq m 1 (v j) (fzero K) /\
                              feq m 1 (polymat_apply K m p Ad (z j) (v j)) (fzero K)) ->
  (forall i j, (i < p*m)%nat -> (j < p*m)%nat -> i <> j -> z i <> z j) ->
  forall (V W:fmat R) (d:nat -> R),
  feq N N (fm N Ac V) (fm N V (ediag K d)) ->
  feq N N (fm N W V) fI ->
  Permutation (tab N d) (tab (p*m) z ++ repeat 0 m) /\
  (forall eqz:R -> bool, (forall x, eqz x = true <-> x = 0) ->
     Permutation (filter (fun x => negb (eqz x)) (tab N d)) (tab (p*m) z) /\ length (filter eqz (tab N d)) = m) /\
  exists (sg:nat -> nat) (c:nat -> R),
    (forall k, (k < N)%nat -> (sg k < N)%nat) /\
    (forall k k', (k < N)%nat -> (k' < N)%nat -> (sg k < p*m)%nat -> sg k = sg k' -> k = k') /\
    (forall j, (j < p*m)%nat -> exists k, (k < N)%nat /\ sg k = j) /\
    (forall k, (k < N)%nat -> (sg k < p*m)%nat ->
       d k = z (sg k) /\ c k <> 0 /\
       (forall a, (a < N)%nat -> V a k = geo_vec K m p (z (sg k)) (oinv K (z (sg k))) (v (sg k)) a 0%nat * c k) /\
       (forall l r, (r < l)%nat -> fm N Cc V r k = polymat_apply K m p Bn (z (sg k)) (v (sg k)) r 0%nat * c k)) /\
    (forall k, (k < N)%nat -> (p*m <= sg k)%nat -> d k = 0).
Proof.
  intros Hm Hp Hcomp N z v ApInv Hinv Hroots Hdist V W d HV HWl.
  assert (H1: forall j, (j < p*m)%nat -> z j * oinv K (z j) = 1 /\ feq m 1 (polymat_apply K m p Ad (z j) (v j)) (fzero K)).
  { intros j Hj. destruct (Hroots j Hj) as [Hz [_ Hr]]. split; [|exact Hr]. field. exact Hz. }
  assert (H2: forall j, (j < p*m)%nat -> ~ feq m 1 (v j) (fzero K)).
  { intros j Hj. destruct (Hroots j Hj) as [_ [Hn _]]. exact Hn. }
  exact (companion_pole_count_free solve Hsolve m p Ad Bn Ac Cc Hm Hp Hcomp z (fun j => oinv K (z j)) v ApInv Hinv
           H1 Hdist H2 V W d HV HWl).
Qed.
End C05dim.

(* ---------- real coefficients, complex spectrum ----------
   The code solves and builds the companion matrix in REAL arithmetic and hands it to np.linalg.eig, which works over the
   complex numbers.  Carrier K: a formally real field with decidable equality (Qc; classically the reals); KC = COps K. *)
Definition cofm {R:Type} (K:Ops R) (A:fmat R) : fmat (C R) := fun i j => cofR K (A i j).

Section CplxBridge.
Variable R:Type. Variable K:Ops R.
Hypothesis Fth : field_theory (o0 K) (o1 K) (oadd K) (omul K) (osub K) (oopp K) (odiv K) (oinv K) (@eq R).
Hypothesis Rdec : forall x y:R, {x = y} + {x <> y}.
Hypothesis Hreal : forall a b:R, oadd K (omul K a a) (omul K b b) = o0 K -> a = o0 K.
Add Field FfC05br : Fth.
Notation KC := (COps K).
Let Rth : ring_theory (o0 K) (o1 K) (oadd K) (omul K) (osub K) (oopp K) (@eq R) := F_R Fth.
Let CFth := cplx_field_theory R K Fth Hreal.
Let Cdec := cplx_dec R Rdec.
Let CRt := CRth R K Rth.

Lemma cof_sumn n (f:nat -> R) : sumn KC n (fun k => cofR K (f k)) = cofR K (sumn K n f).
Proof.
  induction n as [|n IH]; [reflexivity|].
  change (sumn KC (S n) (fun k => cofR K (f k))) with (cadd K (sumn KC n (fun k => cofR K (f k))) (cofR K (f n))).
  rewrite IH. change (sumn K (S n) f) with (oadd K (sumn K n f) (f n)).
  apply c_eq; cbn [cadd cofR cre cim fst snd]; ring.
Qed.
Lemma cof_mul a b : cmul K (cofR K a) (cofR K b) = cofR K (omul K a b).
Proof. apply c_eq; cbn [cmul cofR cre cim fst snd]; ring. Qed.
Lemma cof_fmul n (A B:fmat R) i j : fmul KC n (cofm K A) (cofm K B) i j = cofR K (fmul K n A B i j).
Proof.
  unfold fmul, cofm. rewrite <- cof_sumn. apply sumn_ext. intros k Hk. apply cof_mul.
Qed.
Lemma cof_feq a b (A B:fmat R) : feq a b A B -> feq a b (cofm K A) (cofm K B).
Proof. intros H i j Hi Hj. unfold cofm. rewrite (H i j Hi Hj). reflexivity. Qed.
Lemma cof_fid a : feq a a (cofm K (fid K)) (fid KC).
Proof. intros i j _ _. unfold cofm, fid. destruct (Nat.eqb i j); reflexivity. Qed.

Lemma cof_comp_mat m p (P:nat -> fmat R) a b :
  feq a b (cofm K (comp_mat K m p P)) (comp_mat KC m p (fun j => cofm K (P j))).
Proof.
  intros I J _ _. unfold cofm, comp_mat.
  destruct (Nat.ltb I m).
  - destruct (Nat.ltb J (p*m)); [|reflexivity]. apply c_eq; cbn [copp cofR cre cim fst snd oopp COps]; ring.
  - destruct (Nat.eqb (I-m) J); reflexivity.
Qed.
Lemma cof_out_mat m p (Bn P:nat -> fmat R) a b :
  feq a b (cofm K (out_mat K m p Bn P)) (out_mat KC m p (fun j => cofm K (Bn j)) (fun j => cofm K (P j))).
Proof.
  intros r J _ _. unfold out_mat. unfold cofm at 1.
  destruct (Nat.ltb J (p*m)); [|reflexivity].
  rewrite cof_fmul. unfold cofm. apply c_eq; cbn [csub cofR cre cim fst snd osub COps]; ring.
Qed.

Theorem companion_pole_count_real (solve:solver R)
  (Hsolve:forall d c A B X, solve d c A B = POk X -> feq d c (fmul K d A X) B)
  (m p:nat) (Ad Bn:nat -> fmat R) (Ac Cc:fmat R) :
  (0 < m)%nat -> (1 <= p)%nat ->
  rmfd2ac K solve m p Ad Bn = POk (Ac, Cc) ->
  let N := (S p * m)%nat in
  let AdC := fun i => cofm K (Ad i) in
  let BnC := fun i => cofm K (Bn i) in
  forall (z:nat -> C R) (v:nat -> fmat (C R)) (ApInv:fmat R),
  feq m m (fmul K m ApInv (Ad p)) (fid K) ->
  (forall j, (j < p*m)%nat -> z j <> c0 K /\ ~ feq m 1 (v j) (fzero KC) /\
                              feq m 1 (polymat_apply KC m p AdC (z j) (v j)) (fzero KC)) ->
  (forall i j, (i < p*m)%nat -> (j < p*m)%nat -> i <> j -> z i <> z j) ->
  forall (V W:fmat (C R)) (d:nat -> C R),
  feq N N (fmul KC N (cofm K Ac) V) (fmul KC N V (ediag KC d)) ->
  feq N N (fmul KC N W V) (fid KC) ->
  Permutation (tab N d) (tab (p*m) z ++ repeat (c0 K) m) /\
  (forall eqz:C R -> bool, (forall x, eqz x = true <-> x = c0 K) ->
     Permutation (filter (fun x => negb (eqz x)) (tab N d)) (tab (p*m) z) /\ length (filter eqz (tab N d)) = m) /\
  exists (sg:nat -> nat) (c:nat -> C R),
    (forall k, (k < N)%nat -> (sg k < N)%nat) /\
    (forall k k', (k < N)%nat -> (k' < N)%nat -> (sg k < p*m)%nat -> sg k = sg k' -> k = k') /\
    (forall j, (j < p*m)%nat -> exists k, (k < N)%nat /\ sg k = j) /\
    (forall k, (k < N)%nat -> (sg k < p*m)%nat ->
       d k = z (sg k) /\ c k <> c0 K /\
       (forall a, (a < N)%nat -> V a k = cmul K (geo_vec KC m p (z (sg k)) (cinv K (z (sg k))) (v (sg k)) a 0%nat) (c k)) /\
       (forall l r, (r < l)%nat ->
          fmul KC N (cofm K Cc) V r k = cmul K (polymat_apply KC m p BnC (z (sg k)) (v (sg k)) r 0%nat) (c k))) /\
    (forall k, (k < N)%nat -> (p*m <= sg k)%nat -> d k = c0 K).
Proof.
  intros Hm Hp Hcomp N AdC BnC z v ApInv Hinv Hroots Hdist V W d HV HWl.
  destruct (rmfd2ac_spec R K solve Hsolve m p Ad Bn Ac Cc Hcomp) as (P & HP & EA & EC). subst Ac Cc.
  set (PC := fun j => cofm K (P j)).
  assert (HPc: forall j, (j < p)%nat -> feq m m (fmul KC m (AdC p) (PC j)) (AdC j)).
  { intros j Hj i k Hi Hk. unfold AdC, PC. rewrite cof_fmul. unfold cofm. rewrite (HP j Hj i k Hi Hk). reflexivity. }
  assert (Hinvc: feq m m (fmul KC m (cofm K ApInv) (AdC p)) (fid KC)).
  { intros i k Hi Hk. unfold AdC. rewrite cof_fmul. rewrite (Hinv i k Hi Hk). exact (cof_fid m i k Hi Hk). }
  assert (HV': feq N N (fmul KC N (comp_mat KC m p PC) V) (fmul KC N V (ediag KC d))).
  { rewrite <- HV. apply (fmul_ext (C R) KC N N N); [|reflexivity]. symmetry. apply cof_comp_mat. }
  assert (H1: forall j, (j < p*m)%nat -> omul KC (z j) (cinv K (z j)) = o1 KC /\
                                         feq m 1 (polymat_apply KC m p AdC (z j) (v j)) (fzero KC)).
  { intros j Hj. destruct (Hroots j Hj) as [Hz [_ Hr]]. split; [|exact Hr].
    rewrite (Rmul_comm CRt). exact (Finv_l CFth (z j) Hz). }
  assert (H2: forall j, (j < p*m)%nat -> ~ feq m 1 (v j) (fzero KC)).
  { intros j Hj. destruct (Hroots j Hj) as [_ [Hn _]]. exact Hn. }
  destruct (pole_count_P (C R) KC CFth Cdec m p PC AdC BnC Hm Hp HPc z (fun j => cinv K (z j)) v (cofm K ApInv) Hinvc
              H1 Hdist H2 V W d HV' HWl) as [Q1 [Q2 [sg [c [Q3 [Q4 [Q5 [Q6 Q7]]]]]]]].
  split; [exact Q1|split; [exact Q2|]].
  exists sg, c. split; [exact Q3|split; [exact Q4|split; [exact Q5|split; [|exact Q7]]]].
  intros k Hk Hlt. destruct (Q6 k Hk Hlt) as [E1 [E2 [E3 E4]]].
  split; [exact E1|split; [exact E2|split; [exact E3|]]].
  intros l r Hrl. change (cmul K) with (omul KC). rewrite <- (E4 l r Hrl).
  assert (E: feq l N (fmul KC N (cofm K (out_mat K m p Bn P)) V) (fmul KC N (out_mat KC m p BnC PC) V)).
  { apply (fmul_ext (C R) KC l N N); [|reflexivity]. apply cof_out_mat. }
  exact (E r k Hrl Hk).
Qed.
End CplxBridge.

(* ---------- the Qc instance of Proofs/P_eigcount_c05.v meets the weaker hypotheses: non-zero roots, non-zero latent
   vectors, eigen-columns, LEFT inverse only; and the theorem then yields the pole list ---------- *)
From Coq Require Import QArith Qcanon.
From PyOMA.Base Require Import Show.
Local Close Scope Q_scope. Local Close Scope Qc_scope.

Lemma qc_eqz_sound (x:Qc) : qc_eqz x = true -> x = o0 QcOps.
Proof. unfold qc_eqz. intros H. apply Qeq_bool_eq in H. apply Qc_is_canon. exact H. Qed.

Lemma ec5_free_hyps :
  rmfd2ac QcOps qsolver 2 1 ec5_Ad ec5_Bn = POk (ec5_Ac, ec5_Cc) /\
  feq 2 2 (fmul QcOps 2 ec5_ApInv (ec5_Ad 1%nat)) (fid QcOps) /\
  (forall j, (j < 1 * 2)%nat -> ec5_z j <> o0 QcOps /\ ~ feq 2 1 (ec5_v j) (fzero QcOps) /\
                                feq 2 1 (polymat_apply QcOps 2 1 ec5_Ad (ec5_z j) (ec5_v j)) (fzero QcOps)) /\
  (forall i j, (i < 1 * 2)%nat -> (j < 1 * 2)%nat -> i <> j -> ec5_z i <> ec5_z j) /\
  feq 4 4 (fmul QcOps 4 ec5_Ac ec5_V) (fmul QcOps 4 ec5_V (ediag QcOps ec5_d)) /\
  feq 4 4 (fmul QcOps 4 ec5_W ec5_V) (fid QcOps).
Proof.
  destruct ec5_hyps as [H1 [H2 [H3 [H4 [_ [_ [H7 [H8 _]]]]]]]].
  split; [exact H1|split; [exact H2|split; [|split; [exact H4|split; [exact H7|exact H8]]]]].
  intros j Hj. destruct (H3 j Hj) as [_ Hr].
  split; [|split; [|exact Hr]].
  - destruct j as [|[|j]]; [| |lia]; intros E; vm_compute in E; discriminate E.
  - intros E. pose proof (E 0%nat 0%nat ltac:(lia) ltac:(lia)) as E0.
    destruct j as [|[|j]]; [| |lia]; vm_compute in E0; discriminate E0.
Qed.

Lemma ec5_free_conclusion :
  Permutation (tab 4 ec5_d) (tab 2 ec5_z ++ repeat (o0 QcOps) 2) /\
  tab 4 ec5_d = [o0 QcOps; ec5_z 1%nat; o0 QcOps; ec5_z 0%nat].
Proof.
  destruct ec5_free_hyps as [H1 [H2 [H3 [H4 [H5 H6]]]]].
  split; [|exact (proj2 (proj2 (proj2 (proj2 (proj2 (proj2 (proj2 (proj2 (proj2 ec5_hyps)))))))))].
  exact (proj1 (companion_pole_count_free_nz Qc QcOps QcFth Qc_eq_dec qsolver
           (gj_solver_contract Qc QcOps (F_R QcFth) qc_eqz qc_eqz_sound) 2 1 ec5_Ad ec5_Bn ec5_Ac ec5_Cc
           ltac:(lia) ltac:(lia) H1 ec5_z ec5_v ec5_ApInv H2 H3 H4 ec5_V ec5_W ec5_d H5 H6)).
Qed.

(* ---------- a Gaussian-rational instance with real coefficients and a complex pair of roots: m = 2, p = 2, N = 6,
   A(z) = [[2z^2-2z+1, z],[0, 6z^2-5z+1]]: latent pairs ((1+i)/2, (1,0)), ((1-i)/2, (1,0)), (1/2, (1,-1)), (1/3, (3,-5));
   the eigen-solver output lists the values as (0, (1-i)/2, 1/3, 0, (1+i)/2, 1/2), rescales the eigenvectors by
   i, 2, 1+i, -1 and mixes the two border vectors ---------- *)
Definition eg_Ad : nat -> fmat Qc :=
  fam_of [[[q 1 1; q 0 1];[q 0 1; q 1 1]]; [[q (-2) 1; q 1 1];[q 0 1; q (-5) 1]]; [[q 2 1; q 0 1];[q 0 1; q 6 1]]].
Definition eg_Bn : nat -> fmat Qc := fam_of [[[q 1 1; q 2 1]]; [[q 0 1; q (-1) 1]]; [[q 1 1; q 0 1]]].
Definition eg_Ac : fmat Qc := match rmfd2ac QcOps qsolver 2 2 eg_Ad eg_Bn with POk (Ac, _) => Ac | PLinAlgErr => fzero QcOps end.
Definition eg_Cc : fmat Qc := match rmfd2ac QcOps qsolver 2 2 eg_Ad eg_Bn with POk (_, Cc) => Cc | PLinAlgErr => fzero QcOps end.
Definition eg_ApInv : fmat Qc := ec5_m [[q 1 2; q 0 1];[q 0 1; q 1 6]].
Definition eg_z (j:nat) : C Qc :=
  match j with 0%nat => (q 1 2, q 1 2) | 1%nat => (q 1 2, q (-1) 2) | 2%nat => (q 1 2, q 0 1) | _ => (q 1 3, q 0 1) end.
Definition eg_cm (M:list (list (C Qc))) : fmat (C Qc) := fun i j => nth j (nth i M []) (c0 QcOps).
Definition eg_v (j:nat) : fmat (C Qc) :=
  match j with
  | 0%nat | 1%nat => eg_cm [[(q 1 1, q 0 1)];[(q 0 1, q 0 1)]]
  | 2%nat => eg_cm [[(q 1 1, q 0 1)];[(q (-1) 1, q 0 1)]]
  | _ => eg_cm [[(q 3 1, q 0 1)];[(q (-5) 1, q 0 1)]]
  end.
Definition eg_Phi : fmat (C Qc) := comp_modal (C Qc) (COps QcOps) 2 2 eg_z (fun j => cinv QcOps (eg_z j)) eg_v.
Definition eg_o : C Qc := (q 0 1, q 0 1).
Definition eg_Pm : fmat (C Qc) := eg_cm
  [[eg_o; eg_o; eg_o; eg_o; (q 1 1, q 1 1); eg_o];
   [eg_o; (q 0 1, q 1 1); eg_o; eg_o; eg_o; eg_o];
   [eg_o; eg_o; eg_o; eg_o; eg_o; (q (-1) 1, q 0 1)];
   [eg_o; eg_o; (q 2 1, q 0 1); eg_o; eg_o; eg_o];
   [(q 1 1, q 0 1); eg_o; eg_o; (q 1 1, q 0 1); eg_o; eg_o];
   [(q 1 1, q 0 1); eg_o; eg_o; (q (-1) 1, q 0 1); eg_o; eg_o]].
Definition eg_V : fmat (C Qc) := let L := tab2 6 6 (fmul (COps QcOps) 6 eg_Phi eg_Pm) in fun i j => nth j (nth i L []) (c0 QcOps).
Definition eg_ceqz (x:C Qc) : bool := qc_eqz (cre x) && qc_eqz (cim x).
Definition eg_W : fmat (C Qc) :=
  match gj_solver (COps QcOps) eg_ceqz 6 6 eg_V (fid (COps QcOps)) with POk X => X | PLinAlgErr => fzero (COps QcOps) end.
Definition eg_d (k:nat) : C Qc :=
  match k with 1%nat => eg_z 1 | 2%nat => eg_z 3 | 4%nat => eg_z 0 | 5%nat => eg_z 2 | _ => eg_o end.

Definition eg_isok {X:Type} (r:pres X) : bool := match r with POk _ => true | PLinAlgErr => false end.

Lemma eg_hyps :
  rmfd2ac QcOps qsolver 2 2 eg_Ad eg_Bn = POk (eg_Ac, eg_Cc) /\
  feq 2 2 (fmul QcOps 2 eg_ApInv (eg_Ad 2%nat)) (fid QcOps) /\
  (forall j, (j < 2 * 2)%nat -> eg_z j <> c0 QcOps /\ ~ feq 2 1 (eg_v j) (fzero (COps QcOps)) /\
     feq 2 1 (polymat_apply (COps QcOps) 2 2 (fun i => cofm QcOps (eg_Ad i)) (eg_z j) (eg_v j)) (fzero (COps QcOps))) /\
  (forall i j, (i < 2 * 2)%nat -> (j < 2 * 2)%nat -> i <> j -> eg_z i <> eg_z j) /\
  feq 6 6 (fmul (COps QcOps) 6 (cofm QcOps eg_Ac) eg_V) (fmul (COps QcOps) 6 eg_V (ediag (COps QcOps) eg_d)) /\
  feq 6 6 (fmul (COps QcOps) 6 eg_W eg_V) (fid (COps QcOps)).
Proof.
  split.
  { unfold eg_Ac, eg_Cc. destruct (rmfd2ac QcOps qsolver 2 2 eg_Ad eg_Bn) as [[Ac Cc]|] eqn:E; [reflexivity|].
    exfalso. assert (Hok: eg_isok (rmfd2ac QcOps qsolver 2 2 eg_Ad eg_Bn) = true) by (vm_compute; reflexivity).
    rewrite E in Hok. discriminate Hok. }
  split; [apply ec_feqb_sound; vm_compute; reflexivity|].
  split.
  { intros j Hj. split; [|split].
    - destruct j as [|[|[|[|j]]]]; [| | | |lia]; intros E; vm_compute in E; discriminate E.
    - intros E. pose proof (E 0%nat 0%nat ltac:(lia) ltac:(lia)) as E0.
      destruct j as [|[|[|[|j]]]]; [| | | |lia]; vm_compute in E0; discriminate E0.
    - destruct j as [|[|[|[|j]]]]; [| | | |lia]; apply ec_cfeqb_sound; vm_compute; reflexivity. }
  split.
  { intros i j Hi Hj Hne E.
    destruct i as [|[|[|[|i]]]]; [| | | |lia]; destruct j as [|[|[|[|j]]]]; try lia; vm_compute in E; discriminate E. }
  split; apply ec_cfeqb_sound; vm_compute; reflexivity.
Qed.

Lemma eg_conclusion :
  Permutation (tab 6 eg_d) (tab 4 eg_z ++ repeat (c0 QcOps) 2) /\
  tab 6 eg_d = [c0 QcOps; eg_z 1%nat; eg_z 3%nat; c0 QcOps; eg_z 0%nat; eg_z 2%nat].
Proof.
  destruct eg_hyps as [H1 [H2 [H3 [H4 [H5 H6]]]]].
  split; [|reflexivity].
  exact (proj1 (companion_pole_count_real Qc QcOps QcFth Qc_eq_dec qc_formally_real qsolver
           (gj_solver_contract Qc QcOps (F_R QcFth) qc_eqz qc_eqz_sound) 2 2 eg_Ad eg_Bn eg_Ac eg_Cc
           ltac:(lia) ltac:(lia) H1 eg_z eg_v eg_ApInv H2 H3 H4 eg_V eg_W eg_d H5 H6)).
Qed.
