(* C20 - proofs about Model/M_plot.v: column-major flatten index law, exactness of the stabilisation and cluster
   markers (for every table, NaN pattern, label table, step, hide flag), marker y-value = column read by extraction,
   CMIF curves.  Closed under the global context. *)
From Coq Require Import String List Arith ZArith QArith Qabs Bool Lia ZifyBool Lqa.
From PyOMA.Base Require Import Argmin.
From PyOMA.Model Require Import M_plot.
Import ListNotations.

(* ------------------------------------------------------------------ generic list facts *)
Lemma nth_error_seq0 n k : (k < n)%nat -> nth_error (seq 0 n) k = Some k.
Proof.
  intros Hk. rewrite (nth_error_nth' (seq 0 n) 0%nat) by (rewrite seq_length; exact Hk).
  rewrite seq_nth by exact Hk. reflexivity.
Qed.
Lemma nth_error_map_opt {A B} (f:A->B) l k : nth_error (map f l) k = option_map f (nth_error l k).
Proof. revert k. induction l as [|a l IH]; intros [|k]; cbn; auto. Qed.
Lemma flat_map_map_comp {A B C} (f:B->list C) (g:A->B) l : flat_map f (map g l) = flat_map (fun x => f (g x)) l.
Proof. induction l as [|a l IH]; cbn; [reflexivity|]. rewrite IH. reflexivity. Qed.
Lemma filter_as_flat_map {A} (p:A->bool) l : filter p l = flat_map (fun x => if p x then [x] else []) l.
Proof. induction l as [|a l IH]; cbn; [reflexivity|]. rewrite IH. destruct (p a); reflexivity. Qed.
Lemma flat_map_length_const {A B} (g:A->list B) m l :
  (forall j, In j l -> length (g j) = m) -> length (flat_map g l) = (length l * m)%nat.
Proof.
  induction l as [|a l IH]; intros H; cbn; [reflexivity|].
  rewrite app_length, IH by (intros; apply H; right; assumption). rewrite H by (left; reflexivity). lia.
Qed.
Lemma Forall2_flat_map {A B C} (R:B->C->Prop) (g:A->list B) (h:A->list C) l :
  (forall k, In k l -> Forall2 R (g k) (h k)) -> Forall2 R (flat_map g l) (flat_map h l).
Proof.
  induction l as [|a l IH]; intros H; cbn; [constructor|].
  apply Forall2_app; [apply H; left; reflexivity | apply IH; intros; apply H; right; assumption].
Qed.
Lemma Forall2_In_r {A B} (R:A->B->Prop) l1 l2 m : Forall2 R l1 l2 -> In m l2 -> exists c, In c l1 /\ R c m.
Proof.
  induction 1 as [|a b l1 l2 Hab _ IH]; intros Hin; [destruct Hin|].
  destruct Hin as [<-|Hin]; [exists a; split; [left; reflexivity|exact Hab]|].
  destruct (IH Hin) as (c & Hc & Hr). exists c. split; [right; exact Hc|exact Hr].
Qed.
Lemma Forall2_In_l {A B} (R:A->B->Prop) l1 l2 c : Forall2 R l1 l2 -> In c l1 -> exists m, In m l2 /\ R c m.
Proof.
  induction 1 as [|a b l1 l2 Hab _ IH]; intros Hin; [destruct Hin|].
  destruct Hin as [<-|Hin]; [exists b; split; [left; reflexivity|exact Hab]|].
  destruct (IH Hin) as (m & Hm & Hr). exists m. split; [right; exact Hm|exact Hr].
Qed.
Lemma NoDup_map_inj_in {A B} (f:A->B) l :
  (forall x y, In x l -> In y l -> f x = f y -> x = y) -> NoDup l -> NoDup (map f l).
Proof.
  induction l as [|a l IH]; intros Hinj Hnd; cbn; [constructor|].
  inversion Hnd as [|? ? Hna Hnd']; subst. constructor.
  - intros Hin. apply in_map_iff in Hin. destruct Hin as (x & Hfx & Hx).
    assert (x = a) by (apply Hinj; [right; exact Hx|left; reflexivity|exact Hfx]). subst. contradiction.
  - apply IH; [|exact Hnd']. intros x y Hx Hy. apply Hinj; right; assumption.
Qed.
Lemma NoDup_filter' {A} (p:A->bool) l : NoDup l -> NoDup (filter p l).
Proof.
  induction 1 as [|a l Hna _ IH]; cbn; [constructor|].
  destruct (p a); [|exact IH]. constructor; [|exact IH]. intros Hin. apply filter_In in Hin. tauto.
Qed.

(* equal-length blocks: flat_map g (seq s n) is read block by block *)
Lemma flat_map_blocks {A} (g:nat->list A) m : forall n s,
  (forall j, (s <= j < s + n)%nat -> length (g j) = m) ->
  forall k, (k < n * m)%nat -> nth_error (flat_map g (seq s n)) k = nth_error (g (s + k / m)%nat) (k mod m).
Proof.
  induction n as [|n IH]; intros s Hlen k Hk; [lia|].
  assert (Hm : (0 < m)%nat) by nia.
  cbn [seq flat_map]. destruct (lt_dec k m) as [Hlt|Hge].
  - rewrite nth_error_app1 by (rewrite Hlen by lia; exact Hlt).
    rewrite Nat.div_small, Nat.mod_small by exact Hlt. rewrite Nat.add_0_r. reflexivity.
  - rewrite nth_error_app2 by (rewrite Hlen by lia; lia). rewrite Hlen by lia.
    remember (k - m)%nat as a eqn:Ea. assert (Hka : k = (a + 1 * m)%nat) by lia.
    rewrite IH by (try (intros; apply Hlen); nia).
    rewrite Hka. rewrite Nat.div_add, Nat.mod_add by lia.
    replace (s + (a / m + 1))%nat with (S s + a / m)%nat by lia. reflexivity.
Qed.

(* ------------------------------------------------------------------ tables *)

Lemma rectb_iff {A} rows cols (t:list (list A)) : rectb rows cols t = true <-> rect rows cols t.
Proof.
  unfold rectb, rect. rewrite andb_true_iff, Nat.eqb_eq, forallb_forall, Forall_forall.
  split; intros [H1 H2]; (split; [exact H1|]); intros r Hr; specialize (H2 r Hr); apply Nat.eqb_eq; exact H2.
Qed.

Lemma get2_cons_0 {A} (r:list A) t j : get2 (r :: t) 0 j = nth_error r j.
Proof. reflexivity. Qed.
Lemma get2_cons_S {A} (r:list A) t i j : get2 (r :: t) (S i) j = get2 t i j.
Proof. reflexivity. Qed.

Lemma column_nth {A} cols (t:list (list A)) j : Forall (fun r => length r = cols) t -> (j < cols)%nat ->
  forall i, nth_error (column j t) i = get2 t i j.
Proof.
  intros Hall Hj. induction Hall as [|r t Hr _ IH]; intros i.
  - unfold get2. destruct i; reflexivity.
  - unfold column. cbn [flat_map]. fold (column j t).
    destruct (nth_error r j) as [x|] eqn:E.
    + destruct i as [|i]; cbn [app nth_error]; [rewrite get2_cons_0; symmetry; exact E|].
      rewrite get2_cons_S. apply IH.
    + apply nth_error_None in E. lia.
Qed.
Lemma column_length {A} cols (t:list (list A)) j : Forall (fun r => length r = cols) t -> (j < cols)%nat ->
  length (column j t) = length t.
Proof.
  intros Hall Hj. induction Hall as [|r t Hr _ IH]; [reflexivity|].
  unfold column. cbn [flat_map]. fold (column j t).
  destruct (nth_error r j) as [x|] eqn:E; [cbn; rewrite IH; reflexivity|].
  apply nth_error_None in E. lia.
Qed.

Lemma rect_ncols {A} rows cols (t:list (list A)) : rect rows cols t -> (0 < rows)%nat -> ncols t = cols.
Proof.
  intros [Hl Hall] Hr. destruct t as [|r t]; [cbn in Hl; lia|]. inversion Hall as [|? ? Hr' _]. exact Hr'.
Qed.

(* THE FLATTEN LAW: element k of t.flatten(order="F") is t[k mod rows][k div rows] *)
Lemma flatten_F_index {A} rows cols (t:list (list A)) k : rect rows cols t -> (k < rows * cols)%nat ->
  nth_error (flattenF t) k = get2 t (k mod rows) (k / rows).
Proof.
  intros Hrect Hk. assert (Hr : (0 < rows)%nat) by nia.
  pose proof (rect_ncols _ _ _ Hrect Hr) as Hnc. destruct Hrect as [Hl Hall].
  unfold flattenF. rewrite Hnc.
  assert (Hdiv : (k / rows < cols)%nat) by (apply Nat.div_lt_upper_bound; lia).
  rewrite (flat_map_blocks (fun j => column j t) rows cols 0).
  - cbn [Nat.add]. apply (column_nth cols); assumption.
  - intros j Hj. rewrite (column_length cols) by (try assumption; lia). exact Hl.
  - lia.
Qed.
Lemma flattenF_length {A} rows cols (t:list (list A)) : rect rows cols t -> length (flattenF t) = (rows * cols)%nat.
Proof.
  intros Hrect. destruct (Nat.eq_dec rows 0) as [->|Hr].
  - destruct Hrect as [Hl _]. destruct t; [reflexivity|discriminate].
  - pose proof (rect_ncols _ _ _ Hrect ltac:(lia)) as Hnc. destruct Hrect as [Hl Hall].
    unfold flattenF. rewrite Hnc. rewrite (flat_map_length_const _ rows).
    + rewrite seq_length. lia.
    + intros j Hj. apply in_seq in Hj. rewrite (column_length cols) by (try assumption; lia). exact Hl.
Qed.

Lemma rect_get2 {A} rows cols (t:list (list A)) i o : rect rows cols t -> (i < rows)%nat -> (o < cols)%nat ->
  exists v, get2 t i o = Some v.
Proof.
  intros [Hl Hall] Hi Ho. unfold get2.
  destruct (nth_error t i) as [r|] eqn:E; [|apply nth_error_None in E; lia].
  assert (Hlen : length r = cols) by (rewrite Forall_forall in Hall; apply Hall; eapply nth_error_In; exact E).
  destruct (nth_error r o) as [v|] eqn:E2; [eauto|apply nth_error_None in E2; lia].
Qed.
Lemma get2_range {A} rows cols (t:list (list A)) i o v : rect rows cols t -> get2 t i o = Some v -> (i < rows /\ o < cols)%nat.
Proof.
  intros [Hl Hall] H. unfold get2 in H. destruct (nth_error t i) as [r|] eqn:E; [|discriminate].
  assert (Hlen : length r = cols) by (rewrite Forall_forall in Hall; apply Hall; eapply nth_error_In; exact E).
  split; [rewrite <- Hl; apply nth_error_Some; congruence | rewrite <- Hlen; apply nth_error_Some; congruence].
Qed.

(* zipw *)
Lemma zipw_nth_error {A B C} (f:A->B->C) a b i :
  nth_error (zipw f a b) i = match nth_error a i, nth_error b i with Some x, Some y => Some (f x y) | _, _ => None end.
Proof.
  revert b i. induction a as [|x a IH]; intros b i.
  - cbn. destruct i; reflexivity.
  - destruct b as [|y b].
    + cbn [zipw]. destruct i as [|i]; cbn; [reflexivity|]. destruct (nth_error a i); reflexivity.
    + destruct i as [|i]; cbn; [reflexivity|apply IH].
Qed.
Lemma zipw_length {A B C} (f:A->B->C) a b : length a = length b -> length (zipw f a b) = length a.
Proof.
  revert b. induction a as [|x a IH]; intros [|y b] H; cbn in *; try reflexivity; try discriminate.
  rewrite IH by lia. reflexivity.
Qed.
Lemma zipw_Forall_length {A B C} (f:A->B->C) n (a:list (list A)) (b:list (list B)) :
  Forall (fun r => length r = n) a -> Forall (fun r => length r = n) b ->
  Forall (fun r => length r = n) (zipw (zipw f) a b).
Proof.
  intros Ha. revert b. induction Ha as [|x a Hx _ IH]; intros b Hb; [constructor|].
  destruct Hb as [|y b Hy Hb]; cbn; constructor; [rewrite zipw_length; congruence|apply IH; exact Hb].
Qed.

Lemma where_lab_rect {X} l rows cols Lab (T:list (list (option X))) :
  rect rows cols Lab -> rect rows cols T -> rect rows cols (where_lab l Lab T).
Proof.
  intros [Hl1 Ha1] [Hl2 Ha2]. split.
  - unfold where_lab. rewrite zipw_length; congruence.
  - apply zipw_Forall_length; assumption.
Qed.
Lemma where_lab_get2 {X} l Lab (T:list (list (option X))) i o lb v :
  get2 Lab i o = Some lb -> get2 T i o = Some v ->
  get2 (where_lab l Lab T) i o = Some (if Z.eqb lb l then v else None).
Proof.
  unfold get2, where_lab. intros H1 H2. rewrite zipw_nth_error.
  destruct (nth_error Lab i) as [ra|]; [|discriminate]. destruct (nth_error T i) as [rb|]; [|discriminate].
  rewrite zipw_nth_error, H1, H2. reflexivity.
Qed.

(* index presentation of the finite points *)
Lemma flat_map_seq_S {B} (h:nat->list B) n : flat_map h (seq 0 (S n)) = h 0%nat ++ flat_map (fun k => h (S k)) (seq 0 n).
Proof. cbn [seq flat_map]. rewrite <- seq_shift, flat_map_map_comp. reflexivity. Qed.

Lemma pts_index {X Y} (x:list (option X)) : forall (y:list Y) N, length x = N -> length y = N ->
  pts x y = flat_map (fun k => match nth_error x k, nth_error y k with
                               | Some (Some f), Some v => [(f, v)] | _, _ => [] end) (seq 0 N).
Proof.
  induction x as [|a x IH]; intros y N Hx Hy.
  - cbn in Hx. subst N. reflexivity.
  - destruct y as [|b y]; [cbn in *; lia|]. destruct N as [|N]; [discriminate|].
    rewrite flat_map_seq_S. unfold pts. cbn [combine flat_map fst snd nth_error]. fold (pts x y).
    rewrite (IH y N) by (cbn in *; lia). destruct a; reflexivity.
Qed.
Lemma pts2_index {X Y} (x:list (option X)) : forall (y:list (option Y)) N, length x = N -> length y = N ->
  pts2 x y = flat_map (fun k => match nth_error x k, nth_error y k with
                                | Some (Some f), Some (Some d) => [(f, d)] | _, _ => [] end) (seq 0 N).
Proof.
  induction x as [|a x IH]; intros y N Hx Hy.
  - cbn in Hx. subst N. reflexivity.
  - destruct y as [|b y]; [cbn in *; lia|]. destruct N as [|N]; [discriminate|].
    rewrite flat_map_seq_S. unfold pts2. cbn [combine flat_map nth_error]. fold (pts2 x y).
    rewrite (IH y N) by (cbn in *; lia). destruct a, b; reflexivity.
Qed.

(* ------------------------------------------------------------------ cells *)
Definition cell_of (rows k:nat) : nat*nat := (k mod rows, k / rows)%nat.
Definition cells (rows cols:nat) (p:nat*nat->bool) : list (nat*nat) :=
  filter p (map (cell_of rows) (seq 0 (rows * cols))).

Lemma cells_NoDup rows cols p : NoDup (cells rows cols p).
Proof.
  unfold cells. apply NoDup_filter'. apply NoDup_map_inj_in; [|apply seq_NoDup].
  intros x y Hx Hy Hxy. apply in_seq in Hx. apply in_seq in Hy. unfold cell_of in Hxy. inversion Hxy as [[Hm Hd]].
  assert (Hr : rows <> 0%nat) by nia.
  rewrite (Nat.div_mod x rows Hr), (Nat.div_mod y rows Hr). rewrite Hm, Hd. reflexivity.
Qed.
Lemma cells_In rows cols p i o : In (i, o) (cells rows cols p) <-> (i < rows /\ o < cols)%nat /\ p (i, o) = true.
Proof.
  unfold cells. rewrite filter_In, in_map_iff. split.
  - intros [(k & Hk & Hin) Hp]. apply in_seq in Hin. unfold cell_of in Hk. inversion Hk; subst.
    assert (Hr : rows <> 0%nat) by nia. split; [|exact Hp]. split.
    + apply Nat.mod_upper_bound. exact Hr.
    + apply Nat.div_lt_upper_bound; lia.
  - intros [[Hi Ho] Hp]. split; [|exact Hp]. exists (i + o * rows)%nat. split.
    + unfold cell_of. rewrite Nat.mod_add, Nat.div_add by lia.
      rewrite Nat.mod_small, Nat.div_small by exact Hi. reflexivity.
    + apply in_seq. nia.
Qed.

(* ------------------------------------------------------------------ stabilisation diagram *)
Definition sel {X} (l:Z) (Fn:list (list (option X))) (Lab:list (list Z)) (c:nat*nat) : bool :=
  match get2 Lab (fst c) (snd c), get2 Fn (fst c) (snd c) with
  | Some lb, Some (Some _) => Z.eqb lb l
  | _, _ => false
  end.

Lemma sel_iff {X} l (Fn:list (list (option X))) Lab rows cols i o : rect rows cols Fn -> rect rows cols Lab ->
  ((i < rows /\ o < cols)%nat /\ sel l Fn Lab (i, o) = true) <-> pole_with_label Fn Lab l rows cols i o.
Proof.
  intros HF HL. unfold sel, pole_with_label. cbn [fst snd]. split.
  - intros [[Hi Ho] H]. destruct (get2 Lab i o) as [lb|]; [|discriminate].
    destruct (get2 Fn i o) as [[f|]|]; try discriminate. apply Z.eqb_eq in H. subst. repeat split; eauto.
  - intros (Hi & Ho & HLab & f & HFn). rewrite HLab, HFn. split; [split; assumption|apply Z.eqb_refl].
Qed.

Lemma order_axis_nth rows n step k : (k < n)%nat ->
  nth_error (order_axis rows n step) k = Some (Z.of_nat (k / rows) * step)%Z.
Proof. intros Hk. unfold order_axis. rewrite nth_error_map_opt, nth_error_seq0 by exact Hk. reflexivity. Qed.
Lemma order_axis_length rows n step : length (order_axis rows n step) = n.
Proof. unfold order_axis. rewrite map_length, seq_length. reflexivity. Qed.

Lemma stab_half {X} l rows cols (Fn:list (list (option X))) Lab step : rect rows cols Fn -> rect rows cols Lab ->
  Forall2 (marker_at Fn step) (cells rows cols (sel l Fn Lab))
          (pts (flattenF (where_lab l Lab Fn)) (order_axis rows (rows * cols) step)).
Proof.
  intros HF HL. pose proof (where_lab_rect l rows cols Lab Fn HL HF) as HW.
  rewrite (pts_index _ _ (rows * cols)) by (try apply flattenF_length; try apply order_axis_length; assumption).
  unfold cells. rewrite filter_as_flat_map, flat_map_map_comp.
  apply Forall2_flat_map. intros k Hk. apply in_seq in Hk.
  rewrite (flatten_F_index rows cols) by (try assumption; lia). rewrite order_axis_nth by lia.
  assert (Hr : rows <> 0%nat) by nia.
  assert (Hi : (k mod rows < rows)%nat) by (apply Nat.mod_upper_bound; exact Hr).
  assert (Ho : (k / rows < cols)%nat) by (apply Nat.div_lt_upper_bound; lia).
  destruct (rect_get2 _ _ _ _ _ HL Hi Ho) as (lb & HLab). destruct (rect_get2 _ _ _ _ _ HF Hi Ho) as (v & HFn).
  rewrite (where_lab_get2 l Lab Fn _ _ lb v HLab HFn).
  unfold sel, cell_of. cbn [fst snd]. rewrite HLab, HFn.
  destruct v as [f|]; destruct (Z.eqb lb l); try (apply Forall2_nil).
  apply Forall2_cons; [|apply Forall2_nil]. unfold marker_at. cbn [fst snd]. split; [exact HFn|reflexivity].
Qed.

Lemma stab_markers_unfold {X} rows cols (Fn:list (list (option X))) Lab step hide : rect rows cols Fn -> rect rows cols Lab ->
  stab_markers Fn Lab step hide =
  (pts (flattenF (where_lab 1 Lab Fn)) (order_axis rows (rows * cols) step),
   if hide then [] else pts (flattenF (where_lab 0 Lab Fn)) (order_axis rows (rows * cols) step)).
Proof.
  intros HF HL. unfold stab_markers.
  pose proof (where_lab_rect 1 rows cols Lab Fn HL HF) as H1. pose proof (where_lab_rect 0 rows cols Lab Fn HL HF) as H0.
  rewrite (flattenF_length rows cols _ H1). destruct H1 as [E1 _]. destruct H0 as [E0 _]. rewrite E1, E0.
  destruct hide; reflexivity.
Qed.

(* STABILISATION DIAGRAM, exactness.  cs / cu enumerate, without repetition, exactly the retained poles labelled 1 / 0;
   the stable (unstable) markers are in one-to-one positional correspondence with cs (cu): one marker per pole, at
   (its frequency, its column times step); when hide = true there is no unstable marker; a rejected pole (nan) or a
   cell outside the table is in neither enumeration, hence has no marker. *)
Theorem stab_exact {X} rows cols (Fn:list (list (option X))) Lab step hide : rect rows cols Fn -> rect rows cols Lab ->
  exists cs cu : list (nat*nat),
    NoDup cs /\ (forall i o, In (i, o) cs <-> pole_with_label Fn Lab 1 rows cols i o) /\
    Forall2 (marker_at Fn step) cs (fst (stab_markers Fn Lab step hide)) /\
    NoDup cu /\ (forall i o, In (i, o) cu <-> hide = false /\ pole_with_label Fn Lab 0 rows cols i o) /\
    Forall2 (marker_at Fn step) cu (snd (stab_markers Fn Lab step hide)).
Proof.
  intros HF HL. rewrite (stab_markers_unfold rows cols) by assumption. cbn [fst snd].
  exists (cells rows cols (sel 1 Fn Lab)), (if hide then [] else cells rows cols (sel 0 Fn Lab)).
  split; [apply cells_NoDup|]. split; [intros i o; rewrite cells_In; apply sel_iff; assumption|].
  split; [apply stab_half; assumption|].
  destruct hide.
  - split; [constructor|]. split; [|constructor]. intros i o. split; [intros []|intros [H _]; discriminate].
  - split; [apply cells_NoDup|]. split; [|apply stab_half; assumption].
    intros i o. rewrite cells_In, (sel_iff 0 Fn Lab rows cols) by assumption. tauto.
Qed.

(* every marker is a retained pole of the table with that label (no marker for rejected poles, none invented) *)
Corollary stab_marker_sound {X} rows cols (Fn:list (list (option X))) Lab step hide f y :
  rect rows cols Fn -> rect rows cols Lab ->
  (In (f, y) (fst (stab_markers Fn Lab step hide)) ->
     exists i o, pole_with_label Fn Lab 1 rows cols i o /\ get2 Fn i o = Some (Some f) /\ y = (Z.of_nat o * step)%Z) /\
  (In (f, y) (snd (stab_markers Fn Lab step hide)) ->
     hide = false /\ exists i o, pole_with_label Fn Lab 0 rows cols i o /\ get2 Fn i o = Some (Some f) /\ y = (Z.of_nat o * step)%Z).
Proof.
  intros HF HL. destruct (stab_exact rows cols Fn Lab step hide HF HL) as (cs & cu & _ & Hcs & F1 & _ & Hcu & F2).
  split; intros Hin.
  - destruct (Forall2_In_r _ _ _ _ F1 Hin) as ([i o] & Hc & Hm & Hy). exists i, o. cbn [fst snd] in *.
    split; [apply Hcs; exact Hc|]. split; assumption.
  - destruct (Forall2_In_r _ _ _ _ F2 Hin) as ([i o] & Hc & Hm & Hy). apply Hcu in Hc. destruct Hc as [Hh Hp].
    split; [exact Hh|]. exists i, o. cbn [fst snd] in *. split; [exact Hp|]. split; assumption.
Qed.

(* with labels in {0,1} (what SC_apply produces) and hide = false, every retained pole has its marker in exactly one of
   the two families: the unstable markers are "every other retained pole" *)
Corollary stab_complete_binary {X} rows cols (Fn:list (list (option X))) Lab step :
  rect rows cols Fn -> rect rows cols Lab ->
  (forall i o lb, get2 Lab i o = Some lb -> lb = 0%Z \/ lb = 1%Z) ->
  forall i o f, (i < rows)%nat -> (o < cols)%nat -> get2 Fn i o = Some (Some f) ->
    (pole_with_label Fn Lab 1 rows cols i o /\ ~ pole_with_label Fn Lab 0 rows cols i o /\
       In (f, (Z.of_nat o * step)%Z) (fst (stab_markers Fn Lab step false))) \/
    (pole_with_label Fn Lab 0 rows cols i o /\ ~ pole_with_label Fn Lab 1 rows cols i o /\
       In (f, (Z.of_nat o * step)%Z) (snd (stab_markers Fn Lab step false))).
Proof.
  intros HF HL Hbin i o f Hi Ho HFn.
  destruct (stab_exact rows cols Fn Lab step false HF HL) as (cs & cu & _ & Hcs & F1 & _ & Hcu & F2).
  destruct (rect_get2 _ _ _ _ _ HL Hi Ho) as (lb & HLab).
  assert (Hmk : forall (ms:list (X*Z)) (cl:list (nat*nat)), Forall2 (marker_at Fn step) cl ms -> In (i, o) cl -> In (f, (Z.of_nat o * step)%Z) ms).
  { intros ms cl F Hin. destruct (Forall2_In_l _ _ _ _ F Hin) as ([f' y'] & Hm & Hg & Hy). cbn [fst snd] in *.
    rewrite HFn in Hg. inversion Hg; subst. exact Hm. }
  destruct (Hbin _ _ _ HLab) as [-> | ->].
  - right. assert (P0 : pole_with_label Fn Lab 0 rows cols i o) by (repeat split; eauto).
    split; [exact P0|]. split.
    + intros (_ & _ & H1 & _). rewrite HLab in H1. discriminate.
    + apply (Hmk _ cu F2). apply Hcu. split; [reflexivity|exact P0].
  - left. assert (P1 : pole_with_label Fn Lab 1 rows cols i o) by (repeat split; eauto).
    split; [exact P1|]. split.
    + intros (_ & _ & H0 & _). rewrite HLab in H0. discriminate.
    + apply (Hmk _ cs F1). apply Hcs. exact P1.
Qed.

(* ------------------------------------------------------------------ cluster diagram *)
Definition sel2 {X} (l:Z) (Fn Xi:list (list (option X))) (Lab:list (list Z)) (c:nat*nat) : bool :=
  match get2 Lab (fst c) (snd c), get2 Fn (fst c) (snd c), get2 Xi (fst c) (snd c) with
  | Some lb, Some (Some _), Some (Some _) => Z.eqb lb l
  | _, _, _ => false
  end.

Lemma sel2_iff {X} l (Fn Xi:list (list (option X))) Lab rows cols i o :
  ((i < rows /\ o < cols)%nat /\ sel2 l Fn Xi Lab (i, o) = true) <-> pole2_with_label Fn Xi Lab l rows cols i o.
Proof.
  unfold sel2, pole2_with_label, pole_with_label. cbn [fst snd]. split.
  - intros [[Hi Ho] H]. destruct (get2 Lab i o) as [lb|]; [|discriminate].
    destruct (get2 Fn i o) as [[f|]|]; try discriminate. destruct (get2 Xi i o) as [[d|]|]; try discriminate.
    apply Z.eqb_eq in H. subst. repeat split; eauto.
  - intros ((Hi & Ho & HLab & f & HFn) & d & HXi). rewrite HLab, HFn, HXi. split; [split; assumption|apply Z.eqb_refl].
Qed.

Lemma cluster_half {X} l rows cols (Fn Xi:list (list (option X))) Lab :
  rect rows cols Fn -> rect rows cols Xi -> rect rows cols Lab ->
  Forall2 (cluster_at Fn Xi) (cells rows cols (sel2 l Fn Xi Lab))
          (pts2 (flattenF (where_lab l Lab Fn)) (flattenF (where_lab l Lab Xi))).
Proof.
  intros HF HX HL. pose proof (where_lab_rect l rows cols Lab Fn HL HF) as HW.
  pose proof (where_lab_rect l rows cols Lab Xi HL HX) as HW2.
  rewrite (pts2_index _ _ (rows * cols)) by (apply flattenF_length; assumption).
  unfold cells. rewrite filter_as_flat_map, flat_map_map_comp.
  apply Forall2_flat_map. intros k Hk. apply in_seq in Hk.
  rewrite !(flatten_F_index rows cols) by (try assumption; lia).
  assert (Hr : rows <> 0%nat) by nia.
  assert (Hi : (k mod rows < rows)%nat) by (apply Nat.mod_upper_bound; exact Hr).
  assert (Ho : (k / rows < cols)%nat) by (apply Nat.div_lt_upper_bound; lia).
  destruct (rect_get2 _ _ _ _ _ HL Hi Ho) as (lb & HLab). destruct (rect_get2 _ _ _ _ _ HF Hi Ho) as (v & HFn).
  destruct (rect_get2 _ _ _ _ _ HX Hi Ho) as (w & HXi).
  rewrite (where_lab_get2 l Lab Fn _ _ lb v HLab HFn), (where_lab_get2 l Lab Xi _ _ lb w HLab HXi).
  unfold sel2, cell_of. cbn [fst snd]. rewrite HLab, HFn, HXi.
  destruct v as [f|]; destruct w as [d|]; destruct (Z.eqb lb l); try (apply Forall2_nil).
  apply Forall2_cons; [|apply Forall2_nil]. unfold cluster_at. cbn [fst snd]. split; assumption.
Qed.

(* CLUSTER DIAGRAM, exactness: one marker at (frequency, damping) per retained pole (finite frequency and damping)
   labelled 1, and - iff hide = false - one per retained pole labelled 0; nothing else. *)
Theorem cluster_exact {X} rows cols (Fn Xi:list (list (option X))) Lab hide :
  rect rows cols Fn -> rect rows cols Xi -> rect rows cols Lab ->
  exists cs cu : list (nat*nat),
    NoDup cs /\ (forall i o, In (i, o) cs <-> pole2_with_label Fn Xi Lab 1 rows cols i o) /\
    Forall2 (cluster_at Fn Xi) cs (fst (cluster_markers Fn Xi Lab hide)) /\
    NoDup cu /\ (forall i o, In (i, o) cu <-> hide = false /\ pole2_with_label Fn Xi Lab 0 rows cols i o) /\
    Forall2 (cluster_at Fn Xi) cu (snd (cluster_markers Fn Xi Lab hide)).
Proof.
  intros HF HX HL.
  exists (cells rows cols (sel2 1 Fn Xi Lab)), (if hide then [] else cells rows cols (sel2 0 Fn Xi Lab)).
  split; [apply cells_NoDup|]. split; [intros i o; rewrite cells_In; apply sel2_iff|].
  unfold cluster_markers. destruct hide; cbn [fst snd].
  - split; [apply cluster_half; assumption|]. split; [constructor|]. split; [|constructor].
    intros i o. split; [intros []|intros [H _]; discriminate].
  - split; [apply cluster_half; assumption|]. split; [apply cells_NoDup|]. split; [|apply cluster_half; assumption].
    intros i o. rewrite cells_In, (sel2_iff 0 Fn Xi Lab rows cols). tauto.
Qed.

(* THE SAME POLES in both diagrams: when damping is finite exactly where frequency is (what the hard criteria leave),
   one pair of enumerations serves both diagrams - marker k of the stabilisation diagram and marker k of the cluster
   diagram belong to the same pole cs[k]. *)
Theorem same_poles {X} rows cols (Fn Xi:list (list (option X))) Lab step hide :
  rect rows cols Fn -> rect rows cols Xi -> rect rows cols Lab ->
  (forall i o, (exists f, get2 Fn i o = Some (Some f)) <-> (exists d, get2 Xi i o = Some (Some d))) ->
  exists cs cu : list (nat*nat),
    NoDup cs /\ (forall i o, In (i, o) cs <-> pole_with_label Fn Lab 1 rows cols i o) /\
    Forall2 (marker_at Fn step) cs (fst (stab_markers Fn Lab step hide)) /\
    Forall2 (cluster_at Fn Xi) cs (fst (cluster_markers Fn Xi Lab hide)) /\
    NoDup cu /\ (forall i o, In (i, o) cu <-> hide = false /\ pole_with_label Fn Lab 0 rows cols i o) /\
    Forall2 (marker_at Fn step) cu (snd (stab_markers Fn Lab step hide)) /\
    Forall2 (cluster_at Fn Xi) cu (snd (cluster_markers Fn Xi Lab hide)).
Proof.
  intros HF HX HL Hnan.
  assert (Hsel : forall l c, sel2 l Fn Xi Lab c = sel l Fn Lab c).
  { intros l [i o]. unfold sel2, sel. cbn [fst snd]. destruct (get2 Lab i o) as [lb|]; [|reflexivity].
    specialize (Hnan i o). destruct (get2 Fn i o) as [[f|]|]; destruct (get2 Xi i o) as [[d|]|]; try reflexivity; exfalso.
    - destruct Hnan as [H _]. destruct H as [d Hd]; [eauto|discriminate].
    - destruct Hnan as [H _]. destruct H as [d Hd]; [eauto|discriminate]. }
  assert (Hcells : forall l, cells rows cols (sel2 l Fn Xi Lab) = cells rows cols (sel l Fn Lab)).
  { intros l. unfold cells. apply filter_ext. apply Hsel. }
  rewrite (stab_markers_unfold rows cols) by assumption. cbn [fst snd].
  exists (cells rows cols (sel 1 Fn Lab)), (if hide then [] else cells rows cols (sel 0 Fn Lab)).
  split; [apply cells_NoDup|]. split; [intros i o; rewrite cells_In; apply sel_iff; assumption|].
  split; [apply stab_half; assumption|].
  unfold cluster_markers. destruct hide; cbn [fst snd].
  - split; [rewrite <- Hcells; apply cluster_half; assumption|]. split; [constructor|].
    split; [intros i o; split; [intros []|intros [H _]; discriminate]|]. split; constructor.
  - split; [rewrite <- Hcells; apply cluster_half; assumption|]. split; [apply cells_NoDup|].
    split; [intros i o; rewrite cells_In, (sel_iff 0 Fn Lab rows cols) by assumption; tauto|].
    split; [apply stab_half; assumption|rewrite <- Hcells; apply cluster_half; assumption].
Qed.

(* ------------------------------------------------------------------ marker y-value and the order argument of extraction *)
(* y = column * step is the column index itself exactly when step = 1 (or for column 0) *)
Lemma order_value_is_column_iff o step : (Z.of_nat o * step = Z.of_nat o)%Z <-> (step = 1%Z \/ o = 0%nat).
Proof. split; [intros H; destruct o; [right; reflexivity|left; nia] | intros [->| ->]; lia]. Qed.

Lemma Qabs_le0 x : Qabs x <= 0 -> x == 0.
Proof.
  intros H. apply Qabs_Qle_condition in H. destruct H as [H1 H2]. apply Qle_antisym; [exact H2|].
  setoid_replace (- 0) with 0 in H1 by reflexivity. exact H1.
Qed.

(* Feeding a stable marker (f, y) of a diagram drawn with step = 1 (what both classes draw: pLSCF passes the literal 1,
   SSI its run step, which is 1 whenever a result exists) back to extraction - requested frequency f, order argument y -
   reads column y = the pole's own column and returns a pole of that column whose frequency equals f: the pole itself,
   or a twin with exactly the same frequency in the same column. *)
Theorem marker_accepted rows cols (Fn:list (list (option Q))) Lab hide rtol f y :
  rect rows cols Fn -> rect rows cols Lab -> 0 <= rtol ->
  In (f, y) (fst (stab_markers Fn Lab 1 hide)) ->
  exists i o r v, y = Z.of_nat o /\ pole_with_label Fn Lab 1 rows cols i o /\ get2 Fn i o = Some (Some f) /\
                  mpe_pick Fn f rtol y = Some (r, v) /\ v == f /\ get2 Fn r o = Some (Some v).
Proof.
  intros HF HL Hrt Hin.
  destruct (stab_marker_sound rows cols Fn Lab 1 hide f y HF HL) as [Hs _].
  destruct (Hs Hin) as (i & o & Hp & HFn & Hy). clear Hs.
  rewrite Z.mul_1_r in Hy. subst y.
  destruct Hp as (Hi & Ho & HLab & Hex).
  exists i, o. unfold mpe_pick.
  destruct (Z.ltb (Z.of_nat o) 0) eqn:Eneg; [lia|]. rewrite Nat2Z.id.
  destruct HF as [HlF HaF].
  pose proof (column_nth cols Fn o HaF Ho) as Hcol.
  set (c := column o Fn) in *. set (g := fun v : Q => Qabs (v - f)).
  pose proof (nanargmin_spec (map (option_map g) c)) as Hspec.
  assert (Hci : nth_error (map (option_map g) c) i = Some (Some (g f))).
  { rewrite nth_error_map_opt, Hcol, HFn. reflexivity. }
  destruct (nanargmin (map (option_map g) c)) as [[r d]|].
  - destruct Hspec as (Hr & Hmin & _).
    rewrite nth_error_map_opt in Hr.
    destruct (nth_error c r) as [[v|]|] eqn:Ecr; cbn [option_map] in Hr; try discriminate.
    inversion Hr as [Hd]. clear Hr.
    assert (Hle : g v <= g f) by (rewrite Hd; eapply Hmin; exact Hci).
    assert (Hgf : g f == 0) by (unfold g; setoid_replace (f - f) with 0 by ring; reflexivity).
    assert (Hvf : v == f).
    { assert (H0 : v - f == 0) by (apply Qabs_le0; fold (g v); rewrite <- Hgf; exact Hle). lra. }
    assert (Hclose : isclose v f rtol = true).
    { unfold isclose. apply Qle_bool_iff. fold (g v).
      assert (H1 : g v <= 0) by (rewrite <- Hgf; exact Hle).
      assert (H2 : 0 <= rtol * Qabs f) by (apply Qmult_le_0_compat; [exact Hrt|apply Qabs_nonneg]).
      assert (H3 : 0 <= 1 # 100000000) by (unfold Qle; cbn; lia).
      lra. }
    rewrite Hclose. exists r, v. split; [reflexivity|]. split; [repeat split; assumption|]. split; [exact HFn|].
    split; [reflexivity|]. split; [exact Hvf|]. rewrite <- Hcol. exact Ecr.
  - exfalso. assert (Hlt : (i < length (map (option_map g) c))%nat) by (apply nth_error_Some; rewrite Hci; discriminate).
    rewrite (Hspec i Hlt) in Hci. discriminate.
Qed.

(* the classes' plot methods are these instances of stab_markers *)
Lemma class_instances {X} (Fn:list (list (option X))) Lab run_step hide :
  ssi_plot_stab Fn Lab run_step hide = stab_markers Fn Lab run_step hide /\
  plscf_plot_stab Fn Lab hide = stab_markers Fn Lab 1 hide.
Proof. split; reflexivity. Qed.

(* ------------------------------------------------------------------ CMIF *)

Lemma cubeb_iff n nf S : cubeb n nf S = true <-> cube n nf S.
Proof.
  unfold cubeb, cube. rewrite andb_true_iff, Nat.eqb_eq, forallb_forall, Forall_forall.
  split; intros [H1 H2]; (split; [exact H1|]); intros r Hr; specialize (H2 r Hr).
  - apply andb_true_iff in H2. destruct H2 as [Ha Hb]. apply Nat.eqb_eq in Ha. split; [exact Ha|].
    rewrite forallb_forall in Hb. apply Forall_forall. intros c Hc. apply Nat.eqb_eq. apply Hb. exact Hc.
  - destruct H2 as [Ha Hb]. apply andb_true_iff. split; [apply Nat.eqb_eq; exact Ha|].
    apply forallb_forall. intros c Hc. apply Nat.eqb_eq. rewrite Forall_forall in Hb. apply Hb. exact Hc.
Qed.

Lemma fold_max_spec r : forall x, let m := fold_left (fun m v => if Qlt_bool m v then v else m) r x in
  (m = x \/ In m r) /\ x <= m /\ forall v, In v r -> v <= m.
Proof.
  induction r as [|v r IH]; intros x; cbn [fold_left].
  - split; [left; reflexivity|]. split; [apply Qle_refl|intros v []].
  - destruct (Qlt_bool x v) eqn:E.
    + apply Qlt_bool_iff in E. destruct (IH v) as (H1 & H2 & H3). split; [|split].
      * destruct H1 as [->|H1]; [right; left; reflexivity|right; right; exact H1].
      * eapply Qle_trans; [apply Qlt_le_weak; exact E|exact H2].
      * intros w [<-|Hw]; [exact H2|apply H3; exact Hw].
    + apply Qlt_bool_false_iff in E. destruct (IH x) as (H1 & H2 & H3). split; [|split].
      * destruct H1 as [->|H1]; [left; reflexivity|right; right; exact H1].
      * exact H2.
      * intros w [<-|Hw]; [eapply Qle_trans; [exact E|exact H2]|apply H3; exact Hw].
Qed.
Lemma qmax_spec l m : qmax l = Some m -> is_max l m.
Proof.
  destruct l as [|x r]; [discriminate|]. cbn [qmax]. intros H. inversion H as [Hm]. clear H.
  destruct (fold_max_spec r x) as (H1 & H2 & H3). split.
  - destruct H1 as [->|H1]; [left; reflexivity|right; exact H1].
  - intros v [<-|Hv]; [exact H2|apply H3; exact Hv].
Qed.
Lemma qmax_nonempty l : l <> [] -> exists m, qmax l = Some m.
Proof. destruct l; [congruence|]. intros _. eexists. reflexivity. Qed.

Lemma cube_diag n nf S k : cube n nf S -> (k < n)%nat -> exists d, diag3 S k = Some d /\ length d = nf.
Proof.
  intros [Hl Hall] Hk. unfold diag3, get2.
  destruct (nth_error S k) as [r|] eqn:E; [|apply nth_error_None in E; lia].
  rewrite Forall_forall in Hall. destruct (Hall r (nth_error_In _ _ E)) as [Hr Hc].
  destruct (nth_error r k) as [d|] eqn:E2; [|apply nth_error_None in E2; lia].
  exists d. split; [reflexivity|]. rewrite Forall_forall in Hc. apply Hc. eapply nth_error_In; exact E2.
Qed.
Lemma cube_ncols n nf S : cube n nf S -> (0 < n)%nat -> ncols S = n.
Proof.
  intros [Hl Hall] Hn. destruct S as [|r S]; [cbn in Hl; lia|]. inversion Hall as [|? ? [Hr _] _]. exact Hr.
Qed.

Lemma curves_spec n nf S mx ks : cube n nf S -> Forall (fun k => (k < n)%nat) ks ->
  exists cs, curves S mx ks = POk cs /\
    Forall2 (fun k c => exists d, diag3 S k = Some d /\ length d = nf /\ c = map (fun v => v / mx) d) ks cs.
Proof.
  intros HC Hks. induction Hks as [|k ks Hk _ IH]; cbn [curves].
  - exists []. split; [reflexivity|constructor].
  - destruct (cube_diag n nf S k HC Hk) as (d & Hd & Hlen). rewrite Hd.
    destruct IH as (cs & Hcs & HF). rewrite Hcs. eexists. split; [reflexivity|].
    constructor; [|exact HF]. exists d. repeat split; assumption.
Qed.

(* CMIF: for an admissible request of m curves (m = all n, or a number below n) there is one curve per singular value
   k = 0..m-1, each over the whole grid (length nf), whose value at every line is S[k][k][f] divided by the maximum over the
   grid of the FIRST singular value; an inadmissible request is a ValueError. *)
Theorem cmif_spec n nf S nSv : cube n nf S -> (0 < n)%nat -> (0 < nf)%nat ->
  match requested n nSv with
  | None => cmif_curves S nSv = PErr PValueErr
  | Some m => (m <= n)%nat /\ exists d0 mx cs, diag3 S 0 = Some d0 /\ is_max d0 mx /\ cmif_curves S nSv = POk cs /\
       Forall2 (fun k c => exists d, diag3 S k = Some d /\ length d = nf /\ c = map (fun v => v / mx) d) (seq 0 m) cs
  end.
Proof.
  intros HC Hn Hnf.
  destruct (cube_diag n nf S 0 HC Hn) as (d0 & Hd0 & Hl0).
  assert (Hne : d0 <> []) by (intros ->; cbn in Hl0; lia).
  destruct (qmax_nonempty d0 Hne) as (mx & Hmx).
  assert (Hbuild : forall m, (m <= n)%nat -> exists cs, cmif_build S m = POk cs /\
     Forall2 (fun k c => exists d, diag3 S k = Some d /\ length d = nf /\ c = map (fun v => v / mx) d) (seq 0 m) cs).
  { intros m Hm. unfold cmif_build. destruct m as [|m']; [exists []; split; [reflexivity|constructor]|].
    rewrite Hd0, Hmx. apply (curves_spec n nf); [exact HC|]. apply Forall_forall. intros k Hk. apply in_seq in Hk. lia. }
  unfold requested, cmif_curves. rewrite (cube_ncols n nf S HC Hn).
  destruct nSv as [z|].
  - destruct (Z.ltb z (Z.of_nat n)) eqn:E; [|reflexivity].
    assert (Hm : (Z.to_nat z <= n)%nat) by lia. split; [exact Hm|].
    destruct (Hbuild _ Hm) as (cs & H1 & H2). exists d0, mx, cs. repeat split; try assumption; apply qmax_spec; exact Hmx.
  - split; [lia|]. destruct (Hbuild n (le_n n)) as (cs & H1 & H2). exists d0, mx, cs.
    repeat split; try assumption; apply qmax_spec; exact Hmx.
Qed.
