(* C15 - lemmas about the orchestration model M_orch.v.  Everything is closed under the global context. *)
From Coq Require Import String List Arith Bool Lia.
From PyOMA.Model Require Import M_orch.
Import ListNotations.

(* ---------------------------------------------------------------- association lists *)
Lemma lookup_upsert_same a x l : lookup a (upsert a x l) = Some x.
Proof.
  induction l as [|[n y] t IH]; cbn [upsert lookup].
  - rewrite Nat.eqb_refl. reflexivity.
  - destruct (Nat.eqb n a) eqn:E; cbn [lookup]; rewrite E; [reflexivity|exact IH].
Qed.

Lemma lookup_upsert_other a b x l : a <> b -> lookup b (upsert a x l) = lookup b l.
Proof.
  intros Hab. induction l as [|[n y] t IH]; cbn [upsert lookup].
  - destruct (Nat.eqb a b) eqn:E; [apply Nat.eqb_eq in E; contradiction|reflexivity].
  - destruct (Nat.eqb n a) eqn:E; cbn [lookup].
    + apply Nat.eqb_eq in E. subst n.
      destruct (Nat.eqb a b) eqn:E2; [apply Nat.eqb_eq in E2; contradiction|reflexivity].
    + destruct (Nat.eqb n b); [reflexivity|exact IH].
Qed.

Lemma lookup_update_same a x y l : lookup a l = Some y -> lookup a (update a x l) = Some x.
Proof.
  induction l as [|[n z] t IH]; cbn [update lookup]; [discriminate|].
  destruct (Nat.eqb n a) eqn:E; cbn [lookup]; rewrite E; [reflexivity|exact IH].
Qed.

Lemma lookup_update_other a b x l : a <> b -> lookup b (update a x l) = lookup b l.
Proof.
  intros Hab. induction l as [|[n y] t IH]; cbn [update lookup]; [reflexivity|].
  destruct (Nat.eqb n a) eqn:E; cbn [lookup].
  - apply Nat.eqb_eq in E. subst n.
    destruct (Nat.eqb a b) eqn:E2; [apply Nat.eqb_eq in E2; contradiction|reflexivity].
  - destruct (Nat.eqb n b); [reflexivity|exact IH].
Qed.

Lemma update_same a x l : lookup a l = Some x -> update a x l = l.
Proof.
  induction l as [|[n y] t IH]; cbn [update lookup]; [reflexivity|].
  destruct (Nat.eqb n a) eqn:E; intros H.
  - injection H as ->. reflexivity.
  - rewrite IH by exact H. reflexivity.
Qed.

Lemma keys_update a x l : map fst (update a x l) = map fst l.
Proof.
  induction l as [|[n y] t IH]; cbn [update map fst]; [reflexivity|].
  destruct (Nat.eqb n a); cbn [map fst]; [reflexivity|rewrite IH; reflexivity].
Qed.

Lemma lookup_none_notin a l : lookup a l = None <-> ~ In a (map fst l).
Proof.
  induction l as [|[n y] t IH]; cbn [lookup map fst In].
  - split; [intros _ []|reflexivity].
  - destruct (Nat.eqb n a) eqn:E.
    + apply Nat.eqb_eq in E. split; [discriminate|intros H; exfalso; apply H; left; exact E].
    + apply Nat.eqb_neq in E. rewrite IH. split; [intros H [H1|H1]; [contradiction|exact (H H1)]|intros H H1; apply H; right; exact H1].
Qed.

Lemma keys_upsert a x l :
  map fst (upsert a x l) = match lookup a l with Some _ => map fst l | None => map fst l ++ [a] end.
Proof.
  induction l as [|[n y] t IH]; cbn [upsert lookup map fst app]; [reflexivity|].
  destruct (Nat.eqb n a) eqn:E; cbn [map fst]; [reflexivity|].
  rewrite IH. destruct (lookup a t); reflexivity.
Qed.

Lemma nodup_upsert a x l : NoDup (map fst l) -> NoDup (map fst (upsert a x l)).
Proof.
  intros H. rewrite keys_upsert. destruct (lookup a l) eqn:E; [exact H|].
  apply lookup_none_notin in E.
  apply NoDup_rev in H. rewrite <- (rev_involutive (map fst l ++ [a])). apply NoDup_rev.
  rewrite rev_app_distr. cbn [rev app]. constructor; [|exact H].
  intros Hin. apply in_rev in Hin. exact (E Hin).
Qed.

Lemma lookup_app_notin a (pre rest:list (name*alg)) : ~ In a (map fst pre) -> lookup a (pre ++ rest) = lookup a rest.
Proof.
  induction pre as [|[n y] t IH]; cbn [app lookup map fst In]; intros H; [reflexivity|].
  destruct (Nat.eqb n a) eqn:E.
  - apply Nat.eqb_eq in E. exfalso. apply H. left. exact E.
  - apply IH. intros H1. apply H. right. exact H1.
Qed.

Lemma update_app_notin a x (pre rest:list (name*alg)) : ~ In a (map fst pre) -> update a x (pre ++ rest) = pre ++ update a x rest.
Proof.
  induction pre as [|[n y] t IH]; cbn [app update map fst In]; intros H; [reflexivity|].
  destruct (Nat.eqb n a) eqn:E.
  - apply Nat.eqb_eq in E. exfalso. apply H. left. exact E.
  - rewrite IH; [reflexivity|]. intros H1. apply H. right. exact H1.
Qed.

(* ---------------------------------------------------------------- one algorithm *)
Definition binding_same (x y:alg) : Prop := binding_of x = binding_of y.

(* a stored result is the Run term of the algorithm's own class, parameters and binding; modes come from that result *)
Definition wf_alg (x:alg) : Prop :=
  (forall r, a_result x = Some r -> exists p d f, a_params x = Some p /\ a_bound x = Some (d,f) /\ r = Run (a_cls x) p d f) /\
  (forall m, a_mpe x = Some m -> exists r args, a_result x = Some r /\ m = Extract r args).

Lemma wf_fresh c p b : wf_alg (mkAlg c p b None None).
Proof. split; cbn; intros ? H; discriminate. Qed.

Lemma run_alg_ok x x' : run_alg x = inr x' ->
  exists p d f, a_params x = Some p /\ a_bound x = Some (d,f) /\
                x' = mkAlg (a_cls x) (a_params x) (a_bound x) (Some (Run (a_cls x) p d f)) None.
Proof.
  unfold run_alg. destruct (a_bound x) as [[d f]|] eqn:Eb; [|discriminate].
  destruct (a_params x) as [p|] eqn:Ep; [|discriminate].
  intros H. injection H as <-. exists p, d, f. repeat split.
Qed.

Lemma run_alg_err x e : run_alg x = inl e -> e = ValueErr /\ (a_bound x = None \/ a_params x = None).
Proof.
  unfold run_alg. destruct (a_bound x) as [[d f]|] eqn:Eb.
  - destruct (a_params x) as [p|] eqn:Ep; [discriminate|]. intros H. injection H as <-. split; [reflexivity|right; reflexivity].
  - intros H. injection H as <-. split; [reflexivity|left; reflexivity].
Qed.

Lemma run_alg_gate x : a_bound x = None \/ a_params x = None -> run_alg x = inl ValueErr.
Proof.
  unfold run_alg. intros [H|H].
  - rewrite H. reflexivity.
  - destruct (a_bound x) as [[d f]|]; [rewrite H|]; reflexivity.
Qed.

Lemma run_alg_wf x x' : run_alg x = inr x' -> wf_alg x' /\ binding_of x' = binding_of x.
Proof.
  intros H. destruct (run_alg_ok x x' H) as (p & d & f & Hp & Hb & ->). split; [|reflexivity].
  split; cbn [a_result a_mpe a_cls a_params a_bound]; intros ? H1; [|discriminate].
  injection H1 as <-. exists p, d, f. repeat split; assumption.
Qed.

Lemma run_alg_idem x x' : run_alg x = inr x' -> run_alg x' = inr x'.
Proof.
  intros H. destruct (run_alg_ok x x' H) as (p & d & f & Hp & Hb & ->).
  unfold run_alg. cbn [a_bound a_params a_cls]. rewrite Hb, Hp. reflexivity.
Qed.

(* running an algorithm that already holds a result gives the same result term *)
Lemma run_alg_same_result x x' r : wf_alg x -> a_result x = Some r -> run_alg x = inr x' -> a_result x' = Some r.
Proof.
  intros [Hw _] Hr H. destruct (Hw r Hr) as (p & d & f & Hp & Hb & ->).
  destruct (run_alg_ok x x' H) as (p' & d' & f' & Hp' & Hb' & ->). cbn [a_result].
  rewrite Hp in Hp'. rewrite Hb in Hb'. injection Hp' as <-. injection Hb' as <- <-. reflexivity.
Qed.

Lemma run_alg_total x r : wf_alg x -> a_result x = Some r -> exists x', run_alg x = inr x'.
Proof.
  intros [Hw _] Hr. destruct (Hw r Hr) as (p & d & f & Hp & Hb & _).
  unfold run_alg. rewrite Hb, Hp. eexists. reflexivity.
Qed.

Lemma mpe_alg_ok args x x' : mpe_alg args x = inr x' ->
  exists r, a_result x = Some r /\ x' = mkAlg (a_cls x) (a_params x) (a_bound x) (a_result x) (Some (Extract r args)).
Proof.
  unfold mpe_alg. destruct (a_result x) as [r|] eqn:Er; [|discriminate].
  intros H. injection H as <-. exists r. split; reflexivity.
Qed.

Lemma mpe_alg_err args x e : mpe_alg args x = inl e -> e = ValueErr /\ a_result x = None.
Proof.
  unfold mpe_alg. destruct (a_result x) as [r|] eqn:Er; [discriminate|]. intros H. injection H as <-. split; reflexivity.
Qed.

Lemma mpe_alg_wf args x x' : wf_alg x -> mpe_alg args x = inr x' ->
  wf_alg x' /\ binding_of x' = binding_of x /\ a_result x' = a_result x.
Proof.
  intros [Hw1 Hw2] H. destruct (mpe_alg_ok args x x' H) as (r & Hr & ->). split; [|split; reflexivity].
  split; cbn [a_result a_mpe a_cls a_params a_bound].
  - exact Hw1.
  - intros m Hm. injection Hm as <-. exists r, args. split; [exact Hr|reflexivity].
Qed.

(* ---------------------------------------------------------------- run_each *)
Lemma keys_run_each l : map fst (snd (run_each l)) = map fst l.
Proof.
  induction l as [|[n x] t IH]; cbn [run_each snd map fst]; [reflexivity|].
  destruct (run_alg x) as [e|x']; cbn [snd map fst]; [reflexivity|].
  destruct (run_each t) as [e t'] eqn:E. cbn [snd map fst] in *. rewrite IH. reflexivity.
Qed.

Lemma lookup_run_each a l :
  match lookup a l with
  | None => lookup a (snd (run_each l)) = None
  | Some x => lookup a (snd (run_each l)) = Some x \/ exists x', run_alg x = inr x' /\ lookup a (snd (run_each l)) = Some x'
  end.
Proof.
  induction l as [|[n x] t IH]; cbn [run_each lookup snd]; [reflexivity|].
  destruct (run_alg x) as [e|x'] eqn:Er; cbn [snd lookup].
  - destruct (Nat.eqb n a); [left; reflexivity|]. destruct (lookup a t); [left|]; reflexivity.
  - destruct (run_each t) as [e t'] eqn:E. cbn [snd lookup] in *.
    destruct (Nat.eqb n a); [right; exists x'; split; [exact Er|reflexivity]|exact IH].
Qed.

Lemma run_each_idem l l' : run_each l = (None, l') -> run_each l' = (None, l').
Proof.
  revert l'. induction l as [|[n x] t IH]; cbn [run_each]; intros l' H.
  - injection H as <-. reflexivity.
  - destruct (run_alg x) as [e|x'] eqn:Er; [discriminate|].
    destruct (run_each t) as [e t'] eqn:E. injection H as -> <-.
    cbn [run_each]. rewrite (run_alg_idem x x' Er), (IH t' eq_refl). reflexivity.
Qed.

(* run_all that raises: everything before the failing algorithm has run, the failing one and the rest are untouched *)
Definition ran_or_same (nx:name*alg) : name*alg :=
  (fst nx, match run_alg (snd nx) with inr y => y | inl _ => snd nx end).

Lemma ran_or_same_ok n x x' : run_alg x = inr x' -> ran_or_same (n,x) = (n,x').
Proof. intros H. unfold ran_or_same. cbn [fst snd]. rewrite H. reflexivity. Qed.

Lemma run_each_err l e l' : run_each l = (Some e, l') ->
  exists pre n x post, l = pre ++ (n,x)::post /\ run_alg x = inl e /\
    (forall ny, In ny pre -> exists y', run_alg (snd ny) = inr y') /\ l' = map ran_or_same pre ++ (n,x)::post.
Proof.
  revert l'. induction l as [|[n x] t IH]; cbn [run_each]; intros l' H; [discriminate|].
  destruct (run_alg x) as [e0|x'] eqn:Er.
  - injection H as -> <-. exists [], n, x, t. repeat split; [exact Er|intros ? []].
  - destruct (run_each t) as [e1 t'] eqn:E. injection H as -> <-.
    destruct (IH t' eq_refl) as (pre & m & y & post & -> & Hy & Hpre & ->).
    exists ((n,x)::pre), m, y, post. repeat split; [exact Hy| |].
    + intros ny [<-|Hin]; [exists x'; exact Er|exact (Hpre ny Hin)].
    + cbn [map app]. rewrite (ran_or_same_ok n x x' Er). reflexivity.
Qed.

Lemma run_each_ok l l' : run_each l = (None, l') ->
  (forall ny, In ny l -> exists y', run_alg (snd ny) = inr y') /\ l' = map ran_or_same l.
Proof.
  revert l'. induction l as [|[n x] t IH]; cbn [run_each]; intros l' H.
  - injection H as <-. split; [intros ? []|reflexivity].
  - destruct (run_alg x) as [e0|x'] eqn:Er; [discriminate|].
    destruct (run_each t) as [e1 t'] eqn:E. injection H as -> <-.
    destruct (IH t' eq_refl) as (Hall & ->). split.
    + intros ny [<-|Hin]; [exists x'; exact Er|exact (Hall ny Hin)].
    + cbn [map]. rewrite (ran_or_same_ok n x x' Er). reflexivity.
Qed.

(* ---------------------------------------------------------------- gates *)
Lemma gate_run s a x : lookup a (s_algs s) = Some x -> (a_bound x = None \/ a_params x = None) ->
  step s (RunByName a) = (Some ValueErr, s).
Proof. intros Hl Hg. cbn [step]. rewrite Hl, (run_alg_gate x Hg). reflexivity. Qed.

Lemma gate_run_unknown s a : lookup a (s_algs s) = None -> step s (RunByName a) = (Some KeyErr, s).
Proof. intros Hl. cbn [step]. rewrite Hl. reflexivity. Qed.

Lemma run_ok_iff s a : fst (step s (RunByName a)) = None <->
  exists x p d f, lookup a (s_algs s) = Some x /\ a_params x = Some p /\ a_bound x = Some (d,f).
Proof.
  cbn [step]. destruct (lookup a (s_algs s)) as [x|] eqn:Hl; cbn [fst].
  - destruct (run_alg x) as [e|x'] eqn:Er; cbn [fst]; split.
    + discriminate.
    + intros (y & p & d & f & Hy & Hp & Hb). injection Hy as <-. unfold run_alg in Er. rewrite Hb, Hp in Er. discriminate.
    + intros _. destruct (run_alg_ok x x' Er) as (p & d & f & Hp & Hb & _). exists x, p, d, f. repeat split; assumption.
    + reflexivity.
  - split; [discriminate|intros (y & _ & _ & _ & Hy & _); discriminate].
Qed.

Lemma gate_mpe s a x args : lookup a (s_algs s) = Some x -> a_result x = None ->
  step s (Mpe a args) = (Some ValueErr, s).
Proof. intros Hl Hr. cbn [step]. rewrite Hl. unfold mpe_alg. rewrite Hr. reflexivity. Qed.

Lemma gate_mpe_unknown s a args : lookup a (s_algs s) = None -> step s (Mpe a args) = (Some KeyErr, s).
Proof. intros Hl. cbn [step]. rewrite Hl. reflexivity. Qed.

Lemma mpe_ok_iff s a args : fst (step s (Mpe a args)) = None <->
  exists x r, lookup a (s_algs s) = Some x /\ a_result x = Some r.
Proof.
  cbn [step]. destruct (lookup a (s_algs s)) as [x|] eqn:Hl; cbn [fst].
  - unfold mpe_alg. destruct (a_result x) as [r|] eqn:Er; cbn [fst]; split.
    + intros _. exists x, r. split; [reflexivity|exact Er].
    + reflexivity.
    + discriminate.
    + intros (y & r & Hy & Hr). injection Hy as <-. rewrite Er in Hr. discriminate.
  - split; [discriminate|intros (y & _ & Hy & _); discriminate].
Qed.

(* every call except run_all is atomic: an exception leaves the whole setup as it was *)
Lemma err_unchanged s o : o <> RunAll -> fst (step s o) <> None -> snd (step s o) = s.
Proof.
  destruct o as [a c p|a| |a args|d f|]; cbn [step]; intros Ho H.
  - destruct (s_fs s); cbn [fst snd] in *; [contradiction|reflexivity].
  - destruct (lookup a (s_algs s)) as [x|]; [|reflexivity].
    destruct (run_alg x); cbn [fst snd] in *; [reflexivity|contradiction].
  - contradiction.
  - destruct (lookup a (s_algs s)) as [x|]; [|reflexivity].
    destruct (mpe_alg args x); cbn [fst snd] in *; [reflexivity|contradiction].
  - cbn [fst] in H. contradiction.
  - cbn [fst] in H. contradiction.
Qed.

Lemma run_all_err s e : fst (step s RunAll) = Some e ->
  exists pre n x post, s_algs s = pre ++ (n,x)::post /\ run_alg x = inl e /\ e = ValueErr /\
    (a_bound x = None \/ a_params x = None) /\
    (forall ny, In ny pre -> exists y', run_alg (snd ny) = inr y') /\
    snd (step s RunAll) = set_algs s (map ran_or_same pre ++ (n,x)::post).
Proof.
  cbn [step]. destruct (run_each (s_algs s)) as [e0 l'] eqn:E. cbn [fst snd]. intros H. subst e0.
  destruct (run_each_err _ _ _ E) as (pre & n & x & post & Hl & Hx & Hpre & ->).
  exists pre, n, x, post. destruct (run_alg_err x e Hx) as [He Hg]. repeat split; assumption.
Qed.

(* ---------------------------------------------------------------- frame *)
Lemma frame s o a : targets o a = false -> lookup a (s_algs (snd (step s o))) = lookup a (s_algs s).
Proof.
  destruct o as [b c p|b| |b args|d f|]; cbn [step targets]; intros Ht.
  - apply Nat.eqb_neq in Ht. destruct (s_fs s); cbn [snd set_algs s_algs]; [|reflexivity].
    apply lookup_upsert_other. exact Ht.
  - apply Nat.eqb_neq in Ht. destruct (lookup b (s_algs s)) as [x|]; [|reflexivity].
    destruct (run_alg x); cbn [snd set_algs s_algs]; [reflexivity|]. apply lookup_update_other. exact Ht.
  - discriminate.
  - apply Nat.eqb_neq in Ht. destruct (lookup b (s_algs s)) as [x|]; [|reflexivity].
    destruct (mpe_alg args x); cbn [snd set_algs s_algs]; [reflexivity|]. apply lookup_update_other. exact Ht.
  - reflexivity.
  - reflexivity.
Qed.

Lemma frame_data s o : (forall d f, o <> Rebind d f) ->
  s_data (snd (step s o)) = s_data s /\ s_fs (snd (step s o)) = s_fs s.
Proof.
  destruct o as [b c p|b| |b args|d f|]; cbn [step]; intros Ho.
  - destruct (s_fs s) eqn:E; cbn [snd set_algs s_data s_fs]; rewrite ?E; split; reflexivity.
  - destruct (lookup b (s_algs s)) as [x|]; [|split; reflexivity]. destruct (run_alg x); split; reflexivity.
  - destruct (run_each (s_algs s)). split; reflexivity.
  - destruct (lookup b (s_algs s)) as [x|]; [|split; reflexivity]. destruct (mpe_alg args x); split; reflexivity.
  - exfalso. exact (Ho d f eq_refl).
  - split; reflexivity.
Qed.

(* nothing but its own add changes an algorithm's class, parameters or binding (run_all included) *)
Lemma step_keeps_binding s o a : is_add o a = false ->
  option_map binding_of (lookup a (s_algs (snd (step s o)))) = option_map binding_of (lookup a (s_algs s)).
Proof.
  intros Ha. destruct (targets o a) eqn:Ht; [|rewrite frame by exact Ht; reflexivity].
  destruct o as [b c p|b| |b args|d f|]; cbn [step targets is_add] in *; try discriminate.
  - rewrite Ht in Ha. discriminate.
  - apply Nat.eqb_eq in Ht. subst b. destruct (lookup a (s_algs s)) as [x|] eqn:Hl; cbn [snd]; [|rewrite Hl; reflexivity].
    destruct (run_alg x) as [e|x'] eqn:Er; cbn [snd set_algs s_algs]; [rewrite Hl; reflexivity|].
    rewrite (lookup_update_same a x' x _ Hl). cbn [option_map]. f_equal. exact (proj2 (run_alg_wf x x' Er)).
  - destruct (run_each (s_algs s)) as [e l'] eqn:E. cbn [snd set_algs s_algs].
    pose proof (lookup_run_each a (s_algs s)) as H. rewrite E in H. cbn [snd] in H.
    destruct (lookup a (s_algs s)) as [x|]; [|rewrite H; reflexivity].
    destruct H as [H|(x' & Hx & H)]; rewrite H; [reflexivity|].
    cbn [option_map]. f_equal. exact (proj2 (run_alg_wf x x' Hx)).
  - apply Nat.eqb_eq in Ht. subst b. destruct (lookup a (s_algs s)) as [x|] eqn:Hl; cbn [snd]; [|rewrite Hl; reflexivity].
    destruct (mpe_alg args x) as [e|x'] eqn:Er; cbn [snd set_algs s_algs]; [rewrite Hl; reflexivity|].
    rewrite (lookup_update_same a x' x _ Hl). cbn [option_map]. f_equal.
    destruct (mpe_alg_ok args x x' Er) as (r & _ & ->). reflexivity.
Qed.

(* ---------------------------------------------------------------- invariants over every history *)
Definition wf_setup (s:setup) : Prop :=
  NoDup (map fst (s_algs s)) /\ forall a x, lookup a (s_algs s) = Some x -> wf_alg x.

Lemma wf_new d f : wf_setup (new_setup d f).
Proof. split; cbn; [constructor|intros ? ? H; discriminate]. Qed.

Lemma step_wf s o : wf_setup s -> wf_setup (snd (step s o)).
Proof.
  intros [Hn Hw]. destruct o as [b c p|b| |b args|d f|]; cbn [step].
  - destruct (s_fs s) as [f|]; cbn [snd]; [|split; assumption]. split; cbn [set_algs s_algs].
    + apply nodup_upsert. exact Hn.
    + intros a x. destruct (Nat.eq_dec b a) as [->|Hne].
      * rewrite lookup_upsert_same. intros H. injection H as <-. apply wf_fresh.
      * rewrite lookup_upsert_other by exact Hne. apply Hw.
  - destruct (lookup b (s_algs s)) as [x|] eqn:Hl; cbn [snd]; [|split; assumption].
    destruct (run_alg x) as [e|x'] eqn:Er; cbn [snd]; [split; assumption|]. split; cbn [set_algs s_algs].
    + rewrite keys_update. exact Hn.
    + intros a y. destruct (Nat.eq_dec b a) as [->|Hne].
      * rewrite (lookup_update_same a x' x _ Hl). intros H. injection H as <-. exact (proj1 (run_alg_wf x x' Er)).
      * rewrite lookup_update_other by exact Hne. apply Hw.
  - destruct (run_each (s_algs s)) as [e l'] eqn:E. unfold wf_setup. cbn [snd set_algs s_algs]. split.
    + pose proof (keys_run_each (s_algs s)) as H. rewrite E in H. cbn [snd] in H. rewrite H. exact Hn.
    + intros a y Hy. pose proof (lookup_run_each a (s_algs s)) as H. rewrite E in H. cbn [snd] in H.
      destruct (lookup a (s_algs s)) as [x|] eqn:Hl; [|rewrite H in Hy; discriminate].
      destruct H as [H|(x' & Hx & H)]; rewrite H in Hy; injection Hy as <-.
      * exact (Hw a x Hl).
      * exact (proj1 (run_alg_wf x x' Hx)).
  - destruct (lookup b (s_algs s)) as [x|] eqn:Hl; cbn [snd]; [|split; assumption].
    destruct (mpe_alg args x) as [e|x'] eqn:Er; cbn [snd]; [split; assumption|]. split; cbn [set_algs s_algs].
    + rewrite keys_update. exact Hn.
    + intros a y. destruct (Nat.eq_dec b a) as [->|Hne].
      * rewrite (lookup_update_same a x' x _ Hl). intros H. injection H as <-.
        exact (proj1 (mpe_alg_wf args x x' (Hw a x Hl) Er)).
      * rewrite lookup_update_other by exact Hne. apply Hw.
  - split; assumption.
  - split; assumption.
Qed.

Lemma exec_wf h s : wf_setup s -> wf_setup (exec h s).
Proof. revert s. induction h as [|o t IH]; intros s H; cbn [exec fold_left]; [exact H|]. apply IH. apply step_wf. exact H. Qed.

Lemma reachable_wf d0 f0 h : wf_setup (exec h (new_setup d0 f0)).
Proof. exact (exec_wf h _ (wf_new d0 f0)). Qed.

Lemma exec_app h1 h2 s : exec (h1 ++ h2) s = exec h2 (exec h1 s).
Proof. unfold exec. apply fold_left_app. Qed.

(* state and reference tracker agree on data, fs and every binding *)
Definition agrees (s:setup) (t:tracker) : Prop :=
  s_data s = t_data t /\ s_fs s = t_fs t /\ forall a, option_map binding_of (lookup a (s_algs s)) = tlookup a (t_tab t).

Lemma step_agrees s t o : agrees s t -> agrees (snd (step s o)) (track1 t o).
Proof.
  intros (Hd & Hf & Hb).
  assert (Hkeep : forall a, is_add o a = false ->
            option_map binding_of (lookup a (s_algs (snd (step s o)))) = tlookup a (t_tab t)).
  { intros a Ha. rewrite step_keeps_binding by exact Ha. apply Hb. }
  destruct o as [b c p|b| |b args|d f|].
  - cbn [step track1]. rewrite <- Hf. destruct (s_fs s) as [f|] eqn:Ef; cbn [snd]; [|repeat split; [exact Hd|congruence|exact Hb]].
    repeat split; cbn [set_algs s_data s_fs s_algs t_data t_fs t_tab]; [exact Hd|congruence|].
    intros a. cbn [tlookup]. destruct (Nat.eqb b a) eqn:E.
    + apply Nat.eqb_eq in E. subst b. rewrite lookup_upsert_same. cbn [option_map binding_of a_cls a_params a_bound].
      rewrite Hd. reflexivity.
    + apply Nat.eqb_neq in E. rewrite lookup_upsert_other by exact E. apply Hb.
  - destruct (frame_data s (RunByName b)) as [H1 H2]; [intros; discriminate|].
    cbn [track1]. repeat split; [rewrite H1; exact Hd|rewrite H2; exact Hf|intros a; apply Hkeep; reflexivity].
  - destruct (frame_data s RunAll) as [H1 H2]; [intros; discriminate|].
    cbn [track1]. repeat split; [rewrite H1; exact Hd|rewrite H2; exact Hf|intros a; apply Hkeep; reflexivity].
  - destruct (frame_data s (Mpe b args)) as [H1 H2]; [intros; discriminate|].
    cbn [track1]. repeat split; [rewrite H1; exact Hd|rewrite H2; exact Hf|intros a; apply Hkeep; reflexivity].
  - cbn [step track1 snd]. repeat split; cbn [s_algs t_tab]. exact Hb.
  - cbn [step track1 snd]. repeat split; assumption.
Qed.

Lemma exec_agrees h s t : agrees s t -> agrees (exec h s) (track h t).
Proof.
  revert s t. induction h as [|o r IH]; intros s t H; cbn [exec track fold_left]; [exact H|].
  apply IH. apply step_agrees. exact H.
Qed.

Lemma binding_is_last_add d0 f0 h a :
  option_map binding_of (lookup a (s_algs (exec h (new_setup d0 f0)))) = last_add d0 f0 h a.
Proof.
  assert (H : agrees (new_setup d0 f0) (mkTr (Some d0) (Some f0) [])) by (repeat split).
  apply (exec_agrees h) in H. destruct H as (_ & _ & H). apply H.
Qed.

Lemma result_function_of_own_inputs d0 f0 h a x r :
  lookup a (s_algs (exec h (new_setup d0 f0))) = Some x -> a_result x = Some r ->
  exists c p d f, last_add d0 f0 h a = Some (c, Some p, Some (d,f)) /\
                  a_cls x = c /\ a_params x = Some p /\ a_bound x = Some (d,f) /\ r = Run c p d f.
Proof.
  intros Hl Hr. pose proof (binding_is_last_add d0 f0 h a) as Hb. rewrite Hl in Hb. cbn [option_map] in Hb.
  destruct (exec_wf h _ (wf_new d0 f0)) as [_ Hw]. destruct (Hw a x Hl) as [H1 _].
  destruct (H1 r Hr) as (p & d & f & Hp & Hbd & ->). exists (a_cls x), p, d, f.
  repeat split; try assumption. rewrite <- Hb. unfold binding_of. rewrite Hp, Hbd. reflexivity.
Qed.

Lemma modes_need_result d0 f0 h a x m :
  lookup a (s_algs (exec h (new_setup d0 f0))) = Some x -> a_mpe x = Some m ->
  exists r args, a_result x = Some r /\ m = Extract r args.
Proof.
  intros Hl Hm. destruct (exec_wf h _ (wf_new d0 f0)) as [_ Hw]. destruct (Hw a x Hl) as [_ H2]. exact (H2 m Hm).
Qed.

(* ---------------------------------------------------------------- determinism: a stored result never changes *)
Lemma step_keeps_result s o a x r : wf_setup s -> is_add o a = false ->
  lookup a (s_algs s) = Some x -> a_result x = Some r ->
  exists x', lookup a (s_algs (snd (step s o))) = Some x' /\ a_result x' = Some r /\ binding_of x' = binding_of x.
Proof.
  intros [Hn Hw] Ha Hl Hr. destruct (targets o a) eqn:Ht; [|exists x; rewrite frame by exact Ht; repeat split; assumption].
  pose proof (Hw a x Hl) as Hwx.
  destruct o as [b c p|b| |b args|d f|]; cbn [step targets is_add] in *; try discriminate.
  - rewrite Ht in Ha. discriminate.
  - apply Nat.eqb_eq in Ht. subst b. rewrite Hl.
    destruct (run_alg_total x r Hwx Hr) as [x' Hx]. rewrite Hx. cbn [snd set_algs s_algs].
    exists x'. rewrite (lookup_update_same a x' x _ Hl). repeat split.
    + exact (run_alg_same_result x x' r Hwx Hr Hx).
    + exact (proj2 (run_alg_wf x x' Hx)).
  - destruct (run_each (s_algs s)) as [e l'] eqn:E. cbn [snd set_algs s_algs].
    pose proof (lookup_run_each a (s_algs s)) as H. rewrite E, Hl in H. cbn [snd] in H.
    destruct H as [H|(x' & Hx & H)]; [exists x; repeat split; assumption|].
    exists x'. repeat split; [exact H|exact (run_alg_same_result x x' r Hwx Hr Hx)|exact (proj2 (run_alg_wf x x' Hx))].
  - apply Nat.eqb_eq in Ht. subst b. rewrite Hl.
    destruct (mpe_alg args x) as [e|x'] eqn:Em; cbn [snd set_algs s_algs]; [exists x; repeat split; assumption|].
    destruct (mpe_alg_wf args x x' Hwx Em) as (_ & Hb & Hres).
    exists x'. rewrite (lookup_update_same a x' x _ Hl). repeat split; [rewrite Hres; exact Hr|exact Hb].
Qed.

Lemma result_stable h s a x r : wf_setup s -> (forall o, In o h -> is_add o a = false) ->
  lookup a (s_algs s) = Some x -> a_result x = Some r ->
  exists x', lookup a (s_algs (exec h s)) = Some x' /\ a_result x' = Some r /\ binding_of x' = binding_of x.
Proof.
  revert s x. induction h as [|o t IH]; intros s x Hw Hh Hl Hr; cbn [exec fold_left].
  - exists x. repeat split; assumption.
  - destruct (step_keeps_result s o a x r Hw (Hh o (or_introl eq_refl)) Hl Hr) as (x1 & Hl1 & Hr1 & Hb1).
    destruct (IH (snd (step s o)) x1 (step_wf s o Hw) (fun o' H => Hh o' (or_intror H)) Hl1 Hr1) as (x2 & Hl2 & Hr2 & Hb2).
    exists x2. repeat split; [exact Hl2|exact Hr2|rewrite Hb2; exact Hb1].
Qed.

Lemma idempotent_rerun s a : fst (step s (RunByName a)) = None ->
  step (snd (step s (RunByName a))) (RunByName a) = (None, snd (step s (RunByName a))).
Proof.
  cbn [step]. destruct (lookup a (s_algs s)) as [x|] eqn:Hl; cbn [fst snd]; [|discriminate].
  destruct (run_alg x) as [e|x'] eqn:Er; cbn [fst snd]; [discriminate|]. intros _.
  cbn [set_algs s_algs]. rewrite (lookup_update_same a x' x _ Hl), (run_alg_idem x x' Er).
  rewrite (update_same a x' (update a x' (s_algs s))) by (apply (lookup_update_same a x' x _ Hl)).
  reflexivity.
Qed.

Lemma idempotent_run_all s : fst (step s RunAll) = None -> step (snd (step s RunAll)) RunAll = (None, snd (step s RunAll)).
Proof.
  cbn [step]. destruct (run_each (s_algs s)) as [e l'] eqn:E. cbn [fst snd set_algs s_algs]. intros ->.
  rewrite (run_each_idem _ _ E). reflexivity.
Qed.

(* ---------------------------------------------------------------- run_all is the fold of run_by_name *)
Lemma run_names_stuck e s ns : fold_left run_step ns (Some e, s) = (Some e, s).
Proof. induction ns as [|n t IH]; cbn [fold_left]; [reflexivity|exact IH]. Qed.

Lemma run_step_first dd ff pre n x t : ~ In n (map fst pre) ->
  run_step (None, mkSetup dd ff (pre ++ (n,x)::t)) n =
  match run_alg x with
  | inl e => (Some e, mkSetup dd ff (pre ++ (n,x)::t))
  | inr x' => (None, mkSetup dd ff (pre ++ (n,x')::t))
  end.
Proof.
  intros Hnot. unfold run_step. cbn [fst snd step s_algs]. rewrite (lookup_app_notin n pre _ Hnot).
  cbn [lookup]. rewrite Nat.eqb_refl. destruct (run_alg x) as [e|x']; [reflexivity|].
  cbn [set_algs s_data s_fs s_algs]. rewrite (update_app_notin n x' pre _ Hnot). cbn [update]. rewrite Nat.eqb_refl. reflexivity.
Qed.

Lemma run_all_fold_gen dd ff rest : forall pre, NoDup (map fst (pre ++ rest)) ->
  run_names (mkSetup dd ff (pre ++ rest)) (map fst rest)
  = (fst (run_each rest), mkSetup dd ff (pre ++ snd (run_each rest))).
Proof.
  unfold run_names. induction rest as [|[n x] t IH]; intros pre Hn.
  - reflexivity.
  - assert (Hnot : ~ In n (map fst pre)).
    { rewrite map_app in Hn. cbn [map fst] in Hn. intros Hin. apply NoDup_remove_2 in Hn. apply Hn. apply in_or_app. left. exact Hin. }
    cbn [map fst fold_left]. rewrite (run_step_first dd ff pre n x t Hnot). cbn [run_each].
    destruct (run_alg x) as [e|x'] eqn:Er.
    + cbn [fst snd]. apply run_names_stuck.
    + replace (pre ++ (n,x')::t) with ((pre ++ [(n,x')]) ++ t) by (rewrite <- app_assoc; reflexivity).
      rewrite IH.
      * destruct (run_each t) as [e t']. cbn [fst snd]. rewrite <- app_assoc. reflexivity.
      * rewrite <- app_assoc. cbn [app]. rewrite map_app in *. cbn [map fst] in *. exact Hn.
Qed.

Lemma run_all_is_fold s : NoDup (map fst (s_algs s)) -> step s RunAll = run_names s (map fst (s_algs s)).
Proof.
  destruct s as [dd ff l]. cbn [s_algs]. intros Hn.
  pose proof (run_all_fold_gen dd ff l [] Hn) as H. cbn [app] in H. rewrite H. cbn [step s_algs set_algs s_data s_fs].
  destruct (run_each l) as [e l']. reflexivity.
Qed.

Lemma reachable_names_unique d0 f0 h : NoDup (map fst (s_algs (exec h (new_setup d0 f0)))).
Proof. exact (proj1 (exec_wf h _ (wf_new d0 f0))). Qed.

Lemma run_all_is_fold_reachable d0 f0 h :
  let s := exec h (new_setup d0 f0) in step s RunAll = run_names s (map fst (s_algs s)).
Proof. cbn zeta. apply run_all_is_fold. apply reachable_names_unique. Qed.

(* ---------------------------------------------------------------- persistence *)
Lemma saveload_id s : step s SaveLoad = (None, s).
Proof. reflexivity. Qed.

Lemma saveload_anywhere h1 h2 s : exec (h1 ++ SaveLoad :: h2) s = exec (h1 ++ h2) s /\
  trace (h1 ++ SaveLoad :: h2) s = trace h1 s ++ None :: trace h2 (exec h1 s).
Proof.
  split.
  - rewrite !exec_app. reflexivity.
  - revert s. induction h1 as [|o t IH]; intros s; cbn [app trace exec fold_left step fst snd]; [reflexivity|].
    rewrite IH. reflexivity.
Qed.

(* ---------------------------------------------------------------- an algorithm never run has no result *)
Definition is_run (o:op) (a:name) : bool := match o with RunByName b => Nat.eqb b a | RunAll => true | _ => false end.

Lemma step_no_run_no_result s o a : is_run o a = false ->
  (forall x, lookup a (s_algs s) = Some x -> a_result x = None) ->
  forall x, lookup a (s_algs (snd (step s o))) = Some x -> a_result x = None.
Proof.
  intros Hr Hs. destruct (targets o a) eqn:Ht; [|rewrite frame by exact Ht; exact Hs].
  destruct o as [b c p|b| |b args|d f|]; cbn [step targets is_run] in *; try discriminate.
  - apply Nat.eqb_eq in Ht. subst b. destruct (s_fs s); cbn [snd set_algs s_algs]; [|exact Hs].
    rewrite lookup_upsert_same. intros x H. injection H as <-. reflexivity.
  - rewrite Ht in Hr. discriminate.
  - apply Nat.eqb_eq in Ht. subst b. intros x0. destruct (lookup a (s_algs s)) as [y|] eqn:Hl; cbn [snd].
    + unfold mpe_alg. rewrite (Hs y eq_refl). cbn [snd]. rewrite Hl. exact (Hs x0).
    + rewrite Hl. discriminate.
Qed.

Lemma never_run_no_result d0 f0 h a : (forall o, In o h -> is_run o a = false) ->
  forall x, lookup a (s_algs (exec h (new_setup d0 f0))) = Some x -> a_result x = None.
Proof.
  intros Hh. assert (H0 : forall x, lookup a (s_algs (new_setup d0 f0)) = Some x -> a_result x = None) by (intros x H; discriminate).
  revert H0 Hh. generalize (new_setup d0 f0). induction h as [|o t IH]; intros s H0 Hh; cbn [exec fold_left]; [exact H0|].
  apply IH; [|intros o' H; apply Hh; right; exact H].
  apply step_no_run_no_result; [apply Hh; left; reflexivity|exact H0].
Qed.

Lemma never_run_mpe_gated d0 f0 h a args : (forall o, In o h -> is_run o a = false) ->
  let s := exec h (new_setup d0 f0) in
  step s (Mpe a args) = (Some (match lookup a (s_algs s) with None => KeyErr | Some _ => ValueErr end), s).
Proof.
  intros Hh. cbn zeta. destruct (lookup a (s_algs (exec h (new_setup d0 f0)))) as [x|] eqn:Hl.
  - apply (gate_mpe _ a x args Hl). exact (never_run_no_result d0 f0 h a Hh x Hl).
  - apply gate_mpe_unknown. exact Hl.
Qed.

(* ---------------------------------------------------------------- PoSER validation *)
Lemma nat_list_eqb_eq u v : nat_list_eqb u v = true <-> u = v.
Proof.
  revert v. induction u as [|x u IH]; intros [|y v]; cbn [nat_list_eqb]; try (split; [discriminate|discriminate]).
  - split; reflexivity.
  - rewrite andb_true_iff, Nat.eqb_eq, IH. split; [intros [-> ->]; reflexivity|intros H; injection H as -> ->; split; reflexivity].
Qed.

Definition poser_spec (ss:list setup_desc) (names:list name) : Prop :=
  2 <= length ss /\
  (forall s, In s ss -> s <> []) /\
  (forall s, In s ss -> types_of s = types_of (hd [] ss)) /\
  length names = length (hd [] ss) /\
  (forall s, In s ss -> forall c st, In (c,st) s -> st <> NotRun) /\
  (forall s, In s ss -> forall c st, In (c,st) s -> st = Extracted).

Lemma poser_ok_iff ss names : poser_ok ss names = true <-> poser_spec ss names.
Proof.
  unfold poser_ok, poser_check, poser_spec.
  destruct (Nat.leb (length ss) 1) eqn:E1.
  { apply Nat.leb_le in E1. split; [discriminate|intros (H & _); lia]. }
  apply Nat.leb_gt in E1.
  destruct (existsb is_nil ss) eqn:E2.
  { apply existsb_exists in E2. destruct E2 as (s & Hin & Hs). split; [discriminate|].
    intros (_ & H & _). exfalso. apply (H s Hin). destruct s; [reflexivity|discriminate]. }
  destruct (forallb (fun s => nat_list_eqb (types_of s) (types_of (hd [] ss))) ss) eqn:E3; cbn [negb].
  2:{ split; [discriminate|]. intros (_ & _ & H & _). exfalso.
      assert (Hc : forallb (fun s => nat_list_eqb (types_of s) (types_of (hd [] ss))) ss = true).
      { apply forallb_forall. intros s Hin. apply nat_list_eqb_eq. exact (H s Hin). }
      rewrite Hc in E3. discriminate. }
  destruct (Nat.eqb (length names) (length (hd [] ss))) eqn:E4; cbn [negb].
  2:{ apply Nat.eqb_neq in E4. split; [discriminate|]. intros (_ & _ & _ & H & _). contradiction. }
  apply Nat.eqb_eq in E4.
  destruct (forallb (forallb (fun ca : cls * astate => has_run (snd ca) && is_extracted (snd ca))) ss) eqn:E5; cbn [negb].
  - split; [intros _|reflexivity].
    assert (H5 : forall s, In s ss -> forall c st, In (c,st) s -> has_run st && is_extracted st = true).
    { intros s Hin c st Hin2. rewrite forallb_forall in E5. specialize (E5 s Hin). rewrite forallb_forall in E5.
      exact (E5 (c,st) Hin2). }
    repeat split.
    + lia.
    + intros s Hin Hs. subst s. assert (Hx : existsb is_nil ss = true) by (apply existsb_exists; exists []; split; [exact Hin|reflexivity]).
      rewrite Hx in E2. discriminate.
    + intros s Hin. apply nat_list_eqb_eq. rewrite forallb_forall in E3. exact (E3 s Hin).
    + exact E4.
    + intros s Hin c st Hin2 ->. specialize (H5 s Hin c NotRun Hin2). discriminate.
    + intros s Hin c st Hin2. specialize (H5 s Hin c st Hin2). destruct st; [discriminate|discriminate|reflexivity].
  - split; [discriminate|]. intros (_ & _ & _ & _ & _ & H). exfalso.
    assert (Hc : forallb (forallb (fun ca : cls * astate => has_run (snd ca) && is_extracted (snd ca))) ss = true).
    { apply forallb_forall. intros s Hin. apply forallb_forall. intros [c st] Hin2. cbn [snd]. rewrite (H s Hin c st Hin2). reflexivity. }
    rewrite Hc in E5. discriminate.
Qed.

(* "one name per algorithm": the names enter only through the NUMBER of list entries (repeats count, distinctness is not asked) *)
Lemma poser_check_names_length ss n1 n2 : length n1 = length n2 -> poser_check ss n1 = poser_check ss n2.
Proof. intros H. unfold poser_check. rewrite H. reflexivity. Qed.

(* the clause that fires is the first one violated, in the order of the code *)
Lemma poser_first_clause ss names k : poser_check ss names = Some k -> 1 <= k <= 5.
Proof.
  unfold poser_check.
  destruct (Nat.leb (length ss) 1); [intros H; injection H as <-; lia|].
  destruct (existsb is_nil ss); [intros H; injection H as <-; lia|].
  destruct (negb _); [intros H; injection H as <-; lia|].
  destruct (negb _); [intros H; injection H as <-; lia|].
  destruct (negb _); [intros H; injection H as <-; lia|discriminate].
Qed.

(* on setups produced by histories: "extracted" means a result and modes of that very result are stored *)
Lemma state_of_extracted x : state_of x = Extracted <-> (exists r, a_result x = Some r) /\ (exists m, a_mpe x = Some m).
Proof.
  unfold state_of. destruct (a_result x) as [r|], (a_mpe x) as [m|]; split; try discriminate.
  - intros _. split; eexists; reflexivity.
  - reflexivity.
  - intros [_ [m H]]. discriminate.
  - intros [[r H] _]. discriminate.
  - intros [[r H] _]. discriminate.
Qed.
