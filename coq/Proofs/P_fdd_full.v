(* C06 - the composition THROUGH the executable table model: FDD_mpe (fdd_mpe1) run on the three-index tables that
   SD_svalsvec builds (tab3 of sval_of / svec_of) from a contract-meeting SVD sequence over Qc.
   1 accessors of tab3-built tables: entry (i,j,k) of the table IS the function value for in-range indices, and reading a
     line / the stored row 0 of such a table succeeds exactly in range (line, ratio_at, row0);
   2 Qc glue: [this] of a canonical product / quotient is Qeq to the product / quotient of the representatives;
   3 fdd_full: the statement C06_full_statement of Properties/C06.v. *)
From Coq Require Import List Arith ZArith QArith Qabs Qcanon Bool Lia Lqa Ring Field.
From PyOMA.Base Require Import Carrier FMat Cplx Argmin.
From PyOMA.Model Require Import M_fdd.
From PyOMA.Proofs Require Import P_fdd.
Import ListNotations.

(* ---------- 1. tables built by tab3 ---------- *)
Lemma nth_error_seq_c06 n : forall s i, nth_error (seq s n) i = if (i <? n)%nat then Some (s + i)%nat else None.
Proof.
  induction n as [|n IH]; intros s i; cbn [seq].
  - destruct i; reflexivity.
  - destruct i as [|i]; cbn [nth_error].
    + rewrite Nat.add_0_r. reflexivity.
    + rewrite IH. change (S i <? S n)%nat with (i <? n)%nat.
      destruct (i <? n)%nat; [f_equal; lia|reflexivity].
Qed.
Lemma nth_error_mapseq {A} (g:nat -> A) n i : nth_error (map g (seq 0 n)) i = if (i <? n)%nat then Some (g i) else None.
Proof. rewrite nth_error_map, nth_error_seq_c06. destruct (i <? n)%nat; reflexivity. Qed.

(* T[i,j,:] of a tab3-built table, i and j in range, is the tabulated line *)
Lemma tab3_line {A} a b c (f:nat -> nat -> nat -> A) i j : (i < a)%nat -> (j < b)%nat ->
  line (tab3 a b c f) i j = Some (map (fun k => f i j k) (seq 0 c)).
Proof.
  intros Hi Hj. unfold line, tab3. rewrite nth_error_mapseq. destruct (Nat.ltb_spec i a) as [_|Hn]; [|lia].
  rewrite nth_error_mapseq. destruct (Nat.ltb_spec j b) as [_|Hn]; [|lia]. reflexivity.
Qed.
(* T[i,j,k] = f i j k for in-range indices (and an IndexError past the last line) *)
Lemma tab3_entry {A} a b c (f:nat -> nat -> nat -> A) i j k : (i < a)%nat -> (j < b)%nat ->
  exists ln, line (tab3 a b c f) i j = Some ln /\ length ln = c /\
    nth_error ln k = if (k <? c)%nat then Some (f i j k) else None.
Proof.
  intros Hi Hj. exists (map (fun k => f i j k) (seq 0 c)). split; [apply tab3_line; assumption|].
  split; [rewrite map_length, seq_length; reflexivity|apply nth_error_mapseq].
Qed.
(* the ratio of the first to the second stored value at an in-range line of a table with >= 2 singular values *)
Lemma ratio_at_tab3 nc nf (F:nat -> nat -> nat -> Q) k : (2 <= nc)%nat -> (k < nf)%nat ->
  ratio_at (tab3 nc nc nf F) k = Some (F 0%nat 0%nat k / F 1%nat 1%nat k)%Q.
Proof.
  intros Hnc Hk. unfold ratio_at. rewrite !tab3_line by lia. rewrite !nth_error_mapseq.
  destruct (Nat.ltb_spec k nf) as [_|Hn]; [|lia]. reflexivity.
Qed.
(* Svec[0,:,k] of a tab3-built table: it is read only at an in-range line, and it is (f 0 j k)_j *)
Lemma row0_tab3 {A} a b c (f:nat -> nat -> nat -> A) k v : (0 < a)%nat -> row0 (tab3 a b c f) k = Ok v ->
  length v = b /\ forall j, (j < b)%nat -> (k < c)%nat /\ nth_error v j = Some (f 0%nat j k).
Proof.
  intros Ha H. destruct (row0_spec _ _ _ H) as (chans & Hch & Hlen & Hent).
  unfold tab3 in Hch. rewrite nth_error_mapseq in Hch. destruct (Nat.ltb_spec 0 a) as [_|Hn]; [|lia].
  inversion Hch; subst chans; clear Hch.
  rewrite map_length, seq_length in Hlen. split; [exact Hlen|].
  intros j Hj. destruct (Hent j (map (fun k0 => f 0%nat j k0) (seq 0 c))) as (z & Hz & Hv).
  - rewrite nth_error_mapseq. destruct (Nat.ltb_spec j b) as [_|Hn]; [reflexivity|lia].
  - rewrite nth_error_mapseq in Hz. destruct (Nat.ltb_spec k c) as [Hkc|Hn]; [|discriminate].
    inversion Hz; subst z. split; assumption.
Qed.
Lemma row0_tab3_total {A} a b c (f:nat -> nat -> nat -> A) k : (0 < a)%nat -> (k < c)%nat ->
  row0 (tab3 a b c f) k = Ok (map (fun j => f 0%nat j k) (seq 0 b)).
Proof.
  intros Ha Hk. unfold row0, tab3. rewrite nth_error_mapseq. destruct (Nat.ltb_spec 0 a) as [_|Hn]; [|lia].
  rewrite map_map.
  assert (E: forall l, all_some (map (fun x => nth_error (map (fun k0 => f 0%nat x k0) (seq 0 c)) k) l) = Some (map (fun j => f 0%nat j k) l)).
  { induction l as [|x l IH]; [reflexivity|]. cbn [map all_some]. rewrite nth_error_mapseq.
    destruct (Nat.ltb_spec k c) as [_|Hn]; [|lia]. rewrite IH. reflexivity. }
  rewrite E. reflexivity.
Qed.

(* ---------- 2. canonical rationals ---------- *)
Lemma this_Qcmult (x y:Qc) : (this (x * y)%Qc == this x * this y)%Q.
Proof. unfold Qcmult, Q2Qc. cbn [this]. apply Qred_correct. Qed.
Lemma this_Qcdiv (x y:Qc) : (this (x / y)%Qc == this x / this y)%Q.
Proof. unfold Qcdiv, Qcmult, Qcinv, Q2Qc. cbn [this]. rewrite !Qred_correct. reflexivity. Qed.
Lemma sigma_ratio (s0 s1 g0 g1:Qc) : (s0 * s0 = g0)%Qc -> (s1 * s1 = g1)%Qc ->
  (this (g0 / g1)%Qc == (this s0 * this s0) / (this s1 * this s1))%Q.
Proof. intros <- <-. rewrite this_Qcdiv, !this_Qcmult. reflexivity. Qed.

(* ---------- complex division undone (generic field) ---------- *)
Section Cancel.
Variable R:Type. Variable K:Ops R.
Hypothesis Fth : field_theory (o0 K) (o1 K) (oadd K) (omul K) (osub K) (oopp K) (odiv K) (oinv K) (@eq R).
Let Rth := F_R Fth.
Add Field FfCancel : Fth.
Lemma cinv_cancel (d y:C R) : cnorm2 K d <> o0 K -> y = cmul K (cinv K d) (cmul K d y).
Proof.
  intros Hd. transitivity (cmul K (cmul K (cinv K d) d) y).
  - rewrite (cinv_l R K Fth d Hd). destruct y. apply c_eq; cbn; ring.
  - generalize (cinv K d). intros w. destruct w, d, y. apply c_eq; cbn; ring.
Qed.
End Cancel.

(* ---------- 3. the composition through the executable model ---------- *)
Theorem fdd_full :
  forall (nr nc nf:nat) (Sy U Vh:nat -> fmat CQ) (sigma sq:nat -> nat -> Qc) (freq:list Q) (f DF:Q) (idx:nat) (fn:Q) (phi:list CQ),
  (2 <= nc <= nr)%nat -> List.length freq = nf -> increasing freq ->
  (forall k, (k < nf)%nat ->
     feq nr nc (Sy k) (fmul (COps QcOps) nc (U k) (fmul (COps QcOps) nc (cdiag QcOps (sigma k)) (Vh k))) /\
     feq nr nr (fmul (COps QcOps) nr (fherm QcOps (U k)) (U k)) (fid (COps QcOps)) /\
     feq nr nr (fmul (COps QcOps) nr (U k) (fherm QcOps (U k))) (fid (COps QcOps)) /\
     (forall i, (i < nc)%nat -> (0 < sq k i)%Qc /\ (sq k i * sq k i = sigma k i)%Qc) /\
     (forall i, (S i < nc)%nat -> (sq k (S i) <= sq k i)%Qc)) ->
  fdd_mpe1 freq (tab3 nc nc nf (fun i j k => this (sval_of QcOps (sq k) i j)))
                (tab3 nr nr nf (fun i j k => svec_of QcOps (U k) i j)) f DF = Ok (idx, fn, phi) ->
  exists lo hi,
    nearest freq (f - DF) = Some lo /\ nearest freq (f + DF) = Some hi /\ nth_error freq idx = Some fn /\
    first_max_on (fun k => Some (this (sigma k 0%nat / sigma k 1%nat)%Qc)) lo hi idx /\
    mac_num QcOps nr (vecC QcOps phi) (fun i => cconj QcOps (U idx i 0%nat))
    = mac_den QcOps nr (vecC QcOps phi) (fun i => cconj QcOps (U idx i 0%nat)) /\
    (exists p, nth_error phi p = Some (c1 QcOps)).
Proof.
  intros nr nc nf Sy U Vh sigma sq freq f DF idx fn phi Hdim Hnf Hinc Hsvd Hrun.
  destruct (fdd_shape _ _ _ _ _ _ _ _ Hrun) as (lo & hi & v & p & d & Hi & Hfn & Hrow & Hp & Hd & Hmax & Hfst & Hlen & Hpiv & Hmul & _).
  destruct (fdd_pick_spec _ _ _ _ _ _ _ Hi) as (Hlo & Hhi & (Hb & m & Hm & Hmx & Hft)).
  assert (Hhinf: (hi < nf)%nat).
  { destruct (nearest_spec _ _ _ Hhi) as (g & Hg & _). rewrite <- Hnf. apply nth_error_Some. rewrite Hg. discriminate. }
  assert (Hidx: (idx < nf)%nat) by lia.
  exists lo, hi. split; [exact Hlo|]. split; [exact Hhi|]. split; [exact Hfn|].
  assert (Hrat: forall k, (k < nf)%nat ->
            ratio_at (tab3 nc nc nf (fun i j k => this (sval_of QcOps (sq k) i j))) k
            = Some (this (sq k 0%nat) / this (sq k 1%nat))%Q).
  { intros k Hk. rewrite ratio_at_tab3 by lia. reflexivity. }
  assert (Hsq: forall k i, (k < nf)%nat -> (i < nc)%nat -> (0 < this (sq k i))%Q /\ (sq k i * sq k i = sigma k i)%Qc).
  { intros k i Hk Hi'. destruct (Hsvd k Hk) as (_ & _ & _ & Hs & _). destruct (Hs i Hi') as [P E]. split; [exact P|exact E]. }
  assert (Hkey: forall k, (k < nf)%nat ->
            (this (sigma k 0%nat / sigma k 1%nat)%Qc
             == (this (sq k 0%nat) * this (sq k 0%nat)) / (this (sq k 1%nat) * this (sq k 1%nat)))%Q).
  { intros k Hk. apply sigma_ratio; [exact (proj2 (Hsq k 0%nat Hk ltac:(lia)))|exact (proj2 (Hsq k 1%nat Hk ltac:(lia)))]. }
  split.
  { unfold first_max_on. split; [exact Hb|].
    rewrite (Hrat idx Hidx) in Hm. injection Hm as <-.
    exists (this (sigma idx 0%nat / sigma idx 1%nat)%Qc). split; [reflexivity|].
    destruct (Hsq idx 0%nat Hidx ltac:(lia)) as [Pa _]. destruct (Hsq idx 1%nat Hidx ltac:(lia)) as [Pb _].
    split; intros k x Hk Hx; cbv beta in Hx; injection Hx as <-.
    - assert (Hk': (k < nf)%nat) by lia.
      destruct (Hsq k 0%nat Hk' ltac:(lia)) as [Pc _]. destruct (Hsq k 1%nat Hk' ltac:(lia)) as [Pd _].
      rewrite (Hkey k Hk'), (Hkey idx Hidx).
      apply (proj1 (ratio_sq_le _ _ _ _ Pc Pd Pa Pb)). apply (Hmx k); [exact Hk|apply Hrat; exact Hk'].
    - assert (Hk': (k < nf)%nat) by lia.
      destruct (Hsq k 0%nat Hk' ltac:(lia)) as [Pc _]. destruct (Hsq k 1%nat Hk' ltac:(lia)) as [Pd _].
      rewrite (Hkey k Hk'), (Hkey idx Hidx).
      apply (proj1 (ratio_sq_lt _ _ _ _ Pc Pd Pa Pb)). apply (Hft k); [exact Hk|apply Hrat; exact Hk']. }
  assert (Hnr: (0 < nr)%nat) by lia.
  destruct (row0_tab3 _ _ _ _ _ _ Hnr Hrow) as [Hvlen Hvent].
  split.
  { apply (mac_collinear Qc QcOps QcRth nr (vecC QcOps phi) (fun i => cconj QcOps (U idx i 0%nat)) (cinv QcOps d)).
    intros k Hk. destruct (Hvent k Hk) as [_ Hvk].
    destruct (Hmul k _ Hvk) as (y & Hy & Hzy).
    unfold vecC. rewrite (nth_error_nth phi k _ Hy).
    change (svec_of QcOps (U idx) 0%nat k) with (cconj QcOps (U idx k 0%nat)) in Hzy. rewrite Hzy.
    apply (cinv_cancel Qc QcOps QcFth). exact Hd. }
  exists p. exact Hpiv.
Qed.

(* ---------- 4. the run DOES return on every non-empty band of such tables ---------- *)
Lemma unity_total (v:list CQ) : v <> [] ->
  ~ (forall j z, nth_error v j = Some z -> (cnorm2 QcOps z <= 0)%Qc) ->
  exists phi, unity v = Ok phi /\ length phi = length v.
Proof.
  intros Hne Hnz. unfold unity. destruct (argmax_abs v) as [p|] eqn:Ep.
  - destruct (argmax_abs_spec v p Ep) as (d & Hd & Hmax & _). rewrite Hd.
    destruct (Qeq_bool (this (cnorm2 QcOps d)) 0) eqn:Ez.
    + exfalso. apply Hnz. intros j z Hj. specialize (Hmax j z Hj).
      assert (E0: cnorm2 QcOps d = 0%Qc) by (apply Qc_is_canon; apply Qeq_bool_iff in Ez; exact Ez).
      rewrite E0 in Hmax. exact Hmax.
    + eexists. split; [reflexivity|]. unfold unity_by. apply map_length.
  - exfalso. apply Hne. apply argmax_abs_none. exact Ep.
Qed.

Lemma nrm2_le0_Qc n (a:nat -> CQ) : (forall k, (k < n)%nat -> (cnorm2 QcOps (a k) <= 0)%Qc) -> (nrm2 QcOps n a <= 0)%Qc.
Proof.
  unfold nrm2. induction n as [|n IH]; intros H; cbn [sumn].
  - cbn. apply Qcle_refl.
  - specialize (IH ltac:(intros k Hk; apply H; lia)). specialize (H n ltac:(lia)).
    cbn [oadd QcOps]. replace 0%Qc with (0 + 0)%Qc by ring. apply Qcplus_le_compat; assumption.
Qed.

Theorem fdd_full_total :
  forall (nr nc nf:nat) (Sy U Vh:nat -> fmat CQ) (sigma sq:nat -> nat -> Qc) (freq:list Q) (f DF:Q) (lo hi:nat),
  (2 <= nc <= nr)%nat -> List.length freq = nf ->
  (forall k, (k < nf)%nat ->
     feq nr nc (Sy k) (fmul (COps QcOps) nc (U k) (fmul (COps QcOps) nc (cdiag QcOps (sigma k)) (Vh k))) /\
     feq nr nr (fmul (COps QcOps) nr (fherm QcOps (U k)) (U k)) (fid (COps QcOps)) /\
     feq nr nr (fmul (COps QcOps) nr (U k) (fherm QcOps (U k))) (fid (COps QcOps)) /\
     (forall i, (i < nc)%nat -> (0 < sq k i)%Qc /\ (sq k i * sq k i = sigma k i)%Qc) /\
     (forall i, (S i < nc)%nat -> (sq k (S i) <= sq k i)%Qc)) ->
  nearest freq (f - DF) = Some lo -> nearest freq (f + DF) = Some hi -> (lo < hi)%nat ->
  exists idx fn phi,
    fdd_mpe1 freq (tab3 nc nc nf (fun i j k => this (sval_of QcOps (sq k) i j)))
                  (tab3 nr nr nf (fun i j k => svec_of QcOps (U k) i j)) f DF = Ok (idx, fn, phi) /\
    (lo <= idx < hi)%nat /\ List.length phi = nr.
Proof.
  intros nr nc nf Sy U Vh sigma sq freq f DF lo hi Hdim Hnf Hsvd Hlo Hhi Hlh.
  set (Sval := tab3 nc nc nf (fun i j k => this (sval_of QcOps (sq k) i j))).
  set (Svec := tab3 nr nr nf (fun i j k => svec_of QcOps (U k) i j)).
  assert (Hhinf: (hi < nf)%nat).
  { destruct (nearest_spec _ _ _ Hhi) as (g & Hg & _). rewrite <- Hnf. apply nth_error_Some. rewrite Hg. discriminate. }
  (* the pick *)
  destruct (fdd_pick_total freq Sval f DF lo hi
              (map (fun k => this (sval_of QcOps (sq k) 0%nat 0%nat)) (seq 0 nf))
              (map (fun k => this (sval_of QcOps (sq k) 1%nat 1%nat)) (seq 0 nf)) Hlo Hhi) as [idx Hi].
  - unfold Sval. rewrite tab3_line by lia. reflexivity.
  - unfold Sval. rewrite tab3_line by lia. reflexivity.
  - rewrite !map_length. reflexivity.
  - intros y Hy. apply In_nth_error in Hy. destruct Hy as [i Hy]. rewrite pyslice_nth in Hy.
    destruct (i <? hi - lo)%nat eqn:Eb; [|discriminate]. apply Nat.ltb_lt in Eb.
    rewrite nth_error_mapseq in Hy. destruct (Nat.ltb_spec (lo + i) nf) as [Hk|Hn]; [|lia].
    injection Hy as <-. destruct (Hsvd (lo + i)%nat Hk) as (_ & _ & _ & Hs & _). destruct (Hs 1%nat ltac:(lia)) as [P _].
    change (0 < this (sq (lo + i)%nat 1%nat))%Q in P. intros E.
    change (this (sval_of QcOps (sq (lo + i)%nat) 1%nat 1%nat)) with (this (sq (lo + i)%nat 1%nat)) in E. lra.
  - exact Hlh.
  - rewrite map_length, seq_length. lia.
  - destruct (fdd_pick_spec _ _ _ _ _ _ _ Hi) as (_ & _ & (Hb & _)).
    assert (Hidx: (idx < nf)%nat) by lia.
    destruct (nth_error freq idx) as [fn|] eqn:Efn; [|apply nth_error_None in Efn; lia].
    pose proof (@row0_tab3_total CQ nr nr nf (fun i j k => svec_of QcOps (U k) i j) idx ltac:(lia) Hidx) as Hrow.
    fold Svec in Hrow. set (v := @map nat CQ (fun j => svec_of QcOps (U idx) 0%nat j) (seq 0 nr)) in *.
    assert (Hvlen: length v = nr) by (unfold v; rewrite map_length, seq_length; reflexivity).
    destruct (unity_total v) as (phi & Hphi & Hplen).
    + intros E. rewrite E in Hvlen. cbn in Hvlen. lia.
    + intros Hall. destruct (Hsvd idx Hidx) as (_ & HUhU & _).
      assert (Hn1: nrm2 QcOps nr (fun k => U idx k 0%nat) = 1%Qc).
      { pose proof (HUhU 0%nat 0%nat ltac:(lia) ltac:(lia)) as H00. unfold fmul, fid in H00. cbn [Nat.eqb] in H00.
        change (sumn (COps QcOps) nr (fun k => omul (COps QcOps) (fherm QcOps (U idx) 0%nat k) (U idx k 0%nat)))
          with (hdot QcOps nr (fun k => U idx k 0%nat) (fun k => U idx k 0%nat)) in H00.
        rewrite (hdot_self Qc QcOps QcRth) in H00. unfold cofR in H00. cbn in H00. inversion H00. reflexivity. }
      assert (Hle: (nrm2 QcOps nr (fun k => U idx k 0%nat) <= 0)%Qc).
      { apply nrm2_le0_Qc. intros k Hk. rewrite <- (cnorm2_conj Qc QcOps QcRth).
        apply (Hall k). unfold v. rewrite nth_error_mapseq. destruct (Nat.ltb_spec k nr) as [_|Hn]; [reflexivity|lia]. }
      rewrite Hn1 in Hle. vm_compute in Hle. exact (Hle eq_refl).
    + exists idx, fn, phi. split; [|split; [exact Hb|exact (eq_trans Hplen Hvlen)]].
      subst Sval Svec. unfold fdd_mpe1. rewrite Hi, Efn.
      match goal with |- match ?r with Ok _ => _ | Err _ => _ end = _ => assert (Er: r = Ok v) by exact Hrow; rewrite Er end.
      cbv beta iota. rewrite Hphi. reflexivity.
Qed.
