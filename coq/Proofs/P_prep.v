(* C14 - lemmas about the preprocessing model M_prep.v: every history of decimate / detrend / filter / rollback /
   add_algorithms calls. *)
From Coq Require Import List ZArith QArith Qcanon String Bool Arith PArith Lia Field.
From PyOMA.Model Require Import M_prep.
Import ListNotations.
Local Open Scope list_scope.

(* ---------------------------------------------------------------- folds over a history extended by one call -- *)
Lemma run_snoc : forall pc sg s0 ops o, run pc sg s0 (ops ++ [o]) = bindp (run pc sg s0 ops) (fun s => step pc sg s o).
Proof. intros. unfold run. rewrite fold_left_app. reflexivity. Qed.

Lemma since_rb_snoc : forall ops o,
  since_rb (ops ++ [o]) = match o with Rollback => [] | _ => since_rb ops ++ [o] end.
Proof. intros. unfold since_rb. rewrite fold_left_app. reflexivity. Qed.

Lemma apply_ops_snoc : forall ops o c, apply_ops (ops ++ [o]) c = app1 (apply_ops ops c) o.
Proof. intros. unfold apply_ops. rewrite fold_left_app. reflexivity. Qed.

Definition qfac (o:op) : Qc := match o with Decimate q _ => Qc_of_pos q | _ => 1%Qc end.
Lemma qprod_snoc : forall ops o, qprod (ops ++ [o]) = (qprod ops * qfac o)%Qc.
Proof.
  induction ops as [|a r IH]; intro o; cbn [app].
  - destruct o; cbn [qprod qfac]; ring.
  - destruct a; cbn [qprod]; rewrite IH; ring.
Qed.

Lemma Qc_1_nz : 1%Qc <> 0%Qc.
Proof. intro H. apply Q2Qc_eq_iff in H. discriminate H. Qed.
Lemma Qc_of_pos_nz : forall p, Qc_of_pos p <> 0%Qc.
Proof. intros p H. unfold Qc_of_pos in H. apply Q2Qc_eq_iff in H. unfold Qeq in H. cbn in H. lia. Qed.
Lemma qfac_nz : forall o, qfac o <> 0%Qc.
Proof. destruct o; cbn [qfac]; auto using Qc_1_nz, Qc_of_pos_nz. Qed.
Lemma qprod_nz : forall ops, qprod ops <> 0%Qc.
Proof.
  induction ops as [|a r IH]; cbn [qprod].
  - exact Qc_1_nz.
  - destruct a; try exact IH. intro H. apply Qcmult_integral in H. destruct H as [H|H]; [exact (Qc_of_pos_nz _ H)|exact (IH H)].
Qed.

(* ---------------------------------------------------------------- the ref/mov split survives every SciPy call - *)
Lemma mk_views_map_ok : forall f, (forall t, tnch (f t) = tnch t) ->
  forall c refs vs, mk_views refs c = POk vs -> exists vs', mk_views refs (map f c) = POk vs'.
Proof.
  intros f Hf. induction c as [|t cr IH]; intros refs vs H; cbn [map mk_views] in *.
  - eexists; reflexivity.
  - destruct refs as [|rf rr]; [discriminate|]. rewrite Hf.
    destruct (mov_ids (tnch t) rf) as [mv|]; [|discriminate].
    destruct (mk_views rr cr) as [vs1|e] eqn:E; [|discriminate].
    destruct (IH rr vs1 E) as [vs2 H2]. rewrite H2. eexists; reflexivity.
Qed.
Lemma mk_data_map_ok : forall sg f, (forall t, tnch (f t) = tnch t) ->
  forall refs c vs, mk_data sg refs c = POk vs -> exists vs', mk_data sg refs (map f c) = POk vs'.
Proof.
  intros sg f Hf refs c vs H. unfold mk_data in *. destruct sg.
  - eexists; reflexivity.
  - exact (mk_views_map_ok f Hf c refs vs H).
Qed.

(* ---------------------------------------------------------------- what __init__ establishes ------------------ *)
Lemma init_fields : forall sg fs0 refs ds s0, init_state sg fs0 refs ds = POk s0 ->
  cur s0 = ds /\ mk_data sg refs ds = POk (data s0) /\ fs s0 = fs0 /\ dt s0 = (/ fs0)%Qc /\ Ndats s0 = map tlen ds
  /\ Ts s0 = map (fun n => (/ fs0 * Qc_of_nat n)%Qc) (map tlen ds)
  /\ ref s0 = refs /\ init s0 = ds /\ init_fs s0 = fs0 /\ init_ref s0 = refs /\ bound s0 = [].
Proof.
  intros sg fs0 refs ds s0 H. unfold init_state in H. destruct (mk_data sg refs ds) as [vs|e] eqn:E; [|discriminate].
  inversion H; subst s0; clear H. cbn. rewrite map_map. repeat split; reflexivity.
Qed.

(* ---------------------------------------------------------------- the invariant of every history ------------- *)
Definition Inv (sg:bool) (fs0:Qc) (refs:list (list nat)) (ds:list term) (ops:list op) (s:state) : Prop :=
  (cur s, fs s) = apply_ops (since_rb ops) (ds, fs0)
  /\ mk_data sg refs (cur s) = POk (data s)
  /\ fs s = (fs0 / qprod (since_rb ops))%Qc /\ dt s = (/ fs s)%Qc
  /\ Ndats s = map tlen (cur s) /\ Ts s = map (fun n => (dt s * Qc_of_nat n)%Qc) (Ndats s)
  /\ ref s = refs /\ init s = ds /\ init_fs s = fs0 /\ init_ref s = refs.

Lemma inv_init : forall sg fs0 refs ds s0, init_state sg fs0 refs ds = POk s0 -> Inv sg fs0 refs ds [] s0.
Proof.
  intros sg fs0 refs ds s0 H. destruct (init_fields _ _ _ _ _ H) as (Hc & Hd & Hf & Hdt & Hn & HT & Hr & Hi & Hif & Hir & _).
  unfold Inv. cbn [since_rb fold_left apply_ops qprod]. rewrite Hc, Hf, Hdt, Hn, HT.
  repeat split; try assumption; try reflexivity. field. exact Qc_1_nz.
Qed.

Lemma inv_step : forall sg fs0 refs ds s0, init_state sg fs0 refs ds = POk s0 ->
  forall ops s1 o s, Inv sg fs0 refs ds ops s1 -> step false sg s1 o = POk s -> Inv sg fs0 refs ds (ops ++ [o]) s.
Proof.
  intros sg fs0 refs ds s0 Hinit ops s1 o s (Hc & Hd & Hfs & Hdt & Hn & HT & Hrf & Hi & Hif & Hir) H.
  assert (Hq : forall o', (fs0 / (qprod (since_rb ops) * qfac o'))%Qc = (fs s1 / qfac o')%Qc).
  { intro o'. rewrite Hfs. field. repeat split; auto using qfac_nz, qprod_nz. }
  assert (Hq1 : (fs0 / (qprod (since_rb ops) * 1))%Qc = fs s1).
  { rewrite Hfs. field. apply qprod_nz. }
  destruct o; cbn [step] in H.
  - (* decimate *)
    destruct (kw_ok dec_names kw); [|discriminate].
    destruct (mk_data sg (ref s1) (map (Dec q kw) (cur s1))) as [vs|e] eqn:Hm; [|discriminate].
    inversion H; subst s; clear H. unfold Inv. cbn [cur data fs dt Ndats Ts ref init init_fs init_ref].
    rewrite since_rb_snoc, apply_ops_snoc, qprod_snoc, <- Hc. cbn [app1 fst snd].
    rewrite Hrf in Hm. repeat split; try assumption; try reflexivity. symmetry; exact (Hq (Decimate q kw)).
  - (* detrend *)
    destruct (kw_ok det_names kw); [|discriminate].
    destruct (mk_data sg (ref s1) (map (Det kw) (cur s1))) as [vs|e] eqn:Hm; [|discriminate].
    inversion H; subst s; clear H. unfold Inv, with_data. cbn [cur data fs dt Ndats Ts ref init init_fs init_ref].
    rewrite since_rb_snoc, apply_ops_snoc, qprod_snoc, <- Hc. cbn [app1 fst snd qfac].
    rewrite Hrf in Hm. rewrite map_map. cbn [tlen]. repeat split; try assumption; try reflexivity. symmetry; exact Hq1.
  - (* filter *)
    destruct (mk_data sg (ref s1) (map (Filt (fs s1) w ord bt) (cur s1))) as [vs|e] eqn:Hm; [|discriminate].
    inversion H; subst s; clear H. unfold Inv, with_data. cbn [cur data fs dt Ndats Ts ref init init_fs init_ref].
    rewrite since_rb_snoc, apply_ops_snoc, qprod_snoc, <- Hc. cbn [app1 fst snd qfac].
    rewrite Hrf in Hm. rewrite map_map. cbn [tlen]. repeat split; try assumption; try reflexivity. symmetry; exact Hq1.
  - (* rollback *)
    rewrite Hi, Hif, Hir, Hinit in H. inversion H; subst s; clear H.
    destruct (inv_init _ _ _ _ _ Hinit) as (Hc0 & Hd0 & Hfs0 & Hdt0 & Hn0 & HT0 & Hrf0 & Hi0 & Hif0 & Hir0).
    unfold Inv. cbn [cur data fs dt Ndats Ts ref init init_fs init_ref]. rewrite since_rb_snoc.
    repeat split; assumption.
  - (* add_algorithms *)
    inversion H; subst s; clear H. unfold Inv. cbn [cur data fs dt Ndats Ts ref init init_fs init_ref].
    rewrite since_rb_snoc, apply_ops_snoc, qprod_snoc, <- Hc. cbn [app1 fst snd qfac].
    repeat split; try assumption; try reflexivity. symmetry; exact Hq1.
  - (* a call SciPy refuses *) discriminate H.
Qed.

Lemma inv_run : forall sg fs0 refs ds s0, init_state sg fs0 refs ds = POk s0 ->
  forall ops s, run false sg s0 ops = POk s -> Inv sg fs0 refs ds ops s.
Proof.
  intros sg fs0 refs ds s0 Hinit ops. induction ops as [|o ops IH] using rev_ind; intros s H.
  - cbn in H. inversion H; subst s. exact (inv_init _ _ _ _ _ Hinit).
  - rewrite run_snoc in H. destruct (run false sg s0 ops) as [s1|e]; [|discriminate]. cbn [bindp] in H.
    exact (inv_step _ _ _ _ _ Hinit ops s1 o s (IH s1 eq_refl) H).
Qed.

(* ---------------------------------------------------------------- totality on documented keywords ------------ *)
Lemma step_total : forall pc sg refs s1 sI, mk_data sg refs (cur s1) = POk (data s1) -> ref s1 = refs ->
  init_state sg (init_fs s1) (init_ref s1) (init s1) = POk sI -> forall o, op_documented o -> exists s, step pc sg s1 o = POk s.
Proof.
  intros pc sg refs s1 sI Hd Hrf Hinit o Ho. destruct o; cbn [step op_documented] in *.
  - rewrite Ho. destruct (mk_data_map_ok sg (Dec q kw) (fun t => eq_refl) refs _ _ Hd) as [vs Hv].
    rewrite Hrf, Hv. eexists; reflexivity.
  - rewrite Ho. destruct (mk_data_map_ok sg (Det kw) (fun t => eq_refl) refs _ _ Hd) as [vs Hv].
    rewrite Hrf, Hv. eexists; reflexivity.
  - destruct (mk_data_map_ok sg (Filt (fs s1) w ord bt) (fun t => eq_refl) refs _ _ Hd) as [vs Hv].
    rewrite Hrf, Hv. eexists; reflexivity.
  - rewrite Hinit. eexists; reflexivity.
  - eexists; reflexivity.
  - destruct Ho.
Qed.

Lemma run_total : forall sg fs0 refs ds s0, init_state sg fs0 refs ds = POk s0 ->
  forall ops, Forall op_documented ops -> exists s, run false sg s0 ops = POk s.
Proof.
  intros sg fs0 refs ds s0 Hinit ops. induction ops as [|o ops IH] using rev_ind; intro HF.
  - eexists; reflexivity.
  - apply Forall_app in HF. destruct HF as [HF1 HF2]. inversion HF2 as [|? ? Ho _]; subst.
    destruct (IH HF1) as [s1 H1]. rewrite run_snoc, H1. cbn [bindp].
    destruct (inv_run _ _ _ _ _ Hinit ops s1 H1) as (_ & Hd & _ & _ & _ & _ & Hrf & Hi & Hif & Hir).
    apply (step_total false sg refs s1 s0 Hd Hrf); [rewrite Hi, Hif, Hir; exact Hinit|exact Ho].
Qed.

Lemma kw_unknown_typeerr : forall pc sg s,
  (forall q kw, kw_ok dec_names kw = false -> step pc sg s (Decimate q kw) = PErr TypeErr) /\
  (forall kw, kw_ok det_names kw = false -> step pc sg s (Detrend kw) = PErr TypeErr).
Proof. intros. split; intros; cbn [step]; rewrite H; reflexivity. Qed.

(* ---------------------------------------------------------------- the property theorems ---------------------- *)
Lemma prep_composes : forall sg fs0 refs ds s0, init_state sg fs0 refs ds = POk s0 ->
  forall ops s, run false sg s0 ops = POk s ->
    (cur s, fs s) = apply_ops (since_rb ops) (ds, fs0)
    /\ mk_data sg refs (cur s) = POk (data s)
    /\ forall nm, exists s', run false sg s0 (ops ++ [AddAlg nm]) = POk s'
         /\ bound s' = bound s ++ [(nm, (data s, fs s))]
         /\ cur s' = cur s /\ data s' = data s /\ fs s' = fs s /\ dt s' = dt s /\ Ndats s' = Ndats s /\ Ts s' = Ts s.
Proof.
  intros sg fs0 refs ds s0 Hinit ops s H.
  destruct (inv_run _ _ _ _ _ Hinit ops s H) as (Hc & Hd & _).
  split; [exact Hc|]. split; [exact Hd|].
  intro nm. rewrite run_snoc, H. cbn [bindp step]. eexists. split; [reflexivity|]. cbn. repeat split; reflexivity.
Qed.

(* re-binding: after add_algorithms(alg) the instance holds the data and fs of the setup at that moment, whether or not
   it was added before; what the other instances hold is untouched *)
Lemma alg_lookup_snoc_same : forall nm v log, alg_lookup nm (log ++ [(nm, v)]) = Some v.
Proof. intros. unfold alg_lookup. rewrite rev_app_distr. cbn [rev app find fst snd]. rewrite Nat.eqb_refl. reflexivity. Qed.
Lemma alg_lookup_snoc_other : forall nm nm' v log, nm' <> nm -> alg_lookup nm' (log ++ [(nm, v)]) = alg_lookup nm' log.
Proof.
  intros nm nm' v log Hne. unfold alg_lookup. rewrite rev_app_distr. cbn [rev app find fst snd].
  destruct (Nat.eqb nm nm') eqn:E; [apply Nat.eqb_eq in E; congruence|reflexivity].
Qed.
Lemma prep_rebind : forall pc sg s0 ops s nm, run pc sg s0 ops = POk s ->
  exists s', run pc sg s0 (ops ++ [AddAlg nm]) = POk s'
    /\ alg_lookup nm (bound s') = Some (data s, fs s)
    /\ (forall nm', nm' <> nm -> alg_lookup nm' (bound s') = alg_lookup nm' (bound s))
    /\ cur s' = cur s /\ data s' = data s /\ fs s' = fs s /\ dt s' = dt s /\ Ndats s' = Ndats s /\ Ts s' = Ts s.
Proof.
  intros pc sg s0 ops s nm H. rewrite run_snoc, H. cbn [bindp step]. eexists. split; [reflexivity|].
  cbn [bound cur data fs dt Ndats Ts]. split; [apply alg_lookup_snoc_same|]. split; [intros nm' Hne; apply alg_lookup_snoc_other; exact Hne|].
  repeat split; reflexivity.
Qed.

Lemma fs_nz : forall fs0 P, fs0 <> 0%Qc -> P <> 0%Qc -> (fs0 / P)%Qc <> 0%Qc.
Proof.
  intros fs0 P H0 HP H. apply H0. replace fs0 with ((fs0 / P) * P)%Qc by (field; exact HP). rewrite H. ring.
Qed.

Lemma prep_metadata : forall sg fs0 refs ds s0, fs0 <> 0%Qc -> init_state sg fs0 refs ds = POk s0 ->
  forall ops s, run false sg s0 ops = POk s ->
    fs s = (fs0 / qprod (since_rb ops))%Qc
    /\ (dt s * fs s = 1)%Qc
    /\ Ndats s = map tlen (cur s)
    /\ Ts s = map (fun n => (Qc_of_nat n * dt s)%Qc) (Ndats s).
Proof.
  intros sg fs0 refs ds s0 Hnz Hinit ops s H.
  destruct (inv_run _ _ _ _ _ Hinit ops s H) as (_ & _ & Hfs & Hdt & Hn & HT & _).
  split; [exact Hfs|]. split.
  - rewrite Hdt. rewrite Qcmult_comm. apply Qcmult_inv_r. rewrite Hfs. apply fs_nz; [exact Hnz|apply qprod_nz].
  - split; [exact Hn|]. rewrite HT. apply map_ext. intro n. apply Qcmult_comm.
Qed.

Lemma prep_rollback : forall sg fs0 refs ds s0, init_state sg fs0 refs ds = POk s0 ->
  forall ops s1, run false sg s0 ops = POk s1 ->
    exists s, run false sg s0 (ops ++ [Rollback]) = POk s
      /\ cur s = ds /\ data s = data s0 /\ mk_data sg refs ds = POk (data s)
      /\ fs s = fs0 /\ dt s = (/ fs0)%Qc /\ Ndats s = map tlen ds
      /\ Ts s = map (fun n => (Qc_of_nat n * / fs0)%Qc) (map tlen ds)
      /\ ref s = refs /\ init s = ds /\ init_fs s = fs0 /\ init_ref s = refs
      /\ bound s = bound s1.
Proof.
  intros sg fs0 refs ds s0 Hinit ops s1 H.
  destruct (inv_run _ _ _ _ _ Hinit ops s1 H) as (_ & _ & _ & _ & _ & _ & _ & Hi & Hif & Hir).
  destruct (init_fields _ _ _ _ _ Hinit) as (Hc & Hd & Hf & Hdt & Hn & HT & Hr & Hi0 & Hif0 & Hir0 & _).
  rewrite run_snoc, H. cbn [bindp step]. rewrite Hi, Hif, Hir, Hinit. eexists. split; [reflexivity|].
  cbn [cur data fs dt Ndats Ts ref init init_fs init_ref bound].
  repeat split; try assumption; try reflexivity.
  rewrite HT. apply map_ext. intro n. apply Qcmult_comm.
Qed.

Lemma prep_init_immutable : forall sg fs0 refs ds s0, init_state sg fs0 refs ds = POk s0 ->
  forall ops s, run false sg s0 ops = POk s -> init s = ds /\ init_fs s = fs0 /\ init_ref s = refs /\ ref s = refs.
Proof.
  intros sg fs0 refs ds s0 Hinit ops s H.
  destruct (inv_run _ _ _ _ _ Hinit ops s H) as (_ & _ & _ & _ & _ & _ & Hrf & Hi & Hif & Hir). auto.
Qed.

(* what was handed to an algorithm stays in the log, unchanged, whatever is called later *)
Lemma step_bound : forall pc sg s o s', step pc sg s o = POk s' -> exists l, bound s' = bound s ++ l.
Proof.
  intros pc sg s o s' H. destruct o; cbn [step] in H.
  - destruct (kw_ok dec_names kw); [|discriminate]. destruct (mk_data _ _ _); [|discriminate]. inversion H; subst. exists []. cbn. symmetry; apply app_nil_r.
  - destruct (kw_ok det_names kw); [|discriminate]. destruct (mk_data _ _ _); [|discriminate]. inversion H; subst. exists []. cbn. symmetry; apply app_nil_r.
  - destruct (mk_data _ _ _); [|discriminate]. inversion H; subst. exists []. cbn. symmetry; apply app_nil_r.
  - destruct (init_state _ _ _ _); [|discriminate]. inversion H; subst. exists []. cbn. symmetry; apply app_nil_r.
  - inversion H; subst. eexists. cbn. reflexivity.
  - discriminate H.
Qed.
Lemma prep_bound_stable : forall pc sg s0 ops more s s', run pc sg s0 ops = POk s -> run pc sg s0 (ops ++ more) = POk s' ->
  exists l, bound s' = bound s ++ l.
Proof.
  intros pc sg s0 ops more. induction more as [|o more IH] using rev_ind; intros s s' H H'.
  - rewrite app_nil_r, H in H'. inversion H'; subst. exists []. symmetry; apply app_nil_r.
  - rewrite app_assoc, run_snoc in H'. destruct (run pc sg s0 (ops ++ more)) as [s2|e] eqn:E; [|discriminate]. cbn [bindp] in H'.
    destruct (IH s s2 H eq_refl) as [l1 Hl1]. destruct (step_bound _ _ _ _ _ H') as [l2 Hl2].
    exists (l1 ++ l2). rewrite Hl2, Hl1, app_assoc. reflexivity.
Qed.

(* ---------------------------------------------------------------- the present SingleSetup duration formula ---- *)
(* the two step functions differ in the stored durations only *)
Definition same_but_T (a b:state) : Prop :=
  cur a = cur b /\ data a = data b /\ fs a = fs b /\ dt a = dt b /\ Ndats a = Ndats b /\ ref a = ref b
  /\ init a = init b /\ init_fs a = init_fs b /\ init_ref a = init_ref b /\ bound a = bound b.

Lemma step_same_but_T : forall sg a b o a', same_but_T a b -> step true sg a o = POk a' ->
  exists b', step false sg b o = POk b' /\ same_but_T a' b'.
Proof.
  intros sg a b o a' (Hc & Hd & Hf & Hdt & Hn & Hr & Hi & Hif & Hir & Hb) H. destruct o; cbn [step] in *.
  - destruct (kw_ok dec_names kw); [|discriminate]. rewrite <- Hc, <- Hr.
    destruct (mk_data sg (ref a) (map (Dec q kw) (cur a))) as [vs|e]; [|discriminate].
    inversion H; subst a'; clear H. eexists. split; [reflexivity|]. unfold same_but_T. cbn. rewrite Hf, Hi, Hif, Hir, Hb. repeat split; reflexivity.
  - destruct (kw_ok det_names kw); [|discriminate]. rewrite <- Hc, <- Hr.
    destruct (mk_data sg (ref a) (map (Det kw) (cur a))) as [vs|e]; [|discriminate].
    inversion H; subst a'; clear H. eexists. split; [reflexivity|]. unfold same_but_T, with_data. cbn. repeat split; assumption.
  - rewrite <- Hc, <- Hr, <- Hf.
    destruct (mk_data sg (ref a) (map (Filt (fs a) w ord bt) (cur a))) as [vs|e]; [|discriminate].
    inversion H; subst a'; clear H. eexists. split; [reflexivity|]. unfold same_but_T, with_data. cbn. repeat split; assumption.
  - rewrite <- Hi, <- Hif, <- Hir. destruct (init_state sg (init_fs a) (init_ref a) (init a)) as [s'|e]; [|discriminate].
    inversion H; subst a'; clear H. eexists. split; [reflexivity|]. unfold same_but_T. cbn. repeat split; try reflexivity. exact Hb.
  - inversion H; subst a'; clear H. eexists. split; [reflexivity|]. unfold same_but_T. cbn. rewrite Hb, Hd, Hf. repeat split; assumption.
  - discriminate H.
Qed.

Lemma present_same_but_T : forall sg s0 ops s, run true sg s0 ops = POk s ->
  exists s', run false sg s0 ops = POk s' /\ same_but_T s s'.
Proof.
  intros sg s0 ops. induction ops as [|o ops IH] using rev_ind; intros s H.
  - cbn in H. inversion H; subst. exists s. split; [reflexivity|]. unfold same_but_T. repeat split; reflexivity.
  - rewrite run_snoc in H. destruct (run true sg s0 ops) as [a|e]; [|discriminate]. cbn [bindp] in H.
    destruct (IH a eq_refl) as [b [Hb Hab]]. destruct (step_same_but_T sg a b o s Hab H) as [b' [Hs Hab']].
    exists b'. split; [rewrite run_snoc, Hb; exact Hs|exact Hab'].
Qed.

(* witness: one SingleSetup decimation by 4 of a 600-sample record at 100 Hz stores T = 1.5 s for 150 samples at 25 Hz (6 s) *)
Lemma single_T_refuted : exists fs0 ds s0 ops s,
  fs0 <> 0%Qc /\ init_state true fs0 [] ds = POk s0 /\ run true true s0 ops = POk s
  /\ Ts s <> map (fun n => (Qc_of_nat n * dt s)%Qc) (Ndats s).
Proof.
  exists (Q2Qc (100#1)), [Init 0 600 3]. eexists. exists [Decimate 4 []]. eexists.
  split; [intro H; apply Q2Qc_eq_iff in H; discriminate H|].
  split; [vm_compute; reflexivity|].
  split; [vm_compute; reflexivity|].
  intro H. apply (f_equal (map (fun x : Qc => Qnum (this x)))) in H. vm_compute in H. discriminate H.
Qed.

(* ---------------------------------------------------------------- calls that raise ---------------------------- *)
Lemma run_cons : forall pc sg s o r, run pc sg s (o :: r) = bindp (step pc sg s o) (fun s' => run pc sg s' r).
Proof.
  intros. unfold run. cbn [fold_left bindp]. destruct (step pc sg s o) as [s'|e]; cbn [bindp]; [reflexivity|].
  induction r as [|o' r IH]; cbn [fold_left bindp]; [reflexivity|exact IH].
Qed.
(* a call that raises changes nothing; the state reached by a history with failing calls is the state reached by the
   history of its successful calls alone (so every theorem about [run] applies to it) *)
Lemma failed_call_noop : forall pc sg s o e, step pc sg s o = PErr e -> step_keep pc sg s o = (Some e, s).
Proof. intros pc sg s o e H. unfold step_keep. rewrite H. reflexivity. Qed.
Lemma run_keep_succ : forall pc sg ops s, run pc sg s (succ_ops pc sg s ops) = POk (run_keep pc sg s ops).
Proof.
  intros pc sg. induction ops as [|o r IH]; intro s; cbn [succ_ops run_keep]; [reflexivity|].
  unfold step_keep. destruct (step pc sg s o) as [s'|e] eqn:E; cbn [snd].
  - rewrite run_cons, E. cbn [bindp]. apply IH.
  - apply IH.
Qed.
Lemma scipy_raises_noop : forall pc sg s, step_keep pc sg s ScipyRaises = (Some ValueErr, s).
Proof. reflexivity. Qed.
Lemma succ_ops_ok : forall pc sg ops s, Forall (fun o => o <> ScipyRaises) (succ_ops pc sg s ops).
Proof.
  intros pc sg. induction ops as [|o r IH]; intro s; cbn [succ_ops]; [constructor|].
  destruct (step pc sg s o) as [s'|e] eqn:E; [|apply IH]. constructor; [|apply IH]. intro Ho. subst o. discriminate E.
Qed.

(* ---------------------------------------------------------------- soundness of the comparison used by the printers *)
Lemma zs_eqb_eq : forall x y, zs_eqb x y = true -> x = y.
Proof.
  induction x as [|u x IH]; destruct y as [|v y]; cbn [zs_eqb]; intro H; try discriminate; [reflexivity|].
  apply andb_true_iff in H. destruct H as [H1 H2]. apply Z.eqb_eq in H1. rewrite H1, (IH y H2). reflexivity.
Qed.
Lemma kwval_eqb_eq : forall a b, kwval_eqb a b = true -> a = b.
Proof.
  intros x y. destruct x, y; cbn [kwval_eqb]; intro H; try discriminate; try reflexivity.
  - apply Z.eqb_eq in H. rewrite H. reflexivity.
  - apply eqb_prop in H. rewrite H. reflexivity.
  - apply String.eqb_eq in H. rewrite H. reflexivity.
  - apply zs_eqb_eq in H. rewrite H. reflexivity.
Qed.
Lemma kw_eqb_eq : forall a b, kw_eqb a b = true -> a = b.
Proof.
  induction a as [|[k v] a IH]; destruct b as [|[k' v'] b]; cbn [kw_eqb]; intro H; try discriminate; [reflexivity|].
  apply andb_true_iff in H. destruct H as [H H3]. apply andb_true_iff in H. destruct H as [H1 H2].
  apply String.eqb_eq in H1. apply kwval_eqb_eq in H2. rewrite H1, H2, (IH b H3). reflexivity.
Qed.
Lemma wn_eqb_eq : forall a b, wn_eqb a b = true -> a = b.
Proof.
  intros x y. destruct x, y; cbn [wn_eqb]; intro H; try discriminate.
  - apply Qc_eq_bool_correct in H. rewrite H. reflexivity.
  - apply andb_true_iff in H. destruct H as [H1 H2]. apply Qc_eq_bool_correct in H1. apply Qc_eq_bool_correct in H2. rewrite H1, H2. reflexivity.
Qed.
Lemma term_eqb_eq : forall a b, term_eqb a b = true -> a = b.
Proof.
  induction a as [k n c|q kw d IH|kw d IH|f w o bt d IH]; intro y; destruct y; cbn [term_eqb]; intro H; try discriminate.
  - apply andb_true_iff in H. destruct H as [H H3]. apply andb_true_iff in H. destruct H as [H1 H2].
    apply Nat.eqb_eq in H1. apply Nat.eqb_eq in H2. apply Nat.eqb_eq in H3. subst. reflexivity.
  - apply andb_true_iff in H. destruct H as [H H3]. apply andb_true_iff in H. destruct H as [H1 H2].
    apply Pos.eqb_eq in H1. apply kw_eqb_eq in H2. rewrite H1, H2, (IH _ H3). reflexivity.
  - apply andb_true_iff in H. destruct H as [H1 H2]. apply kw_eqb_eq in H1. rewrite H1, (IH _ H2). reflexivity.
  - apply andb_true_iff in H. destruct H as [H H5]. apply andb_true_iff in H. destruct H as [H H4].
    apply andb_true_iff in H. destruct H as [H H3]. apply andb_true_iff in H. destruct H as [H1 H2].
    apply Qc_eq_bool_correct in H1. apply wn_eqb_eq in H2. apply Nat.eqb_eq in H3. apply String.eqb_eq in H4.
    rewrite H1, H2, H3, H4, (IH _ H5). reflexivity.
Qed.
