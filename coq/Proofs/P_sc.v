(* C10 - proofs about the model of gen.SC_apply (Model/M_sc.v). *)
From Coq Require Import List Arith ZArith QArith Qabs Bool Lia.
From PyOMA.Base Require Import Argmin.
From PyOMA.Model Require Import M_sc.
Import ListNotations.
Open Scope Q_scope.

(* ---------- small list facts ---------- *)
Lemma nth_map_seq {A} (f:nat -> A) n i d : (i < n)%nat -> nth i (map f (seq 0 n)) d = f i.
Proof.
  intros H. rewrite (nth_indep _ d (f 0%nat)) by (rewrite map_length, seq_length; exact H).
  rewrite map_nth. rewrite seq_nth by exact H. reflexivity.
Qed.

(* entry k of the distance list is the distance to the cell (k, o1) of the table *)
Lemma dists_nth Fn o1 f k :
  nth k (dists Fn o1 f) None = match getQ Fn k o1 with Some f1 => Some (Qabs (f1 - f)) | None => None end.
Proof.
  unfold dists, getQ.
  set (g := fun r : list (option Q) => match nth o1 r None with Some f1 => Some (Qabs (f1 - f)) | None => None end).
  assert (Hg : g [] = None) by (unfold g; destruct o1; reflexivity).
  transitivity (nth k (map g Fn) (g [])).
  - f_equal. symmetry. exact Hg.
  - rewrite map_nth. reflexivity.
Qed.

Lemma dists_length Fn o1 f : length (dists Fn o1 f) = length Fn.
Proof. unfold dists. apply map_length. Qed.

Lemma dists_entry Fn o1 f k d :
  nth_error (dists Fn o1 f) k = Some (Some d) ->
  (k < length Fn)%nat /\ exists f1, getQ Fn k o1 = Some f1 /\ d = Qabs (f1 - f).
Proof.
  intros H. split.
  - rewrite <- (dists_length Fn o1 f). apply nth_error_Some. rewrite H. discriminate.
  - apply (nth_error_nth _ _ None) in H. rewrite dists_nth in H.
    destruct (getQ Fn k o1) as [f1|]; [|discriminate]. exists f1. split; [reflexivity|]. congruence.
Qed.

Lemma dists_entry_inv Fn o1 f j fj :
  (j < length Fn)%nat -> getQ Fn j o1 = Some fj -> nth_error (dists Fn o1 f) j = Some (Some (Qabs (fj - f))).
Proof.
  intros Hj Hg. rewrite (nth_error_nth' _ None) by (rewrite dists_length; exact Hj).
  rewrite dists_nth, Hg. reflexivity.
Qed.

(* ---------- the three tests ---------- *)
Lemma rel_lt_iff num den err : rel_lt num den err = true <-> rel_below num den err.
Proof.
  unfold rel_lt, rel_below. rewrite andb_true_iff, negb_true_iff, Qlt_bool_iff. split.
  - intros [H1 H2]. split; [|exact H2]. intros He. apply Qeq_bool_iff in He. congruence.
  - intros [H1 H2]. split; [|exact H2]. destruct (Qeq_bool den 0) eqn:E; [|reflexivity].
    apply Qeq_bool_iff in E. contradiction.
Qed.

Lemma mac_lt_iff m err : mac_lt m err = true <-> mac_below m err.
Proof.
  unfold mac_lt, mac_below. destruct m as [v|].
  - rewrite Qlt_bool_iff. split.
    + intros H. exists v. split; [reflexivity|exact H].
    + intros (v' & Hv & H). inversion Hv; subst. exact H.
  - split; [discriminate|]. intros (v & Hv & _). discriminate.
Qed.

(* on a positive divisor the signed quotient the code forms is the relative difference of the property text *)
Lemma rel_below_text num den err : 0 < den -> (rel_below num den err <-> rel_text num den err).
Proof.
  intros Hp. unfold rel_below, rel_text.
  assert (Ha : Qabs den == den) by (apply Qabs_pos; apply Qlt_le_weak; exact Hp).
  rewrite Ha. reflexivity.
Qed.

Section SC.
Variable Shape : Type.
Variable mac : Shape -> Shape -> option Q.

(* ---------- cell level: the loop body decides exactly the declarative criterion ---------- *)
Lemma stable_at_iff Fn Xi (Phi:list (list (option Shape))) efn exi ephi i o :
  stable_at mac Fn Xi Phi efn exi ephi i o = true <-> stable_spec mac Fn Xi Phi efn exi ephi i o.
Proof.
  split.
  - intros Hs. unfold stable_at in Hs.
    destruct o as [|o1]; [discriminate|].
    destruct (getQ Fn i (S o1)) as [f|] eqn:Ef; [|discriminate].
    destruct (getQ Xi i (S o1)) as [x|] eqn:Ex; [|discriminate].
    destruct (getS Phi i (S o1)) as [p|] eqn:Ep; [|discriminate].
    pose proof (nanargmin_spec (dists Fn o1 f)) as Hn.
    destruct (nanargmin (dists Fn o1 f)) as [[k d]|]; [|discriminate].
    destruct (getQ Fn k o1) as [f1|] eqn:Ef1; [|discriminate].
    destruct (getQ Xi k o1) as [x1|] eqn:Ex1; [|discriminate].
    destruct (getS Phi k o1) as [p1|] eqn:Ep1; [|discriminate].
    rewrite !andb_true_iff, !rel_lt_iff, mac_lt_iff in Hs. destruct Hs as [[Ha Hb] Hc].
    exists o1, f, x, p, k, d, f1, x1, p1.
    split; [reflexivity|]. do 3 (split; [assumption|]). split; [exact Hn|]. do 3 (split; [assumption|]).
    split; [exact Ha|]. split; [exact Hb|exact Hc].
  - intros (o1 & f & x & p & k & d & f1 & x1 & p1 & -> & Ef & Ex & Ep & Ham & Ef1 & Ex1 & Ep1 & Ha & Hb & Hc).
    unfold stable_at. rewrite Ef, Ex, Ep.
    destruct (nanargmin_some_iff _ _ _ Ham) as [d' Hd']. rewrite Hd'.
    rewrite Ef1, Ex1, Ep1. rewrite !andb_true_iff, !rel_lt_iff, mac_lt_iff. auto.
Qed.

Theorem sc_label_spec Fn Xi (Phi:list (list (option Shape))) c0 c1 efn exi ephi i o :
  label mac Fn Xi Phi c0 c1 efn exi ephi i o = true <->
  (c0 <= o <= c1)%nat /\ stable_spec mac Fn Xi Phi efn exi ephi i o.
Proof.
  unfold label. rewrite !andb_true_iff, !Nat.leb_le, stable_at_iff. tauto.
Qed.

(* the matched pole is a real row of the table and is the closest one in frequency, first index on ties *)
Lemma sc_match_is_closest Fn o1 f k d :
  is_first_argmin (dists Fn o1 f) k d ->
  (k < length Fn)%nat /\
  exists f1, getQ Fn k o1 = Some f1 /\ d = Qabs (f1 - f) /\
    (forall j fj, (j < length Fn)%nat -> getQ Fn j o1 = Some fj -> Qabs (f1 - f) <= Qabs (fj - f)) /\
    (forall j fj, (j < k)%nat -> getQ Fn j o1 = Some fj -> Qabs (f1 - f) < Qabs (fj - f)).
Proof.
  intros (Hk & Hmin & Hfst). destruct (dists_entry _ _ _ _ _ Hk) as (Hlt & f1 & Hf1 & Hd).
  split; [exact Hlt|]. exists f1. split; [exact Hf1|]. split; [exact Hd|]. subst d. split.
  - intros j fj Hj Hg. apply (Hmin j). apply dists_entry_inv; assumption.
  - intros j fj Hj Hg. apply (Hfst j); [exact Hj|]. apply dists_entry_inv; [lia|exact Hg].
Qed.

(* ---------- never stable ---------- *)
Theorem sc_nan_never_stable Fn Xi (Phi:list (list (option Shape))) c0 c1 efn exi ephi i o :
  getQ Fn i o = None \/ getQ Xi i o = None \/ getS Phi i o = None ->
  label mac Fn Xi Phi c0 c1 efn exi ephi i o = false.
Proof.
  intros H. destruct (label mac Fn Xi Phi c0 c1 efn exi ephi i o) eqn:E; [|reflexivity].
  apply sc_label_spec in E. destruct E as [_ (o1&f&x&p&k&d&f1&x1&p1&_&Ef&Ex&Ep&_)].
  destruct H as [H|[H|H]]; congruence.
Qed.

Theorem sc_empty_prev_never_stable Fn Xi (Phi:list (list (option Shape))) c0 c1 efn exi ephi i o :
  (forall k, (k < length Fn)%nat -> getQ Fn k (pred o) = None) ->
  label mac Fn Xi Phi c0 c1 efn exi ephi i o = false.
Proof.
  intros H. destruct (label mac Fn Xi Phi c0 c1 efn exi ephi i o) eqn:E; [|reflexivity].
  apply sc_label_spec in E. destruct E as [_ (o1&f&x&p&k&d&f1&x1&p1&->&_&_&_&Ham&Ef1&_)].
  destruct (sc_match_is_closest _ _ _ _ _ Ham) as (Hlt & _). cbn [pred] in H. rewrite (H k Hlt) in Ef1. discriminate.
Qed.

Theorem sc_first_column_never_stable Fn Xi (Phi:list (list (option Shape))) c0 c1 efn exi ephi i :
  label mac Fn Xi Phi c0 c1 efn exi ephi i 0 = false.
Proof. unfold label. cbn [stable_at]. apply andb_false_r. Qed.

Theorem sc_outside_range_never_stable Fn Xi (Phi:list (list (option Shape))) c0 c1 efn exi ephi i o :
  (o < c0 \/ c1 < o)%nat -> label mac Fn Xi Phi c0 c1 efn exi ephi i o = false.
Proof.
  intros H. destruct (label mac Fn Xi Phi c0 c1 efn exi ephi i o) eqn:E; [|reflexivity].
  apply sc_label_spec in E. lia.
Qed.

(* ---------- the property-text reading on filtered tables (positive frequency and damping of the pole) ---------- *)
Theorem sc_label_spec_text Fn Xi (Phi:list (list (option Shape))) c0 c1 efn exi ephi i o :
  (forall f, getQ Fn i o = Some f -> 0 < f) -> (forall x, getQ Xi i o = Some x -> 0 < x) ->
  (label mac Fn Xi Phi c0 c1 efn exi ephi i o = true <->
   (c0 <= o <= c1)%nat /\ stable_text mac Fn Xi Phi efn exi ephi i o).
Proof.
  intros Hf Hx. rewrite sc_label_spec. split.
  - intros [Hr (o1&f&x&p&k&d&f1&x1&p1&Ho&Ef&Ex&Ep&Ham&Ef1&Ex1&Ep1&Ha&Hb&Hc)]. split; [exact Hr|].
    exists o1, f, x, p, k, d, f1, x1, p1.
    apply (rel_below_text _ _ _ (Hf f Ef)) in Ha. apply (rel_below_text _ _ _ (Hx x Ex)) in Hb.
    split; [exact Ho|]. do 3 (split; [assumption|]). split; [exact Ham|]. do 3 (split; [assumption|]).
    split; [exact Ha|]. split; [exact Hb|exact Hc].
  - intros [Hr (o1&f&x&p&k&d&f1&x1&p1&Ho&Ef&Ex&Ep&Ham&Ef1&Ex1&Ep1&Ha&Hb&Hc)]. split; [exact Hr|].
    exists o1, f, x, p, k, d, f1, x1, p1.
    apply (rel_below_text _ _ _ (Hf f Ef)) in Ha. apply (rel_below_text _ _ _ (Hx x Ex)) in Hb.
    split; [exact Ho|]. do 3 (split; [assumption|]). split; [exact Ham|]. do 3 (split; [assumption|]).
    split; [exact Ha|]. split; [exact Hb|exact Hc].
Qed.

(* ---------- locality: the label of cell (i, o) reads columns o-1 and o only (and nothing else) ---------- *)
Lemma dists_ext Fn Fn' o1 f :
  length Fn = length Fn' -> (forall r, getQ Fn r o1 = getQ Fn' r o1) -> dists Fn o1 f = dists Fn' o1 f.
Proof.
  intros Hl Hc. apply (nth_ext _ _ None None).
  - rewrite !dists_length. exact Hl.
  - intros n _. rewrite !dists_nth, Hc. reflexivity.
Qed.

Theorem sc_label_local Fn Xi (Phi:list (list (option Shape))) Fn' Xi' (Phi':list (list (option Shape))) c0 c1 efn exi ephi i o :
  length Fn = length Fn' ->
  (forall r, getQ Fn r o = getQ Fn' r o) -> (forall r, getQ Fn r (pred o) = getQ Fn' r (pred o)) ->
  (forall r, getQ Xi r o = getQ Xi' r o) -> (forall r, getQ Xi r (pred o) = getQ Xi' r (pred o)) ->
  (forall r, getS Phi r o = getS Phi' r o) -> (forall r, getS Phi r (pred o) = getS Phi' r (pred o)) ->
  label mac Fn Xi Phi c0 c1 efn exi ephi i o = label mac Fn' Xi' Phi' c0 c1 efn exi ephi i o.
Proof.
  intros Hl HF HF1 HX HX1 HP HP1. unfold label. f_equal. unfold stable_at.
  destruct o as [|o1]; [reflexivity|]. cbn [pred] in HF1, HX1, HP1.
  rewrite (HF i), (HX i), (HP i).
  destruct (getQ Fn' i (S o1)) as [f|]; [|reflexivity].
  destruct (getQ Xi' i (S o1)) as [x|]; [|reflexivity].
  destruct (getS Phi' i (S o1)) as [p|]; [|reflexivity].
  rewrite (dists_ext Fn Fn' o1 f Hl HF1).
  destruct (nanargmin (dists Fn' o1 f)) as [[k d]|]; [|reflexivity].
  rewrite (HF1 k), (HX1 k), (HP1 k). reflexivity.
Qed.

(* ---------- table level: what SC_apply returns ---------- *)
Lemma lab_table_entry Fn Xi (Phi:list (list (option Shape))) c0 c1 efn exi ephi i o :
  (i < nrows Fn)%nat -> (o < ncols Fn)%nat ->
  nth o (nth i (lab_table mac Fn Xi Phi c0 c1 efn exi ephi) []) false = label mac Fn Xi Phi c0 c1 efn exi ephi i o.
Proof.
  intros Hi Ho. unfold lab_table. rewrite (nth_map_seq _ _ _ _ Hi). rewrite (nth_map_seq _ _ _ _ Ho). reflexivity.
Qed.

Lemma lab_table_dims Fn Xi (Phi:list (list (option Shape))) c0 c1 efn exi ephi :
  length (lab_table mac Fn Xi Phi c0 c1 efn exi ephi) = nrows Fn /\
  forall i, (i < nrows Fn)%nat -> length (nth i (lab_table mac Fn Xi Phi c0 c1 efn exi ephi) []) = ncols Fn.
Proof.
  unfold lab_table. split.
  - rewrite map_length, seq_length. reflexivity.
  - intros i Hi. rewrite (nth_map_seq _ _ _ _ Hi). rewrite map_length, seq_length. reflexivity.
Qed.

Theorem sc_apply_index_error_iff Fn Xi (Phi:list (list (option Shape))) c0 c1 efn exi ephi :
  sc_apply mac Fn Xi Phi c0 c1 efn exi ephi = ScIndexErr <-> (c0 <= c1 /\ ncols Fn <= c1)%nat.
Proof.
  unfold sc_apply. destruct ((c0 <=? c1)%nat && (ncols Fn <=? c1)%nat) eqn:E.
  - rewrite andb_true_iff, !Nat.leb_le in E. tauto.
  - split; [discriminate|]. intros H. rewrite <- !Nat.leb_le, <- andb_true_iff in H. congruence.
Qed.

Theorem sc_apply_spec Fn Xi (Phi:list (list (option Shape))) c0 c1 efn exi ephi L i o :
  sc_apply mac Fn Xi Phi c0 c1 efn exi ephi = ScOk L -> (i < nrows Fn)%nat -> (o < ncols Fn)%nat ->
  (nth o (nth i L []) false = true <->
   (c0 <= o <= c1)%nat /\ stable_spec mac Fn Xi Phi efn exi ephi i o).
Proof.
  unfold sc_apply. destruct ((c0 <=? c1)%nat && (ncols Fn <=? c1)%nat); [discriminate|].
  intros HL Hi Ho. inversion HL; subst L. rewrite (lab_table_entry _ _ _ _ _ _ _ _ _ _ Hi Ho). apply sc_label_spec.
Qed.

Theorem sc_apply_dims Fn Xi (Phi:list (list (option Shape))) c0 c1 efn exi ephi L :
  sc_apply mac Fn Xi Phi c0 c1 efn exi ephi = ScOk L ->
  length L = nrows Fn /\ forall i, (i < nrows Fn)%nat -> length (nth i L []) = ncols Fn.
Proof.
  unfold sc_apply. destruct ((c0 <=? c1)%nat && (ncols Fn <=? c1)%nat); [discriminate|].
  intros HL. inversion HL; subst L. apply lab_table_dims.
Qed.

(* SSI call: column o holds order o *)
Theorem sc_ssi_orders Fn Xi (Phi:list (list (option Shape))) ordmin ordmax efn exi ephi L i o :
  sc_ssi mac Fn Xi Phi ordmin ordmax efn exi ephi = ScOk L -> (i < nrows Fn)%nat -> (o < ncols Fn)%nat ->
  (nth o (nth i L []) false = true <->
   (ordmin <= ssi_order_of_col o <= ordmax)%nat /\ stable_spec mac Fn Xi Phi efn exi ephi i o).
Proof. unfold sc_ssi, ssi_order_of_col. apply sc_apply_spec. Qed.

(* pLSCF call: column k holds order k+1; the first order (1, column 0) is never stable, [stable_spec] at column k
   compares with column k-1, i.e. with order (k+1)-1 *)
Theorem sc_plscf_orders Fn Xi (Phi:list (list (option Shape))) ordmin ordmax efn exi ephi L i k :
  sc_plscf mac Fn Xi Phi ordmin ordmax efn exi ephi = ScOk L -> (i < nrows Fn)%nat -> (k < ncols Fn)%nat ->
  (nth k (nth i L []) false = true <->
   (ordmin <= plscf_order_of_col k <= ordmax)%nat /\ stable_spec mac Fn Xi Phi efn exi ephi i k).
Proof.
  unfold sc_plscf, plscf_order_of_col. destruct ordmax as [|m].
  - intros HL Hi Hk. inversion HL; subst L. rewrite (lab_table_entry _ _ _ _ _ _ _ _ _ _ Hi Hk).
    rewrite sc_label_spec. split; intros [H _]; lia.
  - intros HL Hi Hk. rewrite (sc_apply_spec _ _ _ _ _ _ _ _ _ _ _ HL Hi Hk).
    split.
    + intros [Hr Hs]. split; [|exact Hs]. destruct Hs as (o1 & f & x & p & k' & d & f1 & x1 & p1 & Hk' & _). lia.
    + intros [Hr Hs]. split; [|exact Hs]. lia.
Qed.

Theorem sc_plscf_index_error_iff Fn Xi (Phi:list (list (option Shape))) ordmin ordmax efn exi ephi :
  sc_plscf mac Fn Xi Phi ordmin ordmax efn exi ephi = ScIndexErr <->
  (1 <= ordmax /\ ordmin <= ordmax /\ ncols Fn < ordmax)%nat.
Proof.
  unfold sc_plscf. destruct ordmax as [|m].
  - split; [discriminate|lia].
  - rewrite sc_apply_index_error_iff. lia.
Qed.

(* ---------- the margin classifier used by the harness is sound with respect to [label] ---------- *)
Lemma tri_rel_sound num den err :
  match tri_rel num den err with
  | TT => rel_lt num den err = true
  | TF | TE => rel_lt num den err = false
  | TN => True
  end.
Proof.
  unfold tri_rel, rel_lt. destruct (Qeq_bool den 0) eqn:Ed; [reflexivity|]. cbn [negb andb].
  destruct (near (num / den) err (Qabs err)); [exact I|].
  destruct (tie (num / den) err) eqn:Et.
  - unfold tie in Et. apply Qeq_bool_iff in Et. apply Qlt_bool_false_iff.
    assert (H : num / den == err) by (rewrite <- (Qplus_0_r err), <- Et; ring). rewrite H. apply Qle_refl.
  - destruct (Qlt_bool (num / den) err); reflexivity.
Qed.

Lemma tri_mac_sound m err :
  match tri_mac m err with
  | TT => mac_lt m err = true
  | TF => mac_lt m err = false
  | TN => True
  | TE => False
  end.
Proof.
  unfold tri_mac, mac_lt. destruct m as [v|]; [|reflexivity].
  destruct (Qle_bool (Qabs (1 - v - err)) tol9); [exact I|].
  destruct (Qlt_bool (1 - v) err); reflexivity.
Qed.

Theorem cell_verdict_sound Fn Xi (Phi:list (list (option Shape))) c0 c1 efn exi ephi i o :
  match cell_verdict mac Fn Xi Phi c0 c1 efn exi ephi i o with
  | VStable => label mac Fn Xi Phi c0 c1 efn exi ephi i o = true
  | VNot | VTie => label mac Fn Xi Phi c0 c1 efn exi ephi i o = false
  | VNear => True
  end.
Proof.
  unfold cell_verdict, label.
  destruct ((c0 <=? o)%nat && (o <=? c1)%nat); cbn [negb andb]; [|reflexivity].
  unfold stable_at. destruct o as [|o1]; [reflexivity|].
  destruct (getQ Fn i (S o1)) as [f|]; [|reflexivity].
  destruct (getQ Xi i (S o1)) as [x|]; [|reflexivity].
  destruct (getS Phi i (S o1)) as [p|]; [|reflexivity].
  destruct (nanargmin (dists Fn o1 f)) as [[k d]|]; [|reflexivity].
  destruct (runner_up_near (dists Fn o1 f) d); [exact I|].
  destruct (getQ Fn k o1) as [f1|]; [|reflexivity].
  destruct (getQ Xi k o1) as [x1|]; [|reflexivity].
  destruct (getS Phi k o1) as [p1|]; [|reflexivity].
  pose proof (tri_rel_sound (Qabs (f - f1)) f efn) as H1.
  pose proof (tri_rel_sound (Qabs (x - x1)) x exi) as H2.
  pose proof (tri_mac_sound (mac p p1) ephi) as H3.
  unfold verdict3.
  destruct (tri_rel (Qabs (f - f1)) f efn), (tri_rel (Qabs (x - x1)) x exi), (tri_mac (mac p p1) ephi);
    cbn [is_tf is_tn is_te orb]; try exact I; try contradiction; rewrite ?H1, ?H2, ?H3; cbn [andb]; try reflexivity;
    try (rewrite andb_false_r; reflexivity).
Qed.
End SC.

(* ---------- the executable MAC is the textbook quotient ---------- *)
Lemma herm_re_hre x : forall a, herm_re x a == hre x a.
Proof.
  induction x as [|[xr xi] x IH]; intros a; [reflexivity|].
  destruct a as [|[ar ai] a]; [reflexivity|]. cbn [herm_re hre]. rewrite Qred_correct, IH. reflexivity.
Qed.
Lemma herm_im_him x : forall a, herm_im x a == him x a.
Proof.
  induction x as [|[xr xi] x IH]; intros a; [reflexivity|].
  destruct a as [|[ar ai] a]; [reflexivity|]. cbn [herm_im him]. rewrite Qred_correct, IH. reflexivity.
Qed.

Theorem mac_q_some x a v :
  mac_q x a = Some v -> length x = length a /\ ~ hre x x * hre a a == 0 /\ v == mac_ref x a.
Proof.
  unfold mac_q. cbv zeta. destruct (length x =? length a)%nat eqn:El; cbn [negb]; [|discriminate].
  apply Nat.eqb_eq in El.
  destruct (Qeq_bool (Qred (herm_re x x * herm_re a a)) 0) eqn:Ed; [discriminate|].
  remember (Qred ((herm_re x a * herm_re x a + herm_im x a * herm_im x a) / Qred (herm_re x x * herm_re a a))) as w eqn:Ew.
  intros [= <-]. split; [exact El|]. split.
  - intros Hz. assert (Hq : Qred (herm_re x x * herm_re a a) == 0)
      by (rewrite Qred_correct, !herm_re_hre; exact Hz).
    apply Qeq_bool_iff in Hq. congruence.
  - rewrite Ew. unfold mac_ref. rewrite Qred_correct. rewrite Qred_correct. rewrite !herm_re_hre, !herm_im_him. reflexivity.
Qed.

Theorem mac_q_none x a :
  mac_q x a = None <-> length x <> length a \/ hre x x * hre a a == 0.
Proof.
  unfold mac_q. destruct (length x =? length a)%nat eqn:El; cbn [negb].
  - apply Nat.eqb_eq in El.
    destruct (Qeq_bool (Qred (herm_re x x * herm_re a a)) 0) eqn:Ed.
    + apply Qeq_bool_iff in Ed. rewrite Qred_correct, !herm_re_hre in Ed. tauto.
    + split; [discriminate|]. intros [H|H]; [contradiction|].
      assert (Hq : Qred (herm_re x x * herm_re a a) == 0) by (rewrite Qred_correct, !herm_re_hre; exact H).
      apply Qeq_bool_iff in Hq. congruence.
  - apply Nat.eqb_neq in El. tauto.
Qed.
