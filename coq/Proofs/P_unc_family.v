(* C17 - from REAL DERIVATIVES to the dual-number equations of P_unc.v.
   The first-order theorems of P_unc.v assume that the perturbed quantities satisfy their defining equations "to first order",
   i.e. as equations between dual numbers a + eps a'.  Here the dual numbers are given their meaning: if real matrix families
   H(t), u(t), v(t), sigma(t), O(t), A(t) ... are differentiable at t = 0 and satisfy the defining equations EXACTLY for all t in
   a neighbourhood of 0, then the jets (value at 0, derivative at 0) satisfy the dual-number equations.  Composed with
   singular_vector_first_order / dA_first_order this gives statements about real derivatives: the derivative of the singular
   value, of the left singular vector and of the least-squares state matrix along ANY differentiable branch are what the model
   computes.  (Existence of such branches is analytic perturbation theory and stays outside: C17_full_statement.) *)
From Coq Require Import Reals Lra Lia List Arith.
From PyOMA.Base Require Import Carrier FMat.
From PyOMA.Model Require Import M_unc.
From PyOMA.Proofs Require Import P_unc.
Local Open Scope R_scope.

Notation RR := Rdefinitions.R.
Notation KR := ROps17.
Notation KD := (DOps RR ROps17).

Lemma RRth17 : ring_theory (o0 KR) (o1 KR) (oadd KR) (omul KR) (osub KR) (oopp KR) (@eq RR).
Proof. constructor; cbn; intros; ring. Qed.

(* ---- derivatives at 0 and local equality ---- *)
Definition dlim (f:RR->RR) (l:RR) : Prop := derivable_pt_lim f 0 l.
Definition near0 (P:RR->Prop) : Prop := exists delta:posreal, forall t, Rabs t < delta -> P t.

Lemma near0_at0 P : near0 P -> P 0.
Proof. intros [d Hd]. apply Hd. rewrite Rabs_R0. apply cond_pos. Qed.
Lemma near0_and P Q : near0 P -> near0 Q -> near0 (fun t => P t /\ Q t).
Proof.
  intros [d1 H1] [d2 H2]. exists (mkposreal (Rmin d1 d2) (Rmin_pos _ _ (cond_pos d1) (cond_pos d2))). cbn. intros t Ht. split.
  - apply H1. eapply Rlt_le_trans; [exact Ht|apply Rmin_l].
  - apply H2. eapply Rlt_le_trans; [exact Ht|apply Rmin_r].
Qed.
Lemma near0_imp (P Q:RR->Prop) : (forall t, P t -> Q t) -> near0 P -> near0 Q.
Proof. intros H [d Hd]. exists d. intros t Ht. apply H, Hd, Ht. Qed.

Lemma dlim_local f g l : near0 (fun t => f t = g t) -> dlim f l -> dlim g l.
Proof.
  intros [d Hd] Hf eps Heps. destruct (Hf eps Heps) as [d' Hd'].
  exists (mkposreal (Rmin d d') (Rmin_pos _ _ (cond_pos d) (cond_pos d'))). cbn. intros h Hh Hlt.
  rewrite <- (Hd (0+h)), <- (Hd 0).
  - apply Hd'; [exact Hh|]. eapply Rlt_le_trans; [exact Hlt|apply Rmin_r].
  - rewrite Rabs_R0. apply cond_pos.
  - rewrite Rplus_0_l. eapply Rlt_le_trans; [exact Hlt|apply Rmin_l].
Qed.
Lemma dlim_unique_local f g lf lg : near0 (fun t => f t = g t) -> dlim f lf -> dlim g lg -> lf = lg.
Proof. intros E Hf Hg. apply (uniqueness_limite g 0); [|exact Hg]. exact (dlim_local f g lf E Hf). Qed.

Lemma dlim_val f l l' : l = l' -> dlim f l -> dlim f l'.
Proof. intros ->; auto. Qed.
Lemma dlim_const c : dlim (fun _ => c) 0.
Proof. exact (derivable_pt_lim_const c 0). Qed.
Lemma dlim_plus f g a b : dlim f a -> dlim g b -> dlim (fun t => f t + g t) (a + b).
Proof. intros Hf Hg. exact (derivable_pt_lim_plus f g 0 a b Hf Hg). Qed.
Lemma dlim_mult f g a b : dlim f a -> dlim g b -> dlim (fun t => f t * g t) (f 0 * b + a * g 0).
Proof.
  intros Hf Hg. replace (f 0 * b + a * g 0) with (a * g 0 + f 0 * b) by ring.
  exact (derivable_pt_lim_mult f g 0 a b Hf Hg).
Qed.
Lemma dlim_sumn n (f:nat->RR->RR) (f':nat->RR) :
  (forall k, (k < n)%nat -> dlim (f k) (f' k)) -> dlim (fun t => sumn KR n (fun k => f k t)) (sumn KR n f').
Proof.
  induction n as [|n IH]; intros H; cbn [sumn].
  - exact (dlim_const 0).
  - apply (dlim_plus (fun t => sumn KR n (fun k => f k t)) (f n)); [apply IH; intros k Hk; apply H; lia | apply H; lia].
Qed.

(* ---- an abstract differentiation structure on a carrier T (instantiated below at the reals and at complex pairs) ---- *)
Section Gen.
Variable T:Type. Variable K:Ops T.
Hypothesis Tth : ring_theory (o0 K) (o1 K) (oadd K) (omul K) (osub K) (oopp K) (@eq T).
Add Ring TrG : Tth.
Variable dl : (RR -> T) -> T -> Prop.
Hypothesis dl_const : forall c, dl (fun _ => c) (o0 K).
Hypothesis dl_plus : forall f g a b, dl f a -> dl g b -> dl (fun t => oadd K (f t) (g t)) (oadd K a b).
Hypothesis dl_mult : forall f g a b, dl f a -> dl g b ->
  dl (fun t => omul K (f t) (g t)) (oadd K (omul K (f 0) b) (omul K a (g 0))).
Hypothesis dl_unique_local : forall f g lf lg, near0 (fun t => f t = g t) -> dl f lf -> dl g lg -> lf = lg.
Notation KD := (DOps T K).

Lemma dl_sumn n (f:nat->RR->T) (f':nat->T) :
  (forall k, (k < n)%nat -> dl (f k) (f' k)) -> dl (fun t => sumn K n (fun k => f k t)) (sumn K n f').
Proof.
  induction n as [|n IH]; intros H; cbn [sumn].
  - exact (dl_const (o0 K)).
  - apply (dl_plus (fun t => sumn K n (fun k => f k t)) (f n)); [apply IH; intros k Hk; apply H; lia | apply H; lia].
Qed.

(* ---- differentiable matrix families and their jets ---- *)
Definition fam := RR -> fmat T.
Definition dfam (m n:nat) (A:fam) (dA:fmat T) : Prop :=
  forall i j, (i < m)%nat -> (j < n)%nat -> dl (fun t => A t i j) (dA i j).
Definition jet (A:fam) (dA:fmat T) : fmat (D T) := fun i j => (A 0 i j, dA i j).
Definition jets (s:RR->T) (ds:T) : D T := (s 0, ds).

Lemma st_jet A dA i j : st T (jet A dA) i j = A 0 i j.  Proof. reflexivity. Qed.
Lemma ep_jet A dA i j : ep T (jet A dA) i j = dA i j.  Proof. reflexivity. Qed.

(* equal families (near 0) have equal jets *)
Lemma jet_eq m n (F G:fam) dF dG :
  dfam m n F dF -> dfam m n G dG -> near0 (fun t => feq m n (F t) (G t)) -> feq m n (jet F dF) (jet G dG).
Proof.
  intros HF HG E i j Hi Hj. unfold jet. f_equal.
  - exact (near0_at0 _ E i j Hi Hj).
  - apply (dl_unique_local (fun t => F t i j) (fun t => G t i j)); [|apply HF; assumption|apply HG; assumption].
    revert E. apply near0_imp. intros t Ht. exact (Ht i j Hi Hj).
Qed.

(* the jet of a product / scalar multiple / transpose / constant is the dual-number product / ... of the jets *)
Lemma dfam_fmul m n p (A B:fam) dA dB :
  dfam m n A dA -> dfam n p B dB ->
  dfam m p (fun t => fmul K n (A t) (B t)) (ep T (fmul KD n (jet A dA) (jet B dB))).
Proof.
  intros HA HB i j Hi Hj. unfold ep, fmul. rewrite (sumn_ep T K).
  apply (dl_sumn n (fun k t => omul K (A t i k) (B t k j))). intros k Hk.
  cbn [omul DOps fst snd jet].
  exact (dl_mult (fun t => A t i k) (fun t => B t k j) (dA i k) (dB k j) (HA i k Hi Hk) (HB k j Hk Hj)).
Qed.
Lemma jet_fmul m n p (A B:fam) dA dB :
  feq m p (jet (fun t => fmul K n (A t) (B t)) (ep T (fmul KD n (jet A dA) (jet B dB)))) (fmul KD n (jet A dA) (jet B dB)).
Proof.
  intros i j Hi Hj. unfold jet at 1. apply (d_eq T); cbn [fst snd]; [|reflexivity].
  unfold fmul. rewrite (sumn_st T K). reflexivity.
Qed.

Lemma dfam_fscal m n (s:RR->T) ds (A:fam) dA :
  dl s ds -> dfam m n A dA ->
  dfam m n (fun t => fscal K (s t) (A t)) (ep T (fscal KD (jets s ds) (jet A dA))).
Proof.
  intros Hs HA i j Hi Hj. unfold ep, fscal, jets, jet. cbn [omul DOps fst snd].
  exact (dl_mult s (fun t => A t i j) ds (dA i j) Hs (HA i j Hi Hj)).
Qed.
Lemma jet_fscal m n (s:RR->T) ds (A:fam) dA :
  feq m n (jet (fun t => fscal K (s t) (A t)) (ep T (fscal KD (jets s ds) (jet A dA)))) (fscal KD (jets s ds) (jet A dA)).
Proof. intros i j _ _. unfold jet at 1. apply (d_eq T); cbn [fst snd]; reflexivity. Qed.

Lemma dfam_ftr m n (A:fam) dA : dfam m n A dA -> dfam n m (fun t => ftr (A t)) (ftr dA).
Proof. intros HA i j Hi Hj. unfold ftr. apply HA; assumption. Qed.

Lemma dfam_const m n (M:fmat T) : dfam m n (fun _ => M) (fzero K).
Proof. intros i j _ _. exact (dl_const (M i j)). Qed.
Lemma jet_fid m n : feq m n (jet (fun _ => fid K) (fzero K)) (fid KD).
Proof. intros i j _ _. unfold jet, fid, fzero. destruct (Nat.eqb i j); reflexivity. Qed.

Lemma feq_trans3 {A} mm nn (X Y Z W:fmat A) : feq mm nn Y X -> feq mm nn Y Z -> feq mm nn Z W -> feq mm nn X W.
Proof. intros a b d i j Hi Hj. rewrite <- (a i j Hi Hj), (b i j Hi Hj), (d i j Hi Hj). reflexivity. Qed.
Lemma fmul_feq_l mm kk nn (X X' Y:fmat (D T)) : feq mm kk X X' -> feq mm nn (fmul KD kk X Y) (fmul KD kk X' Y).
Proof. intros E i j Hi Hj. unfold fmul. apply sumn_ext. intros k Hk. rewrite (E i k Hi Hk). reflexivity. Qed.

(* ================= singular triple ================= *)
Section SV.
Variables m c : nat.
Variables (Hf uf vf:fam) (sf:RR->T) (dH du dv:fmat T) (ds:T).
Hypothesis HH : dfam m c Hf dH.
Hypothesis Hu : dfam m 1 uf du.
Hypothesis Hv : dfam c 1 vf dv.
Hypothesis Hs : dl sf ds.
(* the defining equations hold EXACTLY on a neighbourhood of 0 *)
Hypothesis E1 : near0 (fun t => feq m 1 (fmul K c (Hf t) (vf t)) (fscal K (sf t) (uf t))).
Hypothesis E2 : near0 (fun t => feq c 1 (fmul K m (ftr (Hf t)) (uf t)) (fscal K (sf t) (vf t))).
Hypothesis E3 : near0 (fun t => feq 1 1 (fmul K m (ftr (uf t)) (uf t)) (fid K)).
Hypothesis E4 : near0 (fun t => feq 1 1 (fmul K c (ftr (vf t)) (vf t)) (fid K)).

Theorem sv_family_dual :
  feq m 1 (fmul KD c (jet Hf dH) (jet vf dv)) (fscal KD (jets sf ds) (jet uf du)) /\
  feq c 1 (fmul KD m (ftr (jet Hf dH)) (jet uf du)) (fscal KD (jets sf ds) (jet vf dv)) /\
  feq 1 1 (fmul KD m (ftr (jet uf du)) (jet uf du)) (fid KD) /\
  feq 1 1 (fmul KD c (ftr (jet vf dv)) (jet vf dv)) (fid KD).
Proof.
  repeat split.
  - apply (feq_trans3 m 1 _ _ _ _ (jet_fmul m c 1 Hf vf dH dv)
             (jet_eq m 1 _ _ _ _ (dfam_fmul m c 1 Hf vf dH dv HH Hv) (dfam_fscal m 1 sf ds uf du Hs Hu) E1)
             (jet_fscal m 1 sf ds uf du)).
  - apply (feq_trans3 c 1 _ _ _ _ (jet_fmul c m 1 (fun t => ftr (Hf t)) uf (ftr dH) du)
             (jet_eq c 1 _ _ _ _ (dfam_fmul c m 1 _ uf _ du (dfam_ftr m c Hf dH HH) Hu) (dfam_fscal c 1 sf ds vf dv Hs Hv) E2)
             (jet_fscal c 1 sf ds vf dv)).
  - apply (feq_trans3 1 1 _ _ _ _ (jet_fmul 1 m 1 (fun t => ftr (uf t)) uf (ftr du) du)
             (jet_eq 1 1 _ _ _ _ (dfam_fmul 1 m 1 _ uf _ du (dfam_ftr m 1 uf du Hu) Hu) (dfam_const 1 1 (fid K)) E3)
             (jet_fid 1 1)).
  - apply (feq_trans3 1 1 _ _ _ _ (jet_fmul 1 c 1 (fun t => ftr (vf t)) vf (ftr dv) dv)
             (jet_eq 1 1 _ _ _ _ (dfam_fmul 1 c 1 _ vf _ dv (dfam_ftr c 1 vf dv Hv) Hv) (dfam_const 1 1 (fid K)) E4)
             (jet_fid 1 1)).
Qed.
End SV.

(* ================= pole layer: least-squares shift solution and eigen-pair ================= *)
Section LS.
Variables pr n : nat.
Variables (Opf Omf Af phif:fam) (lamf:RR->T) (dOp dOm dA dphi:fmat T) (dlam:T).
Hypothesis HOp : dfam pr n Opf dOp.
Hypothesis HOm : dfam pr n Omf dOm.
Hypothesis HA  : dfam n n Af dA.
Hypothesis EN : near0 (fun t => feq n n (fmul K n (fmul K pr (ftr (Opf t)) (Opf t)) (Af t)) (fmul K pr (ftr (Opf t)) (Omf t))).

Theorem ls_family_dual :
  feq n n (fmul KD n (fmul KD pr (ftr (jet Opf dOp)) (jet Opf dOp)) (jet Af dA)) (fmul KD pr (ftr (jet Opf dOp)) (jet Omf dOm)).
Proof.
  set (G := fun t => fmul K pr (ftr (Opf t)) (Opf t)).
  set (dG := ep T (fmul KD pr (jet (fun t => ftr (Opf t)) (ftr dOp)) (jet Opf dOp))).
  assert (HG : dfam n n G dG) by (apply (dfam_fmul n pr n); [apply dfam_ftr; exact HOp|exact HOp]).
  assert (JG : feq n n (jet G dG) (fmul KD pr (ftr (jet Opf dOp)) (jet Opf dOp))) by (apply (jet_fmul n pr n)).
  pose proof (dfam_fmul n n n G Af dG dA HG HA) as HL.
  pose proof (dfam_fmul n pr n (fun t => ftr (Opf t)) Omf (ftr dOp) dOm (dfam_ftr pr n Opf dOp HOp) HOm) as HR.
  pose proof (jet_eq n n _ _ _ _ HL HR EN) as J.
  intros i j Hi Hj.
  rewrite <- (fmul_feq_l n n n _ _ (jet Af dA) JG i j Hi Hj).
  rewrite <- (jet_fmul n n n G Af dG dA i j Hi Hj).
  rewrite (J i j Hi Hj).
  exact (jet_fmul n pr n (fun t => ftr (Opf t)) Omf (ftr dOp) dOm i j Hi Hj).
Qed.

(* the derivative of the state matrix along the family solves the model's linearised normal equations *)
Theorem ls_derivative :
  feq n n (fmul K n (fmul K pr (ftr (Opf 0)) (Opf 0)) dA)
          (fsub K (fadd K (fmul K pr (ftr dOp) (Omf 0)) (fmul K pr (ftr (Opf 0)) dOm))
                   (fmul K n (fadd K (fmul K pr (ftr dOp) (Opf 0)) (fmul K pr (ftr (Opf 0)) dOp)) (Af 0))).
Proof. exact (dA_first_order T K Tth pr n (jet Opf dOp) (jet Omf dOm) (jet Af dA) ls_family_dual). Qed.

Hypothesis Hphi : dfam n 1 phif dphi.
Hypothesis Hlam : dl lamf dlam.
Hypothesis EE : near0 (fun t => feq n 1 (fmul K n (Af t) (phif t)) (fscal K (lamf t) (phif t))).

Theorem eig_family_dual : feq n 1 (fmul KD n (jet Af dA) (jet phif dphi)) (fscal KD (jets lamf dlam) (jet phif dphi)).
Proof.
  apply (feq_trans3 n 1 _ _ _ _ (jet_fmul n n 1 Af phif dA dphi)
           (jet_eq n 1 _ _ _ _ (dfam_fmul n n 1 Af phif dA dphi HA Hphi) (dfam_fscal n 1 lamf dlam phif dphi Hlam Hphi) EE)
           (jet_fscal n 1 lamf dlam phif dphi)).
Qed.

(* the derivative of the eigenvalue along ANY differentiable branch of (observability matrix, state matrix, eigen-pair) is
   what the model computes from the sensitivities of the observability matrix (chi: left eigenvector, OO: inverse of Op^T Op) *)
Theorem pole_derivative (OO chi:fmat T) :
  feq n n (fmul K n OO (fmul K pr (ftr (Opf 0)) (Opf 0))) (fid K) ->
  feq 1 n (fmul K n chi (Af 0)) (fscal K (lamf 0) chi) ->
  omul K dlam (dlam_den K n (fun a => chi 0%nat a) (fun a => phif 0 a 0%nat))
  = dlam_num K n (fun a => chi 0%nat a) OO
      (W_of K (lamf 0) (fmul K pr (ftr (Opf 0)) dOp) (fmul K pr (ftr (Omf 0)) dOp) (fmul K pr (ftr (Opf 0)) dOm))
      (fun a => phif 0 a 0%nat).
Proof.
  intros HOO Hchi.
  exact (chain_first_order T K Tth pr n (jet Opf dOp) (jet Omf dOm) (jet Af dA) (jet phif dphi) (jets lamf dlam) OO chi
           ls_family_dual eig_family_dual HOO Hchi).
Qed.
End LS.
End Gen.

(* ================= instance: the reals ================= *)
Lemma dlimR_mult f g a b : dlim f a -> dlim g b -> dlim (fun t => omul KR (f t) (g t)) (oadd KR (omul KR (f 0) b) (omul KR a (g 0))).
Proof. exact (dlim_mult f g a b). Qed.

(* the affine family H + t dH, the perturbation the property talks about *)
Definition affine (H dH:fmat RR) : fam RR := fun t => fadd KR H (fscal KR t dH).
Lemma dfam_affine m n H dH : dfam RR dlim m n (affine H dH) dH.
Proof.
  intros i j _ _. unfold affine, fadd, fscal. cbn [oadd omul KR ROps17].
  apply (dlim_val _ (0 + ((fun t:RR => t) 0 * 0 + 1 * (fun _:RR => dH i j) 0))); [cbv beta; ring|].
  apply (dlim_plus (fun _ => H i j) (fun t => t * dH i j)); [exact (dlim_const _)|].
  apply (dlim_mult (fun t => t) (fun _ => dH i j) 1 0); [exact (derivable_pt_lim_id 0)|exact (dlim_const _)].
Qed.

Section SVreal.
Variables m c : nat.
Variables (Hf uf vf:fam RR) (sf:RR->RR) (dH du dv:fmat RR) (ds:RR).
Hypothesis HH : dfam RR dlim m c Hf dH.
Hypothesis Hu : dfam RR dlim m 1 uf du.
Hypothesis Hv : dfam RR dlim c 1 vf dv.
Hypothesis Hs : dlim sf ds.
Hypothesis E1 : near0 (fun t => feq m 1 (fmul KR c (Hf t) (vf t)) (fscal KR (sf t) (uf t))).
Hypothesis E2 : near0 (fun t => feq c 1 (fmul KR m (ftr (Hf t)) (uf t)) (fscal KR (sf t) (vf t))).
Hypothesis E3 : near0 (fun t => feq 1 1 (fmul KR m (ftr (uf t)) (uf t)) (fid KR)).
Hypothesis E4 : near0 (fun t => feq 1 1 (fmul KR c (ftr (vf t)) (vf t)) (fid KR)).

(* the real derivatives of the singular value and of the left singular vector are what the model computes *)
Theorem sv_real_derivatives (Ki:fmat RR) (isg:RR) :
  (0 < c)%nat ->
  simple_sv RR KR m c (Hf 0) (uf 0) (vf 0) (sf 0) ->
  isg * sf 0 = 1 ->
  feq c c (fmul KR c (Ki_arg KR m c isg (Hf 0) (vf 0)) Ki) (fid KR) ->
  vf 0 (c-1)%nat 0%nat <> 0 ->
  feq m 1 du (du_code KR m c isg (Hf 0) dH (uf 0) (vf 0) Ki) /\
  ds = dsig_of KR m c (fun a => uf 0 a 0%nat) dH (fun b => vf 0 b 0%nat).
Proof.
  intros Hc Hsimple Hisg HKi Hlast.
  destruct (sv_family_dual RR KR dlim dlim_const dlim_plus dlimR_mult dlim_unique_local m c Hf uf vf sf dH du dv ds HH Hu Hv Hs E1 E2 E3 E4)
    as (D1 & D2 & D3 & D4).
  assert (T2 : forall x:RR, oadd KR x x = o0 KR -> x = o0 KR) by (cbn; intros x Hx; lra).
  assert (TL : forall x:RR, omul KR (omul KR (oadd KR (o1 KR) (o1 KR)) (st RR (jet RR vf dv) (c-1)%nat 0%nat)) x = o0 KR -> x = o0 KR).
  { cbn [omul oadd o1 o0 KR ROps17]. intros x Hx. rewrite st_jet in Hx.
    assert (Hne : (1+1) * vf 0 (c-1)%nat 0%nat <> 0) by (apply Rmult_integral_contrapositive_currified; [lra|exact Hlast]).
    destruct (Rmult_integral _ _ Hx) as [Hz|Hz]; [contradiction|exact Hz]. }
  exact (singular_vector_first_order RR KR RRth17 m c (jet RR Hf dH) (jet RR uf du) (jet RR vf dv) (jets RR sf ds) Ki isg Hc T2 D1 D2 D3 D4 Hsimple Hisg HKi TL).
Qed.
End SVreal.

(* ================= instance: complex pairs over the reals (poles, eigenvectors) ================= *)
From PyOMA.Base Require Import Cplx.
Notation CR := (C RR).
Notation KC := (COps KR).
Definition dlimC (z:RR->CR) (l:CR) : Prop := dlim (fun t => cre (z t)) (cre l) /\ dlim (fun t => cim (z t)) (cim l).

Lemma dlimC_const c : dlimC (fun _ => c) (o0 KC).
Proof. split; exact (dlim_const _). Qed.
Lemma dlimC_plus f g a b : dlimC f a -> dlimC g b -> dlimC (fun t => oadd KC (f t) (g t)) (oadd KC a b).
Proof. intros [F1 F2] [G1 G2]. split; cbn [oadd COps cadd cre cim fst snd KR ROps17];
  [exact (dlim_plus _ _ _ _ F1 G1)|exact (dlim_plus _ _ _ _ F2 G2)]. Qed.
Lemma dlim_minus f g a b : dlim f a -> dlim g b -> dlim (fun t => f t - g t) (a - b).
Proof. intros Hf Hg. exact (derivable_pt_lim_minus f g 0 a b Hf Hg). Qed.
Lemma dlimC_mult f g a b : dlimC f a -> dlimC g b ->
  dlimC (fun t => omul KC (f t) (g t)) (oadd KC (omul KC (f 0) b) (omul KC a (g 0))).
Proof.
  intros [F1 F2] [G1 G2]. split; cbn [oadd omul osub COps cadd cmul cre cim fst snd KR ROps17].
  - eapply dlim_val; [|exact (dlim_minus _ _ _ _ (dlim_mult _ _ _ _ F1 G1) (dlim_mult _ _ _ _ F2 G2))]. cbv beta. unfold cre, cim. ring.
  - eapply dlim_val; [|exact (dlim_plus _ _ _ _ (dlim_mult _ _ _ _ F1 G2) (dlim_mult _ _ _ _ F2 G1))]. cbv beta. unfold cre, cim. ring.
Qed.
Lemma dlimC_unique_local f g lf lg : near0 (fun t => f t = g t) -> dlimC f lf -> dlimC g lg -> lf = lg.
Proof.
  intros E [F1 F2] [G1 G2]. apply (c_eq RR).
  - apply (dlim_unique_local (fun t => cre (f t)) (fun t => cre (g t))); [|exact F1|exact G1].
    revert E. apply near0_imp. intros t ->. reflexivity.
  - apply (dlim_unique_local (fun t => cim (f t)) (fun t => cim (g t))); [|exact F2|exact G2].
    revert E. apply near0_imp. intros t ->. reflexivity.
Qed.

(* the derivative of a (complex) pole along any differentiable branch of the identification, as the model computes it *)
Theorem pole_complex_derivative : forall pr n (Opf Omf Af phif:fam CR) (lamf:RR->CR) (dOp dOm dA dphi:fmat CR) (dlam:CR) (OO chi:fmat CR),
  dfam CR dlimC pr n Opf dOp -> dfam CR dlimC pr n Omf dOm -> dfam CR dlimC n n Af dA ->
  near0 (fun t => feq n n (fmul KC n (fmul KC pr (ftr (Opf t)) (Opf t)) (Af t)) (fmul KC pr (ftr (Opf t)) (Omf t))) ->
  dfam CR dlimC n 1 phif dphi -> dlimC lamf dlam ->
  near0 (fun t => feq n 1 (fmul KC n (Af t) (phif t)) (fscal KC (lamf t) (phif t))) ->
  feq n n (fmul KC n OO (fmul KC pr (ftr (Opf 0)) (Opf 0))) (fid KC) ->
  feq 1 n (fmul KC n chi (Af 0)) (fscal KC (lamf 0) chi) ->
  omul KC dlam (dlam_den KC n (fun a => chi 0%nat a) (fun a => phif 0 a 0%nat))
  = dlam_num KC n (fun a => chi 0%nat a) OO
      (W_of KC (lamf 0) (fmul KC pr (ftr (Opf 0)) dOp) (fmul KC pr (ftr (Omf 0)) dOp) (fmul KC pr (ftr (Opf 0)) dOm))
      (fun a => phif 0 a 0%nat).
Proof.
  intros pr n Opf Omf Af phif lamf dOp dOm dA dphi dlam OO chi h1 h2 h3 h4 h5 h6 h7.
  exact (pole_derivative CR KC (CRth RR KR RRth17) dlimC dlimC_const dlimC_plus dlimC_mult dlimC_unique_local
           pr n Opf Omf Af phif lamf dOp dOm dA dphi dlam h1 h2 h3 h4 h5 h6 h7 OO chi).
Qed.
