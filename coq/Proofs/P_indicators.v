(* C18 - lemmas about the indicator models of Model/M_indicators.v over an arbitrary field
   (everything here must print "Closed under the global context"); order-dependent facts are in P_indicators_R.v. *)
From Coq Require Import List Arith Lia Ring Field.
From PyOMA.Base Require Import Carrier Cplx.
From PyOMA.Model Require Import M_indicators.
Import ListNotations.

Section P.
Variable R:Type. Variable K:Ops R.
Hypothesis Fth : field_theory (o0 K) (o1 K) (oadd K) (omul K) (osub K) (oopp K) (odiv K) (oinv K) (@eq R).
Add Field FfInd : Fth.
Local Open Scope K_scope.
Notation "0" := (o0 K) : K_scope. Notation "1" := (o1 K) : K_scope.
Infix "+" := (oadd K) : K_scope. Infix "*" := (omul K) : K_scope. Infix "-" := (osub K) : K_scope.
Notation "- x" := (oopp K x) : K_scope. Infix "/" := (odiv K) : K_scope.
Notation C := (C R).
Let Rth := F_R Fth.

Lemma mul_neq0 x y : x <> 0 -> y <> 0 -> x * y <> 0.
Proof.
  intros Hx Hy E. apply Hy.
  transitivity ((oinv K x * x) * y); [|transitivity (oinv K x * (x * y)); [ring| rewrite E; ring]].
  rewrite (Finv_l Fth x Hx). ring.
Qed.

(* ---------- finite sums ---------- *)
Lemma sumn_comb n a b (u v:nat->R) : sumn K n (fun k => a * u k + b * v k) = a * sumn K n u + b * sumn K n v.
Proof. induction n; cbn [sumn]; [ring | rewrite IHn; ring]. Qed.
Lemma sumn_zero' n (u:nat->R) : (forall k, u k = 0) -> sumn K n u = 0.
Proof. intros H. induction n; cbn [sumn]; [reflexivity | rewrite IHn, H; ring]. Qed.

Lemma rdot_comb n a b c d (u v:nat->R) :
  rdot K n (fun k => a * u k + b * v k) (fun k => c * u k + d * v k)
  = a * c * rdot K n u u + (a * d + b * c) * rdot K n u v + b * d * rdot K n v v.
Proof. unfold rdot. induction n; cbn [sumn]; [ring | rewrite IHn; ring]. Qed.
Lemma rdot_comb' n a b c d (u v u' v':nat->R) :
  (forall k, u' k = a * u k + b * v k) -> (forall k, v' k = c * u k + d * v k) ->
  rdot K n u' v' = a * c * rdot K n u u + (a * d + b * c) * rdot K n u v + b * d * rdot K n v v.
Proof. intros Hu Hv. rewrite <- rdot_comb. unfold rdot. apply sumn_ext; intros k _. rewrite Hu, Hv. reflexivity. Qed.
Lemma rdot_sym n (u v:nat->R) : rdot K n u v = rdot K n v u.
Proof. unfold rdot. apply sumn_ext; intros; ring. Qed.

Lemma csum_S n f : csum K (S n) f = cadd K (csum K n f) (f n).
Proof. reflexivity. Qed.
Lemma csum_ext n f g : (forall k, (k < n)%nat -> f k = g k) -> csum K n f = csum K n g.
Proof. unfold csum. apply sumn_ext. Qed.
Lemma csum_scal n c f : csum K n (fun k => cmul K c (f k)) = cmul K c (csum K n f).
Proof.
  induction n; [apply c_eq; cbn; ring|]. rewrite !csum_S, IHn.
  destruct (csum K n f), c, (f n). apply c_eq; cbn; ring.
Qed.
Lemma cre_csum n f : cre (csum K n f) = sumn K n (fun k => cre (f k)).
Proof. induction n; [reflexivity|]. rewrite csum_S. cbn [sumn]. rewrite <- IHn. reflexivity. Qed.
Lemma cim_csum n f : cim (csum K n f) = sumn K n (fun k => cim (f k)).
Proof. induction n; [reflexivity|]. rewrite csum_S. cbn [sumn]. rewrite <- IHn. reflexivity. Qed.
Lemma csum_conj n f : cconj K (csum K n f) = csum K n (fun k => cconj K (f k)).
Proof.
  induction n; [apply c_eq; cbn; ring|]. rewrite !csum_S, <- IHn.
  destruct (csum K n f), (f n). apply c_eq; cbn; ring.
Qed.

(* ---------- real and imaginary parts of a scaled shape ---------- *)
Lemma vre_vscale c phi k : vre (vscale K c phi) k = cre c * vre phi k + (- cim c) * vim phi k.
Proof. unfold vre, vim, vscale, cmul; cbn [cre cim fst snd]; ring. Qed.
Lemma vim_vscale c phi k : vim (vscale K c phi) k = cim c * vre phi k + cre c * vim phi k.
Proof. unfold vre, vim, vscale, cmul; cbn [cre cim fst snd]; ring. Qed.
Lemma vre_vreal v k : vre (vreal K v) k = v k.
Proof. reflexivity. Qed.
Lemma vim_vreal v k : vim (vreal K v) k = 0.
Proof. reflexivity. Qed.

(* ---------- hermitian / bilinear products ---------- *)
Lemma hdot_scale_l n c x a : hdot K n (vscale K c x) a = cmul K (cconj K c) (hdot K n x a).
Proof.
  unfold hdot. rewrite <- csum_scal. apply csum_ext; intros k _. unfold vscale.
  destruct c, (x k), (a k). apply c_eq; cbn; ring.
Qed.
Lemma hdot_scale_r n c x a : hdot K n x (vscale K c a) = cmul K c (hdot K n x a).
Proof.
  unfold hdot. rewrite <- csum_scal. apply csum_ext; intros k _. unfold vscale.
  destruct c, (x k), (a k). apply c_eq; cbn; ring.
Qed.
Lemma hdot_conj n x a : hdot K n a x = cconj K (hdot K n x a).
Proof.
  unfold hdot. rewrite csum_conj. apply csum_ext; intros k _.
  destruct (x k), (a k). apply c_eq; cbn; ring.
Qed.
Lemma tdot_scale_l n c x y : tdot K n (vscale K c x) y = cmul K c (tdot K n x y).
Proof.
  unfold tdot. rewrite <- csum_scal. apply csum_ext; intros k _. unfold vscale.
  destruct c, (x k), (y k). apply c_eq; cbn; ring.
Qed.
Lemma nrm2_scale n c x : nrm2 K n (vscale K c x) = cnorm2 K c * nrm2 K n x.
Proof.
  unfold nrm2. rewrite <- (sumn_scal R K Rth). apply sumn_ext; intros k _. unfold vscale.
  apply (cnorm2_mul R K Rth).
Qed.
Lemma nrm2_split n x : nrm2 K n x = rdot K n (vre x) (vre x) + rdot K n (vim x) (vim x).
Proof. unfold nrm2, rdot, vre, vim, cnorm2. induction n; cbn [sumn]; [ring | rewrite IHn; ring]. Qed.
Lemma nrm2_vreal n v : nrm2 K n (vreal K v) = rdot K n v v.
Proof. unfold nrm2, rdot, vreal, cofR, cnorm2. apply sumn_ext; intros k _. cbn [cre cim fst snd]. ring. Qed.
Lemma hdot_vreal n u v : hdot K n (vreal K u) (vreal K v) = cofR K (rdot K n u v).
Proof.
  apply c_eq.
  - unfold hdot. rewrite cre_csum. unfold rdot, cofR. cbn [cre fst]. apply sumn_ext; intros k _. cbn. ring.
  - unfold hdot. rewrite cim_csum. unfold cofR. cbn [cim snd]. apply sumn_zero'. intros k. cbn. ring.
Qed.
Lemma cre_hdot n x a : cre (hdot K n x a) = sumn K n (fun k => cre (x k) * cre (a k) + cim (x k) * cim (a k)).
Proof. unfold hdot. rewrite cre_csum. apply sumn_ext; intros k _. cbn. ring. Qed.
Lemma cim_hdot n x a : cim (hdot K n x a) = sumn K n (fun k => cre (x k) * cim (a k) - cim (x k) * cre (a k)).
Proof. unfold hdot. rewrite cim_csum. apply sumn_ext; intros k _. cbn. ring. Qed.

(* ================= MAC ================= *)
Lemma mac_scale_l n c x a : cnorm2 K c <> 0 -> nrm2 K n x <> 0 -> nrm2 K n a <> 0 ->
  mac K n (vscale K c x) a = mac K n x a.
Proof.
  intros Hc Hx Ha. unfold mac.
  rewrite hdot_scale_l, (cnorm2_mul R K Rth), (cnorm2_conj R K Rth), nrm2_scale.
  field. repeat split; assumption.
Qed.
Lemma mac_sym n x a : mac K n x a = mac K n a x.
Proof.
  unfold mac. rewrite (hdot_conj n x a), (cnorm2_conj R K Rth).
  replace (nrm2 K n a * nrm2 K n x) with (nrm2 K n x * nrm2 K n a) by ring. reflexivity.
Qed.
Lemma mac_scale_r n c x a : cnorm2 K c <> 0 -> nrm2 K n x <> 0 -> nrm2 K n a <> 0 ->
  mac K n x (vscale K c a) = mac K n x a.
Proof. intros Hc Hx Ha. rewrite mac_sym, mac_scale_l by assumption. apply mac_sym. Qed.
Lemma mac_scale n c d x a : cnorm2 K c <> 0 -> cnorm2 K d <> 0 -> nrm2 K n x <> 0 -> nrm2 K n a <> 0 ->
  mac K n (vscale K c x) (vscale K d a) = mac K n x a.
Proof.
  intros Hc Hd Hx Ha. rewrite mac_scale_l; [apply mac_scale_r; assumption| assumption | assumption |].
  rewrite nrm2_scale. apply mul_neq0; assumption.
Qed.
Lemma mac_self_real n v : rdot K n v v <> 0 -> mac K n (vreal K v) (vreal K v) = 1.
Proof.
  intros Hv. unfold mac. rewrite hdot_vreal, nrm2_vreal. unfold cnorm2, cofR. cbn [cre cim fst snd].
  field. exact Hv.
Qed.
Lemma mac_collinear n c v : cnorm2 K c <> 0 -> rdot K n v v <> 0 ->
  mac K n (vscale K c (vreal K v)) (vreal K v) = 1 /\ mac K n (vreal K v) (vscale K c (vreal K v)) = 1.
Proof.
  intros Hc Hv. assert (Hn: nrm2 K n (vreal K v) <> 0) by (rewrite nrm2_vreal; exact Hv).
  split; [rewrite mac_scale_l | rewrite mac_scale_r]; try assumption; apply mac_self_real; exact Hv.
Qed.
(* a shape with itself, complex *)
Lemma mac_self n x : nrm2 K n x <> 0 -> mac K n x x = 1.
Proof.
  intros Hx. unfold mac.
  assert (E: hdot K n x x = cofR K (nrm2 K n x)).
  { apply c_eq.
    - rewrite cre_hdot. unfold nrm2, cnorm2, cofR. cbn [cre fst]. reflexivity.
    - rewrite cim_hdot. unfold cofR. cbn [cim snd]. apply sumn_zero'. intros k. ring. }
  rewrite E. unfold cnorm2, cofR. cbn [cre cim fst snd]. field. exact Hx.
Qed.

Lemma mac_mat_rows n mX mA X A : length (mac_mat K n mX mA X A) = mX.
Proof. apply tab2_length. Qed.
Lemma mac_mat_cols n mX mA X A i : (i < mX)%nat -> length (nth i (mac_mat K n mX mA X A) []) = mA.
Proof. intros Hi. unfold mac_mat. rewrite nth_tab2 by exact Hi. apply tab_length. Qed.
Lemma mac_mat_entry n mX mA X A i j : (i < mX)%nat -> (j < mA)%nat ->
  ent K (mac_mat K n mX mA X A) i j = mac K n (X i) (A j).
Proof. intros Hi Hj. unfold mac_mat. exact (ent_tab2 R K mX mA (fun i j => mac K n (X i) (A j)) i j Hi Hj). Qed.
Lemma mac_matrix_shape_transpose n mX mA X A :
  length (mac_mat K n mX mA X A) = mX /\
  (forall i, (i < mX)%nat -> length (nth i (mac_mat K n mX mA X A) []) = mA) /\
  (forall i j, (i < mX)%nat -> (j < mA)%nat ->
     ent K (mac_mat K n mX mA X A) i j = mac K n (X i) (A j) /\
     ent K (mac_mat K n mX mA X A) i j = ent K (mac_mat K n mA mX A X) j i).
Proof.
  split; [apply mac_mat_rows|]. split; [intros; apply mac_mat_cols; assumption|].
  intros i j Hi Hj. rewrite !mac_mat_entry by assumption. split; [reflexivity | apply mac_sym].
Qed.

(* ================= MSF ================= *)
Lemma cre_cdiv_scaled (c D:C) : cnorm2 K D <> 0 -> cdiv K (cmul K c D) D = c.
Proof.
  intros Hn. destruct D as [u w], c as [a b]. unfold cnorm2 in Hn. cbn [cre cim fst snd] in Hn.
  unfold cdiv, cinv, cmul, cnorm2; cbn [cre cim fst snd]. f_equal; field; exact Hn.
Qed.
Lemma msf_exact_c n v c : cnorm2 K (tdot K n v v) <> 0 -> msf K n v (vscale K c v) = cre c.
Proof. intros Hn. unfold msf. rewrite tdot_scale_l, cre_cdiv_scaled by exact Hn. reflexivity. Qed.
Lemma msf_exact n v (c:R) : cnorm2 K (tdot K n v v) <> 0 -> msf K n v (vscale K (cofR K c) v) = c.
Proof. intros Hn. rewrite msf_exact_c by exact Hn. reflexivity. Qed.

(* ================= MCF ================= *)
Lemma mcf_of_rot a b sxx sxy syy : a * a + b * b <> 0 -> sxx + syy <> 0 ->
  mcf_of K (a * a * sxx + (a * (- b) + (- b) * a) * sxy + (- b) * (- b) * syy)
           (a * b * sxx + (a * a + (- b) * b) * sxy + (- b) * a * syy)
           (b * b * sxx + (b * a + a * b) * sxy + a * a * syy)
  = mcf_of K sxx sxy syy.
Proof.
  intros Hc Ht. unfold mcf_of, four, two.
  set (N := a * a + b * b) in *. set (T := sxx + syy) in *.
  replace (a * a * sxx + (a * (- b) + (- b) * a) * sxy + (- b) * (- b) * syy
           + (b * b * sxx + (b * a + a * b) * sxy + a * a * syy)) with (N * T) by (unfold N, T; ring).
  match goal with |- 1 - ?num / _ = 1 - ?num0 / _ => replace num with (N * N * num0) by (unfold N; ring) end.
  field. split; assumption.
Qed.
Lemma mcf_scale n c phi : cnorm2 K c <> 0 -> nrm2 K n phi <> 0 -> mcf K n (vscale K c phi) = mcf K n phi.
Proof.
  intros Hc Hp. unfold mcf. destruct c as [a b]. unfold cnorm2 in Hc. cbn [cre cim fst snd] in Hc.
  rewrite nrm2_split in Hp.
  set (P := vscale K (a,b) phi).
  rewrite (rdot_comb' n a (- b) a (- b) (vre phi) (vim phi) (vre P) (vre P)) by (intros k; apply (vre_vscale (a,b))).
  rewrite (rdot_comb' n a (- b) b a (vre phi) (vim phi) (vre P) (vim P))
    by (intros k; first [apply (vre_vscale (a,b)) | apply (vim_vscale (a,b))]).
  rewrite (rdot_comb' n b a b a (vre phi) (vim phi) (vim P) (vim P)) by (intros k; apply (vim_vscale (a,b))).
  apply mcf_of_rot; assumption.
Qed.
Lemma mcf_real n v : rdot K n v v <> 0 -> mcf K n (vreal K v) = 0.
Proof.
  intros Hv. unfold mcf, mcf_of, four, two.
  assert (E1: rdot K n (vre (vreal K v)) (vim (vreal K v)) = 0).
  { unfold rdot. apply sumn_zero'. intros k. rewrite vim_vreal. ring. }
  assert (E2: rdot K n (vim (vreal K v)) (vim (vreal K v)) = 0).
  { unfold rdot. apply sumn_zero'. intros k. rewrite vim_vreal. ring. }
  rewrite E1, E2. change (rdot K n (vre (vreal K v)) (vre (vreal K v))) with (rdot K n v v).
  field. intros E. apply Hv. rewrite <- E. ring.
Qed.
Lemma mcf_collinear n c v : cnorm2 K c <> 0 -> rdot K n v v <> 0 -> mcf K n (vscale K c (vreal K v)) = 0.
Proof.
  intros Hc Hv. rewrite mcf_scale; [apply mcf_real; exact Hv | exact Hc | rewrite nrm2_vreal; exact Hv].
Qed.

(* ================= MPC ================= *)
Lemma mpc_eig tr det l0 l1 : l0 + l1 = tr -> l0 * l1 = det -> tr <> 0 ->
  ((l0 - l1) * (l0 - l1)) / ((l0 + l1) * (l0 + l1)) = mpc_of K tr det.
Proof. intros <- <- Ht. unfold mpc_of, four, two. field. exact Ht. Qed.

Lemma cov_tr_factor f n phi : cov_tr K f n phi = f * cov_tr K 1 n phi.
Proof. unfold cov_tr, cov_xx, cov_yy. ring. Qed.
Lemma cov_det_factor f n phi : cov_det K f n phi = f * f * cov_det K 1 n phi.
Proof. unfold cov_det, cov_xx, cov_yy, cov_xy. ring. Qed.
Lemma mpc_of_scaled N tr det : N <> 0 -> tr <> 0 -> mpc_of K (N * tr) (N * N * det) = mpc_of K tr det.
Proof. intros HN Ht. unfold mpc_of, four, two. field. split; assumption. Qed.
Lemma mpc_factor f n phi : f <> 0 -> cov_tr K 1 n phi <> 0 -> mpc_f K f n phi = mpc K n phi.
Proof. intros Hf Ht. unfold mpc, mpc_f. rewrite cov_tr_factor, cov_det_factor. apply mpc_of_scaled; assumption. Qed.

Lemma cen_comb n a b (u v u':nat->R) : (forall k, u' k = a * u k + b * v k) ->
  forall k, cen K n u' k = a * cen K n u k + b * cen K n v k.
Proof.
  intros H k. unfold cen, mean.
  rewrite (sumn_ext R K n u' (fun k => a * u k + b * v k)) by (intros; apply H).
  rewrite sumn_comb, H. ring.
Qed.
Lemma cov_scale f n c phi :
  cov_tr K f n (vscale K c phi) = cnorm2 K c * cov_tr K f n phi /\
  cov_det K f n (vscale K c phi) = cnorm2 K c * cnorm2 K c * cov_det K f n phi.
Proof.
  destruct c as [a b]. unfold cov_tr, cov_det, cov_xx, cov_xy, cov_yy, cnorm2. cbn [cre cim fst snd].
  set (P := vscale K (a,b) phi).
  rewrite (rdot_comb' n a (- b) a (- b) (cen K n (vre phi)) (cen K n (vim phi)) (cen K n (vre P)) (cen K n (vre P)))
    by (intros k; apply cen_comb; intros j; apply (vre_vscale (a,b))).
  rewrite (rdot_comb' n a (- b) b a (cen K n (vre phi)) (cen K n (vim phi)) (cen K n (vre P)) (cen K n (vim P)))
    by (intros k; apply cen_comb; intros j; first [apply (vre_vscale (a,b)) | apply (vim_vscale (a,b))]).
  rewrite (rdot_comb' n b a b a (cen K n (vre phi)) (cen K n (vim phi)) (cen K n (vim P)) (cen K n (vim P)))
    by (intros k; apply cen_comb; intros j; apply (vim_vscale (a,b))).
  split; ring.
Qed.
Lemma mpc_f_scale f n c phi : cnorm2 K c <> 0 -> cov_tr K f n phi <> 0 ->
  mpc_f K f n (vscale K c phi) = mpc_f K f n phi.
Proof.
  intros Hc Ht. unfold mpc_f. destruct (cov_scale f n c phi) as [-> ->]. apply mpc_of_scaled; assumption.
Qed.
Lemma mpc_scale n c phi : cnorm2 K c <> 0 -> cov_tr K 1 n phi <> 0 -> mpc K n (vscale K c phi) = mpc K n phi.
Proof. apply mpc_f_scale. Qed.

Lemma cen_zero n (u:nat->R) : (forall k, u k = 0) -> forall k, cen K n u k = 0.
Proof. intros H k. unfold cen, mean. rewrite (sumn_zero' n u H), H. ring. Qed.
Lemma cov_real f n v :
  cov_tr K f n (vreal K v) = f * rdot K n (cen K n v) (cen K n v) /\ cov_det K f n (vreal K v) = 0.
Proof.
  unfold cov_tr, cov_det, cov_xx, cov_xy, cov_yy.
  assert (Z: forall k, cen K n (vim (vreal K v)) k = 0) by (apply cen_zero; intros; reflexivity).
  assert (E1: rdot K n (cen K n (vre (vreal K v))) (cen K n (vim (vreal K v))) = 0).
  { unfold rdot. apply sumn_zero'. intros k. rewrite Z. ring. }
  assert (E2: rdot K n (cen K n (vim (vreal K v))) (cen K n (vim (vreal K v))) = 0).
  { unfold rdot. apply sumn_zero'. intros k. rewrite Z. ring. }
  rewrite E1, E2. change (vre (vreal K v)) with v. split; ring.
Qed.
(* var v := sum of squared deviations from the mean of the real vector v *)
Lemma mpc_f_collinear f n c v : f <> 0 -> cnorm2 K c <> 0 -> rdot K n (cen K n v) (cen K n v) <> 0 ->
  mpc_f K f n (vscale K c (vreal K v)) = 1.
Proof.
  intros Hf Hc Hv. destruct (cov_real f n v) as [Et Ed].
  assert (Ht: cov_tr K f n (vreal K v) <> 0) by (rewrite Et; apply mul_neq0; assumption).
  rewrite mpc_f_scale by assumption. unfold mpc_f. rewrite Ed. unfold mpc_of, four, two.
  field. exact Ht.
Qed.
Lemma mpc_collinear n c v : o1 K <> 0 -> cnorm2 K c <> 0 -> rdot K n (cen K n v) (cen K n v) <> 0 ->
  mpc K n (vscale K c (vreal K v)) = 1.
Proof. apply mpc_f_collinear. Qed.

(* ================= MPD (algebra of the arccos arguments) ================= *)
(* rotation of the witness that goes with the scaling of the shape *)
Definition rot0 (c:C) (v0 v1:R) : R := cre c * v0 - cim c * v1.
Definition rot1 (c:C) (v0 v1:R) : R := cim c * v0 + cre c * v1.
Lemma mpd_arg_scale c z v0 v1 : cnorm2 K c <> 0 -> v0 * v0 + v1 * v1 <> 0 -> cnorm2 K z <> 0 ->
  mpd_arg K (cmul K c z) (rot0 c v0 v1) (rot1 c v0 v1) = mpd_arg K z v0 v1.
Proof.
  intros Hc Hv Hz. destruct c as [a b], z as [x y].
  unfold mpd_arg, mpd_num, rot0, rot1, cmul, cnorm2 in *. cbn [cre cim fst snd] in *.
  replace ((a * v0 - b * v1) * (a * v0 - b * v1) + (b * v0 + a * v1) * (b * v0 + a * v1))
    with ((a * a + b * b) * (v0 * v0 + v1 * v1)) by ring.
  replace ((a * x - b * y) * (a * x - b * y) + (a * y + b * x) * (a * y + b * x))
    with ((a * a + b * b) * (x * x + y * y)) by ring.
  replace ((a * x - b * y) * (b * v0 + a * v1) - (a * y + b * x) * (a * v0 - b * v1))
    with ((a * a + b * b) * (x * v1 - y * v0)) by ring.
  set (N := a * a + b * b) in *. set (V := v0 * v0 + v1 * v1) in *. set (W := x * x + y * y) in *.
  field. repeat split; assumption.
Qed.
(* collinear shape c*u, witness orthogonal to the direction (Re c, Im c): the cosine argument is exactly 1 *)
Lemma mpd_arg_collinear c (u v0 v1:R) : cnorm2 K c <> 0 -> u <> 0 -> v0 * v0 + v1 * v1 <> 0 ->
  cre c * v0 + cim c * v1 = 0 -> mpd_arg K (cmul K c (cofR K u)) v0 v1 = 1.
Proof.
  intros Hc Hu Hv Ht. destruct c as [a b].
  unfold mpd_arg, mpd_num, cmul, cofR, cnorm2 in *. cbn [cre cim fst snd] in *.
  assert (E: (a * v1 - b * v0) * (a * v1 - b * v0) = (a * a + b * b) * (v0 * v0 + v1 * v1)).
  { transitivity ((a * v1 - b * v0) * (a * v1 - b * v0) + (a * v0 + b * v1) * (a * v0 + b * v1)); [rewrite Ht|]; ring. }
  replace (((a * u - b * 0) * v1 - (a * 0 + b * u) * v0) * ((a * u - b * 0) * v1 - (a * 0 + b * u) * v0))
    with (u * u * ((a * v1 - b * v0) * (a * v1 - b * v0))) by ring.
  rewrite E.
  replace ((a * u - b * 0) * (a * u - b * 0) + (a * 0 + b * u) * (a * 0 + b * u)) with ((a * a + b * b) * (u * u)) by ring.
  field. repeat split; assumption.
Qed.

(* Gram matrix [Re Im]^T [Re Im] of a collinear shape c*u *)
Lemma gram_collinear n c (u:nat->R) :
  rdot K n (vre (vscale K c (vreal K u))) (vre (vscale K c (vreal K u))) = cre c * cre c * rdot K n u u /\
  rdot K n (vre (vscale K c (vreal K u))) (vim (vscale K c (vreal K u))) = cre c * cim c * rdot K n u u /\
  rdot K n (vim (vscale K c (vreal K u))) (vim (vscale K c (vreal K u))) = cim c * cim c * rdot K n u u.
Proof.
  destruct c as [a b]. unfold rdot. rewrite <- !(sumn_scal R K Rth).
  repeat split; apply sumn_ext; intros k _; unfold vre, vim, vscale, vreal, cmul, cofR; cbn [cre cim fst snd]; ring.
Qed.

Section Guards.
Variable leb : R -> R -> bool.
Variable isz : R -> bool.
Hypothesis isz_spec : forall x, isz x = true <-> x = 0.

Lemma isz_false x : x <> 0 -> isz x = false.
Proof. intros H. destruct (isz x) eqn:E; [|reflexivity]. apply isz_spec in E. contradiction. Qed.
Lemma isz_true x : x = 0 -> isz x = true.
Proof. intros H. apply isz_spec. exact H. Qed.

(* never NaN where the property says so *)
Lemma mac_o_some n x a : nrm2 K n x <> 0 -> nrm2 K n a <> 0 -> mac_o K isz n x a = Some (mac K n x a).
Proof. intros Hx Ha. unfold mac_o, guard. rewrite isz_false by (apply mul_neq0; assumption). reflexivity. Qed.
Lemma mac_o_collinear n c v : cnorm2 K c <> 0 -> rdot K n v v <> 0 ->
  mac_o K isz n (vscale K c (vreal K v)) (vreal K v) = Some 1.
Proof.
  intros Hc Hv. assert (Hn: nrm2 K n (vreal K v) <> 0) by (rewrite nrm2_vreal; exact Hv).
  rewrite mac_o_some; [| rewrite nrm2_scale; apply mul_neq0; assumption | exact Hn].
  f_equal. apply mac_collinear; assumption.
Qed.
Lemma mcf_o_collinear n c v : cnorm2 K c <> 0 -> rdot K n v v <> 0 ->
  mcf_o K isz n (vscale K c (vreal K v)) = Some 0.
Proof.
  intros Hc Hv. unfold mcf_o, guard. rewrite isz_false.
  - f_equal. apply mcf_collinear; assumption.
  - rewrite nrm2_scale, nrm2_vreal. apply mul_neq0; assumption.
Qed.
Lemma mpc_o_collinear n c v : cov_factor K n <> 0 -> cnorm2 K c <> 0 -> rdot K n (cen K n v) (cen K n v) <> 0 ->
  mpc_o K isz n (vscale K c (vreal K v)) = Some 1.
Proof.
  intros Hf Hc Hv. unfold mpc_o, guard. rewrite isz_false.
  - f_equal. apply mpc_f_collinear; assumption.
  - destruct (cov_scale (cov_factor K n) n c (vreal K v)) as [-> _]. destruct (cov_real (cov_factor K n) n v) as [-> _].
    apply mul_neq0; [exact Hc | apply mul_neq0; assumption].
Qed.
(* ... and where the present code does return NaN: zero variance (KNOWN finding C18:MPC:zero-variance-nan) *)
Lemma mpc_o_zero_variance n c v : rdot K n (cen K n v) (cen K n v) = 0 -> mpc_o K isz n (vscale K c (vreal K v)) = None.
Proof.
  intros Hv. unfold mpc_o, guard. rewrite isz_true; [reflexivity|].
  destruct (cov_scale (cov_factor K n) n c (vreal K v)) as [-> _]. destruct (cov_real (cov_factor K n) n v) as [-> _].
  rewrite Hv. ring.
Qed.
Lemma msf_o_exact n v c : cnorm2 K (tdot K n v v) <> 0 -> msf_o K isz n v (vscale K (cofR K c) v) = Some c.
Proof. intros Hn. unfold msf_o, guard. rewrite isz_false by exact Hn. f_equal. apply msf_exact; exact Hn. Qed.
(* KNOWN finding C18:MSF:null-bilinear-nan *)
Lemma msf_o_null n v y : tdot K n v v = c0 K -> msf_o K isz n v y = None.
Proof. intros E. unfold msf_o, guard. rewrite E. rewrite isz_true; [reflexivity|]. unfold cnorm2, c0. cbn [cre cim fst snd]. ring. Qed.

(* MPD terms under scaling: same cosine arguments, weights^2 multiplied by |c|^2 *)
Lemma mpd_terms_scale n c phi v0 v1 : cnorm2 K c <> 0 -> v0 * v0 + v1 * v1 <> 0 ->
  mpd_terms K leb isz n (vscale K c phi) (rot0 c v0 v1) (rot1 c v0 v1)
  = map (fun t => (cnorm2 K c * fst t, snd t)) (mpd_terms K leb isz n phi v0 v1).
Proof.
  intros Hc Hv. unfold mpd_terms. induction (seq 0 n) as [|k l IH]; [reflexivity|].
  cbn [flat_map]. rewrite map_app, IH. f_equal.
  unfold mpd_term, vscale. rewrite (cnorm2_mul R K Rth).
  destruct (isz (cnorm2 K (phi k))) eqn:E.
  - apply isz_spec in E. rewrite isz_true by (rewrite E; ring). reflexivity.
  - assert (Hz: cnorm2 K (phi k) <> 0) by (intros H; apply isz_true in H; congruence).
    rewrite isz_false by (apply mul_neq0; assumption). cbn [map fst snd].
    rewrite mpd_arg_scale by assumption. reflexivity.
Qed.
(* collinear shapes: every term has cosine argument clip01 1 *)
Lemma mpd_terms_collinear n c u v0 v1 : cnorm2 K c <> 0 -> v0 * v0 + v1 * v1 <> 0 ->
  cre c * v0 + cim c * v1 = 0 ->
  forall t, In t (mpd_terms K leb isz n (vscale K c (vreal K u)) v0 v1) -> snd t = clip01 K leb 1.
Proof.
  intros Hc Hv Ht t Hin. unfold mpd_terms in Hin. apply in_flat_map in Hin. destruct Hin as (k & _ & Hin).
  unfold mpd_term, vscale, vreal in Hin.
  destruct (isz (cnorm2 K (cmul K c (cofR K (u k))))) eqn:E; [destruct Hin|].
  destruct Hin as [<-|[]]. cbn [snd]. f_equal. apply mpd_arg_collinear; try assumption.
  intros Hu. rewrite Hu in E. rewrite isz_true in E; [discriminate|].
  rewrite (cnorm2_mul R K Rth). unfold cnorm2 at 2, cofR. cbn [cre cim fst snd]. ring.
Qed.
(* a shape with a non-zero component yields at least one term *)
Lemma mpd_terms_nonempty n phi v0 v1 k : (k < n)%nat -> cnorm2 K (phi k) <> 0 -> mpd_terms K leb isz n phi v0 v1 <> [].
Proof.
  intros Hk Hz E. unfold mpd_terms in E.
  assert (Hin: In (cnorm2 K (phi k), clip01 K leb (mpd_arg K (phi k) v0 v1)) (flat_map (fun k => mpd_term K leb isz (phi k) v0 v1) (seq 0 n))).
  { apply in_flat_map. exists k. split; [apply in_seq; lia|]. unfold mpd_term. rewrite isz_false by exact Hz. left; reflexivity. }
  rewrite E in Hin. destruct Hin.
Qed.
Lemma mpd_terms_weights n phi v0 v1 t : In t (mpd_terms K leb isz n phi v0 v1) ->
  exists k, (k < n)%nat /\ fst t = cnorm2 K (phi k) /\ cnorm2 K (phi k) <> 0 /\ snd t = clip01 K leb (mpd_arg K (phi k) v0 v1).
Proof.
  intros Hin. unfold mpd_terms in Hin. apply in_flat_map in Hin. destruct Hin as (k & Hk & Hin).
  apply in_seq in Hk. exists k. unfold mpd_term in Hin.
  destruct (isz (cnorm2 K (phi k))) eqn:E; [destruct Hin|]. destruct Hin as [<-|[]]. cbn [fst snd].
  repeat split; try reflexivity; [lia|]. intros H. apply isz_true in H. congruence.
Qed.
End Guards.
End P.

(* closed instances at Qc of the guard predicates used in execution *)
From Coq Require Import ZArith QArith Qcanon.
Lemma Qc_isz_spec (x:Qc) : Qc_isz x = true <-> x = o0 QcOps.
Proof.
  unfold Qc_isz. cbn [o0 QcOps]. split.
  - intros H. apply Qc_is_canon. destruct x as [[num den] Hx]. cbn in *. destruct num; try discriminate. reflexivity.
  - intros ->. reflexivity.
Qed.
