(* C07 - the SDOF bell does not depend on WHICH decomposition meeting the SVD contract is used.
   1. MacPhase   : MAC(phi, a t) = MAC(phi, a) for |t|^2 = 1 (every commutative ring); MAC reads the first n entries only.
   2. Herm       : two decompositions A = U S V^H = U2 S2 V2^H (contract svd_ok, complex, Hermitian transposes).  If the
                   SQUARE of S2 k differs from the squares of all S i, i <> k, and S2 k <> 0, then column k of U2 is column k
                   of U times a number of modulus 1, and S2 k ^2 = S k ^2 (field with decidable equality).
   3. Ordered    : on an ordered formally real field, with numpy's promise on the values (non-negative, the first a maximum)
                   for BOTH decompositions and a strict gap below the first value in ONE of them: S2 0 = S 0 and the first
                   columns agree up to a unit-modulus factor; hence mac_pass, bell_term, bell_line (cm = 1), sdof_bell are
                   EQUAL for the two decompositions, EFDD and FSDD, every phi, MAClim, band.
   4. Qc         : instance at the rationals, the whole chain after the SVD (efdd_after_svd) is the same. *)
From Coq Require Import List Arith ZArith QArith Qcanon Lia Ring Field Bool Setoid Morphisms.
From PyOMA.Base Require Import Carrier Cplx FMat EigCount Dim.
From PyOMA.Model Require Import M_efdd M_efdd_svd.
From PyOMA.Proofs Require Import P_efdd.
Import ListNotations.

(* ================= 1. MAC and a unit-modulus factor ================= *)
Section MacPhase.
Variable R:Type. Variable K:Ops R.
Hypothesis Rth : ring_theory (o0 K) (o1 K) (oadd K) (omul K) (osub K) (oopp K) (@eq R).
Add Ring RrMP : Rth.
Local Open Scope K_scope.
Notation "0" := (o0 K) : K_scope. Notation "1" := (o1 K) : K_scope.
Infix "+" := (oadd K) : K_scope. Infix "*" := (omul K) : K_scope. Infix "-" := (osub K) : K_scope.

Lemma csum_mul_r n (f:nat -> C R) t : sumn (COps K) n (fun k => cmul K (f k) t) = cmul K (sumn (COps K) n f) t.
Proof. induction n; cbn [sumn]. - apply c_eq; cbn; ring. - rewrite IHn. apply c_eq; cbn; ring. Qed.
Lemma csum_mul_l n (f:nat -> C R) t : sumn (COps K) n (fun k => cmul K t (f k)) = cmul K t (sumn (COps K) n f).
Proof. induction n; cbn [sumn]. - apply c_eq; cbn; ring. - rewrite IHn. apply c_eq; cbn; ring. Qed.
Lemma csum_conj n (f:nat -> C R) : cconj K (sumn (COps K) n f) = sumn (COps K) n (fun k => cconj K (f k)).
Proof. induction n; cbn [sumn]. - apply c_eq; cbn; ring. - rewrite <- IHn. apply c_eq; cbn; ring. Qed.

Lemma cdotH_ext n x x' a a' :
  (forall i, (i < n)%nat -> x i = x' i) -> (forall i, (i < n)%nat -> a i = a' i) -> cdotH K n x a = cdotH K n x' a'.
Proof. intros Hx Ha. unfold cdotH. apply sumn_ext. intros k Hk. rewrite (Hx k Hk), (Ha k Hk). reflexivity. Qed.

(* MAC reads the first n entries only *)
Lemma mac_ext n x a a' : (forall i, (i < n)%nat -> a i = a' i) -> mac K n x a = mac K n x a'.
Proof.
  intros Ha. unfold mac.
  rewrite (cdotH_ext n x x a a' (fun _ _ => eq_refl) Ha), (cdotH_ext n a a' a a' Ha Ha). reflexivity.
Qed.

Lemma cdotH_rephase_r n x a t : cdotH K n x (rephase_vec K t a) = cmul K (cdotH K n x a) t.
Proof.
  unfold cdotH, rephase_vec. rewrite <- csum_mul_r. apply sumn_ext. intros k Hk. apply c_eq; cbn; ring.
Qed.
Lemma cdotH_rephase_both n a t :
  cdotH K n (rephase_vec K t a) (rephase_vec K t a) = cmul K (cdotH K n a a) (cofR K (cnorm2 K t)).
Proof.
  unfold cdotH, rephase_vec. rewrite <- csum_mul_r. apply sumn_ext. intros k Hk.
  apply c_eq; unfold cnorm2; cbn; ring.
Qed.

Theorem mac_rephase n x a t : unit_mod K t -> mac K n x (rephase_vec K t a) = mac K n x a.
Proof.
  unfold unit_mod. intros Ht. unfold mac.
  rewrite cdotH_rephase_r, cdotH_rephase_both, (cnorm2_mul R K Rth), Ht.
  f_equal; [ring|]. f_equal. cbn. ring.
Qed.

(* the freedom is real: multiplying column k of U and of V by a unit-modulus number t k keeps the contract *)
Lemma cmul_unit_r x t : unit_mod K t -> cmul K x (cofR K (cnorm2 K t)) = x.
Proof. unfold unit_mod. intros ->. apply c_eq; cbn; ring. Qed.
Theorem svd_ok_rephase n A U V S (t:nat -> C R) : (forall k, (k < n)%nat -> unit_mod K (t k)) ->
  svd_ok K n A U V S -> svd_ok K n A (rephase_cols K t U) (rephase_cols K t V) S.
Proof.
  intros Ht (HA & HU & HV).
  assert (Hu: forall (W:cmat R), (forall i j, (i < n)%nat -> (j < n)%nat ->
              sumn (COps K) n (fun k => cmul K (cconj K (W k i)) (W k j)) = cdelta K i j) ->
            forall i j, (i < n)%nat -> (j < n)%nat ->
              sumn (COps K) n (fun k => cmul K (cconj K (rephase_cols K t W k i)) (rephase_cols K t W k j)) = cdelta K i j).
  { intros W HW i j Hi Hj. unfold rephase_cols.
    rewrite (sumn_ext (C R) (COps K) n _ (fun k => cmul K (cmul K (cconj K (W k i)) (W k j)) (cmul K (cconj K (t i)) (t j))))
      by (intros k Hk; apply c_eq; cbn; ring).
    rewrite csum_mul_r, (HW i j Hi Hj). unfold cdelta. destruct (Nat.eqb_spec i j) as [->|Hne].
    - rewrite (cmul_conj R K Rth). pose proof (Ht j Hj) as E. unfold unit_mod in E. rewrite E. apply c_eq; cbn; ring.
    - apply c_eq; cbn; ring. }
  split; [|split; [exact (Hu U HU)|exact (Hu V HV)]].
  intros i j Hi Hj. rewrite (HA i j Hi Hj). apply sumn_ext. intros k Hk. unfold rephase_cols.
  rewrite <- (cmul_unit_r (cmul K (cmul K (U i k) (cofR K (S k))) (cconj K (V j k))) (t k) (Ht k Hk)).
  apply c_eq; unfold cnorm2; cbn; ring.
Qed.
End MacPhase.

(* ================= 2. the singular vector of an isolated singular value ================= *)
Section Herm.
Variable R:Type. Variable K:Ops R.
Hypothesis Fth : field_theory (o0 K) (o1 K) (oadd K) (omul K) (osub K) (oopp K) (odiv K) (oinv K) (@eq R).
Hypothesis Rdec : forall x y:R, {x = y} + {x <> y}.
Add Field FfHm : Fth.
Local Open Scope K_scope.
Notation "0" := (o0 K) : K_scope. Notation "1" := (o1 K) : K_scope.
Infix "+" := (oadd K) : K_scope. Infix "*" := (omul K) : K_scope. Infix "-" := (osub K) : K_scope.
Infix "/" := (odiv K) : K_scope.
Let Rth : ring_theory 0 1 (oadd K) (omul K) (osub K) (oopp K) (@eq R) := F_R Fth.
Notation KC := (COps K).
Let Cth := CRth R K Rth.
Notation fm := (fmul KC). Notation fI := (fid KC).
Let assoc := fmul_assoc (C R) KC Cth.
Let idl := fmul_id_l (C R) KC Cth.
Let idr := fmul_id_r (C R) KC Cth.
Let Hint : forall a b:R, a * b = 0 -> a = 0 \/ b = 0 := field_integral R K Fth Rdec.
Let H10 : 1 <> 0 := field_one_neq_zero R K Fth.

(* Hermitian transpose; U diag(S) *)
Definition fH (M:cmat R) : cmat R := fun i j => cconj K (M j i).
Definition usm (U:cmat R) (S:nat -> R) : cmat R := fun i k => cmul K (U i k) (cofR K (S k)).

Lemma svd_ok_feq n A U V S : svd_ok K n A U V S ->
  feq n n A (fm n (usm U S) (fH V)) /\ feq n n (fm n (fH U) U) fI /\ feq n n (fm n (fH V) V) fI.
Proof.
  intros (HA & HU & HV). split; [|split].
  - intros i j Hi Hj. rewrite (HA i j Hi Hj). reflexivity.
  - intros i j Hi Hj. unfold fmul, fH. cbn [COps omul]. rewrite (HU i j Hi Hj). unfold cdelta, fid. reflexivity.
  - intros i j Hi Hj. unfold fmul, fH. cbn [COps omul]. rewrite (HV i j Hi Hj). unfold cdelta, fid. reflexivity.
Qed.

(* A V = U diag(S) *)
Lemma svd_AV n A U V S : svd_ok K n A U V S -> feq n n (fm n A V) (usm U S).
Proof.
  intros C1. destruct (svd_ok_feq n A U V S C1) as (HA & _ & HV).
  rewrite HA. rewrite (assoc n n n n (usm U S) (fH V) V). rewrite HV. apply idr.
Qed.

Lemma cscal_zero_inv d (w:C R) : d <> 0 -> cscal K d w = c0 K -> w = c0 K.
Proof.
  intros Hd E. destruct w as [a b]. unfold cscal, c0 in *. cbn [cre cim fst snd] in *. injection E as E1 E2.
  destruct (Hint _ _ E1) as [F|F]; [contradiction|]. destruct (Hint _ _ E2) as [G|G]; [contradiction|]. subst. reflexivity.
Qed.

Section Two.
Variables (n:nat) (A U V:cmat R) (S:nat -> R) (U2 V2:cmat R) (S2:nat -> R).
Hypothesis C1 : svd_ok K n A U V S.
Hypothesis C2 : svd_ok K n A U2 V2 S2.

Definition hW : cmat R := fm n (fH V) V2.
Definition hZ : cmat R := fm n (fH U) U2.

(* U2 diag(S2) = U diag(S) W *)
Lemma h_star : feq n n (usm U2 S2) (fm n (usm U S) hW).
Proof.
  rewrite <- (svd_AV n A U2 V2 S2 C2). destruct (svd_ok_feq n A U V S C1) as (HA & _ & _). rewrite HA.
  unfold hW. apply (assoc n n n n (usm U S) (fH V) V2).
Qed.

Lemma h_UhUS i k : (i < n)%nat -> (k < n)%nat -> fm n (fH U) (usm U S) i k = cmul K (fI i k) (cofR K (S k)).
Proof.
  intros Hi Hk. destruct (svd_ok_feq n A U V S C1) as (_ & HU & _).
  rewrite <- (HU i k Hi Hk). unfold fmul, usm, fH. cbn [COps omul]. rewrite <- (csum_mul_r R K Rth).
  apply sumn_ext. intros a Ha. apply c_eq; cbn; ring.
Qed.

(* S i W i j = Z i j S2 j *)
Lemma h_rel1 i j : (i < n)%nat -> (j < n)%nat -> cscal K (S i) (hW i j) = cscal K (S2 j) (hZ i j).
Proof.
  intros Hi Hj.
  assert (E: feq n n (fm n (fH U) (usm U2 S2)) (fm n (fm n (fH U) (usm U S)) hW)).
  { rewrite h_star. symmetry. apply (assoc n n n n (fH U) (usm U S) hW). }
  pose proof (E i j Hi Hj) as E1.
  assert (L: fm n (fH U) (usm U2 S2) i j = cscal K (S2 j) (hZ i j)).
  { unfold hZ, fmul, usm, fH. cbn [COps omul].
    transitivity (cmul K (sumn KC n (fun k => cmul K (cconj K (U k i)) (U2 k j))) (cofR K (S2 j))).
    - rewrite <- (csum_mul_r R K Rth). apply sumn_ext. intros a Ha. apply c_eq; cbn; ring.
    - apply c_eq; cbn; ring. }
  assert (Rr: fm n (fm n (fH U) (usm U S)) hW i j = cscal K (S i) (hW i j)).
  { unfold fmul at 1.
    rewrite (sumn_single (C R) KC Cth n i).
    - rewrite (h_UhUS i i Hi Hi). unfold fid. rewrite Nat.eqb_refl. cbn [COps omul o1]. apply c_eq; cbn; ring.
    - exact Hi.
    - intros k Hk Hne. rewrite (h_UhUS i k Hi Hk). unfold fid. destruct (Nat.eqb_spec i k); [congruence|].
      cbn [COps omul o0]. apply c_eq; cbn; ring. }
  rewrite <- L, <- Rr. symmetry. exact E1.
Qed.
End Two.

Lemma hW_conj n (V V2:cmat R) i j : hW n V2 V j i = cconj K (hW n V V2 i j).
Proof.
  unfold hW, fmul, fH. cbn [COps omul]. rewrite (csum_conj R K Rth). apply sumn_ext. intros k Hk. apply c_eq; cbn; ring.
Qed.
Lemma hZ_conj n (U U2:cmat R) i j : hZ n U2 U j i = cconj K (hZ n U U2 i j).
Proof. exact (hW_conj n U U2 i j). Qed.
Lemma conj_cscal_conj a (w:C R) : cconj K (cscal K a (cconj K w)) = cscal K a w.
Proof. apply c_eq; cbn; ring. Qed.

Section Two'.
Variables (n:nat) (A U V:cmat R) (S:nat -> R) (U2 V2:cmat R) (S2:nat -> R).
Hypothesis C1 : svd_ok K n A U V S.
Hypothesis C2 : svd_ok K n A U2 V2 S2.
Notation W := (hW n V V2). Notation Z := (hZ n U U2).

(* S2 j W i j = Z i j S i *)
Lemma h_rel2 i j : (i < n)%nat -> (j < n)%nat -> cscal K (S2 j) (W i j) = cscal K (S i) (Z i j).
Proof.
  intros Hi Hj. pose proof (h_rel1 n A U2 V2 S2 U V S C2 C1 j i Hj Hi) as E.
  rewrite (hW_conj n V V2 i j) in E. rewrite (hZ_conj n U U2 i j) in E.
  rewrite <- (conj_cscal_conj (S2 j) (W i j)), <- (conj_cscal_conj (S i) (Z i j)). f_equal. exact E.
Qed.

(* entries of W = V^H V2 joining different squared values vanish *)
Lemma h_zero i j : (i < n)%nat -> (j < n)%nat -> S i * S i <> S2 j * S2 j -> W i j = c0 K.
Proof.
  intros Hi Hj Hne. apply (cscal_zero_inv (S i * S i - S2 j * S2 j)).
  - intros E. apply Hne. transitivity ((S i * S i - S2 j * S2 j) + S2 j * S2 j); [ring|]. rewrite E. ring.
  - transitivity (csub K (cscal K (S i) (cscal K (S i) (W i j))) (cscal K (S2 j) (cscal K (S2 j) (W i j)))).
    + apply c_eq; cbn; ring.
    + rewrite (h_rel1 n A U V S U2 V2 S2 C1 C2 i j Hi Hj), (h_rel2 i j Hi Hj). apply c_eq; cbn; ring.
Qed.

(* ---- index k: the square of S2 k differs from the squares of all S i, i <> k ---- *)
Variable k:nat.
Hypothesis Hk : (k < n)%nat.
Hypothesis Hgap : forall i, (i < n)%nat -> i <> k -> S i * S i <> S2 k * S2 k.
Hypothesis HS2 : S2 k <> 0.

Definition iso_t : C R := cscal K (S k / S2 k) (W k k).

Lemma iso_col a : (a < n)%nat -> U2 a k = cmul K (U a k) iso_t.
Proof.
  intros Ha. pose proof (h_star n A U V S U2 V2 S2 C1 C2 a k Ha Hk) as E.
  unfold fmul in E. rewrite (sumn_single (C R) KC Cth n k) in E; [|exact Hk|].
  - cbn [COps omul] in E. unfold usm in E.
    transitivity (cmul K (cmul K (U2 a k) (cofR K (S2 k))) (cofR K (1 / S2 k))).
    + apply c_eq; cbn; field; exact HS2.
    + rewrite E. unfold iso_t. apply c_eq; cbn; field; exact HS2.
  - intros i Hi Hne. rewrite (h_zero i k Hi Hk (Hgap i Hi Hne)). cbn [COps omul o0]. apply c_eq; cbn; ring.
Qed.

Lemma iso_unit : unit_mod K iso_t.
Proof.
  destruct C2 as (_ & HU2 & _). destruct C1 as (_ & HU1 & _).
  pose proof (HU2 k k Hk Hk) as E.
  rewrite (sumn_ext (C R) KC n _ (fun a => cmul K (cmul K (cconj K (U a k)) (U a k)) (cofR K (cnorm2 K iso_t)))) in E.
  2:{ intros a Ha. rewrite (iso_col a Ha). apply c_eq; unfold cnorm2; cbn; ring. }
  rewrite (csum_mul_r R K Rth), (HU1 k k Hk Hk) in E. unfold cdelta in E. rewrite Nat.eqb_refl in E.
  unfold unit_mod. pose proof (f_equal (@cre R) E) as E1. cbn in E1. rewrite <- E1. ring.
Qed.

Lemma iso_sq : S2 k * S2 k = S k * S k.
Proof.
  destruct (Rdec (S k * S k) (S2 k * S2 k)) as [E|Hne]; [symmetry; exact E|exfalso].
  pose proof iso_unit as Hu. unfold unit_mod, iso_t in Hu. rewrite (h_zero k k Hk Hk Hne) in Hu.
  apply H10. rewrite <- Hu. unfold cnorm2; cbn; ring.
Qed.

(* column k of U2 is column k of U up to a factor of modulus 1; the squared values agree *)
Theorem svd_vector_unique :
  exists t:C R, unit_mod K t /\ (forall a, (a < n)%nat -> U2 a k = cmul K (U a k) t) /\ S2 k * S2 k = S k * S k.
Proof. exists iso_t. split; [exact iso_unit|split; [exact iso_col|exact iso_sq]]. Qed.
End Two'.
End Herm.

(* ================= 3. an ordered formally real field: the first singular pair is unique ================= *)
Section Ordered.
Variable R:Type. Variable K:Ops R.
Hypothesis Fth : field_theory (o0 K) (o1 K) (oadd K) (omul K) (osub K) (oopp K) (odiv K) (oinv K) (@eq R).
Hypothesis Hreal : forall a b:R, oadd K (omul K a a) (omul K b b) = o0 K -> a = o0 K.
Add Field FfOr : Fth.
Local Open Scope K_scope.
Notation "0" := (o0 K) : K_scope. Notation "1" := (o1 K) : K_scope.
Infix "+" := (oadd K) : K_scope. Infix "*" := (omul K) : K_scope. Infix "-" := (osub K) : K_scope.
Infix "/" := (odiv K) : K_scope.
Variable ltb : R -> R -> bool.
Hypothesis lt_irrefl : forall a, ltb a a = false.
Hypothesis lt_trans : forall a b c, ltb a b = true -> ltb b c = true -> ltb a c = true.
Hypothesis lt_tricho : forall a b, ltb a b = false -> ltb b a = false -> a = b.
Hypothesis lt_mul_pos : forall c a b, ltb 0 c = true -> ltb (c*a) (c*b) = ltb a b.
Let Rth : ring_theory 0 1 (oadd K) (omul K) (osub K) (oopp K) (@eq R) := F_R Fth.
Notation KC := (COps K).
Let Cth := CRth R K Rth.
Notation fm := (fmul KC). Notation fI := (fid KC).
Let assoc := fmul_assoc (C R) KC Cth.
Let idl := fmul_id_l (C R) KC Cth.

(* ---- the order: squares of non-negative numbers ---- *)
Lemma o_pos_of_lt x y : ltb x 0 = false -> ltb x y = true -> ltb 0 y = true.
Proof.
  intros Hx Hxy. destruct (ltb 0 x) eqn:E0.
  - apply (lt_trans 0 x y E0 Hxy).
  - rewrite <- (lt_tricho x 0 Hx E0). exact Hxy.
Qed.
Lemma o_sq_lt x y : ltb x 0 = false -> ltb x y = true -> ltb (x*x) (y*y) = true.
Proof.
  intros Hx Hxy. pose proof (o_pos_of_lt x y Hx Hxy) as Hy.
  assert (E2: ltb (y*x) (y*y) = true) by (rewrite (lt_mul_pos y x y Hy); exact Hxy).
  destruct (ltb 0 x) eqn:E0.
  - assert (E1: ltb (x*x) (x*y) = true) by (rewrite (lt_mul_pos x x y E0); exact Hxy).
    replace (x*y) with (y*x) in E1 by ring. apply (lt_trans _ _ _ E1 E2).
  - pose proof (lt_tricho x 0 Hx E0) as Ex. rewrite Ex. rewrite Ex in E2.
    replace (0*0) with (y*0) by ring. exact E2.
Qed.
Lemma o_sq_ne_lt x y : ltb x 0 = false -> ltb x y = true -> x*x <> y*y.
Proof. intros Hx Hxy E1. pose proof (o_sq_lt x y Hx Hxy) as E. rewrite E1, lt_irrefl in E. discriminate E. Qed.
Definition o_dec (x y:R) : {x = y} + {x <> y}.
Proof.
  destruct (ltb x y) eqn:E1; [right; intros ->; rewrite lt_irrefl in E1; discriminate|].
  destruct (ltb y x) eqn:E2; [right; intros ->; rewrite lt_irrefl in E2; discriminate|].
  left. apply lt_tricho; assumption.
Defined.
(* non-negative numbers with equal squares are equal *)
Lemma o_sq_inj x y : ltb x 0 = false -> ltb y 0 = false -> x*x = y*y -> x = y.
Proof.
  intros Hx Hy E. destruct (ltb x y) eqn:E1; [exfalso; exact (o_sq_ne_lt x y Hx E1 E)|].
  destruct (ltb y x) eqn:E2; [exfalso; apply (o_sq_ne_lt y x Hy E2); symmetry; exact E|].
  apply lt_tricho; assumption.
Qed.

Let Rdec := o_dec.
Let Cdec := cplx_dec R Rdec.
Let H10 : 1 <> 0 := field_one_neq_zero R K Fth.

(* ---- W = V^H V2 is unitary (square matrices: Base/Dim.v at the complexification) ---- *)
Lemma hW_unitary n (V V2:cmat R) :
  feq n n (fm n (fH R K V) V) fI -> feq n n (fm n (fH R K V2) V2) fI ->
  feq n n (fm n (hW R K n V V2) (hW R K n V2 V)) fI.
Proof.
  intros HV HV2.
  pose proof (cplx_left_inv_is_right_inv R K Fth Rdec Hreal n V2 (fH R K V2) HV2) as HV2r.
  unfold hW. rewrite (assoc n n n n (fH R K V) V2 (fm n (fH R K V2) V)).
  rewrite <- (assoc n n n n V2 (fH R K V2) V). rewrite HV2r. rewrite (idl n n V). exact HV.
Qed.

Lemma c_one_neq_zero : c1 K <> c0 K.
Proof. unfold c1, c0. intros E. apply H10. injection E as E. exact E. Qed.

Lemma hW_row_nz n (V V2:cmat R) i : (i < n)%nat ->
  feq n n (fm n (fH R K V) V) fI -> feq n n (fm n (fH R K V2) V2) fI ->
  exists j, (j < n)%nat /\ hW R K n V V2 i j <> c0 K.
Proof.
  intros Hi HV HV2.
  destruct (fnz_spec (C R) KC Cdec (fun j => hW R K n V V2 i j) n) as [Hz|[H1 H2]].
  - exfalso. pose proof (hW_unitary n V V2 HV HV2 i i Hi Hi) as E. unfold fmul at 1 in E.
    rewrite (sumn_allz (C R) KC Cth) in E.
    + unfold fid in E. rewrite Nat.eqb_refl in E. apply c_one_neq_zero. symmetry. exact E.
    + intros j Hj. cbn beta in Hz. rewrite (Hz j Hj). cbn [COps omul o0]. apply c_eq; cbn; ring.
  - exists (fnz (C R) KC Cdec (fun j => hW R K n V V2 i j) n). split; [exact H1|exact H2].
Qed.
Lemma hW_col_nz n (V V2:cmat R) j : (j < n)%nat ->
  feq n n (fm n (fH R K V) V) fI -> feq n n (fm n (fH R K V2) V2) fI ->
  exists i, (i < n)%nat /\ hW R K n V V2 i j <> c0 K.
Proof.
  intros Hj HV HV2. destruct (hW_row_nz n V2 V j Hj HV2 HV) as (i & Hi & Hne).
  exists i. split; [exact Hi|]. intros E. apply Hne. rewrite (hW_conj R K Fth n V V2 i j). rewrite E.
  apply c_eq; cbn; ring.
Qed.

Section First.
Variables (n:nat) (A U V:cmat R) (S:nat -> R) (U2 V2:cmat R) (S2:nat -> R).
Hypothesis Hn : (0 < n)%nat.
Hypothesis C1 : svd_ok K n A U V S.
Hypothesis C2 : svd_ok K n A U2 V2 S2.
Hypothesis M1 : sv_first_max K ltb n S.
Hypothesis M2 : sv_first_max K ltb n S2.
Hypothesis G1 : sv_first_gap K ltb n S.

(* the largest singular value is the same number in every decomposition *)
Lemma first_value_unique : S2 0%nat = S 0%nat.
Proof.
  destruct (svd_ok_feq R K n A U V S C1) as (_ & _ & HV). destruct (svd_ok_feq R K n A U2 V2 S2 C2) as (_ & _ & HV2).
  destruct (hW_row_nz n V V2 0%nat Hn HV HV2) as (j0 & Hj0 & Nj0).
  destruct (hW_col_nz n V V2 0%nat Hn HV HV2) as (i0 & Hi0 & Ni0).
  assert (E1: S 0%nat = S2 j0).
  { apply o_sq_inj; [apply (M1 0%nat Hn)|apply (M2 j0 Hj0)|].
    destruct (Rdec (S 0%nat * S 0%nat) (S2 j0 * S2 j0)) as [E|Hne]; [exact E|exfalso].
    apply Nj0. exact (h_zero R K Fth Rdec n A U V S U2 V2 S2 C1 C2 0%nat j0 Hn Hj0 Hne). }
  assert (E2: S i0 = S2 0%nat).
  { apply o_sq_inj; [apply (M1 i0 Hi0)|apply (M2 0%nat Hn)|].
    destruct (Rdec (S i0 * S i0) (S2 0%nat * S2 0%nat)) as [E|Hne]; [exact E|exfalso].
    apply Ni0. exact (h_zero R K Fth Rdec n A U V S U2 V2 S2 C1 C2 i0 0%nat Hi0 Hn Hne). }
  destruct (Nat.eq_dec i0 0) as [->|Hne]; [symmetry; exact E2|exfalso].
  destruct G1 as [_ Hg]. pose proof (Hg i0 ltac:(lia)) as L. rewrite E2 in L.
  destruct (M2 j0 Hj0) as [_ L2]. rewrite <- E1 in L2. rewrite L in L2. discriminate L2.
Qed.

Theorem first_vector_unique :
  S2 0%nat = S 0%nat /\
  exists t:C R, unit_mod K t /\ forall a, (a < n)%nat -> U2 a 0%nat = cmul K (U a 0%nat) t.
Proof.
  pose proof first_value_unique as E0. split; [exact E0|].
  destruct G1 as [Hpos Hg].
  destruct (svd_vector_unique R K Fth Rdec n A U V S U2 V2 S2 C1 C2 0%nat Hn) as (t & Ht & Hcol & _).
  - intros i Hi Hne. rewrite E0. apply o_sq_ne_lt; [apply (M1 i Hi)|apply Hg; lia].
  - rewrite E0. intros E. rewrite E, lt_irrefl in Hpos. discriminate Hpos.
  - exists t. split; [exact Ht|exact Hcol].
Qed.
End First.
End Ordered.

(* ================= 3b. the bell is the same for every decomposition ================= *)
Section BellChoice.
Variable R:Type. Variable K:Ops R.
Hypothesis Fth : field_theory (o0 K) (o1 K) (oadd K) (omul K) (osub K) (oopp K) (odiv K) (oinv K) (@eq R).
Hypothesis Hreal : forall a b:R, oadd K (omul K a a) (omul K b b) = o0 K -> a = o0 K.
Variable ltb : R -> R -> bool.
Hypothesis lt_irrefl : forall a, ltb a a = false.
Hypothesis lt_trans : forall a b c, ltb a b = true -> ltb b c = true -> ltb a c = true.
Hypothesis lt_tricho : forall a b, ltb a b = false -> ltb b a = false -> a = b.
Hypothesis lt_mul_pos : forall c a b, ltb (o0 K) c = true -> ltb (omul K c a) (omul K c b) = ltb a b.
Let Rth := F_R Fth.

Lemma line_first n A U V S U2 V2 S2 : (0 < n)%nat -> line_ok K ltb n A U V S U2 V2 S2 ->
  S2 0%nat = S 0%nat /\
  exists t:C R, unit_mod K t /\ forall a, (a < n)%nat -> U2 a 0%nat = cmul K (U a 0%nat) t.
Proof.
  intros Hn (C1 & C2 & M1 & M2 & G1).
  exact (first_vector_unique R K Fth Hreal ltb lt_irrefl lt_trans lt_tricho lt_mul_pos n A U V S U2 V2 S2 Hn C1 C2 M1 M2 G1).
Qed.

Lemma unit_mod_conj t : unit_mod K t -> unit_mod K (cconj K t).
Proof. unfold unit_mod. intros H. rewrite (cnorm2_conj R K Rth). exact H. Qed.

Section Lines.
Variables (n:nat) (Sy U V U2 V2:nat -> cmat R) (S S2:nat -> nat -> R) (lo hi:nat).
Hypothesis Hn : (0 < n)%nat.
Hypothesis Hline : forall l, (lo <= l < hi)%nat -> line_ok K ltb n (Sy l) (U l) (V l) (S l) (U2 l) (V2 l) (S2 l).

Lemma lines_value l : (lo <= l < hi)%nat -> S2 l 0%nat = S l 0%nat.
Proof. intros Hl. exact (proj1 (line_first n _ _ _ _ _ _ _ Hn (Hline l Hl))). Qed.

Lemma lines_mac phi l : (lo <= l < hi)%nat -> mac K n phi (svec_of K U2 l 0%nat) = mac K n phi (svec_of K U l 0%nat).
Proof.
  intros Hl. destruct (line_first n _ _ _ _ _ _ _ Hn (Hline l Hl)) as (_ & t & Ht & Hcol).
  rewrite <- (mac_rephase R K Rth n phi (svec_of K U l 0%nat) (cconj K t) (unit_mod_conj t Ht)).
  apply (mac_ext R K). intros i Hi. unfold svec_of, rephase_vec. rewrite (Hcol i Hi). apply (cconj_mul R K Rth).
Qed.

(* mac_pass, bell_term, bell_line (one mode), sdof_bell: equal, for every comparison gtb, both methods, every FDD shape,
   MAC limit, and on every line (outside the band both are 0) *)
Theorem bell_svd_independent (gtb:R -> R -> bool) :
  (forall l, (lo <= l < hi)%nat -> S2 l 0%nat = S l 0%nat) /\
  (forall phi lim l, (lo <= l < hi)%nat ->
     mac_pass K gtb n phi (svec_of K U2 l 0%nat) lim = mac_pass K gtb n phi (svec_of K U l 0%nat) lim) /\
  (forall m phi lim l, (lo <= l < hi)%nat ->
     bell_term K gtb m n phi (Sy l) (S2 l 0%nat) (svec_of K U2 l 0%nat) lim =
     bell_term K gtb m n phi (Sy l) (S l 0%nat) (svec_of K U l 0%nat) lim) /\
  (forall m phi lim l,
     sdof_bell K gtb m n 1 phi Sy S2 (svec_of K U2) lim lo hi l = sdof_bell K gtb m n 1 phi Sy S (svec_of K U) lim lo hi l).
Proof.
  assert (Hp: forall phi lim l, (lo <= l < hi)%nat ->
     mac_pass K gtb n phi (svec_of K U2 l 0%nat) lim = mac_pass K gtb n phi (svec_of K U l 0%nat) lim).
  { intros phi lim l Hl. unfold mac_pass. rewrite (lines_mac phi l Hl). reflexivity. }
  assert (Ht: forall m phi lim l, (lo <= l < hi)%nat ->
     bell_term K gtb m n phi (Sy l) (S2 l 0%nat) (svec_of K U2 l 0%nat) lim =
     bell_term K gtb m n phi (Sy l) (S l 0%nat) (svec_of K U l 0%nat) lim).
  { intros m phi lim l Hl. unfold bell_term. rewrite (Hp phi lim l Hl), (lines_value l Hl). reflexivity. }
  split; [exact lines_value|split; [exact Hp|split; [exact Ht|]]].
  intros m phi lim l. unfold sdof_bell. destruct (Nat.leb lo l && Nat.ltb l hi) eqn:Eb; [|reflexivity].
  apply andb_prop in Eb. destruct Eb as [E1 E2]. apply Nat.leb_le in E1. apply Nat.ltb_lt in E2.
  unfold bell_line. cbn [sumn]. f_equal. apply Ht. lia.
Qed.
End Lines.
End BellChoice.

(* ================= 4. the rationals ================= *)
Lemma Qcltb_iff x y : Qcltb x y = true <-> (x < y)%Qc.
Proof.
  unfold Qcltb, Qcgtb. destruct (Qclt_le_dec x y) as [H|H]; split; intros H'; try assumption; try reflexivity.
  - discriminate H'.
  - exfalso. exact (Qclt_not_le _ _ H' H).
Qed.
Lemma Qcltb_false_iff x y : Qcltb x y = false <-> (y <= x)%Qc.
Proof.
  unfold Qcltb, Qcgtb. destruct (Qclt_le_dec x y) as [H|H]; split; intros H'; try assumption; try reflexivity.
  - discriminate H'.
  - exfalso. exact (Qclt_not_le _ _ H H').
Qed.
Lemma Qcltb_irrefl a : Qcltb a a = false.
Proof. apply Qcltb_false_iff. apply Qcle_refl. Qed.
Lemma Qcltb_trans a b c : Qcltb a b = true -> Qcltb b c = true -> Qcltb a c = true.
Proof. rewrite !Qcltb_iff. apply Qclt_trans. Qed.
Lemma Qcltb_tricho a b : Qcltb a b = false -> Qcltb b a = false -> a = b.
Proof. rewrite !Qcltb_false_iff. intros H1 H2. apply Qcle_antisym; assumption. Qed.
Lemma Qcltb_mul_pos c a b : Qcltb (o0 QcOps) c = true -> Qcltb (omul QcOps c a) (omul QcOps c b) = Qcltb a b.
Proof.
  cbn [o0 omul QcOps]. intros Hc. apply Qcltb_iff in Hc.
  destruct (Qcltb a b) eqn:E.
  - apply Qcltb_iff in E. apply Qcltb_iff. rewrite (Qcmult_comm c a), (Qcmult_comm c b).
    apply Qcmult_lt_compat_r; assumption.
  - apply Qcltb_false_iff in E. apply Qcltb_false_iff. rewrite (Qcmult_comm c a), (Qcmult_comm c b).
    apply Qcmult_le_compat_r; [assumption|]. apply Qclt_le_weak. exact Hc.
Qed.

Definition qc_line_ok := @line_ok Qc QcOps Qcltb.

(* everything computed after the SVD - extremum indices, log arguments, period, hence Fn and Xi - is the same for the
   two decompositions; no hypothesis on the inverse transform at all *)
Theorem efdd_pipeline_svd_independent (ifft_re : list QcC -> list Qc) (m:meth) (n:nat) (phi:cvec Qc)
    (Sy U V U2 V2:nat -> cmat Qc) (S S2:nat -> nat -> Qc) (lim:Qc) (lo hi Nf:nat) (tlag:Qc) (sppk npmax:nat) :
  (0 < n)%nat ->
  (forall l, (lo <= l < hi)%nat -> qc_line_ok n (Sy l) (U l) (V l) (S l) (U2 l) (V2 l) (S2 l)) ->
  efdd_after_svd ifft_re (map (sdof_bell QcOps Qcgtb m n 1 phi Sy S2 (svec_of QcOps U2) lim lo hi) (seq 0 Nf)) tlag sppk npmax =
  efdd_after_svd ifft_re (map (sdof_bell QcOps Qcgtb m n 1 phi Sy S (svec_of QcOps U) lim lo hi) (seq 0 Nf)) tlag sppk npmax.
Proof.
  intros Hn Hline.
  assert (E: map (sdof_bell QcOps Qcgtb m n 1 phi Sy S2 (svec_of QcOps U2) lim lo hi) (seq 0 Nf) =
             map (sdof_bell QcOps Qcgtb m n 1 phi Sy S (svec_of QcOps U) lim lo hi) (seq 0 Nf)); [|rewrite E; reflexivity].
  apply map_ext. intros l.
  exact (proj2 (proj2 (proj2 (bell_svd_independent Qc QcOps QcFth qc_formally_real Qcltb Qcltb_irrefl Qcltb_trans Qcltb_tricho
           Qcltb_mul_pos n Sy U V U2 V2 S S2 lo hi Hn Hline Qcgtb))) m phi lim l).
Qed.

(* ================= 5. the executable bell with rephased stored vectors ================= *)
Lemma nth_map_seq {A} (F:nat -> A) L c d : (c < L)%nat -> nth c (map F (seq 0 L)) d = F c.
Proof.
  intros H. rewrite (nth_indep _ d (F 0%nat)) by (rewrite map_length, seq_length; exact H).
  rewrite (map_nth F (seq 0 L) 0%nat c). rewrite seq_nth by exact H. reflexivity.
Qed.
Lemma nth_map_fix {A B} (G:A -> B) l i da db : G da = db -> nth i (map G l) db = G (nth i l da).
Proof. intros <-. apply map_nth. Qed.
Lemma qcc_mul_zero_l t : cmul QcOps cz t = cz.
Proof. apply c_eq; cbn; ring. Qed.

Lemma ld_svec_rephase ts d c i : ld_svec (ld_rephase ts d) c i = cmul QcOps (ld_svec d c i) (nth c ts (c1 QcOps)).
Proof.
  unfold ld_svec, ld_rephase. cbn [snd]. destruct (Nat.lt_ge_cases c (List.length (snd d))) as [Hc|Hc].
  - rewrite (nth_map_seq _ _ c [] Hc). cbn beta.
    apply (nth_map_fix (fun z => cmul QcOps z (nth c ts (c1 QcOps))) (nth c (snd d) []) i cz cz). apply qcc_mul_zero_l.
  - rewrite (nth_overflow (map _ (seq 0 (List.length (snd d))))) by (rewrite map_length, seq_length; exact Hc).
    rewrite (nth_overflow (snd d)) by exact Hc. destruct i; cbn [nth]; symmetry; apply qcc_mul_zero_l.
Qed.

Lemma qc_unit_one : unit_mod QcOps (c1 QcOps).
Proof. unfold unit_mod. vm_compute. reflexivity. Qed.

(* the model evaluated on the vectors of U diag(t) is the model evaluated on the vectors of U: EXACTLY the same result (band,
   error or bell), every method, cm, phi, MAC limit - whenever every t has modulus 1 *)
Theorem sdof_bell_lt_invariant m n cm Nf h f DF phi lim lo0 ts lines :
  (forall t, In t ts -> unit_mod QcOps t) ->
  sdof_bell_lt m n cm Nf h f DF phi lim lo0 ts lines = sdof_bell_l m n cm Nf h f DF phi lim lo0 lines.
Proof.
  intros Hts. unfold sdof_bell_lt, sdof_bell_l. destruct (band Nf h f DF) as [[lo hi]|e]; [|reflexivity].
  destruct (Nat.leb hi lo && Nat.leb 1 cm); [reflexivity|]. f_equal. f_equal. apply map_ext. intros l.
  unfold sdof_bell. destruct (Nat.leb lo l && Nat.ltb l hi); [|reflexivity].
  unfold bell_line. apply sumn_ext. intros c Hc.
  rewrite (nth_map_fix (ld_rephase ts) lines (l - lo0) no_line no_line eq_refl).
  set (d := nth (l - lo0) lines no_line).
  unfold bell_term, mac_pass.
  assert (E: mac QcOps n (fun i => nth i phi cz) (ld_svec (ld_rephase ts d) c) = mac QcOps n (fun i => nth i phi cz) (ld_svec d c)).
  { rewrite <- (mac_rephase Qc QcOps QcRth n (fun i => nth i phi cz) (ld_svec d c) (nth c ts (c1 QcOps))).
    - apply (mac_ext Qc QcOps). intros i Hi. apply ld_svec_rephase.
    - destruct (Nat.lt_ge_cases c (List.length ts)) as [H|H]; [apply Hts; apply nth_In; exact H|].
      rewrite nth_overflow by exact H. exact qc_unit_one. }
  rewrite E. reflexivity.
Qed.

(* ================= 6. the mode-shape clause: s phi phi^H + eps I, ANY decomposition ================= *)
Section Shape.
Variable R:Type. Variable K:Ops R.
Hypothesis Fth : field_theory (o0 K) (o1 K) (oadd K) (omul K) (osub K) (oopp K) (odiv K) (oinv K) (@eq R).
Add Field FfSh : Fth.
Local Open Scope K_scope.
Notation "0" := (o0 K) : K_scope. Notation "1" := (o1 K) : K_scope.
Infix "+" := (oadd K) : K_scope. Infix "*" := (omul K) : K_scope. Infix "-" := (osub K) : K_scope.
Infix "/" := (odiv K) : K_scope.
Let Rth : ring_theory 0 1 (oadd K) (omul K) (osub K) (oopp K) (@eq R) := F_R Fth.
Notation KC := (COps K).
Let Cth := CRth R K Rth.
Notation fm := (fmul KC).
Let H10 : 1 <> 0 := F_1_neq_0 Fth.

(* A^H = V diag(S) U^H meets the contract with the roles of U and V exchanged *)
Lemma svd_ok_fH n A U V S : svd_ok K n A U V S -> svd_ok K n (fH R K A) V U S.
Proof.
  intros (HA & HU & HV). split; [|split; assumption].
  intros i j Hi Hj. unfold fH. rewrite (HA j i Hj Hi), (csum_conj R K Rth). apply sumn_ext. intros k Hk.
  apply c_eq; cbn; ring.
Qed.

Lemma cdotH_self n (a:cvec R) : cdotH K n a a = cofR K (sumn K n (fun i => cnorm2 K (a i))).
Proof.
  unfold cdotH. rewrite <- (csum_ofR R K Rth). apply sumn_ext. intros k Hk. apply (cmul_conj R K Rth).
Qed.

(* MAC does not see a common conjugation *)
Lemma mac_conj n (x a:cvec R) : mac K n (fun i => cconj K (x i)) (fun i => cconj K (a i)) = mac K n x a.
Proof.
  assert (E: forall y b:cvec R, cdotH K n (fun i => cconj K (y i)) (fun i => cconj K (b i)) = cconj K (cdotH K n y b)).
  { intros y b. unfold cdotH. rewrite (csum_conj R K Rth). apply sumn_ext. intros k Hk. apply c_eq; cbn; ring. }
  unfold mac. rewrite !E, (cnorm2_conj R K Rth). reflexivity.
Qed.

Variables (n:nat) (phi:cvec R) (s eps:R).
Notation A := (r1c_Sy K phi s eps).

Lemma r1c_herm : feq n n (fH R K A) A.
Proof.
  intros i j _ _. unfold fH, r1c_Sy. rewrite (Nat.eqb_sym j i). destruct (Nat.eqb i j); apply c_eq; cbn; ring.
Qed.

(* (A x)_i = phi_i s (phi^H x) + eps x_i *)
Lemma r1c_apply (x:cvec R) i : (i < n)%nat ->
  sumn KC n (fun j => cmul K (A i j) (x j)) = cadd K (cmul K (phi i) (cscal K s (cdotH K n phi x))) (cscal K eps (x i)).
Proof.
  intros Hi. unfold r1c_Sy.
  rewrite (sumn_ext (C R) KC n _
             (fun j => oadd KC (cmul K (cscal K s (phi i)) (cmul K (cconj K (phi j)) (x j)))
                               (cmul K (if Nat.eqb i j then cofR K eps else c0 K) (x j))))
    by (intros j Hj; cbn [COps oadd]; apply c_eq; cbn; ring).
  rewrite (sumn_add (C R) KC Cth). cbn [COps oadd]. rewrite (csum_mul_l R K Rth).
  rewrite (sumn_single (C R) KC Cth n i (fun j => cmul K (if Nat.eqb i j then cofR K eps else c0 K) (x j)) Hi).
  - cbn beta. rewrite Nat.eqb_refl. unfold cdotH. apply c_eq; cbn; ring.
  - intros j Hj Hne. cbn beta. destruct (Nat.eqb_spec i j); [congruence|]. cbn [COps o0]. apply c_eq; cbn; ring.
Qed.

Variables (U V:cmat R) (S:nat -> R) (k:nat).
Hypothesis Hk : (k < n)%nat.
Hypothesis C1 : svd_ok K n A U V S.
Hypothesis Hgap : S k * S k <> eps * eps.

Definition shape_c : C R :=
  cscal K (s / (S k * S k - eps * eps))
    (cadd K (cscal K (S k) (cdotH K n phi (fun i => V i k))) (cscal K eps (cdotH K n phi (fun i => U i k)))).

(* the k-th left singular vector is the shape times a number *)
Lemma shape_collinear i : (i < n)%nat -> U i k = cmul K (phi i) shape_c.
Proof.
  intros Hi.
  assert (Hd: S k * S k - eps * eps <> 0).
  { intros E. apply Hgap. transitivity ((S k * S k - eps * eps) + eps * eps); [ring|]. rewrite E. ring. }
  (* A v = sigma u *)
  pose proof (svd_AV R K Fth n A U V S C1 i k Hi Hk) as E1. unfold fmul, usm in E1. cbn [COps omul] in E1.
  rewrite (r1c_apply (fun j => V j k) i Hi) in E1.
  (* A u = sigma v  (A Hermitian) *)
  pose proof (svd_AV R K Fth n (fH R K A) V U S (svd_ok_fH n A U V S C1) i k Hi Hk) as E2. unfold fmul, usm in E2. cbn [COps omul] in E2.
  rewrite (sumn_ext (C R) KC n _ (fun j => cmul K (A i j) (U j k))) in E2 by (intros j Hj; rewrite (r1c_herm i j Hi Hj); reflexivity).
  rewrite (r1c_apply (fun j => U j k) i Hi) in E2.
  set (gv := cdotH K n phi (fun i => V i k)) in *. set (gu := cdotH K n phi (fun i => U i k)) in *.
  unfold shape_c. fold gv gu.
  destruct (U i k) as [ur ui] eqn:EU. destruct (V i k) as [vr vi] eqn:EV. destruct (phi i) as [pr pi].
  destruct gv as [gvr gvi]. destruct gu as [gur gui].
  unfold cmul, cadd, cscal, cofR in *. cbn [cre cim fst snd] in *.
  injection E1 as E1r E1i. injection E2 as E2r E2i.
  f_equal.
  - transitivity ((S k * ((ur * S k - ui * 0) - eps * vr) + eps * ((vr * S k - vi * 0) - eps * ur)) / (S k * S k - eps * eps)); [field; exact Hd|].
    rewrite <- E1r, <- E2r. field. exact Hd.
  - transitivity ((S k * ((ur * 0 + ui * S k) - eps * vi) + eps * ((vr * 0 + vi * S k) - eps * ui)) / (S k * S k - eps * eps)); [field; exact Hd|].
    rewrite <- E1i, <- E2i. field. exact Hd.
Qed.

(* ... hence its MAC with the shape is exactly 1 - for every n, every contract-meeting decomposition, every index whose squared
   value differs from the squared floor *)
Theorem shape_mac_one : mac K n phi (fun i => U i k) = 1.
Proof.
  rewrite (mac_ext R K n phi (fun i => U i k) (rephase_vec K shape_c phi) shape_collinear).
  destruct C1 as (_ & HU & _). pose proof (HU k k Hk Hk) as E. unfold cdelta in E. rewrite Nat.eqb_refl in E.
  change (cdotH K n (fun i => U i k) (fun i => U i k) = c1 K) in E.
  rewrite (cdotH_ext R K n _ (rephase_vec K shape_c phi) _ (rephase_vec K shape_c phi) shape_collinear shape_collinear) in E.
  rewrite (cdotH_rephase_both R K Rth), cdotH_self in E.
  set (N := sumn K n (fun i => cnorm2 K (phi i))) in *.
  assert (E1: N * cnorm2 K shape_c = 1).
  { pose proof (f_equal (@cre R) E) as E'. cbn in E'. rewrite <- E'. ring. }
  assert (HN: N <> 0) by (intros Z; apply H10; rewrite <- E1, Z; ring).
  unfold mac. rewrite (cdotH_rephase_r R K Rth), (cdotH_rephase_both R K Rth), cdotH_self. fold N.
  transitivity (N / N); [|field; exact HN]. f_equal.
  - rewrite (cnorm2_mul R K Rth). transitivity (N * (N * cnorm2 K shape_c)); [unfold cnorm2; cbn; ring|]. rewrite E1. ring.
  - transitivity (N * (N * cnorm2 K shape_c)); [cbn; ring|]. rewrite E1. ring.
Qed.

(* as the code has it: S_vec[k,:,l] = conj (column k of U) against the conjugated shape (the shape itself when it is real) *)
Corollary shape_mac_one_stored (l:nat) : mac K n (fun i => cconj K (phi i)) (svec_of K (fun _ => U) l k) = 1.
Proof. unfold svec_of. rewrite (mac_conj n phi (fun i => U i k)). exact shape_mac_one. Qed.
End Shape.

(* ================= 7. the closed form of the bell for EVERY decomposition (one mode) ================= *)
(* Sy = s phi phi^T + eps I as in P_efdd.bell_rank_one (phi = nrm u, u the first column of a real orthogonal Ur), floor
   0 <= eps < s|phi|^2 + eps.  bell_rank_one evaluates the bell on ONE triple; with sections 2-3 the same values hold for ANY
   triple meeting the contract whose values are non-negative with the first a maximum. *)
Section RankOneAny.
Variable R:Type. Variable K:Ops R. Variable gtb : R -> R -> bool.
Hypothesis Fth : field_theory (o0 K) (o1 K) (oadd K) (omul K) (osub K) (oopp K) (odiv K) (oinv K) (@eq R).
Hypothesis Hreal : forall a b:R, oadd K (omul K a a) (omul K b b) = o0 K -> a = o0 K.
Variable ltb : R -> R -> bool.
Hypothesis lt_irrefl : forall a, ltb a a = false.
Hypothesis lt_trans : forall a b c, ltb a b = true -> ltb b c = true -> ltb a c = true.
Hypothesis lt_tricho : forall a b, ltb a b = false -> ltb b a = false -> a = b.
Hypothesis lt_mul_pos : forall c a b, ltb (o0 K) c = true -> ltb (omul K c a) (omul K c b) = ltb a b.
Add Field FfRA : Fth.
Local Open Scope K_scope.
Notation "0" := (o0 K) : K_scope. Notation "1" := (o1 K) : K_scope.
Infix "+" := (oadd K) : K_scope. Infix "*" := (omul K) : K_scope. Infix "-" := (osub K) : K_scope.

Variable n:nat.
Variable Ur : nat -> nat -> R.
Variables nrm a s eps lim : R.
Hypothesis Hn : (0 < n)%nat.
Hypothesis HUc : forall i j, (i<n)%nat -> (j<n)%nat -> sumn K n (fun k => Ur k i * Ur k j) = kd R K i j.
Hypothesis HUr : forall i j, (i<n)%nat -> (j<n)%nat -> sumn K n (fun k => Ur i k * Ur j k) = kd R K i j.
Hypothesis Ha : a <> 0.
Hypothesis Hlim : gtb 1 lim = true.
Hypothesis Heps : ltb eps 0 = false.
Hypothesis Hgap : ltb eps (r1_S R K nrm s eps 0%nat) = true.

Notation Sy1 := (r1_Sy R K Ur nrm s eps). Notation U1 := (r1_U R K Ur). Notation S1 := (r1_S R K nrm s eps).
Notation phin := (r1_phin R K Ur a).

Lemma r1_S_tail j : (0 < j)%nat -> S1 j = eps.
Proof. intros Hj. unfold r1_S, kd. destruct j; [lia|]. cbn [Nat.eqb]. ring. Qed.
Lemma lt_asym x y : ltb x y = true -> ltb y x = false.
Proof. intros H. destruct (ltb y x) eqn:E; [|reflexivity]. pose proof (lt_trans x y x H E) as F. rewrite lt_irrefl in F. discriminate F. Qed.

Lemma r1_first_max : sv_first_max K ltb n S1.
Proof.
  pose proof (o_pos_of_lt R K ltb lt_trans lt_tricho eps (S1 0%nat) Heps Hgap) as Hpos.
  intros j Hj. destruct j as [|j].
  - split; [apply lt_asym; exact Hpos|apply lt_irrefl].
  - rewrite (r1_S_tail (Datatypes.S j)) by lia. split; [exact Heps|apply lt_asym; exact Hgap].
Qed.
Lemma r1_first_gap : sv_first_gap K ltb n S1.
Proof.
  split; [exact (o_pos_of_lt R K ltb lt_trans lt_tricho eps (S1 0%nat) Heps Hgap)|].
  intros j Hj. rewrite (r1_S_tail j) by lia. exact Hgap.
Qed.

Variables (U2 V2:cmat R) (S2:nat -> R).
Hypothesis C2 : svd_ok K n Sy1 U2 V2 S2.
Hypothesis M2 : sv_first_max K ltb n S2.

Theorem bell_rank_one_any_svd :
  S2 0%nat = s * sumn K n (fun i => r1_phi R K Ur nrm i * r1_phi R K Ur nrm i) + eps /\
  (forall l, mac K n phin (svec_of K (fun _ => U2) l 0%nat) = 1) /\
  (forall l, mac_pass K gtb n phin (svec_of K (fun _ => U2) l 0%nat) lim = true) /\
  (forall m lo hi l,
     sdof_bell K gtb m n 1 phin (fun _ => Sy1) (fun _ => S2) (svec_of K (fun _ => U2)) lim lo hi l =
     if Nat.leb lo l && Nat.ltb l hi
     then match m with
          | EFDD => cofR K (s * sumn K n (fun i => r1_phi R K Ur nrm i * r1_phi R K Ur nrm i) + eps)
          | FSDD => cofR K (s * (sumn K n (fun i => r1_p R K Ur a i * r1_phi R K Ur nrm i) * sumn K n (fun i => r1_p R K Ur a i * r1_phi R K Ur nrm i))
                            + eps * sumn K n (fun i => r1_p R K Ur a i * r1_p R K Ur a i))
          end
     else c0 K).
Proof.
  destruct (bell_rank_one R K gtb Fth n Ur nrm a s eps lim Hn HUc HUr Ha Hlim) as (C1 & HS0 & _ & HP & HE & HF).
  assert (Hline: forall l, (0 <= l < 1)%nat ->
            line_ok K ltb n ((fun _ => Sy1) l) ((fun _ => U1) l) ((fun _ => U1) l) ((fun _ => S1) l) ((fun _ => U2) l) ((fun _ => V2) l) ((fun _ => S2) l)).
  { intros l _. exact (conj C1 (conj C2 (conj r1_first_max (conj M2 r1_first_gap)))). }
  pose proof (lines_value R K Fth Hreal ltb lt_irrefl lt_trans lt_tricho lt_mul_pos n _ _ _ _ _ _ _ 0%nat 1%nat Hn Hline 0%nat ltac:(lia)) as EV.
  pose proof (fun phi => lines_mac R K Fth Hreal ltb lt_irrefl lt_trans lt_tricho lt_mul_pos n _ _ _ _ _ _ _ 0%nat 1%nat Hn Hline phi 0%nat ltac:(lia)) as EM.
  cbn beta in EV, EM.
  assert (Hm: forall l, mac K n phin (svec_of K (fun _ => U2) l 0%nat) = 1).
  { intros l. change (svec_of K (fun _ => U2) l 0%nat) with (svec_of K (fun _ => U2) 0%nat 0%nat). rewrite (EM phin).
    exact (r1_mac R K Fth n Ur a Hn HUc Ha 0%nat). }
  assert (Hp: forall l, mac_pass K gtb n phin (svec_of K (fun _ => U2) l 0%nat) lim = true).
  { intros l. unfold mac_pass. rewrite (Hm l). exact Hlim. }
  split; [rewrite EV; exact HS0|split; [exact Hm|split; [exact Hp|]]].
  intros m lo hi l. unfold sdof_bell. destruct (Nat.leb lo l && Nat.ltb l hi); [|reflexivity].
  unfold bell_line. cbn [sumn]. unfold bell_term. rewrite (Hp l). rewrite EV, HS0.
  destruct m.
  - apply c_eq; cbn; ring.
  - rewrite (r1_quad R K Fth n Ur nrm a s eps). apply c_eq; cbn; ring.
Qed.
End RankOneAny.
