(* C16 - the dialog (Model/M_pick.v) refines into the extraction of C11 (Model/M_mpe.v): for every history of allowed
   steps, the two lists handed over, fed to the explicit-order extraction with any rtol >= 0, return for every selected
   pair - in the same position, orders repeated or not, the same pair selected twice or not - the whole pole of the
   cell that was picked: its frequency and the payload (damping, shape, covariances) of that same cell. *)
From Coq Require Import List Arith ZArith QArith Qabs Bool Lia Permutation Lqa.
From PyOMA.Base Require Import Argmin.
From PyOMA.Model Require Import M_pick M_mpe M_pick_mpe.
From PyOMA.Proofs Require Import P_mpe P_pick.
Import ListNotations.
Open Scope Q_scope.

(* ------------------------------------------------------------------ the two table layouts --------------------- *)
Lemma dists_row_dists col f : dists col f = row_dists f col.
Proof. reflexivity. Qed.

Lemma cols_from_nth Fn : forall n c tbl, cols_from Fn c n = Some tbl ->
  length tbl = n /\ forall k col, nth_error tbl k = Some col -> getcol Fn (c + k) = Some col.
Proof.
  induction n as [|n IH]; intros c tbl H; cbn [cols_from] in H.
  - inversion H. split; [reflexivity|]. intros k col Hk. destruct k; discriminate.
  - destruct (getcol Fn c) as [col0|] eqn:E0; [|discriminate].
    destruct (cols_from Fn (S c) n) as [r|] eqn:E1; [|discriminate]. inversion H. subst tbl.
    destruct (IH _ _ E1) as (Hl & Hn). split; [cbn [length]; lia|].
    intros [|k] col Hk; cbn [nth_error] in Hk.
    + inversion Hk. subst. rewrite Nat.add_0_r. exact E0.
    + rewrite <- Nat.add_succ_comm. apply Hn. exact Hk.
Qed.

Theorem cols_of_columns m Fn tbl : cols_of m Fn = Some tbl -> columns_of Fn tbl /\ length tbl = m.
Proof.
  intros H. destruct (cols_from_nth Fn m 0%nat tbl H) as (Hl & Hn). split; [|exact Hl].
  intros c col Hc. apply (Hn c col Hc).
Qed.

Lemma cols_from_total Fn : forall n c, (forall k, (k < n)%nat -> exists col, getcol Fn (c + k) = Some col) ->
  exists tbl, cols_from Fn c n = Some tbl.
Proof.
  induction n as [|n IH]; intros c H; cbn [cols_from]; [eauto|].
  destruct (H 0%nat) as (col0 & E0); [lia|]. rewrite Nat.add_0_r in E0. rewrite E0.
  destruct (IH (S c)) as (r & Er).
  { intros k Hk. destruct (H (S k)) as (col & Ec); [lia|]. exists col. rewrite Nat.add_succ_comm. exact Ec. }
  rewrite Er. eauto.
Qed.

(* a rectangular table has all its columns *)
Theorem cols_of_rect n m Fn : rect n m Fn -> exists tbl, cols_of m Fn = Some tbl.
Proof.
  intros HR. apply cols_from_total. intros k Hk. cbn [Nat.add]. apply (getcol_rect n m Fn k HR Hk).
Qed.

(* payload tables of the shape of the frequency table cover it *)
Theorem pay_covers_rect {P} n m (Fn:tab) (Pay:list (list P)) : rect n m Fn -> rect n m Pay -> pay_covers Fn Pay.
Proof.
  intros (Hn & Hm) HP r c v Hc. unfold cell in Hc.
  destruct (nth_error Fn r) as [row|] eqn:Er; [|discriminate].
  assert (Hr : (r < n)%nat) by (rewrite <- Hn; apply nth_error_Some; rewrite Er; discriminate).
  rewrite Forall_forall in Hm.
  assert (Hcm : (c < m)%nat) by (rewrite <- (Hm row (nth_error_In _ _ Er)); apply nth_error_Some; rewrite Hc; discriminate).
  exact (cell_rect n m Pay r c HP Hr Hcm).
Qed.

(* ------------------------------------------------------------------ the designated cell ----------------------- *)
Lemma pick_ssi_of_cell tbl x y :
  pick_ssi tbl x y = match pick_ssi_cell tbl x y with Some (_, o, f) => Picked (f, o) | None => PickRaises end.
Proof.
  unfold pick_ssi, pick_ssi_cell. destruct (nearest_col (length tbl) y) as [o|]; [|reflexivity].
  destruct (nth_error tbl o) as [col|]; [|reflexivity].
  destruct (nanargmin (row_dists x col)) as [[r d]|]; [|reflexivity].
  destruct (nth_error col r) as [[f|]|]; reflexivity.
Qed.

Lemma pick_ssi_cell_spec tbl x y r o f : pick_ssi_cell tbl x y = Some (r, o, f) ->
  exists col d, nth_error tbl o = Some col /\ is_first_argmin (row_dists x col) r d /\ nth_error col r = Some (Some f).
Proof.
  unfold pick_ssi_cell. destruct (nearest_col (length tbl) y) as [o'|]; [|discriminate].
  destruct (nth_error tbl o') as [col|] eqn:Ec; [|discriminate].
  pose proof (nanargmin_spec (row_dists x col)) as HS.
  destruct (nanargmin (row_dists x col)) as [[r' d]|]; [|discriminate].
  destruct (nth_error col r') as [[g|]|] eqn:Er; try discriminate.
  intros H. inversion H. subst. exists col, d. split; [exact Ec|]. split; [exact HS|exact Er].
Qed.

Lemma pick_ssi_cell_exists tbl x y f o : pick_ssi tbl x y = Picked (f, o) -> exists r, pick_ssi_cell tbl x y = Some (r, o, f).
Proof.
  rewrite pick_ssi_of_cell. destruct (pick_ssi_cell tbl x y) as [[[r o'] f']|]; [|discriminate].
  intros H. inversion H. subst. eauto.
Qed.

Lemma absdist_Qeq x p f : p == f -> absdist x p == absdist x f.
Proof. intros H. unfold absdist. rewrite H. reflexivity. Qed.

(* the first row of a column holding the frequency f IS the row a click that designated f in that column designated *)
Lemma first_row_is_designated col x r d f r1 p :
  is_first_argmin (row_dists x col) r d -> nth_error col r = Some (Some f) ->
  nth_error col r1 = Some (Some p) -> p == f ->
  (forall j q, (j < r1)%nat -> nth_error col j = Some (Some q) -> ~ q == f) -> r1 = r.
Proof.
  intros (Hk & Hmin & Hfst) Hr Hr1 Hpf Hfirst.
  destruct (Nat.lt_trichotomy r1 r) as [H|[H|H]]; [exfalso|exact H|exfalso].
  - assert (H1 : nth_error (row_dists x col) r1 = Some (Some (absdist x p))).
    { unfold row_dists. rewrite nth_error_map, Hr1. reflexivity. }
    assert (H2 : nth_error (row_dists x col) r = Some (Some (absdist x f))).
    { unfold row_dists. rewrite nth_error_map, Hr. reflexivity. }
    rewrite H2 in Hk. inversion Hk. subst d.
    specialize (Hfst r1 _ H H1). rewrite (absdist_Qeq x p f Hpf) in Hfst. exact (Qlt_irrefl _ Hfst).
  - apply (Hfirst r f H Hr). reflexivity.
Qed.

(* ------------------------------------------------------------------ extraction of a list of retained pairs ----- *)
(* what one returned mode has to do with the pair handed over at the same position *)
Definition hand_rel {P} (Fn:tab) (Pay:list (list P)) (tbl:table) (vp:Q*P) (e:entry) : Prop :=
  exists r col, nth_error tbl (snd e) = Some col /\ nth_error col r = Some (Some (fst vp)) /\ fst vp == fst e /\
                cell Fn r (snd e) = Some (Some (fst vp)) /\ cell Pay r (snd e) = Some (snd vp) /\
                (forall j q, (j < r)%nat -> nth_error col j = Some (Some q) -> ~ q == fst e).

Lemma hand_all {P} (Fn:tab) (Pay:list (list P)) (tbl:table) (rtol:Q) :
  0 <= rtol -> columns_of Fn tbl -> pay_covers Fn Pay -> forall l,
  (forall f o, In (f, o) l -> retained_cell tbl f o) ->
  exists sels vals, pick_all Fn rtol (zip_orders (map fst l) (map snd l)) = Ok sels /\
                    gather Fn Pay (somes sels) = Ok vals /\
                    Forall2 (hand_rel Fn Pay tbl) vals l.
Proof.
  intros Hr Hcols Hpay. induction l as [|[f o] rest IH]; intros Hcells.
  - exists [], []. split; [reflexivity|]. split; [reflexivity|constructor].
  - destruct IH as (sels' & vals' & Hps & Hga & HF). { intros f' o' Hin. apply Hcells. right. exact Hin. }
    destruct (Hcells f o (or_introl eq_refl)) as (col & r0 & Ecol & Er0).
    pose proof (Hcols o col Ecol) as Hg.
    cbn [map fst snd zip_orders pick_all]. unfold pick1. rewrite Hg, dists_row_dists.
    pose proof (nanargmin_spec (row_dists f col)) as HS.
    assert (Hr0 : nth_error (row_dists f col) r0 = Some (Some (absdist f f))).
    { unfold row_dists. rewrite nth_error_map, Er0. reflexivity. }
    destruct (nanargmin (row_dists f col)) as [[r d]|].
    + destruct HS as (Hk & Hmin & Hfst).
      destruct (row_dists_nth _ _ _ _ Hk) as (p & Hp & Hd). rewrite Hp.
      assert (Hd0 : d == 0).
      { specialize (Hmin r0 _ Hr0). rewrite absdist_self in Hmin. subst d.
        assert (Hnn := Qabs_nonneg (p - f)). unfold absdist in *. lra. }
      assert (Hpf : p == f).
      { subst d. unfold absdist in Hd0. destruct (Qabs_Qle_condition (p - f) 0) as (Hc & _).
        assert (Hle : Qabs (p - f) <= 0) by lra. specialize (Hc Hle). lra. }
      assert (Hclose : M_mpe.isclose rtol p f = true).
      { apply isclose_spec. assert (E0 : p - f == 0) by lra. rewrite E0.
        assert (Ha := Qabs_nonneg f). assert (Hb := Qmult_le_0_compat _ _ Hr Ha).
        assert (Hc : Qabs 0 == 0) by reflexivity. rewrite Hc. unfold atol. lra. }
      rewrite Hclose, Hps.
      pose proof (getcol_cell Fn o col r (Some p) Hg Hp) as Hcell.
      destruct (Hpay r o (Some p) Hcell) as (pp & Hpp).
      exists (Some (r, o) :: sels'), ((p, pp) :: vals'). split; [reflexivity|].
      split; [cbn [somes gather]; rewrite Hcell, Hpp, Hga; reflexivity|].
      constructor; [|exact HF]. exists r, col. cbn [fst snd].
      split; [exact Ecol|]. split; [exact Hp|]. split; [exact Hpf|]. split; [exact Hcell|]. split; [exact Hpp|].
      intros j q Hj Hq Hqf.
      assert (Hjd : nth_error (row_dists f col) j = Some (Some (absdist f q))).
      { unfold row_dists. rewrite nth_error_map, Hq. reflexivity. }
      specialize (Hfst j _ Hj Hjd). rewrite (absdist_Qeq f q f Hqf), absdist_self, Hd0 in Hfst.
      exact (Qlt_irrefl _ Hfst).
    + exfalso. assert (Hlt : (r0 < length (row_dists f col))%nat) by (apply nth_error_Some; rewrite Hr0; discriminate).
      rewrite (HS r0 Hlt) in Hr0. discriminate.
Qed.

Lemma Forall2_in_r {A B} (R S:A->B->Prop) l1 l2 :
  Forall2 R l1 l2 -> (forall a b, In b l2 -> R a b -> S a b) -> Forall2 S l1 l2.
Proof.
  induction 1 as [|a b l1 l2 H1 H2 IH]; intros HS; constructor.
  - apply HS; [left; reflexivity|exact H1].
  - apply IH. intros a' b' Hin. apply HS. right. exact Hin.
Qed.

(* ------------------------------------------------------------------ the refinement theorem --------------------- *)
Theorem handover_whole_pole {P} (Fn:tab) (Pay:list (list P)) (tbl:table) (rtol:Q) acts st :
  0 <= rtol -> columns_of Fn tbl -> reduced_table tbl -> pay_covers Fn Pay ->
  steps (pick_ssi tbl) init_state acts st ->
  exists vals,
    handover Fn Pay rtol (result st) = Ok (vals, OutList (map snd (sel st))) /\
    Forall2 (own_pole Fn Pay tbl acts) vals (sel st).
Proof.
  intros Hr Hcols Hred Hpay Hst.
  destruct (pick_inv_ssi tbl acts st Hst) as (_ & Hcells & _).
  destruct (pick_inv_gen (pick_ssi tbl) (fun _ => True) (fun _ _ _ _ => I) acts st Hst) as (_ & Hclicks & _).
  destruct (hand_all Fn Pay tbl rtol Hr Hcols Hpay (sel st)) as (sels & vals & Hps & Hga & HF).
  { intros f o Hin. apply (Hcells f o Hin). }
  exists vals. split.
  - unfold handover, mpe_explicit, result. cbn [fst snd requests order_out_explicit]. rewrite Hps, Hga. reflexivity.
  - apply (Forall2_in_r _ _ _ _ HF). intros [p pp] [f o] Hin (r & col & Ecol & Hp & Hpf & Hcell & Hpp & Hfirst).
    cbn [fst snd] in *.
    destruct (Hcells f o Hin) as ((col2 & r2 & Ecol2 & Er2) & _).
    rewrite Ecol in Ecol2. inversion Ecol2. subst col2.
    assert (Hincol : In col tbl) by (eapply nth_error_In; exact Ecol).
    assert (Heq : p = f).
    { rewrite <- (Hred col r p Hincol Hp), <- (Hred col r2 f Hincol Er2). apply Qred_complete. exact Hpf. }
    subst p. unfold own_pole. cbn [fst snd]. split; [reflexivity|]. exists r.
    split; [exact Hcell|]. split; [exact Hpp|]. split.
    + intros j q Hj Hq. apply (Hfirst j q Hj).
      destruct (getcol_nth Fn o col (Hcols o col Ecol)) as (Hlen & Hnth).
      rewrite Hnth; [exact Hq|].
      unfold cell in Hq. destruct (nth_error Fn j) as [row|] eqn:Ej; [|discriminate].
      apply nth_error_Some. rewrite Ej. discriminate.
    + destruct (Hclicks (f, o) Hin) as (_ & x & y & Hxy & Hpick).
      exists x, y. split; [exact Hxy|].
      destruct (pick_ssi_cell_exists tbl x y f o Hpick) as (r' & Hc').
      destruct (pick_ssi_cell_spec tbl x y r' o f Hc') as (col3 & d & Ecol3 & Harg & Er').
      rewrite Ecol in Ecol3. inversion Ecol3. subst col3.
      assert (Hrr : r = r').
      { apply (first_row_is_designated col x r' d f r f Harg Er' Hp); [reflexivity|exact Hfirst]. }
      subst r'. exact Hc'.
Qed.

(* in particular, read on the result alone: order_out is the list of picked orders, the frequencies are the picked
   frequencies, position by position, and nothing is dropped *)
Theorem handover_lists {P} (Fn:tab) (Pay:list (list P)) (tbl:table) (rtol:Q) acts st :
  0 <= rtol -> columns_of Fn tbl -> reduced_table tbl -> pay_covers Fn Pay ->
  steps (pick_ssi tbl) init_state acts st ->
  exists vals, handover Fn Pay rtol (result st) = Ok (vals, OutList (snd (result st))) /\
               map fst vals = fst (result st) /\ length vals = length (sel st).
Proof.
  intros Hr Hcols Hred Hpay Hst.
  destruct (handover_whole_pole Fn Pay tbl rtol acts st Hr Hcols Hred Hpay Hst) as (vals & Hh & HF).
  exists vals. split; [exact Hh|]. unfold result. cbn [fst snd]. split.
  - clear Hh. induction HF as [|vp e vals' l' (H1 & _) _ IH]; cbn [map]; [reflexivity|]. rewrite H1, IH. reflexivity.
  - clear Hh. induction HF as [|vp e vals' l' _ _ IH]; cbn [length]; [reflexivity|]. rewrite IH. reflexivity.
Qed.

(* the whole of mpe_from_plot with the present code's resolution, on a rectangular table *)
Theorem mpe_from_plot_impl_whole_pole {P} n m (Fn:tab) (Pay:list (list P)) (rtol:Q) acts :
  0 <= rtol -> rect n m Fn -> pay_covers Fn Pay ->
  (forall tbl, cols_of m Fn = Some tbl -> reduced_table tbl) ->
  exists tbl vals,
    cols_of m Fn = Some tbl /\
    mpe_from_plot_impl m Fn Pay rtol acts = Ok (vals, OutList (map snd (sel (run_impl (pick_ssi tbl) acts)))) /\
    Forall2 (own_pole Fn Pay tbl acts) vals (sel (run_impl (pick_ssi tbl) acts)).
Proof.
  intros Hr HR Hpay Hred. destruct (cols_of_rect n m Fn HR) as (tbl & Etbl).
  destruct (cols_of_columns m Fn tbl Etbl) as (Hcols & _).
  destruct (handover_whole_pole Fn Pay tbl rtol acts _ Hr Hcols (Hred tbl Etbl) Hpay (run_impl_steps (pick_ssi tbl) acts))
    as (vals & Hh & HF).
  exists tbl, vals. split; [exact Etbl|]. split; [|exact HF].
  unfold mpe_from_plot_impl. rewrite Etbl. exact Hh.
Qed.
