(* C02 - the class MultiSetup_PoSER: grouping by names = selection by position, ref_ind forwarding, statistics of every
   group, the end-to-end class-level statement, and flatten_sns_names in its table / list forms.                    *)
From Coq Require Import List Arith ZArith Lia Bool Ring Field String QArith Qcanon.
From PyOMA.Base Require Import Carrier Cplx.
From PyOMA.Model Require Import M_merge.
From PyOMA.Model Require Import M_poser.
From PyOMA.Proofs Require Import P_merge.
Import ListNotations.

(* ---------- lists ---------- *)
Lemma map_as_seq {A B} (f:A->B) (d:A) l : map f l = map (fun k => f (nth k l d)) (seq 0 (List.length l)).
Proof.
  induction l as [|a l IH]; cbn [List.length seq map nth]; [reflexivity|]. f_equal.
  rewrite <- seq_shift, map_map. exact IH.
Qed.
Lemma list_as_seq {A} (d:A) l : l = map (fun k => nth k l d) (seq 0 (List.length l)).
Proof. rewrite <- (map_as_seq (fun x => x) d l). symmetry. apply map_id. Qed.
Lemma filter_all {A} (f:A->bool) l : (forall x, In x l -> f x = true) -> filter f l = l.
Proof. induction l as [|a l IH]; intros H; cbn [filter]; [reflexivity|]. rewrite (H a (or_introl eq_refl)), IH; [reflexivity|]. intros x Hx. apply H. right. exact Hx. Qed.
Lemma filter_none {A} (f:A->bool) l : (forall x, In x l -> f x = false) -> filter f l = [].
Proof. induction l as [|a l IH]; intros H; cbn [filter]; [reflexivity|]. rewrite (H a (or_introl eq_refl)), IH; [reflexivity|]. intros x Hx. apply H. right. exact Hx. Qed.
Lemma existsb_none {A} (f:A->bool) l : (forall x, In x l -> f x = false) -> existsb f l = false.
Proof. induction l as [|a l IH]; intros H; cbn [existsb]; [reflexivity|]. rewrite (H a (or_introl eq_refl)), IH; [reflexivity|]. intros x Hx. apply H. right. exact Hx. Qed.
Lemma hd_in {A} (d:A) l : l <> [] -> In (hd d l) l.
Proof. destruct l as [|a l]; [congruence|]. intros _. left. reflexivity. Qed.
Lemma list_eqb_length {A} (eqb:A->A->bool) l1 : forall l2, list_eqb eqb l1 l2 = true -> List.length l1 = List.length l2.
Proof.
  induction l1 as [|x t IH]; intros [|y u] H; cbn [list_eqb List.length] in *; try reflexivity; try discriminate.
  apply andb_prop in H. destruct H as [_ H]. f_equal. apply IH. exact H.
Qed.
Lemma list_eqb_str_refl l : list_eqb String.eqb l l = true.
Proof. induction l as [|x t IH]; cbn [list_eqb]; [reflexivity|]. rewrite String.eqb_refl, IH. reflexivity. Qed.

(* ---------- grouping under the names = selection by position ---------- *)
Lemma keys_nodup names : NoDup names -> keys names = names.
Proof.
  induction 1 as [|x t Hx Hnd IH]; cbn [keys]; [reflexivity|]. rewrite IH. f_equal. apply filter_all.
  intros y Hy. apply negb_true_iff, String.eqb_neq. intros E. subst y. contradiction.
Qed.

Lemma pick_group_one {R} (names:list string) : NoDup names -> forall (su:list (alg_res R)) k,
  List.length su = List.length names -> (k < List.length names)%nat ->
  map snd (filter (fun na : string * alg_res R => String.eqb (fst na) (nth k names EmptyString)) (combine names su)) = [nth k su alg_dflt].
Proof.
  induction 1 as [|x t Hx Hnd IH]; intros su k Hl Hk; cbn [List.length] in *; [lia|].
  destruct su as [|a u]; [discriminate|]. cbn [List.length] in Hl. destruct k as [|k]; cbn [nth combine filter fst].
  - rewrite String.eqb_refl. cbn [map snd]. f_equal.
    rewrite filter_none; [reflexivity|]. intros [n b] Hi. cbn [fst]. apply String.eqb_neq. intros E. subst n.
    apply Hx. eapply in_combine_l. exact Hi.
  - assert (E: String.eqb x (nth k t EmptyString) = false).
    { apply String.eqb_neq. intros E. apply Hx. rewrite E. apply nth_In. lia. }
    rewrite E. apply IH; lia.
Qed.

Lemma group_of_nodup {R} names (setups:list (setup R)) k :
  NoDup names -> (forall su, In su setups -> List.length su = List.length names) -> (k < List.length names)%nat ->
  group_of names setups (nth k names EmptyString) = map (fun su : setup R => nth k su alg_dflt) setups.
Proof.
  intros Hnd Hl Hk. unfold group_of. induction setups as [|su r IH]; cbn [map List.concat]; [reflexivity|].
  rewrite (pick_group_one names Hnd su k (Hl su (or_introl eq_refl)) Hk). cbn [app]. f_equal.
  apply IH. intros s Hs. apply Hl. right. exact Hs.
Qed.

(* with distinct names the class merges, for every position k, the k-th algorithm of every setup in setup order, against
   the SAME reference lists (ref_ind goes unchanged to every group), and returns the groups in the order of the names *)
Theorem merge_results_by_position {R} (K:Ops R) names (setups:list (setup R)) refl :
  NoDup names -> (forall su, In su setups -> List.length su = List.length names) ->
  merge_results K names setups refl
  = seq_groups (map (fun k => (nth k names EmptyString, merge_group K (map (fun su : setup R => nth k su alg_dflt) setups) refl))
                    (seq 0 (List.length names))).
Proof.
  intros Hnd Hl. unfold merge_results. rewrite (keys_nodup names Hnd). f_equal.
  rewrite (map_as_seq (fun nm => (nm, merge_group K (group_of names setups nm) refl)) EmptyString names).
  apply map_ext_in. intros k Hk. apply in_seq in Hk. rewrite group_of_nodup by (try assumption; lia). reflexivity.
Qed.

(* a constructed object has at least two setups and every setup has one algorithm per name *)
Lemma poser_init_lengths {R} names (setups:list (setup R)) :
  poser_init names setups = InitOk -> (2 <= List.length setups)%nat /\ forall su, In su setups -> List.length su = List.length names.
Proof.
  unfold poser_init.
  destruct (Nat.leb (List.length setups) 1) eqn:E1; [discriminate|].
  match goal with |- (if ?b then _ else _) = _ -> _ => destruct b eqn:E2; [discriminate|] end.
  match goal with |- (if negb ?b then _ else _) = _ -> _ => destruct b eqn:E3; cbn [negb]; [|discriminate] end.
  match goal with |- (if negb ?b then _ else _) = _ -> _ => destruct b eqn:E4; cbn [negb]; [|discriminate] end.
  intros _. apply Nat.leb_gt in E1. split; [lia|]. intros su Hs.
  rewrite forallb_forall in E3. specialize (E3 su Hs). apply list_eqb_length in E3. rewrite !map_length in E3.
  apply Nat.eqb_eq in E4. lia.
Qed.

Lemma poser_init_ok {R} names (setups:list (setup R)) (cl:list string) :
  (2 <= List.length setups)%nat -> cl <> [] -> List.length names = List.length cl ->
  (forall su, In su setups -> map a_cls su = cl /\ forallb a_run su = true) ->
  poser_init names setups = InitOk.
Proof.
  intros H2 Hcl Hn Hs. unfold poser_init.
  assert (Hne : setups <> []) by (intros E; rewrite E in H2; cbn in H2; lia).
  pose proof (hd_in [] setups Hne) as Hhd.
  replace (Nat.leb (List.length setups) 1) with false by (symmetry; apply Nat.leb_gt; lia).
  rewrite existsb_none.
  2:{ intros su Hi. destruct su as [|a u]; [|reflexivity]. destruct (Hs [] Hi) as [E _]. cbn in E. congruence. }
  replace (forallb (fun su : setup R => list_eqb String.eqb (map a_cls su) (map a_cls (hd [] setups))) setups) with true.
  2:{ symmetry. apply forallb_forall. intros su Hi. rewrite (proj1 (Hs su Hi)), (proj1 (Hs _ Hhd)). apply list_eqb_str_refl. }
  cbn [negb].
  replace (Nat.eqb (List.length names) (List.length (hd [] setups))) with true.
  2:{ symmetry. apply Nat.eqb_eq. rewrite Hn, <- (proj1 (Hs _ Hhd)), map_length. reflexivity. }
  cbn [negb].
  replace (forallb (fun su : setup R => forallb a_run su) setups) with true.
  2:{ symmetry. apply forallb_forall. intros su Hi. apply (Hs su Hi). }
  reflexivity.
Qed.

(* ---------- one group ---------- *)
Definition merged_dflt {R} : merged R := {| m_fn := []; m_fn_cov2 := []; m_xi := []; m_xi_cov2 := []; m_phi := [] |}.

(* exactly when the class returns a record for a group, and what is in it: the merged shape is merge_mode_shapes of the
   group's shapes against ref_ind as given; Fn / Xi and their dispersions are poser_stats of the group's rows        *)
Theorem merge_group_ok_iff {R} (K:Ops R) (algs:list (alg_res R)) refl (m:merged R) :
  merge_group K algs refl = GroupOk m <->
  uniform (map a_fn algs) = true /\ uniform (map a_xi algs) = true /\
  merge_mode_shapes K (map a_phi algs) refl = MergeOk (m_phi m) /\
  m_fn m = map fst (poser_stats K (map a_fn algs)) /\ m_fn_cov2 m = map snd (poser_stats K (map a_fn algs)) /\
  m_xi m = map fst (poser_stats K (map a_xi algs)) /\ m_xi_cov2 m = map snd (poser_stats K (map a_xi algs)).
Proof.
  unfold merge_group. cbv zeta.
  destruct (uniform (map a_fn algs)); cbn [negb]; [|split; [discriminate|intros (H&_); discriminate]].
  destruct (uniform (map a_xi algs)); cbn [negb]; [|split; [discriminate|intros (_&H&_); discriminate]].
  destruct (merge_mode_shapes K (map a_phi algs) refl) as [P| |]; split.
  - intros H. inversion H; subst; cbn. repeat split; reflexivity.
  - intros (_&_&H&H1&H2&H3&H4). inversion H; subst. destruct m; cbn in *; subst. reflexivity.
  - discriminate.
  - intros (_&_&H&_). discriminate.
  - discriminate.
  - intros (_&_&H&_). discriminate.
Qed.

(* the groups are returned in order, all of them, exactly when every one succeeds *)
Lemma seq_groups_all_ok {R A} (f:A->string) (g:A->merged R) l :
  seq_groups (map (fun x => (f x, GroupOk (g x))) l) = PoserOk (map (fun x => (f x, g x)) l).
Proof. induction l as [|a l IH]; cbn [map seq_groups]; [reflexivity|]. rewrite IH. reflexivity. Qed.

Lemma seq_groups_ok_nth {R} (l:list (string * group_res R)) : forall res, seq_groups l = PoserOk res ->
  List.length res = List.length l /\
  forall k, (k < List.length l)%nat ->
    nth k l (EmptyString, GroupValueErr) = (fst (nth k res (EmptyString, merged_dflt)), GroupOk (snd (nth k res (EmptyString, merged_dflt)))).
Proof.
  induction l as [|[nm g] t IH]; intros res H; cbn [seq_groups] in H.
  - inversion H; subst. split; [reflexivity|]. intros k Hk. cbn in Hk. lia.
  - destruct g as [m| |]; try discriminate. destruct (seq_groups t) as [r| |] eqn:Et; try discriminate.
    inversion H; subst. destruct (IH r eq_refl) as [Hlen Hn]. split; [cbn [List.length]; lia|].
    intros [|k] Hk; cbn [nth fst snd]; [reflexivity|]. apply Hn. cbn [List.length] in Hk. lia.
Qed.

(* (1) what a successful call returns, position by position: the k-th entry is labelled names[k]; its shape is
   merge_mode_shapes of the k-th algorithm's shapes of every setup (setup order) against ref_ind as passed to the
   constructor; its Fn / Xi / dispersions are poser_stats over the k-th algorithm's results of every setup       *)
Theorem class_forwarding {R} (K:Ops R) names (setups:list (setup R)) refl res :
  poser_class K names setups refl = ClassRes (PoserOk res) -> NoDup names ->
  (2 <= List.length setups)%nat /\ List.length res = List.length names /\
  forall k, (k < List.length names)%nat ->
    let algs := map (fun su : setup R => nth k su alg_dflt) setups in
    let m := snd (nth k res (EmptyString, merged_dflt)) in
    fst (nth k res (EmptyString, merged_dflt)) = nth k names EmptyString /\
    merge_mode_shapes K (map a_phi algs) refl = MergeOk (m_phi m) /\
    m_fn m = map fst (poser_stats K (map a_fn algs)) /\ m_fn_cov2 m = map snd (poser_stats K (map a_fn algs)) /\
    m_xi m = map fst (poser_stats K (map a_xi algs)) /\ m_xi_cov2 m = map snd (poser_stats K (map a_xi algs)).
Proof.
  unfold poser_class. destruct (poser_init names setups) eqn:Ei; [|discriminate]. intros H Hnd. inversion H as [Hm]. clear H.
  destruct (poser_init_lengths names setups Ei) as [H2 Hl]. split; [exact H2|].
  rewrite (merge_results_by_position K names setups refl Hnd Hl) in Hm.
  apply seq_groups_ok_nth in Hm. destruct Hm as [Hlen Hn]. rewrite map_length, seq_length in Hlen, Hn.
  split; [exact Hlen|]. intros k Hk. cbv zeta. specialize (Hn k Hk).
  rewrite (nth_map_seq (fun k0 => (nth k0 names EmptyString, merge_group K (map (fun su : setup R => nth k0 su alg_dflt) setups) refl))
                       (List.length names) k _ Hk) in Hn.
  injection Hn as Hname Hg. split; [symmetry; exact Hname|].
  apply merge_group_ok_iff in Hg. destruct Hg as (_&_&Hphi&H1&H3&H4&H5).
  repeat split; assumption.
Qed.

(* ---------- statistics of every record the class returns; the end-to-end statement ---------- *)
Section E2E.
Variable R:Type. Variable K:Ops R.
Hypothesis Fth : field_theory (o0 K) (o1 K) (oadd K) (omul K) (osub K) (oopp K) (odiv K) (oinv K) (@eq R).
Notation C := (C R).

(* the clauses of C02_poser_stats for one mode: n setups, col = that mode's values over the setups *)
Definition stats_ok (n:R) (col:list R) (mu c2:R) : Prop :=
  omul K n mu = rsum K col /\
  omul K n (pvar K n col) = rsum K (sqdev R K mu col) /\
  pvar K n col = osub K (odiv K (rsum K (map (fun x => omul K x x) col)) n) (omul K mu mu) /\
  (mu <> o0 K -> omul K c2 (omul K mu mu) = pvar K n col) /\
  (osub K n (o1 K) <> o0 K -> pvar K n col <> o0 K -> svar R K n col <> pvar K n col).

Lemma stats_rows (rows:list (list R)) k :
  (k < List.length (hd [] rows))%nat -> ofnat K (List.length rows) <> o0 K ->
  stats_ok (ofnat K (List.length rows)) (map (fun r => nth k r (o0 K)) rows)
           (nth k (map fst (poser_stats K rows)) (o0 K)) (nth k (map snd (poser_stats K rows)) (o0 K)).
Proof.
  intros Hk Hn. pose proof (poser_stats_spec R K Fth rows k) as H. cbv zeta in H. specialize (H Hk Hn).
  unfold stats_ok.
  replace (nth k (map fst (poser_stats K rows)) (o0 K)) with (fst (nth k (poser_stats K rows) (o0 K, o0 K)))
    by (symmetry; exact (map_nth fst (poser_stats K rows) (o0 K, o0 K) k)).
  replace (nth k (map snd (poser_stats K rows)) (o0 K)) with (snd (nth k (poser_stats K rows) (o0 K, o0 K)))
    by (symmetry; exact (map_nth snd (poser_stats K rows) (o0 K, o0 K) k)).
  exact H.
Qed.

(* whatever the inputs: every record the class returns for a group carries, mode by mode, the arithmetic mean over the
   group's setups and (population variance) / mean^2                                                              *)
Theorem merged_stats (algs:list (alg_res R)) refl (m:merged R) (k:nat) :
  merge_group K algs refl = GroupOk m -> ofnat K (List.length algs) <> o0 K ->
  ((k < List.length (hd [] (map a_fn algs)))%nat ->
     stats_ok (ofnat K (List.length algs)) (map (fun a : alg_res R => nth k (a_fn a) (o0 K)) algs) (nth k (m_fn m) (o0 K)) (nth k (m_fn_cov2 m) (o0 K))) /\
  ((k < List.length (hd [] (map a_xi algs)))%nat ->
     stats_ok (ofnat K (List.length algs)) (map (fun a : alg_res R => nth k (a_xi a) (o0 K)) algs) (nth k (m_xi m) (o0 K)) (nth k (m_xi_cov2 m) (o0 K))).
Proof.
  intros Hg Hn. apply merge_group_ok_iff in Hg. destruct Hg as (_&_&_&H1&H2&H3&H4). rewrite H1, H2, H3, H4. split; intros Hk.
  - pose proof (stats_rows (map a_fn algs) k Hk) as H. rewrite map_length, map_map in H. apply H. exact Hn.
  - pose proof (stats_rows (map a_xi algs) k Hk) as H. rewrite map_length, map_map in H. apply H. exact Hn.
Qed.

(* --- the property's hypothesis for a whole PoSER object ---
   layout: (sensors, reference positions) per setup, shared by all algorithms; algorithm a has its own global table, mode
   count, non-zero factor per setup and mode, and Fn / Xi rows per setup                                         *)
Record alg_spec := { sp_cls : string; sp_G : nat -> nat -> C; sp_nm : nat; sp_cf : nat -> nat -> R; sp_fn : nat -> list R; sp_xi : nat -> list R }.
Definition alg_of (lay:list (list nat * list nat)) (a:alg_spec) (i:nat) : alg_res R :=
  {| a_cls := sp_cls a; a_run := true; a_fn := sp_fn a i; a_xi := sp_xi a i;
     a_phi := obs_mat R K (sp_G a) (sp_cf a i) (sp_nm a) (fst (nth i lay ([],[]))) |}.
Definition setups_of (lay:list (list nat * list nat)) (spec:nat -> alg_spec) (nalg:nat) : list (setup R) :=
  map (fun i => map (fun a => alg_of lay (spec a) i) (seq 0 nalg)) (seq 0 (List.length lay)).
Definition merged_of (s0 rf0:list nat) (rest:list (list nat * list nat)) (a:alg_spec) : merged R :=
  let n := S (List.length rest) in
  let order := merged_order s0 rf0 rest in
  {| m_fn := map fst (poser_stats K (map (sp_fn a) (seq 0 n))); m_fn_cov2 := map snd (poser_stats K (map (sp_fn a) (seq 0 n)));
     m_xi := map fst (poser_stats K (map (sp_xi a) (seq 0 n))); m_xi_cov2 := map snd (poser_stats K (map (sp_xi a) (seq 0 n)));
     m_phi := tab2 (List.length order) (sp_nm a) (fun r k => cscal K (sp_cf a 0%nat k) (sp_G a (nth r order 0%nat) k)) |}.

(* the statistics inside merged_of, mode by mode: means over the setups, population variance / mean^2 *)
Theorem merged_of_stats s0 rf0 rest (a:alg_spec) (k:nat) :
  let n := S (List.length rest) in
  ofnat K n <> o0 K ->
  ((k < List.length (sp_fn a 0%nat))%nat ->
     stats_ok (ofnat K n) (map (fun i => nth k (sp_fn a i) (o0 K)) (seq 0 n))
              (nth k (m_fn (merged_of s0 rf0 rest a)) (o0 K)) (nth k (m_fn_cov2 (merged_of s0 rf0 rest a)) (o0 K))) /\
  ((k < List.length (sp_xi a 0%nat))%nat ->
     stats_ok (ofnat K n) (map (fun i => nth k (sp_xi a i) (o0 K)) (seq 0 n))
              (nth k (m_xi (merged_of s0 rf0 rest a)) (o0 K)) (nth k (m_xi_cov2 (merged_of s0 rf0 rest a)) (o0 K))).
Proof.
  intros n Hn. split; intros Hk.
  - pose proof (stats_rows (map (sp_fn a) (seq 0 n)) k) as H. rewrite map_length, seq_length, map_map in H. apply H; [exact Hk|exact Hn].
  - pose proof (stats_rows (map (sp_xi a) (seq 0 n)) k) as H. rewrite map_length, seq_length, map_map in H. apply H; [exact Hk|exact Hn].
Qed.

Lemma uniform_ok (f:nat -> list R) n : (forall i, (i < n)%nat -> List.length (f i) = List.length (f 0%nat)) -> uniform (map f (seq 0 n)) = true.
Proof.
  intros H. unfold uniform. apply forallb_forall. intros r Hr. apply in_map_iff in Hr. destruct Hr as (i & <- & Hi). apply in_seq in Hi.
  apply Nat.eqb_eq. destruct n as [|n]; [lia|]. cbn [seq map hd]. apply H. lia.
Qed.

Section One.
Variables s0 rf0 : list nat.
Variable rest : list (list nat * list nat).
Let lay := (s0,rf0)::rest.
Hypothesis Hne : rf0 <> [].
Hypothesis Hnd0 : NoDup rf0.
Hypothesis Hin0 : forall i, In i rf0 -> (i < List.length s0)%nat.
Hypothesis Hrest : forall s rf, In (s,rf) rest -> pick 0%nat s rf = pick 0%nat s0 rf0 /\ NoDup rf /\ forall i, In i rf -> (i < List.length s)%nat.
Variable a : alg_spec.
Hypothesis Hrows : forall i, (i < List.length lay)%nat ->
  List.length (sp_fn a i) = List.length (sp_fn a 0%nat) /\ List.length (sp_xi a i) = List.length (sp_xi a 0%nat).
Hypothesis Hmodes : forall k, (k < sp_nm a)%nat ->
  (forall i, (i < List.length lay)%nat -> sp_cf a i k <> o0 K) /\
  cnorm2 K (cdotl K (map (fun s => sp_G a s k) (pick 0%nat s0 rf0)) (map (fun s => sp_G a s k) (pick 0%nat s0 rf0))) <> o0 K.

Lemma merge_group_spec :
  merge_group K (map (alg_of lay a) (seq 0 (List.length lay))) (map snd lay) = GroupOk (merged_of s0 rf0 rest a).
Proof.
  apply merge_group_ok_iff. rewrite !map_map. cbn [alg_of a_fn a_xi a_phi].
  split; [apply (uniform_ok (sp_fn a)); intros i Hi; apply (Hrows i Hi)|].
  split; [apply (uniform_ok (sp_xi a)); intros i Hi; apply (Hrows i Hi)|].
  split; [|repeat split; reflexivity].
  set (d := (@nil nat, @nil nat)).
  set (others := map (fun i => (sp_cf a (S i), fst (nth i rest d), snd (nth i rest d))) (seq 0 (List.length rest)) : list (setup_spec R)).
  assert (EM : map (fun i => obs_mat R K (sp_G a) (sp_cf a i) (sp_nm a) (fst (nth i lay d))) (seq 0 (List.length lay))
               = obs_mat R K (sp_G a) (sp_cf a 0%nat) (sp_nm a) s0
                 :: map (fun t : setup_spec R => obs_mat R K (sp_G a) (fst (fst t)) (sp_nm a) (snd (fst t))) others).
  { unfold lay, others. cbn [List.length seq map nth fst]. f_equal. rewrite <- seq_shift, !map_map. reflexivity. }
  assert (ER : map snd lay = rf0 :: map (fun t : setup_spec R => snd t) others).
  { unfold lay, others. cbn [map snd]. f_equal. rewrite map_map. cbn [snd]. apply (map_as_seq snd d rest). }
  fold d. rewrite EM, ER.
  rewrite (merge_mode_shapes_spec R K Fth (sp_G a) (sp_nm a) (sp_cf a 0%nat) s0 rf0 others Hne Hnd0 Hin0).
  - cbn [merged_of m_phi]. rewrite order_of_merged_order.
    replace (map (fun t : setup_spec R => (snd (fst t), snd t)) others) with rest; [reflexivity|].
    unfold others. rewrite map_map. cbn [fst snd]. rewrite (list_as_seq d rest) at 1. apply map_ext. intros i. destruct (nth i rest d); reflexivity.
  - intros cf s rf Hi. unfold others in Hi. apply in_map_iff in Hi. destruct Hi as (i & E & Hi). apply in_seq in Hi.
    injection E as _ Es Er. apply Hrest. rewrite <- Es, <- Er. rewrite <- surjective_pairing. apply nth_In. lia.
  - intros k Hk. destruct (Hmodes k Hk) as [Hc Hg]. split; [apply Hc; unfold lay; cbn [List.length]; lia|]. split; [|exact Hg].
    intros cf s rf Hi. unfold others in Hi. apply in_map_iff in Hi. destruct Hi as (i & E & Hi). apply in_seq in Hi.
    injection E as Ec _ _. rewrite <- Ec. apply Hc. unfold lay. cbn [List.length]. lia.
Qed.
End One.

(* (2) end to end at the level of the class: at least two setups, at least one algorithm, distinct names; every setup's
   shapes of every algorithm are the restriction of that algorithm's global table to the setup's sensors times a non-zero
   factor per setup and mode.  Then the constructor accepts the setups and merge_results() returns, for EVERY algorithm,
   under its name and in the order of the names: the global shape in the first setup's scale in the stated row order,
   and the Fn / Xi statistics of that algorithm's rows                                                            *)
Theorem poser_class_recovers_global (names:list string) (spec:nat -> alg_spec) (nalg:nat) (s0 rf0:list nat) (rest:list (list nat * list nat)) :
  let lay := (s0,rf0)::rest in
  rest <> [] -> nalg <> 0%nat -> NoDup names -> List.length names = nalg ->
  rf0 <> [] -> NoDup rf0 -> (forall i, In i rf0 -> (i < List.length s0)%nat) ->
  (forall s rf, In (s,rf) rest -> pick 0%nat s rf = pick 0%nat s0 rf0 /\ NoDup rf /\ forall i, In i rf -> (i < List.length s)%nat) ->
  (forall a, (a < nalg)%nat ->
     (forall i, (i < List.length lay)%nat ->
        List.length (sp_fn (spec a) i) = List.length (sp_fn (spec a) 0%nat) /\ List.length (sp_xi (spec a) i) = List.length (sp_xi (spec a) 0%nat)) /\
     (forall k, (k < sp_nm (spec a))%nat ->
        (forall i, (i < List.length lay)%nat -> sp_cf (spec a) i k <> o0 K) /\
        cnorm2 K (cdotl K (map (fun s => sp_G (spec a) s k) (pick 0%nat s0 rf0)) (map (fun s => sp_G (spec a) s k) (pick 0%nat s0 rf0))) <> o0 K)) ->
  poser_class K names (setups_of lay spec nalg) (map snd lay)
  = ClassRes (PoserOk (map (fun a => (nth a names EmptyString, merged_of s0 rf0 rest (spec a))) (seq 0 nalg))).
Proof.
  intros lay Hrest0 Hnalg Hnd Hlen Hne Hnd0 Hin0 Hrest Hspec.
  assert (Hsu : forall su, In su (setups_of lay spec nalg) -> exists i, su = map (fun a => alg_of lay (spec a) i) (seq 0 nalg)).
  { intros su Hi. unfold setups_of in Hi. apply in_map_iff in Hi. destruct Hi as (i & <- & _). exists i. reflexivity. }
  unfold poser_class.
  rewrite (poser_init_ok names (setups_of lay spec nalg) (map (fun a => sp_cls (spec a)) (seq 0 nalg))).
  - f_equal. rewrite merge_results_by_position; [|exact Hnd|].
    2:{ intros su Hi. destruct (Hsu su Hi) as [i ->]. rewrite map_length, seq_length. symmetry. exact Hlen. }
    rewrite Hlen. rewrite <- (seq_groups_all_ok (fun a => nth a names EmptyString) (fun a => merged_of s0 rf0 rest (spec a))).
    f_equal. apply map_ext_in. intros a Ha. apply in_seq in Ha. f_equal.
    replace (map (fun su : setup R => nth a su alg_dflt) (setups_of lay spec nalg)) with (map (alg_of lay (spec a)) (seq 0 (List.length lay))).
    + destruct (Hspec a ltac:(lia)) as [Hr Hm]. apply (merge_group_spec s0 rf0 rest Hne Hnd0 Hin0 Hrest (spec a) Hr Hm).
    + unfold setups_of. rewrite map_map. apply map_ext. intros i.
      symmetry. apply (nth_map_seq (fun a0 => alg_of lay (spec a0) i) nalg a alg_dflt). lia.
  - unfold setups_of. rewrite map_length, seq_length. unfold lay. destruct rest; [congruence|]. cbn [List.length]. lia.
  - destruct nalg; [congruence|]. cbn [seq map]. discriminate.
  - rewrite map_length, seq_length. exact Hlen.
  - intros su Hi. destruct (Hsu su Hi) as [i ->]. rewrite map_map. cbn [alg_of a_cls]. split; [reflexivity|].
    apply forallb_forall. intros x Hx. apply in_map_iff in Hx. destruct Hx as (a0 & <- & _). reflexivity.
Qed.
End E2E.

(* ---------- flatten_sns_names: table and list forms ---------- *)
Definition pad_row (w:nat) (row:list string) : list (option string) := (map Some row ++ repeat None (w - List.length row))%list.

Lemma not_nan_pad w row : not_nan (pad_row w row) = row.
Proof.
  unfold pad_row, not_nan. rewrite flat_map_app.
  replace (flat_map (fun o : option string => match o with Some x => [x] | None => [] end) (repeat None (w - List.length row))) with (@nil string).
  - rewrite app_nil_r. induction row as [|x t IH]; cbn [map flat_map app]; [reflexivity|]. rewrite IH. reflexivity.
  - induction (w - List.length row)%nat as [|n IH]; cbn [repeat flat_map app]; [reflexivity|exact IH].
Qed.

Lemma flat_rows_eq names : forall rl, List.length names = List.length rl ->
  flat_rows names rl = Some (List.concat (map (fun nr : list string * list nat => drop_at (fst nr) (snd nr) 0) (combine names rl))).
Proof.
  induction names as [|row t IH]; intros [|r rl] Hl; cbn [List.length] in Hl; try discriminate; [reflexivity|].
  cbn [flat_rows combine map List.concat fst snd tl]. destruct row as [|x row'].
  - rewrite IH by lia. reflexivity.
  - rewrite IH by lia. reflexivity.
Qed.

(* on its domain (one reference list per row) the general model is the list-of-lists model of M_merge.v *)
Theorem flatten_lists_multi names rl : rl <> [] -> List.length names = List.length rl ->
  flatten_lists names (Some rl) = match flatten_multi names (Some rl) with FlatOk l => FlatG (map Some l) | FlatAttrErr => FlatGAttrErr end.
Proof.
  intros Hne Hl. unfold flatten_lists, flatten_multi. destruct rl as [|r0 rl]; [congruence|].
  rewrite (flat_rows_eq names (r0::rl) Hl). reflexivity.
Qed.

(* a table with two rows or more is read as the list of its rows with the NaN cells removed; a one-row table is a
   single-setup geometry and is returned as it stands                                                            *)
Theorem flatten_table_as_lists rows refl : (2 <= List.length rows)%nat ->
  flatten_gen (NTable rows) refl = flatten_gen (NLists (map not_nan rows)) refl.
Proof. destruct rows as [|r1 [|r2 rows]]; cbn [List.length]; intros H; try lia. reflexivity. Qed.
Theorem flatten_table_one_row row refl : flatten_gen (NTable [row]) refl = FlatG row.
Proof. reflexivity. Qed.

(* (3) both multi-setup argument forms (list of lists; table padded with NaN to any common width w) give the names in the
   order of the merged rows - the very list of C02_flatten_matches_merge / C02_names_follow_rows                  *)
Theorem flatten_forms_match_merge (nm:nat -> string) (w:nat) (s0 rf0:list nat) (others:list (list nat * list nat)) :
  let lay := (s0,rf0)::others in
  let names := (ref_names (List.length rf0) ++
                map nm (drop_at s0 rf0 0%nat ++ List.concat (map (fun sr : list nat * list nat => drop_at (fst sr) (snd sr) 0%nat) others)))%list in
  flatten_gen (NLists (map (fun sr : list nat * list nat => map nm (fst sr)) lay)) (Some (map snd lay)) = FlatG (map Some names) /\
  (others <> [] ->
   flatten_gen (NTable (map (fun sr : list nat * list nat => pad_row w (map nm (fst sr))) lay)) (Some (map snd lay)) = FlatG (map Some names)).
Proof.
  intros lay names.
  assert (HL : flatten_gen (NLists (map (fun sr : list nat * list nat => map nm (fst sr)) lay)) (Some (map snd lay)) = FlatG (map Some names)).
  { cbn [flatten_gen]. rewrite flatten_lists_multi.
    - unfold lay. rewrite (flatten_matches_merge nm s0 rf0 others). reflexivity.
    - unfold lay. cbn [map]. discriminate.
    - rewrite !map_length. reflexivity. }
  split; [exact HL|]. intros Hne. rewrite flatten_table_as_lists.
  - rewrite map_map. rewrite <- HL. f_equal. f_equal. apply map_ext. intros sr. apply not_nan_pad.
  - rewrite map_length. unfold lay. destruct others; [congruence|]. cbn [List.length]. lia.
Qed.

(* ---------- distinct names are needed for "by position" ---------- *)
Definition dup_setups : list (setup Qc) :=
  let al (c:string) (f:Qc) (p:list (list (Qc*Qc))) := {| a_cls := c; a_run := true; a_fn := [f]; a_xi := [Q2Qc (1#100)]; a_phi := p |} in
  let z (n:Z) := (Q2Qc (n#1), Q2Qc 0) in
  [[al "A"%string (Q2Qc 1) [[z 1%Z]; [z 2%Z]]; al "B"%string (Q2Qc 2) [[z 1%Z]; [z 3%Z]]];
   [al "A"%string (Q2Qc 3) [[z 2%Z]; [z 5%Z]]; al "B"%string (Q2Qc 4) [[z 2%Z]; [z 7%Z]]]].
Lemma dup_names_refuted : exists (names:list string) (setups:list (setup Qc)) (refl:list (list nat)),
  poser_init names setups = InitOk /\ (forall su, In su setups -> List.length su = List.length names) /\
  merge_results QcOps names setups refl = PoserIndexErr /\
  exists res, seq_groups (map (fun k => (nth k names EmptyString, merge_group QcOps (map (fun su : setup Qc => nth k su alg_dflt) setups) refl))
                              (seq 0 (List.length names))) = PoserOk res.
Proof.
  exists ["a";"a"]%string, dup_setups, [[0];[0]]%nat. split; [vm_compute; reflexivity|]. split.
  - intros su [<-|[<-|[]]]; reflexivity.
  - split; [vm_compute; reflexivity|]. eexists. vm_compute. reflexivity.
Qed.
