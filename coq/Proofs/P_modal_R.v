(* C01 - the transcendental part of ssi.ac2mp at the real numbers: discrete pole -> (fn, xi).
   The complex logarithm is an argument whose specification (principal branch) is a hypothesis; sqrt, exp, cos, sin, PI
   are the standard library's.  Depends only on the standard library's real-number axioms. *)
From Coq Require Import Reals Lra Lia Psatz.
From PyOMA.Base Require Import Carrier Cplx.
From PyOMA.Model Require Import M_modal.
Open Scope R_scope.

Definition ROps_c01 : Ops R :=
  {| o0:=0; o1:=1; oadd:=Rplus; omul:=Rmult; osub:=Rminus; oopp:=Ropp; odiv:=Rdiv; oinv:=Rinv |}.

(* principal branch of the complex logarithm *)
Definition clog_spec (clog:R*R -> R*R) : Prop :=
  forall rho theta, 0 < rho -> - PI < theta <= PI -> clog (rho * cos theta, rho * sin theta) = (ln rho, theta).

Lemma modal_pole_mod xi w : 0 < w -> 0 <= xi < 1 ->
  sqrt ((- xi * w) * (- xi * w) + (w * sqrt (1 - xi * xi)) * (w * sqrt (1 - xi * xi))) = w.
Proof.
  intros Hw Hxi.
  assert (H1: 0 <= 1 - xi * xi) by nra.
  replace ((- xi * w) * (- xi * w) + (w * sqrt (1 - xi * xi)) * (w * sqrt (1 - xi * xi)))
    with (w * w * (xi * xi + sqrt (1 - xi * xi) * sqrt (1 - xi * xi))) by ring.
  rewrite sqrt_sqrt by exact H1.
  replace (w * w * (xi * xi + (1 - xi * xi))) with (w * w) by ring.
  apply sqrt_square. lra.
Qed.

(* a discrete-time pole exp((a + i b) dt) below the Nyquist frequency maps back to the continuous pole (a, b) *)
Theorem ac2mp_exact (clog:R*R -> R*R) (a b dt:R) :
  clog_spec clog -> 0 < dt -> - PI < b * dt <= PI ->
  ac2mp_fn_xi ROps_c01 clog sqrt (2 * PI) dt (exp (a * dt) * cos (b * dt), exp (a * dt) * sin (b * dt))
  = (sqrt (a * a + b * b) / (2 * PI), - a / sqrt (a * a + b * b)).
Proof.
  intros Hlog Hdt Hb. unfold ac2mp_fn_xi.
  rewrite (Hlog (exp (a * dt)) (b * dt) (exp_pos _) Hb). rewrite ln_exp.
  unfold cscal, cnorm2, cre, cim. cbn [fst snd ROps_c01 o1 omul oadd odiv oopp].
  replace (1 / dt * (a * dt)) with a by (field; lra).
  replace (1 / dt * (b * dt)) with b by (field; lra).
  reflexivity.
Qed.

(* with a = - xi w, b = w sqrt(1 - xi^2) (underdamped mode): fn = w / 2 pi and xi = xi, exactly *)
Theorem ac2mp_modal (clog:R*R -> R*R) (w xi dt:R) :
  clog_spec clog -> 0 < dt -> 0 < w -> 0 <= xi < 1 -> w * sqrt (1 - xi * xi) * dt < PI ->
  let a := - xi * w in let b := w * sqrt (1 - xi * xi) in
  ac2mp_fn_xi ROps_c01 clog sqrt (2 * PI) dt (exp (a * dt) * cos (b * dt), exp (a * dt) * sin (b * dt))
  = (w / (2 * PI), xi).
Proof.
  intros Hlog Hdt Hw Hxi Hny a b.
  assert (Hs: 0 <= sqrt (1 - xi * xi)) by apply sqrt_pos.
  assert (Hb0: 0 <= b * dt) by (unfold b; apply Rmult_le_pos; [apply Rmult_le_pos; lra|lra]).
  assert (Hp := PI_RGT_0).
  rewrite (ac2mp_exact clog a b dt Hlog Hdt) by (split; [lra| unfold b; lra]).
  unfold a, b. rewrite (modal_pole_mod xi w Hw Hxi). f_equal. field. lra.
Qed.

(* the order on R used for the argmax satisfies the three laws the unity-normalisation theorems ask for *)
Definition Rleb (x y:R) : bool := if Rle_dec x y then true else false.
Lemma Rleb_trans a b c : Rleb a b = true -> Rleb b c = true -> Rleb a c = true.
Proof. unfold Rleb. destruct (Rle_dec a b), (Rle_dec b c), (Rle_dec a c); try reflexivity; try discriminate; lra. Qed.
Lemma Rleb_total a b : Rleb a b = false -> Rleb b a = true.
Proof. unfold Rleb. destruct (Rle_dec a b), (Rle_dec b a); try reflexivity; try discriminate; lra. Qed.
Lemma Rleb_scale s a b : 0 < s -> Rleb (s * a) (s * b) = Rleb a b.
Proof. intros Hs. unfold Rleb. destruct (Rle_dec (s * a) (s * b)), (Rle_dec a b); try reflexivity; exfalso; nra. Qed.

(* ---------- composition at the real numbers: one underdamped mode of the true system through the whole chain ---------- *)
From Coq Require Import RealField List.
From PyOMA.Base Require Import FMat.
From PyOMA.Model Require Import M_realise.
From PyOMA.Proofs Require Import P_realise P_modal.

Lemma ROps_field : field_theory (o0 ROps_c01) (o1 ROps_c01) (oadd ROps_c01) (omul ROps_c01) (osub ROps_c01) (oopp ROps_c01)
                                (odiv ROps_c01) (oinv ROps_c01) (@eq R).
Proof. exact Rfield. Qed.
Lemma ROps_ring : ring_theory (o0 ROps_c01) (o1 ROps_c01) (oadd ROps_c01) (omul ROps_c01) (osub ROps_c01) (oopp ROps_c01) (@eq R).
Proof. exact (F_R ROps_field). Qed.

Lemma Rleb_scale_cnorm2 (c:C R) : cnorm2 ROps_c01 c <> 0 ->
  forall a b, Rleb (omul ROps_c01 (cnorm2 ROps_c01 c) a) (omul ROps_c01 (cnorm2 ROps_c01 c) b) = Rleb a b.
Proof.
  destruct c as [cr ci]. unfold cnorm2, cre, cim. cbn [fst snd ROps_c01 omul oadd]. intros Hc a b.
  apply Rleb_scale. assert (0 <= cr * cr + ci * ci) by nra. lra.
Qed.

(* If (A_hat, C_hat) is related to the true (A, C) as the realisation theorems state, then for a true underdamped mode
   (frequency w rad/s below Nyquist, damping xi, shape C phi, simple pole): its discrete pole is a pole of A_hat; EVERY
   eigenvector the eigen-solver may return for it gives, after unity normalisation, exactly the unity-normalised true
   shape; the pole maps to fn = w / 2 pi and xi exactly; and A_hat has no pole that A does not have. *)
Theorem C01_mode_recovery l n (A Cm Ah Ch T Ti:fmat R) (clog:R*R -> R*R) (w xi dt:R) (phi:fmat (C R)) :
  similar_pair R ROps_c01 l n A Cm Ah Ch T Ti ->
  clog_spec clog -> 0 < dt -> 0 < w -> 0 <= xi < 1 -> w * sqrt (1 - xi * xi) * dt < PI ->
  let a := - xi * w in let b := w * sqrt (1 - xi * xi) in
  let lam := (exp (a * dt) * cos (b * dt), exp (a * dt) * sin (b * dt)) in
  eigpair (C R) (COps ROps_c01) n (cemb R ROps_c01 A) lam phi ->
  (forall v, eigpair (C R) (COps ROps_c01) n (cemb R ROps_c01 A) lam v ->
     exists c, cnorm2 ROps_c01 c <> 0 /\ feq n 1 v (fscal (COps ROps_c01) c phi)) ->
  let s := col_list R l (fmul (COps ROps_c01) n (cemb R ROps_c01 Cm) phi) in
  cnorm2 ROps_c01 (nth (amax_idx ROps_c01 Rleb s) s (c0 ROps_c01)) <> 0 ->
  (exists psi, eigpair (C R) (COps ROps_c01) n (cemb R ROps_c01 Ah) lam psi) /\
  (forall psi, eigpair (C R) (COps ROps_c01) n (cemb R ROps_c01 Ah) lam psi ->
     unity_norm ROps_c01 Rleb (col_list R l (fmul (COps ROps_c01) n (cemb R ROps_c01 Ch) psi)) = unity_norm ROps_c01 Rleb s) /\
  ac2mp_fn_xi ROps_c01 clog sqrt (2 * PI) dt lam = (w / (2 * PI), xi) /\
  (forall lam' psi, eigpair (C R) (COps ROps_c01) n (cemb R ROps_c01 Ah) lam' psi ->
     exists v, eigpair (C R) (COps ROps_c01) n (cemb R ROps_c01 A) lam' v).
Proof.
  intros Hs Hlog Hdt Hw Hxi Hny a b lam Hphi Hsimple s Hobs.
  destruct (eigpair_transport R ROps_c01 ROps_ring l n A Cm Ah Ch T Ti lam Hs) as [Hf [_ _]].
  split; [|split; [|split]].
  - exists (fmul (COps ROps_c01) n (cemb R ROps_c01 Ti) phi). apply (Hf phi Hphi).
  - intros psi Hpsi.
    apply (shape_recovery R ROps_c01 ROps_field Rleb l n A Cm Ah Ch T Ti lam phi psi Hs Hsimple Rleb_scale_cnorm2 Hpsi Hobs).
  - apply (ac2mp_modal clog w xi dt Hlog Hdt Hw Hxi Hny).
  - intros lam' psi Hpsi.
    destruct (eigpair_transport R ROps_c01 ROps_ring l n A Cm Ah Ch T Ti lam' Hs) as [_ [Hb _]].
    exists (fmul (COps ROps_c01) n (cemb R ROps_c01 T) psi). apply (Hb psi Hpsi).
Qed.
