(* C01 - the modal-basis witness of C01_multiplicity / C01_no_spurious_pole discharged by dimension theory (Base/Dim.v).
   Carrier: a formally real FIELD with decidable equality (Qc; classically the reals), complexified by Base/Cplx.v.
   From  similar_pair,  a duplicate-free list [lams] of n = order complex numbers each of which has SOME eigenvector of the
   true A,  Dim.modal_basis_list  builds A Phi = Phi diag(lam), Phi two-sided invertible, tab n lam = lams.  Hence
     full_spectrum          : A_hat has no eigenvalue outside lams (C01_full_statement, generic carrier);
     eigvec_simple          : the eigenspace of a simple eigenvalue of a diagonalised matrix is the line of its modal column;
     pole_multiplicity_dim  : whatever full eigen-decomposition (V, d), W V = I the solver returns for A_hat, [d_0 .. d_{n-1}] is a
                              Permutation of lams, duplicate free, there is an explicit bijection onto the positions of lams,
                              column k of C_hat V is a non-zero multiple of C phi for EVERY eigenvector phi of the true A at the
                              pole d_k, and if lams is m conjugate pairs then order n = 2m holds exactly these pairs. *)
From Coq Require Import List Arith Lia Ring Field Setoid Morphisms Permutation.
From PyOMA.Base Require Import Carrier FMat Cplx EigCount Dim.
From PyOMA.Model Require Import M_realise.
From PyOMA.Proofs Require Import P_realise P_eigcount_c01.
Import ListNotations.

Lemma nth_tab_c01 {X:Type} (dflt:X) n (f:nat -> X) k : (k < n)%nat -> nth k (tab n f) dflt = f k.
Proof.
  intros Hk. unfold tab. rewrite (nth_indep _ dflt (f 0%nat)) by (rewrite map_length, seq_length; exact Hk).
  rewrite map_nth. rewrite seq_nth by exact Hk. reflexivity.
Qed.

(* ---------- a simple eigenvalue of a diagonalised matrix has a one-dimensional eigenspace ---------- *)
Section Simple.
Variable R:Type. Variable K:Ops R.
Hypothesis Rth : ring_theory (o0 K) (o1 K) (oadd K) (omul K) (osub K) (oopp K) (@eq R).
Hypothesis Hint : forall a b:R, omul K a b = o0 K -> a = o0 K \/ b = o0 K.
Add Ring RrSimpleC01 : Rth.
Local Open Scope K_scope.
Notation "0" := (o0 K) : K_scope. Notation "1" := (o1 K) : K_scope.
Infix "+" := (oadd K) : K_scope. Infix "*" := (omul K) : K_scope. Infix "-" := (osub K) : K_scope.
Notation fm := (fmul K). Notation fI := (fid K).
Let assoc := fmul_assoc R K Rth.
Let idl := fmul_id_l R K Rth.

Theorem eigvec_simple n (A Phi Phii:fmat R) (lam:nat -> R) :
  feq n n (fm n A Phi) (fm n Phi (ediag K lam)) -> feq n n (fm n Phi Phii) fI -> feq n n (fm n Phii Phi) fI ->
  forall i0, (i0 < n)%nat -> (forall j, (j < n)%nat -> j <> i0 -> lam j <> lam i0) ->
  forall v:fmat R, feq n 1 (fm n A v) (fscal K (lam i0) v) -> ~ feq n 1 v (fzero K) ->
  exists y:R, y <> 0 /\ forall a, (a < n)%nat -> v a 0%nat = Phi a i0 * y.
Proof.
  intros HPhi HPr HPl i0 Hi0 Hs v He Hnz. set (u := fm n Phii v).
  assert (Hu: feq n 1 (fm n (ediag K lam) u) (fscal K (lam i0) u)).
  { unfold u. rewrite <- (assoc n n n 1%nat (ediag K lam) Phii v).
    rewrite <- (Phii_A R K Rth n A Phi Phii lam HPhi HPr HPl).
    rewrite (assoc n n n 1%nat Phii A v). rewrite He. apply (fmul_scal_r R K Rth n n 1%nat). }
  assert (Hv: feq n 1 (fm n Phi u) v).
  { unfold u. rewrite <- (assoc n n n 1%nat Phi Phii v). rewrite HPr. apply idl. }
  assert (Hz: forall j, (j < n)%nat -> j <> i0 -> u j 0%nat = 0).
  { intros j Hj Hne. pose proof (Hu j 0%nat Hj Nat.lt_0_1) as E.
    rewrite (fmul_ediag_l R K Rth n lam u j 0%nat Hj) in E. unfold fscal in E.
    assert (E': (lam j - lam i0) * u j 0%nat = 0).
    { transitivity (lam j * u j 0%nat - lam i0 * u j 0%nat); [ring|]. rewrite E. ring. }
    destruct (Hint _ _ E') as [E0|E0]; [exfalso|exact E0].
    apply (Hs j Hj Hne). transitivity (lam i0 + (lam j - lam i0)); [ring|rewrite E0; ring]. }
  assert (Hcol: forall a, (a < n)%nat -> v a 0%nat = Phi a i0 * u i0 0%nat).
  { intros a Ha. rewrite <- (Hv a 0%nat Ha Nat.lt_0_1). unfold fmul at 1.
    apply (sumn_single R K Rth n i0 (fun j => Phi a j * u j 0%nat) Hi0).
    intros j Hj Hne. rewrite (Hz j Hj Hne). ring. }
  exists (u i0 0%nat). split; [|exact Hcol].
  intros E. apply Hnz. intros a c Ha Hc. assert (c = 0%nat) by lia; subst c.
  rewrite (Hcol a Ha). rewrite E. unfold fzero. ring.
Qed.
End Simple.

(* ---------- the witness-free statements over a formally real field ---------- *)
Section C01dim.
Variable R:Type. Variable K:Ops R.
Hypothesis Fth : field_theory (o0 K) (o1 K) (oadd K) (omul K) (osub K) (oopp K) (odiv K) (oinv K) (@eq R).
Hypothesis Rdec : forall x y:R, {x = y} + {x <> y}.
Hypothesis Hreal : forall a b:R, oadd K (omul K a a) (omul K b b) = o0 K -> a = o0 K.
Notation KC := (COps K).
Notation fm := (fmul KC). Notation fI := (fid KC).
Notation cemb := (cemb R K).
Let Rth : ring_theory (o0 K) (o1 K) (oadd K) (omul K) (osub K) (oopp K) (@eq R) := F_R Fth.
Let Hint := field_integral R K Fth Rdec.
Let H10 := field_one_neq_zero R K Fth.
Let CFth := cplx_field_theory R K Fth Hreal.
Let CRt := CRth R K Rth.
Let CI := cplx_integral R K Rth Hint Hreal.
Let Cdec := cplx_dec R Rdec.
Add Field FfC01dim : CFth.

(* the witness: a complete modal basis of the true system, listed in the order of lams *)
Lemma modal_witness n (A:fmat R) (lams:list (C R)) :
  length lams = n -> NoDup lams ->
  (forall lam, In lam lams -> exists v, eigpair (C R) KC n (cemb A) lam v) ->
  exists (Phi Phii:fmat (C R)) (lam:nat -> C R),
    tab n lam = lams /\
    (forall i j, (i < n)%nat -> (j < n)%nat -> i <> j -> lam i <> lam j) /\
    (forall k, (k < n)%nat -> eigpair (C R) KC n (cemb A) (lam k) (fun i _ => Phi i k)) /\
    feq n n (fm n (cemb A) Phi) (fm n Phi (fdiag KC lam)) /\
    feq n n (fm n Phi Phii) fI /\ feq n n (fm n Phii Phi) fI.
Proof.
  intros Hlen Hnd Hex.
  exact (cplx_modal_basis_list R K Fth Rdec Hreal n (cemb A) lams Hlen Hnd Hex).
Qed.

(* C01_full_statement on the generic carrier: n pairwise different true poles are the WHOLE spectrum of the identified A_hat *)
Theorem full_spectrum l n (A Cm Ah Ch T Ti:fmat R) (lams:list (C R)) :
  similar_pair R K l n A Cm Ah Ch T Ti ->
  length lams = n -> NoDup lams ->
  (forall lam, In lam lams -> exists v, eigpair (C R) KC n (cemb A) lam v) ->
  forall lam', (exists w, eigpair (C R) KC n (cemb Ah) lam' w) -> In lam' lams.
Proof.
  intros Hs Hlen Hnd Hex lam' [w Hw].
  destruct (modal_witness n A lams Hlen Hnd Hex) as [Phi [Phii [lam [Ht [_ [_ [H1 [H2 H3]]]]]]]].
  destruct (no_spurious_pole R K Rth Hint Rdec Hreal l n A Cm Ah Ch T Ti Phi Phii lam Hs H1 H2 H3 lam' w Hw) as [i [Hi E]].
  rewrite <- Ht. unfold tab. apply in_map_iff. exists i. split; [symmetry; exact E|apply in_seq; lia].
Qed.

(* ... and conversely every listed pole is an eigenvalue of A_hat: the spectrum of A_hat IS lams *)
Theorem full_spectrum_iff l n (A Cm Ah Ch T Ti:fmat R) (lams:list (C R)) :
  similar_pair R K l n A Cm Ah Ch T Ti ->
  length lams = n -> NoDup lams ->
  (forall lam, In lam lams -> exists v, eigpair (C R) KC n (cemb A) lam v) ->
  forall lam', (exists w, eigpair (C R) KC n (cemb Ah) lam' w) <-> In lam' lams.
Proof.
  intros Hs Hlen Hnd Hex lam'. split.
  - apply (full_spectrum l n A Cm Ah Ch T Ti lams Hs Hlen Hnd Hex).
  - intros Hin. destruct (eigpair_transport R K Rth l n A Cm Ah Ch T Ti lam' Hs) as [_ [_ Hiff]].
    apply Hiff. apply Hex. exact Hin.
Qed.

(* the multiplicity statement without any witness *)
Theorem pole_multiplicity_dim l n (A Cm Ah Ch T Ti:fmat R) (V W:fmat (C R)) (lams:list (C R)) (d:nat -> C R) :
  similar_pair R K l n A Cm Ah Ch T Ti ->
  length lams = n -> NoDup lams ->
  (forall lam, In lam lams -> exists v, eigpair (C R) KC n (cemb A) lam v) ->
  feq n n (fm n (cemb Ah) V) (fm n V (fdiag KC d)) ->
  feq n n (fm n W V) fI ->
  Permutation (tab n d) lams /\ NoDup (tab n d) /\
  (exists sg:nat -> nat,
     (forall k, (k < n)%nat -> (sg k < n)%nat) /\
     (forall k k', (k < n)%nat -> (k' < n)%nat -> sg k = sg k' -> k = k') /\
     (forall i, (i < n)%nat -> exists k, (k < n)%nat /\ sg k = i) /\
     (forall k, (k < n)%nat -> d k = nth (sg k) lams (c0 K))) /\
  (forall k, (k < n)%nat ->
     (exists phi, eigpair (C R) KC n (cemb A) (d k) phi) /\
     forall phi, eigpair (C R) KC n (cemb A) (d k) phi ->
       exists c:C R, c <> c0 K /\
         forall i, (i < l)%nat -> fm n (cemb Ch) V i k = cmul K (fm n (cemb Cm) phi i 0%nat) c) /\
  (forall mus:list (C R), Permutation lams (flat_map (fun z => [z; cconj K z]) mus) ->
     n = (2 * length mus)%nat /\ Permutation (tab n d) (flat_map (fun z => [z; cconj K z]) mus)).
Proof.
  intros Hs Hlen Hnd Hex HV HW.
  destruct (modal_witness n A lams Hlen Hnd Hex) as [Phi [Phii [lam [Ht [Hd [Hcols [H1 [H2 H3]]]]]]]].
  destruct (pole_multiplicity R K Rth Hint H10 Rdec Hreal l n A Cm Ah Ch T Ti Phi Phii V W lam d Hs H1 H2 H3 Hd HV HW)
    as [HP [HN [[sg [c [Hb [Hinj [Hsur [Hdk Hc]]]]]] Hpairs]]].
  split; [rewrite <- Ht; exact HP|]. split; [exact HN|]. split; [|split].
  - exists sg. split; [exact Hb|split; [exact Hinj|split; [exact Hsur|]]].
    intros k Hk. rewrite <- Ht. rewrite (nth_tab_c01 (c0 K) n lam (sg k) (Hb k Hk)). exact (Hdk k Hk).
  - intros k Hk. pose proof (Hb k Hk) as Hsk. split.
    + exists (fun i _ => Phi i (sg k)). rewrite (Hdk k Hk). exact (Hcols (sg k) Hsk).
    + intros phi [Hp1 Hp2]. rewrite (Hdk k Hk) in Hp1.
      destruct (eigvec_simple (C R) KC CRt CI n (cemb A) Phi Phii lam H1 H2 H3 (sg k) Hsk
                  (fun j Hj Hne => Hd j (sg k) Hj Hsk Hne) phi Hp1 Hp2) as [y [Hy Hcol]].
      destruct (Hc k Hk) as [Hck Hshape].
      exists (cmul K (cinv K y) (c k)). split.
      * intros E. destruct (CI _ _ E) as [E1|E1]; [|exact (Hck E1)].
        apply (cplx_one_neq_zero R K H10). change (o1 KC) with (c1 K).
        rewrite <- (cinv_l R K Fth y).
        -- change (cinv K y) with (oinv KC y) in E1 |- *. cbn [oinv KC COps] in E1 |- *. rewrite E1.
           change (omul KC (o0 KC) y = o0 KC). ring.
        -- intros En. apply Hy. exact (cnorm2_zero R K Rth Hreal y En).
      * intros i Hi. rewrite (Hshape i Hi).
        assert (Ephi: fm n (cemb Cm) phi i 0%nat = cmul K (fm n (cemb Cm) Phi i (sg k)) y).
        { unfold fmul at 1 2. change (cmul K) with (omul KC). rewrite <- (sumn_scal_r (C R) KC CRt).
          apply sumn_ext. intros a Ha. rewrite (Hcol a Ha). ring. }
        rewrite Ephi. change (cmul K) with (omul KC). change (cinv K y) with (oinv KC y).
        assert (Hy0: y <> o0 KC) by exact Hy. field. exact Hy0.
  - intros mus Hm. rewrite <- Ht in Hm. destruct (Hpairs mus Hm) as [E1 E2]. split; [exact E1|exact E2].
Qed.
End C01dim.

(* ---------- chained with the extraction routine (P_compose): no witness either ---------- *)
From Coq Require Import QArith.
From PyOMA.Model Require Import M_modal.
From PyOMA.Model Require M_mpe.
From PyOMA.Proofs Require P_mpe.
From PyOMA.Proofs Require Import P_compose.

Section C01dimExtract.
Variable R:Type. Variable K:Ops R.
Hypothesis Fth : field_theory (o0 K) (o1 K) (oadd K) (omul K) (osub K) (oopp K) (odiv K) (oinv K) (@eq R).
Hypothesis Rdec : forall x y:R, {x = y} + {x <> y}.
Hypothesis Hreal : forall a b:R, oadd K (omul K a a) (omul K b b) = o0 K -> a = o0 K.

Theorem identify_then_extract_dim l n (A Cm Ah Ch T Ti:fmat R) (V W:fmat (C R)) (lams:list (C R)) (d:nat -> C R) :
  similar_pair R K l n A Cm Ah Ch T Ti ->
  length lams = n -> NoDup lams ->
  (forall lam, In lam lams -> exists v, eigpair (C R) (COps K) n (cemb R K A) lam v) ->
  feq n n (fmul (COps K) n (cemb R K Ah) V) (fmul (COps K) n V (fdiag (COps K) d)) ->
  feq n n (fmul (COps K) n W V) (fid (COps K)) ->
  forall (X P:Type) (g:C R -> X) (fnof:X -> Q) (payof:X -> P) ordmax (per:nat -> list X) freq rtol,
  (0 < n <= ordmax)%nat -> (0 <= rtol)%Q ->
  per n = map g (tab n d) ->
  Forall (fun f => exists lam, In lam lams /\ (fnof (g lam) == f)%Q) freq ->
  exists vals,
    M_mpe.mpe_explicit (fn_table fnof (pole_table ordmax per)) (pay_table payof (pole_table ordmax per)) freq (M_mpe.OInt n) rtol
      = M_mpe.Ok (vals, M_mpe.OutInt n) /\
    Forall2 (fun f vp => exists lam, In lam lams /\ (fnof (g lam) == f)%Q /\ vp = (fnof (g lam), Some (payof (g lam)))) freq vals.
Proof.
  intros Hs Hlen Hnd Hex HV HW X P g fnof payof ordmax per freq rtol Hn Hrt Hper Hall.
  destruct (pole_multiplicity_dim R K Fth Rdec Hreal l n A Cm Ah Ch T Ti V W lams d Hs Hlen Hnd Hex HV HW) as [Hperm _].
  apply (extract_pole_table_spectrum g fnof payof ordmax per n (tab n d) lams freq rtol Hn).
  - rewrite tab_length. lia.
  - exact Hrt.
  - exact Hper.
  - exact Hperm.
  - exact Hall.
Qed.
End C01dimExtract.

From Coq Require Import Qcanon.
From PyOMA.Base Require Import Show.

(* ---------- a concrete instance with TWO conjugate pairs (order 4 = 2 x 2), Gaussian rationals ----------
   true system: A = blockdiag([[1/2,1/4],[-1/4,1/2]], [[1/3,1/2],[-1/2,1/3]]) - poles 1/2 +- i/4, 1/3 +- i/2, modes (1,+-i,0,0),
   (0,0,1,+-i) - observed through the 2 x 4 matrix C; identified in the basis T (unit upper triangular, not orthogonal).
   Solver output for A_hat: the poles in the order conj l2, l1, l2, conj l1 with eigenvectors rescaled by 2, i, 1+i, -1. *)
Definition ec2_A := ec1_m [[q 1 2; q 1 4; q 0 1; q 0 1];[q (-1) 4; q 1 2; q 0 1; q 0 1];
                           [q 0 1; q 0 1; q 1 3; q 1 2];[q 0 1; q 0 1; q (-1) 2; q 1 3]].
Definition ec2_C := ec1_m [[q 1 1; q 2 1; q 0 1; q 1 1];[q 0 1; q 1 1; q 1 1; q 1 1]].
Definition ec2_T := ec1_m [[q 1 1; q 1 1; q 0 1; q 2 1];[q 0 1; q 1 1; q 1 1; q 0 1];[q 0 1; q 0 1; q 1 1; q 1 1];[q 0 1; q 0 1; q 0 1; q 1 1]].
Definition ec2_Ti := ec1_m [[q 1 1; q (-1) 1; q 1 1; q (-3) 1];[q 0 1; q 1 1; q (-1) 1; q 1 1];[q 0 1; q 0 1; q 1 1; q (-1) 1];[q 0 1; q 0 1; q 0 1; q 1 1]].
Definition ec2_Ah : fmat Qc := fmul QcOps 4 ec2_Ti (fmul QcOps 4 ec2_A ec2_T).
Definition ec2_Ch : fmat Qc := fmul QcOps 4 ec2_C ec2_T.
Definition ec2_l1 : C Qc := (q 1 2, q 1 4).
Definition ec2_l2 : C Qc := (q 1 3, q 1 2).
Definition ec2_lams : list (C Qc) := [ec2_l1; cconj QcOps ec2_l1; ec2_l2; cconj QcOps ec2_l2].
(* eigenvectors of the true A, as column matrices *)
Definition ec2_col (v:list (Qc * Qc)) : fmat (C Qc) := fun i _ => lget (COps QcOps) v i.
Definition ec2_phi (k:nat) : fmat (C Qc) :=
  match k with
  | 0%nat => ec2_col [(q 1 1, q 0 1); (q 0 1, q 1 1); (q 0 1, q 0 1); (q 0 1, q 0 1)]
  | 1%nat => ec2_col [(q 1 1, q 0 1); (q 0 1, q (-1) 1); (q 0 1, q 0 1); (q 0 1, q 0 1)]
  | 2%nat => ec2_col [(q 0 1, q 0 1); (q 0 1, q 0 1); (q 1 1, q 0 1); (q 0 1, q 1 1)]
  | _ => ec2_col [(q 0 1, q 0 1); (q 0 1, q 0 1); (q 1 1, q 0 1); (q 0 1, q (-1) 1)]
  end.
(* what the solver returns: columns = Ti . (rescaled, reordered true modes); W = (rescaled modes)^-1 . T *)
Definition ec2_d := ec1_v [(q 1 3, q (-1) 2); (q 1 2, q 1 4); (q 1 3, q 1 2); (q 1 2, q (-1) 4)].
Definition ec2_Psi := ec1_cm [[(q 0 1, q 0 1); (q 0 1, q 1 1); (q 0 1, q 0 1); (q (-1) 1, q 0 1)];
                              [(q 0 1, q 0 1); (q (-1) 1, q 0 1); (q 0 1, q 0 1); (q 0 1, q 1 1)];
                              [(q 2 1, q 0 1); (q 0 1, q 0 1); (q 1 1, q 1 1); (q 0 1, q 0 1)];
                              [(q 0 1, q (-2) 1); (q 0 1, q 0 1); (q (-1) 1, q 1 1); (q 0 1, q 0 1)]].
Definition ec2_Psii := ec1_cm [[(q 0 1, q 0 1); (q 0 1, q 0 1); (q 1 4, q 0 1); (q 0 1, q 1 4)];
                               [(q 0 1, q (-1) 2); (q (-1) 2, q 0 1); (q 0 1, q 0 1); (q 0 1, q 0 1)];
                               [(q 0 1, q 0 1); (q 0 1, q 0 1); (q 1 4, q (-1) 4); (q (-1) 4, q (-1) 4)];
                               [(q (-1) 2, q 0 1); (q 0 1, q (-1) 2); (q 0 1, q 0 1); (q 0 1, q 0 1)]].
Definition ec2_V : fmat (C Qc) := fmul (COps QcOps) 4 (cemb Qc QcOps ec2_Ti) ec2_Psi.
Definition ec2_W : fmat (C Qc) := fmul (COps QcOps) 4 ec2_Psii (cemb Qc QcOps ec2_T).

Lemma ec2_similar : similar_pair Qc QcOps 2 4 ec2_A ec2_C ec2_Ah ec2_Ch ec2_T ec2_Ti.
Proof. unfold similar_pair. repeat split; try (apply ec_feqb_sound; vm_compute; reflexivity). Qed.

Lemma ec2_eigpair k : (k < 4)%nat -> eigpair (C Qc) (COps QcOps) 4 (cemb Qc QcOps ec2_A) (nth k ec2_lams (c0 QcOps)) (ec2_phi k).
Proof.
  intros Hk. assert (Hc: (k = 0 \/ k = 1 \/ k = 2 \/ k = 3)%nat) by lia.
  destruct Hc as [->|[->|[->| ->]]]; (split; [apply ec_cfeqb_sound; vm_compute; reflexivity|]).
  - intros H. pose proof (H 0%nat 0%nat ltac:(lia) ltac:(lia)) as E. vm_compute in E. discriminate E.
  - intros H. pose proof (H 0%nat 0%nat ltac:(lia) ltac:(lia)) as E. vm_compute in E. discriminate E.
  - intros H. pose proof (H 2%nat 0%nat ltac:(lia) ltac:(lia)) as E. vm_compute in E. discriminate E.
  - intros H. pose proof (H 2%nat 0%nat ltac:(lia) ltac:(lia)) as E. vm_compute in E. discriminate E.
Qed.

Lemma ec2_hyps :
  similar_pair Qc QcOps 2 4 ec2_A ec2_C ec2_Ah ec2_Ch ec2_T ec2_Ti /\
  length ec2_lams = 4%nat /\ NoDup ec2_lams /\
  (forall lam, In lam ec2_lams -> exists v, eigpair (C Qc) (COps QcOps) 4 (cemb Qc QcOps ec2_A) lam v) /\
  feq 4 4 (fmul (COps QcOps) 4 (cemb Qc QcOps ec2_Ah) ec2_V) (fmul (COps QcOps) 4 ec2_V (fdiag (COps QcOps) ec2_d)) /\
  feq 4 4 (fmul (COps QcOps) 4 ec2_W ec2_V) (fid (COps QcOps)) /\
  ec2_lams = flat_map (fun z => [z; cconj QcOps z]) [ec2_l1; ec2_l2] /\
  tab 4 ec2_d = [cconj QcOps ec2_l2; ec2_l1; ec2_l2; cconj QcOps ec2_l1].
Proof.
  split; [exact ec2_similar|]. split; [reflexivity|]. split; [|split; [|split; [|split; [|split]]]].
  - repeat constructor; cbn [In]; intros H;
      repeat (destruct H as [H|H]; [vm_compute in H; discriminate H|]); exact H.
  - intros lam Hin. destruct (In_nth _ _ (c0 QcOps) Hin) as [k [Hk <-]].
    exists (ec2_phi k). apply ec2_eigpair. exact Hk.
  - apply ec_cfeqb_sound. vm_compute. reflexivity.
  - apply ec_cfeqb_sound. vm_compute. reflexivity.
  - reflexivity.
  - vm_compute. reflexivity.
Qed.

(* ---------- the real numbers (classical: rests on the stdlib real numbers only) ---------- *)
From Coq Require Import Reals.
From PyOMA.Proofs Require Import P_modal_R.
Definition full_spectrum_R := full_spectrum R ROps_c01 ROps_field Req_EM_T R_formally_real_c01.
Definition full_spectrum_iff_R := full_spectrum_iff R ROps_c01 ROps_field Req_EM_T R_formally_real_c01.
Definition pole_multiplicity_dim_R := pole_multiplicity_dim R ROps_c01 ROps_field Req_EM_T R_formally_real_c01.
