(* C10 - proofs about the loop-level model of gen.SC_apply for an arbitrary step and about the class glue
   (Model/M_sc_step.v).  The loop is reduced to the closed cell formula [M_sc.label] on the interval of visited
   columns; the iff-specification then follows from P_sc.sc_label_spec. *)
From Coq Require Import List Arith ZArith QArith Qabs Bool String Lia Permutation.
From PyOMA.Base Require Import Argmin.
From PyOMA.Model Require Import M_sc M_sc_step.
From PyOMA.Proofs Require Import P_sc.
Import ListNotations.
Open Scope Q_scope.

(* ---------- arithmetic of range(start, stop, step) and of o = oo // step ---------- *)
Lemma map_add_seq q s n : map (fun j => (q + j)%nat) (seq s n) = seq (q + s) n.
Proof.
  revert s. induction n as [|n IH]; intros s; [reflexivity|].
  cbn [seq map]. rewrite IH. f_equal. f_equal. lia.
Qed.

Lemma visited_seq start stop step :
  step <> 0%nat -> visited start stop step = seq (start / step) ((stop - start + step - 1) / step).
Proof.
  intros Hs. unfold visited, py_range, col_of. rewrite map_map.
  rewrite (map_ext _ (fun j => (start / step + j)%nat)) by (intros j; apply Nat.div_add; exact Hs).
  rewrite map_add_seq. rewrite Nat.add_0_r. reflexivity.
Qed.

(* element j exists exactly when it is below stop *)
Lemma range_len start stop step j :
  step <> 0%nat -> ((j < (stop - start + step - 1) / step)%nat <-> (start + j * step < stop)%nat).
Proof.
  intros Hs. set (X := (stop - start + step - 1)%nat). split.
  - intros Hj. pose proof (Nat.mul_div_le X step Hs) as Hm.
    assert (Hle : (step * S j <= X)%nat).
    { apply Nat.le_trans with (step * (X / step))%nat; [|exact Hm]. apply Nat.mul_le_mono_l. lia. }
    unfold X in Hle. nia.
  - intros Hlt. assert (Hq : (S j <= X / step)%nat).
    { apply Nat.div_le_lower_bound; [exact Hs|]. unfold X. nia. }
    lia.
Qed.

Lemma existsb_eqb_seq c a n : existsb (Nat.eqb c) (seq a n) = true <-> (a <= c < a + n)%nat.
Proof.
  rewrite existsb_exists. split.
  - intros (x & Hin & He). apply Nat.eqb_eq in He. subst x. apply in_seq in Hin. exact Hin.
  - intros H. exists c. split; [apply in_seq; exact H|apply Nat.eqb_refl].
Qed.

(* column c is visited iff the requested order that lands in it, c*step + (start mod step), lies in [start, stop) *)
Lemma visited_iff start stop step c :
  step <> 0%nat ->
  (existsb (Nat.eqb c) (visited start stop step) = true <-> (start <= c * step + start mod step < stop)%nat).
Proof.
  intros Hs. rewrite (visited_seq _ _ _ Hs), existsb_eqb_seq.
  pose proof (Nat.div_mod start step Hs) as Hdm.
  pose proof (Nat.mod_upper_bound start step Hs) as Hr.
  set (q := (start / step)%nat) in *. set (r := (start mod step)%nat) in *. split.
  - intros [Hlo Hhi].
    assert (Hj : (c - q < (stop - start + step - 1) / step)%nat) by lia.
    apply (range_len _ _ _ _ Hs) in Hj.
    assert (Hc : c = (q + (c - q))%nat) by lia. revert Hj Hc. generalize (c - q)%nat as j. intros j Hj Hc.
    subst c. nia.
  - intros [Hlo Hhi].
    assert (Hqc : (q <= c)%nat) by nia.
    split; [exact Hqc|].
    assert (Hj : (c - q < (stop - start + step - 1) / step)%nat).
    { apply (range_len _ _ _ _ Hs). assert (Hc : c = (q + (c - q))%nat) by lia.
      revert Hc. generalize (c - q)%nat as j. intros j Hc. nia. }
    lia.
Qed.

Lemma col_requested_iff start stop step c :
  step <> 0%nat -> (col_requested start stop step c <-> (start <= c * step + start mod step < stop)%nat).
Proof.
  intros Hs. pose proof (Nat.div_mod start step Hs) as Hdm.
  pose proof (Nat.mod_upper_bound start step Hs) as Hr. split.
  - intros (oo & j & Hoo & Hlt & Hc). subst oo. rewrite (Nat.div_add _ _ _ Hs) in Hc.
    revert Hdm Hr Hc. generalize (start / step)%nat as q. generalize (start mod step)%nat as r. intros r q Hdm Hr Hc. nia.
  - intros [Hlo Hhi].
    assert (Hqc : (start / step <= c)%nat).
    { revert Hdm Hr Hlo. generalize (start / step)%nat as q. generalize (start mod step)%nat as r. intros r q Hdm Hr Hlo. nia. }
    exists (start + (c - start / step) * step)%nat, (c - start / step)%nat.
    split; [reflexivity|]. split.
    + revert Hdm Hr Hhi Hqc. generalize (start / step)%nat as q. generalize (start mod step)%nat as r. intros r q Hdm Hr Hhi Hqc.
      assert (Hc : c = (q + (c - q))%nat) by lia. revert Hc. generalize (c - q)%nat as j. intros j Hc. nia.
    + rewrite (Nat.div_add _ _ _ Hs). lia.
Qed.

Lemma visited_bounds_iff start stop step c :
  step <> 0%nat ->
  ((fst (visited_bounds start stop step) <= c <= snd (visited_bounds start stop step))%nat <->
   existsb (Nat.eqb c) (visited start stop step) = true).
Proof.
  intros Hs. rewrite (visited_seq _ _ _ Hs), existsb_eqb_seq. unfold visited_bounds.
  destruct ((stop - start + step - 1) / step)%nat as [|m]; cbn [fst snd]; lia.
Qed.

(* the loop never writes a column twice *)
Lemma visited_nodup start stop step : step <> 0%nat -> NoDup (visited start stop step).
Proof. intros Hs. rewrite (visited_seq _ _ _ Hs). apply seq_NoDup. Qed.

(* ---------- dict lookup does not depend on the order of the items ---------- *)
Lemma lookup_not_in k d : ~ In k (map fst d) -> lookup k d = None.
Proof.
  induction d as [|[k' v] d IH]; intros Hn; [reflexivity|]. cbn [lookup].
  destruct (String.eqb k k') eqn:E.
  - apply String.eqb_eq in E. exfalso. apply Hn. left. cbn. congruence.
  - apply IH. intros Hi. apply Hn. right. exact Hi.
Qed.

Lemma lookup_perm k d d' : Permutation d d' -> NoDup (map fst d) -> lookup k d = lookup k d'.
Proof.
  intros HP. induction HP as [|[k1 v1] l l' HP IH|[k1 v1] [k2 v2] l|l l' l'' HP1 IH1 HP2 IH2]; intros Hnd.
  - reflexivity.
  - cbn [lookup]. destruct (String.eqb k k1); [reflexivity|]. apply IH. inversion Hnd; assumption.
  - cbn [lookup]. destruct (String.eqb k k1) eqn:E1, (String.eqb k k2) eqn:E2; try reflexivity.
    apply String.eqb_eq in E1. apply String.eqb_eq in E2. exfalso.
    cbn [map fst] in Hnd. inversion Hnd as [|? ? Hni _]. apply Hni. left. congruence.
  - rewrite IH1 by exact Hnd. apply IH2.
    apply (Permutation_NoDup (Permutation_map fst HP1)). exact Hnd.
Qed.

Section SC.
Variable Shape : Type.
Variable mac : Shape -> Shape -> option Q.

Definition dims_ok (Fn:list (list (option Q))) (L:list (list bool)) : Prop :=
  List.length L = nrows Fn /\ forall i, (i < nrows Fn)%nat -> List.length (nth i L []) = ncols Fn.

Lemma zeros_dims Fn : dims_ok Fn (zeros Fn).
Proof.
  unfold dims_ok, zeros. split.
  - rewrite map_length, seq_length. reflexivity.
  - intros i Hi. rewrite (nth_map_seq _ _ _ _ Hi). rewrite map_length, seq_length. reflexivity.
Qed.

Lemma zeros_entry Fn i c : (i < nrows Fn)%nat -> (c < ncols Fn)%nat -> nth c (nth i (zeros Fn) []) false = false.
Proof. intros Hi Hc. unfold zeros. rewrite (nth_map_seq _ _ _ _ Hi). rewrite (nth_map_seq _ _ _ _ Hc). reflexivity. Qed.

Lemma set_col_dims Fn L o g : dims_ok Fn L -> dims_ok Fn (set_col L o g).
Proof.
  intros [Hl Hr]. unfold dims_ok, set_col. split.
  - rewrite map_length, seq_length. exact Hl.
  - intros i Hi. rewrite nth_map_seq by (rewrite Hl; exact Hi). cbv zeta. rewrite map_length, seq_length. apply Hr. exact Hi.
Qed.

Lemma set_col_entry Fn L o g i c :
  dims_ok Fn L -> (i < nrows Fn)%nat -> (c < ncols Fn)%nat ->
  nth c (nth i (set_col L o g) []) false = if (c =? o)%nat then g i else nth c (nth i L []) false.
Proof.
  intros [Hl Hr] Hi Hc. unfold set_col. rewrite nth_map_seq by (rewrite Hl; exact Hi). cbv zeta.
  rewrite nth_map_seq by (rewrite (Hr i Hi); exact Hc). reflexivity.
Qed.

(* ---------- the loop ---------- *)
Lemma sc_loop_ok Fn Xi (Phi:list (list (option Shape))) efn exi ephi cols : forall L,
  (forall o, In o cols -> (o < ncols Fn)%nat) -> dims_ok Fn L ->
  exists L', sc_loop mac Fn Xi Phi efn exi ephi cols L = SsOk L' /\ dims_ok Fn L' /\
    forall i c, (i < nrows Fn)%nat -> (c < ncols Fn)%nat ->
      nth c (nth i L' []) false =
      if existsb (Nat.eqb c) cols && negb (c =? 0)%nat then stable_at mac Fn Xi Phi efn exi ephi i c
      else nth c (nth i L []) false.
Proof.
  induction cols as [|o0 rest IH]; intros L Hin Hd.
  - exists L. split; [reflexivity|]. split; [exact Hd|]. intros i c _ _. reflexivity.
  - cbn [sc_loop].
    assert (Ho0 : (o0 < ncols Fn)%nat) by (apply Hin; left; reflexivity).
    assert (Hrest : forall o, In o rest -> (o < ncols Fn)%nat) by (intros o Ho; apply Hin; right; exact Ho).
    destruct (ncols Fn <=? o0)%nat eqn:E; [apply Nat.leb_le in E; lia|].
    destruct o0 as [|o'].
    + destruct (IH L Hrest Hd) as (L' & HL' & Hd' & He). exists L'. split; [exact HL'|]. split; [exact Hd'|].
      intros i c Hi Hc. rewrite (He i c Hi Hc). cbn [existsb].
      destruct (c =? 0)%nat; cbn [orb negb andb]; [rewrite !andb_false_r; reflexivity|reflexivity].
    + set (g := fun i => stable_at mac Fn Xi Phi efn exi ephi i (S o')).
      destruct (IH (set_col L (S o') g) Hrest (set_col_dims Fn L (S o') g Hd)) as (L' & HL' & Hd' & He).
      exists L'. split; [exact HL'|]. split; [exact Hd'|].
      intros i c Hi Hc. rewrite (He i c Hi Hc). rewrite (set_col_entry Fn L (S o') g i c Hd Hi Hc). cbn [existsb].
      destruct (c =? S o')%nat eqn:Ec.
      * apply Nat.eqb_eq in Ec. subst c. cbn [orb]. change ((S o' =? 0)%nat) with false. cbn [negb andb]. unfold g.
        destruct (existsb (Nat.eqb (S o')) rest && true); reflexivity.
      * cbn [orb]. reflexivity.
Qed.

Lemma sc_loop_index_err Fn Xi (Phi:list (list (option Shape))) efn exi ephi cols : forall L,
  (exists o, In o cols /\ (ncols Fn <= o)%nat) -> sc_loop mac Fn Xi Phi efn exi ephi cols L = SsIndexErr.
Proof.
  induction cols as [|o0 rest IH]; intros L (o & Hin & Hle); [destruct Hin|].
  cbn [sc_loop]. destruct (ncols Fn <=? o0)%nat eqn:E; [reflexivity|].
  apply Nat.leb_gt in E.
  assert (Hr : exists o, In o rest /\ (ncols Fn <= o)%nat).
  { destruct Hin as [->|Hin]; [lia|]. exists o. split; assumption. }
  destruct o0; apply IH; exact Hr.
Qed.

Lemma cols_in_table_dec Fn (cols:list nat) :
  (forall o, In o cols -> (o < ncols Fn)%nat) \/ (exists o, In o cols /\ (ncols Fn <= o)%nat).
Proof.
  destruct (existsb (fun o => ncols Fn <=? o)%nat cols) eqn:E.
  - right. apply existsb_exists in E. destruct E as (o & Hin & Hle). exists o. split; [exact Hin|apply Nat.leb_le; exact Hle].
  - left. intros o Hin. destruct (le_lt_dec (ncols Fn) o) as [Hle|Hlt]; [|exact Hlt].
    exfalso. assert (Ht : existsb (fun o => ncols Fn <=? o)%nat cols = true).
    { apply existsb_exists. exists o. split; [exact Hin|apply Nat.leb_le; exact Hle]. }
    congruence.
Qed.

(* ---------- what the loop returns: the closed cell formula on the interval of visited columns ---------- *)
Theorem sc_range_entry Fn Xi (Phi:list (list (option Shape))) start stop step efn exi ephi L i c :
  sc_apply_range mac Fn Xi Phi start stop step efn exi ephi = SsOk L -> (i < nrows Fn)%nat -> (c < ncols Fn)%nat ->
  nth c (nth i L []) false =
  label mac Fn Xi Phi (fst (visited_bounds start stop step)) (snd (visited_bounds start stop step)) efn exi ephi i c.
Proof.
  unfold sc_apply_range. destruct step as [|s]; [discriminate|].
  assert (Hs : S s <> 0%nat) by discriminate.
  destruct (cols_in_table_dec Fn (visited start stop (S s))) as [Hall|Hbad].
  - destruct (sc_loop_ok Fn Xi Phi efn exi ephi _ (zeros Fn) Hall (zeros_dims Fn)) as (L' & HL' & _ & He).
    rewrite HL'. intros HL Hi Hc. inversion HL; subst L'. rewrite (He i c Hi Hc), (zeros_entry Fn i c Hi Hc).
    unfold label.
    pose proof (visited_bounds_iff start stop (S s) c Hs) as Hb.
    destruct (existsb (Nat.eqb c) (visited start stop (S s))) eqn:Ev.
    + assert (Hr : (fst (visited_bounds start stop (S s)) <= c <= snd (visited_bounds start stop (S s)))%nat) by (apply Hb; reflexivity).
      destruct Hr as [H1 H2]. apply Nat.leb_le in H1. apply Nat.leb_le in H2. rewrite H1, H2. cbn [andb].
      destruct c; [reflexivity|]. reflexivity.
    + cbn [andb].
      destruct ((fst (visited_bounds start stop (S s)) <=? c)%nat && (c <=? snd (visited_bounds start stop (S s)))%nat) eqn:Er; [|reflexivity].
      exfalso. apply andb_true_iff in Er. rewrite !Nat.leb_le in Er. apply Hb in Er. discriminate.
  - rewrite (sc_loop_index_err Fn Xi Phi efn exi ephi _ (zeros Fn) Hbad). discriminate.
Qed.

Theorem sc_range_dims Fn Xi (Phi:list (list (option Shape))) start stop step efn exi ephi L :
  sc_apply_range mac Fn Xi Phi start stop step efn exi ephi = SsOk L ->
  List.length L = nrows Fn /\ forall i, (i < nrows Fn)%nat -> List.length (nth i L []) = ncols Fn.
Proof.
  unfold sc_apply_range. destruct step as [|s]; [discriminate|].
  destruct (cols_in_table_dec Fn (visited start stop (S s))) as [Hall|Hbad].
  - destruct (sc_loop_ok Fn Xi Phi efn exi ephi _ (zeros Fn) Hall (zeros_dims Fn)) as (L' & HL' & Hd & _).
    rewrite HL'. intros HL. inversion HL; subst L'. exact Hd.
  - rewrite (sc_loop_index_err Fn Xi Phi efn exi ephi _ (zeros Fn) Hbad). discriminate.
Qed.

(* the full specification for every step: cell (i, c) is labelled iff column c is where a requested order
   oo = start + j*step < stop is looked up, and the criteria hold against column c-1 *)
Theorem sc_range_spec Fn Xi (Phi:list (list (option Shape))) start stop step efn exi ephi L i c :
  sc_apply_range mac Fn Xi Phi start stop step efn exi ephi = SsOk L -> (i < nrows Fn)%nat -> (c < ncols Fn)%nat ->
  (nth c (nth i L []) false = true <->
   (start <= c * step + start mod step < stop)%nat /\ stable_spec mac Fn Xi Phi efn exi ephi i c).
Proof.
  intros HL Hi Hc. rewrite (sc_range_entry _ _ _ _ _ _ _ _ _ _ _ _ HL Hi Hc).
  assert (Hs : step <> 0%nat) by (intros ->; unfold sc_apply_range in HL; discriminate).
  rewrite sc_label_spec, (visited_bounds_iff _ _ _ _ Hs), (visited_iff _ _ _ _ Hs). reflexivity.
Qed.

Theorem sc_range_value_error_iff Fn Xi (Phi:list (list (option Shape))) start stop step efn exi ephi :
  sc_apply_range mac Fn Xi Phi start stop step efn exi ephi = SsValueErr <-> step = 0%nat.
Proof.
  unfold sc_apply_range. destruct step as [|s]; [tauto|]. split; [|discriminate].
  destruct (cols_in_table_dec Fn (visited start stop (S s))) as [Hall|Hbad].
  - destruct (sc_loop_ok Fn Xi Phi efn exi ephi _ (zeros Fn) Hall (zeros_dims Fn)) as (L' & HL' & _). rewrite HL'. discriminate.
  - rewrite (sc_loop_index_err Fn Xi Phi efn exi ephi _ (zeros Fn) Hbad). discriminate.
Qed.

Theorem sc_range_index_error_iff Fn Xi (Phi:list (list (option Shape))) start stop step efn exi ephi :
  sc_apply_range mac Fn Xi Phi start stop step efn exi ephi = SsIndexErr <->
  step <> 0%nat /\ exists c, (start <= c * step + start mod step < stop)%nat /\ (ncols Fn <= c)%nat.
Proof.
  unfold sc_apply_range. destruct step as [|s]; [split; [discriminate|intros [H _]; contradiction]|].
  assert (Hs : S s <> 0%nat) by discriminate.
  destruct (cols_in_table_dec Fn (visited start stop (S s))) as [Hall|Hbad].
  - destruct (sc_loop_ok Fn Xi Phi efn exi ephi _ (zeros Fn) Hall (zeros_dims Fn)) as (L' & HL' & _). rewrite HL'.
    split; [discriminate|]. intros (_ & c & Hv & Hle). exfalso.
    apply (visited_iff _ _ _ _ Hs) in Hv. apply existsb_exists in Hv. destruct Hv as (x & Hin & He).
    apply Nat.eqb_eq in He. subst x. specialize (Hall c Hin). lia.
  - rewrite (sc_loop_index_err Fn Xi Phi efn exi ephi _ (zeros Fn) Hbad). split; [|reflexivity]. intros _.
    split; [exact Hs|]. destruct Hbad as (o & Hin & Hle). exists o. split; [|exact Hle].
    apply (visited_iff _ _ _ _ Hs). apply existsb_exists. exists o. split; [exact Hin|apply Nat.eqb_refl].
Qed.

Theorem sc_range_never_key_error Fn Xi (Phi:list (list (option Shape))) start stop step efn exi ephi k :
  sc_apply_range mac Fn Xi Phi start stop step efn exi ephi <> SsKeyErr k.
Proof.
  unfold sc_apply_range. destruct step as [|s]; [discriminate|].
  destruct (cols_in_table_dec Fn (visited start stop (S s))) as [Hall|Hbad].
  - destruct (sc_loop_ok Fn Xi Phi efn exi ephi _ (zeros Fn) Hall (zeros_dims Fn)) as (L' & HL' & _). rewrite HL'. discriminate.
  - rewrite (sc_loop_index_err Fn Xi Phi efn exi ephi _ (zeros Fn) Hbad). discriminate.
Qed.

(* ---------- gen.SC_apply(..., ordmin, ordmax, step, ...) ---------- *)
Theorem sc_step_spec Fn Xi (Phi:list (list (option Shape))) ordmin ordmax step efn exi ephi L i c :
  sc_apply_step mac Fn Xi Phi ordmin ordmax step efn exi ephi = SsOk L -> (i < nrows Fn)%nat -> (c < ncols Fn)%nat ->
  (nth c (nth i L []) false = true <->
   (ordmin <= c * step + ordmin mod step <= ordmax)%nat /\ stable_spec mac Fn Xi Phi efn exi ephi i c).
Proof.
  unfold sc_apply_step. intros HL Hi Hc. rewrite (sc_range_spec _ _ _ _ _ _ _ _ _ _ _ _ HL Hi Hc).
  split; intros [Hr Hsp]; (split; [lia|exact Hsp]).
Qed.

(* nothing is labelled in the first column, on a NaN pole, after an empty column, or in a column that no requested
   order lands in *)
Theorem sc_step_never_stable Fn Xi (Phi:list (list (option Shape))) ordmin ordmax step efn exi ephi L i c :
  sc_apply_step mac Fn Xi Phi ordmin ordmax step efn exi ephi = SsOk L -> (i < nrows Fn)%nat -> (c < ncols Fn)%nat ->
  c = 0%nat \/ (getQ Fn i c = None \/ getQ Xi i c = None \/ getS Phi i c = None) \/
  (forall k, (k < List.length Fn)%nat -> getQ Fn k (pred c) = None) \/
  ~ (ordmin <= c * step + ordmin mod step <= ordmax)%nat ->
  nth c (nth i L []) false = false.
Proof.
  intros HL Hi Hc Hcase.
  destruct (nth c (nth i L []) false) eqn:E; [|reflexivity]. exfalso.
  pose proof E as E'. unfold sc_apply_step in HL. rewrite (sc_range_entry _ _ _ _ _ _ _ _ _ _ _ _ HL Hi Hc) in E'.
  destruct Hcase as [H|[H|[H|H]]].
  - subst c. rewrite sc_first_column_never_stable in E'. discriminate.
  - rewrite (sc_nan_never_stable _ _ _ _ _ _ _ _ _ _ _ _ H) in E'. discriminate.
  - rewrite (sc_empty_prev_never_stable _ _ _ _ _ _ _ _ _ _ _ _ H) in E'. discriminate.
  - apply (sc_step_spec _ _ _ _ _ _ _ _ _ _ _ _ HL Hi Hc) in E. apply H. tauto.
Qed.

(* ordmin on the order grid of the table (a multiple of step): the labelled columns are exactly those whose order
   c*step lies in [ordmin, ordmax] *)
Theorem sc_step_spec_aligned Fn Xi (Phi:list (list (option Shape))) ordmin ordmax step efn exi ephi L i c :
  sc_apply_step mac Fn Xi Phi ordmin ordmax step efn exi ephi = SsOk L -> (i < nrows Fn)%nat -> (c < ncols Fn)%nat ->
  Nat.divide step ordmin ->
  (nth c (nth i L []) false = true <->
   (ordmin <= c * step <= ordmax)%nat /\ stable_spec mac Fn Xi Phi efn exi ephi i c).
Proof.
  intros HL Hi Hc Hdiv. rewrite (sc_step_spec _ _ _ _ _ _ _ _ _ _ _ _ HL Hi Hc).
  assert (Hs : step <> 0%nat) by (intros ->; unfold sc_apply_step, sc_apply_range in HL; discriminate).
  apply (Nat.mod_divide _ _ Hs) in Hdiv. rewrite Hdiv, Nat.add_0_r. reflexivity.
Qed.

(* step = 1 is the interval model of M_sc.v, cell by cell *)
Theorem sc_step1_entry Fn Xi (Phi:list (list (option Shape))) c0 c1 efn exi ephi L i c :
  sc_apply_step mac Fn Xi Phi c0 c1 1 efn exi ephi = SsOk L -> (i < nrows Fn)%nat -> (c < ncols Fn)%nat ->
  nth c (nth i L []) false = label mac Fn Xi Phi c0 c1 efn exi ephi i c.
Proof.
  intros HL Hi Hc. apply eq_true_iff_eq.
  rewrite (sc_step_spec _ _ _ _ _ _ _ _ _ _ _ _ HL Hi Hc), sc_label_spec.
  rewrite Nat.mod_1_r, Nat.mul_1_r, Nat.add_0_r. reflexivity.
Qed.

Theorem sc_step1_error_agrees Fn Xi (Phi:list (list (option Shape))) c0 c1 efn exi ephi :
  sc_apply_step mac Fn Xi Phi c0 c1 1 efn exi ephi = SsIndexErr <-> sc_apply mac Fn Xi Phi c0 c1 efn exi ephi = ScIndexErr.
Proof.
  unfold sc_apply_step. rewrite sc_range_index_error_iff, sc_apply_index_error_iff. split.
  - intros (_ & c & Hv & Hle). rewrite Nat.mod_1_r, Nat.mul_1_r, Nat.add_0_r in Hv. lia.
  - intros [H1 H2]. split; [discriminate|]. exists c1. rewrite Nat.mod_1_r, Nat.mul_1_r, Nat.add_0_r. lia.
Qed.

(* ---------- the classes ---------- *)
Lemma class_args_ok c p a :
  class_args c p = GlueOk a ->
  lookup "err_fn" (rp_sc p) = Some (a_efn a) /\ lookup "err_xi" (rp_sc p) = Some (a_exi a) /\
  lookup "err_phi" (rp_sc p) = Some (a_ephi a) /\
  (if is_plscf c then a_start a = (rp_ordmin p - 1)%nat /\ a_stop a = rp_ordmax p /\ a_step a = 1%nat
   else a_start a = rp_ordmin p /\ a_stop a = S (rp_ordmax p) /\ a_step a = rp_step p).
Proof.
  unfold class_args.
  destruct (lookup "err_fn" (rp_sc p)) as [efn|]; [|discriminate].
  destruct (lookup "err_xi" (rp_sc p)) as [exi|]; [|discriminate].
  destruct (lookup "err_phi" (rp_sc p)) as [ephi|]; [|discriminate].
  destruct (is_plscf c); intros [= <-]; cbn; repeat split; reflexivity.
Qed.

(* result.Lab of the six classes in terms of their RUN PARAMETERS: the tolerances are the three values of sc read by
   key; for pLSCF column col (order col+1) is labelled iff ordmin <= col+1 <= ordmax; for SSI column col (order
   col*step) is labelled iff ordmin <= col*step + ordmin mod step <= ordmax; the criteria are those of the
   function level, against column col-1 *)
Theorem class_lab_spec c p Fn Xi (Phi:list (list (option Shape))) L i col :
  class_lab mac c p Fn Xi Phi = SsOk L -> (i < nrows Fn)%nat -> (col < ncols Fn)%nat ->
  exists efn exi ephi,
    lookup "err_fn" (rp_sc p) = Some efn /\ lookup "err_xi" (rp_sc p) = Some exi /\ lookup "err_phi" (rp_sc p) = Some ephi /\
    (nth col (nth i L []) false = true <->
     (if is_plscf c then (rp_ordmin p <= class_order c p col <= rp_ordmax p)%nat
      else (rp_ordmin p <= class_order c p col + rp_ordmin p mod rp_step p <= rp_ordmax p)%nat) /\
     stable_spec mac Fn Xi Phi efn exi ephi i col).
Proof.
  unfold class_lab. destruct (class_args c p) as [a|k] eqn:Ea; [|discriminate].
  destruct (class_args_ok c p a Ea) as (H1 & H2 & H3 & H4).
  intros HL Hi Hc. exists (a_efn a), (a_exi a), (a_ephi a). do 3 (split; [assumption|]).
  rewrite (sc_range_spec _ _ _ _ _ _ _ _ _ _ _ _ HL Hi Hc). unfold class_order.
  destruct (is_plscf c); destruct H4 as (-> & -> & ->).
  - rewrite Nat.mod_1_r, Nat.mul_1_r, Nat.add_0_r. split; intros [Hr Hsp]; (split; [lia|exact Hsp]).
  - split; intros [Hr Hsp]; (split; [lia|exact Hsp]).
Qed.

(* the property's reading for all six classes: pLSCF always, SSI when ordmin is on the order grid (any ordmin when step = 1) *)
Theorem class_lab_spec_orders c p Fn Xi (Phi:list (list (option Shape))) L i col :
  class_lab mac c p Fn Xi Phi = SsOk L -> (i < nrows Fn)%nat -> (col < ncols Fn)%nat ->
  is_plscf c = true \/ Nat.divide (rp_step p) (rp_ordmin p) ->
  exists efn exi ephi,
    lookup "err_fn" (rp_sc p) = Some efn /\ lookup "err_xi" (rp_sc p) = Some exi /\ lookup "err_phi" (rp_sc p) = Some ephi /\
    (nth col (nth i L []) false = true <->
     (rp_ordmin p <= class_order c p col <= rp_ordmax p)%nat /\ stable_spec mac Fn Xi Phi efn exi ephi i col).
Proof.
  intros HL Hi Hc Hal. destruct (class_lab_spec c p Fn Xi Phi L i col HL Hi Hc) as (efn & exi & ephi & H1 & H2 & H3 & H4).
  exists efn, exi, ephi. do 3 (split; [assumption|]). rewrite H4.
  destruct (is_plscf c) eqn:Ep; [reflexivity|].
  destruct Hal as [Hf|Hdiv]; [discriminate|].
  assert (Hs : rp_step p <> 0%nat).
  { intros H0. unfold class_lab in HL. destruct (class_args c p) as [a|k] eqn:Ea; [|discriminate].
    destruct (class_args_ok c p a Ea) as (_ & _ & _ & H5). rewrite Ep in H5. destruct H5 as (_ & _ & H5).
    rewrite H5, H0 in HL. unfold sc_apply_range in HL. discriminate. }
  apply (Nat.mod_divide _ _ Hs) in Hdiv. rewrite Hdiv, Nat.add_0_r. reflexivity.
Qed.

(* on tables of the width the class builds, the call never leaves the table *)
Theorem class_lab_total c p Fn Xi (Phi:list (list (option Shape))) efn exi ephi :
  lookup "err_fn" (rp_sc p) = Some efn -> lookup "err_xi" (rp_sc p) = Some exi -> lookup "err_phi" (rp_sc p) = Some ephi ->
  ncols Fn = class_ncols c p -> is_plscf c = true \/ rp_step p <> 0%nat ->
  exists L, class_lab mac c p Fn Xi Phi = SsOk L.
Proof.
  intros H1 H2 H3 Hn Hs. unfold class_lab, class_args. rewrite H1, H2, H3.
  match goal with |- exists L, match (if ?b then GlueOk ?x else GlueOk ?y) with _ => _ end = _ =>
    set (r := sc_apply_range mac Fn Xi Phi (a_start (if b then x else y)) (a_stop (if b then x else y))
                (a_step (if b then x else y)) efn exi ephi) end.
  assert (Hr : exists L, r = SsOk L).
  { destruct r as [L| | |k] eqn:Er.
    - exists L. reflexivity.
    - exfalso. unfold r in Er. apply sc_range_index_error_iff in Er. destruct Er as (Hs' & col & Hv & Hle).
      unfold class_ncols in Hn. destruct (is_plscf c); cbn [a_start a_stop a_step] in *.
      + rewrite Nat.mod_1_r, Nat.mul_1_r, Nat.add_0_r in Hv. lia.
      + assert (Hq : (col <= rp_ordmax p / rp_step p)%nat) by (apply Nat.div_le_lower_bound; [exact Hs'|nia]). lia.
    - exfalso. unfold r in Er. apply sc_range_value_error_iff in Er.
      destruct (is_plscf c); cbn [a_step] in Er; [discriminate|]. destruct Hs as [Hs|Hs]; [discriminate|contradiction].
    - exfalso. unfold r in Er. exact (sc_range_never_key_error _ _ _ _ _ _ _ _ _ _ Er). }
  destruct Hr as [L HL]. exists L. unfold r in HL. destruct (is_plscf c); exact HL.
Qed.

Theorem class_lab_key_error_iff c p Fn Xi (Phi:list (list (option Shape))) :
  (exists k, class_lab mac c p Fn Xi Phi = SsKeyErr k) <->
  lookup "err_fn" (rp_sc p) = None \/ lookup "err_xi" (rp_sc p) = None \/ lookup "err_phi" (rp_sc p) = None.
Proof.
  unfold class_lab, class_args.
  destruct (lookup "err_fn" (rp_sc p)) as [efn|]; [|split; [auto|intros _; eexists; reflexivity]].
  destruct (lookup "err_xi" (rp_sc p)) as [exi|]; [|split; [auto|intros _; eexists; reflexivity]].
  destruct (lookup "err_phi" (rp_sc p)) as [ephi|]; [|split; [auto|intros _; eexists; reflexivity]].
  split.
  - intros [k Hk]. exfalso. destruct (is_plscf c); exact (sc_range_never_key_error _ _ _ _ _ _ _ _ _ _ Hk).
  - intros [H|[H|H]]; discriminate.
Qed.

(* purity: result.Lab is a function of the tables, ordmin, ordmax, step and the three tolerances read by key -
   nothing else of the run parameters, no other entry of sc, and not the order of the items of sc *)
Theorem class_lab_pure c p p' Fn Xi (Phi:list (list (option Shape))) :
  rp_ordmin p = rp_ordmin p' -> rp_ordmax p = rp_ordmax p' -> rp_step p = rp_step p' ->
  lookup "err_fn" (rp_sc p) = lookup "err_fn" (rp_sc p') -> lookup "err_xi" (rp_sc p) = lookup "err_xi" (rp_sc p') ->
  lookup "err_phi" (rp_sc p) = lookup "err_phi" (rp_sc p') ->
  class_lab mac c p Fn Xi Phi = class_lab mac c p' Fn Xi Phi.
Proof.
  intros H1 H2 H3 H4 H5 H6. unfold class_lab, class_args. rewrite H1, H2, H3, H4, H5, H6. reflexivity.
Qed.

Theorem class_lab_key_order c p sc' Fn Xi (Phi:list (list (option Shape))) :
  NoDup (map fst (rp_sc p)) -> Permutation (rp_sc p) sc' ->
  class_lab mac c {| rp_ordmin := rp_ordmin p; rp_ordmax := rp_ordmax p; rp_step := rp_step p; rp_sc := sc' |} Fn Xi Phi =
  class_lab mac c p Fn Xi Phi.
Proof.
  intros Hnd HP. apply class_lab_pure; cbn [rp_ordmin rp_ordmax rp_step rp_sc]; try reflexivity;
    symmetry; apply lookup_perm; assumption.
Qed.
End SC.

(* ---------- the order reading fails off the grid (step >= 2, ordmin not a multiple of step) ---------- *)
(* one pole in each of two columns, identical: stable whenever column 1 is visited *)
Definition rf_Fn : list (list (option Q)) := [[Some 2; Some 2]].
Definition rf_Xi : list (list (option Q)) := [[Some (1#32); Some (1#32)]].
Definition rf_Phi : list (list (option cshape)) := [[Some [(1, 0)]; Some [(1, 0)]]].

(* step 2, ordmin = ordmax = 3: column 1 (order 2, below ordmin) IS labelled;
   step 2, ordmin = 1, ordmax = 2: column 1 (order 2, inside [1, 2], criteria met) is NOT labelled *)
Theorem sc_step_order_reading_refuted :
  (exists L, sc_apply_step mac_q rf_Fn rf_Xi rf_Phi 3 3 2 (1#64) (1#16) (1#32) = SsOk L /\
             nth 1 (nth 0 L []) false = true /\ ~ (3 <= 1 * 2 <= 3)%nat) /\
  (exists L, sc_apply_step mac_q rf_Fn rf_Xi rf_Phi 1 2 2 (1#64) (1#16) (1#32) = SsOk L /\
             nth 1 (nth 0 L []) false = false /\ (1 <= 1 * 2 <= 2)%nat /\
             stable_spec mac_q rf_Fn rf_Xi rf_Phi (1#64) (1#16) (1#32) 0 1).
Proof.
  split.
  - eexists. split; [vm_compute; reflexivity|]. split; [reflexivity|lia].
  - eexists. split; [vm_compute; reflexivity|]. split; [reflexivity|]. split; [lia|].
    apply stable_at_iff. vm_compute. reflexivity.
Qed.
