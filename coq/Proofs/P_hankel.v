From Coq Require Import List Arith Lia Ring Setoid Morphisms.
From PyOMA.Base Require Import Carrier FMat.
From PyOMA.Model Require Import M_hankel.
Import ListNotations.

Lemma blk_idx i l a : (a < l)%nat -> ((i*l+a) / l = i /\ (i*l+a) mod l = a)%nat.
Proof.
  intros Ha. split.
  - rewrite Nat.add_comm, Nat.div_add by lia. rewrite Nat.div_small by lia. lia.
  - rewrite Nat.add_comm, Nat.mod_add by lia. apply Nat.mod_small; lia.
Qed.

Section P.
Variable R:Type. Variable K:Ops R.
Hypothesis Rth : ring_theory (o0 K) (o1 K) (oadd K) (omul K) (osub K) (oopp K) (@eq R).
Add Ring RrH : Rth.
Local Open Scope K_scope.
Notation "0" := (o0 K) : K_scope.
Infix "+" := (oadd K) : K_scope. Infix "*" := (omul K) : K_scope.

(* ---- entries of the code-shaped definitions ---- *)
Theorem hank_mm_entry invN l r br Ndat (Y Yref:sig R) i a j b :
  (i <= br)%nat -> (a < l)%nat -> (j <= br)%nat -> (b < r)%nat ->
  hank_mm K invN l r br Ndat Y Yref (i*l+a)%nat (j*r+b)%nat
  = invN * sumn K (mm_N br Ndat - 1) (fun t => Y a ((S br - j + t) + (i+j+1))%nat * Yref b (S br - j + t)%nat).
Proof.
  intros Hi Ha Hj Hb. unfold hank_mm, fscal, fmul, ftr, mm_Yf, mm_Yp.
  destruct (blk_idx i l a Ha) as [-> ->]. destruct (blk_idx j r b Hb) as [-> ->].
  f_equal. apply sumn_ext; intros t _. f_equal. f_equal. lia.
Qed.

Theorem hank_R_entry invn l r br Ndat (Y Yref:sig R) i a j b :
  (i <= br)%nat -> (a < l)%nat -> (j <= br)%nat -> (b < r)%nat ->
  hank_R K invn l r br Ndat Y Yref (i*l+a)%nat (j*r+b)%nat
  = invn (Ndat - (br+i-j))%nat * sumn K (Ndat - (br+i-j)) (fun t => Y a t * Yref b (t + (br+i-j))%nat).
Proof.
  intros Hi Ha Hj Hb. unfold hank_R, cov_Ri.
  destruct (blk_idx i l a Ha) as [-> ->]. destruct (blk_idx j r b Hb) as [-> ->]. reflexivity.
Qed.

(* ---- the parametric form ---- *)
Lemma suml_seq (f:nat->R) s n : suml K (map f (seq s n)) = sumn K n (fun t => f (s+t)%nat).
Proof.
  revert s; induction n; intros s; [reflexivity|].
  rewrite (sumn_S_l R K Rth). cbn [seq map suml]. rewrite IHn. rewrite Nat.add_0_r. f_equal.
  apply sumn_ext; intros t _. f_equal. lia.
Qed.

Theorem hank_gen_entry win wt dl rl l r (Y Yref:sig R) i a j b :
  (a < l)%nat -> (b < r)%nat ->
  hank_gen K win wt dl rl l r Y Yref (i*l+a)%nat (j*r+b)%nat
  = wt i j * suml K (map (fun t => Y a (t + dl i j)%nat * Yref b (t + rl i j)%nat) (win i j)).
Proof.
  intros Ha Hb. unfold hank_gen. destruct (blk_idx i l a Ha) as [-> ->]. destruct (blk_idx j r b Hb) as [-> ->]. reflexivity.
Qed.

Definition mm_win br Ndat (i j:nat) := seq (S br - j) (mm_N br Ndat - 1).
Definition mm_dl (i j:nat) := (i+j+1)%nat.
Definition R_win br Ndat (i j:nat) := seq 0 (Ndat - (br+i-j)).
Definition R_rl br (i j:nat) := (br+i-j)%nat.

Lemma idx_lt_blk I l br : (0 < l)%nat -> (I < hank_rows l br)%nat -> (I / l <= br)%nat /\ (I mod l < l)%nat.
Proof. unfold hank_rows. intros Hl HI. split; [|apply Nat.mod_upper_bound; lia].
  assert (I / l < S br)%nat by (apply Nat.div_lt_upper_bound; lia). lia. Qed.

Theorem hank_mm_is_gen invN l r br Ndat (Y Yref:sig R) :
  feq (hank_rows l br) (hank_cols r br)
    (hank_mm K invN l r br Ndat Y Yref)
    (hank_gen K (mm_win br Ndat) (fun _ _ => invN) mm_dl (fun _ _ => 0%nat) l r Y Yref).
Proof.
  intros I J HI HJ.
  assert (Hl: (0 < l)%nat) by (unfold hank_rows in HI; destruct l; lia).
  assert (Hr: (0 < r)%nat) by (unfold hank_cols in HJ; destruct r; lia).
  destruct (idx_lt_blk I l br Hl HI) as [Hi Ha]. destruct (idx_lt_blk J r br Hr HJ) as [Hj Hb].
  rewrite (Nat.div_mod I l) at 1 by lia. rewrite (Nat.div_mod J r) at 1 by lia.
  rewrite (Nat.mul_comm l), (Nat.mul_comm r).
  rewrite hank_mm_entry by assumption.
  unfold hank_gen, mm_win, mm_dl. rewrite suml_seq. f_equal. apply sumn_ext; intros t _.
  rewrite Nat.add_0_r. reflexivity.
Qed.

Theorem hank_R_is_gen invn l r br Ndat (Y Yref:sig R) :
  feq (hank_rows l br) (hank_cols r br)
    (hank_R K invn l r br Ndat Y Yref)
    (hank_gen K (R_win br Ndat) (fun i j => invn (Ndat - (br+i-j))%nat) (fun _ _ => 0%nat) (R_rl br) l r Y Yref).
Proof.
  intros I J HI HJ. unfold hank_R, cov_Ri, hank_gen, R_win, R_rl.
  rewrite suml_seq. f_equal. apply sumn_ext; intros t _. cbn [Nat.add]. rewrite Nat.add_0_r. reflexivity.
Qed.

(* ---- bilinearity of the parametric form (hence of both covariance methods) ---- *)
Definition sadd (Y Z:sig R) : sig R := fun a t => Y a t + Z a t.
Definition sscal (c:R) (Y:sig R) : sig R := fun a t => c * Y a t.

Lemma suml_add {A} (f g:A->R) xs : suml K (map (fun t => f t + g t) xs) = suml K (map f xs) + suml K (map g xs).
Proof. induction xs; cbn [map suml]; [ring|]. rewrite IHxs. ring. Qed.
Lemma suml_scal {A} c (f:A->R) xs : suml K (map (fun t => c * f t) xs) = c * suml K (map f xs).
Proof. induction xs; cbn [map suml]; [ring|]. rewrite IHxs. ring. Qed.
Lemma suml_ext {A} (f g:A->R) xs : (forall t, f t = g t) -> suml K (map f xs) = suml K (map g xs).
Proof. intros H. induction xs; cbn [map suml]; [reflexivity|]. rewrite IHxs, H. reflexivity. Qed.

Theorem hank_gen_add_data win wt dl rl l r (Y Z Yref:sig R) I J :
  hank_gen K win wt dl rl l r (sadd Y Z) Yref I J
  = hank_gen K win wt dl rl l r Y Yref I J + hank_gen K win wt dl rl l r Z Yref I J.
Proof. unfold hank_gen, sadd.
  rewrite (suml_ext _ (fun t => Y (I mod l)%nat (t + dl (I/l)%nat (J/r)%nat)%nat * Yref (J mod r)%nat (t + rl (I/l)%nat (J/r)%nat)%nat
                              + Z (I mod l)%nat (t + dl (I/l)%nat (J/r)%nat)%nat * Yref (J mod r)%nat (t + rl (I/l)%nat (J/r)%nat)%nat))
    by (intros; ring).
  rewrite suml_add. ring. Qed.
Theorem hank_gen_add_ref win wt dl rl l r (Y Yref Zref:sig R) I J :
  hank_gen K win wt dl rl l r Y (sadd Yref Zref) I J
  = hank_gen K win wt dl rl l r Y Yref I J + hank_gen K win wt dl rl l r Y Zref I J.
Proof. unfold hank_gen, sadd.
  rewrite (suml_ext _ (fun t => Y (I mod l)%nat (t + dl (I/l)%nat (J/r)%nat)%nat * Yref (J mod r)%nat (t + rl (I/l)%nat (J/r)%nat)%nat
                              + Y (I mod l)%nat (t + dl (I/l)%nat (J/r)%nat)%nat * Zref (J mod r)%nat (t + rl (I/l)%nat (J/r)%nat)%nat))
    by (intros; ring).
  rewrite suml_add. ring. Qed.
Theorem hank_gen_scal win wt dl rl l r c d (Y Yref:sig R) I J :
  hank_gen K win wt dl rl l r (sscal c Y) (sscal d Yref) I J = c * d * hank_gen K win wt dl rl l r Y Yref I J.
Proof. unfold hank_gen, sscal.
  rewrite (suml_ext _ (fun t => (c*d) * (Y (I mod l)%nat (t + dl (I/l)%nat (J/r)%nat)%nat * Yref (J mod r)%nat (t + rl (I/l)%nat (J/r)%nat)%nat)))
    by (intros; ring).
  rewrite suml_scal. ring. Qed.

Corollary hank_mm_gain invN l r br Ndat g (Y Yref:sig R) :
  feq (hank_rows l br) (hank_cols r br)
    (hank_mm K invN l r br Ndat (sscal g Y) (sscal g Yref)) (fscal K (g*g) (hank_mm K invN l r br Ndat Y Yref)).
Proof. intros I J HI HJ. rewrite (hank_mm_is_gen invN l r br Ndat _ _ I J HI HJ). unfold fscal.
  rewrite (hank_mm_is_gen invN l r br Ndat Y Yref I J HI HJ). apply hank_gen_scal. Qed.
Corollary hank_R_gain invn l r br Ndat g (Y Yref:sig R) :
  feq (hank_rows l br) (hank_cols r br)
    (hank_R K invn l r br Ndat (sscal g Y) (sscal g Yref)) (fscal K (g*g) (hank_R K invn l r br Ndat Y Yref)).
Proof. intros I J HI HJ. rewrite (hank_R_is_gen invn l r br Ndat _ _ I J HI HJ). unfold fscal.
  rewrite (hank_R_is_gen invn l r br Ndat Y Yref I J HI HJ). apply hank_gen_scal. Qed.

(* ---- list-level bridge: the executable tables hold exactly these functions ---- *)
Theorem hank_mm_l_entry invN l r br Ndat Yl Yrefl I J :
  (I < hank_rows l br)%nat -> (J < hank_cols r br)%nat ->
  ent K (hank_mm_l K invN l r br Ndat Yl Yrefl) I J = hank_mm K invN l r br Ndat (sig_of K Yl) (sig_of K Yrefl) I J.
Proof. intros. unfold hank_mm_l. apply ent_tab2; assumption. Qed.
Theorem hank_dims invN invn l r br Ndat Yl Yrefl :
  length (hank_mm_l K invN l r br Ndat Yl Yrefl) = (S br * l)%nat /\
  length (hank_R_l K invn l r br Ndat Yl Yrefl) = (S br * l)%nat /\
  (forall I, (I < S br * l)%nat -> length (nth I (hank_mm_l K invN l r br Ndat Yl Yrefl) []) = (S br * r)%nat) /\
  (forall I, (I < S br * l)%nat -> length (nth I (hank_R_l K invn l r br Ndat Yl Yrefl) []) = (S br * r)%nat).
Proof.
  unfold hank_mm_l, hank_R_l, hank_rows, hank_cols. rewrite !tab2_length. repeat split; try reflexivity.
  - intros I HI. rewrite nth_tab2 by assumption. apply tab_length.
  - intros I HI. rewrite nth_tab2 by assumption. apply tab_length.
Qed.

(* ---- data-driven method: LQ contract in block form ----
   Yp = L11 Q1^T, Yf = L21 Q1^T + L22 Q2^T, Q1^T Q1 = I, Q2^T Q1 = 0, L11 two-sided invertible,
   W a left inverse of Yp Yp^T.  The returned block is H = L21 and H H^T = (Yf Yp^T) W (Yp Yf^T). *)
Section Gram.
Variables (a b T : nat) (Yp Yf L11 L11i L21 L22 Q1 Q2 W : fmat R).
Notation fmul := (fmul K). Notation fid := (fid K). Notation fadd := (fadd K). Notation fzero := (fzero K).
Hypothesis HYp : feq a T Yp (fmul a L11 (ftr Q1)).
Hypothesis HYf : feq b T Yf (fadd (fmul a L21 (ftr Q1)) (fmul b L22 (ftr Q2))).
Hypothesis HQ11 : feq a a (fmul T (ftr Q1) Q1) fid.
Hypothesis HQ21 : feq b a (fmul T (ftr Q2) Q1) fzero.
Hypothesis HL1 : feq a a (fmul a L11 L11i) fid.
Hypothesis HL2 : feq a a (fmul a L11i L11) fid.
Hypothesis HW1 : feq a a (fmul a W (fmul T Yp (ftr Yp))) fid.
Let assoc := fmul_assoc R K Rth.
Let idl := fmul_id_l R K Rth.
Let idr := fmul_id_r R K Rth.

Lemma YpYpT : feq a a (fmul T Yp (ftr Yp)) (fmul a L11 (ftr L11)).
Proof.
  rewrite HYp. rewrite (ftr_fmul R K Rth a a T). rewrite (ftr_ftr R T a).
  rewrite (assoc a a T a). rewrite <- (assoc a T a a (ftr Q1) Q1 (ftr L11)). rewrite HQ11. rewrite (idl a a). reflexivity.
Qed.
Lemma YfYpT : feq b a (fmul T Yf (ftr Yp)) (fmul a L21 (ftr L11)).
Proof.
  rewrite HYp at 1. rewrite (ftr_fmul R K Rth a a T). rewrite (ftr_ftr R T a). rewrite HYf.
  rewrite (fmul_add_l R K Rth b T a).
  rewrite (assoc b a T a L21). rewrite <- (assoc a T a a (ftr Q1) Q1 (ftr L11)). rewrite HQ11, (idl a a).
  rewrite (assoc b b T a L22). rewrite <- (assoc b T a a (ftr Q2) Q1 (ftr L11)). rewrite HQ21.
  rewrite (fmul_zero_l R K Rth b a a). rewrite (fmul_zero_r R K Rth b b a). rewrite (fadd_zero_r R K Rth b a). reflexivity.
Qed.
Lemma W_is : feq a a W (fmul a (ftr L11i) L11i).
Proof.
  assert (Hr: feq a a (fmul a (fmul a L11 (ftr L11)) (fmul a (ftr L11i) L11i)) fid).
  { rewrite (assoc a a a a L11). rewrite <- (assoc a a a a (ftr L11) (ftr L11i) L11i).
    rewrite <- (ftr_fmul R K Rth a a a L11i L11). rewrite HL2. rewrite (ftr_fid R K a). rewrite (idl a a). exact HL1. }
  rewrite <- (idr a a W). rewrite <- Hr. rewrite <- (assoc a a a a W). rewrite <- YpYpT. rewrite HW1. rewrite (idl a a). reflexivity.
Qed.
Theorem hank_dat_gram :
  feq b b (fmul a L21 (ftr L21))
          (fmul a (fmul a (fmul T Yf (ftr Yp)) W) (ftr (fmul T Yf (ftr Yp)))).
Proof.
  rewrite YfYpT. rewrite W_is. rewrite (ftr_fmul R K Rth b a a L21 (ftr L11)). rewrite (ftr_ftr R a a L11).
  rewrite (assoc b a a a L21 (ftr L11)). rewrite <- (assoc a a a a (ftr L11) (ftr L11i) L11i).
  rewrite <- (ftr_fmul R K Rth a a a L11i L11). rewrite HL2, (ftr_fid R K a), (idl a a).
  rewrite (assoc b a a b L21 L11i). rewrite <- (assoc a a a b L11i L11 (ftr L21)). rewrite HL2, (idl a b).
  reflexivity.
Qed.
End Gram.
End P.
