(* C15 - lemmas about the instance machine M_orch2.v.  Everything is closed under the global context. *)
From Coq Require Import String List Arith Bool Lia.
From PyOMA.Model Require Import M_orch M_orch2.
Import ListNotations.

(* ---------------------------------------------------------------- lists *)
Lemma length_set_nth {A} n (x:A) l : length (set_nth n x l) = length l.
Proof. revert n. induction l as [|y t IH]; intros [|n]; cbn [set_nth length]; try reflexivity. rewrite IH. reflexivity. Qed.

Lemma nth_set_same {A} n (x y:A) l : nth_error l n = Some y -> nth_error (set_nth n x l) n = Some x.
Proof. revert n. induction l as [|z t IH]; intros [|n]; cbn [set_nth nth_error]; try discriminate; [reflexivity|apply IH]. Qed.

Lemma nth_set_other {A} n m (x:A) l : n <> m -> nth_error (set_nth n x l) m = nth_error l m.
Proof.
  revert n m. induction l as [|z t IH]; intros [|n] [|m] H; cbn [set_nth nth_error]; try reflexivity; [contradiction|].
  apply IH. intros ->. apply H. reflexivity.
Qed.

Lemma set_nth_id {A} n (x:A) l : nth_error l n = Some x -> set_nth n x l = l.
Proof.
  revert n. induction l as [|z t IH]; intros [|n]; cbn [set_nth nth_error]; try reflexivity.
  - intros H. injection H as ->. reflexivity.
  - intros H. rewrite IH by exact H. reflexivity.
Qed.

Lemma set_nth_twice {A} n (x y:A) l : set_nth n x (set_nth n y l) = set_nth n x l.
Proof. revert n. induction l as [|z t IH]; intros [|n]; cbn [set_nth]; try reflexivity. rewrite IH. reflexivity. Qed.

Lemma nth_set_cases {A} n m (x y:A) l : nth_error (set_nth n x l) m = Some y -> (n = m /\ y = x) \/ (n <> m /\ nth_error l m = Some y).
Proof.
  intros H. destruct (Nat.eq_dec n m) as [->|Hne].
  - left. split; [reflexivity|]. destruct (nth_error l m) as [z|] eqn:E.
    + rewrite (nth_set_same m x z l E) in H. injection H as <-. reflexivity.
    + exfalso. assert (Hl : nth_error (set_nth m x l) m = None).
      { apply nth_error_None. rewrite length_set_nth. apply nth_error_None. exact E. }
      rewrite Hl in H. discriminate.
  - right. split; [exact Hne|]. rewrite nth_set_other in H by exact Hne. exact H.
Qed.

Lemma dlookup_dupsert_same a i l : dlookup a (dupsert a i l) = Some i.
Proof.
  induction l as [|[n j] t IH]; cbn [dupsert dlookup].
  - rewrite Nat.eqb_refl. reflexivity.
  - destruct (Nat.eqb n a) eqn:E; cbn [dlookup]; rewrite E; [reflexivity|exact IH].
Qed.

Lemma dlookup_dupsert_other a b i l : a <> b -> dlookup b (dupsert a i l) = dlookup b l.
Proof.
  intros Hab. induction l as [|[n j] t IH]; cbn [dupsert dlookup].
  - destruct (Nat.eqb a b) eqn:E; [apply Nat.eqb_eq in E; contradiction|reflexivity].
  - destruct (Nat.eqb n a) eqn:E; cbn [dlookup].
    + apply Nat.eqb_eq in E. subst n. destruct (Nat.eqb a b) eqn:E2; [apply Nat.eqb_eq in E2; contradiction|reflexivity].
    + destruct (Nat.eqb n b); [reflexivity|exact IH].
Qed.

Lemma dlookup_in a i l : dlookup a l = Some i -> In (a,i) l.
Proof.
  induction l as [|[n j] t IH]; cbn [dlookup In]; [discriminate|].
  destruct (Nat.eqb n a) eqn:E.
  - apply Nat.eqb_eq in E. intros H. injection H as ->. left. subst n. reflexivity.
  - intros H. right. exact (IH H).
Qed.

Lemma dlookup_none a l : dlookup a l = None <-> ~ In a (map fst l).
Proof.
  induction l as [|[n j] t IH]; cbn [dlookup map fst In].
  - split; [intros _ []|reflexivity].
  - destruct (Nat.eqb n a) eqn:E.
    + apply Nat.eqb_eq in E. split; [discriminate|intros H; exfalso; apply H; left; exact E].
    + apply Nat.eqb_neq in E. rewrite IH. split; [intros H [H1|H1]; [contradiction|exact (H H1)]|intros H H1; apply H; right; exact H1].
Qed.

Lemma keys_dupsert a i l :
  map fst (dupsert a i l) = match dlookup a l with Some _ => map fst l | None => map fst l ++ [a] end.
Proof.
  induction l as [|[n j] t IH]; cbn [dupsert dlookup map fst app]; [reflexivity|].
  destruct (Nat.eqb n a) eqn:E; cbn [map fst]; [reflexivity|].
  rewrite IH. destruct (dlookup a t); reflexivity.
Qed.

Lemma nodup_dupsert a i l : NoDup (map fst l) -> NoDup (map fst (dupsert a i l)).
Proof.
  intros H. rewrite keys_dupsert. destruct (dlookup a l) eqn:E; [exact H|].
  apply dlookup_none in E.
  apply NoDup_rev in H. rewrite <- (rev_involutive (map fst l ++ [a])). apply NoDup_rev.
  rewrite rev_app_distr. cbn [rev app]. constructor; [|exact H].
  intros Hin. apply in_rev in Hin. exact (E Hin).
Qed.

(* entries of an updated dict: the new one, or an old one under another key *)
Lemma in_dupsert a i l n j : NoDup (map fst l) -> In (n,j) (dupsert a i l) -> (n = a /\ j = i) \/ (n <> a /\ In (n,j) l).
Proof.
  induction l as [|[m k] t IH]; cbn [dupsert In map fst]; intros Hn.
  - intros [H|[]]. injection H as <- <-. left. split; reflexivity.
  - inversion Hn as [|? ? Hnot Hn']. subst. destruct (Nat.eqb m a) eqn:E; cbn [In].
    + apply Nat.eqb_eq in E. subst m. intros [H|H].
      * injection H as <- <-. left. split; reflexivity.
      * right. split; [|right; exact H]. intros ->. apply Hnot. apply (in_map fst) in H. exact H.
    + apply Nat.eqb_neq in E. intros [H|H].
      * injection H as <- <-. right. split; [exact E|left; reflexivity].
      * destruct (IH Hn' H) as [H1|[H1 H2]]; [left; exact H1|right; split; [exact H1|right; exact H2]].
Qed.

Lemma dlookup_unique a i l : NoDup (map fst l) -> In (a,i) l -> dlookup a l = Some i.
Proof.
  induction l as [|[n j] t IH]; cbn [dlookup In map fst]; intros Hn; [intros []|].
  inversion Hn as [|? ? Hnot Hn']. subst. intros [H|H].
  - injection H as -> ->. rewrite Nat.eqb_refl. reflexivity.
  - destruct (Nat.eqb n a) eqn:E; [|exact (IH Hn' H)].
    apply Nat.eqb_eq in E. subst n. exfalso. apply Hnot. apply (in_map fst) in H. exact H.
Qed.

(* ---------------------------------------------------------------- one instance *)
Definition ident_of (x:inst) : name * cls := (i_name x, i_cls x).
Definition binding3 (x:inst) : option DataId * option Fs * option Fs := (i_data x, i_fs x, i_dt x).

(* a stored result is a Run term of the instance's own class, it was computed with some parameters (so parameters are
   still there: set_run_params only replaces them), modes are extracted from the stored result, dt goes with fs *)
Definition wf_inst (x:inst) : Prop :=
  (forall r, i_result x = Some r -> exists p d f, r = Run (i_cls x) p d f) /\
  (forall r, i_result x = Some r -> exists p, i_params x = Some p) /\
  (forall m, i_modes x = Some m -> exists p d dt args r, i_result x = Some r /\ m = Extract2 r p d dt args) /\
  (forall f, i_fs x = Some f -> i_dt x = Some f) /\
  (forall r, i_result x = Some r -> exists f, i_dt x = Some f).

Lemma wf_fresh_inst x : fresh_inst x -> wf_inst x.
Proof.
  intros (Hd & Hf & Hdt & Hr & Hm). repeat split; intros ? H; try (rewrite Hr in H; discriminate).
  - rewrite Hm in H. discriminate.
  - rewrite Hf in H. discriminate.
Qed.

Lemma run_inst_ok x x' : run_inst x = inr x' ->
  exists p d f, i_params x = Some p /\ i_data x = Some d /\ i_fs x = Some f /\
    x' = mkInst (i_name x) (i_cls x) (i_params x) (i_data x) (i_fs x) (i_dt x) (Some (Run (i_cls x) p d f)) None.
Proof.
  unfold run_inst. destruct (i_fs x) as [f|] eqn:Ef; [|discriminate]. destruct (i_data x) as [d|] eqn:Ed; [|discriminate].
  destruct (i_params x) as [p|] eqn:Ep; [|discriminate]. intros H. injection H as <-. exists p, d, f. repeat split.
Qed.

Lemma run_inst_err x e : run_inst x = inl e -> e = ValueE /\ (i_data x = None \/ i_fs x = None \/ i_params x = None).
Proof.
  unfold run_inst. destruct (i_fs x) as [f|] eqn:Ef.
  - destruct (i_data x) as [d|] eqn:Ed.
    + destruct (i_params x) as [p|] eqn:Ep; [discriminate|]. intros H. injection H as <-. split; [reflexivity|right; right; reflexivity].
    + intros H. injection H as <-. split; [reflexivity|left; reflexivity].
  - intros H. injection H as <-. split; [reflexivity|right; left; reflexivity].
Qed.

Lemma run_inst_gate x : (i_data x = None \/ i_fs x = None \/ i_params x = None) -> run_inst x = inl ValueE.
Proof.
  unfold run_inst. intros [H|[H|H]]; rewrite ?H.
  - destruct (i_fs x); reflexivity.
  - reflexivity.
  - destruct (i_fs x); [destruct (i_data x)|]; reflexivity.
Qed.

Lemma run_inst_idem x x' : run_inst x = inr x' -> run_inst x' = inr x'.
Proof.
  intros H. destruct (run_inst_ok x x' H) as (p & d & f & Hp & Hd & Hf & ->).
  unfold run_inst. cbn [i_fs i_data i_params i_cls i_name i_dt]. rewrite Hf, Hd, Hp. reflexivity.
Qed.

Lemma mpe_inst_ok args x x' : mpe_inst args x = inr x' ->
  exists r p, i_result x = Some r /\ i_params x = Some p /\
    x' = mkInst (i_name x) (i_cls x) (i_params x) (i_data x) (i_fs x) (i_dt x) (i_result x) (Some (Extract2 r p (i_data x) (i_dt x) args)).
Proof.
  unfold mpe_inst. destruct (i_result x) as [r|] eqn:Er; [|discriminate]. destruct (i_params x) as [p|] eqn:Ep; [|discriminate].
  intros H. injection H as <-. exists r, p. repeat split.
Qed.

Lemma mpe_inst_err args x e : mpe_inst args x = inl e ->
  (e = ValueE /\ i_result x = None) \/ (e = AttrE /\ i_params x = None /\ i_result x <> None).
Proof.
  unfold mpe_inst. destruct (i_result x) as [r|] eqn:Er.
  - destruct (i_params x) as [p|] eqn:Ep; [discriminate|]. intros H. injection H as <-. right. repeat split. discriminate.
  - intros H. injection H as <-. left. split; reflexivity.
Qed.

Lemma wf_bind_full d f x : wf_inst x -> wf_inst (bind_full d f x).
Proof.
  intros (H1 & H2 & H3 & H4 & H5). repeat split; cbn [bind_full i_result i_cls i_params i_modes i_fs i_dt].
  - exact H1. - exact H2. - exact H3.
  - intros g Hg. exact Hg.
  - intros r _. exists f. reflexivity.
Qed.

Lemma wf_bind_part d x : wf_inst x -> wf_inst (bind_part d x).
Proof.
  intros (H1 & H2 & H3 & H4 & H5). repeat split; cbn [bind_part i_result i_cls i_params i_modes i_fs i_dt].
  - exact H1. - exact H2. - exact H3.
  - intros g Hg. discriminate.
  - exact H5.
Qed.

Lemma wf_set_params p x : wf_inst x -> wf_inst (set_params p x).
Proof.
  intros (H1 & H2 & H3 & H4 & H5). repeat split; cbn [set_params i_result i_cls i_params i_modes i_fs i_dt].
  - exact H1. - intros r _. exists p. reflexivity. - exact H3. - exact H4. - exact H5.
Qed.

Lemma wf_run x x' : wf_inst x -> run_inst x = inr x' -> wf_inst x'.
Proof.
  intros (H1 & H2 & H3 & H4 & H5) H. destruct (run_inst_ok x x' H) as (p & d & f & Hp & Hd & Hf & ->).
  repeat split; cbn [i_result i_cls i_params i_modes i_fs i_dt].
  - intros r Hr. injection Hr as <-. exists p, d, f. reflexivity.
  - intros r _. exists p. exact Hp.
  - intros m Hm. discriminate.
  - exact H4.
  - intros r _. exists f. exact (H4 f Hf).
Qed.

Lemma wf_mpe args x x' : wf_inst x -> mpe_inst args x = inr x' -> wf_inst x'.
Proof.
  intros (H1 & H2 & H3 & H4 & H5) H. destruct (mpe_inst_ok args x x' H) as (r & p & Hr & Hp & ->).
  repeat split; cbn [i_result i_cls i_params i_modes i_fs i_dt]; try assumption.
  intros m Hm. injection Hm as <-. exists p, (i_data x), (i_dt x), args, r. split; [exact Hr|reflexivity].
Qed.

(* ---------------------------------------------------------------- heaps related pointwise *)
Section Rel.
  Variable R : inst -> inst -> Prop.
  Hypothesis R_refl : forall x, R x x.
  Hypothesis R_trans : forall x y z, R x y -> R y z -> R x z.

  Definition hrel (h h':list inst) : Prop :=
    length h = length h' /\ forall j x, nth_error h j = Some x -> exists x', nth_error h' j = Some x' /\ R x x'.

  Lemma hrel_refl h : hrel h h.
  Proof. split; [reflexivity|]. intros j x H. exists x. split; [exact H|apply R_refl]. Qed.

  Lemma hrel_trans h1 h2 h3 : hrel h1 h2 -> hrel h2 h3 -> hrel h1 h3.
  Proof.
    intros [L1 H1] [L2 H2]. split; [congruence|]. intros j x Hx.
    destruct (H1 j x Hx) as (y & Hy & Rxy). destruct (H2 j y Hy) as (z & Hz & Ryz). exists z. split; [exact Hz|exact (R_trans _ _ _ Rxy Ryz)].
  Qed.

  Lemma hrel_set h i x x' : nth_error h i = Some x -> R x x' -> hrel h (set_nth i x' h).
  Proof.
    intros Hi Hr. split; [rewrite length_set_nth; reflexivity|]. intros j y Hy.
    destruct (Nat.eq_dec i j) as [->|Hne].
    - rewrite Hi in Hy. injection Hy as <-. exists x'. split; [exact (nth_set_same j x' x h Hi)|exact Hr].
    - exists y. split; [rewrite nth_set_other by exact Hne; exact Hy|apply R_refl].
  Qed.

  Lemma add_each_hrel d f l : (forall x, R x (bind_full d f x)) -> forall heap dict, hrel heap (fst (add_each d f l heap dict)).
  Proof.
    intros Hb. induction l as [|i t IH]; intros heap dict; cbn [add_each fst]; [apply hrel_refl|].
    destruct (nth_error heap i) as [x|] eqn:E; [|apply IH].
    eapply hrel_trans; [exact (hrel_set heap i x _ E (Hb x))|apply IH].
  Qed.

  Lemma run_entries_hrel l : (forall x x', run_inst x = inr x' -> R x x') -> forall heap, hrel heap (snd (run_entries l heap)).
  Proof.
    intros Hr. induction l as [|[n i] t IH]; intros heap; cbn [run_entries snd]; [apply hrel_refl|].
    destruct (nth_error heap i) as [x|] eqn:E; [|apply hrel_refl].
    destruct (run_inst x) as [e|x'] eqn:Er; [apply hrel_refl|].
    eapply hrel_trans; [exact (hrel_set heap i x x' E (Hr x x' Er))|apply IH].
  Qed.

  Lemma on_named_hrel s a g : (forall x x', g x = inr x' -> R x x') -> hrel (m_heap s) (m_heap (snd (on_named s a g))).
  Proof.
    intros Hg. unfold on_named. destruct (dlookup a (m_dict s)) as [i|]; [|apply hrel_refl].
    destruct (nth_error (m_heap s) i) as [x|] eqn:E; [|apply hrel_refl].
    destruct (g x) as [e|x'] eqn:Eg; cbn [snd set_heap m_heap]; [apply hrel_refl|]. exact (hrel_set _ i x x' E (Hg x x' Eg)).
  Qed.

  (* one step, with exactly the closure conditions the call needs *)
  Lemma mstep_hrel s o :
    (forall l, o = MAdd l -> forall d x, (forall f, R x (bind_full d f x)) /\ R x (bind_part d x)) ->
    (forall i p, o = MSet i p -> forall x, R x (set_params p x)) ->
    (o = MRunAll \/ (exists a, o = MRun a) -> forall x x', run_inst x = inr x' -> R x x') ->
    (forall a args, o = MMpe a args -> forall x x', mpe_inst args x = inr x' -> R x x') ->
    hrel (m_heap s) (m_heap (snd (mstep s o))).
  Proof.
    intros HA HS HR HM. destruct o as [l|i p|a| |a args|d f| |]; cbn [mstep].
    - destruct (negb _); [apply hrel_refl|]. destruct (m_fs s) as [f|].
      + destruct l as [|i t]; [apply hrel_refl|].
        destruct (add_each (m_data s) f (i::t) (m_heap s) (m_dict s)) as [h d] eqn:E. cbn [snd m_heap].
        pose proof (add_each_hrel (m_data s) f (i::t) (fun x => proj1 (HA _ eq_refl (m_data s) x) f) (m_heap s) (m_dict s)) as H.
        rewrite E in H. exact H.
      + destruct l as [|i t]; [apply hrel_refl|]. destruct (nth_error (m_heap s) i) as [x|] eqn:E; [|apply hrel_refl].
        cbn [snd set_heap m_heap]. exact (hrel_set _ i x _ E (proj2 (HA _ eq_refl (m_data s) x))).
    - destruct (nth_error (m_heap s) i) as [x|] eqn:E; [|apply hrel_refl]. cbn [snd set_heap m_heap].
      exact (hrel_set _ i x _ E (HS i p eq_refl x)).
    - apply on_named_hrel. apply HR. right. exists a. reflexivity.
    - destruct (run_entries (m_dict s) (m_heap s)) as [e h] eqn:E. cbn [snd set_heap m_heap].
      pose proof (run_entries_hrel (m_dict s) (HR (or_introl eq_refl)) (m_heap s)) as H. rewrite E in H. exact H.
    - apply on_named_hrel. exact (HM a args eq_refl).
    - apply hrel_refl. - apply hrel_refl. - apply hrel_refl.
  Qed.
End Rel.

Lemma hrel_proj {B} (pi:inst -> B) h h' : hrel (fun x x' => pi x' = pi x) h h' ->
  forall j, option_map pi (nth_error h' j) = option_map pi (nth_error h j).
Proof.
  intros [L H] j. destruct (nth_error h j) as [x|] eqn:E.
  - destruct (H j x E) as (x' & Hx' & Hr). rewrite Hx'. cbn [option_map]. rewrite Hr. reflexivity.
  - assert (E' : nth_error h' j = None) by (apply nth_error_None; rewrite <- L; apply nth_error_None; exact E).
    rewrite E'. reflexivity.
Qed.

Lemma hrel_back R h h' j x' : hrel R h h' -> nth_error h' j = Some x' -> exists x, nth_error h j = Some x /\ R x x'.
Proof.
  intros [L H] Hx'. destruct (nth_error h j) as [x|] eqn:E.
  - destruct (H j x E) as (y & Hy & Hr). rewrite Hx' in Hy. injection Hy as <-. exists x. split; [reflexivity|exact Hr].
  - exfalso. assert (E' : nth_error h' j = None) by (apply nth_error_None; rewrite <- L; apply nth_error_None; exact E).
    rewrite E' in Hx'. discriminate.
Qed.

(* a projection of the instances that the primitive updates of a call preserve is preserved by the call, for every instance *)
Lemma mstep_keeps {B} (pi:inst -> B) s o :
  (forall l, o = MAdd l -> forall d x, (forall f, pi (bind_full d f x) = pi x) /\ pi (bind_part d x) = pi x) ->
  (forall i p, o = MSet i p -> forall x, pi (set_params p x) = pi x) ->
  (o = MRunAll \/ (exists a, o = MRun a) -> forall x x', run_inst x = inr x' -> pi x' = pi x) ->
  (forall a args, o = MMpe a args -> forall x x', mpe_inst args x = inr x' -> pi x' = pi x) ->
  forall j, option_map pi (nth_error (m_heap (snd (mstep s o))) j) = option_map pi (nth_error (m_heap s) j).
Proof.
  intros HA HS HR HM. apply hrel_proj. apply mstep_hrel.
  - intros x. reflexivity.
  - intros x y z H1 H2. congruence.
  - exact HA. - exact HS. - exact HR. - exact HM.
Qed.

Lemma run_keeps_inputs x x' : run_inst x = inr x' -> ident_of x' = ident_of x /\ i_params x' = i_params x /\ binding3 x' = binding3 x.
Proof. intros H. destruct (run_inst_ok x x' H) as (p & d & f & _ & _ & _ & ->). repeat split. Qed.

Lemma mpe_keeps x x' args : mpe_inst args x = inr x' ->
  ident_of x' = ident_of x /\ i_params x' = i_params x /\ binding3 x' = binding3 x /\ i_result x' = i_result x.
Proof. intros H. destruct (mpe_inst_ok args x x' H) as (r & p & _ & _ & ->). repeat split. Qed.

(* name, class and the number of instances never change *)
Lemma mstep_ident s o j : option_map ident_of (nth_error (m_heap (snd (mstep s o))) j) = option_map ident_of (nth_error (m_heap s) j).
Proof.
  apply mstep_keeps.
  - intros; split; reflexivity.
  - intros; reflexivity.
  - intros _ x x' H. exact (proj1 (run_keeps_inputs x x' H)).
  - intros a args _ x x' H. exact (proj1 (mpe_keeps x x' args H)).
Qed.

(* only set_run_params changes run parameters *)
Lemma mstep_keeps_params s o j : (forall i p, o <> MSet i p) ->
  option_map i_params (nth_error (m_heap (snd (mstep s o))) j) = option_map i_params (nth_error (m_heap s) j).
Proof.
  intros Ho. apply mstep_keeps.
  - intros; split; reflexivity.
  - intros i p E. exfalso. exact (Ho i p E).
  - intros _ x x' H. exact (proj1 (proj2 (run_keeps_inputs x x' H))).
  - intros a args _ x x' H. exact (proj1 (proj2 (mpe_keeps x x' args H))).
Qed.

(* only add_algorithms changes data / fs / dt of an instance *)
Lemma mstep_keeps_binding s o j : (forall l, o <> MAdd l) ->
  option_map binding3 (nth_error (m_heap (snd (mstep s o))) j) = option_map binding3 (nth_error (m_heap s) j).
Proof.
  intros Ho. apply mstep_keeps.
  - intros l E. exfalso. exact (Ho l E).
  - intros; reflexivity.
  - intros _ x x' H. exact (proj2 (proj2 (run_keeps_inputs x x' H))).
  - intros a args _ x x' H. exact (proj1 (proj2 (proj2 (mpe_keeps x x' args H)))).
Qed.

(* only a run changes a result: add_algorithms (re-binding) and set_run_params KEEP an earlier result *)
Lemma mstep_keeps_result s o j : o <> MRunAll -> (forall a, o <> MRun a) ->
  option_map i_result (nth_error (m_heap (snd (mstep s o))) j) = option_map i_result (nth_error (m_heap s) j).
Proof.
  intros H1 H2. apply mstep_keeps.
  - intros; split; reflexivity.
  - intros; reflexivity.
  - intros [E|[a E]]; [contradiction|exfalso; exact (H2 a E)].
  - intros a args _ x x' H. exact (proj2 (proj2 (proj2 (mpe_keeps x x' args H)))).
Qed.

(* ... and only a run or an mpe changes the modes *)
Lemma mstep_keeps_modes s o j : o <> MRunAll -> (forall a, o <> MRun a) -> (forall a args, o <> MMpe a args) ->
  option_map i_modes (nth_error (m_heap (snd (mstep s o))) j) = option_map i_modes (nth_error (m_heap s) j).
Proof.
  intros H1 H2 H3. apply mstep_keeps.
  - intros; split; reflexivity.
  - intros; reflexivity.
  - intros [E|[a E]]; [contradiction|exfalso; exact (H2 a E)].
  - intros a args E. exfalso. exact (H3 a args E).
Qed.

(* ---------------------------------------------------------------- what add_algorithms and run_all do to the heap *)
Lemma bind_full_idem d f x : bind_full d f (bind_full d f x) = bind_full d f x.
Proof. reflexivity. Qed.

Lemma add_each_nth d f l : forall heap dict j,
  nth_error (fst (add_each d f l heap dict)) j =
  if existsb (Nat.eqb j) l then option_map (bind_full d f) (nth_error heap j) else nth_error heap j.
Proof.
  induction l as [|i t IH]; intros heap dict j; cbn [add_each fst existsb]; [reflexivity|].
  destruct (nth_error heap i) as [x|] eqn:E.
  - rewrite IH. destruct (Nat.eqb j i) eqn:Eji; cbn [orb].
    + apply Nat.eqb_eq in Eji. subst j. rewrite (nth_set_same i _ x heap E), E. cbn [option_map]. destruct (existsb (Nat.eqb i) t); reflexivity.
    + apply Nat.eqb_neq in Eji. rewrite nth_set_other by (intros ->; apply Eji; reflexivity). reflexivity.
  - rewrite IH. destruct (Nat.eqb j i) eqn:Eji; cbn [orb]; [|reflexivity].
    apply Nat.eqb_eq in Eji. subst j. rewrite E. destruct (existsb (Nat.eqb i) t); reflexivity.
Qed.

Lemma run_entries_frame l : forall heap j, existsb (fun nj => Nat.eqb (snd nj) j) l = false ->
  nth_error (snd (run_entries l heap)) j = nth_error heap j.
Proof.
  induction l as [|[n i] t IH]; intros heap j; cbn [run_entries snd existsb]; [reflexivity|].
  intros H. apply orb_false_iff in H. destruct H as [H1 H2]. apply Nat.eqb_neq in H1.
  destruct (nth_error heap i) as [x|]; [|reflexivity]. destruct (run_inst x) as [e|x']; [reflexivity|].
  rewrite IH by exact H2. apply nth_set_other. exact H1.
Qed.

Lemma on_named_frame s a g j : match dlookup a (m_dict s) with Some i => Nat.eqb i j | None => false end = false ->
  nth_error (m_heap (snd (on_named s a g))) j = nth_error (m_heap s) j.
Proof.
  unfold on_named. destruct (dlookup a (m_dict s)) as [i|]; [|reflexivity]. intros H. apply Nat.eqb_neq in H.
  destruct (nth_error (m_heap s) i) as [x|]; [|reflexivity]. destruct (g x) as [e|x']; [reflexivity|].
  cbn [snd set_heap m_heap]. apply nth_set_other. exact H.
Qed.

(* ---------------------------------------------------------------- isolation: an instance a call cannot reach is untouched *)
Lemma mframe s o i : touches s o i = false -> nth_error (m_heap (snd (mstep s o))) i = nth_error (m_heap s) i.
Proof.
  destruct o as [l|j p|a| |a args|d f| |]; cbn [mstep touches]; intros Ht; try reflexivity.
  - destruct (negb _); [reflexivity|]. destruct (m_fs s) as [f|].
    + destruct l as [|k t]; [reflexivity|].
      destruct (add_each (m_data s) f (k::t) (m_heap s) (m_dict s)) as [h d] eqn:E. cbn [snd m_heap].
      pose proof (add_each_nth (m_data s) f (k::t) (m_heap s) (m_dict s) i) as H. rewrite E in H. cbn [fst] in H.
      rewrite H, Ht. reflexivity.
    + destruct l as [|k t]; [reflexivity|]. cbn [existsb] in Ht. apply orb_false_iff in Ht. destruct Ht as [Ht _].
      apply Nat.eqb_neq in Ht. destruct (nth_error (m_heap s) k) as [x|]; [|reflexivity].
      cbn [snd set_heap m_heap]. apply nth_set_other. intros ->. apply Ht. reflexivity.
  - apply Nat.eqb_neq in Ht. destruct (nth_error (m_heap s) j) as [x|]; [|reflexivity].
    cbn [snd set_heap m_heap]. apply nth_set_other. exact Ht.
  - apply on_named_frame. destruct (dlookup a (m_dict s)); [|reflexivity]. exact Ht.
  - destruct (run_entries (m_dict s) (m_heap s)) as [e h] eqn:E. cbn [snd set_heap m_heap].
    pose proof (run_entries_frame (m_dict s) (m_heap s) i Ht) as H. rewrite E in H. exact H.
  - apply on_named_frame. destruct (dlookup a (m_dict s)); [|reflexivity]. exact Ht.
Qed.

(* the setup's own data / fs change by preprocessing and rollback only; its dict by add_algorithms and rollback only *)
Lemma on_named_rest s a g : m_data (snd (on_named s a g)) = m_data s /\ m_fs (snd (on_named s a g)) = m_fs s /\
  m_dict (snd (on_named s a g)) = m_dict s /\ m_init (snd (on_named s a g)) = m_init s.
Proof.
  unfold on_named. destruct (dlookup a (m_dict s)) as [i|]; [|repeat split].
  destruct (nth_error (m_heap s) i) as [x|]; [|repeat split]. destruct (g x); repeat split.
Qed.

Lemma mframe_data s o : (forall d f, o <> MRebind d f) -> o <> MRollback ->
  m_data (snd (mstep s o)) = m_data s /\ m_fs (snd (mstep s o)) = m_fs s.
Proof.
  destruct o as [l|j p|a| |a args|d f| |]; cbn [mstep]; intros H1 H2.
  - destruct (negb _); [split; reflexivity|]. destruct (m_fs s) as [f|] eqn:Ef.
    + destruct l as [|k t]; [cbn [snd]; rewrite Ef; split; reflexivity|]. destruct (add_each _ _ _ _ _). cbn [snd m_data m_fs]. rewrite ?Ef. split; reflexivity.
    + destruct l as [|k t]; [cbn [snd]; rewrite Ef; split; reflexivity|]. destruct (nth_error (m_heap s) k); cbn [snd set_heap m_data m_fs]; rewrite ?Ef; split; reflexivity.
  - destruct (nth_error (m_heap s) j); split; reflexivity.
  - destruct (on_named_rest s a run_inst) as (A & B & _). split; assumption.
  - destruct (run_entries _ _). split; reflexivity.
  - destruct (on_named_rest s a (mpe_inst args)) as (A & B & _). split; assumption.
  - exfalso. exact (H1 d f eq_refl).
  - contradiction.
  - split; reflexivity.
Qed.

Lemma mframe_dict s o : (forall l, o <> MAdd l) -> o <> MRollback -> m_dict (snd (mstep s o)) = m_dict s.
Proof.
  destruct o as [l|j p|a| |a args|d f| |]; cbn [mstep]; intros H1 H2.
  - exfalso. exact (H1 l eq_refl).
  - destruct (nth_error (m_heap s) j); reflexivity.
  - exact (proj1 (proj2 (proj2 (on_named_rest s a run_inst)))).
  - destruct (run_entries _ _). reflexivity.
  - exact (proj1 (proj2 (proj2 (on_named_rest s a (mpe_inst args))))).
  - reflexivity.
  - contradiction.
  - reflexivity.
Qed.

(* ---------------------------------------------------------------- gates: an exception and nothing at all is stored *)
Lemma mgate_run s a i x : dlookup a (m_dict s) = Some i -> nth_error (m_heap s) i = Some x ->
  (i_data x = None \/ i_fs x = None \/ i_params x = None) -> mstep s (MRun a) = (Some ValueE, s).
Proof. intros Hd Hx Hg. cbn [mstep]. unfold on_named. rewrite Hd, Hx, (run_inst_gate x Hg). reflexivity. Qed.

Lemma mgate_run_unknown s a : dlookup a (m_dict s) = None -> mstep s (MRun a) = (Some KeyE, s).
Proof. intros Hd. cbn [mstep]. unfold on_named. rewrite Hd. reflexivity. Qed.

Lemma mrun_ok_iff s a : fst (mstep s (MRun a)) = None <->
  exists i x p d f, dlookup a (m_dict s) = Some i /\ nth_error (m_heap s) i = Some x /\
                    i_params x = Some p /\ i_data x = Some d /\ i_fs x = Some f.
Proof.
  cbn [mstep]. unfold on_named. destruct (dlookup a (m_dict s)) as [i|] eqn:Hd; cbn [fst].
  2:{ split; [discriminate|intros (i & x & p & d & f & H & _); discriminate]. }
  destruct (nth_error (m_heap s) i) as [x|] eqn:Hx; cbn [fst].
  2:{ split; [discriminate|intros (j & x & p & d & f & H & H2 & _)]. injection H as <-. rewrite Hx in H2. discriminate. }
  destruct (run_inst x) as [e|x'] eqn:Er; cbn [fst]; split.
  - discriminate.
  - intros (j & y & p & d & f & H & H2 & Hp & Hdd & Hf). injection H as <-. rewrite Hx in H2. injection H2 as <-.
    unfold run_inst in Er. rewrite Hf, Hdd, Hp in Er. discriminate.
  - intros _. destruct (run_inst_ok x x' Er) as (p & d & f & Hp & Hdd & Hf & _). exists i, x, p, d, f. repeat split; assumption.
  - reflexivity.
Qed.

Lemma mgate_mpe s a i x args : dlookup a (m_dict s) = Some i -> nth_error (m_heap s) i = Some x -> i_result x = None ->
  mstep s (MMpe a args) = (Some ValueE, s).
Proof. intros Hd Hx Hr. cbn [mstep]. unfold on_named, mpe_inst. rewrite Hd, Hx, Hr. reflexivity. Qed.

Lemma mgate_mpe_unknown s a args : dlookup a (m_dict s) = None -> mstep s (MMpe a args) = (Some KeyE, s).
Proof. intros Hd. cbn [mstep]. unfold on_named. rewrite Hd. reflexivity. Qed.

(* every call but run_all and add_algorithms is atomic *)
Lemma on_named_err s a g : fst (on_named s a g) <> None -> snd (on_named s a g) = s.
Proof.
  unfold on_named. destruct (dlookup a (m_dict s)) as [i|]; [|reflexivity].
  destruct (nth_error (m_heap s) i) as [x|]; [|reflexivity]. destruct (g x); cbn [fst snd]; [reflexivity|contradiction].
Qed.

Lemma merr_unchanged s o : o <> MRunAll -> (forall l, o <> MAdd l) -> fst (mstep s o) <> None -> snd (mstep s o) = s.
Proof.
  destruct o as [l|j p|a| |a args|d f| |]; cbn [mstep]; intros H1 H2 H.
  - exfalso. exact (H2 l eq_refl).
  - destruct (nth_error (m_heap s) j); cbn [fst snd] in *; [contradiction|reflexivity].
  - apply on_named_err. exact H.
  - contradiction.
  - apply on_named_err. exact H.
  - cbn [fst] in H. contradiction.
  - cbn [fst] in H. contradiction.
  - cbn [fst] in H. contradiction.
Qed.

(* add_algorithms that raises: either a handle does not exist (nothing happened), or the setup has no fs: TypeError out of
   _set_data of the first instance - the dict, the setup and every stored parameter / result / mode are as before; only
   data and fs of that first instance were overwritten *)
Lemma madd_exception s l e : fst (mstep s (MAdd l)) = Some e ->
  m_dict (snd (mstep s (MAdd l))) = m_dict s /\ m_data (snd (mstep s (MAdd l))) = m_data s /\ m_fs (snd (mstep s (MAdd l))) = m_fs s /\
  (forall j, option_map stored_of (nth_error (m_heap (snd (mstep s (MAdd l)))) j) = option_map stored_of (nth_error (m_heap s) j)) /\
  (forall j, j <> hd 0 l -> nth_error (m_heap (snd (mstep s (MAdd l)))) j = nth_error (m_heap s) j) /\
  (e = NameE /\ snd (mstep s (MAdd l)) = s \/ e = TypeE /\ m_fs s = None).
Proof.
  cbn [mstep]. destruct (negb _).
  { cbn [fst snd]. intros H. injection H as <-. repeat split. left. split; reflexivity. }
  destruct (m_fs s) as [f|] eqn:Ef.
  { destruct l as [|k t]; [discriminate|]. destruct (add_each _ _ _ _ _). discriminate. }
  destruct l as [|k t]; [discriminate|]. destruct (nth_error (m_heap s) k) as [x|] eqn:Ex; cbn [fst snd].
  - intros H. injection H as <-. cbn [set_heap m_dict m_data m_fs m_heap hd]. rewrite Ef. repeat split.
    + intros j. destruct (Nat.eq_dec k j) as [->|Hne].
      * rewrite (nth_set_same j _ x _ Ex), Ex. reflexivity.
      * rewrite nth_set_other by exact Hne. reflexivity.
    + intros j Hj. apply nth_set_other. intros ->. apply Hj. reflexivity.
    + right. split; reflexivity.
  - intros H. injection H as <-. rewrite Ef. repeat split. left. split; reflexivity.
Qed.

(* run_all that raises: the entries before the failing one have run (the heap is that of a complete run_all over them),
   the failing instance gates (or the entry dangles), nothing after it was touched *)
Lemma run_entries_err l : forall heap e heap', run_entries l heap = (Some e, heap') ->
  exists pre n i post, l = pre ++ (n,i) :: post /\ run_entries pre heap = (None, heap') /\
    (nth_error heap' i = None /\ e = KeyE \/ exists x, nth_error heap' i = Some x /\ run_inst x = inl e).
Proof.
  induction l as [|[n i] t IH]; intros heap e heap'; cbn [run_entries]; [discriminate|].
  destruct (nth_error heap i) as [x|] eqn:Ex.
  - destruct (run_inst x) as [e0|x'] eqn:Er.
    + intros H. injection H as <- <-. exists [], n, i, t. repeat split. right. exists x. split; assumption.
    + intros H. destruct (IH _ _ _ H) as (pre & m & j & post & -> & Hpre & Hj).
      exists ((n,i)::pre), m, j, post. repeat split; [|exact Hj]. cbn [run_entries]. rewrite Ex, Er. exact Hpre.
  - intros H. injection H as <- <-. exists [], n, i, t. repeat split. left. split; [exact Ex|reflexivity].
Qed.

Lemma mrun_all_exception s e : fst (mstep s MRunAll) = Some e ->
  exists pre n i post, m_dict s = pre ++ (n,i) :: post /\
    run_entries pre (m_heap s) = (None, m_heap (snd (mstep s MRunAll))) /\
    snd (mstep s MRunAll) = set_heap s (m_heap (snd (mstep s MRunAll))) /\
    (nth_error (m_heap (snd (mstep s MRunAll))) i = None /\ e = KeyE \/
     exists x, nth_error (m_heap (snd (mstep s MRunAll))) i = Some x /\ run_inst x = inl e /\ e = ValueE /\
               (i_data x = None \/ i_fs x = None \/ i_params x = None)).
Proof.
  cbn [mstep]. destruct (run_entries (m_dict s) (m_heap s)) as [e0 h] eqn:E. cbn [fst snd set_heap m_heap]. intros ->.
  destruct (run_entries_err _ _ _ _ E) as (pre & n & i & post & Hl & Hpre & Hi).
  exists pre, n, i, post. repeat split; [exact Hl|exact Hpre|].
  destruct Hi as [Hi|(x & Hx & Hr)]; [left; exact Hi|right]. exists x. destruct (run_inst_err x e Hr) as [He Hg]. repeat split; assumption.
Qed.

(* ---------------------------------------------------------------- invariants over every history *)
Definition dict_ok (heap:list inst) (dict:list (name*iid)) : Prop :=
  NoDup (map fst dict) /\ forall n i, In (n,i) dict -> exists x, nth_error heap i = Some x /\ i_name x = n.

Definition wf_m (s:mstate) : Prop :=
  dict_ok (m_heap s) (m_dict s) /\ forall j x, nth_error (m_heap s) j = Some x -> wf_inst x.

Lemma dict_ok_heap heap heap' dict : dict_ok heap dict ->
  (forall j, option_map ident_of (nth_error heap' j) = option_map ident_of (nth_error heap j)) -> dict_ok heap' dict.
Proof.
  intros [Hn He] Hid. split; [exact Hn|]. intros n i Hin. destruct (He n i Hin) as (x & Hx & Hnm).
  specialize (Hid i). rewrite Hx in Hid. destruct (nth_error heap' i) as [x'|]; [|discriminate].
  cbn [option_map] in Hid. injection Hid as H1 _. exists x'. split; [reflexivity|congruence].
Qed.

Lemma dict_ok_dupsert heap dict i x : dict_ok heap dict -> nth_error heap i = Some x -> dict_ok heap (dupsert (i_name x) i dict).
Proof.
  intros [Hn He] Hx. split; [apply nodup_dupsert; exact Hn|]. intros n j Hin.
  destruct (in_dupsert _ _ _ _ _ Hn Hin) as [[-> ->]|[_ Hold]]; [exists x; split; [exact Hx|reflexivity]|exact (He n j Hold)].
Qed.

Lemma add_each_dict_ok d f l : forall heap dict, dict_ok heap dict ->
  dict_ok (fst (add_each d f l heap dict)) (snd (add_each d f l heap dict)).
Proof.
  induction l as [|i t IH]; intros heap dict Hok; cbn [add_each fst snd]; [exact Hok|].
  destruct (nth_error heap i) as [x|] eqn:Ex; [|apply IH; exact Hok]. apply IH.
  assert (Hx1 : nth_error (set_nth i (bind_full d f x) heap) i = Some (bind_full d f x)) by exact (nth_set_same i _ x heap Ex).
  apply (dict_ok_dupsert _ _ i (bind_full d f x)); [|exact Hx1].
  apply (dict_ok_heap heap); [exact Hok|]. intros j. destruct (Nat.eq_dec i j) as [->|Hne].
  - rewrite Hx1, Ex. reflexivity.
  - rewrite nth_set_other by exact Hne. reflexivity.
Qed.

Lemma wf_mnew d f heap : (forall j x, nth_error heap j = Some x -> fresh_inst x) -> wf_m (new_mstate d f heap).
Proof.
  intros Hf. split; cbn [new_mstate m_heap m_dict].
  - split; [constructor|intros n i []].
  - intros j x Hx. apply wf_fresh_inst. exact (Hf j x Hx).
Qed.

Lemma mstep_wf s o : wf_m s -> wf_m (snd (mstep s o)).
Proof.
  intros [Hd Hw]. split.
  - (* the dict *)
    assert (Hkeep : dict_ok (m_heap (snd (mstep s o))) (m_dict s)).
    { apply (dict_ok_heap (m_heap s)); [exact Hd|]. intros j. apply mstep_ident. }
    destruct o as [l|j p|a| |a args|d f| |]; try (rewrite mframe_dict by (try discriminate; intros; discriminate); exact Hkeep).
    + cbn [mstep] in *. destruct (negb _); [exact Hd|]. destruct (m_fs s) as [f|].
      * destruct l as [|k t]; [exact Hd|].
        pose proof (add_each_dict_ok (m_data s) f (k::t) (m_heap s) (m_dict s) Hd) as H.
        destruct (add_each (m_data s) f (k::t) (m_heap s) (m_dict s)) as [h dd]. exact H.
      * destruct l as [|k t]; [exact Hd|]. destruct (nth_error (m_heap s) k); exact Hkeep.
    + cbn [mstep snd m_heap m_dict]. split; [constructor|intros n i []].
  - (* every instance *)
    intros j x' Hx'.
    assert (H : hrel (fun x y => wf_inst x -> wf_inst y) (m_heap s) (m_heap (snd (mstep s o)))).
    { apply mstep_hrel.
      - intros x H. exact H.
      - intros x y z H1 H2 H. exact (H2 (H1 H)).
      - intros l _ d x. split; [intros f; apply wf_bind_full|apply wf_bind_part].
      - intros i p _ x. apply wf_set_params.
      - intros _ x y Hr Hx. exact (wf_run x y Hx Hr).
      - intros a args _ x y Hr Hx. exact (wf_mpe args x y Hx Hr). }
    destruct (hrel_back _ _ _ j x' H Hx') as (x & Hx & Hr). exact (Hr (Hw j x Hx)).
Qed.

Lemma mexec_wf h : forall s, wf_m s -> wf_m (mexec h s).
Proof. induction h as [|o t IH]; intros s H; cbn [mexec fold_left]; [exact H|]. apply IH. apply mstep_wf. exact H. Qed.

Lemma mexec_app h1 h2 s : mexec (h1 ++ h2) s = mexec h2 (mexec h1 s).
Proof. unfold mexec. apply fold_left_app. Qed.

Lemma mexec_ident h : forall s j, option_map ident_of (nth_error (m_heap (mexec h s)) j) = option_map ident_of (nth_error (m_heap s) j).
Proof. induction h as [|o t IH]; intros s j; cbn [mexec fold_left]; [reflexivity|]. fold (mexec t (snd (mstep s o))). rewrite IH. apply mstep_ident. Qed.

(* a name in the dict is the name of the instance it leads to; so one instance sits under at most one key *)
Lemma dict_name s a i x : wf_m s -> dlookup a (m_dict s) = Some i -> nth_error (m_heap s) i = Some x -> i_name x = a.
Proof.
  intros [[_ He] _] Hd Hx. destruct (He a i (dlookup_in a i _ Hd)) as (y & Hy & Hn). rewrite Hx in Hy. injection Hy as <-. exact Hn.
Qed.

Definition is_mrun (o:mop) (a:name) : bool := match o with MRun b => Nat.eqb b a | MRunAll => true | _ => false end.

Lemma runs_name s o i x : wf_m s -> nth_error (m_heap s) i = Some x -> runs s o i = true -> is_mrun o (i_name x) = true.
Proof.
  intros Hw Hx. destruct o as [l|j p|a| |a args|d f| |]; cbn [runs is_mrun]; try discriminate; [|reflexivity].
  destruct (dlookup a (m_dict s)) as [j|] eqn:Hd; [|discriminate]. intros H. apply Nat.eqb_eq in H. subst j.
  rewrite (dict_name s a i x Hw Hd Hx). apply Nat.eqb_refl.
Qed.

(* ---------------------------------------------------------------- a stored result changes by a run of that name only *)
Lemma mresult_step s o i x : wf_m s -> nth_error (m_heap s) i = Some x -> is_mrun o (i_name x) = false ->
  option_map i_result (nth_error (m_heap (snd (mstep s o))) i) = Some (i_result x).
Proof.
  intros Hw Hx Hr. assert (Hruns : runs s o i = false).
  { destruct (runs s o i) eqn:E; [|reflexivity]. rewrite (runs_name s o i x Hw Hx E) in Hr. discriminate. }
  destruct o as [l|j p|a| |a args|d f| |]; try (rewrite mstep_keeps_result by (try discriminate; intros; discriminate); rewrite Hx; reflexivity).
  rewrite mframe; [rewrite Hx; reflexivity|]. cbn [touches runs] in *. exact Hruns.
Qed.

Lemma mresult_stable h : forall s i x, wf_m s -> nth_error (m_heap s) i = Some x ->
  (forall o, In o h -> is_mrun o (i_name x) = false) ->
  exists x', nth_error (m_heap (mexec h s)) i = Some x' /\ i_result x' = i_result x /\ ident_of x' = ident_of x.
Proof.
  induction h as [|o t IH]; intros s i x Hw Hx Hh; cbn [mexec fold_left].
  - exists x. repeat split. exact Hx.
  - fold (mexec t (snd (mstep s o))).
    pose proof (mresult_step s o i x Hw Hx (Hh o (or_introl eq_refl))) as Hr.
    pose proof (mstep_ident s o i) as Hi. rewrite Hx in Hi.
    destruct (nth_error (m_heap (snd (mstep s o))) i) as [x1|] eqn:Hx1; [|discriminate].
    cbn [option_map] in Hr, Hi. injection Hr as Hr. injection Hi as Hi1 Hi2.
    destruct (IH (snd (mstep s o)) i x1 (mstep_wf s o Hw) Hx1) as (x2 & Hx2 & Hr2 & Hi2').
    { intros o' Hin. rewrite Hi1. apply Hh. right. exact Hin. }
    exists x2. repeat split; [exact Hx2|congruence|]. rewrite Hi2'. unfold ident_of. congruence.
Qed.

(* ---------------------------------------------------------------- what one successful run stores *)
Lemma mrun_spec s a i x p d f : dlookup a (m_dict s) = Some i -> nth_error (m_heap s) i = Some x ->
  i_params x = Some p -> i_data x = Some d -> i_fs x = Some f ->
  mstep s (MRun a) = (None, set_heap s (set_nth i (mkInst (i_name x) (i_cls x) (i_params x) (i_data x) (i_fs x) (i_dt x)
                                                         (Some (Run (i_cls x) p d f)) None) (m_heap s))).
Proof. intros Hd Hx Hp Hdd Hf. cbn [mstep]. unfold on_named, run_inst. rewrite Hd, Hx, Hf, Hdd, Hp. reflexivity. Qed.

(* THE RESULT IS A FUNCTION OF THE INSTANCE'S OWN INPUTS AT ITS LATEST RUN.  After any history h1, a successful
   run_by_name(a) and any history h2 without a run of that name - other algorithms running, set_run_params (also on this
   very instance), add_algorithms again (re-binding it, or replacing its dict entry by a namesake), mpe, preprocessing,
   rollback, save/load - the instance holds exactly Run of ITS class, the parameters and the data / fs it had when
   run_by_name(a) was called: a later set_run_params or re-binding does not reach back into the stored result, an earlier
   one is what the run used. *)
Lemma mresult_is_latest_run h1 a h2 s0 i x p d f : wf_m s0 ->
  dlookup a (m_dict (mexec h1 s0)) = Some i -> nth_error (m_heap (mexec h1 s0)) i = Some x ->
  i_params x = Some p -> i_data x = Some d -> i_fs x = Some f ->
  (forall o, In o h2 -> is_mrun o a = false) ->
  exists x', nth_error (m_heap (mexec (h1 ++ MRun a :: h2) s0)) i = Some x' /\
             i_result x' = Some (Run (i_cls x) p d f) /\ ident_of x' = ident_of x.
Proof.
  intros Hw Hd Hx Hp Hdd Hf Hh. rewrite mexec_app. cbn [mexec fold_left]. fold (mexec h2 (snd (mstep (mexec h1 s0) (MRun a)))).
  pose proof (mexec_wf h1 s0 Hw) as Hw1. pose proof (mstep_wf _ (MRun a) Hw1) as Hw2.
  rewrite (mrun_spec _ a i x p d f Hd Hx Hp Hdd Hf) in *. cbn [snd] in *.
  set (x1 := mkInst (i_name x) (i_cls x) (i_params x) (i_data x) (i_fs x) (i_dt x) (Some (Run (i_cls x) p d f)) None) in *.
  assert (Hx1 : nth_error (m_heap (set_heap (mexec h1 s0) (set_nth i x1 (m_heap (mexec h1 s0))))) i = Some x1)
    by (cbn [set_heap m_heap]; exact (nth_set_same i x1 x _ Hx)).
  destruct (mresult_stable h2 _ i x1 Hw2 Hx1) as (x2 & Hx2 & Hr2 & Hi2).
  { intros o Hin. cbn [x1 i_name]. rewrite (dict_name _ a i x Hw1 Hd Hx). exact (Hh o Hin). }
  exists x2. repeat split; [exact Hx2|rewrite Hr2; reflexivity|rewrite Hi2; reflexivity].
Qed.

(* "a later run uses the new parameters": set_run_params, then run_by_name *)
Lemma mset_then_run s i x a p d f : wf_m s -> dlookup a (m_dict s) = Some i -> nth_error (m_heap s) i = Some x ->
  i_data x = Some d -> i_fs x = Some f ->
  exists x', nth_error (m_heap (mexec [MSet i p; MRun a] s)) i = Some x' /\ i_result x' = Some (Run (i_cls x) p d f) /\
             i_params x' = Some p.
Proof.
  intros Hw Hd Hx Hdd Hf. cbn [mexec fold_left]. cbn [mstep]. rewrite Hx. cbn [snd].
  assert (Hx1 : nth_error (m_heap (set_heap s (set_nth i (set_params p x) (m_heap s)))) i = Some (set_params p x))
    by (cbn [set_heap m_heap]; exact (nth_set_same i _ x _ Hx)).
  unfold on_named. cbn [set_heap m_dict m_heap] in *. rewrite Hd, Hx1. unfold run_inst. cbn [set_params i_fs i_data i_params i_cls i_name i_dt].
  rewrite Hf, Hdd. cbn [snd set_heap m_heap]. eexists. split; [apply (nth_set_same i _ (set_params p x)); exact Hx1|]. split; reflexivity.
Qed.

(* set_run_params: the parameters of that instance, nothing else anywhere *)
Lemma mset_spec s i x p : nth_error (m_heap s) i = Some x ->
  mstep s (MSet i p) = (None, set_heap s (set_nth i (set_params p x) (m_heap s))).
Proof. intros Hx. cbn [mstep]. rewrite Hx. reflexivity. Qed.

(* add_algorithms(one instance) on a setup with fs: the instance is re-bound to the setup's CURRENT data and fs, keeps
   its parameters, result and modes, and the dict maps its name to it - whoever was there before (itself: re-adding the
   same instance; a namesake: replaced, and by mframe left exactly as it was) *)
Lemma madd_one_spec s i x f : m_fs s = Some f -> nth_error (m_heap s) i = Some x ->
  mstep s (MAdd [i]) = (None, mkM (m_data s) (m_fs s) (m_init s) (set_nth i (bind_full (m_data s) f x) (m_heap s))
                                  (dupsert (i_name x) i (m_dict s))).
Proof.
  intros Hf Hx. cbn [mstep forallb]. assert (Hlt : Nat.ltb i (length (m_heap s)) = true).
  { apply Nat.ltb_lt. apply nth_error_Some. rewrite Hx. discriminate. }
  rewrite Hlt. cbn [andb negb]. rewrite Hf. cbn [add_each]. rewrite Hx. reflexivity.
Qed.

Lemma madd_one_dict s i x f : m_fs s = Some f -> nth_error (m_heap s) i = Some x ->
  dlookup (i_name x) (m_dict (snd (mstep s (MAdd [i])))) = Some i /\
  (forall b, b <> i_name x -> dlookup b (m_dict (snd (mstep s (MAdd [i])))) = dlookup b (m_dict s)) /\
  map fst (m_dict (snd (mstep s (MAdd [i])))) =
    match dlookup (i_name x) (m_dict s) with Some _ => map fst (m_dict s) | None => map fst (m_dict s) ++ [i_name x] end.
Proof.
  intros Hf Hx. rewrite (madd_one_spec s i x f Hf Hx). cbn [snd m_dict]. repeat split.
  - apply dlookup_dupsert_same.
  - intros b Hb. apply dlookup_dupsert_other. intros E. apply Hb. symmetry. exact E.
  - apply keys_dupsert.
Qed.

(* add_algorithms(i1, .., ik) = add_algorithms(i1); ..; add_algorithms(ik) on a setup with fs and existing handles *)
Lemma add_each_length d f l : forall heap dict, length (fst (add_each d f l heap dict)) = length heap.
Proof.
  induction l as [|i t IH]; intros heap dict; cbn [add_each fst]; [reflexivity|].
  destruct (nth_error heap i); rewrite IH; [apply length_set_nth|reflexivity].
Qed.

Lemma madd_cons s i t f : m_fs s = Some f -> forallb (fun j => Nat.ltb j (length (m_heap s))) (i::t) = true ->
  snd (mstep s (MAdd (i::t))) = snd (mstep (snd (mstep s (MAdd [i]))) (MAdd t)) /\ fst (mstep s (MAdd (i::t))) = None.
Proof.
  intros Hf Hv. cbn [forallb] in Hv. apply andb_true_iff in Hv. destruct Hv as [Hi Ht].
  assert (Hx : exists x, nth_error (m_heap s) i = Some x).
  { apply Nat.ltb_lt in Hi. destruct (nth_error (m_heap s) i) as [x|] eqn:E; [exists x; reflexivity|]. apply nth_error_None in E. lia. }
  destruct Hx as [x Hx]. rewrite (madd_one_spec s i x f Hf Hx). cbn [snd].
  cbn [mstep forallb m_heap m_fs m_data m_dict m_init]. rewrite Hi, length_set_nth, Ht. cbn [andb negb]. rewrite Hf.
  cbn [add_each]. rewrite Hx. destruct t as [|k t'].
  - cbn [add_each]. split; reflexivity.
  - destruct (add_each (m_data s) f (k::t') _ _) as [h dd]. split; reflexivity.
Qed.

(* ---------------------------------------------------------------- an algorithm never run has no result; mpe is gated *)
Lemma mnever_run_no_result d0 f0 heap h i x : (forall j y, nth_error heap j = Some y -> fresh_inst y) ->
  nth_error heap i = Some x -> (forall o, In o h -> is_mrun o (i_name x) = false) ->
  exists x', nth_error (m_heap (mexec h (new_mstate d0 f0 heap))) i = Some x' /\ i_result x' = None /\ ident_of x' = ident_of x.
Proof.
  intros Hfr Hx Hh. destruct (mresult_stable h (new_mstate d0 f0 heap) i x (wf_mnew d0 f0 heap Hfr) Hx Hh) as (x' & Hx' & Hr & Hi).
  exists x'. repeat split; [exact Hx'| |exact Hi]. rewrite Hr. exact (proj1 (proj2 (proj2 (proj2 (Hfr i x Hx))))).
Qed.

Lemma mnever_run_mpe_gated d0 f0 heap h a args : (forall j y, nth_error heap j = Some y -> fresh_inst y) ->
  (forall o, In o h -> is_mrun o a = false) ->
  let s := mexec h (new_mstate d0 f0 heap) in
  mstep s (MMpe a args) = (Some (match dlookup a (m_dict s) with None => KeyE | Some _ => ValueE end), s).
Proof.
  intros Hfr Hh. cbn zeta. set (s := mexec h (new_mstate d0 f0 heap)).
  assert (Hw : wf_m s) by (apply mexec_wf; apply wf_mnew; exact Hfr).
  destruct (dlookup a (m_dict s)) as [i|] eqn:Hd; [|apply mgate_mpe_unknown; exact Hd].
  destruct Hw as [[Hn He] Hwi]. destruct (He a i (dlookup_in a i _ Hd)) as (x' & Hx' & Hnm).
  apply (mgate_mpe s a i x' args Hd Hx').
  pose proof (mexec_ident h (new_mstate d0 f0 heap) i) as Hid. fold s in Hid. rewrite Hx' in Hid.
  cbn [new_mstate m_heap] in Hid. destruct (nth_error heap i) as [x|] eqn:Hx; [|discriminate].
  cbn [option_map] in Hid. injection Hid as Hid1 _.
  destruct (mnever_run_no_result d0 f0 heap h i x Hfr Hx) as (x2 & Hx2 & Hr2 & _).
  { intros o Hin. rewrite <- Hid1, Hnm. exact (Hh o Hin). }
  fold s in Hx2. rewrite Hx' in Hx2. injection Hx2 as <-. exact Hr2.
Qed.

(* ---------------------------------------------------------------- idempotent re-run *)
Lemma midempotent_rerun s a : fst (mstep s (MRun a)) = None ->
  mstep (snd (mstep s (MRun a))) (MRun a) = (None, snd (mstep s (MRun a))).
Proof.
  cbn [mstep]. unfold on_named. destruct (dlookup a (m_dict s)) as [i|] eqn:Hd; cbn [fst snd]; [|discriminate].
  destruct (nth_error (m_heap s) i) as [x|] eqn:Hx; cbn [fst snd]; [|discriminate].
  destruct (run_inst x) as [e|x'] eqn:Er; cbn [fst snd]; [discriminate|]. intros _.
  cbn [set_heap m_dict m_heap]. rewrite Hd, (nth_set_same i x' x _ Hx), (run_inst_idem x x' Er).
  cbn [set_heap m_data m_fs m_init m_heap m_dict]. rewrite set_nth_twice. reflexivity.
Qed.

Definition run_fixed (heap:list inst) (i:iid) : Prop := exists x, nth_error heap i = Some x /\ run_inst x = inr x.

Lemma run_fixed_set heap i j x x' : nth_error heap j = Some x -> run_inst x' = inr x' -> run_fixed heap i -> run_fixed (set_nth j x' heap) i.
Proof.
  intros Hj Hx' (y & Hy & Hr). destruct (Nat.eq_dec j i) as [->|Hne].
  - exists x'. split; [exact (nth_set_same i x' x heap Hj)|exact Hx'].
  - exists y. split; [rewrite nth_set_other by exact Hne; exact Hy|exact Hr].
Qed.

Lemma run_entries_fixed l : forall heap heap', run_entries l heap = (None, heap') ->
  (forall i, run_fixed heap i -> run_fixed heap' i) /\ forall n i, In (n,i) l -> run_fixed heap' i.
Proof.
  induction l as [|[n i] t IH]; intros heap heap'; cbn [run_entries].
  - intros H. injection H as <-. split; [intros i H; exact H|intros n i []].
  - destruct (nth_error heap i) as [x|] eqn:Hx; [|discriminate]. destruct (run_inst x) as [e|x'] eqn:Er; [discriminate|].
    intros H. destruct (IH _ _ H) as [Hkeep Hall]. pose proof (run_inst_idem x x' Er) as Hid. split.
    + intros j Hj. apply Hkeep. exact (run_fixed_set heap j i x x' Hx Hid Hj).
    + intros m j [Hin|Hin]; [|exact (Hall m j Hin)]. injection Hin as _ <-. apply Hkeep.
      exists x'. split; [exact (nth_set_same i x' x heap Hx)|exact Hid].
Qed.

Lemma run_entries_again l : forall heap, (forall n i, In (n,i) l -> run_fixed heap i) -> run_entries l heap = (None, heap).
Proof.
  induction l as [|[n i] t IH]; intros heap H; cbn [run_entries]; [reflexivity|].
  destruct (H n i (or_introl eq_refl)) as (x & Hx & Hr). rewrite Hx, Hr, (set_nth_id i x heap Hx).
  apply IH. intros m j Hin. apply (H m j). right. exact Hin.
Qed.

Lemma midempotent_run_all s : fst (mstep s MRunAll) = None -> mstep (snd (mstep s MRunAll)) MRunAll = (None, snd (mstep s MRunAll)).
Proof.
  cbn [mstep]. destruct (run_entries (m_dict s) (m_heap s)) as [e h] eqn:E. cbn [fst snd set_heap m_dict m_heap]. intros ->.
  rewrite (run_entries_again (m_dict s) h (proj2 (run_entries_fixed _ _ _ E))). reflexivity.
Qed.

(* ---------------------------------------------------------------- run_all = run_by_name over the names in dict order *)
Lemma mrun_names_stuck e s ns : fold_left mrun_step ns (Some e, s) = (Some e, s).
Proof. induction ns as [|n t IH]; cbn [fold_left]; [reflexivity|exact IH]. Qed.

Lemma mrun_all_fold_gen s rest : (forall n i, In (n,i) rest -> dlookup n (m_dict s) = Some i) -> forall heap,
  fold_left mrun_step (map fst rest) (None, set_heap s heap) = (fst (run_entries rest heap), set_heap s (snd (run_entries rest heap))).
Proof.
  induction rest as [|[n i] t IH]; intros Hin heap; cbn [map fst fold_left run_entries]; [reflexivity|].
  unfold mrun_step at 2. cbn [fst snd mstep]. unfold on_named. cbn [set_heap m_dict m_heap].
  rewrite (Hin n i (or_introl eq_refl)). destruct (nth_error heap i) as [x|]; [|apply mrun_names_stuck].
  destruct (run_inst x) as [e|x']; [apply mrun_names_stuck|]. cbn [set_heap m_data m_fs m_init m_heap m_dict].
  specialize (IH (fun m j H => Hin m j (or_intror H)) (set_nth i x' heap)). unfold set_heap in IH. exact IH.
Qed.

Lemma mrun_all_is_fold s : NoDup (map fst (m_dict s)) -> mstep s MRunAll = mrun_names s (map fst (m_dict s)).
Proof.
  intros Hn. unfold mrun_names. destruct s as [dd ff ii heap dict]. cbn [m_dict] in *.
  pose proof (mrun_all_fold_gen (mkM dd ff ii heap dict) dict (fun n i H => dlookup_unique n i dict Hn H) heap) as H.
  unfold set_heap in H. cbn [m_data m_fs m_init m_dict] in H. rewrite H. cbn [mstep m_dict m_heap].
  destruct (run_entries dict heap) as [e h]. reflexivity.
Qed.

Lemma mrun_all_is_fold_reachable d0 f0 heap h : (forall j y, nth_error heap j = Some y -> fresh_inst y) ->
  let s := mexec h (new_mstate d0 f0 heap) in mstep s MRunAll = mrun_names s (map fst (m_dict s)).
Proof. intros Hfr. cbn zeta. apply mrun_all_is_fold. exact (proj1 (proj1 (mexec_wf h _ (wf_mnew d0 f0 heap Hfr)))). Qed.

(* ---------------------------------------------------------------- persistence, rollback *)
Lemma msaveload_id s : mstep s MSaveLoad = (None, s).
Proof. reflexivity. Qed.

Lemma msaveload_anywhere h1 h2 s : mexec (h1 ++ MSaveLoad :: h2) s = mexec (h1 ++ h2) s.
Proof. rewrite !mexec_app. reflexivity. Qed.

Lemma mrollback_spec s : mstep s MRollback = (None, mkM (Some (fst (m_init s))) (Some (snd (m_init s))) (m_init s) (m_heap s) []).
Proof. reflexivity. Qed.

(* after a rollback every name is unknown to the setup although every instance still holds what it held *)
Lemma mrollback_forgets s a : mstep (snd (mstep s MRollback)) (MRun a) = (Some KeyE, snd (mstep s MRollback)).
Proof. reflexivity. Qed.

Lemma minit_const s o : m_init (snd (mstep s o)) = m_init s.
Proof.
  destruct o as [l|j p|a| |a args|d f| |]; cbn [mstep]; try reflexivity.
  - destruct (negb _); [reflexivity|]. destruct (m_fs s); destruct l as [|k t]; try reflexivity.
    + destruct (add_each _ _ _ _ _). reflexivity.
    + destruct (nth_error (m_heap s) k); reflexivity.
  - destruct (nth_error (m_heap s) j); reflexivity.
  - exact (proj2 (proj2 (proj2 (on_named_rest s a run_inst)))).
  - destruct (run_entries _ _). reflexivity.
  - exact (proj2 (proj2 (proj2 (on_named_rest s a (mpe_inst args))))).
Qed.

(* ---------------------------------------------------------------- run_all: every instance in the dict gets Run of its own inputs *)
Definition name_at (heap:list inst) (i:iid) : name := match nth_error heap i with Some x => i_name x | None => 0 end.

Lemma dict_ok_nodup_snd heap dict : dict_ok heap dict -> NoDup (map snd dict).
Proof.
  intros [Hn He]. apply (NoDup_map_inv (name_at heap)). rewrite map_map.
  rewrite (map_ext_in (fun ni => name_at heap (snd ni)) fst); [exact Hn|].
  intros [n i] Hin. cbn [fst snd]. unfold name_at. destruct (He n i Hin) as (x & Hx & Hnm). rewrite Hx. exact Hnm.
Qed.

Lemma existsb_snd_false (l:list (name*iid)) i : ~ In i (map snd l) -> existsb (fun nj => Nat.eqb (snd nj) i) l = false.
Proof.
  induction l as [|[n j] t IH]; cbn [existsb map snd In]; intros H; [reflexivity|].
  apply orb_false_iff. split; [apply Nat.eqb_neq; intros E; apply H; left; exact E|apply IH; intros H1; apply H; right; exact H1].
Qed.

Lemma run_entries_ok l : forall heap heap', NoDup (map snd l) -> run_entries l heap = (None, heap') ->
  forall n i, In (n,i) l -> exists x x', nth_error heap i = Some x /\ run_inst x = inr x' /\ nth_error heap' i = Some x'.
Proof.
  induction l as [|[m j] t IH]; intros heap heap' Hn; cbn [run_entries map snd] in *; [intros _ n i []|].
  inversion Hn as [|? ? Hnot Hn']. subst.
  destruct (nth_error heap j) as [x|] eqn:Hx; [|discriminate]. destruct (run_inst x) as [e|x'] eqn:Er; [discriminate|].
  intros H n i [Hin|Hin].
  - injection Hin as _ <-. exists x, x'. repeat split; [exact Hx|exact Er|].
    pose proof (run_entries_frame t (set_nth j x' heap) j (existsb_snd_false t j Hnot)) as Hf. rewrite H in Hf. cbn [snd] in Hf.
    rewrite Hf. exact (nth_set_same j x' x heap Hx).
  - destruct (IH _ _ Hn' H n i Hin) as (y & y' & Hy & Hr & Hy'). exists y, y'. repeat split; [|exact Hr|exact Hy'].
    rewrite nth_set_other in Hy; [exact Hy|]. intros ->. apply Hnot. apply (in_map snd) in Hin. exact Hin.
Qed.

Lemma mrun_all_spec s n i : wf_m s -> fst (mstep s MRunAll) = None -> In (n,i) (m_dict s) ->
  exists x p d f, nth_error (m_heap s) i = Some x /\ i_params x = Some p /\ i_data x = Some d /\ i_fs x = Some f /\
    nth_error (m_heap (snd (mstep s MRunAll))) i =
      Some (mkInst (i_name x) (i_cls x) (i_params x) (i_data x) (i_fs x) (i_dt x) (Some (Run (i_cls x) p d f)) None).
Proof.
  intros [Hd _]. cbn [mstep]. destruct (run_entries (m_dict s) (m_heap s)) as [e h] eqn:E. cbn [fst snd set_heap m_heap]. intros -> Hin.
  destruct (run_entries_ok _ _ _ (dict_ok_nodup_snd _ _ Hd) E n i Hin) as (x & x' & Hx & Hr & Hx').
  destruct (run_inst_ok x x' Hr) as (p & d & f & Hp & Hdd & Hf & ->). exists x, p, d, f. repeat split; assumption.
Qed.

Lemma mresult_is_latest_run_all h1 h2 s0 n i : wf_m s0 ->
  fst (mstep (mexec h1 s0) MRunAll) = None -> In (n,i) (m_dict (mexec h1 s0)) ->
  (forall o, In o h2 -> is_mrun o n = false) ->
  exists x p d f x', nth_error (m_heap (mexec h1 s0)) i = Some x /\ i_params x = Some p /\ i_data x = Some d /\ i_fs x = Some f /\
    nth_error (m_heap (mexec (h1 ++ MRunAll :: h2) s0)) i = Some x' /\ i_result x' = Some (Run (i_cls x) p d f).
Proof.
  intros Hw Hok Hin Hh. pose proof (mexec_wf h1 s0 Hw) as Hw1. pose proof (mstep_wf _ MRunAll Hw1) as Hw2.
  destruct (mrun_all_spec _ n i Hw1 Hok Hin) as (x & p & d & f & Hx & Hp & Hdd & Hf & Hx1).
  rewrite mexec_app. cbn [mexec fold_left]. fold (mexec h2 (snd (mstep (mexec h1 s0) MRunAll))).
  destruct (mresult_stable h2 _ i _ Hw2 Hx1) as (x2 & Hx2 & Hr2 & _).
  { intros o Ho. cbn [i_name]. destruct Hw1 as [[_ He] _]. destruct (He n i Hin) as (y & Hy & Hnm). rewrite Hx in Hy. injection Hy as <-.
    rewrite Hnm. exact (Hh o Ho). }
  exists x, p, d, f, x2. repeat split; assumption.
Qed.

(* ---------------------------------------------------------------- two instances with one name *)
Lemma orphan_untouched s o i : (forall n, ~ In (n,i) (m_dict s)) ->
  (forall l, o = MAdd l -> existsb (Nat.eqb i) l = false) -> (forall p, o <> MSet i p) ->
  nth_error (m_heap (snd (mstep s o))) i = nth_error (m_heap s) i.
Proof.
  intros Hout HA HS. apply mframe. destruct o as [l|j p|a| |a args|d f| |]; cbn [touches]; try reflexivity.
  - exact (HA l eq_refl).
  - apply Nat.eqb_neq. intros ->. exact (HS p eq_refl).
  - destruct (dlookup a (m_dict s)) as [j|] eqn:Hd; [|reflexivity]. apply Nat.eqb_neq. intros ->. exact (Hout a (dlookup_in a i _ Hd)).
  - apply existsb_snd_false. intros Hin. apply in_map_iff in Hin. destruct Hin as ([n j] & Hj & Hin). cbn [snd] in Hj. subst j. exact (Hout n Hin).
  - destruct (dlookup a (m_dict s)) as [j|] eqn:Hd; [|reflexivity]. apply Nat.eqb_neq. intros ->. exact (Hout a (dlookup_in a i _ Hd)).
Qed.

(* adding an instance j whose name is held by another instance i: the name now leads to j, at the position it had; i is
   exactly as it was (its result included), is reachable through no name of the setup any more, so no call on the setup
   reaches it (only the caller's own handle does: set_run_params on it, or adding it again) *)
Lemma madd_namesake s i j y f : wf_m s -> m_fs s = Some f -> nth_error (m_heap s) j = Some y ->
  dlookup (i_name y) (m_dict s) = Some i -> i <> j ->
  let s' := snd (mstep s (MAdd [j])) in
  dlookup (i_name y) (m_dict s') = Some j /\ map fst (m_dict s') = map fst (m_dict s) /\
  nth_error (m_heap s') i = nth_error (m_heap s) i /\ (forall n, ~ In (n,i) (m_dict s')).
Proof.
  intros Hw Hf Hy Hd Hij. cbn zeta. pose proof (madd_one_dict s j y f Hf Hy) as (H1 & H2 & H3). rewrite Hd in H3.
  repeat split; [exact H1|exact H3| |].
  - apply mframe. cbn [touches existsb]. apply orb_false_iff. split; [apply Nat.eqb_neq; exact Hij|reflexivity].
  - intros n Hin. rewrite (madd_one_spec s j y f Hf Hy) in Hin. cbn [snd m_dict] in Hin.
    destruct Hw as [[Hn He] _]. destruct (in_dupsert _ _ _ _ _ Hn Hin) as [[_ E]|[Hne Hold]]; [exact (Hij E)|].
    destruct (He n i Hold) as (x & Hx & Hnm). destruct (He _ i (dlookup_in _ _ _ Hd)) as (x2 & Hx2 & Hnm2).
    rewrite Hx in Hx2. injection Hx2 as <-. apply Hne. congruence.
Qed.

(* re-adding the SAME instance: re-bound to the setup's current data / fs, parameters, result and modes kept, dict keys as before *)
Lemma madd_same_again s i x f : wf_m s -> m_fs s = Some f -> nth_error (m_heap s) i = Some x -> dlookup (i_name x) (m_dict s) = Some i ->
  let s' := snd (mstep s (MAdd [i])) in
  nth_error (m_heap s') i = Some (bind_full (m_data s) f x) /\ map fst (m_dict s') = map fst (m_dict s) /\
  dlookup (i_name x) (m_dict s') = Some i /\ (forall j, j <> i -> nth_error (m_heap s') j = nth_error (m_heap s) j).
Proof.
  intros Hw Hf Hx Hd. cbn zeta. pose proof (madd_one_dict s i x f Hf Hx) as (H1 & _ & H3). rewrite Hd in H3.
  rewrite (madd_one_spec s i x f Hf Hx) in *. cbn [snd m_heap m_dict] in *. repeat split; [exact (nth_set_same i _ x _ Hx)|exact H3|exact H1|].
  intros j Hj. apply nth_set_other. intros E. apply Hj. symmetry. exact E.
Qed.
