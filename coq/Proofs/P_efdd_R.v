(* C07 - real-analysis part: the least-squares fit is exact on an exact decay; xi and fn are recovered from the
   logarithmic decrement and the damped period.  Depends only on the standard library's axioms for R. *)
From Coq Require Import List Arith Reals Lra Lia Psatz.
From PyOMA.Base Require Import Carrier.
From PyOMA.Model Require Import M_efdd.
Import ListNotations.
Open Scope R_scope.

Definition ROps_c07 : Ops R := {| o0:=0; o1:=1; oadd:=Rplus; omul:=Rmult; osub:=Rminus; oopp:=Ropp; odiv:=Rdiv; oinv:=Rinv |}.

Lemma natK_INR k : natK ROps_c07 k = INR k.
Proof. induction k; [reflexivity|]. cbn [natK]. rewrite IHk, S_INR. reflexivity. Qed.

Lemma fold_plus_acc l a : fold_left Rplus l a = a + fold_left Rplus l 0.
Proof. revert a. induction l as [|x t IH]; intros a; cbn [fold_left]; [lra|]. rewrite (IH (a+x)), (IH (0+x)). lra. Qed.

(* the exact free decay seen at its extrema: m_k = (-1)^k A rho^k *)
Definition decay_ext (A rho:R) (k:nat) : R := (-1)^k * A * rho^k.

Lemma decay_ratio A rho k : A <> 0 -> 0 < rho -> ln (Rabs (decay_ext A rho 0) / Rabs (decay_ext A rho k)) = INR k * ln (/ rho).
Proof.
  intros HA Hr. unfold decay_ext.
  assert (Hm1 : Rabs (-1) = 1) by (unfold Rabs; destruct (Rcase_abs (-1)); lra).
  rewrite !Rabs_mult, <- !RPow_abs, Hm1, !pow1, (Rabs_pos_eq rho) by lra.
  cbn [pow]. replace (1 * Rabs A * 1 / (1 * Rabs A * rho ^ k)) with ((/ rho) ^ k).
  - induction k; cbn [pow]; [rewrite ln_1; cbn; lra|].
    rewrite ln_mult; [|apply Rinv_0_lt_compat; lra | apply pow_lt, Rinv_0_lt_compat; lra].
    rewrite IHk, S_INR. lra.
  - rewrite pow_inv. field. split; [apply pow_nonzero; lra | apply Rabs_no_R0; exact HA].
Qed.

(* sums of k*(k L) and k*k over k < n *)
Lemma slope_lin (L:R) n : (2 <= n)%nat ->
  gslope ROps_c07 (map (fun k => INR k * L) (seq 0 n)) = L.
Proof.
  intros Hn. unfold gslope. rewrite map_length, seq_length. cbn [odiv omul ROps_c07].
  set (ks := map (natK ROps_c07) (seq 0 n)).
  assert (E: map (fun p => fst p * snd p) (combine ks (map (fun k => INR k * L) (seq 0 n))) = map (fun x => L * x) (map (fun k => k * k) ks)).
  { unfold ks. generalize (seq 0 n). intros l. induction l as [|x t IH]; cbn [map combine]; [reflexivity|].
    rewrite IH, natK_INR. cbn [fst snd]. f_equal. lra. }
  rewrite E. unfold sumK. cbn [oadd o0 ROps_c07].
  assert (F: forall l, fold_left Rplus (map (fun x => L * x) l) 0 = L * fold_left Rplus l 0).
  { induction l as [|x t IH]; cbn [map fold_left]; [lra|]. rewrite fold_plus_acc, IH, (fold_plus_acc t (0+x)). lra. }
  rewrite F.
  assert (P: 0 < fold_left Rplus (map (fun k => k * k) ks) 0).
  { unfold ks. destruct n as [|[|n]]; [lia|lia|]. 
    replace (seq 0 (S (S n))) with (0%nat :: 1%nat :: seq 2 n) by reflexivity. cbn [map fold_left]. rewrite fold_plus_acc.
    assert (G: forall l:list R, 0 <= fold_left Rplus (map (fun k => k * k) l) 0).
    { induction l as [|x t IH]; cbn [map fold_left]; [lra|]. rewrite fold_plus_acc. nra. }
    specialize (G (map (natK ROps_c07) (seq 2 n))). rewrite !natK_INR. cbn [INR]. lra. }
  field. lra.
Qed.

(* the fit is exact on an exact decay: slope = ln(1/rho) per half period *)
Theorem logdec_fit_exact A rho n : A <> 0 -> 0 < rho < 1 -> (2 <= n)%nat ->
  let delta := map (fun k => ln (Rabs (decay_ext A rho 0) / Rabs (decay_ext A rho k))) (seq 0 n) in
  (forall k, (k < n)%nat -> nth k delta 0 = INR k * ln (/ rho)) /\
  gslope ROps_c07 delta = ln (/ rho) /\
  glam_of ROps_c07 Per 0 delta = 2 * ln (/ rho).
Proof.
  intros HA Hr Hn delta.
  assert (E: delta = map (fun k => INR k * ln (/ rho)) (seq 0 n)).
  { unfold delta. apply map_ext. intros k. apply decay_ratio; lra. }
  split; [|split].
  - intros k Hk. rewrite E. rewrite nth_indep with (d' := INR 0 * ln (/ rho)) by (rewrite map_length, seq_length; lia).
    change (INR 0 * ln (/ rho)) with ((fun k => INR k * ln (/ rho)) 0%nat).
    rewrite map_nth, seq_nth by lia. reflexivity.
  - rewrite E. apply slope_lin, Hn.
  - unfold glam_of. rewrite E, slope_lin by exact Hn. cbn. lra.
Qed.

Lemma logdec_inv xi : 0 <= xi < 1 ->
  let d := 2 * PI * xi / sqrt (1 - xi^2) in d / sqrt (4 * PI^2 + d^2) = xi.
Proof.
  intros Hxi d. assert (Hp := PI_RGT_0).
  assert (H1: 0 < 1 - xi^2) by nra.
  assert (Hs: 0 < sqrt (1 - xi^2)) by (apply sqrt_lt_R0; exact H1).
  set (s := sqrt (1 - xi^2)) in *.
  assert (Hss: s^2 = 1 - xi^2) by (unfold s; apply pow2_sqrt; lra).
  assert (E: 4 * PI^2 + d^2 = (2*PI/ s)^2).
  { unfold d. fold s.
    replace ((2 * PI * xi / s)^2) with (4*PI^2*xi^2/ s^2) by (field; lra).
    replace ((2 * PI / s)^2) with (4*PI^2/ s^2) by (field; lra).
    rewrite Hss. field. lra. }
  rewrite E. rewrite sqrt_pow2.
  - unfold d. fold s. field. lra.
  - apply Rlt_le. apply Rdiv_lt_0_compat; lra.
Qed.

(* the algebraic invariants the executable model computes: xi^2 and fn^2 *)
Theorem logdec_inv_model xi fn : 0 <= xi < 1 -> 0 < fn ->
  let d := 2 * PI * xi / sqrt (1 - xi^2) in     (* logarithmic decrement per period *)
  let Td := / (fn * sqrt (1 - xi^2)) in          (* damped period *)
  gxi2_of ROps_c07 (PI * PI) d = xi * xi /\ gfn2_of ROps_c07 Td (xi * xi) = fn * fn /\
  d / sqrt (4 * PI^2 + d^2) = xi /\ (/ Td) / sqrt (1 - xi^2) = fn.
Proof.
  intros Hxi Hfn d Td. assert (Hp := PI_RGT_0).
  assert (H1: 0 < 1 - xi^2) by nra.
  assert (Hs: 0 < sqrt (1 - xi^2)) by (apply sqrt_lt_R0; exact H1).
  assert (Hss: sqrt (1 - xi^2) * sqrt (1 - xi^2) = 1 - xi^2) by (apply sqrt_sqrt; lra).
  split; [|split; [|split]].
  - unfold gxi2_of, gtwo. cbn [odiv omul oadd o1 ROps_c07]. unfold d.
    set (s := sqrt (1 - xi^2)) in *.
    replace (2 * PI * xi / s * (2 * PI * xi / s)) with (4 * (PI*PI) * (xi*xi) / (s*s)) by (field; lra).
    rewrite Hss. field. split; [lra|]. nra.
  - unfold gfn2_of, Td. cbn [odiv omul osub o1 ROps_c07].
    set (s := sqrt (1 - xi^2)) in *.
    replace (1 / / (fn * s) * (1 / / (fn * s))) with (fn * fn * (s * s)) by (field; lra).
    rewrite Hss. field. nra.
  - apply logdec_inv, Hxi.
  - unfold Td. field. lra.
Qed.

(* chain: extrema of exp(-xi wn t) cos(wd t + ph) taken every half damped period *)
Theorem logdec_chain_exact A xi fn n : A <> 0 -> 0 < xi < 1 -> 0 < fn -> (2 <= n)%nat ->
  let wn := 2 * PI * fn in
  let Td := / (fn * sqrt (1 - xi^2)) in
  let rho := exp (- xi * wn * (Td / 2)) in
  let delta := map (fun k => ln (Rabs (decay_ext A rho 0) / Rabs (decay_ext A rho k))) (seq 0 n) in
  let lam := glam_of ROps_c07 Per 0 delta in
  lam = 2 * PI * xi / sqrt (1 - xi^2) /\ gxi2_of ROps_c07 (PI * PI) lam = xi * xi /\ gfn2_of ROps_c07 Td (xi * xi) = fn * fn /\
  lam / sqrt (4 * PI^2 + lam^2) = xi.
Proof.
  intros HA Hxi Hfn Hn wn Td rho delta lam. assert (Hp := PI_RGT_0).
  assert (H1: 0 < 1 - xi^2) by nra.
  assert (Hs: 0 < sqrt (1 - xi^2)) by (apply sqrt_lt_R0; exact H1).
  assert (Hrho: 0 < rho < 1).
  { unfold rho. split; [apply exp_pos|]. rewrite <- exp_0. apply exp_increasing.
    assert (0 < Td) by (unfold Td; apply Rinv_0_lt_compat; nra).
    assert (0 < wn) by (unfold wn; apply Rmult_lt_0_compat; lra).
    assert (0 < xi * wn) by (apply Rmult_lt_0_compat; lra).
    assert (0 < xi * wn * (Td / 2)) by (apply Rmult_lt_0_compat; lra). lra. }
  assert (Hl: lam = 2 * PI * xi / sqrt (1 - xi^2)).
  { unfold lam, delta. destruct (logdec_fit_exact A rho n HA Hrho Hn) as (_ & _ & ->).
    unfold rho. rewrite <- exp_Ropp, ln_exp. unfold wn, Td. field. split; lra. }
  destruct (logdec_inv_model xi fn (conj (Rlt_le _ _ (proj1 Hxi)) (proj2 Hxi)) Hfn) as (E1 & E2 & E3 & _).
  rewrite Hl. repeat split; assumption.
Qed.

(* ------------------------------------------------------------------------------------------------------------
   vocabulary used only to WRITE C07_full_statement (Properties/C07.v): nothing is proved about it *)
From Coq Require Import QArith Qcanon Qreals Bool.
Definition Qc2R (x:Qc) : R := Q2R (this x).
Definition analytic_bell (fs fn xi nphi2 eps:R) (nxseg lo hi l:nat) : R :=
  if Nat.leb lo l && Nat.ltb l hi
  then let f := (INR l * fs / INR nxseg)%R in (nphi2 / ((fn ^ 2 - f ^ 2) ^ 2 + (2 * xi * fn * f) ^ 2) + eps)%R
  else 0%R.
Fixpoint rsum (n:nat) (f:nat -> R) : R := match n with O => 0%R | S k => (rsum k f + f k)%R end.
Definition ifft_re_R (Nf:nat) (b:nat -> R) (j:nat) : R :=
  (/ sqrt (INR (5 * Nf)) * rsum Nf (fun l => b l * cos (2 * PI * INR j * INR l / INR (5 * Nf))))%R.
