(* C13 - lemmas about the spectral-matrix model (Model/M_spectra.v). *)
From Coq Require Import List Arith Bool Lia Ring Field.
From PyOMA.Base Require Import Carrier Cplx.
From PyOMA.Model Require Import M_spectra.
Import ListNotations.

Lemma nth_map_seq {A} (f:nat->A) n i d : (i < n)%nat -> nth i (map f (seq 0 n)) d = f i.
Proof.
  intros Hi. rewrite nth_indep with (d':= f 0%nat) by (rewrite map_length, seq_length; lia).
  rewrite map_nth, seq_nth by lia. reflexivity.
Qed.

(* rotation of the summation index (any commutative ring) *)
Section Rot.
Variable A:Type. Variable KA:Ops A.
Hypothesis Ath : ring_theory (o0 KA) (o1 KA) (oadd KA) (omul KA) (osub KA) (oopp KA) (@eq A).
Add Ring RrRot : Ath.
Lemma sumn_rot n d (f:nat->A) : (d < n)%nat -> sumn KA n f = sumn KA n (fun u => f ((u + d) mod n)%nat).
Proof.
  intros Hd.
  replace n with (d + (n-d))%nat at 1 by lia. rewrite (sumn_split A KA Ath d (n-d) f).
  replace n with ((n-d) + d)%nat at 2 by lia. rewrite (sumn_split A KA Ath (n-d) d (fun u => f ((u + d) mod n)%nat)).
  rewrite (sumn_ext A KA (n-d) (fun u => f ((u + d) mod n)%nat) (fun i => f (d + i)%nat))
    by (intros u Hu; f_equal; rewrite Nat.mod_small by lia; lia).
  rewrite (sumn_ext A KA d (fun i => f ((n - d + i + d) mod n)%nat) f).
  - ring.
  - intros i Hi. f_equal. replace (n - d + i + d)%nat with (i + 1 * n)%nat by lia. rewrite Nat.mod_add by lia. apply Nat.mod_small; lia.
Qed.
End Rot.

Section P.
Variable R:Type. Variable K:Ops R.
Hypothesis Rth : ring_theory (o0 K) (o1 K) (oadd K) (omul K) (osub K) (oopp K) (@eq R).
Add Ring RrS : Rth.
Local Open Scope K_scope.
Notation "0" := (o0 K) : K_scope. Notation "1" := (o1 K) : K_scope.
Infix "+" := (oadd K) : K_scope. Infix "*" := (omul K) : K_scope. Infix "-" := (osub K) : K_scope.
Notation "- x" := (oopp K x) : K_scope.
Notation CR := (C R).
Notation csum := (sumn (COps K)).
Notation "x +c y" := (cadd K x y) (at level 50, left associativity).
Notation "x *c y" := (cmul K x y) (at level 40, left associativity).
Notation cj := (cconj K).

Lemma CRt : ring_theory (c0 K) (c1 K) (cadd K) (cmul K) (csub K) (copp K) (@eq CR).
Proof. exact (CRth R K Rth). Qed.
Add Ring CrS : CRt.

(* ---------- complex sums ---------- *)
Lemma csum_ext n (f g:nat->CR) : (forall k, (k<n)%nat -> f k = g k) -> csum n f = csum n g.
Proof. exact (sumn_ext CR (COps K) n f g). Qed.
Lemma csum_S n (f:nat->CR) : csum (S n) f = csum n f +c f n.
Proof. reflexivity. Qed.
Lemma csum_0 (f:nat->CR) : csum 0 f = c0 K.
Proof. reflexivity. Qed.
Lemma csum_add n (f g:nat->CR) : csum n (fun k => f k +c g k) = csum n f +c csum n g.
Proof. exact (sumn_add CR (COps K) (CRth R K Rth) n f g). Qed.
Lemma csum_mul_l n c (f:nat->CR) : csum n (fun k => c *c f k) = c *c csum n f.
Proof. exact (sumn_scal CR (COps K) (CRth R K Rth) n c f). Qed.
Lemma csum_mul_r n c (f:nat->CR) : csum n (fun k => f k *c c) = csum n f *c c.
Proof. exact (sumn_scal_r CR (COps K) (CRth R K Rth) n c f). Qed.
Lemma csum_swap m n (f:nat->nat->CR) : csum m (fun i => csum n (fun j => f i j)) = csum n (fun j => csum m (fun i => f i j)).
Proof. exact (sumn_swap CR (COps K) (CRth R K Rth) m n f). Qed.

Lemma cscal_is_mul a (z:CR) : cscal K a z = cofR K a *c z.
Proof. apply c_eq; cbn; ring. Qed.
Lemma cofR_mul a b : cofR K a *c cofR K b = cofR K (a*b).
Proof. apply c_eq; cbn; ring. Qed.
Lemma cofR_add a b : cofR K a +c cofR K b = cofR K (a+b).
Proof. apply c_eq; cbn; ring. Qed.
Lemma cj_cofR a : cj (cofR K a) = cofR K a.
Proof. apply c_eq; cbn; ring. Qed.
Lemma cj_c0 : cj (c0 K) = c0 K.
Proof. apply c_eq; cbn; ring. Qed.
Lemma cj_csum n (f:nat->CR) : cj (csum n f) = csum n (fun k => cj (f k)).
Proof. induction n; [exact cj_c0|]. rewrite !csum_S, <- IHn. apply (cconj_add R K Rth). Qed.
Lemma csum_cofR n (x:nat->R) : csum n (fun k => cofR K (x k)) = cofR K (sumn K n x).
Proof. induction n; [reflexivity|]. rewrite csum_S, IHn, cofR_add. reflexivity. Qed.
Lemma cre_csum n (f:nat->CR) : cre (csum n f) = sumn K n (fun k => cre (f k)).
Proof. induction n; [reflexivity|]. rewrite csum_S. cbn [sumn]. rewrite <- IHn. reflexivity. Qed.
Lemma csum_cscal n a (f:nat->CR) : csum n (fun k => cscal K a (f k)) = cscal K a (csum n f).
Proof. rewrite cscal_is_mul, <- csum_mul_l. apply csum_ext; intros; apply cscal_is_mul. Qed.

(* ---------- segments and the short-time DFT are linear in the data ---------- *)
Lemma seg_dt_add invm m off (y z yz:nat->R) t : (forall u, yz u = y u + z u) ->
  seg_dt K invm m off yz t = seg_dt K invm m off y t + seg_dt K invm m off z t.
Proof.
  intros H. unfold seg_dt, seg_mean.
  rewrite (sumn_ext R K m (fun u => yz (off+u)%nat) (fun u => y (off+u)%nat + z (off+u)%nat)) by (intros; apply H).
  rewrite (sumn_add R K Rth), H. ring.
Qed.
Lemma seg_dt_scal invm m off c (y cy:nat->R) t : (forall u, cy u = c * y u) ->
  seg_dt K invm m off cy t = c * seg_dt K invm m off y t.
Proof.
  intros H. unfold seg_dt, seg_mean.
  rewrite (sumn_ext R K m (fun u => cy (off+u)%nat) (fun u => c * y (off+u)%nat)) by (intros; apply H).
  rewrite (sumn_scal R K Rth), H. ring.
Qed.
Lemma seg_dt_ext invm m off (y z:nat->R) t : (forall u, y u = z u) -> seg_dt K invm m off y t = seg_dt K invm m off z t.
Proof.
  intros H. unfold seg_dt, seg_mean. rewrite (sumn_ext R K m (fun u => y (off+u)%nat) (fun u => z (off+u)%nat)) by (intros; apply H).
  rewrite H. reflexivity.
Qed.

Lemma stft_add tw w invm m step (y z yz:nat->R) s k : (forall u, yz u = y u + z u) ->
  stft K tw w invm m step yz s k = stft K tw w invm m step y s k +c stft K tw w invm m step z s k.
Proof.
  intros H. unfold stft. rewrite <- csum_add. apply csum_ext; intros t _.
  rewrite (seg_dt_add invm m (s*step) y z yz t H). apply c_eq; cbn; ring.
Qed.
Lemma stft_scal tw w invm m step c (y cy:nat->R) s k : (forall u, cy u = c * y u) ->
  stft K tw w invm m step cy s k = cscal K c (stft K tw w invm m step y s k).
Proof.
  intros H. unfold stft. rewrite <- csum_cscal. apply csum_ext; intros t _.
  rewrite (seg_dt_scal invm m (s*step) c y cy t H). apply c_eq; cbn; ring.
Qed.
Lemma stft_ext tw w invm m step (y z:nat->R) s k : (forall u, y u = z u) ->
  stft K tw w invm m step y s k = stft K tw w invm m step z s k.
Proof. intros H. unfold stft. apply csum_ext; intros t _. rewrite (seg_dt_ext invm m (s*step) y z t H). reflexivity. Qed.
Lemma stft_ext_tw tw tw' w invm m step (y:nat->R) s k : (forall t, (t<m)%nat -> tw k t = tw' k t) ->
  stft K tw w invm m step y s k = stft K tw' w invm m step y s k.
Proof. intros H. unfold stft. apply csum_ext; intros t Ht. rewrite H by assumption. reflexivity. Qed.

(* ---------- the averaged cross periodogram: sesquilinear in the two families of segment spectra ---------- *)
Lemma csd_of_add_l (XA XB XS XR:nat->nat->nat->CR) coef nseg i j k :
  (forall s, XS i s k = XA i s k +c XB i s k) ->
  csd_of K XS XR coef nseg i j k = csd_of K XA XR coef nseg i j k +c csd_of K XB XR coef nseg i j k.
Proof.
  intros H. unfold csd_of. rewrite !cscal_is_mul.
  transitivity (cofR K (coef k) *c (csum nseg (fun s => cj (XA i s k) *c XR j s k) +c csum nseg (fun s => cj (XB i s k) *c XR j s k))); [|ring].
  f_equal. rewrite <- csum_add. apply csum_ext; intros s _. rewrite H, (cconj_add R K Rth). ring.
Qed.
Lemma csd_of_add_r (XA XR XQ XS:nat->nat->nat->CR) coef nseg i j k :
  (forall s, XS j s k = XR j s k +c XQ j s k) ->
  csd_of K XA XS coef nseg i j k = csd_of K XA XR coef nseg i j k +c csd_of K XA XQ coef nseg i j k.
Proof.
  intros H. unfold csd_of. rewrite !cscal_is_mul.
  transitivity (cofR K (coef k) *c (csum nseg (fun s => cj (XA i s k) *c XR j s k) +c csum nseg (fun s => cj (XA i s k) *c XQ j s k))); [|ring].
  f_equal. rewrite <- csum_add. apply csum_ext; intros s _. rewrite H. ring.
Qed.
(* complex factors: the factor of the FIRST family comes out conjugated, the factor of the second unchanged *)
Lemma csd_of_factor (XA XR XA' XR':nat->nat->nat->CR) (a b:CR) coef nseg i j k :
  (forall s, (s<nseg)%nat -> XA' i s k = a *c XA i s k) -> (forall s, (s<nseg)%nat -> XR' j s k = b *c XR j s k) ->
  csd_of K XA' XR' coef nseg i j k = (cj a *c b) *c csd_of K XA XR coef nseg i j k.
Proof.
  intros Ha Hb. unfold csd_of. rewrite !cscal_is_mul.
  transitivity (cofR K (coef k) *c ((cj a *c b) *c csum nseg (fun s => cj (XA i s k) *c XR j s k))); [|ring].
  f_equal. rewrite <- csum_mul_l. apply csum_ext; intros s Hs. rewrite Ha, Hb by assumption. rewrite (cconj_mul R K Rth). ring.
Qed.
Lemma csd_of_ext (XA XR XA' XR':nat->nat->nat->CR) coef nseg i j k :
  (forall s, (s<nseg)%nat -> XA' i s k = XA i s k) -> (forall s, (s<nseg)%nat -> XR' j s k = XR j s k) ->
  csd_of K XA' XR' coef nseg i j k = csd_of K XA XR coef nseg i j k.
Proof. intros Ha Hb. unfold csd_of. f_equal. apply csum_ext; intros s Hs. rewrite Ha, Hb by assumption. reflexivity. Qed.

(* Hermitian symmetry when both families are the same *)
Lemma csd_of_hermitian (X:nat->nat->nat->CR) coef nseg i j k :
  csd_of K X X coef nseg j i k = cj (csd_of K X X coef nseg i j k).
Proof.
  unfold csd_of. rewrite !cscal_is_mul, (cconj_mul R K Rth), cj_cofR, cj_csum. f_equal.
  apply csum_ext; intros s _. rewrite (cconj_mul R K Rth), (cconj_invol R K Rth). ring.
Qed.

(* quadratic form v^H S v of an nch x nch matrix S *)
Definition quad (nch:nat) (v:nat->CR) (S:nat->nat->CR) : CR :=
  csum nch (fun i => csum nch (fun j => (cj (v i) *c S i j) *c v j)).

Lemma csd_of_quad (X:nat->nat->nat->CR) coef nseg nch (v:nat->CR) k :
  quad nch v (fun i j => csd_of K X X coef nseg i j k)
  = cofR K (coef k * sumn K nseg (fun s => cnorm2 K (csum nch (fun j => v j *c X j s k)))).
Proof.
  unfold quad, csd_of.
  (* 1. push the vector entries inside the segment sum *)
  transitivity (csum nch (fun i => csum nch (fun j =>
     cofR K (coef k) *c csum nseg (fun s => cj (v i *c X i s k) *c (v j *c X j s k))))).
  { apply csum_ext; intros i _. apply csum_ext; intros j _. rewrite cscal_is_mul.
    transitivity (cofR K (coef k) *c ((cj (v i) *c v j) *c csum nseg (fun s => cj (X i s k) *c X j s k))); [ring|].
    f_equal. rewrite <- csum_mul_l. apply csum_ext; intros s _. rewrite (cconj_mul R K Rth). ring. }
  (* 2. pull the real coefficient out, exchange the sums *)
  transitivity (cofR K (coef k) *c csum nseg (fun s => cj (csum nch (fun j => v j *c X j s k)) *c csum nch (fun j => v j *c X j s k))).
  { rewrite <- csum_mul_l.
    transitivity (csum nch (fun i => cofR K (coef k) *c csum nseg (fun s => cj (v i *c X i s k) *c csum nch (fun j => v j *c X j s k)))).
    { apply csum_ext; intros i _. rewrite csum_mul_l. f_equal. rewrite csum_swap. apply csum_ext; intros s _. apply csum_mul_l. }
    rewrite csum_mul_l, csum_mul_l. f_equal. rewrite csum_swap. apply csum_ext; intros s _.
    rewrite csum_mul_r. f_equal. rewrite cj_csum. reflexivity. }
  (* 3. conj(T) T = |T|^2 *)
  rewrite (csum_ext nseg _ (fun s => cofR K (cnorm2 K (csum nch (fun j => v j *c X j s k)))))
    by (intros; apply (cmul_conj R K Rth)).
  rewrite csum_cofR, cofR_mul. reflexivity.
Qed.

(* ---------- pxy / sd_per: pairing, bilinearity, gain ---------- *)
Definition sadd (Y Z:rsig R) : rsig R := fun a t => Y a t + Z a t.
Definition sscal (c:R) (Y:rsig R) : rsig R := fun a t => c * Y a t.

Section Pxy.
Variables (tw:nat->nat->CR) (w:nat->R) (invm scale invK:R) (nfft m step nseg:nat).
Notation PXY := (pxy K tw w invm scale invK nfft m step nseg).

(* entry (i,j,k) is the coefficient times the segment sum of conj(X of channel i of Y) * (X of channel j of Yref) *)
Lemma pxy_entry (Y Yref:rsig R) i j k :
  PXY Y Yref i j k
  = cscal K (dbl K nfft k * scale * invK)
      (csum nseg (fun s => cj (stft K tw w invm m step (Y i) s k) *c stft K tw w invm m step (Yref j) s k)).
Proof. reflexivity. Qed.
(* ... and depends on no other channel *)
Lemma pxy_local (Y Y' Yref Yref':rsig R) i j k :
  (forall t, Y i t = Y' i t) -> (forall t, Yref j t = Yref' j t) -> PXY Y Yref i j k = PXY Y' Yref' i j k.
Proof.
  intros H1 H2. unfold pxy. apply csd_of_ext; intros s _; unfold spec_of; apply stft_ext; intros; symmetry; auto.
Qed.
Lemma pxy_add_data (Y Z Yref:rsig R) i j k : PXY (sadd Y Z) Yref i j k = PXY Y Yref i j k +c PXY Z Yref i j k.
Proof. unfold pxy. apply csd_of_add_l. intros s. unfold spec_of. apply stft_add. intros; reflexivity. Qed.
Lemma pxy_add_ref (Y Yref Zref:rsig R) i j k : PXY Y (sadd Yref Zref) i j k = PXY Y Yref i j k +c PXY Y Zref i j k.
Proof. unfold pxy. apply csd_of_add_r. intros s. unfold spec_of. apply stft_add. intros; reflexivity. Qed.
Lemma pxy_scal c d (Y Yref:rsig R) i j k : PXY (sscal c Y) (sscal d Yref) i j k = cscal K (c*d) (PXY Y Yref i j k).
Proof.
  unfold pxy. rewrite (csd_of_factor (spec_of K tw w invm m step Y) (spec_of K tw w invm m step Yref) _ _ (cofR K c) (cofR K d)).
  - rewrite cj_cofR, cofR_mul, <- cscal_is_mul. reflexivity.
  - intros s _. unfold spec_of. rewrite <- cscal_is_mul. apply stft_scal. intros; reflexivity.
  - intros s _. unfold spec_of. rewrite <- cscal_is_mul. apply stft_scal. intros; reflexivity.
Qed.
Lemma pxy_gain g (Y Yref:rsig R) i j k : PXY (sscal g Y) (sscal g Yref) i j k = cscal K (g*g) (PXY Y Yref i j k).
Proof. apply pxy_scal. Qed.
Lemma pxy_hermitian (Y:rsig R) i j k : PXY Y Y j i k = cj (PXY Y Y i j k).
Proof. unfold pxy. apply csd_of_hermitian. Qed.
Lemma pxy_quad (Y:rsig R) nch (v:nat->CR) k :
  quad nch v (fun i j => PXY Y Y i j k)
  = cofR K (dbl K nfft k * scale * invK
            * sumn K nseg (fun s => cnorm2 K (csum nch (fun j => v j *c stft K tw w invm m step (Y j) s k)))).
Proof. unfold pxy. rewrite csd_of_quad. reflexivity. Qed.

(* common factor: segment spectra A_c * Z^s[k] for every channel c *)
Lemma pxy_common_factor (Y:rsig R) (A:nat->CR) (Z:nat->CR) i j k :
  (forall s, (s<nseg)%nat -> stft K tw w invm m step (Y i) s k = A i *c Z s) ->
  (forall s, (s<nseg)%nat -> stft K tw w invm m step (Y j) s k = A j *c Z s) ->
  PXY Y Y i j k = (cj (A i) *c A j) *c cscal K (dbl K nfft k * scale * invK) (csum nseg (fun s => cj (Z s) *c Z s))
  /\ PXY Y Y i j k *c A i = PXY Y Y i i k *c A j.
Proof.
  intros Hi Hj.
  assert (E: forall a b, (forall s, (s<nseg)%nat -> stft K tw w invm m step (Y a) s k = A a *c Z s) ->
                         (forall s, (s<nseg)%nat -> stft K tw w invm m step (Y b) s k = A b *c Z s) ->
             PXY Y Y a b k = (cj (A a) *c A b) *c cscal K (dbl K nfft k * scale * invK) (csum nseg (fun s => cj (Z s) *c Z s))).
  { intros a b Ha Hb. unfold pxy.
    rewrite (csd_of_factor (fun _ s _ => Z s) (fun _ s _ => Z s) _ _ (A a) (A b) _ nseg a b k Ha Hb). reflexivity. }
  split; [apply E; assumption|]. rewrite (E i j Hi Hj), (E i i Hi Hi). ring.
Qed.
(* time domain: channel j = g * channel i  =>  column j = g * column i of the same row *)
Lemma pxy_scaled_copy g (Y:rsig R) i j k : (forall t, Y j t = g * Y i t) -> PXY Y Y i j k = cscal K g (PXY Y Y i i k).
Proof.
  intros H. unfold pxy.
  rewrite (csd_of_factor (spec_of K tw w invm m step Y) (fun _ => spec_of K tw w invm m step Y i) _ _ (c1 K) (cofR K g) _ nseg i j k).
  - rewrite cscal_is_mul. unfold csd_of. rewrite !cscal_is_mul.
    replace (cj (c1 K)) with (c1 K) by (apply c_eq; cbn; ring). ring.
  - intros s _. ring.
  - intros s _. unfold spec_of. rewrite <- cscal_is_mul. apply stft_scal. exact H.
Qed.
End Pxy.

(* ---------- 'cor': every step after the periodogram is real-linear ---------- *)
Lemma irfft_of_add tw invn n (P P1 P2:nat->CR) t : (forall k, P k = P1 k +c P2 k) ->
  irfft_of K tw invn n P t = irfft_of K tw invn n P1 t + irfft_of K tw invn n P2 t.
Proof.
  intros H. unfold irfft_of. rewrite !H.
  rewrite (sumn_ext R K _ (fun q => (1+1) * cre (P (S q) *c cj (tw (S q) t)))
            (fun q => (1+1) * cre (P1 (S q) *c cj (tw (S q) t)) + (1+1) * cre (P2 (S q) *c cj (tw (S q) t))))
    by (intros q _; rewrite H; cbn; ring).
  rewrite (sumn_add R K Rth). cbn [cre cadd fst]. ring.
Qed.
Lemma irfft_of_scal tw invn n c (P P1:nat->CR) t : (forall k, P k = cscal K c (P1 k)) ->
  irfft_of K tw invn n P t = c * irfft_of K tw invn n P1 t.
Proof.
  intros H. unfold irfft_of. rewrite !H.
  rewrite (sumn_ext R K _ (fun q => (1+1) * cre (P (S q) *c cj (tw (S q) t)))
            (fun q => c * ((1+1) * cre (P1 (S q) *c cj (tw (S q) t)))))
    by (intros q _; rewrite H; cbn; ring).
  rewrite (sumn_scal R K Rth). cbn [cre cscal fst]. ring.
Qed.
Lemma irfft_of_ext tw tw' invn n (P P':nat->CR) t :
  (forall k, (k <= n/2)%nat -> P k = P' k) -> (forall k, (k <= n/2)%nat -> tw k t = tw' k t) ->
  (2 <= n)%nat -> irfft_of K tw invn n P t = irfft_of K tw' invn n P' t.
Proof.
  intros HP Ht Hn. assert (1 <= n/2)%nat by (apply Nat.div_le_lower_bound; lia).
  unfold irfft_of. rewrite (HP 0%nat), (HP (n/2)%nat) by lia.
  rewrite (sumn_ext R K _ (fun q => (1+1) * cre (P (S q) *c cj (tw (S q) t))) (fun q => (1+1) * cre (P' (S q) *c cj (tw' (S q) t))))
    by (intros q Hq; rewrite HP, Ht by lia; reflexivity).
  reflexivity.
Qed.
Lemma rfft_of_add tw n (x x1 x2:nat->R) k : (forall t, x t = x1 t + x2 t) ->
  rfft_of K tw n x k = rfft_of K tw n x1 k +c rfft_of K tw n x2 k.
Proof. intros H. unfold rfft_of. rewrite <- csum_add. apply csum_ext; intros t _. rewrite H. apply c_eq; cbn; ring. Qed.
Lemma rfft_of_scal tw n c (x x1:nat->R) k : (forall t, x t = c * x1 t) ->
  rfft_of K tw n x k = cscal K c (rfft_of K tw n x1 k).
Proof. intros H. unfold rfft_of. rewrite <- csum_cscal. apply csum_ext; intros t _. rewrite H. apply c_eq; cbn; ring. Qed.
Lemma rfft_of_ext tw tw' n (x x':nat->R) k : (forall t, (t<n)%nat -> x t = x' t) -> (forall t, (t<n)%nat -> tw k t = tw' k t) ->
  rfft_of K tw n x k = rfft_of K tw' n x' k.
Proof. intros Hx Ht. unfold rfft_of. apply csum_ext; intros t Hlt. rewrite Hx, Ht by assumption. reflexivity. Qed.

Lemma cor_of_add tw we invn n (P P1 P2:nat->CR) k : (forall q, P q = P1 q +c P2 q) ->
  cor_of K tw we invn n P k = cor_of K tw we invn n P1 k +c cor_of K tw we invn n P2 k.
Proof. intros H. unfold cor_of. apply rfft_of_add. intros t. rewrite (irfft_of_add tw invn n P P1 P2 t H). ring. Qed.
Lemma cor_of_scal tw we invn n c (P P1:nat->CR) k : (forall q, P q = cscal K c (P1 q)) ->
  cor_of K tw we invn n P k = cscal K c (cor_of K tw we invn n P1 k).
Proof. intros H. unfold cor_of. apply rfft_of_scal. intros t. rewrite (irfft_of_scal tw invn n c P P1 t H). ring. Qed.

Section Cor.
Variables (tw:nat->nat->CR) (we:nat->R) (invm invn invK:R) (n nseg:nat).
Notation SC := (sd_cor K tw we invm invn invK n nseg).
Lemma sd_cor_local (Y Y' Yref Yref':rsig R) i j k :
  (forall t, Y i t = Y' i t) -> (forall t, Yref j t = Yref' j t) -> SC Y Yref i j k = SC Y' Yref' i j k.
Proof.
  intros H1 H2. unfold sd_cor, cor_of. apply rfft_of_ext; [|reflexivity]. intros t _. f_equal.
  unfold irfft_of. rewrite !(pxy_local _ _ _ _ _ _ _ _ _ Y Y' Yref Yref' i j _ H1 H2).
  f_equal. f_equal. apply (sumn_ext R K). intros q _. rewrite (pxy_local _ _ _ _ _ _ _ _ _ Y Y' Yref Yref' i j _ H1 H2). reflexivity.
Qed.
Lemma sd_cor_add_data (Y Z Yref:rsig R) i j k : SC (sadd Y Z) Yref i j k = SC Y Yref i j k +c SC Z Yref i j k.
Proof. unfold sd_cor. apply cor_of_add. intros q. apply pxy_add_data. Qed.
Lemma sd_cor_add_ref (Y Yref Zref:rsig R) i j k : SC Y (sadd Yref Zref) i j k = SC Y Yref i j k +c SC Y Zref i j k.
Proof. unfold sd_cor. apply cor_of_add. intros q. apply pxy_add_ref. Qed.
Lemma sd_cor_scal c d (Y Yref:rsig R) i j k : SC (sscal c Y) (sscal d Yref) i j k = cscal K (c*d) (SC Y Yref i j k).
Proof. unfold sd_cor. apply cor_of_scal. intros q. apply pxy_scal. Qed.
Lemma sd_cor_scaled_copy g (Y:rsig R) i j k : (forall t, Y j t = g * Y i t) -> SC Y Y i j k = cscal K g (SC Y Y i i k).
Proof. intros H. unfold sd_cor. apply cor_of_scal. intros q. apply pxy_scaled_copy. exact H. Qed.
End Cor.

(* ---------- positivity over any ordered carrier ---------- *)
Section Order.
Variable le : R -> R -> Prop.
Hypothesis le_0_0 : le 0 0.
Hypothesis le_0_1 : le 0 1.
Hypothesis le_add : forall a b, le 0 a -> le 0 b -> le 0 (a+b).
Hypothesis le_mul : forall a b, le 0 a -> le 0 b -> le 0 (a*b).
Hypothesis le_sq : forall a, le 0 (a*a).
Lemma sumn_nonneg n (f:nat->R) : (forall k, (k<n)%nat -> le 0 (f k)) -> le 0 (sumn K n f).
Proof. induction n; intros H; cbn [sumn]; [exact le_0_0|]. apply le_add; [apply IHn; intros; apply H; lia|apply H; lia]. Qed.
Lemma cnorm2_nonneg (z:CR) : le 0 (cnorm2 K z).
Proof. unfold cnorm2. apply le_add; apply le_sq. Qed.
Lemma dbl_nonneg nfft k : le 0 (dbl K nfft k).
Proof. unfold dbl. destruct (k =? 0)%nat; [exact le_0_1|]. destruct (Nat.even nfft && (k =? nfft/2)%nat); [exact le_0_1|]. apply le_add; exact le_0_1. Qed.
Lemma pxy_psd tw w invm scale invK nfft m step nseg (Y:rsig R) nch (v:nat->CR) k :
  le 0 scale -> le 0 invK ->
  le 0 (cre (quad nch v (fun i j => pxy K tw w invm scale invK nfft m step nseg Y Y i j k)))
  /\ cim (quad nch v (fun i j => pxy K tw w invm scale invK nfft m step nseg Y Y i j k)) = 0.
Proof.
  intros Hs Hk. rewrite pxy_quad. cbn [cre cim cofR fst snd]. split; [|reflexivity].
  apply le_mul; [apply le_mul; [apply le_mul; [apply dbl_nonneg|exact Hs]|exact Hk]|].
  apply sumn_nonneg. intros s _. apply cnorm2_nonneg.
Qed.
End Order.

(* ---------- list-level tables hold exactly the function-level model ---------- *)
Lemma tw_tab_entry twl n nl k t : (k<nl)%nat -> (t<n)%nat -> tw_tab K twl n nl k t = tw_of K twl n k t.
Proof. intros Hk Ht. unfold tw_tab. apply (ent_tab2 CR (COps K)); assumption. Qed.
Lemma seg_tab_entry w invm m off y t : (t<m)%nat -> lget K (seg_tab K w invm m off y) t = w t * seg_dt K invm m off y t.
Proof. intros Ht. unfold seg_tab. rewrite (lget_tab R K) by assumption. reflexivity. Qed.
Lemma stft_tab_entry tw w invm m step nch nseg nl (Y:rsig R) i s k : (i<nch)%nat -> (s<nseg)%nat -> (k<nl)%nat ->
  look3 K (stft_tab K tw w invm m step nch nseg nl Y) i s k = stft K tw w invm m step (Y i) s k.
Proof.
  intros Hi Hs Hk. unfold look3, stft_tab, ent. rewrite nth_map_seq by assumption. rewrite nth_map_seq by assumption.
  change (lget (COps K) (tab nl (fun k0 => csum m (fun t => cscal K (lget K (seg_tab K w invm m (s*step) (Y i)) t) (tw k0 t)))) k
          = stft K tw w invm m step (Y i) s k).
  rewrite (lget_tab CR (COps K)) by assumption. unfold stft. apply csum_ext; intros t Ht.
  rewrite seg_tab_entry by assumption. reflexivity.
Qed.

Definition ent3 (T:list (list (list CR))) (i j k:nat) : CR := lget (COps K) (nth j (nth i T []) []) k.

Theorem sd_per_l_entry twl wl fs n nov Ndat nall nref Yl Yrefl i j k :
  (i<nall)%nat -> (j<nref)%nat -> (k < nlines n)%nat ->
  ent3 (sd_per_l K twl wl fs n nov Ndat nall nref Yl Yrefl) i j k
  = sd_per K (tw_of K twl n) (lget K wl) (odiv K 1 (ofnat K n))
      (odiv K 1 (fs * sumn K n (fun t => lget K wl t * lget K wl t))) (odiv K 1 (ofnat K (nsegs Ndat n nov)))
      n (n - nov) (nsegs Ndat n nov) (sig_of K Yl) (sig_of K Yrefl) i j k.
Proof.
  intros Hi Hj Hk. unfold ent3, sd_per_l. cbv zeta. rewrite nth_map_seq by assumption.
  rewrite (nth_tab2 CR) by assumption. rewrite (lget_tab CR (COps K)) by assumption.
  unfold sd_per, pxy. apply csd_of_ext; intros s Hs; rewrite stft_tab_entry by assumption; unfold spec_of;
    apply stft_ext_tw; intros t Ht; apply tw_tab_entry; assumption.
Qed.
Theorem sd_per_l_shape twl wl fs n nov Ndat nall nref Yl Yrefl :
  length (sd_per_l K twl wl fs n nov Ndat nall nref Yl Yrefl) = nall /\
  (forall i, (i<nall)%nat -> length (nth i (sd_per_l K twl wl fs n nov Ndat nall nref Yl Yrefl) []) = nref) /\
  (forall i j, (i<nall)%nat -> (j<nref)%nat ->
     length (nth j (nth i (sd_per_l K twl wl fs n nov Ndat nall nref Yl Yrefl) []) []) = S (n/2)).
Proof.
  unfold sd_per_l. cbv zeta. split; [rewrite map_length, seq_length; reflexivity|]. split.
  - intros i Hi. rewrite nth_map_seq by assumption. apply tab2_length.
  - intros i j Hi Hj. rewrite nth_map_seq by assumption. rewrite (nth_tab2 CR) by assumption. apply tab_length.
Qed.

Lemma cor_of_l_entry tw tw' we invn n (P:nat->CR) k : (2 <= n)%nat -> (k < nlines n)%nat ->
  (forall q t, (q < nlines n)%nat -> (t<n)%nat -> tw q t = tw' q t) ->
  lget (COps K) (cor_of_l K tw we invn n P) k = cor_of K tw' we invn n P k.
Proof.
  intros Hn Hk Htw. unfold cor_of_l. cbv zeta. rewrite (lget_tab CR (COps K)) by assumption.
  unfold cor_of. apply rfft_of_ext; [|intros t Ht; apply Htw; assumption].
  intros t Ht. rewrite (lget_tab R K) by assumption. f_equal.
  apply irfft_of_ext; [| |assumption].
  - intros q Hq. apply (lget_tab CR (COps K)). unfold nlines. lia.
  - intros q Hq. apply Htw; [unfold nlines; lia|assumption].
Qed.

Theorem sd_cor_l_entry twl wel n Ndat nall nref Yl Yrefl res i j k :
  sd_cor_l K twl wel n Ndat nall nref Yl Yrefl = Some res ->
  (2 <= n)%nat -> (i<nall)%nat -> (j<nref)%nat -> (k < nlines n)%nat ->
  Nat.even n = true /\
  ent3 res i j k
  = sd_cor K (tw_of K twl n) (lget K wel) (odiv K 1 (ofnat K (n/2))) (odiv K 1 (ofnat K n)) (odiv K 1 (ofnat K (nsegs Ndat (n/2) 0)))
      n (nsegs Ndat (n/2) 0) (sig_of K Yl) (sig_of K Yrefl) i j k.
Proof.
  unfold sd_cor_l. destruct (Nat.even n) eqn:He; cbn [negb]; [|discriminate].
  cbv zeta. intros E Hn Hi Hj Hk. injection E as <-. split; [reflexivity|].
  unfold ent3. rewrite nth_map_seq by assumption. rewrite nth_map_seq by assumption.
  rewrite (cor_of_l_entry _ (tw_of K twl n)) by (try assumption; intros; apply tw_tab_entry; assumption).
  unfold sd_cor, cor_of. apply rfft_of_ext; [|reflexivity]. intros t Ht. f_equal.
  assert (Hm: (n/2 <= n)%nat) by (apply Nat.div_le_upper_bound; lia).
  assert (E2: forall q, (q <= n/2)%nat ->
     csd_of K (look3 K (stft_tab K (tw_tab K twl n (nlines n)) (ones K) (odiv K 1 (ofnat K (n/2))) (n/2) (n/2) nall (nsegs Ndat (n/2) 0) (nlines n) (sig_of K Yl)))
              (look3 K (stft_tab K (tw_tab K twl n (nlines n)) (ones K) (odiv K 1 (ofnat K (n/2))) (n/2) (n/2) nref (nsegs Ndat (n/2) 0) (nlines n) (sig_of K Yrefl)))
              (coef_of K (odiv K 1 (ofnat K (n/2))) (odiv K 1 (ofnat K (nsegs Ndat (n/2) 0))) n) (nsegs Ndat (n/2) 0) i j q
     = pxy K (tw_of K twl n) (ones K) (odiv K 1 (ofnat K (n/2))) (odiv K 1 (ofnat K (n/2))) (odiv K 1 (ofnat K (nsegs Ndat (n/2) 0)))
           n (n/2) (n/2) (nsegs Ndat (n/2) 0) (sig_of K Yl) (sig_of K Yrefl) i j q).
  { intros q Hq. unfold pxy. apply csd_of_ext; intros s Hs; rewrite stft_tab_entry by (try assumption; unfold nlines; lia); unfold spec_of;
      apply stft_ext_tw; intros u Hu; apply tw_tab_entry; unfold nlines; lia. }
  apply irfft_of_ext; [exact E2|reflexivity|assumption].
Qed.
End P.

(* ---------- frequency grid (field) ---------- *)
Section G.
Variable R:Type. Variable K:Ops R.
Hypothesis Fth : field_theory (o0 K) (o1 K) (oadd K) (omul K) (osub K) (oopp K) (odiv K) (oinv K) (@eq R).
Add Field FfS : Fth.
Local Open Scope K_scope.
Notation "0" := (o0 K) : K_scope. Notation "1" := (o1 K) : K_scope.
Infix "+" := (oadd K) : K_scope. Infix "*" := (omul K) : K_scope. Infix "-" := (osub K) : K_scope. Infix "/" := (odiv K) : K_scope.

Lemma ofnat_S k : ofnat K (S k) = ofnat K k + 1.
Proof. reflexivity. Qed.
Lemma ofnat_double h : ofnat K (2*h) = (1+1) * ofnat K h.
Proof.
  induction h; [cbn; ring|]. replace (2 * S h)%nat with (S (S (2*h))) by lia. rewrite !ofnat_S, IHh. ring.
Qed.
Theorem sd_grid fs n : ofnat K n <> 0 ->
  length (freq_grid K fs n) = S (n/2) /\
  (forall k, (k <= n/2)%nat -> lget K (freq_grid K fs n) k = ofnat K k * fs / ofnat K n) /\
  lget K (freq_grid K fs n) 0 = 0 /\
  (forall k, (k < n/2)%nat -> lget K (freq_grid K fs n) (S k) - lget K (freq_grid K fs n) k = fs / ofnat K n) /\
  (Nat.even n = true -> lget K (freq_grid K fs n) (n/2) = fs / (1+1)).
Proof.
  intros Hn.
  assert (E: forall k, (k <= n/2)%nat -> lget K (freq_grid K fs n) k = ofnat K k * fs / ofnat K n).
  { intros k Hk. unfold freq_grid. rewrite (lget_tab R K) by (unfold nlines; lia). reflexivity. }
  split; [apply tab_length|]. split; [exact E|]. split; [|split].
  - rewrite E by lia. unfold ofnat. cbn [sumn]. field. exact Hn.
  - intros k Hk. rewrite !E by lia. rewrite ofnat_S. field. exact Hn.
  - intros He. rewrite E by lia. apply Nat.even_spec in He. destruct He as [h Hh].
    assert (Hd: (n/2 = h)%nat) by (subst n; rewrite Nat.mul_comm, Nat.div_mul; lia).
    rewrite Hd. rewrite Hh, ofnat_double in Hn |- *.
    assert (H2: (1+1) <> 0) by (intros H0; apply Hn; rewrite H0; ring).
    assert (Hh0: ofnat K h <> 0) by (intros H0; apply Hn; rewrite H0; ring).
    field. split; assumption.
Qed.
End G.

(* ---------- Parseval on the one-sided grid (root-of-unity hypotheses on the twiddle table) ---------- *)
Section Pv.
Variable R:Type. Variable K:Ops R.
Hypothesis Rth : ring_theory (o0 K) (o1 K) (oadd K) (omul K) (osub K) (oopp K) (@eq R).
Add Ring RrV : Rth.
Local Open Scope K_scope.
Notation "0" := (o0 K) : K_scope. Notation "1" := (o1 K) : K_scope.
Infix "+" := (oadd K) : K_scope. Infix "*" := (omul K) : K_scope. Infix "-" := (osub K) : K_scope.
Notation CR := (C R).
Notation csum := (sumn (COps K)).
Notation "x +c y" := (cadd K x y) (at level 50, left associativity).
Notation "x *c y" := (cmul K x y) (at level 40, left associativity).
Notation cj := (cconj K).
Lemma CRv : ring_theory (c0 K) (c1 K) (cadd K) (cmul K) (csub K) (copp K) (@eq CR).
Proof. exact (CRth R K Rth). Qed.
Add Ring CrV : CRv.

Lemma csum_delta n j (f:nat->CR) : (j<n)%nat -> csum n (fun k => (if (k =? j)%nat then c1 K else c0 K) *c f k) = f j.
Proof. exact (sumn_delta CR (COps K) (CRth R K Rth) n j f). Qed.

Lemma sumn_rev n (f:nat->R) : sumn K n f = sumn K n (fun q => f (n - 1 - q)%nat).
Proof.
  revert f. induction n; intros f; [reflexivity|].
  rewrite (sumn_S_l R K Rth n (fun q => f (S n - 1 - q)%nat)). cbn [sumn].
  rewrite (IHn f). replace (S n - 1 - 0)%nat with n by lia.
  rewrite (sumn_ext R K n (fun q => f (n - 1 - q)%nat) (fun t => f (S n - 1 - S t)%nat)) by (intros; f_equal; lia).
  ring.
Qed.

(* sum over a full even-length period folded onto the lines 0 .. h *)
Lemma sumn_fold h (g:nat->R) : (1 <= h)%nat ->
  sumn K (2*h) g = g 0%nat + g h + sumn K (h-1) (fun q => g (S q) + g (2*h - S q)%nat).
Proof.
  intros Hh. destruct h as [|p]; [lia|]. replace (S p - 1)%nat with p by lia.
  replace (2 * S p)%nat with (S p + S p)%nat by lia.
  rewrite (sumn_split R K Rth (S p) (S p) g).
  rewrite (sumn_S_l R K Rth p g). rewrite (sumn_S_l R K Rth p (fun i => g (S p + i)%nat)).
  rewrite (sumn_add R K Rth). replace (S p + 0)%nat with (S p) by lia.
  rewrite (sumn_rev p (fun t => g (S p + S t)%nat)).
  rewrite (sumn_ext R K p (fun q => g (S p + S (p - 1 - q))%nat) (fun q => g (S p + S p - S q)%nat)) by (intros; f_equal; lia).
  ring.
Qed.

Section Tw.
Variables (tw:nat->nat->CR) (p:nat) (nR:R).
Let h := S p.
Let n := (2*h)%nat.
(* the twiddle table is that of a DFT of length n: rows are orthogonal with squared norm n, and row n-k is the conjugate of row k *)
Hypothesis Horth : forall t t', (t<n)%nat -> (t'<n)%nat ->
  csum n (fun k => cj (tw k t) *c tw k t') = if (t =? t')%nat then cofR K nR else c0 K.
Hypothesis Hmirror : forall k t, (0<k)%nat -> (k<n)%nat -> (t<n)%nat -> tw (n-k)%nat t = cj (tw k t).

Definition dft (x:nat->R) (k:nat) : CR := csum n (fun t => cscal K (x t) (tw k t)).

Lemma cj_dft x k : cj (dft x k) = csum n (fun t => cscal K (x t) (cj (tw k t))).
Proof. unfold dft. rewrite (cj_csum R K Rth). apply (csum_ext R K); intros t _. apply c_eq; cbn; ring. Qed.

Lemma parseval_full x : csum n (fun k => cj (dft x k) *c dft x k) = cofR K (nR * sumn K n (fun t => x t * x t)).
Proof.
  transitivity (csum n (fun k => csum n (fun t => csum n (fun t' => cscal K (x t * x t') (cj (tw k t) *c tw k t'))))).
  { apply (csum_ext R K); intros k _. rewrite cj_dft. unfold dft.
    rewrite <- (csum_mul_r R K Rth). apply (csum_ext R K); intros t _.
    rewrite <- (csum_mul_l R K Rth). apply (csum_ext R K); intros t' _. apply c_eq; cbn; ring. }
  rewrite (csum_swap R K Rth).
  transitivity (csum n (fun t => cofR K (nR * (x t * x t)))).
  { apply (csum_ext R K); intros t Ht. rewrite (csum_swap R K Rth).
    transitivity (csum n (fun t' => (if (t' =? t)%nat then c1 K else c0 K) *c cscal K (x t * x t') (cofR K nR))).
    { apply (csum_ext R K); intros t' Ht'. rewrite (csum_cscal R K Rth). rewrite Horth by assumption.
      rewrite (Nat.eqb_sym t' t). destruct (t =? t')%nat; apply c_eq; cbn; ring. }
    rewrite (csum_delta n t (fun t' => cscal K (x t * x t') (cofR K nR)) Ht).
    apply c_eq; cbn; ring. }
  rewrite (csum_cofR R K Rth). rewrite (sumn_scal R K Rth). reflexivity.
Qed.

Lemma dft_mirror x k : (0<k)%nat -> (k<n)%nat -> dft x (n-k)%nat = cj (dft x k).
Proof.
  intros H0 Hk. rewrite cj_dft. unfold dft. apply (csum_ext R K); intros t Ht. rewrite Hmirror by assumption. reflexivity.
Qed.

Lemma cnorm2_cj (z:CR) : cnorm2 K (cj z) = cnorm2 K z.
Proof. apply (cnorm2_conj R K Rth). Qed.

(* Parseval on the one-sided grid: sum_{k=0}^{h} dbl_k |X[k]|^2 = n sum_t x_t^2 *)
Lemma parseval_onesided x :
  sumn K (S h) (fun k => dbl K n k * cnorm2 K (dft x k)) = nR * sumn K n (fun t => x t * x t).
Proof.
  assert (E: sumn K (2*h) (fun k => cnorm2 K (dft x k)) = nR * sumn K n (fun t => x t * x t)).
  { change (2*h)%nat with n. assert (F := parseval_full x).
    rewrite (csum_ext R K n _ (fun k => cofR K (cnorm2 K (dft x k)))) in F by (intros; apply (cmul_conj R K Rth)).
    rewrite (csum_cofR R K Rth) in F. apply (f_equal cre) in F. exact F. }
  rewrite <- E. rewrite (sumn_fold h (fun k => cnorm2 K (dft x k))) by (unfold h; lia).
  unfold h. replace (S p - 1)%nat with p by lia.
  rewrite (sumn_S_l R K Rth (S p)). cbn [sumn].
  assert (En: Nat.even n = true) by (unfold n; rewrite Nat.even_mul; reflexivity).
  assert (Ed: (n/2 = S p)%nat) by (unfold n; rewrite Nat.mul_comm, Nat.div_mul; lia).
  assert (D0: dbl K n 0 = 1) by reflexivity.
  assert (Dh: dbl K n (S p) = 1).
  { unfold dbl. cbn [Nat.eqb]. rewrite En, Ed, Nat.eqb_refl. reflexivity. }
  rewrite D0, Dh.
  rewrite (sumn_ext R K p (fun t => dbl K n (S t) * cnorm2 K (dft x (S t)))
             (fun q => cnorm2 K (dft x (S q)) + cnorm2 K (dft x (2 * S p - S q)%nat))).
  { ring. }
  intros q Hq. assert (Dq: dbl K n (S q) = 1+1).
  { assert (Hne: (q =? p)%nat = false) by (apply Nat.eqb_neq; lia).
    unfold dbl. cbn [Nat.eqb]. rewrite En, Ed. cbn [Nat.eqb]. rewrite Hne. reflexivity. }
  rewrite Dq. change (2 * S p)%nat with n. rewrite dft_mirror by (unfold n; lia). rewrite cnorm2_cj. ring.
Qed.

(* the spectral densities of one channel, summed over the lines 0 .. n/2, are scale/K * n * (energy of the windowed,
   mean-removed segments): with scale = 1/(fs sum w^2) and nR = n this is
   sum_k Sy[i][i][k] * fs/n = (1/K) sum_seg sum_t (w_t (y_t - mean))^2 / sum_t w_t^2  - "integrates to the mean square" *)
Theorem sd_parseval (w:nat->R) (invn scale invK:R) (step nseg:nat) (Y:rsig R) i :
  csum (S h) (fun k => sd_per K tw w invn scale invK n step nseg Y Y i i k)
  = cofR K (scale * invK * (nR * sumn K nseg (fun s => sumn K n (fun t =>
        (w t * seg_dt K invn n (s*step) (Y i) t) * (w t * seg_dt K invn n (s*step) (Y i) t))))).
Proof.
  set (xw := fun s t => w t * seg_dt K invn n (s*step) (Y i) t).
  assert (X: forall s k, stft K tw w invn n step (Y i) s k = dft (xw s) k) by reflexivity.
  transitivity (csum (S h) (fun k => cofR K (scale * invK * sumn K nseg (fun s => dbl K n k * cnorm2 K (dft (xw s) k))))).
  { apply (csum_ext R K); intros k _. unfold sd_per, pxy, csd_of, spec_of, coef_of.
    rewrite (csum_ext R K nseg _ (fun s => cofR K (cnorm2 K (dft (xw s) k))))
      by (intros s _; rewrite X; apply (cmul_conj R K Rth)).
    rewrite (csum_cofR R K Rth), (cscal_is_mul R K Rth), (cofR_mul R K Rth). f_equal.
    rewrite (sumn_scal R K Rth). ring. }
  rewrite (csum_cofR R K Rth). f_equal. rewrite (sumn_scal R K Rth). f_equal.
  rewrite (sumn_swap R K Rth). rewrite <- (sumn_scal R K Rth). apply (sumn_ext R K); intros s _.
  apply parseval_onesided.
Qed.
End Tw.
End Pv.


(* ---------- DFT shift theorem and the circular delay ---------- *)
Section Sh.
Variable R:Type. Variable K:Ops R.
Hypothesis Rth : ring_theory (o0 K) (o1 K) (oadd K) (omul K) (osub K) (oopp K) (@eq R).
Add Ring RrSh : Rth.
Local Open Scope K_scope.
Infix "*" := (omul K) : K_scope.
Notation CR := (C R).
Notation csum := (sumn (COps K)).
Notation "x *c y" := (cmul K x y) (at level 40, left associativity).
Lemma CRs : ring_theory (c0 K) (c1 K) (cadd K) (cmul K) (csub K) (copp K) (@eq CR).
Proof. exact (CRth R K Rth). Qed.
Add Ring CrSh : CRs.

(* DFT shift theorem: a circular delay by d multiplies line k by tw k d, for any table with tw k ((t+d) mod n) = tw k t * tw k d *)
Lemma dft_shift (tw:nat->nat->CR) n d g (x x':nat->R) k : (d < n)%nat ->
  (forall t, (t<n)%nat -> tw k ((t + d) mod n)%nat = tw k t *c tw k d) ->
  (forall t, (t<n)%nat -> x' t = g * x ((t + (n - d)) mod n)%nat) ->
  csum n (fun t => cscal K (x' t) (tw k t)) = (cofR K g *c tw k d) *c csum n (fun t => cscal K (x t) (tw k t)).
Proof.
  intros Hd Hch Hx.
  rewrite (sumn_rot CR (COps K) (CRth R K Rth) n d (fun t => cscal K (x' t) (tw k t)) Hd).
  rewrite <- (csum_mul_l R K Rth). apply (csum_ext R K); intros u Hu.
  assert (Hm: ((u + d) mod n < n)%nat) by (apply Nat.mod_upper_bound; lia).
  rewrite Hx, Hch by assumption.
  replace (((u + d) mod n + (n - d)) mod n)%nat with u.
  - apply c_eq; cbn; ring.
  - rewrite Nat.add_mod_idemp_l by lia. replace (u + d + (n - d))%nat with (u + 1 * n)%nat by lia.
    rewrite Nat.mod_add by lia. symmetry; apply Nat.mod_small; lia.
Qed.

(* 'per': if in every segment the windowed, mean-removed samples of channel j are g times those of channel i delayed
   circularly by d, then Sy[i][j][k] = g * tw k d * Sy[i][i][k]   (tw k d = exp(-2 pi i k d / n): phase -2 pi f delay) *)
Theorem sd_per_circular_delay (tw:nat->nat->CR) (w:nat->R) (invn scale invK:R) (n step nseg:nat) (Y:rsig R) i j k d g :
  (d < n)%nat ->
  (forall t, (t<n)%nat -> tw k ((t + d) mod n)%nat = tw k t *c tw k d) ->
  (forall s t, (s<nseg)%nat -> (t<n)%nat ->
     w t * seg_dt K invn n (s*step) (Y j) t
     = g * (w ((t + (n - d)) mod n)%nat * seg_dt K invn n (s*step) (Y i) ((t + (n - d)) mod n)%nat)) ->
  sd_per K tw w invn scale invK n step nseg Y Y i j k
  = (cofR K g *c tw k d) *c sd_per K tw w invn scale invK n step nseg Y Y i i k.
Proof.
  intros Hd Hch Hx. unfold sd_per, pxy.
  rewrite (csd_of_factor R K Rth (spec_of K tw w invn n step Y) (fun _ => spec_of K tw w invn n step Y i) _ _ (c1 K) (cofR K g *c tw k d) _ nseg i j k).
  - replace (cconj K (c1 K)) with (c1 K) by (apply c_eq; cbn; ring). unfold csd_of. ring.
  - intros s _. ring.
  - intros s Hs. unfold spec_of, stft.
    apply (dft_shift tw n d g (fun t => w t * seg_dt K invn n (s*step) (Y i) t) (fun t => w t * seg_dt K invn n (s*step) (Y j) t) k Hd Hch).
    intros t Ht. apply Hx; assumption.
Qed.
End Sh.

(* ---------- the two-carrier evaluator with one carrier and phi = id is the one-carrier model ---------- *)
Section X.
Variable R:Type. Variable K:Ops R.
Hypothesis Rth : ring_theory (o0 K) (o1 K) (oadd K) (omul K) (osub K) (oopp K) (@eq R).
Add Ring RrX : Rth.
Local Open Scope K_scope.
Notation "1" := (o1 K) : K_scope.
Infix "*" := (omul K) : K_scope.
Notation CR := (C R).
Let idR : R -> R := fun x => x.

Lemma cphi_id (z:CR) : cphi idR z = z.
Proof. destruct z; reflexivity. Qed.

(* with one carrier and phi = id the two-carrier evaluator returns the entries of the one-carrier model *)
Theorem sd_per_x_id twl wl fs n nov Ndat nall nref Yl Yrefl i j k :
  (i<nall)%nat -> (j<nref)%nat -> (k < nlines n)%nat ->
  ent3 R K (sd_per_x K K idR twl wl (odiv K 1 (ofnat K n)) fs n nov Ndat nall nref Yl Yrefl) i j k
  = ent3 R K (sd_per_l K twl wl fs n nov Ndat nall nref Yl Yrefl) i j k.
Proof.
  intros Hi Hj Hk. unfold ent3, sd_per_x, sd_per_l. cbv zeta.
  rewrite !nth_map_seq by assumption. rewrite !(nth_tab2 CR) by assumption. rewrite !(lget_tab CR (COps K)) by assumption.
  rewrite cphi_id. unfold csd_of, coef_of, idR. apply c_eq; cbn; ring.
Qed.

Lemma cor_x_inner tw we invn n invK (P1 P2:nat->CR) k : (2 <= n)%nat -> (k < nlines n)%nat ->
  (forall q, P2 q = cscal K invK (P1 q)) ->
  lget (COps K) (map (fun z => cscal K invK (cphi idR z)) (cor_of_l K tw we invn n P1)) k
  = lget (COps K) (cor_of_l K tw we invn n P2) k.
Proof.
  intros Hn Hk HP. unfold lget at 1.
  rewrite nth_indep with (d' := (fun z => cscal K invK (cphi idR z)) (o0 (COps K)))
    by (rewrite map_length; unfold cor_of_l; cbv zeta; rewrite tab_length; assumption).
  rewrite map_nth. rewrite !cphi_id.
  change (nth k (cor_of_l K tw we invn n P1) (o0 (COps K))) with (lget (COps K) (cor_of_l K tw we invn n P1) k).
  rewrite !(cor_of_l_entry R K tw tw) by (try assumption; reflexivity).
  symmetry. apply (cor_of_scal R K Rth). exact HP.
Qed.

Theorem sd_cor_x_id twl wel n Ndat nall nref Yl Yrefl res resx i j k :
  sd_cor_l K twl wel n Ndat nall nref Yl Yrefl = Some res ->
  sd_cor_x K K idR twl wel (odiv K 1 (ofnat K (n/2))) (odiv K 1 (ofnat K n)) n Ndat nall nref Yl Yrefl = Some resx ->
  (2 <= n)%nat -> (i<nall)%nat -> (j<nref)%nat -> (k < nlines n)%nat ->
  ent3 R K resx i j k = ent3 R K res i j k.
Proof.
  unfold sd_cor_l, sd_cor_x. destruct (Nat.even n); cbn [negb]; [|discriminate]. cbv zeta.
  intros E1 E2 Hn Hi Hj Hk. injection E1 as <-. injection E2 as <-.
  unfold ent3. rewrite !nth_map_seq by assumption.
  apply cor_x_inner; [assumption|assumption|].
  intros q. unfold csd_of, coef_of. apply c_eq; cbn; ring.
Qed.
End X.

(* ---------- instance at the real numbers: Hermitian positive semidefinite ---------- *)
From Coq Require Import Reals RealField.
Definition ROps_spectra : Ops R :=
  {| o0:=0%R; o1:=1%R; oadd:=Rplus; omul:=Rmult; osub:=Rminus; oopp:=Ropp; odiv:=Rdiv; oinv:=Rinv |}.
Lemma RRth_spectra : ring_theory (o0 ROps_spectra) (o1 ROps_spectra) (oadd ROps_spectra) (omul ROps_spectra)
                                 (osub ROps_spectra) (oopp ROps_spectra) (@eq R).
Proof. exact RTheory. Qed.
Theorem sd_per_hpsd_R (tw:nat->nat->Cplx.C R) (w:nat->R) (invn scale invK:R) (n step nseg:nat) (Y:rsig R) :
  (0 <= scale)%R -> (0 <= invK)%R ->
  forall k,
   (forall i j, sd_per ROps_spectra tw w invn scale invK n step nseg Y Y j i k
                = cconj ROps_spectra (sd_per ROps_spectra tw w invn scale invK n step nseg Y Y i j k)) /\
   (forall nch (v:nat->Cplx.C R),
      (0 <= cre (quad R ROps_spectra nch v (fun i j => sd_per ROps_spectra tw w invn scale invK n step nseg Y Y i j k)))%R /\
      cim (quad R ROps_spectra nch v (fun i j => sd_per ROps_spectra tw w invn scale invK n step nseg Y Y i j k)) = 0%R).
Proof.
  intros Hs Hk k. split.
  - intros i j. apply (pxy_hermitian R ROps_spectra RRth_spectra).
  - intros nch v.
    apply (pxy_psd R ROps_spectra RRth_spectra Rle (Rle_refl 0%R) Rle_0_1 Rplus_le_le_0_compat Rmult_le_pos Rle_0_sqr
             tw w invn scale invK n n step nseg Y nch v k Hs Hk).
Qed.
