(* C17 - lemmas about the model of the uncertainty path (Model/M_unc.v). *)
From Coq Require Import List Arith Lia Ring Field Setoid Morphisms ZArith.
From PyOMA.Base Require Import Carrier FMat.
From PyOMA.Model Require Import M_hankel M_unc.
Import ListNotations.

Lemma divmod_blk j m i : (i < m)%nat -> ((j*m+i) / m = j /\ (j*m+i) mod m = i)%nat.
Proof.
  intros Hi. split.
  - rewrite Nat.add_comm, Nat.div_add by lia. rewrite Nat.div_small by lia. lia.
  - rewrite Nat.add_comm, Nat.mod_add by lia. apply Nat.mod_small; lia.
Qed.

Section P.
Variable R:Type. Variable K:Ops R.
Hypothesis Rth : ring_theory (o0 K) (o1 K) (oadd K) (omul K) (osub K) (oopp K) (@eq R).
Add Ring RrU : Rth.
Local Open Scope K_scope.
Notation "0" := (o0 K) : K_scope. Notation "1" := (o1 K) : K_scope.
Infix "+" := (oadd K) : K_scope. Infix "*" := (omul K) : K_scope. Infix "-" := (osub K) : K_scope.
Notation "- x" := (oopp K x) : K_scope.
Notation fmul := (fmul K). Notation fadd := (fadd K). Notation fsub := (fsub K). Notation fscal := (fscal K).
Notation fid := (fid K). Notation sumn := (sumn K).
Let assoc := fmul_assoc R K Rth.
Let idl := fmul_id_l R K Rth.
Let idr := fmul_id_r R K Rth.

(* ================= (a) the covariance factor ================= *)

(* NumPy slices [k Nb, (k+1) Nb) of an axis of length Ncol tile the prefix of length min(n Nb, Ncol) *)
Lemma blocks_tile (Nb Ncol:nat) (g:nat->R) n :
  sumn n (fun k => sumn (blk_len Nb Ncol k) (fun t => g (blk_lo Nb Ncol k + t)%nat)) = sumn (Nat.min (n*Nb) Ncol) g.
Proof.
  induction n; [reflexivity|]. cbn [Carrier.sumn]. rewrite IHn. unfold blk_len, blk_lo.
  assert (E: Nat.min (S n * Nb) Ncol = (Nat.min (n*Nb) Ncol + (Nat.min (S n * Nb) Ncol - Nat.min (n*Nb) Ncol))%nat) by lia.
  rewrite E at 2. rewrite (sumn_split R K Rth). reflexivity.
Qed.

Lemma win_mom_blocks (Yf Yp:fmat R) Nb Ncol n I J :
  sumn n (fun k => win_mom K Yf Yp (blk_lo Nb Ncol k) (blk_len Nb Ncol k) I J) = win_mom K Yf Yp 0 (Nat.min (n*Nb) Ncol) I J.
Proof. unfold win_mom. cbn [Nat.add]. rewrite <- (blocks_tile Nb Ncol (fun t => Yf I t * Yp J t) n). reflexivity. Qed.

(* mean of the block-wise estimates = the full estimate whenever the blocks cover all Ncol columns and the two
   normalisations compose (1/nb * 1/Nb = 1/N) *)
Theorem block_mean_gen (invnb invNb invN:R) (nb Nb Ncol:nat) (Yf Yp:fmat R) I J :
  (Ncol <= nb*Nb)%nat -> invnb * invNb = invN ->
  fscal invnb (fsum K nb (blk_est K invNb Nb Ncol Yf Yp)) I J = full_est K invN Ncol Yf Yp I J.
Proof.
  intros Hc Hs. unfold FMat.fscal, fsum, blk_est, full_est, FMat.fscal.
  rewrite (sumn_scal R K Rth), win_mom_blocks. rewrite Nat.min_r by assumption. rewrite <- Hs. ring.
Qed.

Fixpoint ofnat (n:nat) : R := match n with O => 0 | S k => ofnat k + 1 end.
Lemma ofnat_add a b : ofnat (a+b) = ofnat a + ofnat b.
Proof. induction a; cbn [ofnat Nat.add]; [ring|]. rewrite IHa. ring. Qed.
Lemma ofnat_mul a b : ofnat (a*b) = ofnat a * ofnat b.
Proof. induction a; cbn [ofnat Nat.mul]; [ring|]. rewrite ofnat_add, IHa. ring. Qed.

(* the code: N = Ndat-2br-1, the stacked matrices have N-1 columns, Nb = N // nb, the last slice is cut by NumPy,
   every block is scaled by N/Nb * 1/N = 1/Nb.  When nb divides N the mean of the nb block estimates IS the estimate. *)
Theorem block_mean (invnb invNb invN:R) (nb Nb N:nat) (Yf Yp:fmat R) :
  (nb*Nb = N)%nat -> invnb * ofnat nb = 1 -> invNb * ofnat Nb = 1 -> invN * ofnat N = 1 ->
  forall I J, fscal invnb (fsum K nb (blk_est K invNb Nb (N-1) Yf Yp)) I J = full_est K invN (N-1) Yf Yp I J.
Proof.
  intros HN H1 H2 H3 I J. apply block_mean_gen; [lia|].
  transitivity (invnb * invNb * (invN * ofnat N)); [rewrite H3; ring|].
  rewrite <- HN, ofnat_mul.
  transitivity ((invnb * ofnat nb) * (invNb * ofnat Nb) * invN); [ring|]. rewrite H1, H2. ring.
Qed.

(* Gram matrix of the factor = c^2 * sum_k vec(h_k - h) vec(h_k - h)^T ; with c^2 = 1/(nb(nb-1)) this is the sample
   covariance of the mean *)
Theorem factor_gram (c cc invN invNb:R) (Nb Ncol rows nb:nat) (Yf Yp:fmat R) s t :
  c * c = cc ->
  fmul nb (cov_factor K c invN invNb Nb Ncol rows Yf Yp) (ftr (cov_factor K c invN invNb Nb Ncol rows Yf Yp)) s t
  = cc * sumn nb (fun k =>
      vec_col rows (fsub (blk_est K invNb Nb Ncol Yf Yp k) (full_est K invN Ncol Yf Yp)) s *
      vec_col rows (fsub (blk_est K invNb Nb Ncol Yf Yp k) (full_est K invN Ncol Yf Yp)) t).
Proof.
  intros Hc. unfold FMat.fmul, ftr, cov_factor, FMat.fscal, dev_factor. rewrite <- Hc, <- (sumn_scal R K Rth).
  apply sumn_ext; intros k _. ring.
Qed.
(* deviations are taken from the FULL estimate, entry by entry, in column-stacked order *)
Theorem factor_entry (c invN invNb:R) (Nb Ncol rows:nat) (Yf Yp:fmat R) i j k : (i < rows)%nat ->
  cov_factor K c invN invNb Nb Ncol rows Yf Yp (j*rows+i)%nat k
  = c * (blk_est K invNb Nb Ncol Yf Yp k i j - full_est K invN Ncol Yf Yp i j).
Proof.
  intros Hi. unfold cov_factor, FMat.fscal, dev_factor, vec_col, FMat.fsub.
  destruct (divmod_blk j rows i Hi) as [-> ->]. reflexivity.
Qed.

(* ================= vec / Kronecker: the vectorisation the propagation step expects ================= *)

(* (v^T (x) I_m) vec_col(M) = M v      M is m x n *)
Theorem vec_col_kron_right m n (M:fmat R) (v:nat->R) i : (i < m)%nat ->
  mapply K (n*m) (kron K m m (rowv v) fid) (vec_col m M) i = mapply K n M v i.
Proof.
  intros Hi. unfold mapply. rewrite (sumn_blocks R K Rth). apply sumn_ext; intros j Hj.
  rewrite (sumn_ext R K m _ (fun i' => (if Nat.eqb i' i then 1 else 0) * (M i' j * v j))).
  - rewrite (sumn_delta R K Rth m i (fun i' => M i' j * v j)) by assumption. reflexivity.
  - intros i' Hi'. unfold kron, vec_col, rowv, FMat.fid.
    destruct (divmod_blk j m i' Hi') as [-> ->]. rewrite (Nat.mod_small i m Hi). rewrite Nat.eqb_sym.
    destruct (Nat.eqb i' i); ring.
Qed.
(* (I_n (x) u^T) vec_col(M) = M^T u *)
Theorem vec_col_kron_left m n (M:fmat R) (u:nat->R) j : (j < n)%nat -> (0 < m)%nat ->
  mapply K (n*m) (kron K 1 m fid (rowv u)) (vec_col m M) j = mapply K m (ftr M) u j.
Proof.
  intros Hj Hm. unfold mapply. rewrite (sumn_blocks R K Rth).
  rewrite (sumn_ext R K n _ (fun j' => (if Nat.eqb j' j then 1 else 0) * sumn m (fun i => ftr M j i * u i))).
  - rewrite (sumn_delta R K Rth n j (fun j' => sumn m (fun i => ftr M j i * u i))) by assumption. reflexivity.
  - intros j' Hj'. rewrite <- (sumn_scal R K Rth). apply sumn_ext; intros i Hi.
    unfold kron, vec_col, rowv, FMat.fid, ftr. destruct (divmod_blk j' m i Hi) as [-> ->].
    rewrite Nat.div_1_r. rewrite Nat.eqb_sym. destruct (Nat.eqb_spec j' j) as [->|Hne]; ring.
Qed.

Theorem vec_col_kron m n (M:fmat R) (u v:nat->R) :
  (forall i, (i < m)%nat -> mapply K (n*m) (kron K m m (rowv v) fid) (vec_col m M) i = mapply K n M v i) /\
  (forall j, (j < n)%nat -> (0 < m)%nat -> mapply K (n*m) (kron K 1 m fid (rowv u)) (vec_col m M) j = mapply K m (ftr M) u j).
Proof. split; [exact (vec_col_kron_right m n M v) | exact (vec_col_kron_left m n M u)]. Qed.

(* ================= sum of squares ================= *)
(* cov = (J T)(J T)^T = J (T T^T) J^T ; a diagonal entry is the sum over factor columns of squared directional derivatives *)
Theorem sum_of_squares d nb (J T:fmat R) a :
  fmul nb (fmul d J T) (ftr (fmul d J T)) a a = sumsq K nb (fun k => mapply K d J (fun s => T s k) a).
Proof. unfold FMat.fmul, ftr, sumsq, mapply. reflexivity. Qed.
Theorem cov_is_JTTJ p d nb (J T:fmat R) :
  feq p p (fmul nb (fmul d J T) (ftr (fmul d J T))) (fmul d J (fmul d (fmul nb T (ftr T)) (ftr J))).
Proof.
  rewrite (ftr_fmul R K Rth p d nb J T). rewrite (assoc p d nb p J T). rewrite <- (assoc d nb d p T (ftr T) (ftr J)). reflexivity.
Qed.
Corollary single_column d (J T:fmat R) a :
  fmul 1 (fmul d J T) (ftr (fmul d J T)) a a = mapply K d J (fun s => T s 0%nat) a * mapply K d J (fun s => T s 0%nat) a.
Proof. rewrite sum_of_squares. unfold sumsq. cbn [Carrier.sumn]. ring. Qed.

(* ================= first-order identities (linearised defining equations) ================= *)

(* singular value: H v = s u, u^T H = s v^T; unit norms linearise to u^T du = 0, v^T dv = 0;
   linearised  dH v + H dv = ds u + s du   ==>   ds = u^T dH v *)
Theorem dsigma m n (H dH u du v dv:fmat R) (s ds:R) :
  feq 1 n (fmul m (ftr u) H) (fscal s (ftr v)) ->
  feq 1 1 (fmul m (ftr u) u) fid ->
  feq 1 1 (fmul m (ftr u) du) (fzero K) ->
  feq 1 1 (fmul n (ftr v) dv) (fzero K) ->
  feq m 1 (fadd (fmul n dH v) (fmul n H dv)) (fadd (fscal ds u) (fscal s du)) ->
  ds = fmul m (ftr u) (fmul n dH v) 0%nat 0%nat.
Proof.
  intros HuH Huu Hudu Hvdv Hlin.
  assert (E: feq 1 1 (fmul m (ftr u) (fadd (fmul n dH v) (fmul n H dv))) (fmul m (ftr u) (fadd (fscal ds u) (fscal s du))))
    by (rewrite Hlin; reflexivity).
  rewrite (fmul_add_r R K Rth 1 m 1), (fmul_add_r R K Rth 1 m 1) in E.
  rewrite <- (assoc 1 m n 1 (ftr u) H dv) in E. rewrite HuH in E.
  rewrite (fmul_scal_l R K Rth 1 n 1), !(fmul_scal_r R K Rth 1 m 1) in E.
  rewrite Hvdv, Huu, Hudu in E.
  specialize (E 0%nat 0%nat Nat.lt_0_1 Nat.lt_0_1). unfold FMat.fadd, FMat.fscal, FMat.fzero, FMat.fid in E. cbn [Nat.eqb] in E.
  transitivity (ds * 1 + s * 0); [ring|]. rewrite <- E. ring.
Qed.
(* the model's d sigma is that number *)
Lemma dsig_of_is m n (dH u v:fmat R) :
  dsig_of K m n (fun a => u a 0%nat) dH (fun b => v b 0%nat) = fmul m (ftr u) (fmul n dH v) 0%nat 0%nat.
Proof. reflexivity. Qed.

(* least-squares shift solution: normal equations (Op^T Op) A = Op^T Om, linearised by the product rule *)
Theorem dA_from_dO pr n (Op Om dOp dOm A dA:fmat R) :
  feq n n (fadd (fmul n (fadd (fmul pr (ftr dOp) Op) (fmul pr (ftr Op) dOp)) A) (fmul n (fmul pr (ftr Op) Op) dA))
          (fadd (fmul pr (ftr dOp) Om) (fmul pr (ftr Op) dOm)) ->
  feq n n (fmul n (fmul pr (ftr Op) Op) dA)
          (fsub (fadd (fmul pr (ftr dOp) Om) (fmul pr (ftr Op) dOm))
                (fmul n (fadd (fmul pr (ftr dOp) Op) (fmul pr (ftr Op) dOp)) A)).
Proof.
  intros Hlin i j Hi Hj. specialize (Hlin i j Hi Hj). unfold FMat.fsub. rewrite <- Hlin. unfold FMat.fadd. ring.
Qed.
(* with a left inverse OO of Op^T Op and an eigen-pair A phi = lam phi this is the code's form
     dA phi = OO ((dOp^T Om + Op^T dOm) - lam (dOp^T Op + Op^T dOp)) phi                                   *)
Theorem dA_phi pr n (Op Om dOp dOm A dA OO phi:fmat R) (lam:R) :
  feq n n (fadd (fmul n (fadd (fmul pr (ftr dOp) Op) (fmul pr (ftr Op) dOp)) A) (fmul n (fmul pr (ftr Op) Op) dA))
          (fadd (fmul pr (ftr dOp) Om) (fmul pr (ftr Op) dOm)) ->
  feq n n (fmul n OO (fmul pr (ftr Op) Op)) fid ->
  feq n 1 (fmul n A phi) (fscal lam phi) ->
  feq n 1 (fmul n dA phi)
          (fmul n OO (fmul n (fsub (fadd (fmul pr (ftr dOp) Om) (fmul pr (ftr Op) dOm))
                                   (fscal lam (fadd (fmul pr (ftr dOp) Op) (fmul pr (ftr Op) dOp)))) phi)).
Proof.
  intros Hlin HOO Hphi.
  pose proof (dA_from_dO pr n Op Om dOp dOm A dA Hlin) as HdA.
  rewrite <- (idl n 1 (fmul n dA phi)). rewrite <- HOO.
  rewrite (assoc n n n 1 OO (fmul pr (ftr Op) Op) (fmul n dA phi)).
  rewrite <- (assoc n n n 1 (fmul pr (ftr Op) Op) dA phi). rewrite HdA.
  apply (fmul_ext R K n n 1); [reflexivity|].
  rewrite (fmul_sub_l R K Rth n n 1), (fmul_sub_l R K Rth n n 1).
  apply fsub_proper; [reflexivity|].
  rewrite (assoc n n n 1 _ A phi). rewrite Hphi. rewrite (fmul_scal_r R K Rth n n 1), (fmul_scal_l R K Rth n n 1). reflexivity.
Qed.

(* eigenvalue: A phi = lam phi, chi A = lam chi (chi = row vector chi^H), linearised  dA phi + A dphi = dlam phi + lam dphi *)
Theorem dlambda n (A dA phi dphi chi : fmat R) (lam dlam : R) :
  feq n 1 (fmul n A phi) (fscal lam phi) ->
  feq 1 n (fmul n chi A) (fscal lam chi) ->
  feq n 1 (fadd (fmul n dA phi) (fmul n A dphi)) (fadd (fscal dlam phi) (fscal lam dphi)) ->
  feq 1 1 (fscal dlam (fmul n chi phi)) (fmul n chi (fmul n dA phi)).
Proof.
  intros Hr Hl Hd.
  assert (E: feq 1 1 (fmul n chi (fadd (fmul n dA phi) (fmul n A dphi)))
                     (fmul n chi (fadd (fscal dlam phi) (fscal lam dphi)))) by (rewrite Hd; reflexivity).
  rewrite (fmul_add_r R K Rth 1 n 1), (fmul_add_r R K Rth 1 n 1) in E.
  rewrite <- (assoc 1 n n 1 chi A dphi) in E. rewrite Hl in E.
  rewrite (fmul_scal_l R K Rth 1 n 1), !(fmul_scal_r R K Rth 1 n 1) in E.
  intros i j Hi Hj. specialize (E i j Hi Hj). unfold FMat.fadd, FMat.fscal in *.
  set (x := fmul n chi (fmul n dA phi) i j) in *. set (y := fmul n chi phi i j) in *. set (z := fmul n chi dphi i j) in *.
  assert (x = dlam * y).
  { transitivity ((x + lam * z) - lam * z); [ring|]. rewrite E. ring. }
  symmetry; assumption.
Qed.

(* the whole pole-layer chain: the number the model computes (dlam_num, with W assembled from the three
   column-stacked Q blocks) equals (chi phi) dlam *)
Theorem dlambda_chain pr n (Op Om dOp dOm A dA OO phi dphi chi:fmat R) (lam dlam:R) :
  feq n n (fadd (fmul n (fadd (fmul pr (ftr dOp) Op) (fmul pr (ftr Op) dOp)) A) (fmul n (fmul pr (ftr Op) Op) dA))
          (fadd (fmul pr (ftr dOp) Om) (fmul pr (ftr Op) dOm)) ->
  feq n n (fmul n OO (fmul pr (ftr Op) Op)) fid ->
  feq n 1 (fmul n A phi) (fscal lam phi) ->
  feq 1 n (fmul n chi A) (fscal lam chi) ->
  feq n 1 (fadd (fmul n dA phi) (fmul n A dphi)) (fadd (fscal dlam phi) (fscal lam dphi)) ->
  dlam * dlam_den K n (fun a => chi 0%nat a) (fun a => phi a 0%nat)
  = dlam_num K n (fun a => chi 0%nat a) OO
      (W_of K lam (fmul pr (ftr Op) dOp) (fmul pr (ftr Om) dOp) (fmul pr (ftr Op) dOm)) (fun a => phi a 0%nat).
Proof.
  intros Hlin HOO Hphi Hchi Hd.
  pose proof (dlambda n A dA phi dphi chi lam dlam Hphi Hchi Hd 0%nat 0%nat Nat.lt_0_1 Nat.lt_0_1) as E.
  pose proof (dA_phi pr n Op Om dOp dOm A dA OO phi lam Hlin HOO Hphi) as F.
  unfold FMat.fscal in E. unfold dlam_den, dlam_num.
  change (sumn n (fun a => chi 0%nat a * phi a 0%nat)) with (fmul n chi phi 0%nat 0%nat). rewrite E.
  unfold FMat.fmul at 1. apply sumn_ext; intros a Ha. f_equal.
  rewrite (F a 0%nat Ha Nat.lt_0_1). unfold FMat.fmul at 1. unfold mapply. apply sumn_ext; intros b Hb. f_equal.
  unfold FMat.fmul at 1. apply sumn_ext; intros c Hc. f_equal.
  unfold W_of, FMat.fsub, FMat.fadd, FMat.fscal, FMat.fmul, ftr.
  assert (S1: forall (f g:nat->R), sumn pr (fun k => f k * g k) = sumn pr (fun k => g k * f k)) by (intros; apply sumn_ext; intros; ring).
  rewrite (S1 (fun k => Om k c) (fun k => dOp k b)). rewrite (S1 (fun k => Op k c) (fun k => dOp k b)).
  reflexivity.
Qed.
(* M_of undoes the ordmax-strided column stacking of Q1_of / Q2_of / Q3_of (S4_n of the code: the n x n corner) *)
Theorem M_of_Q1 ordmax pl (Obs dO:fmat R) i j : (j < ordmax)%nat ->
  M_of ordmax (Q1_of K ordmax pl Obs dO) j i = fmul pl (ftr Obs) dO j i.
Proof. intros Hj. unfold M_of, Q1_of, FMat.fmul, ftr. destruct (divmod_blk i ordmax j Hj) as [-> ->]. reflexivity. Qed.
Theorem M_of_Q2 ordmax pl l (Obs dO:fmat R) i j : (j < ordmax)%nat ->
  M_of ordmax (Q2_of K ordmax pl l Obs dO) j i = fmul pl (ftr (fun a k => Obs (l+a)%nat k)) dO j i.
Proof. intros Hj. unfold M_of, Q2_of, FMat.fmul, ftr. destruct (divmod_blk i ordmax j Hj) as [-> ->]. reflexivity. Qed.
Theorem M_of_Q3 ordmax pl l (Obs dO:fmat R) i j : (j < ordmax)%nat ->
  M_of ordmax (Q3_of K ordmax pl l Obs dO) j i = fmul pl (ftr Obs) (fun a k => dO (l+a)%nat k) j i.
Proof. intros Hj. unfold M_of, Q3_of, FMat.fmul, ftr. destruct (divmod_blk i ordmax j Hj) as [-> ->]. reflexivity. Qed.
Theorem Q_layout ordmax pl l (Obs dO:fmat R) i j : (j < ordmax)%nat ->
  M_of ordmax (Q1_of K ordmax pl Obs dO) j i = fmul pl (ftr Obs) dO j i /\
  M_of ordmax (Q2_of K ordmax pl l Obs dO) j i = fmul pl (ftr (fun a k => Obs (l+a)%nat k)) dO j i /\
  M_of ordmax (Q3_of K ordmax pl l Obs dO) j i = fmul pl (ftr Obs) (fun a k => dO (l+a)%nat k) j i.
Proof. intros Hj. repeat split; [apply M_of_Q1 | apply M_of_Q2 | apply M_of_Q3]; exact Hj. Qed.
End P.

(* ================= the row-major vectorisation does NOT satisfy the Kronecker identity ================= *)
Definition M23 : fmat Z := fun i j => Z.of_nat (i*3+j+1).     (* [[1,2,3],[4,5,6]] *)
Definition v3 : nat -> Z := fun j => match j with 0%nat => 1%Z | 1%nat => 0%Z | _ => 0%Z end.   (* e_0 *)
Theorem vec_row_kron_refuted :
  exists (m n:nat) (M:fmat Z) (v:nat->Z) (i:nat), (i < m)%nat /\
    mapply ZOps (n*m) (kron ZOps m m (rowv v) (fid ZOps)) (vec_row n M) i <> mapply ZOps n M v i.
Proof. exists 2%nat, 3%nat, M23, v3, 1%nat. split; [lia|]. vm_compute. discriminate. Qed.
(* and on the same witness the column-stacked one does (instance of vec_col_kron_right) *)
Example vec_col_kron_witness :
  mapply ZOps (3*2) (kron ZOps 2 2 (rowv v3) (fid ZOps)) (vec_col 2 M23) 1%nat = mapply ZOps 3 M23 v3 1%nat.
Proof. vm_compute. reflexivity. Qed.

(* ================= field part: the postponed-division form and the Jacobian row ================= *)
Section F.
Variable R:Type. Variable K:Ops R.
Hypothesis Fth : field_theory (o0 K) (o1 K) (oadd K) (omul K) (osub K) (oopp K) (odiv K) (oinv K) (@eq R).
Add Field FfU : Fth.
Local Open Scope K_scope.
Notation "0" := (o0 K) : K_scope. Notation "1" := (o1 K) : K_scope.
Infix "+" := (oadd K) : K_scope. Infix "*" := (omul K) : K_scope. Infix "-" := (osub K) : K_scope.
Infix "/" := (odiv K) : K_scope.

(* first row of Mat1 Mat2 Mat3 / (dt |lam_d|^2 |lam_c|) of the code  =  Re( conj(lam_c) * dlam / (lam_d dt) ) / (2 pi |lam_c|):
   with lam_c = a+ib, lam_d = c+id, dlam = x+iy;   dlam/lam_d = ((cx+dy) + i(cy-dx)) / (c^2+d^2)                         *)
Theorem jf_row_is (inv2pi dt absc a b c d x y:R) :
  dt <> 0 -> c*c + d*d <> 0 -> absc <> 0 ->
  jf_row K inv2pi dt absc a b c d x y
  = inv2pi * ((a * ((c*x + d*y) / (c*c+d*d) / dt) + b * ((c*y - d*x) / (c*c+d*d) / dt)) / absc).
Proof. intros H1 H2 H3. unfold jf_row, jf_lin. field. repeat split; assumption. Qed.

(* one squared term with d lam = (nr + i ni)/(er + i ei):  the executed, division-free form *)
Theorem jf_row_parts (inv2pi dt absc a b c d nr ni er ei:R) :
  dt <> 0 -> c*c + d*d <> 0 -> absc <> 0 -> er*er + ei*ei <> 0 ->
  let x := (nr*er + ni*ei) / (er*er + ei*ei) in
  let y := (ni*er - nr*ei) / (er*er + ei*ei) in
  jf_row K inv2pi dt absc a b c d x y * jf_row K inv2pi dt absc a b c d x y
  = inv2pi * inv2pi * (jf_lin K a b c d (nr*er + ni*ei) (ni*er - nr*ei) * jf_lin K a b c d (nr*er + ni*ei) (ni*er - nr*ei))
    / (((er*er + ei*ei) * dt * (c*c + d*d) * absc) * ((er*er + ei*ei) * dt * (c*c + d*d) * absc)).
Proof. intros H1 H2 H3 H4. cbv zeta. unfold jf_row, jf_lin. field. repeat split; assumption. Qed.

(* the realisation layer is executed with the division by 2 sqrt(sigma_i) postponed: same values *)
Let Rth := F_R Fth.
Lemma sumn_div n (f:nat->R) (d:R) : d <> 0 -> sumn K n (fun a => f a / d) = sumn K n f / d.
Proof. intros Hd. induction n; cbn [sumn]; [field; exact Hd|]. rewrite IHn. field. exact Hd. Qed.
Theorem dObs_postponed (rs dsg:nat->R) (U dU:fmat R) a i : (1+1) * rs i <> 0 ->
  dObs_gen K rs dsg U dU a i = dObs_num K rs dsg U dU a i / ((1+1) * rs i).
Proof. intros Hd. unfold dObs_gen, dObs_num. field. split; intro E; apply Hd.
  - rewrite E. ring.
  - transitivity (0 * rs i); [f_equal; exact E | ring]. Qed.
Theorem Q_postponed ordmax pl l (Obs N:fmat R) (d:nat->R) s : d (s / ordmax)%nat <> 0 ->
  Q1_of K ordmax pl Obs (fun a i => N a i / d i) s = Q1_of K ordmax pl Obs N s / d (s / ordmax)%nat /\
  Q2_of K ordmax pl l Obs (fun a i => N a i / d i) s = Q2_of K ordmax pl l Obs N s / d (s / ordmax)%nat /\
  Q3_of K ordmax pl l Obs (fun a i => N a i / d i) s = Q3_of K ordmax pl l Obs N s / d (s / ordmax)%nat.
Proof.
  intros Hd. unfold Q1_of, Q2_of, Q3_of. repeat split; rewrite <- (sumn_div _ _ _ Hd); apply sumn_ext; intros a _; field; exact Hd.
Qed.
End F.

(* ================= first order = dual numbers a + eps a', eps^2 = 0 ================= *)
Section Dual.
Variable R:Type. Variable K:Ops R.
Hypothesis Rth : ring_theory (o0 K) (o1 K) (oadd K) (omul K) (osub K) (oopp K) (@eq R).
Add Ring RrD : Rth.
Local Open Scope K_scope.
Notation "0" := (o0 K) : K_scope. Notation "1" := (o1 K) : K_scope.
Infix "+" := (oadd K) : K_scope. Infix "*" := (omul K) : K_scope. Infix "-" := (osub K) : K_scope.
Notation "- x" := (oopp K x) : K_scope.

Definition D := (R * R)%type.
Definition DOps : Ops D :=
  {| o0 := (0, 0); o1 := (1, 0);
     oadd := fun x y => (fst x + fst y, snd x + snd y);
     omul := fun x y => (fst x * fst y, fst x * snd y + snd x * fst y);
     osub := fun x y => (fst x - fst y, snd x - snd y);
     oopp := fun x => (- fst x, - snd x);
     odiv := fun x _ => x; oinv := fun x => x |}.
Lemma d_eq (x y:D) : fst x = fst y -> snd x = snd y -> x = y.
Proof. destruct x, y; cbn; intros -> ->; reflexivity. Qed.
Lemma DRth : ring_theory (o0 DOps) (o1 DOps) (oadd DOps) (omul DOps) (osub DOps) (oopp DOps) (@eq D).
Proof. constructor; cbn; intros; apply d_eq; cbn; ring. Qed.

Definition st (M:fmat D) : fmat R := fun i j => fst (M i j).
Definition ep (M:fmat D) : fmat R := fun i j => snd (M i j).
Lemma sumn_st n (f:nat->D) : fst (sumn DOps n f) = sumn K n (fun k => fst (f k)).
Proof. induction n; cbn; [reflexivity|]. rewrite IHn. reflexivity. Qed.
Lemma sumn_ep n (f:nat->D) : snd (sumn DOps n f) = sumn K n (fun k => snd (f k)).
Proof. induction n; cbn; [reflexivity|]. rewrite IHn. reflexivity. Qed.
Lemma st_fmul m n p A B : feq m p (st (fmul DOps n A B)) (fmul K n (st A) (st B)).
Proof. intros i j _ _. unfold st, fmul. rewrite sumn_st. reflexivity. Qed.
Lemma ep_fmul m n p A B : feq m p (ep (fmul DOps n A B)) (fadd K (fmul K n (st A) (ep B)) (fmul K n (ep A) (st B))).
Proof. intros i j _ _. unfold ep, st, fmul, fadd. rewrite sumn_ep. cbn [omul DOps fst snd]. rewrite (sumn_add R K Rth). reflexivity. Qed.
Lemma st_feq m n A B : feq m n A B -> feq m n (st A) (st B).
Proof. intros H i j Hi Hj. unfold st. rewrite (H i j Hi Hj). reflexivity. Qed.
Lemma ep_feq m n A B : feq m n A B -> feq m n (ep A) (ep B).
Proof. intros H i j Hi Hj. unfold ep. rewrite (H i j Hi Hj). reflexivity. Qed.
Lemma st_fscal m n (c:D) A : feq m n (st (fscal DOps c A)) (fscal K (fst c) (st A)).
Proof. intros i j _ _. reflexivity. Qed.
Lemma ep_fscal m n (c:D) A : feq m n (ep (fscal DOps c A)) (fadd K (fscal K (fst c) (ep A)) (fscal K (snd c) (st A))).
Proof. intros i j _ _. reflexivity. Qed.

Notation fmulK := (fmul K). Notation faddK := (fadd K). Notation fscalK := (fscal K).

(* eigenvalue: the eigen-equation holds to first order  =>  (chi phi) dlam = chi dA phi *)
Theorem dlambda_first_order n (At phit:fmat D) (lamt:D) (chi:fmat R) :
  feq n 1 (fmul DOps n At phit) (fscal DOps lamt phit) ->
  feq 1 n (fmulK n chi (st At)) (fscalK (fst lamt) chi) ->
  feq 1 1 (fscalK (snd lamt) (fmulK n chi (st phit))) (fmulK n chi (fmulK n (ep At) (st phit))).
Proof.
  intros He Hl.
  apply (dlambda R K Rth n (st At) (ep At) (st phit) (ep phit) chi (fst lamt) (snd lamt)).
  - rewrite <- (st_fmul n n 1). rewrite <- (st_fscal n 1). apply st_feq, He.
  - exact Hl.
  - pose proof (ep_feq _ _ _ _ He) as E. rewrite (ep_fmul n n 1), (ep_fscal n 1) in E.
    intros i j Hi Hj. specialize (E i j Hi Hj). unfold FMat.fadd in *. rewrite (Radd_comm Rth). rewrite E. ring.
Qed.

Lemma fadd_comm m n (A B:fmat R) : feq m n (faddK A B) (faddK B A).
Proof. intros i j _ _. unfold FMat.fadd. ring. Qed.

(* least squares: the normal equations hold to first order  =>  the code's expression for (Op^T Op) dA *)
Theorem dA_first_order pr n (Opt Omt At:fmat D) :
  feq n n (fmul DOps n (fmul DOps pr (ftr Opt) Opt) At) (fmul DOps pr (ftr Opt) Omt) ->
  feq n n (fmulK n (fmulK pr (ftr (st Opt)) (st Opt)) (ep At))
          (fsub K (faddK (fmulK pr (ftr (ep Opt)) (st Omt)) (fmulK pr (ftr (st Opt)) (ep Omt)))
                  (fmulK n (faddK (fmulK pr (ftr (ep Opt)) (st Opt)) (fmulK pr (ftr (st Opt)) (ep Opt))) (st At))).
Proof.
  intros He. apply (dA_from_dO R K Rth).
  pose proof (ep_feq _ _ _ _ He) as E.
  rewrite (ep_fmul n n n), (ep_fmul n pr n) in E.
  rewrite (st_fmul n pr n), (ep_fmul n pr n) in E.
  rewrite (fadd_comm n n (fmulK pr (st (ftr Opt)) (ep Opt))) in E.
  intros i j Hi Hj. specialize (E i j Hi Hj). unfold FMat.fadd in E |- *.
  change (st (ftr Opt)) with (ftr (st Opt)) in E. change (ep (ftr Opt)) with (ftr (ep Opt)) in E.
  rewrite (Radd_comm Rth). rewrite E. ring.
Qed.

(* singular value: the SVD equations and the unit norms hold to first order  =>  d sigma = u^T dH v
   (2 must be cancellable: from u^T u = 1 one gets 2 u^T du = 0) *)
Theorem dsigma_first_order m n (Ht ut vt:fmat D) (sgt:D) :
  (forall x:R, x + x = 0 -> x = 0) ->
  feq m 1 (fmul DOps n Ht vt) (fscal DOps sgt ut) ->
  feq 1 n (fmul DOps m (ftr ut) Ht) (fscal DOps sgt (ftr vt)) ->
  feq 1 1 (fmul DOps m (ftr ut) ut) (fid DOps) ->
  feq 1 1 (fmul DOps n (ftr vt) vt) (fid DOps) ->
  snd sgt = fmulK m (ftr (st ut)) (fmulK n (ep Ht) (st vt)) 0%nat 0%nat.
Proof.
  intros two_reg H1 H2 Hu Hv.
  assert (N: forall k (w:fmat D), feq 1 1 (fmul DOps k (ftr w) w) (fid DOps) ->
             feq 1 1 (fmulK k (ftr (st w)) (st w)) (fid K) /\ feq 1 1 (fmulK k (ftr (st w)) (ep w)) (fzero K)).
  { intros k w Hw. split.
    - change (ftr (st w)) with (st (ftr w)). rewrite <- (st_fmul 1 k 1). intros i j Hi Hj. rewrite (st_feq _ _ _ _ Hw i j Hi Hj). unfold st, FMat.fid. cbn. destruct (Nat.eqb i j); reflexivity.
    - pose proof (ep_feq _ _ _ _ Hw) as E. rewrite (ep_fmul 1 k 1) in E.
      intros i j Hi Hj. assert (i = 0%nat) by lia. assert (j = 0%nat) by lia. subst i j.
      specialize (E 0%nat 0%nat Nat.lt_0_1 Nat.lt_0_1). unfold FMat.fadd, FMat.fzero in *.
      apply two_reg.
      assert (S: fmulK k (ep (ftr w)) (st w) 0%nat 0%nat = fmulK k (st (ftr w)) (ep w) 0%nat 0%nat).
      { unfold FMat.fmul, ep, st, ftr. apply sumn_ext; intros; ring. }
      rewrite S in E. change (st (ftr w)) with (ftr (st w)) in E. rewrite E. unfold ep, FMat.fid. cbn. reflexivity. }
  destruct (N m ut Hu) as [Huu Hudu]. destruct (N n vt Hv) as [Hvv Hvdv].
  apply (dsigma R K Rth m n (st Ht) (ep Ht) (st ut) (ep ut) (st vt) (ep vt) (fst sgt) (snd sgt)).
  - change (ftr (st ut)) with (st (ftr ut)). rewrite <- (st_fmul 1 m n). change (ftr (st vt)) with (st (ftr vt)). rewrite <- (st_fscal 1 n). apply st_feq, H2.
  - exact Huu.
  - exact Hudu.
  - exact Hvdv.
  - pose proof (ep_feq _ _ _ _ H1) as E. rewrite (ep_fmul m n 1), (ep_fscal m 1) in E.
    intros i j Hi Hj. specialize (E i j Hi Hj). unfold FMat.fadd in *. rewrite (Radd_comm Rth). rewrite E. ring.
Qed.

(* a change of the state basis (dObs + Obs G, i.e. dA + A G - G A) cannot move an eigenvalue sensitivity *)
Theorem gauge_invariant n (A G phi chi:fmat R) (lam:R) :
  feq n 1 (fmulK n A phi) (fscalK lam phi) ->
  feq 1 n (fmulK n chi A) (fscalK lam chi) ->
  feq 1 1 (fmulK n chi (fmulK n (fsub K (fmulK n A G) (fmulK n G A)) phi)) (fzero K).
Proof.
  intros Hr Hl.
  rewrite (fmul_sub_l R K Rth n n 1). rewrite (fmul_sub_r R K Rth 1 n 1).
  rewrite (fmul_assoc R K Rth n n n 1 A G phi). rewrite <- (fmul_assoc R K Rth 1 n n 1 chi A (fmulK n G phi)). rewrite Hl.
  rewrite (fmul_assoc R K Rth n n n 1 G A phi). rewrite Hr.
  rewrite (fmul_scal_l R K Rth 1 n 1). rewrite (fmul_scal_r R K Rth n n 1), (fmul_scal_r R K Rth 1 n 1).
  intros i j _ _. unfold FMat.fsub, FMat.fzero. ring.
Qed.
End Dual.

Section Dual2.
Variable R:Type. Variable K:Ops R.
Hypothesis Rth : ring_theory (o0 K) (o1 K) (oadd K) (omul K) (osub K) (oopp K) (@eq R).
Add Ring RrD2 : Rth.
Local Open Scope K_scope.
Notation "0" := (o0 K) : K_scope. Notation "1" := (o1 K) : K_scope.
Infix "+" := (oadd K) : K_scope. Infix "*" := (omul K) : K_scope. Infix "-" := (osub K) : K_scope.
Notation D := (D R). Notation DOps := (DOps R K). Notation st := (st R). Notation ep := (ep R).
Notation fmulK := (fmul K). Notation faddK := (fadd K). Notation fscalK := (fscal K).

Lemma normal_eq_linearised pr n (Opt Omt At:fmat D) :
  feq n n (fmul DOps n (fmul DOps pr (ftr Opt) Opt) At) (fmul DOps pr (ftr Opt) Omt) ->
  feq n n (faddK (fmulK n (faddK (fmulK pr (ftr (ep Opt)) (st Opt)) (fmulK pr (ftr (st Opt)) (ep Opt))) (st At))
                 (fmulK n (fmulK pr (ftr (st Opt)) (st Opt)) (ep At)))
          (faddK (fmulK pr (ftr (ep Opt)) (st Omt)) (fmulK pr (ftr (st Opt)) (ep Omt))).
Proof.
  intros He. pose proof (ep_feq R _ _ _ _ He) as E.
  rewrite (ep_fmul R K Rth n n n), (ep_fmul R K Rth n pr n) in E.
  rewrite (st_fmul R K n pr n), (ep_fmul R K Rth n pr n) in E.
  rewrite (fadd_comm R K Rth n n (fmulK pr (st (ftr Opt)) (ep Opt))) in E.
  intros i j Hi Hj. specialize (E i j Hi Hj). unfold FMat.fadd in E |- *.
  change (st (ftr Opt)) with (ftr (st Opt)) in E. change (ep (ftr Opt)) with (ftr (ep Opt)) in E.
  rewrite (Radd_comm Rth). rewrite E. ring.
Qed.
Lemma eig_st n (At phit:fmat D) (lamt:D) :
  feq n 1 (fmul DOps n At phit) (fscal DOps lamt phit) -> feq n 1 (fmulK n (st At) (st phit)) (fscalK (fst lamt) (st phit)).
Proof. intros He. rewrite <- (st_fmul R K n n 1). rewrite <- (st_fscal R K n 1). apply st_feq, He. Qed.
Lemma eig_linearised n (At phit:fmat D) (lamt:D) :
  feq n 1 (fmul DOps n At phit) (fscal DOps lamt phit) ->
  feq n 1 (faddK (fmulK n (ep At) (st phit)) (fmulK n (st At) (ep phit))) (faddK (fscalK (snd lamt) (st phit)) (fscalK (fst lamt) (ep phit))).
Proof.
  intros He. pose proof (ep_feq R _ _ _ _ He) as E. rewrite (ep_fmul R K Rth n n 1), (ep_fscal R K n 1) in E.
  intros i j Hi Hj. specialize (E i j Hi Hj). unfold FMat.fadd in *. rewrite (Radd_comm Rth). rewrite E. ring.
Qed.

(* the whole pole layer from the defining equations holding to first order *)
Theorem chain_first_order pr n (Opt Omt At phit:fmat D) (lamt:D) (OO chi:fmat R) :
  feq n n (fmul DOps n (fmul DOps pr (ftr Opt) Opt) At) (fmul DOps pr (ftr Opt) Omt) ->
  feq n 1 (fmul DOps n At phit) (fscal DOps lamt phit) ->
  feq n n (fmulK n OO (fmulK pr (ftr (st Opt)) (st Opt))) (fid K) ->
  feq 1 n (fmulK n chi (st At)) (fscalK (fst lamt) chi) ->
  snd lamt * dlam_den K n (fun a => chi 0%nat a) (fun a => st phit a 0%nat)
  = dlam_num K n (fun a => chi 0%nat a) OO
      (W_of K (fst lamt) (fmulK pr (ftr (st Opt)) (ep Opt)) (fmulK pr (ftr (st Omt)) (ep Opt)) (fmulK pr (ftr (st Opt)) (ep Omt)))
      (fun a => st phit a 0%nat).
Proof.
  intros Hn He HOO Hchi.
  apply (dlambda_chain R K Rth pr n (st Opt) (st Omt) (ep Opt) (ep Omt) (st At) (ep At) OO (st phit) (ep phit) chi (fst lamt) (snd lamt)).
  - apply normal_eq_linearised, Hn.
  - exact HOO.
  - apply eig_st, He.
  - exact Hchi.
  - apply eig_linearised, He.
Qed.
End Dual2.

(* Obs = U sqrt(S) to first order: column i of dObs is dObs_gen (field) *)
Section Dual3.
Variable R:Type. Variable K:Ops R.
Hypothesis Fth : field_theory (o0 K) (o1 K) (oadd K) (omul K) (osub K) (oopp K) (odiv K) (oinv K) (@eq R).
Add Field FfD3 : Fth.
Local Open Scope K_scope.
Notation "0" := (o0 K) : K_scope. Notation "1" := (o1 K) : K_scope.
Infix "+" := (oadd K) : K_scope. Infix "*" := (omul K) : K_scope. Infix "-" := (osub K) : K_scope. Infix "/" := (odiv K) : K_scope.
Theorem dObs_first_order (rst sgt:nat -> D R) (Ut:fmat (D R)) a i :
  omul (DOps R K) (rst i) (rst i) = sgt i -> (1+1) * fst (rst i) <> 0 ->
  snd (omul (DOps R K) (Ut a i) (rst i))
  = dObs_gen K (fun i => fst (rst i)) (fun i => snd (sgt i)) (st R Ut) (ep R Ut) a i.
Proof.
  intros Hs Hd. unfold dObs_gen, st, ep. rewrite <- Hs. cbn [omul DOps fst snd]. field.
  split; intro E; apply Hd.
  - rewrite E. ring.
  - transitivity (0 * fst (rst i)); [f_equal; exact E | ring].
Qed.
End Dual3.

(* ================= the code's singular-vector sensitivity (eqs 28-34) solves the linearised SVD equations, uniquely ================= *)
Section DuCode.
Variable R:Type. Variable K:Ops R.
Hypothesis Rth : ring_theory (o0 K) (o1 K) (oadd K) (omul K) (osub K) (oopp K) (@eq R).
Add Ring RrDu : Rth.
Local Open Scope K_scope.
Notation "0" := (o0 K) : K_scope. Notation "1" := (o1 K) : K_scope.
Infix "+" := (oadd K) : K_scope. Infix "*" := (omul K) : K_scope. Infix "-" := (osub K) : K_scope.
Notation fmul := (fmul K). Notation fadd := (fadd K). Notation fsub := (fsub K). Notation fscal := (fscal K).
Notation fid := (fid K). Notation fzero := (fzero K). Notation sumn := (sumn K).
Let assoc := fmul_assoc R K Rth.
Let idl := fmul_id_l R K Rth.
Let idr := fmul_id_r R K Rth.

Variables (m c:nat) (H dH u v Ki:fmat R) (sg isg:R).
Hypothesis Hc : (0 < c)%nat.
Hypothesis Hv : feq m 1 (fmul c H v) (fscal sg u).
Hypothesis Hu : feq c 1 (fmul m (ftr H) u) (fscal sg v).
Hypothesis uu : feq 1 1 (fmul m (ftr u) u) fid.
Hypothesis vv : feq 1 1 (fmul c (ftr v) v) fid.
Hypothesis Hisg : isg * sg = 1.
Hypothesis HKi : feq c c (fmul c (Ki_arg K m c isg H v) Ki) fid.
Hypothesis reg : forall x, (1+1) * v (c-1)%nat 0%nat * x = 0 -> x = 0.

Let P := fmul c dH v.
Let Pt := fmul m (ftr dH) u.
Let b1 := b1_of K m c isg dH u v.
Let b2 := b2_of K m c isg dH u v.
Let rhs := dv_rhs K m c isg H dH u v.
Let dv := dv_code K m c isg H dH u v Ki.
Let du := du_code K m c isg H dH u v Ki.
Let e := elast K c.

(* transposed forms of the SVD equations *)
Lemma vtHt : feq 1 m (fmul c (ftr v) (ftr H)) (fscal sg (ftr u)).
Proof. rewrite <- (ftr_fmul R K Rth m c 1 H v). rewrite Hv. intros i j _ _. reflexivity. Qed.
Lemma utH : feq 1 c (fmul m (ftr u) H) (fscal sg (ftr v)).
Proof.
  assert (E: feq 1 c (ftr (fmul m (ftr H) u)) (fmul m (ftr u) H)).
  { rewrite (ftr_fmul R K Rth c m 1 (ftr H) u). intros i j _ _. reflexivity. }
  rewrite <- E. rewrite Hu. intros i j _ _. reflexivity.
Qed.

Lemma proj_orth k (w x:fmat R) : feq 1 1 (fmul k (ftr w) w) fid -> feq 1 1 (fmul k (ftr w) (proj_out K k w x)) fzero.
Proof.
  intros Hw. unfold proj_out. rewrite (fmul_sub_r R K Rth 1 k 1).
  rewrite <- (assoc 1 k 1 1 (ftr w) w (fmul k (ftr w) x)). rewrite Hw. rewrite (idl 1 1).
  intros i j _ _. unfold FMat.fsub, FMat.fzero. ring.
Qed.
Lemma F1 : feq 1 1 (fmul m (ftr u) b1) fzero.
Proof. unfold b1, b1_of. rewrite (fmul_scal_r R K Rth 1 m 1). rewrite (proj_orth m u _ uu). intros i j _ _. unfold FMat.fscal, FMat.fzero. ring. Qed.
Lemma F2 : feq 1 1 (fmul c (ftr v) b2) fzero.
Proof. unfold b2, b2_of. rewrite (fmul_scal_r R K Rth 1 c 1). rewrite (proj_orth c v _ vv). intros i j _ _. unfold FMat.fscal, FMat.fzero. ring. Qed.

Lemma vte : fmul c (ftr v) e 0%nat 0%nat = v (c-1)%nat 0%nat.
Proof.
  unfold FMat.fmul, ftr, e, elast.
  rewrite (sumn_ext R K c _ (fun k => (if Nat.eqb k (c-1) then 1 else 0) * v k 0%nat)) by (intros; ring).
  apply (sumn_delta R K Rth c (c-1) (fun k => v k 0%nat)). lia.
Qed.

Lemma isg2 : isg * isg * (sg * sg) = 1.
Proof. transitivity ((isg*sg)*(isg*sg)); [ring|]. rewrite Hisg. ring. Qed.

Lemma F3 : feq 1 c (fmul c (ftr v) (Ki_arg K m c isg H v)) (fscal ((1+1) * v (c-1)%nat 0%nat) (ftr v)).
Proof.
  unfold Ki_arg. rewrite (fmul_sub_r R K Rth 1 c c), (fmul_add_r R K Rth 1 c c), (idr 1 c).
  rewrite !(fmul_scal_r R K Rth 1 c c).
  rewrite <- (assoc 1 c 1 c (ftr v) (elast K c) (ftr v)). rewrite <- (assoc 1 c m c (ftr v) (ftr H) H).
  rewrite vtHt. rewrite (fmul_scal_l R K Rth 1 m c). rewrite utH.
  intros i j Hi Hj. assert (i = 0%nat) by lia. subst i.
  unfold FMat.fsub, FMat.fadd, FMat.fscal. unfold FMat.fmul at 1. cbn [Carrier.sumn]. fold e. rewrite vte.
  transitivity (ftr v 0%nat j + (1+1) * (v (c-1)%nat 0%nat * ftr v 0%nat j) - (isg*isg*(sg*sg)) * ftr v 0%nat j); [ring|].
  rewrite isg2. ring.
Qed.

Lemma F4 : feq 1 1 (fmul c (ftr v) rhs) fzero.
Proof.
  unfold rhs, dv_rhs. fold b1 b2. rewrite (fmul_add_r R K Rth 1 c 1). rewrite F2.
  rewrite <- (assoc 1 c m 1 (ftr v) _ b1). rewrite (fmul_sub_r R K Rth 1 c m). rewrite (fmul_scal_r R K Rth 1 c m). rewrite vtHt.
  rewrite <- (assoc 1 c 1 m (ftr v) (elast K c) (ftr u)).
  rewrite (fmul_sub_l R K Rth 1 m 1). rewrite !(fmul_scal_l R K Rth 1 m 1). rewrite (assoc 1 1 m 1 _ (ftr u) b1). rewrite F1.
  rewrite (fmul_zero_r R K Rth 1 1 1).
  intros i j _ _. unfold FMat.fadd, FMat.fsub, FMat.fscal, FMat.fzero. ring.
Qed.

Lemma F5 : feq c 1 (fmul c (Ki_arg K m c isg H v) dv) rhs.
Proof. unfold dv, dv_code. fold rhs. rewrite <- (assoc c c c 1). rewrite HKi. apply idl. Qed.

Lemma F6 : feq 1 1 (fmul c (ftr v) dv) fzero.
Proof.
  assert (E: feq 1 1 (fmul c (ftr v) (fmul c (Ki_arg K m c isg H v) dv)) fzero) by (rewrite F5; exact F4).
  rewrite <- (assoc 1 c c 1) in E. rewrite F3 in E. rewrite (fmul_scal_l R K Rth 1 c 1) in E.
  intros i j Hi Hj. assert (i = 0%nat) by lia. assert (j = 0%nat) by lia. subst i j.
  specialize (E 0%nat 0%nat Nat.lt_0_1 Nat.lt_0_1). unfold FMat.fscal, FMat.fzero in *. apply reg. exact E.
Qed.

Lemma F7 : feq c 1 (fsub dv (fscal (isg*isg) (fmul m (ftr H) (fmul c H dv)))) (fadd b2 (fscal isg (fmul m (ftr H) b1))).
Proof.
  pose proof F5 as E. unfold Ki_arg in E.
  rewrite (fmul_sub_l R K Rth c c 1), (fmul_add_l R K Rth c c 1), (idl c 1) in E.
  rewrite !(fmul_scal_l R K Rth c c 1) in E.
  rewrite (assoc c 1 c 1 (elast K c) (ftr v) dv) in E. rewrite F6 in E. rewrite (fmul_zero_r R K Rth c 1 1) in E.
  rewrite (assoc c m c 1 (ftr H) H dv) in E.
  unfold rhs, dv_rhs in E. fold b1 b2 in E.
  rewrite (fmul_sub_l R K Rth c m 1) in E. rewrite (fmul_scal_l R K Rth c m 1) in E.
  rewrite (assoc c 1 m 1 (elast K c) (ftr u) b1) in E. rewrite F1 in E. rewrite (fmul_zero_r R K Rth c 1 1) in E.
  intros i j Hi Hj. specialize (E i j Hi Hj). unfold FMat.fsub, FMat.fadd, FMat.fscal, FMat.fzero in *.
  transitivity (dv i j + (1 + 1) * 0 - isg * isg * fmul m (ftr H) (fmul c H dv) i j); [ring|]. rewrite E. ring.
Qed.

Lemma ds_sym : fmul c (ftr v) Pt 0%nat 0%nat = fmul m (ftr u) P 0%nat 0%nat.
Proof.
  unfold Pt, P, FMat.fmul, ftr.
  rewrite (sumn_ext R K c _ (fun b => sumn m (fun a => v b 0%nat * (dH a b * u a 0%nat)))) by (intros; rewrite <- (sumn_scal R K Rth); reflexivity).
  rewrite (sumn_swap R K Rth). apply sumn_ext; intros a _. rewrite <- (sumn_scal R K Rth). apply sumn_ext; intros b _. ring.
Qed.

Theorem du_solves_linearised :
  let ds := fmul m (ftr u) (fmul c dH v) 0%nat 0%nat in
  feq m 1 (fadd (fmul c dH v) (fmul c H dv)) (fadd (fscal ds u) (fscal sg du)) /\
  feq c 1 (fadd (fmul m (ftr dH) u) (fmul m (ftr H) du)) (fadd (fscal ds v) (fscal sg dv)) /\
  feq 1 1 (fmul m (ftr u) du) fzero /\
  feq 1 1 (fmul c (ftr v) dv) fzero.
Proof.
  cbv zeta. fold P Pt. repeat split.
  - unfold du, du_code. fold b1 dv. unfold b1, b1_of, proj_out. fold P.
    intros i j Hi Hj. assert (j = 0%nat) by lia. subst j.
    pose proof (fmul_scal_l R K Rth m c 1 isg H dv i 0%nat Hi Nat.lt_0_1) as S. 
    unfold FMat.fadd, FMat.fscal, FMat.fsub in *. rewrite S. unfold FMat.fmul at 3. cbn [Carrier.sumn].
    transitivity (P i 0%nat + fmul c H dv i 0%nat + ((isg*sg) - 1) * (P i 0%nat - u i 0%nat * fmul m (ftr u) P 0%nat 0%nat + fmul c H dv i 0%nat)).
    + rewrite Hisg. ring.
    + ring.
  - pose proof F7 as E.
    unfold du, du_code. fold b1 dv. rewrite (fmul_add_r R K Rth c m 1). rewrite <- (assoc c m c 1 (ftr H) (fscal isg H) dv).
    rewrite (fmul_scal_r R K Rth c m c). rewrite (fmul_scal_l R K Rth c c 1). rewrite (assoc c m c 1 (ftr H) H dv).
    intros i j Hi Hj. assert (j = 0%nat) by lia. subst j. specialize (E i 0%nat Hi Nat.lt_0_1).
    unfold FMat.fadd, FMat.fscal, FMat.fsub in *.
    assert (B2: sg * b2 i 0%nat = Pt i 0%nat - v i 0%nat * fmul m (ftr u) P 0%nat 0%nat).
    { unfold b2, b2_of, proj_out. fold Pt. unfold FMat.fscal, FMat.fsub. unfold FMat.fmul at 1. cbn [Carrier.sumn]. rewrite ds_sym.
      transitivity ((isg*sg) * (Pt i 0%nat - (0 + v i 0%nat * fmul m (ftr u) P 0%nat 0%nat))); [ring|]. rewrite Hisg. ring. }
    set (X := fmul m (ftr H) (fmul c H dv) i 0%nat) in *. set (Y := fmul m (ftr H) b1 i 0%nat) in *.
    assert (E2: sg * dv i 0%nat = (isg*sg) * isg * X + sg * b2 i 0%nat + (isg*sg) * Y).
    { transitivity (sg * (dv i 0%nat - isg*isg*X) + (isg*sg)*isg*X); [ring|]. rewrite E. ring. }
    rewrite E2, B2, Hisg. ring.
  - unfold du, du_code. fold b1 dv. rewrite (fmul_add_r R K Rth 1 m 1). rewrite F1.
    rewrite <- (assoc 1 m c 1 (ftr u) (fscal isg H) dv). rewrite (fmul_scal_r R K Rth 1 m c). rewrite utH.
    rewrite !(fmul_scal_l R K Rth 1 c 1). rewrite F6.
    intros i j _ _. unfold FMat.fadd, FMat.fscal, FMat.fzero. ring.
  - exact F6.
Qed.
End DuCode.

Section DuUniq.
Variable R:Type. Variable K:Ops R.
Hypothesis Rth : ring_theory (o0 K) (o1 K) (oadd K) (omul K) (osub K) (oopp K) (@eq R).
Add Ring RrDq : Rth.
Local Open Scope K_scope.
Notation "0" := (o0 K) : K_scope. Notation "1" := (o1 K) : K_scope.
Infix "+" := (oadd K) : K_scope. Infix "*" := (omul K) : K_scope. Infix "-" := (osub K) : K_scope.
Notation fmul := (fmul K). Notation fadd := (fadd K). Notation fsub := (fsub K). Notation fscal := (fscal K).
Notation fid := (fid K). Notation fzero := (fzero K).

(* sigma is a SIMPLE singular value: every singular pair for sigma is a multiple of (u, v) *)
Definition simple_sv (m c:nat) (H u v:fmat R) (sg:R) : Prop :=
  forall x y:fmat R, feq m 1 (fmul c H y) (fscal sg x) -> feq c 1 (fmul m (ftr H) x) (fscal sg y) ->
    exists al:R, feq m 1 x (fscal al u) /\ feq c 1 y (fscal al v).

(* the linearised SVD equations with the linearised unit-norm constraints have at most one solution *)
Theorem du_unique (m c:nat) (H dH u v du dv du' dv':fmat R) (sg ds:R) :
  simple_sv m c H u v sg ->
  feq 1 1 (fmul m (ftr u) u) fid ->
  feq m 1 (fadd (fmul c dH v) (fmul c H dv)) (fadd (fscal ds u) (fscal sg du)) ->
  feq c 1 (fadd (fmul m (ftr dH) u) (fmul m (ftr H) du)) (fadd (fscal ds v) (fscal sg dv)) ->
  feq 1 1 (fmul m (ftr u) du) fzero ->
  feq m 1 (fadd (fmul c dH v) (fmul c H dv')) (fadd (fscal ds u) (fscal sg du')) ->
  feq c 1 (fadd (fmul m (ftr dH) u) (fmul m (ftr H) du')) (fadd (fscal ds v) (fscal sg dv')) ->
  feq 1 1 (fmul m (ftr u) du') fzero ->
  feq m 1 du du' /\ feq c 1 dv dv'.
Proof.
  intros Hs uu E1 E2 N1 E1' E2' N1'.
  destruct (Hs (fsub du du') (fsub dv dv')) as [al [Hx Hy]].
  - rewrite (fmul_sub_r R K Rth m c 1). intros i j Hi Hj.
    specialize (E1 i j Hi Hj). specialize (E1' i j Hi Hj). unfold FMat.fadd, FMat.fsub, FMat.fscal in *.
    transitivity ((fmul c dH v i j + fmul c H dv i j) - (fmul c dH v i j + fmul c H dv' i j)); [ring|]. rewrite E1, E1'. ring.
  - rewrite (fmul_sub_r R K Rth c m 1). intros i j Hi Hj.
    specialize (E2 i j Hi Hj). specialize (E2' i j Hi Hj). unfold FMat.fadd, FMat.fsub, FMat.fscal in *.
    transitivity ((fmul m (ftr dH) u i j + fmul m (ftr H) du i j) - (fmul m (ftr dH) u i j + fmul m (ftr H) du' i j)); [ring|]. rewrite E2, E2'. ring.
  - assert (A0: al = 0).
    { assert (E: feq 1 1 (fmul m (ftr u) (fsub du du')) (fmul m (ftr u) (fscal al u))) by (rewrite Hx; reflexivity).
      rewrite (fmul_sub_r R K Rth 1 m 1), N1, N1' in E. rewrite (fmul_scal_r R K Rth 1 m 1), uu in E.
      specialize (E 0%nat 0%nat Nat.lt_0_1 Nat.lt_0_1). unfold FMat.fsub, FMat.fzero, FMat.fscal, FMat.fid in E. cbn [Nat.eqb] in E.
      transitivity (al * 1); [ring|]. rewrite <- E. ring. }
    subst al. split; intros i j Hi Hj.
    + specialize (Hx i j Hi Hj). unfold FMat.fsub, FMat.fscal in Hx. transitivity ((du i j - du' i j) + du' i j); [ring|]. rewrite Hx. ring.
    + specialize (Hy i j Hi Hj). unfold FMat.fsub, FMat.fscal in Hy. transitivity ((dv i j - dv' i j) + dv' i j); [ring|]. rewrite Hy. ring.
Qed.
End DuUniq.

Section SVfo.
Variable R:Type. Variable K:Ops R.
Hypothesis Rth : ring_theory (o0 K) (o1 K) (oadd K) (omul K) (osub K) (oopp K) (@eq R).
Add Ring RrSV : Rth.
Local Open Scope K_scope.
Notation "0" := (o0 K) : K_scope. Notation "1" := (o1 K) : K_scope.
Infix "+" := (oadd K) : K_scope. Infix "*" := (omul K) : K_scope. Infix "-" := (osub K) : K_scope.
Notation D := (D R). Notation DOps := (DOps R K). Notation st := (st R). Notation ep := (ep R).
Notation fmulK := (fmul K). Notation faddK := (fadd K). Notation fscalK := (fscal K).

(* column form of an equation X~ y~ = s~ z~ over the dual numbers: standard part and linearisation *)
Lemma lin_col a b (Xt yt zt:fmat D) (sgt:D) :
  feq a 1 (fmul DOps b Xt yt) (fscal DOps sgt zt) ->
  feq a 1 (fmulK b (st Xt) (st yt)) (fscalK (fst sgt) (st zt)) /\
  feq a 1 (faddK (fmulK b (ep Xt) (st yt)) (fmulK b (st Xt) (ep yt))) (faddK (fscalK (snd sgt) (st zt)) (fscalK (fst sgt) (ep zt))).
Proof.
  intros He. split.
  - rewrite <- (st_fmul R K a b 1). rewrite <- (st_fscal R K a 1). apply st_feq, He.
  - pose proof (ep_feq R _ _ _ _ He) as E. rewrite (ep_fmul R K Rth a b 1), (ep_fscal R K a 1) in E.
    intros i j Hi Hj. specialize (E i j Hi Hj). unfold FMat.fadd in *. rewrite (Radd_comm Rth). rewrite E. ring.
Qed.
Lemma lin_norm k (w:fmat D) : (forall x:R, x + x = 0 -> x = 0) ->
  feq 1 1 (fmul DOps k (ftr w) w) (fid DOps) ->
  feq 1 1 (fmulK k (ftr (st w)) (st w)) (fid K) /\ feq 1 1 (fmulK k (ftr (st w)) (ep w)) (fzero K).
Proof.
  intros two_reg Hw. split.
  - change (ftr (st w)) with (st (ftr w)). rewrite <- (st_fmul R K 1 k 1). intros i j Hi Hj. rewrite (st_feq R _ _ _ _ Hw i j Hi Hj).
    unfold P_unc.st, FMat.fid. cbn. destruct (Nat.eqb i j); reflexivity.
  - pose proof (ep_feq R _ _ _ _ Hw) as E. rewrite (ep_fmul R K Rth 1 k 1) in E.
    intros i j Hi Hj. assert (i = 0%nat) by lia. assert (j = 0%nat) by lia. subst i j.
    specialize (E 0%nat 0%nat Nat.lt_0_1 Nat.lt_0_1). unfold FMat.fadd, FMat.fzero in *.
    apply two_reg.
    assert (S: fmulK k (ep (ftr w)) (st w) 0%nat 0%nat = fmulK k (st (ftr w)) (ep w) 0%nat 0%nat).
    { unfold FMat.fmul, P_unc.ep, P_unc.st, ftr. apply sumn_ext; intros; ring. }
    rewrite S in E. change (st (ftr w)) with (ftr (st w)) in E. rewrite E. unfold P_unc.ep, FMat.fid. cbn. reflexivity.
Qed.

(* THE first-order statement for a left singular vector: if the SVD equations and the unit norms hold to first order for
   (H + eps dH, u + eps du', v + eps dv', s + eps ds') and s is a simple singular value, then du' is the code's expression *)
Theorem singular_vector_first_order (m c:nat) (Ht ut vt:fmat D) (sgt:D) (Ki:fmat R) (isg:R) :
  (0 < c)%nat ->
  (forall x:R, x + x = 0 -> x = 0) ->
  feq m 1 (fmul DOps c Ht vt) (fscal DOps sgt ut) ->
  feq c 1 (fmul DOps m (ftr Ht) ut) (fscal DOps sgt vt) ->
  feq 1 1 (fmul DOps m (ftr ut) ut) (fid DOps) ->
  feq 1 1 (fmul DOps c (ftr vt) vt) (fid DOps) ->
  simple_sv R K m c (st Ht) (st ut) (st vt) (fst sgt) ->
  isg * fst sgt = 1 ->
  feq c c (fmulK c (Ki_arg K m c isg (st Ht) (st vt)) Ki) (fid K) ->
  (forall x, (1+1) * st vt (c-1)%nat 0%nat * x = 0 -> x = 0) ->
  feq m 1 (ep ut) (du_code K m c isg (st Ht) (ep Ht) (st ut) (st vt) Ki) /\
  snd sgt = dsig_of K m c (fun a => st ut a 0%nat) (ep Ht) (fun b => st vt b 0%nat).
Proof.
  intros Hc two_reg H1 H2 Hu Hv Hs Hisg HKi reg.
  destruct (lin_col m c Ht vt ut sgt H1) as [S1 L1].
  destruct (lin_col c m (ftr Ht) ut vt sgt H2) as [S2 L2].
  change (st (ftr Ht)) with (ftr (st Ht)) in S2, L2. change (ep (ftr Ht)) with (ftr (ep Ht)) in L2.
  destruct (lin_norm m ut two_reg Hu) as [uu udu]. destruct (lin_norm c vt two_reg Hv) as [vv vdv].
  pose proof (du_solves_linearised R K Rth m c (st Ht) (ep Ht) (st ut) (st vt) Ki (fst sgt) isg Hc S1 S2 uu vv Hisg HKi reg) as [C1 [C2 [C3 C4]]].
  assert (Eds: snd sgt = fmulK m (ftr (st ut)) (fmulK c (ep Ht) (st vt)) 0%nat 0%nat).
  { apply (dsigma R K Rth m c (st Ht) (ep Ht) (st ut) (ep ut) (st vt) (ep vt) (fst sgt) (snd sgt)); try assumption.
    apply (utH R K Rth m c (st Ht) (st ut) (st vt) (fst sgt) S2). }
  split; [|exact Eds].
  rewrite Eds in L1, L2.
  apply feq_sym.
  apply (du_unique R K Rth m c (st Ht) (ep Ht) (st ut) (st vt) _ _ (ep ut) (ep vt) (fst sgt) _ Hs uu C1 C2 C3 L1 L2 udu).
Qed.
End SVfo.

(* ================= concrete instances used by the Examples of Properties/C17.v ================= *)
Definition exA : fmat Z := fun i j => match i, j with 0%nat, 0%nat => 2 | 0%nat, 1%nat => 1 | 1%nat, 1%nat => 3 | _, _ => 0 end%Z.
Definition exdA : fmat Z := fun i j => Z.of_nat (i*2+j+1).
Definition exphi : fmat Z := fun i _ => match i with 0%nat => 1 | _ => 0 end%Z.
Definition exdphi : fmat Z := fun i _ => match i with 1%nat => (-3) | _ => 0 end%Z.
Definition exchi : fmat Z := fun _ j => match j with 0%nat => 1 | 1%nat => (-1) | _ => 0 end%Z.

(* ================= over the reals: the (f) row of the Jacobian is a derivative ================= *)
From Coq Require Import Reals Lra.
Local Open Scope R_scope.

Definition ROps17 : Ops R := {| o0:=0; o1:=1; oadd:=Rplus; omul:=Rmult; osub:=Rminus; oopp:=Ropp; odiv:=Rdiv; oinv:=Rinv |}.

(* derivative of t |-> exp(dt a(t)) * trig(dt b(t)) *)
Lemma d_exp_cos (dt t0:R) (a b:R->R) (a' b':R) :
  derivable_pt_lim a t0 a' -> derivable_pt_lim b t0 b' ->
  derivable_pt_lim (fun t => exp (dt * a t) * cos (dt * b t)) t0
    (dt * (a' * (exp (dt * a t0) * cos (dt * b t0)) - b' * (exp (dt * a t0) * sin (dt * b t0)))).
Proof.
  intros Ha Hb.
  pose proof (derivable_pt_lim_comp _ _ _ _ _ (derivable_pt_lim_scal a dt t0 a' Ha) (derivable_pt_lim_exp (mult_real_fct dt a t0))) as E.
  pose proof (derivable_pt_lim_comp _ _ _ _ _ (derivable_pt_lim_scal b dt t0 b' Hb) (derivable_pt_lim_cos (mult_real_fct dt b t0))) as C.
  pose proof (derivable_pt_lim_mult _ _ _ _ _ E C) as M.
  apply (derivable_pt_lim_ext _ (fun t => exp (dt * a t) * cos (dt * b t))) in M; [| intros z; reflexivity].
  replace (dt * (a' * (exp (dt * a t0) * cos (dt * b t0)) - b' * (exp (dt * a t0) * sin (dt * b t0))))
    with (exp (mult_real_fct dt a t0) * (dt * a') * comp cos (mult_real_fct dt b) t0 +
          comp exp (mult_real_fct dt a) t0 * (- sin (mult_real_fct dt b t0) * (dt * b'))).
  - exact M.
  - unfold comp, mult_real_fct. ring.
Qed.
Lemma d_exp_sin (dt t0:R) (a b:R->R) (a' b':R) :
  derivable_pt_lim a t0 a' -> derivable_pt_lim b t0 b' ->
  derivable_pt_lim (fun t => exp (dt * a t) * sin (dt * b t)) t0
    (dt * (a' * (exp (dt * a t0) * sin (dt * b t0)) + b' * (exp (dt * a t0) * cos (dt * b t0)))).
Proof.
  intros Ha Hb.
  pose proof (derivable_pt_lim_comp _ _ _ _ _ (derivable_pt_lim_scal a dt t0 a' Ha) (derivable_pt_lim_exp (mult_real_fct dt a t0))) as E.
  pose proof (derivable_pt_lim_comp _ _ _ _ _ (derivable_pt_lim_scal b dt t0 b' Hb) (derivable_pt_lim_sin (mult_real_fct dt b t0))) as C.
  pose proof (derivable_pt_lim_mult _ _ _ _ _ E C) as M.
  apply (derivable_pt_lim_ext _ (fun t => exp (dt * a t) * sin (dt * b t))) in M; [| intros z; reflexivity].
  replace (dt * (a' * (exp (dt * a t0) * sin (dt * b t0)) + b' * (exp (dt * a t0) * cos (dt * b t0))))
    with (exp (mult_real_fct dt a t0) * (dt * a') * comp sin (mult_real_fct dt b) t0 +
          comp exp (mult_real_fct dt a) t0 * (cos (mult_real_fct dt b t0) * (dt * b'))).
  - exact M.
  - unfold comp, mult_real_fct. ring.
Qed.

(* The (f) row of the code's Jacobian IS the derivative of the natural frequency.
   lam_c(t) = a(t) + i b(t) is any differentiable branch of log(lam_d(t))/dt, i.e. exp(dt lam_c) = lam_d = c + i d;
   f = |lam_c| / (2 pi).  No branch of the complex logarithm has to be chosen. *)
Theorem jac_f (dt t0:R) (a b c d : R -> R) (a' b' c' d':R) :
  dt <> 0 ->
  (forall t, c t = exp (dt * a t) * cos (dt * b t)) ->
  (forall t, d t = exp (dt * a t) * sin (dt * b t)) ->
  derivable_pt_lim a t0 a' -> derivable_pt_lim b t0 b' -> derivable_pt_lim c t0 c' -> derivable_pt_lim d t0 d' ->
  0 < a t0 * a t0 + b t0 * b t0 ->
  derivable_pt_lim (fun t => sqrt (a t * a t + b t * b t) / (2*PI)) t0
    (jf_row ROps17 (/ (2*PI)) dt (sqrt (a t0 * a t0 + b t0 * b t0)) (a t0) (b t0) (c t0) (d t0) c' d').
Proof.
  intros Hdt Hc Hd Da Db Dc Dd Hpos.
  (* c', d' from the implicit relation *)
  assert (Ec: c' = dt * (a' * c t0 - b' * d t0)).
  { rewrite (Hc t0), (Hd t0). apply (uniqueness_limite c t0); [exact Dc|].
    apply (derivable_pt_lim_ext (fun t => exp (dt * a t) * cos (dt * b t))); [intros z; symmetry; apply Hc|].
    apply d_exp_cos; assumption. }
  assert (Ed: d' = dt * (a' * d t0 + b' * c t0)).
  { rewrite (Hc t0), (Hd t0). apply (uniqueness_limite d t0); [exact Dd|].
    apply (derivable_pt_lim_ext (fun t => exp (dt * a t) * sin (dt * b t))); [intros z; symmetry; apply Hd|].
    apply d_exp_sin; assumption. }
  assert (N1: c t0 * c' + d t0 * d' = dt * a' * (c t0 * c t0 + d t0 * d t0)) by (rewrite Ec, Ed; ring).
  assert (N2: c t0 * d' - d t0 * c' = dt * b' * (c t0 * c t0 + d t0 * d t0)) by (rewrite Ec, Ed; ring).
  assert (Hm: c t0 * c t0 + d t0 * d t0 <> 0).
  { rewrite (Hc t0), (Hd t0).
    replace (exp (dt * a t0) * cos (dt * b t0) * (exp (dt * a t0) * cos (dt * b t0)) + exp (dt * a t0) * sin (dt * b t0) * (exp (dt * a t0) * sin (dt * b t0)))
      with (exp (dt * a t0) * exp (dt * a t0) * ((sin (dt * b t0))² + (cos (dt * b t0))²)) by (unfold Rsqr; ring).
    rewrite sin2_cos2. pose proof (exp_pos (dt * a t0)). nra. }
  (* derivative of the modulus *)
  pose proof (derivable_pt_lim_plus _ _ _ _ _ (derivable_pt_lim_mult _ _ _ _ _ Da Da) (derivable_pt_lim_mult _ _ _ _ _ Db Db)) as Dh.
  pose proof (derivable_pt_lim_comp _ _ _ _ _ Dh (derivable_pt_lim_sqrt ((a * a + b * b)%F t0) Hpos)) as Ds.
  pose proof (derivable_pt_lim_scal _ (/ (2*PI)) _ _ Ds) as Df.
  apply (derivable_pt_lim_ext _ (fun t => sqrt (a t * a t + b t * b t) / (2*PI))) in Df;
    [| intros z; unfold mult_real_fct, comp, plus_fct, mult_fct; field; apply Rgt_not_eq; pose proof PI_RGT_0; lra].
  assert (Hs: sqrt (a t0 * a t0 + b t0 * b t0) <> 0) by (apply Rgt_not_eq, sqrt_lt_R0, Hpos).
  assert (Hpi: 2 * PI <> 0) by (apply Rgt_not_eq; pose proof PI_RGT_0; lra).
  replace (jf_row ROps17 (/ (2*PI)) dt (sqrt (a t0 * a t0 + b t0 * b t0)) (a t0) (b t0) (c t0) (d t0) c' d')
    with (/ (2 * PI) * (/ (2 * sqrt ((a * a + b * b)%F t0)) * (a' * a t0 + a t0 * a' + (b' * b t0 + b t0 * b')))).
  - exact Df.
  - unfold jf_row, jf_lin. cbn [oadd omul osub odiv ROps17].
    replace (a t0 * (c t0 * c' + d t0 * d') + b t0 * (c t0 * d' - d t0 * c'))
      with ((a t0 * a' + b t0 * b') * dt * (c t0 * c t0 + d t0 * d t0)) by (rewrite N1, N2; ring).
    unfold plus_fct, mult_fct. field. repeat split; try assumption. apply Rgt_not_eq, PI_RGT_0.
Qed.
