(* C05 - lemmas about the pLSCF model (Model/M_plscf.v). *)
From Coq Require Import List Arith Lia Bool Ring Setoid Morphisms.
From PyOMA.Base Require Import Carrier FMat Cplx.
From PyOMA.Model Require Import M_plscf.
Import ListNotations.

Lemma blk_idx5 i l a : (a < l)%nat -> ((i*l+a) / l = i /\ (i*l+a) mod l = a)%nat.
Proof.
  intros Ha. split.
  - rewrite Nat.add_comm, Nat.div_add by lia. rewrite Nat.div_small by lia. lia.
  - rewrite Nat.add_comm, Nat.mod_add by lia. apply Nat.mod_small; lia.
Qed.
Lemma blk_lt i l a p : (a < l)%nat -> (i < p)%nat -> (i*l+a < p*l)%nat.
Proof. intros. nia. Qed.
Lemma idx_split I m : (0 < m)%nat -> I = ((I/m)*m + I mod m)%nat /\ (I mod m < m)%nat.
Proof. intros Hm. split; [rewrite Nat.mul_comm; apply Nat.div_mod; lia | apply Nat.mod_upper_bound; lia]. Qed.
Lemma idx_div_lt I m p : (0 < m)%nat -> (I < p*m)%nat -> (I/m < p)%nat.
Proof. intros Hm HI. apply Nat.div_lt_upper_bound; lia. Qed.

Section P.
Variable R:Type. Variable K:Ops R.
Hypothesis Rth : ring_theory (o0 K) (o1 K) (oadd K) (omul K) (osub K) (oopp K) (@eq R).
Add Ring RrPL : Rth.
Local Open Scope K_scope.
Notation "0" := (o0 K) : K_scope. Notation "1" := (o1 K) : K_scope.
Infix "+" := (oadd K) : K_scope. Infix "*" := (omul K) : K_scope. Infix "-" := (osub K) : K_scope.
Notation "- x" := (oopp K x) : K_scope.

(* ------------------------------------------------------------------ small matrix library *)
Lemma sumn_rev n : forall (f:nat -> R), sumn K n f = sumn K n (fun j => f (n-1-j)%nat).
Proof.
  induction n; intros f; [reflexivity|].
  rewrite (sumn_S_l R K Rth). rewrite (IHn (fun t => f (S t))).
  cbn [sumn]. replace (S n - 1 - n)%nat with O by lia.
  rewrite (sumn_ext R K n (fun j => f (S n - 1 - j)%nat) (fun j => f (S (n-1-j))%nat)) by (intros; f_equal; lia).
  ring.
Qed.
Lemma sumn_all0 n (f:nat -> R) : (forall k, (k<n)%nat -> f k = 0) -> sumn K n f = 0.
Proof. intros H. rewrite (sumn_ext R K n f (fun _ => 0)) by assumption. apply (sumn_zero R K Rth). Qed.

Global Instance fneg_proper m n : Proper (feq m n ==> feq m n) (fneg K).
Proof. intros A B H i j Hi Hj. unfold fneg. rewrite H; auto. Qed.
Lemma fsum_ext m n N (F G:nat -> fmat R) : (forall o, (o<N)%nat -> feq m n (F o) (G o)) -> feq m n (fsum K N F) (fsum K N G).
Proof. intros H i j Hi Hj. unfold fsum. apply sumn_ext; intros o Ho. apply H; assumption. Qed.
Lemma fsum_S N (F:nat -> fmat R) m n : feq m n (fsum K (S N) F) (fadd K (fsum K N F) (F N)).
Proof. intros i j _ _. reflexivity. Qed.
Lemma fsum_zero m n N : feq m n (fsum K N (fun _ => fzero K)) (fzero K).
Proof. intros i j _ _. unfold fsum, fzero. apply (sumn_zero R K Rth). Qed.
Lemma fmul_fsum_r m n q N A (F:nat -> fmat R) : feq m q (fmul K n A (fsum K N F)) (fsum K N (fun o => fmul K n A (F o))).
Proof.
  intros i j _ _. unfold fmul, fsum. rewrite (sumn_swap R K Rth). apply sumn_ext; intros k _.
  rewrite <- (sumn_scal R K Rth). reflexivity.
Qed.
Lemma fmul_fsum_l m n q N (F:nat -> fmat R) B : feq m q (fmul K n (fsum K N F) B) (fsum K N (fun o => fmul K n (F o) B)).
Proof.
  intros i j _ _. unfold fmul, fsum. rewrite (sumn_swap R K Rth). apply sumn_ext; intros k _.
  rewrite <- (sumn_scal_r R K Rth). reflexivity.
Qed.
Lemma fmul_neg_l m n q A B : feq m q (fmul K n (fneg K A) B) (fneg K (fmul K n A B)).
Proof. intros i j _ _. unfold fmul, fneg. rewrite <- (sumn_opp R K Rth). apply sumn_ext; intros; ring. Qed.
Lemma fmul_neg_r m n q A B : feq m q (fmul K n A (fneg K B)) (fneg K (fmul K n A B)).
Proof. intros i j _ _. unfold fmul, fneg. rewrite <- (sumn_opp R K Rth). apply sumn_ext; intros; ring. Qed.
Lemma fadd_neg_zero m n A B : feq m n (fadd K A B) (fzero K) -> feq m n B (fneg K A).
Proof. intros H i j Hi Hj. specialize (H i j Hi Hj). unfold fadd, fzero, fneg in *.
  transitivity ((A i j + B i j) - A i j); [ring|]. rewrite H. ring. Qed.
Lemma fadd_comm m n A B : feq m n (fadd K A B) (fadd K B A).
Proof. intros i j _ _. unfold fadd. ring. Qed.
Lemma fsub_self_zero m n A B : feq m n A B -> feq m n (fsub K A B) (fzero K).
Proof. intros H i j Hi Hj. unfold fsub, fzero. rewrite H by assumption. ring. Qed.
Lemma fsub_zero_eq m n A B : feq m n (fsub K A B) (fzero K) -> feq m n A B.
Proof. intros H i j Hi Hj. specialize (H i j Hi Hj). unfold fsub, fzero in H.
  transitivity ((A i j - B i j) + B i j); [ring|]. rewrite H. ring. Qed.
Lemma fscal_zero m n c : feq m n (fscal K c (fzero K)) (fzero K).
Proof. intros i j _ _. unfold fscal, fzero. ring. Qed.
Lemma feq_weaken m n m' n' (A B:fmat R) : (m' <= m)%nat -> (n' <= n)%nat -> feq m n A B -> feq m' n' A B.
Proof. intros Hm Hn H i j Hi Hj. apply H; lia. Qed.

(* uniqueness of the solution of a linear system whose matrix has a left inverse *)
Lemma solve_unique d c A Ai X Y B :
  feq d d (fmul K d Ai A) (fid K) -> feq d c (fmul K d A X) B -> feq d c (fmul K d A Y) B -> feq d c X Y.
Proof.
  intros Hi HX HY.
  rewrite <- (fmul_id_l R K Rth d c X), <- (fmul_id_l R K Rth d c Y).
  rewrite <- Hi. rewrite !(fmul_assoc R K Rth d d d c). rewrite HX, HY. reflexivity.
Qed.

Lemma rpow_S z i : rpow K z (S i) = z * rpow K z i. Proof. reflexivity. Qed.
Lemma rpow_add z i j : rpow K z (i+j) = rpow K z i * rpow K z j.
Proof. induction i; cbn [rpow Nat.add]; [ring|]. rewrite IHi. ring. Qed.

Lemma rpow_pred z k : (1 <= k)%nat -> rpow K z k = z * rpow K z (k-1).
Proof. intros Hk. destruct k; [lia|]. replace (S k - 1)%nat with k by lia. reflexivity. Qed.

(* ------------------------------------------------------------------ companion_eigpairs *)
Section Companion.
Variables (m p:nat) (P Ad Bn:nat -> fmat R).
Hypothesis Hm : (0 < m)%nat.
Hypothesis Hp : (1 <= p)%nat.
(* contract of P j = np.linalg.solve(A_den[-1], A_den[j]) *)
Hypothesis HP : forall j, (j < p)%nat -> feq m m (fmul K m (Ad p) (P j)) (Ad j).
Let N := (S p * m)%nat.

(* first block row of the product: minus sum_j z^j P_j v *)
Lemma comp_row0 (w:fmat R) I c : (I < m)%nat ->
  fmul K N (comp_mat K m p P) w I c
  = - sumn K p (fun j => sumn K m (fun a => P j I a * w ((p-1-j)*m + a)%nat c)).
Proof.
  intros HI. unfold fmul, N. replace (S p * m)%nat with (p*m + m)%nat by lia.
  rewrite (sumn_split R K Rth).
  rewrite (sumn_all0 m (fun i => comp_mat K m p P I (p*m+i)%nat * w (p*m+i)%nat c)).
  2:{ intros k Hk. unfold comp_mat. destruct (Nat.ltb_spec I m) as [_|]; [|lia].
      destruct (Nat.ltb_spec (p*m+k) (p*m)) as [|_]; [lia|]. ring. }
  rewrite (sumn_blocks R K Rth m p).
  rewrite (sumn_rev p (fun j => sumn K m (fun a => P j I a * w ((p-1-j)*m + a)%nat c))).
  rewrite <- (sumn_opp R K Rth).
  assert (E0: forall x y:R, x = y -> x + 0 = y) by (intros x y ->; ring). apply E0.
  apply sumn_ext; intros j Hj. cbv beta. rewrite <- (sumn_opp R K Rth). apply sumn_ext; intros a Ha.
  unfold comp_mat. destruct (Nat.ltb_spec I m) as [_|]; [|lia].
  destruct (blk_idx5 j m a Ha) as [-> ->].
  destruct (Nat.ltb_spec (j*m+a) (p*m)) as [_|Hge]; [|pose proof (blk_lt j m a p Ha Hj); lia].
  replace (p-1-(p-1-j))%nat with j by lia. ring.
Qed.

(* the other block rows shift the vector by one block *)
Lemma comp_row_shift (w:fmat R) I c : (m <= I)%nat -> (I < N)%nat ->
  fmul K N (comp_mat K m p P) w I c = w (I-m)%nat c.
Proof.
  intros HI HN. unfold fmul.
  rewrite (sumn_ext R K N _ (fun k => (if Nat.eqb k (I-m) then 1 else 0) * w k c)).
  - apply (sumn_delta R K Rth N (I-m)%nat (fun k => w k c)). lia.
  - intros k Hk. unfold comp_mat. destruct (Nat.ltb_spec I m) as [|_]; [lia|].
    rewrite (Nat.eqb_sym k). reflexivity.
Qed.

Lemma geo_block z zi v j a c : (j < p)%nat -> (a < m)%nat ->
  geo_vec K m p z zi v (j*m+a)%nat c = rpow K z (p-1-j) * v a c.
Proof.
  intros Hj Ha. unfold geo_vec. destruct (blk_idx5 j m a Ha) as [-> ->].
  destruct (Nat.ltb_spec (j*m+a) (p*m)) as [_|Hge]; [reflexivity|pose proof (blk_lt j m a p Ha Hj); lia].
Qed.
Lemma geo_border z zi v a c : (a < m)%nat -> geo_vec K m p z zi v (p*m+a)%nat c = zi * v a c.
Proof.
  intros Ha. unfold geo_vec. destruct (blk_idx5 p m a Ha) as [_ ->].
  destruct (Nat.ltb_spec (p*m+a) (p*m)) as [|_]; [lia|reflexivity].
Qed.

(* sum_j z^j (P_j v) in matrix form *)
Definition Pz (z:R) (v:fmat R) : fmat R := fsum K p (fun j => fscal K (rpow K z j) (fmul K m (P j) v)).

Lemma comp_row0_geo z zi v I c : (I < m)%nat ->
  fmul K N (comp_mat K m p P) (geo_vec K m p z zi v) I c = - Pz z v I c.
Proof.
  intros HI. rewrite comp_row0 by assumption. f_equal. unfold Pz, fsum, fscal, fmul.
  apply sumn_ext; intros j Hj. rewrite <- (sumn_scal R K Rth). apply sumn_ext; intros a Ha.
  rewrite geo_block by (assumption || lia). replace (p-1-(p-1-j))%nat with j by lia. ring.
Qed.

(* A_p (sum_j z^j P_j v) + z^p A_p v = A(z) v : only the solve contract is used *)
Lemma Ap_Pz z v q : feq m q (fadd K (fmul K m (Ad p) (Pz z v)) (fscal K (rpow K z p) (fmul K m (Ad p) v)))
                          (polymat_apply K m p Ad z v).
Proof.
  unfold polymat_apply, Pz. rewrite (fsum_S p _ m q).
  apply (fadd_proper R K m q); [|reflexivity].
  rewrite (fmul_fsum_r m m q p). apply fsum_ext; intros j Hj.
  rewrite (fmul_scal_r R K Rth m m q). apply (fscal_proper R K m q).
  rewrite <- (fmul_assoc R K Rth m m m q). rewrite (HP j Hj). reflexivity.
Qed.

(* (=>) a latent pair of the polynomial matrix gives an eigenpair of the bordered companion *)
Theorem comp_eig_of_root z zi v ApInv :
  z * zi = 1 ->
  feq m m (fmul K m ApInv (Ad p)) (fid K) ->
  feq m 1 (polymat_apply K m p Ad z v) (fzero K) ->
  feq N 1 (fmul K N (comp_mat K m p P) (geo_vec K m p z zi v)) (fscal K z (geo_vec K m p z zi v)).
Proof.
  intros Hz Hinv Hroot.
  assert (Hkey: feq m 1 (fadd K (Pz z v) (fscal K (rpow K z p) v)) (fzero K)).
  { rewrite <- (fmul_id_l R K Rth m 1 (fadd K (Pz z v) (fscal K (rpow K z p) v))).
    rewrite <- Hinv. rewrite (fmul_assoc R K Rth m m m 1).
    rewrite (fmul_add_r R K Rth m m 1). rewrite (fmul_scal_r R K Rth m m 1).
    rewrite (Ap_Pz z v 1). rewrite Hroot. apply (fmul_zero_r R K Rth). }
  intros I c HI Hc. destruct (Nat.lt_ge_cases I m) as [Hlt|Hge].
  - rewrite comp_row0_geo by assumption.
    specialize (Hkey I c Hlt Hc). unfold fadd, fscal, fzero in Hkey. unfold fscal.
    replace I with (0*m+I)%nat at 2 by lia. rewrite geo_block by lia.
    replace (p-1-0)%nat with (p-1)%nat by lia.
    assert (E: rpow K z p = z * rpow K z (p-1)) by (replace p with (S (p-1)) at 1 by lia; reflexivity).
    rewrite E in Hkey.
    transitivity (- Pz z v I c + (Pz z v I c + z * rpow K z (p-1) * v I c)); [rewrite Hkey; ring|ring].
  - rewrite comp_row_shift by assumption. unfold fscal.
    destruct (idx_split I m Hm) as [EI Ha]. set (i := (I/m)%nat) in *. set (a := (I mod m)%nat) in *.
    assert (Hi1: (1 <= i)%nat) by (destruct i; [lia|lia]).
    assert (Hip: (i <= p)%nat) by (unfold N in HI; nia).
    replace (I-m)%nat with ((i-1)*m+a)%nat by nia. rewrite EI.
    rewrite geo_block by lia.
    destruct (Nat.eq_dec i p) as [->|Hne].
    + rewrite geo_border by assumption. replace (p-1-(p-1))%nat with O by lia. cbn [rpow].
      transitivity ((z*zi) * v a c); [rewrite Hz; ring|ring].
    + rewrite geo_block by lia. replace (p-1-(i-1))%nat with (S (p-1-i)) by lia. cbn [rpow]. ring.
Qed.

(* (<=) every eigenvector for z <> 0 is block-geometric and its generating block is a latent vector *)
Theorem comp_root_of_eig z zi (w:fmat R) :
  z * zi = 1 ->
  feq N 1 (fmul K N (comp_mat K m p P) w) (fscal K z w) ->
  let v := fun a c => w ((p-1)*m + a)%nat c in
  feq N 1 w (geo_vec K m p z zi v) /\ feq m 1 (polymat_apply K m p Ad z v) (fzero K).
Proof.
  intros Hz Heig v.
  (* shift relation between consecutive blocks *)
  assert (Hsh: forall j a, (1 <= j)%nat -> (j <= p)%nat -> (a < m)%nat -> w ((j-1)*m+a)%nat O = z * w (j*m+a)%nat O).
  { intros j a Hj1 Hjp Ha. assert (HIN: (j*m+a < N)%nat) by (unfold N; nia).
    specialize (Heig (j*m+a)%nat O HIN Nat.lt_0_1). rewrite comp_row_shift in Heig by (nia || assumption).
    unfold fscal in Heig. rewrite <- Heig. f_equal. nia. }
  assert (Hgeo: forall d a, (d <= p-1)%nat -> (a < m)%nat -> w ((p-1-d)*m+a)%nat O = rpow K z d * v a O).
  { induction d; intros a Hd Ha.
    - cbn [rpow]. unfold v. replace (p-1-0)%nat with (p-1)%nat by lia. ring.
    - specialize (Hsh (p-1-d)%nat a). replace (p-1-d-1)%nat with (p-1-S d)%nat in Hsh by lia.
      rewrite Hsh by lia. rewrite IHd by lia. cbn [rpow]. ring. }
  assert (Hw: feq N 1 w (geo_vec K m p z zi v)).
  { intros I c HI Hc. assert (c = O) by lia; subst c.
    destruct (idx_split I m Hm) as [EI Ha]. set (i := (I/m)%nat) in *. set (a := (I mod m)%nat) in *.
    assert (Hip: (i <= p)%nat) by (unfold N in HI; nia). rewrite EI.
    destruct (Nat.eq_dec i p) as [->|Hne].
    - rewrite geo_border by assumption.
      specialize (Hsh p a Hp (Nat.le_refl p) Ha). fold (v a O) in Hsh.
      transitivity ((z*zi) * w (p*m+a)%nat O); [rewrite Hz; ring|].
      transitivity (zi * (z * w (p*m+a)%nat O)); [ring|]. rewrite <- Hsh. reflexivity.
    - rewrite geo_block by lia. specialize (Hgeo (p-1-i)%nat a).
      replace (p-1-(p-1-i))%nat with i in Hgeo by lia. apply Hgeo; lia. }
  split; [exact Hw|].
  assert (Hrow0: feq m 1 (fneg K (Pz z v)) (fscal K (rpow K z p) v)).
  { intros I c HI Hc. assert (c = O) by lia; subst c.
    assert (HIN: (I < N)%nat) by (unfold N; nia).
    pose proof (Heig I O HIN Nat.lt_0_1) as E.
    assert (E2: fmul K N (comp_mat K m p P) w I O = fmul K N (comp_mat K m p P) (geo_vec K m p z zi v) I O).
    { apply (fmul_ext R K N N 1 (comp_mat K m p P) (comp_mat K m p P) w (geo_vec K m p z zi v)); try assumption; try lia.
      reflexivity. }
    rewrite E2, comp_row0_geo in E by assumption. unfold fneg, fscal. rewrite E. unfold fscal.
    rewrite (Hw I O HIN Nat.lt_0_1).
    pose proof (geo_block z zi v 0 I O ltac:(lia) HI) as G1. cbn [Nat.mul Nat.add] in G1. rewrite Nat.sub_0_r in G1.
    rewrite G1. rewrite (rpow_pred z p Hp). ring. }
  rewrite <- (Ap_Pz z v 1).
  assert (E3: feq m 1 (Pz z v) (fneg K (fscal K (rpow K z p) v))).
  { intros I c HI Hc. specialize (Hrow0 I c HI Hc). unfold fneg in *. rewrite <- Hrow0. ring. }
  rewrite E3. rewrite (fmul_neg_r m m 1). rewrite (fmul_scal_r R K Rth m m 1).
  intros I c HI Hc. unfold fadd, fneg, fzero. ring.
Qed.

(* the zero border: the null vectors of the bordered companion are exactly the vectors supported on the
   last block, and the output matrix vanishes on them *)
Theorem comp_zero_border (w:fmat R) q :
  (feq N q (fmul K N (comp_mat K m p P) w) (fzero K) <-> (forall J c, (J < p*m)%nat -> (c < q)%nat -> w J c = 0)) /\
  ((forall J c, (J < p*m)%nat -> (c < q)%nat -> w J c = 0) ->
     forall l, feq l q (fmul K N (out_mat K m p Bn P) w) (fzero K)).
Proof.
  split; [split|].
  - intros H0 J c HJ Hc. assert (HIN: (m+J < N)%nat) by (unfold N; nia).
    specialize (H0 (m+J)%nat c HIN Hc). rewrite comp_row_shift in H0 by lia.
    replace (m+J-m)%nat with J in H0 by lia. exact H0.
  - intros Hs I c HI Hc. unfold fzero. destruct (Nat.lt_ge_cases I m) as [Hlt|Hge].
    + rewrite comp_row0 by assumption.
      rewrite (sumn_all0 p); [ring|]. intros j Hj. apply sumn_all0; intros a Ha.
      rewrite Hs by (nia || assumption). ring.
    + rewrite comp_row_shift by assumption. apply Hs; [unfold N in HI; nia|assumption].
  - intros Hs l r c Hr Hc. unfold fmul, fzero. apply sumn_all0; intros J HJ.
    unfold out_mat. destruct (Nat.ltb_spec J (p*m)) as [Hlt|_]; [rewrite (Hs J c Hlt Hc)|]; ring.
Qed.

(* mode shape: the output matrix applied to the block-geometric vector of a latent pair is B(z) v *)
Theorem comp_shape z zi v l :
  feq m 1 (polymat_apply K m p Ad z v) (fzero K) ->
  forall ApInv, feq m m (fmul K m ApInv (Ad p)) (fid K) ->
  feq l 1 (fmul K N (out_mat K m p Bn P) (geo_vec K m p z zi v)) (polymat_apply K m p Bn z v).
Proof.
  intros Hroot ApInv Hinv.
  assert (Hkey: feq m 1 (Pz z v) (fneg K (fscal K (rpow K z p) v))).
  { apply fadd_neg_zero. rewrite (fadd_comm m 1).
    rewrite <- (fmul_id_l R K Rth m 1 (fadd K (Pz z v) (fscal K (rpow K z p) v))).
    rewrite <- Hinv. rewrite (fmul_assoc R K Rth m m m 1).
    rewrite (fmul_add_r R K Rth m m 1). rewrite (fmul_scal_r R K Rth m m 1).
    rewrite (Ap_Pz z v 1). rewrite Hroot. apply (fmul_zero_r R K Rth). }
  intros r c Hr Hc. assert (c = O) by lia; subst c.
  unfold fmul at 1. unfold N. replace (S p * m)%nat with (p*m + m)%nat by lia.
  rewrite (sumn_split R K Rth).
  rewrite (sumn_all0 m (fun i => out_mat K m p Bn P r (p*m+i)%nat * geo_vec K m p z zi v (p*m+i)%nat O)).
  2:{ intros k Hk. unfold out_mat. destruct (Nat.ltb_spec (p*m+k) (p*m)) as [|_]; [lia|]. ring. }
  rewrite (sumn_blocks R K Rth m p).
  rewrite (sumn_rev p).
  (* right-hand side: sum_{j<p} z^j (B_j v) + z^p B_p v, and B_p z^p v = - B_p (Pz z v) *)
  unfold polymat_apply. rewrite (fsum_S p _ l 1 r O Hr Nat.lt_0_1). unfold fadd.
  assert (EB: fscal K (rpow K z p) (fmul K m (Bn p) v) r O = - fmul K m (Bn p) (Pz z v) r O).
  { assert (G: feq l 1 (fmul K m (Bn p) (Pz z v)) (fneg K (fscal K (rpow K z p) (fmul K m (Bn p) v)))).
    { rewrite Hkey. rewrite (fmul_neg_r l m 1). rewrite (fmul_scal_r R K Rth l m 1). reflexivity. }
    rewrite (G r O Hr Nat.lt_0_1). unfold fneg. ring. }
  rewrite EB.
  assert (EP: fmul K m (Bn p) (Pz z v) r O = sumn K p (fun j => rpow K z j * fmul K m (Bn p) (fmul K m (P j) v) r O)).
  { unfold Pz. rewrite (fmul_fsum_r l m 1 p (Bn p) _ r O Hr Nat.lt_0_1). unfold fsum. apply sumn_ext; intros j Hj.
    rewrite (fmul_scal_r R K Rth l m 1 _ _ _ r O Hr Nat.lt_0_1). reflexivity. }
  rewrite EP. unfold fsum.
  transitivity (sumn K p (fun j => fscal K (rpow K z j) (fmul K m (Bn j) v) r O - rpow K z j * fmul K m (Bn p) (fmul K m (P j) v) r O) + 0).
  2:{ rewrite (sumn_sub R K Rth). ring. }
  f_equal. apply sumn_ext; intros j Hj.
  transitivity (sumn K m (fun a => (Bn j r a - fmul K m (Bn p) (P j) r a) * (rpow K z j * v a O))).
  - apply sumn_ext; intros a Ha. unfold out_mat.
    assert (Hj': (p-1-j < p)%nat) by lia.
    destruct (blk_idx5 (p-1-j) m a Ha) as [-> ->].
    destruct (Nat.ltb_spec ((p-1-j)*m+a) (p*m)) as [_|Hge]; [|pose proof (blk_lt (p-1-j) m a p Ha Hj'); lia].
    rewrite geo_block by assumption. replace (p-1-(p-1-j))%nat with j by lia. reflexivity.
  - unfold fscal. rewrite <- (fmul_assoc R K Rth l m m 1 (Bn p) (P j) v r O Hr Nat.lt_0_1).
    change (fmul K m (Bn j) v r O) with (sumn K m (fun a => Bn j r a * v a O)).
    change (fmul K m (fmul K m (Bn p) (P j)) v r O) with (sumn K m (fun a => fmul K m (Bn p) (P j) r a * v a O)).
    rewrite <- !(sumn_scal R K Rth). rewrite <- (sumn_sub R K Rth).
    apply sumn_ext; intros a Ha. ring.
Qed.
End Companion.

(* ------------------------------------------------------------------ evaluation-sharing wrappers are transparent *)
Lemma memo_feq m n A : feq m n (memo K m n A) A.
Proof. intros i j Hi Hj. unfold memo. apply ent_tab2; assumption. Qed.
Lemma nth_map_seq {X:Type} (f:nat -> X) (d:X) N o : (o < N)%nat -> nth o (map f (seq 0 N)) d = f o.
Proof.
  intros Ho. rewrite nth_indep with (d':= f O) by (rewrite map_length, seq_length; lia).
  rewrite map_nth, seq_nth by lia. reflexivity.
Qed.
Lemma memo_fam_feq N m n F o : (o < N)%nat -> feq m n (memo_fam K N m n F o) (F o).
Proof. intros Ho i j Hi Hj. unfold memo_fam. rewrite nth_map_seq by assumption. apply ent_tab2; assumption. Qed.
Lemma cmemo_eq m n (Z:cmat R) i j : (i < m)%nat -> (j < n)%nat -> cmemo K m n Z i j = Z i j.
Proof. intros Hi Hj. unfold cmemo. apply ent_tab2; assumption. Qed.
Lemma cmemo_fam_eq N m n (F:nat -> cmat R) o i j : (o < N)%nat -> (i < m)%nat -> (j < n)%nat -> cmemo_fam K N m n F o i j = F o i j.
Proof. intros Ho Hi Hj. unfold cmemo_fam. rewrite nth_map_seq by assumption. apply ent_tab2; assumption. Qed.

Lemma solve_fam_spec N (f:nat -> pres (fmat R)) g : solve_fam K N f = POk g -> forall o, (o < N)%nat -> f o = POk (g o).
Proof.
  revert g. induction N; intros g H o Ho; [lia|].
  cbn [solve_fam] in H. destruct (solve_fam K N f) as [g0|] eqn:E0; cbn [pbind] in H; [|discriminate].
  destruct (f N) as [z|] eqn:EN; cbn [pbind] in H; [|discriminate].
  injection H as <-. destruct (Nat.eqb_spec o N) as [->|Hne]; [exact EN|]. apply (IHN g0 eq_refl). lia.
Qed.

(* ------------------------------------------------------------------ Gram algebra: Re(A^H B) for real/imaginary parts *)
Global Instance regram_proper Nf a b :
  Proper (feq Nf a ==> feq Nf a ==> feq Nf b ==> feq Nf b ==> feq a b) (regram K Nf).
Proof.
  intros AR AR' H1 AI AI' H2 BR BR' H3 BI BI' H4. unfold regram.
  apply (fadd_proper R K a b); apply (fmul_proper R K a Nf b); try assumption; apply (ftr_proper R Nf a); assumption.
Qed.
Lemma regram_lin Nf a b1 b2 c AR AI B1R B1I B2R B2I G1 G2 :
  feq a c (regram K Nf AR AI (fadd K (fmul K b1 B1R G1) (fmul K b2 B2R G2)) (fadd K (fmul K b1 B1I G1) (fmul K b2 B2I G2)))
          (fadd K (fmul K b1 (regram K Nf AR AI B1R B1I) G1) (fmul K b2 (regram K Nf AR AI B2R B2I) G2)).
Proof.
  unfold regram.
  rewrite !(fmul_add_r R K Rth a Nf c). rewrite !(fmul_add_l R K Rth a _ c).
  rewrite <- !(fmul_assoc R K Rth a Nf _ c).
  intros i j _ _. unfold fadd. ring.
Qed.
Lemma regram_zero_r Nf a c AR AI : feq a c (regram K Nf AR AI (fzero K) (fzero K)) (fzero K).
Proof. unfold regram. rewrite !(fmul_zero_r R K Rth a Nf c). apply (fadd_zero_l R K Rth). Qed.
Lemma ftr_regram Nf a b AR AI BR BI : feq b a (ftr (regram K Nf AR AI BR BI)) (regram K Nf BR BI AR AI).
Proof. intros i j _ _. unfold ftr, regram, fadd, fmul, ftr. f_equal; apply sumn_ext; intros; ring. Qed.

(* ------------------------------------------------------------------ plscf_null *)
Section Null.
Variables (Nf Nch Nref n:nat).
Local Notation p := (S n). Local Notation D := (S n * Nch)%nat.
Variables (XR XI:fmat R) (YR YI:nat -> fmat R).
Let Rp := regram K Nf XR XI XR XI.
Let Sp := fun o => regram K Nf XR XI (YR o) (YI o).
Let Tp := fun o => regram K Nf (YR o) (YI o) (YR o) (YI o).
Let ER := fun (alpha:fmat R) (beta:nat -> fmat R) o => fadd K (fmul K p XR (beta o)) (fmul K D (YR o) alpha).
Let EI := fun (alpha:fmat R) (beta:nat -> fmat R) o => fadd K (fmul K p XI (beta o)) (fmul K D (YI o) alpha).

(* the stationarity residuals factor through the per-line equation error *)
Lemma resid1_factor c alpha beta o :
  feq p c (regram K Nf XR XI (ER alpha beta o) (EI alpha beta o)) (resid1 K Nch n Rp (Sp o) alpha (beta o)).
Proof. unfold ER, EI, resid1. apply (regram_lin Nf p p D c). Qed.
Lemma resid2_factor c alpha beta :
  feq D c (fsum K Nref (fun o => regram K Nf (YR o) (YI o) (ER alpha beta o) (EI alpha beta o)))
          (resid2 K Nch Nref n Sp Tp alpha beta).
Proof.
  unfold resid2. apply fsum_ext; intros o Ho. unfold ER, EI.
  rewrite (regram_lin Nf D p D c). apply (fadd_proper R K D c); [|reflexivity].
  apply (fmul_proper R K D p c); [|reflexivity]. symmetry. apply ftr_regram.
Qed.

(* exact fit on every line => both blocks of the normal equations vanish *)
Theorem null_normal c alpha beta :
  (forall o, (o < Nref)%nat -> feq Nf c (ER alpha beta o) (fzero K) /\ feq Nf c (EI alpha beta o) (fzero K)) ->
  (forall o, (o < Nref)%nat -> feq p c (resid1 K Nch n Rp (Sp o) alpha (beta o)) (fzero K)) /\ feq D c (resid2 K Nch Nref n Sp Tp alpha beta) (fzero K).
Proof.
  intros H. split.
  - intros o Ho. destruct (H o Ho) as [H1 H2]. rewrite <- (resid1_factor c). rewrite H1, H2. apply regram_zero_r.
  - rewrite <- (resid2_factor c).
    rewrite (fsum_ext D c Nref _ (fun _ => fzero K)); [apply fsum_zero|].
    intros o Ho. destruct (H o Ho) as [H1 H2]. rewrite H1, H2. apply regram_zero_r.
Qed.

(* elimination of beta: with Ro invertible, M alpha is the second residual *)
Variable Rinv : fmat R.
Hypothesis HRl : feq p p (fmul K p Rinv Rp) (fid K).
Hypothesis HRr : feq p p (fmul K p Rp Rinv) (fid K).

Lemma Z_is_RinvS (Rm:fmat R) (Sm Zm:nat -> fmat R) o :
  feq p p Rm Rp -> feq p D (Sm o) (Sp o) -> feq p D (fmul K p Rm (Zm o)) (Sm o) -> feq p D (Zm o) (fmul K p Rinv (Sp o)).
Proof.
  intros HRm HSm HZ. apply (solve_unique p D Rp Rinv (Zm o) (fmul K p Rinv (Sp o)) (Sp o) HRl).
  - rewrite <- HRm, HZ. exact HSm.
  - rewrite <- (fmul_assoc R K Rth p p p D). rewrite HRr. apply (fmul_id_l R K Rth).
Qed.

Definition Mp : fmat R := plscf_M K Nref n Sp Tp (fun o => fmul K p Rinv (Sp o)).

Theorem M_alpha_resid2 c alpha beta :
  (forall o, (o < Nref)%nat -> feq p c (resid1 K Nch n Rp (Sp o) alpha (beta o)) (fzero K)) ->
  feq D c (fmul K D Mp alpha) (resid2 K Nch Nref n Sp Tp alpha beta).
Proof.
  intros H1. unfold Mp, plscf_M, resid2. rewrite (fmul_fsum_l D D c Nref).
  apply fsum_ext; intros o Ho.
  rewrite (fmul_sub_l R K Rth D D c).
  assert (Hb: feq p c (fmul K D (fmul K p Rinv (Sp o)) alpha) (fneg K (beta o))).
  { specialize (H1 o Ho). unfold resid1 in H1.
    rewrite (fmul_assoc R K Rth p p D c).
    assert (E: feq p c (fmul K D (Sp o) alpha) (fneg K (fmul K p Rp (beta o)))) by (apply fadd_neg_zero; exact H1).
    rewrite E. rewrite (fmul_neg_r p p c). rewrite <- (fmul_assoc R K Rth p p p c). rewrite HRl.
    rewrite (fmul_id_l R K Rth p c). reflexivity. }
  rewrite (fmul_assoc R K Rth D p D c). rewrite Hb. rewrite (fmul_neg_r D p c).
  intros i j _ _. unfold fsub, fadd, fneg. ring.
Qed.

Theorem null_reduced c alpha beta :
  (forall o, (o < Nref)%nat -> feq Nf c (ER alpha beta o) (fzero K) /\ feq Nf c (EI alpha beta o) (fzero K)) ->
  feq D c (fmul K D Mp alpha) (fzero K).
Proof.
  intros H. destruct (null_normal c alpha beta H) as [H1 H2]. rewrite (M_alpha_resid2 c alpha beta H1). exact H2.
Qed.
End Null.

(* ------------------------------------------------------------------ exact right matrix fraction => zero equation error *)
Lemma cre_csum n (f:nat -> C R) : cre (csum K n f) = sumn K n (fun i => cre (f i)).
Proof. unfold csum. induction n; cbn [sumn]; [reflexivity|]. cbn [oadd COps cadd cre fst]. rewrite <- IHn. reflexivity. Qed.
Lemma cim_csum n (f:nat -> C R) : cim (csum K n f) = sumn K n (fun i => cim (f i)).
Proof. unfold csum. induction n; cbn [sumn]; [reflexivity|]. cbn [oadd COps cadd cim snd]. rewrite <- IHn. reflexivity. Qed.
Lemma cre_cmul_ofR z a : cre (cmul K z (cofR K a)) = cre z * a.
Proof. destruct z as [x y]. cbn. ring. Qed.
Lemma cim_cmul_ofR z a : cim (cmul K z (cofR K a)) = cim z * a.
Proof. destruct z as [x y]. cbn. ring. Qed.
Lemma c_term (x h a:C R) : cmul K (copp K (cmul K x h)) a = copp K (cmul K h (cmul K x a)).
Proof. destruct x, h, a. apply (c_eq R); cbn; ring. Qed.

Section Rmfd.
Variables (Nf Nch n:nat) (X:cmat R) (H:nat -> nat -> C R) (A:nat -> fmat R) (Bo:fmat R).
(* A(x_k)[c',c] = sum_i X[k,i] A_i[c',c] ; B_o(x_k)[c] = sum_i X[k,i] B_i[o,c] *)
Definition Apoly (k c' c:nat) : C R := csum K (S n) (fun i => cmul K (X k i) (cofR K (A i c' c))).
Definition Bpoly (k c:nat) : C R := csum K (S n) (fun i => cmul K (X k i) (cofR K (Bo i c))).
Definition rmfd_fit : Prop := forall k c, (k < Nf)%nat -> (c < Nch)%nat ->
  csum K Nch (fun c' => cmul K (H c' k) (Apoly k c' c)) = Bpoly k c.

Lemma Y_alpha_complex k c :
  csum K (S n * Nch) (fun J => cmul K (kronY K Nch X H k J) (cofR K (alpha_of Nch A J c)))
  = copp K (csum K Nch (fun c' => cmul K (H c' k) (Apoly k c' c))).
Proof.
  unfold csum. rewrite (sumn_blocks (C R) (COps K) (CRth R K Rth) Nch (S n)).
  transitivity (sumn (COps K) (S n) (fun i => sumn (COps K) Nch (fun c' =>
                 copp K (cmul K (H c' k) (cmul K (X k i) (cofR K (A i c' c))))))).
  { apply sumn_ext; intros i Hi. apply sumn_ext; intros c' Hc'.
    unfold kronY, alpha_of. destruct (blk_idx5 i Nch c' Hc') as [-> ->]. apply c_term. }
  rewrite (sumn_swap (C R) (COps K) (CRth R K Rth)).
  change (copp K) with (oopp (COps K)).
  rewrite <- (sumn_opp (C R) (COps K) (CRth R K Rth)). apply sumn_ext; intros c' Hc'.
  unfold Apoly, csum. change (cmul K (H c' k)) with (omul (COps K) (H c' k)).
  rewrite <- (sumn_scal (C R) (COps K) (CRth R K Rth)).
  rewrite <- (sumn_opp (C R) (COps K) (CRth R K Rth)). reflexivity.
Qed.

Theorem rmfd_eps_zero : rmfd_fit ->
  feq Nf Nch (fadd K (fmul K (S n) (fre X) Bo) (fmul K (S n * Nch) (fre (kronY K Nch X H)) (alpha_of Nch A))) (fzero K) /\
  feq Nf Nch (fadd K (fmul K (S n) (fim X) Bo) (fmul K (S n * Nch) (fim (kronY K Nch X H)) (alpha_of Nch A))) (fzero K).
Proof.
  intros Hfit. split; intros k c Hk Hc; unfold fadd, fzero, fmul, fre, fim.
  - rewrite (sumn_ext R K (S n) _ (fun i => cre (cmul K (X k i) (cofR K (Bo i c))))) by (intros; symmetry; apply cre_cmul_ofR).
    rewrite (sumn_ext R K (S n * Nch) _ (fun J => cre (cmul K (kronY K Nch X H k J) (cofR K (alpha_of Nch A J c)))))
      by (intros; symmetry; apply cre_cmul_ofR).
    rewrite <- !cre_csum. rewrite Y_alpha_complex. rewrite (Hfit k c Hk Hc). fold (Bpoly k c).
    destruct (Bpoly k c) as [x y]. cbn. ring.
  - rewrite (sumn_ext R K (S n) _ (fun i => cim (cmul K (X k i) (cofR K (Bo i c))))) by (intros; symmetry; apply cim_cmul_ofR).
    rewrite (sumn_ext R K (S n * Nch) _ (fun J => cim (cmul K (kronY K Nch X H k J) (cofR K (alpha_of Nch A J c)))))
      by (intros; symmetry; apply cim_cmul_ofR).
    rewrite <- !cim_csum. rewrite Y_alpha_complex. rewrite (Hfit k c Hk Hc). fold (Bpoly k c).
    destruct (Bpoly k c) as [x y]. cbn. ring.
Qed.
End Rmfd.

(* ------------------------------------------------------------------ plscf_unique: the constrained solve *)
Section Unique.
Variables (Nch n:nat).
Local Notation D := (S n * Nch)%nat.
Local Notation F := (n * Nch)%nat.

(* rows of the free blocks of M a, split at the constrained block *)
Lemma free_rows_LO c (M a:fmat R) :
  feq F c (fblock Nch 0 (fmul K D M a))
          (fadd K (fmul K Nch (fblock Nch 0 M) (fblock 0 0 a)) (fmul K F (fblock Nch Nch M) (fblock Nch 0 a))).
Proof.
  intros i j _ _. unfold fblock, fmul, fadd. replace D with (Nch + F)%nat by lia.
  rewrite (sumn_split R K Rth). reflexivity.
Qed.
Lemma free_rows_HI c (M a:fmat R) :
  feq F c (fblock 0 0 (fmul K D M a))
          (fadd K (fmul K F (fblock 0 0 M) (fblock 0 0 a)) (fmul K Nch (fblock 0 F M) (fblock F 0 a))).
Proof.
  intros i j _ _. unfold fblock, fmul, fadd. replace D with (F + Nch)%nat by lia.
  rewrite (sumn_split R K Rth). reflexivity.
Qed.

(* "LO": alpha = [I; X] with (-M22) X = M21.  Any a whose free rows of M a vanish satisfies  X a_0 = a_rest. *)
Theorem constrained_LO (M a X W:fmat R) :
  feq F F (fmul K F W (fblock Nch Nch M)) (fid K) ->
  feq F Nch (fmul K F (fneg K (fblock Nch Nch M)) X) (fblock Nch 0 M) ->
  feq F Nch (fblock Nch 0 (fmul K D M a)) (fzero K) ->
  feq D Nch (fmul K Nch (fstack Nch (fid K) X) (fblock 0 0 a)) a.
Proof.
  intros HW HX H0.
  assert (Hrest: feq F Nch (fmul K Nch X (fblock 0 0 a)) (fblock Nch 0 a)).
  { apply (solve_unique F Nch (fblock Nch Nch M) W _ _ (fneg K (fmul K Nch (fblock Nch 0 M) (fblock 0 0 a))) HW).
    - rewrite <- (fmul_assoc R K Rth F F Nch Nch).
      assert (E: feq F Nch (fmul K F (fblock Nch Nch M) X) (fneg K (fblock Nch 0 M))).
      { rewrite <- HX. rewrite (fmul_neg_l F F Nch). intros i j _ _. unfold fneg. ring. }
      rewrite E. apply (fmul_neg_l F Nch Nch).
    - rewrite (free_rows_LO Nch M a) in H0. apply fadd_neg_zero. exact H0. }
  intros i j Hi Hj. unfold fmul, fstack. destruct (Nat.ltb_spec i Nch) as [Hlt|Hge].
  - pose proof (fmul_id_l R K Rth Nch Nch (fblock 0 0 a) i j Hlt Hj) as E. unfold fmul in E |- *. rewrite E. reflexivity.
  - assert (Hi': (i - Nch < F)%nat) by lia. pose proof (Hrest (i-Nch)%nat j Hi' Hj) as E.
    unfold fmul in E |- *. rewrite E. unfold fblock. f_equal; lia.
Qed.

(* "HI": alpha = [X; I] with (-M11) X = M12.  Any a whose free rows of M a vanish satisfies  X a_n = a_low. *)
Theorem constrained_HI (M a X W:fmat R) :
  feq F F (fmul K F W (fblock 0 0 M)) (fid K) ->
  feq F Nch (fmul K F (fneg K (fblock 0 0 M)) X) (fblock 0 F M) ->
  feq F Nch (fblock 0 0 (fmul K D M a)) (fzero K) ->
  feq D Nch (fmul K Nch (fstack F X (fid K)) (fblock F 0 a)) a.
Proof.
  intros HW HX H0.
  assert (Hrest: feq F Nch (fmul K Nch X (fblock F 0 a)) (fblock 0 0 a)).
  { apply (solve_unique F Nch (fblock 0 0 M) W _ _ (fneg K (fmul K Nch (fblock 0 F M) (fblock F 0 a))) HW).
    - rewrite <- (fmul_assoc R K Rth F F Nch Nch).
      assert (E: feq F Nch (fmul K F (fblock 0 0 M) X) (fneg K (fblock 0 F M))).
      { rewrite <- HX. rewrite (fmul_neg_l F F Nch). intros i j _ _. unfold fneg. ring. }
      rewrite E. apply (fmul_neg_l F Nch Nch).
    - rewrite (free_rows_HI Nch M a) in H0. apply fadd_neg_zero. rewrite (fadd_comm F Nch). exact H0. }
  intros i j Hi Hj. unfold fmul, fstack. destruct (Nat.ltb_spec i F) as [Hlt|Hge].
  - pose proof (Hrest i j Hlt Hj) as E. unfold fmul in E |- *. rewrite E. reflexivity.
  - assert (Hi': (i - F < Nch)%nat) by lia.
    pose proof (fmul_id_l R K Rth Nch Nch (fblock F 0 a) (i-F)%nat j Hi' Hj) as E. unfold fmul in E |- *. rewrite E.
    unfold fblock. f_equal; lia.
Qed.
End Unique.

(* ------------------------------------------------------------------ the executable model of one pLSCF order *)
Lemma fblock_feq m n r0 q0 m' n' (A B:fmat R) :
  (r0 + m' <= m)%nat -> (q0 + n' <= n)%nat -> feq m n A B -> feq m' n' (fblock r0 q0 A) (fblock r0 q0 B).
Proof. intros Hr Hq H i j Hi Hj. unfold fblock. apply H; lia. Qed.
Lemma plscf_M_ext Nref n D (Sm Tm Zm Sm' Tm' Zm':nat -> fmat R) :
  (forall o, (o < Nref)%nat -> feq (S n) D (Sm o) (Sm' o) /\ feq D D (Tm o) (Tm' o) /\ feq (S n) D (Zm o) (Zm' o)) ->
  feq D D (plscf_M K Nref n Sm Tm Zm) (plscf_M K Nref n Sm' Tm' Zm').
Proof.
  intros H. unfold plscf_M. apply fsum_ext; intros o Ho. destruct (H o Ho) as (H1 & H2 & H3).
  apply (fsub_proper R K D D); [exact H2|]. apply (fmul_proper R K D (S n) D); [|exact H3].
  apply (ftr_proper R (S n) D). exact H1.
Qed.

Section ModelLevel.
Variable solve : solver R.
(* contract of np.linalg.solve: whatever it returns solves the system it was given *)
Hypothesis Hsolve : forall d c A B X, solve d c A B = POk X -> feq d c (fmul K d A X) B.
Variables (Nf Nch Nref n:nat) (X:cmat R) (Sy:nat -> nat -> nat -> C R).
Local Notation p := (S n). Local Notation D := (S n * Nch)%nat. Local Notation F := (n * Nch)%nat.
(* the Gram matrices as mathematical objects *)
Definition gYR (o:nat) : fmat R := fre (kronY K Nch X (Sy o)).
Definition gYI (o:nat) : fmat R := fim (kronY K Nch X (Sy o)).
Definition gR : fmat R := regram K Nf (fre X) (fim X) (fre X) (fim X).
Definition gS (o:nat) : fmat R := regram K Nf (fre X) (fim X) (gYR o) (gYI o).
Definition gT (o:nat) : fmat R := regram K Nf (gYR o) (gYI o) (gYR o) (gYI o).
Definition gM (Rinv:fmat R) : fmat R := Mp Nf Nref n (fre X) (fim X) gYR gYI Rinv.    (* sum_o (T_o - S_o^T R^-1 S_o) *)

Lemma plscf_basis_spec XR XI YR YI : plscf_basis K Nf Nch Nref n X Sy = (XR, XI, YR, YI) ->
  feq Nf p XR (fre X) /\ feq Nf p XI (fim X) /\
  forall o, (o < Nref)%nat -> feq Nf D (YR o) (gYR o) /\ feq Nf D (YI o) (gYI o).
Proof.
  unfold plscf_basis. cbv beta iota zeta. intros E. injection E as <- <- <- <-.
  assert (HY: forall o k J, (o < Nref)%nat -> (k < Nf)%nat -> (J < D)%nat ->
            cmemo_fam K Nref Nf D (fun o0 => kronY K Nch (cmemo K Nf p X) (Sy o0)) o k J = kronY K Nch X (Sy o) k J).
  { intros o k J Ho Hk HJ. rewrite cmemo_fam_eq by assumption. unfold kronY.
    assert (HNch: (0 < Nch)%nat) by (destruct Nch; [lia|lia]).
    rewrite cmemo_eq; [reflexivity|assumption|apply idx_div_lt; assumption]. }
  split; [|split].
  - intros k i Hk Hi. unfold fre. rewrite cmemo_eq by assumption. reflexivity.
  - intros k i Hk Hi. unfold fim. rewrite cmemo_eq by assumption. reflexivity.
  - intros o Ho. split; intros k J Hk HJ; unfold gYR, gYI, fre, fim; rewrite HY by assumption; reflexivity.
Qed.

Lemma plscf_grams_spec Rm Sm Tm : plscf_grams K Nf Nch Nref n X Sy = (Rm, Sm, Tm) ->
  feq p p Rm gR /\ forall o, (o < Nref)%nat -> feq p D (Sm o) (gS o) /\ feq D D (Tm o) (gT o).
Proof.
  unfold plscf_grams. destruct (plscf_basis K Nf Nch Nref n X Sy) as [[[XR XI] YR] YI] eqn:EB.
  destruct (plscf_basis_spec XR XI YR YI EB) as (HXR & HXI & HY).
  intros E. injection E as <- <- <-. split.
  - rewrite (memo_feq p p). unfold gR. apply (regram_proper Nf p p); assumption.
  - intros o Ho. destruct (HY o Ho) as [HYR HYI]. split.
    + rewrite (memo_fam_feq Nref p D _ o Ho). unfold gS. apply (regram_proper Nf p D); assumption.
    + rewrite (memo_fam_feq Nref D D _ o Ho). unfold gT. apply (regram_proper Nf D D); assumption.
Qed.

(* exact data: real coefficient matrices A_i (Nch x Nch), B_i (Nref x Nch) with Sy_o(x_k) A(x_k) = B_o(x_k) on every line *)
Variables (A B:nat -> fmat R).
Hypothesis Hfit : forall o, (o < Nref)%nat -> rmfd_fit Nf Nch n X (Sy o) A (beta_of B o).
Variable Rinv : fmat R.
Hypothesis HRl : feq p p (fmul K p Rinv gR) (fid K).
Hypothesis HRr : feq p p (fmul K p gR Rinv) (fid K).

Lemma true_eps_zero o : (o < Nref)%nat ->
  feq Nf Nch (fadd K (fmul K p (fre X) (beta_of B o)) (fmul K D (gYR o) (alpha_of Nch A))) (fzero K) /\
  feq Nf Nch (fadd K (fmul K p (fim X) (beta_of B o)) (fmul K D (gYI o) (alpha_of Nch A))) (fzero K).
Proof. intros Ho. apply (rmfd_eps_zero Nf Nch n X (Sy o) A (beta_of B o) (Hfit o Ho)). Qed.

(* plscf_null at the level of the model's matrices *)
Theorem plscf_null_model :
  (forall o, (o < Nref)%nat ->
     feq p Nch (fadd K (fmul K p gR (beta_of B o)) (fmul K D (gS o) (alpha_of Nch A))) (fzero K)) /\
  feq D Nch (fsum K Nref (fun o => fadd K (fmul K p (ftr (gS o)) (beta_of B o)) (fmul K D (gT o) (alpha_of Nch A)))) (fzero K) /\
  feq D Nch (fmul K D (gM Rinv) (alpha_of Nch A)) (fzero K).
Proof.
  destruct (null_normal Nf Nch Nref n (fre X) (fim X) gYR gYI Nch (alpha_of Nch A) (beta_of B) true_eps_zero) as [H1 H2].
  split; [exact H1|]. split; [exact H2|].
  apply (null_reduced Nf Nch Nref n (fre X) (fim X) gYR gYI Rinv HRl Nch (alpha_of Nch A) (beta_of B) true_eps_zero).
Qed.

(* plscf_unique: what the model returns on exact data *)
Theorem plscf_exact cs W alpha beta :
  plscf_order K solve Nf Nch Nref n cs X Sy = POk (alpha, beta) ->
  feq F F (fmul K F W (fblock (free_off Nch cs) (free_off Nch cs) (gM Rinv))) (fid K) ->
  let Afix := fblock (fixed_off Nch n cs) 0 (alpha_of Nch A) in          (* A_0 ("LO") or A_n ("HI") *)
  feq Nch Nch (fblock (fixed_off Nch n cs) 0 alpha) (fid K) /\
  feq D Nch (fmul K Nch alpha Afix) (alpha_of Nch A) /\
  forall o, (o < Nref)%nat -> feq p Nch (fmul K Nch (beta o) Afix) (beta_of B o).
Proof.
  unfold plscf_order. destruct (plscf_grams K Nf Nch Nref n X Sy) as [[Rm Sm] Tm] eqn:EG.
  destruct (plscf_grams_spec Rm Sm Tm EG) as [HRm HST].
  destruct (plscf_solve K solve Nch Nref n cs Rm Sm Tm) as [[[M al] be]|] eqn:ES; [|discriminate].
  intros E; inversion E; subst alpha beta; clear E. intros HW.
  set (Afix := fblock (fixed_off Nch n cs) 0 (alpha_of Nch A)).
  unfold plscf_solve in ES.
  destruct (solve_fam K Nref (fun o => solve p D Rm (Sm o))) as [Z|] eqn:EZ; cbn [pbind] in ES; [|discriminate].
  destruct (plscf_constrained K solve Nch n cs (memo K D D (plscf_M K Nref n Sm Tm Z))) as [al0|] eqn:EC; cbn [pbind] in ES; [|discriminate].
  destruct (solve_fam K Nref (fun o => solve p Nch (fneg K Rm) (fmul K D (Sm o) (memo K D Nch al0)))) as [be0|] eqn:EBt;
    cbn [pbind] in ES; [|discriminate].
  injection ES as <- <- <-.
  destruct plscf_null_model as (N1 & _ & N3).
  (* the reduced normal matrix of the model is gM *)
  assert (HM: feq D D (memo K D D (plscf_M K Nref n Sm Tm Z)) (gM Rinv)).
  { rewrite (memo_feq D D). unfold gM, Mp. apply plscf_M_ext; intros o Ho.
    destruct (HST o Ho) as [HS HT]. split; [exact HS|]. split; [exact HT|].
    apply (Z_is_RinvS Nf Nch n (fre X) (fim X) gYR gYI Rinv HRl HRr Rm Sm Z o HRm HS).
    apply Hsolve. apply (solve_fam_spec Nref _ Z EZ o Ho). }
  set (M := memo K D D (plscf_M K Nref n Sm Tm Z)) in *.
  assert (HMa: feq D Nch (fmul K D M (alpha_of Nch A)) (fzero K)) by (rewrite HM; exact N3).
  (* the constrained solve *)
  assert (Hal0: feq Nch Nch (fblock (fixed_off Nch n cs) 0 al0) (fid K) /\ feq D Nch (fmul K Nch al0 Afix) (alpha_of Nch A)).
  { unfold plscf_constrained in EC. destruct cs; cbn [free_off fixed_off] in *.
    - destruct (solve F Nch (fneg K (fblock Nch Nch M)) (fblock Nch 0 M)) as [Xs|] eqn:EX; cbn [pbind] in EC; [|discriminate].
      injection EC as <-. split.
      + intros i j Hi Hj. unfold fblock, fstack. destruct (Nat.ltb_spec (0+i) Nch) as [_|]; [reflexivity|lia].
      + apply (constrained_LO Nch n M (alpha_of Nch A) Xs W).
        * rewrite (fblock_feq D D Nch Nch F F M (gM Rinv)) by (lia || exact HM). exact HW.
        * apply Hsolve. exact EX.
        * rewrite (fblock_feq D Nch Nch 0 F Nch _ (fzero K)) by (lia || exact HMa). intros i j _ _. reflexivity.
    - destruct (solve F Nch (fneg K (fblock 0 0 M)) (fblock 0 F M)) as [Xs|] eqn:EX; cbn [pbind] in EC; [|discriminate].
      injection EC as <-. split.
      + intros i j Hi Hj. unfold fblock, fstack. destruct (Nat.ltb_spec (F+i) F) as [|_]; [lia|].
        replace (F+i-F)%nat with i by lia. reflexivity.
      + apply (constrained_HI Nch n M (alpha_of Nch A) Xs W).
        * rewrite (fblock_feq D D 0 0 F F M (gM Rinv)) by (lia || exact HM). exact HW.
        * apply Hsolve. exact EX.
        * rewrite (fblock_feq D Nch 0 0 F Nch _ (fzero K)) by (lia || exact HMa). intros i j _ _. reflexivity. }
  destruct Hal0 as [Hfix Hal].
  assert (Hmemo: feq D Nch (memo K D Nch al0) al0) by apply memo_feq.
  split; [|split].
  - assert (Hoff: (fixed_off Nch n cs + Nch <= D)%nat) by (destruct cs; cbn [fixed_off]; lia).
    rewrite (fblock_feq D Nch (fixed_off Nch n cs) 0 Nch Nch _ al0) by (lia || exact Hmemo). exact Hfix.
  - rewrite Hmemo. exact Hal.
  - intros o Ho. destruct (HST o Ho) as [HS _].
    pose proof (Hsolve _ _ _ _ _ (solve_fam_spec Nref _ be0 EBt o Ho)) as Hb.
    apply (solve_unique p Nch gR Rinv _ _ (fneg K (fmul K D (gS o) (alpha_of Nch A))) HRl).
    + rewrite <- (fmul_assoc R K Rth p p Nch Nch).
      assert (E: feq p Nch (fmul K p gR (be0 o)) (fneg K (fmul K D (gS o) al0))).
      { rewrite <- HRm, <- HS, <- Hmemo, <- Hb. rewrite (fmul_neg_l p p Nch). intros i j _ _. unfold fneg. ring. }
      rewrite E. rewrite (fmul_neg_l p Nch Nch). rewrite (fmul_assoc R K Rth p D Nch Nch). rewrite Hal. reflexivity.
    + apply fadd_neg_zero. rewrite (fadd_comm p Nch). exact (N1 o Ho).
Qed.

(* the division-free residual model equals the stationarity residuals on the mathematical Gram matrices *)
Lemma resid_fast_spec alpha beta E1 E2 : plscf_resid_fast K Nf Nch Nref n X Sy alpha beta = (E1, E2) ->
  (forall o, (o < Nref)%nat -> feq p Nch (E1 o) (resid1 K Nch n gR (gS o) alpha (beta o))) /\
  feq D Nch E2 (resid2 K Nch Nref n gS gT alpha beta).
Proof.
  unfold plscf_resid_fast. destruct (plscf_basis K Nf Nch Nref n X Sy) as [[[XR XI] YR] YI] eqn:EB.
  destruct (plscf_basis_spec XR XI YR YI EB) as (HXR & HXI & HY).
  intros E. injection E as <- <-.
  assert (HE: forall o, (o < Nref)%nat ->
     feq Nf Nch (memo_fam K Nref Nf Nch (fun o0 => fadd K (fmul K p XR (beta o0)) (fmul K D (YR o0) alpha)) o)
                (fadd K (fmul K p (fre X) (beta o)) (fmul K D (gYR o) alpha)) /\
     feq Nf Nch (memo_fam K Nref Nf Nch (fun o0 => fadd K (fmul K p XI (beta o0)) (fmul K D (YI o0) alpha)) o)
                (fadd K (fmul K p (fim X) (beta o)) (fmul K D (gYI o) alpha))).
  { intros o Ho. destruct (HY o Ho) as [HYR HYI]. split; rewrite (memo_fam_feq Nref Nf Nch _ o Ho).
    - rewrite HXR, HYR. reflexivity.
    - rewrite HXI, HYI. reflexivity. }
  split.
  - intros o Ho. destruct (HE o Ho) as [H1 H2].
    rewrite <- (resid1_factor Nf Nch n (fre X) (fim X) gYR gYI Nch alpha beta o).
    apply (regram_proper Nf p Nch); assumption.
  - rewrite <- (resid2_factor Nf Nch Nref n (fre X) (fim X) gYR gYI Nch alpha beta).
    apply fsum_ext; intros o Ho. destruct (HE o Ho) as [H1 H2]. destruct (HY o Ho) as [HYR HYI].
    apply (regram_proper Nf D Nch); assumption.
Qed.

(* coefficients that pass the residual check on exact data are the true ones in the library's normalisation *)
Theorem resid_zero_exact cs W alpha beta E1 E2 :
  plscf_resid_fast K Nf Nch Nref n X Sy alpha beta = (E1, E2) ->
  (forall o, (o < Nref)%nat -> feq p Nch (E1 o) (fzero K)) ->
  feq F Nch (fblock (free_off Nch cs) 0 E2) (fzero K) ->
  feq Nch Nch (fblock (fixed_off Nch n cs) 0 alpha) (fid K) ->
  feq F F (fmul K F W (fblock (free_off Nch cs) (free_off Nch cs) (gM Rinv))) (fid K) ->
  let Afix := fblock (fixed_off Nch n cs) 0 (alpha_of Nch A) in
  feq D Nch (fmul K Nch alpha Afix) (alpha_of Nch A) /\
  forall o, (o < Nref)%nat -> feq p Nch (fmul K Nch (beta o) Afix) (beta_of B o).
Proof.
  intros ER HE1 HE2 Hfix HW Afix.
  destruct (resid_fast_spec alpha beta E1 E2 ER) as [S1 S2].
  destruct plscf_null_model as (N1 & _ & N3).
  assert (R1: forall o, (o < Nref)%nat -> feq p Nch (resid1 K Nch n gR (gS o) alpha (beta o)) (fzero K)).
  { intros o Ho. rewrite <- (S1 o Ho). apply HE1; assumption. }
  pose proof (M_alpha_resid2 Nf Nch Nref n (fre X) (fim X) gYR gYI Rinv HRl Nch alpha beta R1) as HMa.
  fold (gM Rinv) in HMa. fold gS gT in HMa.
  assert (Hfree: feq F Nch (fblock (free_off Nch cs) 0 (fmul K D (gM Rinv) alpha)) (fzero K)).
  { assert (Hoff: (free_off Nch cs + F <= D)%nat) by (destruct cs; cbn [free_off]; lia).
    rewrite (fblock_feq D Nch (free_off Nch cs) 0 F Nch _ E2); [exact HE2|exact Hoff|lia|].
    rewrite HMa. symmetry. exact S2. }
  assert (Hal: feq D Nch (fmul K Nch alpha Afix) (alpha_of Nch A)).
  { unfold Afix. destruct cs; cbn [free_off fixed_off] in *.
    - set (Xs := fblock Nch 0 alpha).
      assert (Hst: feq D Nch alpha (fstack Nch (fid K) Xs)).
      { intros i j Hi Hj. unfold fstack, Xs. destruct (Nat.ltb_spec i Nch) as [Hlt|Hge].
        - rewrite <- (Hfix i j Hlt Hj). reflexivity.
        - unfold fblock. f_equal; lia. }
      rewrite Hst. apply (constrained_LO Nch n (gM Rinv) (alpha_of Nch A) Xs W HW).
      + rewrite (free_rows_LO Nch n Nch (gM Rinv) alpha) in Hfree.
        rewrite Hfix in Hfree. rewrite (fmul_id_r R K Rth F Nch) in Hfree.
        rewrite (fmul_neg_l F F Nch). fold Xs in Hfree.
        intros i j Hi Hj. specialize (Hfree i j Hi Hj). unfold fadd, fzero, fneg in *.
        transitivity (fblock Nch 0 (gM Rinv) i j - (fblock Nch 0 (gM Rinv) i j + fmul K F (fblock Nch Nch (gM Rinv)) Xs i j)); [ring|].
        rewrite Hfree. ring.
      + rewrite (fblock_feq D Nch Nch 0 F Nch _ (fzero K)) by (lia || exact N3). intros i j _ _. reflexivity.
    - set (Xs := fblock 0 0 alpha).
      assert (Hst: feq D Nch alpha (fstack F Xs (fid K))).
      { intros i j Hi Hj. unfold fstack, Xs. destruct (Nat.ltb_spec i F) as [Hlt|Hge].
        - reflexivity.
        - assert (Hi': (i - F < Nch)%nat) by lia. rewrite <- (Hfix (i-F)%nat j Hi' Hj). unfold fblock. f_equal; lia. }
      rewrite Hst. apply (constrained_HI Nch n (gM Rinv) (alpha_of Nch A) Xs W HW).
      + rewrite (free_rows_HI Nch n Nch (gM Rinv) alpha) in Hfree.
        rewrite Hfix in Hfree. rewrite (fmul_id_r R K Rth F Nch) in Hfree.
        rewrite (fmul_neg_l F F Nch). fold Xs in Hfree.
        intros i j Hi Hj. specialize (Hfree i j Hi Hj). unfold fadd, fzero, fneg in *.
        transitivity (fblock 0 F (gM Rinv) i j - (fmul K F (fblock 0 0 (gM Rinv)) Xs i j + fblock 0 F (gM Rinv) i j)); [ring|].
        rewrite Hfree. ring.
      + rewrite (fblock_feq D Nch 0 0 F Nch _ (fzero K)) by (lia || exact N3). intros i j _ _. reflexivity. }
  split; [exact Hal|].
  intros o Ho.
  apply (solve_unique p Nch gR Rinv _ _ (fneg K (fmul K D (gS o) (alpha_of Nch A))) HRl).
  - rewrite <- (fmul_assoc R K Rth p p Nch Nch).
    assert (E: feq p Nch (fmul K p gR (beta o)) (fneg K (fmul K D (gS o) alpha))).
    { pose proof (R1 o Ho) as H1. unfold resid1 in H1. intros i j Hi Hj. specialize (H1 i j Hi Hj).
      unfold fadd, fzero, fneg in *.
      transitivity ((fmul K p gR (beta o) i j + fmul K D (gS o) alpha i j) - fmul K D (gS o) alpha i j); [ring|]. rewrite H1. ring. }
    rewrite E. rewrite (fmul_neg_l p Nch Nch). rewrite (fmul_assoc R K Rth p D Nch Nch). rewrite Hal. reflexivity.
  - apply fadd_neg_zero. rewrite (fadd_comm p Nch). exact (N1 o Ho).
Qed.
End ModelLevel.

(* ------------------------------------------------------------------ poles_table_shape *)
Section Poles.
Variables (gt0:R -> bool) (ltb:R -> R -> bool) (eqz:R -> bool).
Hypothesis eqz_spec : forall x, eqz x = true <-> x = 0.
Variables (Nref:nat) (shift:R).
Local Notation lamc := (lam_cell K gt0 shift).
Local Notation fnc := (fn_cell K gt0 shift).
Local Notation xic := (xi_cell K gt0 eqz shift).
Local Notation phic := (phi_cell K gt0 ltb eqz Nref).

(* a cell is kept iff its continuous-time eigenvalue is a number whose real part is not positive *)
Definition kept (cl:cell R) : Prop := exists l, cell_L cl = Some l /\ gt0 (cre l) = false.

Lemma lam_kept cl : lamc cl <> None <-> kept cl.
Proof.
  unfold lam_cell, kept. destruct (cell_L cl) as [l|].
  - destruct (gt0 (cre l)) eqn:E; split.
    + intros H; congruence.
    + intros (l' & E1 & E2). injection E1 as <-. congruence.
    + intros _. exists l. split; [reflexivity|assumption].
    + intros _. discriminate.
  - split; [congruence|]. intros (l' & E1 & _). discriminate.
Qed.
Lemma lam_value cl l : cell_L cl = Some l -> gt0 (cre l) = false -> lamc cl = Some (cadd K l (cofR K shift)).
Proof. intros E1 E2. unfold lam_cell. rewrite E1, E2. reflexivity. Qed.
Lemma fn_kept cl : fnc cl <> None <-> kept cl.
Proof. rewrite <- lam_kept. unfold fn_cell. destruct (lamc cl); cbn [option_map]; split; congruence. Qed.
Lemma fn_value cl l : lamc cl = Some l -> fnc cl = Some (cnorm2 K l).
Proof. intros E. unfold fn_cell. rewrite E. reflexivity. Qed.
Lemma xi_kept cl : xic cl <> None <-> exists l, lamc cl = Some l /\ cnorm2 K l <> 0.
Proof.
  unfold xi_cell. destruct (lamc cl) as [l|].
  - destruct (eqz (cnorm2 K l)) eqn:E; split.
    + congruence.
    + intros (l' & E1 & E2). injection E1 as <-. apply eqz_spec in E. contradiction.
    + intros _. exists l. split; [reflexivity|]. intros H0. apply eqz_spec in H0. congruence.
    + intros _. discriminate.
  - split; [congruence|]. intros (l' & E1 & _). discriminate.
Qed.
Lemma xi_value cl l : lamc cl = Some l -> cnorm2 K l <> 0 -> xic cl = Some (- cre l, cnorm2 K l).
Proof.
  intros E Hn. unfold xi_cell. rewrite E. destruct (eqz (cnorm2 K l)) eqn:E0; [|reflexivity].
  apply eqz_spec in E0. contradiction.
Qed.
Lemma blanked_kept cl : cell_L cl <> None -> (blanked gt0 cl = false <-> kept cl).
Proof.
  unfold blanked, kept. destruct (cell_L cl) as [l|]; [intros _|congruence]. split.
  - intros E. exists l. split; [reflexivity|assumption].
  - intros (l' & E1 & E2). injection E1 as <-. assumption.
Qed.
Lemma phi_blank N Cm cl : blanked gt0 cl = true -> phic N Cm cl = None.
Proof. intros E. unfold phi_cell. rewrite E. reflexivity. Qed.

Lemma nth_all_c0 (v:list (C R)) k : (forall x, In x v -> x = c0 K) -> nth k v (c0 K) = c0 K.
Proof.
  intros H. destruct (Nat.lt_ge_cases k (length v)) as [Hlt|Hge].
  - apply H. apply nth_In. assumption.
  - apply nth_overflow. assumption.
Qed.
(* a vanishing output vector gives a NaN shape (0/0) *)
Lemma phi_zero N Cm cl : (forall r, (r < Nref)%nat -> cvec_apply K N Cm (cell_q cl) r = c0 K) -> phic N Cm cl = None.
Proof.
  intros H0. unfold phi_cell. destruct (blanked gt0 cl); [reflexivity|]. cbv zeta.
  rewrite nth_all_c0.
  - assert (E: cnorm2 K (c0 K) = 0) by (unfold cnorm2, c0; cbn; ring).
    rewrite E. destruct (eqz 0) eqn:Ez; [reflexivity|].
    assert (eqz 0 = true) by (apply eqz_spec; reflexivity). congruence.
  - intros x Hx. unfold phi_raw in Hx. apply in_map_iff in Hx. destruct Hx as (r & <- & Hr).
    apply in_seq in Hr. apply H0. lia.
Qed.
Lemma phi_some N Cm cl s : phic N Cm cl = Some s ->
  blanked gt0 cl = false /\
  exists d, d = nth (argmax ltb (map (cnorm2 K) (phi_raw K Nref N Cm cl))) (phi_raw K Nref N Cm cl) (c0 K) /\
            cnorm2 K d <> 0 /\ s = (phi_raw K Nref N Cm cl, d).
Proof.
  unfold phi_cell. destruct (blanked gt0 cl); [discriminate|]. cbv zeta.
  destruct (eqz (cnorm2 K (nth _ _ _))) eqn:E; [discriminate|]. intros H; injection H as <-.
  split; [reflexivity|]. eexists. split; [reflexivity|]. split; [|reflexivity].
  intros H0. apply eqz_spec in H0. congruence.
Qed.

(* ---- padding ---- *)
Lemma nth_nil_none {X:Type} r : nth r (@nil (option X)) None = None.
Proof. destruct r; reflexivity. Qed.
Lemma pad_get {X:Type} rows (cols:list (list (option X))) r k : (r < rows)%nat -> (k < length cols)%nat ->
  tget (pad rows cols) r k = nth r (nth k cols []) None.
Proof.
  intros Hr Hk. unfold tget, pad. rewrite nth_map_seq by assumption.
  pose proof (map_nth (fun col:list (option X) => nth r col None) cols [] k) as E. cbv beta in E.
  rewrite nth_indep with (d' := nth r (@nil (option X)) None) by (rewrite map_length; assumption).
  exact E.
Qed.
Lemma pad_rows {X:Type} rows (cols:list (list (option X))) : length (pad rows cols) = rows.
Proof. unfold pad. rewrite map_length, seq_length. reflexivity. Qed.
Lemma pad_cols {X:Type} rows (cols:list (list (option X))) r : (r < rows)%nat -> length (nth r (pad rows cols) []) = length cols.
Proof. intros Hr. unfold pad. rewrite nth_map_seq by assumption. apply map_length. Qed.

Lemma maxlen_char {X:Type} (cols:list (list X)) L :
  (forall col, In col cols -> (length col <= L)%nat) -> (exists col, In col cols /\ length col = L) -> maxlen cols = L.
Proof.
  unfold maxlen. induction cols as [|c t IH]; intros Hle (col & Hin & Hlen); [destruct Hin|].
  cbn [map fold_right]. destruct Hin as [->|Hin].
  - assert (Ht: (fold_right Nat.max O (map (@length X) t) <= L)%nat).
    { clear IH. induction t as [|c2 t2 IH2]; cbn [map fold_right]; [lia|].
      assert (length c2 <= L)%nat by (apply Hle; right; left; reflexivity).
      assert (fold_right Nat.max O (map (@length X) t2) <= L)%nat.
      { apply IH2. intros c3 H3. apply Hle. destruct H3 as [->|H3]; [left; reflexivity|right; right; assumption]. }
      lia. }
    lia.
  - rewrite IH; [|intros c2 H2; apply Hle; right; assumption|exists col; split; assumption].
    assert (length c <= L)%nat by (apply Hle; left; reflexivity). lia.
Qed.
Lemma last_nth5 {X:Type} (l:list X) d : last l d = nth (length l - 1) l d.
Proof.
  induction l as [|a t IH]; [reflexivity|]. destruct t as [|b t']; [reflexivity|].
  change (last (a::b::t') d) with (last (b::t') d). rewrite IH. cbn [length]. 
  replace (S (S (length t')) - 1)%nat with (S (S (length t') - 1))%nat by lia. reflexivity.
Qed.

Definition dcell : cell R := (c0 K, None, []).
Definition dcol : colin R := (fzero K, []).

Theorem poles_table_shape (Nch ordmax:nat) (cis:list (colin R)) TF TX TP TL :
  length cis = ordmax -> (1 <= ordmax)%nat ->
  (forall k, (k < ordmax)%nat -> length (snd (nth k cis dcol)) = ((k+2)*Nch)%nat) ->
  poles_tables K gt0 ltb eqz Nref shift cis = (TF, TX, TP, TL) ->
  let rows := ((ordmax+1)*Nch)%nat in
  (length TF = rows /\ length TX = rows /\ length TP = rows /\ length TL = rows) /\
  (forall r, (r < rows)%nat -> length (nth r TF []) = ordmax /\ length (nth r TX []) = ordmax /\
                               length (nth r TP []) = ordmax /\ length (nth r TL []) = ordmax) /\
  forall r k, (r < rows)%nat -> (k < ordmax)%nat ->
    let ci := nth k cis dcol in
    ((r < (k+2)*Nch)%nat ->
       let cl := nth r (snd ci) dcell in
       tget TF r k = fnc cl /\ tget TX r k = xic cl /\ tget TL r k = lamc cl /\
       tget TP r k = phic (length (snd ci)) (fst ci) cl) /\
    (((k+2)*Nch <= r)%nat ->
       tget TF r k = None /\ tget TX r k = None /\ tget TL r k = None /\ tget TP r k = None).
Proof.
  intros Hlen Hord Hcols E rows. unfold poles_tables in E. cbv zeta in E.
  assert (Hlast: length (snd (nth (ordmax-1) cis dcol)) = ((ordmax+1)*Nch)%nat).
  { rewrite Hcols by lia. f_equal. lia. }
  assert (Hmax: forall (Y:Type) (f:colin R -> list Y), (forall ci, length (f ci) = length (snd ci)) ->
            maxlen (map f cis) = ((ordmax+1)*Nch)%nat).
  { intros Y f Hf. apply maxlen_char.
    - intros col Hin. apply in_map_iff in Hin. destruct Hin as (ci & <- & Hci).
      destruct (In_nth cis ci dcol Hci) as (k & Hk & <-). rewrite Hf, Hcols by lia. nia.
    - exists (f (nth (ordmax-1) cis dcol)). split.
      + apply in_map. apply nth_In. lia.
      + rewrite Hf. exact Hlast. }
  rewrite (Hmax _ (col_fn K gt0 shift)) in E by (intros ci; unfold col_fn; apply map_length).
  assert (Hphi: length (last (map (col_phi K gt0 ltb eqz Nref) cis) []) = ((ordmax+1)*Nch)%nat).
  { rewrite last_nth5. rewrite map_length, Hlen.
    rewrite nth_indep with (d' := col_phi K gt0 ltb eqz Nref dcol) by (rewrite map_length; lia).
    rewrite map_nth. unfold col_phi. rewrite map_length. exact Hlast. }
  rewrite Hphi in E. injection E as <- <- <- <-.
  fold rows. split; [|split].
  - rewrite !pad_rows. auto.
  - intros r Hr. rewrite !pad_cols by assumption. rewrite !map_length. auto.
  - intros r k Hr Hk ci.
    assert (Hci: length (snd ci) = ((k+2)*Nch)%nat) by (apply Hcols; assumption).
    rewrite !pad_get by (rewrite ?map_length; lia || assumption).
    assert (Hsel: forall (Y:Type) (f:colin R -> list Y) d, nth k (map f cis) d = f ci).
    { intros Y f d. rewrite nth_indep with (d' := f dcol) by (rewrite map_length; lia). apply map_nth. }
    rewrite !Hsel. unfold col_fn, col_xi, col_lam, col_phi. split.
    + intros Hin. set (cl := nth r (snd ci) dcell).
      assert (Hg: forall (Y:Type) (g:cell R -> option Y), nth r (map g (snd ci)) None = g cl).
      { intros Y g. rewrite nth_indep with (d' := g dcell) by (rewrite map_length; lia). apply map_nth. }
      rewrite !Hg. auto.
    + intros Hout. rewrite !nth_overflow by (rewrite map_length; lia). auto.
Qed.
End Poles.

(* ------------------------------------------------------------------ cells of the zero border are NaN in all four tables *)
Theorem border_cell_nan gt0 ltb eqz (eqz_spec:forall x, eqz x = true <-> x = 0) Nref shift
  (m p:nat) (P Bn:nat -> fmat R) (Hm:(0 < m)%nat) (Hp:(1 <= p)%nat) (cl:cell R) :
  cell_L cl = None ->
  feq (S p * m) 1 (fmul K (S p * m) (comp_mat K m p P) (fun J _ => cre (nth J (cell_q cl) (c0 K)))) (fzero K) ->
  feq (S p * m) 1 (fmul K (S p * m) (comp_mat K m p P) (fun J _ => cim (nth J (cell_q cl) (c0 K)))) (fzero K) ->
  fn_cell K gt0 shift cl = None /\ xi_cell K gt0 eqz shift cl = None /\ lam_cell K gt0 shift cl = None /\
  phi_cell K gt0 ltb eqz Nref (S p * m) (out_mat K m p Bn P) cl = None.
Proof.
  intros HL Hre Him.
  assert (E: lam_cell K gt0 shift cl = None) by (unfold lam_cell; rewrite HL; reflexivity).
  split; [unfold fn_cell; rewrite E; reflexivity|]. split; [unfold xi_cell; rewrite E; reflexivity|]. split; [exact E|].
  apply (phi_zero gt0 ltb eqz eqz_spec). intros r Hr. unfold cvec_apply.
  destruct (comp_zero_border m p P Bn Hm Hp (fun J _ => cre (nth J (cell_q cl) (c0 K))) 1) as [[Hs1 _] Ho1].
  destruct (comp_zero_border m p P Bn Hm Hp (fun J _ => cim (nth J (cell_q cl) (c0 K))) 1) as [[Hs2 _] Ho2].
  pose proof (Ho1 (Hs1 Hre) (S r) r O (Nat.lt_succ_diag_r r) Nat.lt_0_1) as Z1.
  pose proof (Ho2 (Hs2 Him) (S r) r O (Nat.lt_succ_diag_r r) Nat.lt_0_1) as Z2.
  unfold fmul, fzero in Z1, Z2. rewrite Z1, Z2. reflexivity.
Qed.

(* ------------------------------------------------------------------ rmfd2ac returns the bordered companion of its solves *)
Theorem rmfd2ac_spec (solve:solver R)
  (Hsolve:forall d c A B X, solve d c A B = POk X -> feq d c (fmul K d A X) B) m p Ad Bn Ac Cc :
  rmfd2ac K solve m p Ad Bn = POk (Ac, Cc) ->
  exists P, (forall j, (j < p)%nat -> feq m m (fmul K m (Ad p) (P j)) (Ad j)) /\
            Ac = comp_mat K m p P /\ Cc = out_mat K m p Bn P.
Proof.
  unfold rmfd2ac. destruct (solve_fam K p (fun j => solve m m (Ad p) (Ad j))) as [P|] eqn:E; cbn [pbind]; [|discriminate].
  intros H; injection H as <- <-. exists P. split; [|split; reflexivity].
  intros j Hj. apply Hsolve. apply (solve_fam_spec p _ P E j Hj).
Qed.

(* ------------------------------------------------------------------ the executable Gauss-Jordan kernel meets the solve contract *)
Theorem gj_solver_contract eqz (eqz_sound:forall x, eqz x = true -> x = 0) d c A B X :
  gj_solver K eqz d c A B = POk X -> feq d c (fmul K d A X) B.
Proof.
  unfold gj_solver. cbv zeta. destruct (gj_solve_l K eqz d (tab2 d d A) (tab2 d c B)) as [Xl|]; [|discriminate].
  destruct (cert_ok K eqz d c (tab2 d d A) Xl (tab2 d c B)) eqn:EC; [|discriminate].
  intros H; injection H as <-. intros i j Hi Hj. unfold cert_ok in EC.
  rewrite forallb_forall in EC. specialize (EC i). rewrite forallb_forall in EC.
  assert (Ii: In i (seq 0 d)) by (apply in_seq; lia). assert (Ij: In j (seq 0 c)) by (apply in_seq; lia).
  specialize (EC Ii j Ij). apply eqz_sound in EC. rewrite (ent_tab2 R K d c B i j Hi Hj) in EC.
  unfold fmul.
  rewrite (sumn_ext R K d _ (fun k => ent K (tab2 d d A) i k * ent K Xl k j)) by (intros k Hk; rewrite (ent_tab2 R K d d A i k Hi Hk); reflexivity).
  transitivity ((sumn K d (fun k => ent K (tab2 d d A) i k * ent K Xl k j) - B i j) + B i j); [ring|]. rewrite EC. ring.
Qed.

(* ------------------------------------------------------------------ packaged statements *)
Theorem companion_eigpairs (solve:solver R)
  (Hsolve:forall d c A B X, solve d c A B = POk X -> feq d c (fmul K d A X) B)
  (m p:nat) (Ad Bn:nat -> fmat R) (Ac Cc:fmat R) :
  (0 < m)%nat -> (1 <= p)%nat ->
  rmfd2ac K solve m p Ad Bn = POk (Ac, Cc) ->
  let N := (S p * m)%nat in
  (* z <> 0: latent pairs of A(z) = sum_i A_i z^i  <->  eigenpairs of the code's companion *)
  (forall z zi, z * zi = 1 ->
     (forall v ApInv, feq m m (fmul K m ApInv (Ad p)) (fid K) ->
        feq m 1 (polymat_apply K m p Ad z v) (fzero K) ->
        feq N 1 (fmul K N Ac (geo_vec K m p z zi v)) (fscal K z (geo_vec K m p z zi v)) /\
        forall l, feq l 1 (fmul K N Cc (geo_vec K m p z zi v)) (polymat_apply K m p Bn z v)) /\
     (forall w, feq N 1 (fmul K N Ac w) (fscal K z w) ->
        let v := fun a c => w ((p-1)*m + a)%nat c in
        feq N 1 w (geo_vec K m p z zi v) /\ feq m 1 (polymat_apply K m p Ad z v) (fzero K))) /\
  (* the zero border: eigenvalue 0, eigenvectors = vectors supported on the last block, output matrix vanishes there *)
  (forall w q, (feq N q (fmul K N Ac w) (fzero K) <-> (forall J c, (J < p*m)%nat -> (c < q)%nat -> w J c = 0)) /\
               ((forall J c, (J < p*m)%nat -> (c < q)%nat -> w J c = 0) -> forall l, feq l q (fmul K N Cc w) (fzero K))).
Proof.
  intros Hm Hp E N. destruct (rmfd2ac_spec solve Hsolve m p Ad Bn Ac Cc E) as (P & HP & -> & ->).
  split.
  - intros z zi Hz. split.
    + intros v ApInv Hinv Hroot. split.
      * apply (comp_eig_of_root m p P Ad Hm Hp HP z zi v ApInv Hz Hinv Hroot).
      * intros l. apply (comp_shape m p P Ad Bn Hm Hp HP z zi v l Hroot ApInv Hinv).
    + intros w Hw. apply (comp_root_of_eig m p P Ad Hm Hp HP z zi w Hz Hw).
  - intros w q. apply (comp_zero_border m p P Bn Hm Hp w q).
Qed.

(* NaN pattern of one cell, with the contract of the complex logarithm: (log z)/dt is a number iff z <> 0 *)
Theorem cell_nan_iff gt0 ltb eqz (eqz_spec:forall x, eqz x = true <-> x = 0) Nref shift N Cm (cl:cell R) :
  (cell_L cl = None <-> cell_z cl = c0 K) ->
  let good := cell_z cl <> c0 K /\ exists l, cell_L cl = Some l /\ gt0 (cre l) = false in
  (fn_cell K gt0 shift cl <> None <-> good) /\
  (lam_cell K gt0 shift cl <> None <-> good) /\
  (xi_cell K gt0 eqz shift cl <> None <-> good /\ exists l, lam_cell K gt0 shift cl = Some l /\ cnorm2 K l <> 0) /\
  (cell_L cl <> None -> phi_cell K gt0 ltb eqz Nref N Cm cl <> None -> good) /\
  (forall l, cell_L cl = Some l -> gt0 (cre l) = false ->
     lam_cell K gt0 shift cl = Some (cadd K l (cofR K shift)) /\
     fn_cell K gt0 shift cl = Some (cnorm2 K (cadd K l (cofR K shift)))).
Proof.
  intros Hlog good.
  assert (Hk: kept gt0 cl <-> good).
  { unfold kept, good. split.
    - intros (l & E1 & E2). split; [|exists l; split; assumption]. intros Hz. apply Hlog in Hz. congruence.
    - intros [_ H]. exact H. }
  split; [rewrite (fn_kept gt0 shift); exact Hk|]. split; [rewrite (lam_kept gt0 shift); exact Hk|]. split; [|split].
  - rewrite (xi_kept gt0 eqz eqz_spec shift). split.
    + intros (l & E1 & E2). split; [|exists l; split; assumption]. apply Hk. apply (lam_kept gt0 shift). congruence.
    + intros [_ H]. exact H.
  - intros HLn Hphi. apply Hk. destruct (phi_cell K gt0 ltb eqz Nref N Cm cl) as [sv|] eqn:E; [|congruence].
    destruct (phi_some gt0 ltb eqz eqz_spec Nref N Cm cl sv E) as [Hb _].
    apply (blanked_kept gt0 cl HLn). exact Hb.
  - intros l E1 E2. pose proof (lam_value gt0 shift cl l E1 E2) as EV. split; [exact EV|].
    apply (fn_value gt0 shift). exact EV.
Qed.
End P.

Arguments gR {R} K Nf X. Arguments gS {R} K Nf Nch X Sy o. Arguments gT {R} K Nf Nch X Sy o.
Arguments gM {R} K Nf Nch Nref n X Sy Rinv. Arguments rmfd_fit {R} K Nf Nch n X H A Bo.
Arguments kept {R} gt0 cl. Arguments dcell {R} K. Arguments dcol {R} K.
