(* C05 - counting the poles of the bordered companion matrix of rmfd2ac (uses Base/EigCount.v).
   P_plscf.v gives the eigenPAIR correspondence: latent pairs (z, v), z <> 0, of A(z) = sum_i A_i z^i <-> eigenpairs
   (z, geo_vec z v) of the (p+1)m x (p+1)m matrix Ac; the zero border contributes the eigenvalue 0 on the vectors supported
   on the last block.  Here: if A(z) has p m latent pairs (z_j, v_j) with pairwise different non-zero roots and the modal
   matrix  [ geo_vec z_0 v_0 | .. | geo_vec z_{pm-1} v_{pm-1} | e_{pm} .. e_{pm+m-1} ]  is two-sided invertible, then for
   every full eigen-decomposition Ac V = V diag(d), W V = I, V W = I the eigen-solver may return:
     * [d_0 .. d_{N-1}] is a Permutation of [z_0 .. z_{pm-1}] followed by m zeros: exactly one pole per latent root, the
       remaining m = Nch values are 0 (they become the NaN cells of the pole tables);
     * the non-zero returned values are a Permutation of the latent roots, and exactly m returned values are zero;
     * a column of V with a non-zero eigenvalue is a non-zero multiple of geo_vec z_j v_j and the output matrix maps it to
       the same multiple of B(z_j) v_j (the mode shape).
   Carrier: commutative ring without zero divisors, 1 <> 0, decidable equality (complexify for complex roots). *)
From Coq Require Import List Arith Lia Ring Setoid Morphisms Permutation Bool.
From PyOMA.Base Require Import Carrier FMat Cplx EigCount.
From PyOMA.Model Require Import M_plscf.
From PyOMA.Proofs Require Import P_plscf.
Import ListNotations.

Lemma perm_filter {X:Type} (f:X -> bool) (l l':list X) : Permutation l l' -> Permutation (filter f l) (filter f l').
Proof.
  induction 1 as [|x l l' HP IH|x y l|l l' l'' HP1 IH1 HP2 IH2]; cbn [filter].
  - constructor.
  - destruct (f x); [constructor|]; exact IH.
  - destruct (f x), (f y); try apply Permutation_refl. apply perm_swap.
  - exact (Permutation_trans IH1 IH2).
Qed.
Lemma filter_true_id {X:Type} (f:X -> bool) (l:list X) : (forall x, In x l -> f x = true) -> filter f l = l.
Proof.
  induction l as [|a l IH]; intros H; [reflexivity|]. cbn [filter]. rewrite (H a) by (left; reflexivity).
  rewrite IH by (intros x Hx; apply H; right; exact Hx). reflexivity.
Qed.
Lemma filter_false_nil {X:Type} (f:X -> bool) (l:list X) : (forall x, In x l -> f x = false) -> filter f l = [].
Proof.
  induction l as [|a l IH]; intros H; [reflexivity|]. cbn [filter]. rewrite (H a) by (left; reflexivity).
  apply IH. intros x Hx. apply H. right. exact Hx.
Qed.

Section C05count.
Variable R:Type. Variable K:Ops R.
Hypothesis Rth : ring_theory (o0 K) (o1 K) (oadd K) (omul K) (osub K) (oopp K) (@eq R).
Hypothesis Hint : forall a b:R, omul K a b = o0 K -> a = o0 K \/ b = o0 K.
Hypothesis H10 : o1 K <> o0 K.
Hypothesis Rdec : forall x y:R, {x = y} + {x <> y}.
Add Ring RrC05c : Rth.
Local Open Scope K_scope.
Notation "0" := (o0 K) : K_scope. Notation "1" := (o1 K) : K_scope.
Infix "*" := (omul K) : K_scope.
Notation fm := (fmul K). Notation fI := (fid K).

(* modal matrix of the bordered companion and its eigenvalue list *)
Definition comp_modal (m p:nat) (z zi:nat -> R) (v:nat -> fmat R) : fmat R := fun I j =>
  if Nat.ltb j (p*m) then geo_vec K m p (z j) (zi j) (v j) I 0%nat else if Nat.eqb I j then 1 else 0.
Definition comp_lam (m p:nat) (z:nat -> R) : nat -> R := fun j => if Nat.ltb j (p*m) then z j else 0.

Section Body.
Variable solve : solver R.
Hypothesis Hsolve : forall d c A B X, solve d c A B = POk X -> feq d c (fm d A X) B.
Variables (m p:nat) (Ad Bn:nat -> fmat R) (Ac Cc:fmat R).
Hypothesis Hm : (0 < m)%nat.
Hypothesis Hp : (1 <= p)%nat.
Hypothesis Hcomp : rmfd2ac K solve m p Ad Bn = POk (Ac, Cc).
Notation N := (S p * m)%nat.
Variables (z zi:nat -> R) (v:nat -> fmat R) (ApInv:fmat R).
Hypothesis Hinv : feq m m (fm m ApInv (Ad p)) fI.
Hypothesis Hroots : forall j, (j < p*m)%nat -> z j * zi j = 1 /\ feq m 1 (polymat_apply K m p Ad (z j) (v j)) (fzero K).
Hypothesis Hdist : forall i j, (i < p*m)%nat -> (j < p*m)%nat -> i <> j -> z i <> z j.
Notation Phi := (comp_modal m p z zi v).
Notation lamf := (comp_lam m p z).

Lemma root_nz j : (j < p*m)%nat -> z j <> 0.
Proof.
  intros Hj E. destruct (Hroots j Hj) as [Hz _]. rewrite E in Hz. apply H10. rewrite <- Hz. ring.
Qed.

Lemma comp_modal_diag : feq N N (fm N Ac Phi) (fm N Phi (ediag K lamf)).
Proof.
  pose proof (companion_eigpairs R K Rth solve Hsolve m p Ad Bn Ac Cc Hm Hp Hcomp) as HC. cbv zeta in HC.
  destruct HC as [Hnz Hzero].
  intros I j HI Hj. rewrite (fmul_ediag_r R K Rth N Phi lamf I j Hj). unfold comp_lam.
  destruct (Nat.ltb_spec j (p*m)) as [Hlt|Hge].
  - destruct (Hroots j Hlt) as [Hz Hroot]. destruct (Hnz (z j) (zi j) Hz) as [Hfwd _].
    destruct (Hfwd (v j) ApInv Hinv Hroot) as [Heig _].
    pose proof (Heig I 0%nat HI Nat.lt_0_1) as E. unfold fscal in E.
    transitivity (fm N Ac (geo_vec K m p (z j) (zi j) (v j)) I 0%nat).
    { unfold fmul. apply sumn_ext; intros J HJ. unfold comp_modal.
      destruct (Nat.ltb_spec j (p*m)) as [_|]; [reflexivity|lia]. }
    rewrite E. unfold comp_modal. destruct (Nat.ltb_spec j (p*m)) as [_|]; [ring|lia].
  - destruct (Hzero (fun J (_:nat) => Phi J j) 1%nat) as [[_ Hback] _].
    assert (Hs: forall J c, (J < p*m)%nat -> (c < 1)%nat -> Phi J j = 0).
    { intros J c HJ _. unfold comp_modal. destruct (Nat.ltb_spec j (p*m)) as [|_]; [lia|].
      destruct (Nat.eqb_spec J j); [lia|reflexivity]. }
    pose proof (Hback Hs I 0%nat HI Nat.lt_0_1) as E. unfold fzero in E.
    transitivity (fm N Ac (fun J (_:nat) => Phi J j) I 0%nat); [reflexivity|]. rewrite E. ring.
Qed.

Variables (Phii V W:fmat R) (d:nat -> R).
Hypothesis HPr : feq N N (fm N Phi Phii) fI.
Hypothesis HPl : feq N N (fm N Phii Phi) fI.
Hypothesis HV : feq N N (fm N Ac V) (fm N V (ediag K d)).
Hypothesis HWl : feq N N (fm N W V) fI.
Hypothesis HWr : feq N N (fm N V W) fI.

Theorem companion_pole_count :
  Permutation (tab N d) (tab (p*m) z ++ repeat 0 m) /\
  (forall eqz:R -> bool, (forall x, eqz x = true <-> x = 0) ->
     Permutation (filter (fun x => negb (eqz x)) (tab N d)) (tab (p*m) z) /\ length (filter eqz (tab N d)) = m) /\
  exists (sg:nat -> nat) (c:nat -> R),
    (forall k, (k < N)%nat -> (sg k < N)%nat) /\
    (forall k k', (k < N)%nat -> (k' < N)%nat -> (sg k < p*m)%nat -> sg k = sg k' -> k = k') /\
    (forall j, (j < p*m)%nat -> exists k, (k < N)%nat /\ sg k = j) /\
    (forall k, (k < N)%nat -> (sg k < p*m)%nat ->
       d k = z (sg k) /\ c k <> 0 /\
       (forall a, (a < N)%nat -> V a k = geo_vec K m p (z (sg k)) (zi (sg k)) (v (sg k)) a 0%nat * c k) /\
       (forall l r, (r < l)%nat -> fm N Cc V r k = polymat_apply K m p Bn (z (sg k)) (v (sg k)) r 0%nat * c k)) /\
    (forall k, (k < N)%nat -> (p*m <= sg k)%nat -> d k = 0).
Proof.
  assert (Hr: (p*m <= N)%nat) by lia.
  assert (Hd1: forall i j, (i < p*m)%nat -> (j < N)%nat -> i <> j -> lamf i <> lamf j).
  { intros i j Hi Hj Hne. unfold comp_lam. destruct (Nat.ltb_spec i (p*m)) as [_|]; [|lia].
    destruct (Nat.ltb_spec j (p*m)) as [Hlt|_]; [apply Hdist; assumption|apply root_nz; exact Hi]. }
  assert (Hmu: forall i, (p*m <= i < N)%nat -> lamf i = 0).
  { intros i Hi. unfold comp_lam. destruct (Nat.ltb_spec i (p*m)) as [|_]; [lia|reflexivity]. }
  destruct (eig_count_border R K Rth Hint H10 Rdec N (p*m)%nat 0 Ac Phi Phii V W lamf d Hr comp_modal_diag HPr HPl Hd1 Hmu HV HWl HWr)
    as [sg [c [Hb [Hinj [Hsur [Hc [HP1 _]]]]]]].
  assert (Etab: tab (p*m) lamf = tab (p*m) z).
  { unfold tab. apply map_ext_in. intros j Hj. apply in_seq in Hj. unfold comp_lam.
    destruct (Nat.ltb_spec j (p*m)) as [_|]; [reflexivity|lia]. }
  assert (EN: (N - p*m = m)%nat) by lia.
  rewrite Etab, EN in HP1.
  split; [exact HP1|split].
  - intros eqz Heqz.
    assert (Hz0: eqz 0 = true) by (apply Heqz; reflexivity).
    assert (Hzn: forall x, In x (tab (p*m) z) -> eqz x = false).
    { intros x Hx. unfold tab in Hx. apply in_map_iff in Hx. destruct Hx as [j [<- Hj]]. apply in_seq in Hj.
      destruct (eqz (z j)) eqn:E; [|reflexivity]. apply Heqz in E. exfalso. apply (root_nz j); [lia|exact E]. }
    split.
    + rewrite (perm_filter (fun x => negb (eqz x)) _ _ HP1). rewrite filter_app.
      rewrite (filter_true_id (fun x => negb (eqz x)) (tab (p*m) z)) by (intros x Hx; rewrite (Hzn x Hx); reflexivity).
      rewrite (filter_false_nil (fun x => negb (eqz x)) (repeat 0 m)).
      * rewrite app_nil_r. apply Permutation_refl.
      * intros x Hx. apply repeat_spec in Hx. subst x. rewrite Hz0. reflexivity.
    + rewrite (Permutation_length (perm_filter eqz _ _ HP1)). rewrite filter_app, app_length.
      rewrite (filter_false_nil eqz (tab (p*m) z) Hzn).
      rewrite (filter_true_id eqz (repeat 0 m)) by (intros x Hx; apply repeat_spec in Hx; subst x; exact Hz0).
      rewrite repeat_length. reflexivity.
  - pose proof (companion_eigpairs R K Rth solve Hsolve m p Ad Bn Ac Cc Hm Hp Hcomp) as HC. cbv zeta in HC.
    destruct HC as [Hnz _].
    exists sg, c. split; [intros k Hk; apply (Hb k Hk)|split; [exact Hinj|split; [exact Hsur|split]]].
    + intros k Hk Hlt. destruct (Hb k Hk) as [_ Hdk]. destruct (Hc k Hk Hlt) as [Hc0 Hcol].
      assert (Hcol': forall a, (a < N)%nat -> V a k = geo_vec K m p (z (sg k)) (zi (sg k)) (v (sg k)) a 0%nat * c k).
      { intros a Ha. rewrite (Hcol a Ha). unfold comp_modal. destruct (Nat.ltb_spec (sg k) (p*m)) as [_|]; [reflexivity|lia]. }
      split; [|split; [exact Hc0|split; [exact Hcol'|]]].
      * rewrite Hdk. unfold comp_lam. destruct (Nat.ltb_spec (sg k) (p*m)) as [_|]; [reflexivity|lia].
      * intros l r Hrl. destruct (Hroots (sg k) Hlt) as [Hz Hroot]. destruct (Hnz (z (sg k)) (zi (sg k)) Hz) as [Hfwd _].
        destruct (Hfwd (v (sg k)) ApInv Hinv Hroot) as [_ Hshape].
        rewrite <- (Hshape l r 0%nat Hrl Nat.lt_0_1). unfold fmul.
        rewrite <- (sumn_scal_r R K Rth). apply sumn_ext. intros a Ha. rewrite (Hcol' a Ha). ring.
    + intros k Hk Hge. destruct (Hb k Hk) as [Hlt Hdk]. rewrite Hdk. apply Hmu. lia.
Qed.
End Body.
End C05count.

(* ---------- a concrete instance over Qc: A(z) = A_0 + z I, A_0 = -[[1/2,1],[0,1/3]] (the companion example of
   Properties/C05.v): latent pairs (1/2, (1,0)), (1/3, (6,-1)); m = 2, p = 1, N = 4.  The solver output lists the values
   as (0, 1/3, 0, 1/2) with mixed / rescaled eigenvectors. ---------- *)
From Coq Require Import QArith Qcanon.
From PyOMA.Base Require Import Show.
Definition ec5_Ad : nat -> fmat Qc := fam_of [[[q (-1) 2; q (-1) 1];[q 0 1; q (-1) 3]]; [[q 1 1; q 0 1];[q 0 1; q 1 1]]].
Definition ec5_Bn : nat -> fmat Qc := fam_of [[[q 1 1; q 2 1]]; [[q 0 1; q (-1) 1]]].
Definition ec5_Ac : fmat Qc := match rmfd2ac QcOps qsolver 2 1 ec5_Ad ec5_Bn with POk (Ac, _) => Ac | PLinAlgErr => fzero QcOps end.
Definition ec5_Cc : fmat Qc := match rmfd2ac QcOps qsolver 2 1 ec5_Ad ec5_Bn with POk (_, Cc) => Cc | PLinAlgErr => fzero QcOps end.
Definition ec5_z (j:nat) : Qc := match j with O => q 1 2 | _ => q 1 3 end.
Definition ec5_zi (j:nat) : Qc := match j with O => q 2 1 | _ => q 3 1 end.
Definition ec5_m (M:list (list Qc)) : fmat Qc := fun i j => ent QcOps M i j.
Definition ec5_v (j:nat) : fmat Qc := match j with O => ec5_m [[q 1 1];[q 0 1]] | _ => ec5_m [[q 6 1];[q (-1) 1]] end.
Definition ec5_ApInv : fmat Qc := fid QcOps.
Definition ec5_Phi : fmat Qc := comp_modal Qc QcOps 2 1 ec5_z ec5_zi ec5_v.
Definition ec5_Phii : fmat Qc := ec5_m [[q 1 1; q 6 1; q 0 1; q 0 1];[q 0 1; q (-1) 1; q 0 1; q 0 1];[q (-2) 1; q 6 1; q 1 1; q 0 1];[q 0 1; q (-3) 1; q 0 1; q 1 1]].
Definition ec5_Pm : fmat Qc := ec5_m [[q 0 1; q 0 1; q 0 1; q (-1) 1];[q 0 1; q 2 1; q 0 1; q 0 1];[q 5 1; q 0 1; q 1 1; q 0 1];[q 1 1; q 0 1; q (-1) 1; q 0 1]].
Definition ec5_Pmi : fmat Qc := ec5_m [[q 0 1; q 0 1; q 1 6; q 1 6];[q 0 1; q 1 2; q 0 1; q 0 1];[q 0 1; q 0 1; q 1 6; q (-5) 6];[q (-1) 1; q 0 1; q 0 1; q 0 1]].
Definition ec5_V : fmat Qc := fmul QcOps 4 ec5_Phi ec5_Pm.
Definition ec5_W : fmat Qc := fmul QcOps 4 ec5_Pmi ec5_Phii.
Definition ec5_d (k:nat) : Qc := match k with 1%nat => q 1 3 | 3%nat => q 1 2 | _ => q 0 1 end.

Lemma ec5_hyps :
  rmfd2ac QcOps qsolver 2 1 ec5_Ad ec5_Bn = POk (ec5_Ac, ec5_Cc) /\
  feq 2 2 (fmul QcOps 2 ec5_ApInv (ec5_Ad 1%nat)) (fid QcOps) /\
  (forall j, (j < 1 * 2)%nat -> omul QcOps (ec5_z j) (ec5_zi j) = o1 QcOps /\
                                feq 2 1 (polymat_apply QcOps 2 1 ec5_Ad (ec5_z j) (ec5_v j)) (fzero QcOps)) /\
  (forall i j, (i < 1 * 2)%nat -> (j < 1 * 2)%nat -> i <> j -> ec5_z i <> ec5_z j) /\
  feq 4 4 (fmul QcOps 4 ec5_Phi ec5_Phii) (fid QcOps) /\ feq 4 4 (fmul QcOps 4 ec5_Phii ec5_Phi) (fid QcOps) /\
  feq 4 4 (fmul QcOps 4 ec5_Ac ec5_V) (fmul QcOps 4 ec5_V (ediag QcOps ec5_d)) /\
  feq 4 4 (fmul QcOps 4 ec5_W ec5_V) (fid QcOps) /\ feq 4 4 (fmul QcOps 4 ec5_V ec5_W) (fid QcOps) /\
  tab 4 ec5_d = [o0 QcOps; ec5_z 1%nat; o0 QcOps; ec5_z 0%nat].
Proof.
  split.
  { unfold ec5_Ac, ec5_Cc. destruct (rmfd2ac QcOps qsolver 2 1 ec5_Ad ec5_Bn) as [[Ac Cc]|] eqn:E; [reflexivity|].
    exfalso. vm_compute in E. discriminate E. }
  split; [apply ec_feqb_sound; vm_compute; reflexivity|].
  split.
  { intros j Hj. destruct j as [|[|j]]; [| |lia]; (split; [apply Qc_eq_bool_correct; vm_compute; reflexivity|apply ec_feqb_sound; vm_compute; reflexivity]). }
  split.
  { intros i j Hi Hj Hne E.
    assert (Hc: ((i = 0 /\ j = 1) \/ (i = 1 /\ j = 0))%nat) by lia.
    destruct Hc as [[-> ->]|[-> ->]]; vm_compute in E; discriminate E. }
  repeat split; try (apply ec_feqb_sound; vm_compute; reflexivity).
Qed.
