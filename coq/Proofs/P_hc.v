(* C09 - proofs about the hard-criteria model (Model/M_hc.v).
   Plan: every table of a run() is, after each step, the unfiltered table blanked outside a boolean function kb
   ([masked2]/[masked3]); each step extends kb by its own criterion evaluated on the UNFILTERED tables; the final kb
   is [ssi_keepb], which reflects the declarative [ssi_keep].  The pLSCF sequence is the SSI one without covariance
   tables ([run_pl_embed]).  Everything is over Q / lists / options: closed under the global context. *)
From Coq Require Import List Arith ZArith QArith Bool Lia.
From PyOMA.Base Require Import Argmin.
From PyOMA.Model Require Import M_hc.
Import ListNotations.
Open Scope Q_scope.

(* ---------- lists ---------- *)
Lemma nth_error_zipw {A B C} (f:A->B->C) l1 l2 n :
  nth_error (zipw f l1 l2) n = match nth_error l1 n, nth_error l2 n with Some a, Some b => Some (f a b) | _, _ => None end.
Proof.
  revert l2 n; induction l1 as [|a r IH]; intros [|b r2] [|n]; cbn; try reflexivity.
  - destruct (nth_error r n); reflexivity.
  - apply IH.
Qed.

Lemma vget_zipw {A B C} (f:A->B->C) a b i o :
  vget (zipw (zipw f) a b) i o = match vget a i o, vget b i o with Some x, Some y => Some (f x y) | _, _ => None end.
Proof.
  unfold vget. rewrite nth_error_zipw.
  destruct (nth_error a i) as [ra|], (nth_error b i) as [rb|]; try reflexivity.
  - apply nth_error_zipw.
  - destruct (nth_error ra o); reflexivity.
Qed.

Lemma vget_map {A B} (p:A->B) t i o : vget (map (map p) t) i o = option_map p (vget t i o).
Proof. unfold vget. rewrite nth_error_map. destruct (nth_error t i); cbn; [apply nth_error_map|reflexivity]. Qed.

Lemma mget_mask_of {A} (p:A->bool) t i o : mget (mask_of p t) i o = match vget t i o with Some c => p c | None => false end.
Proof. unfold mget, mask_of. rewrite vget_map. destruct (vget t i o); reflexivity. Qed.

Lemma cell_applymask {A} m (t:tbl A) i o : cell (applymask m t) i o = if mget m i o then cell t i o else None.
Proof. unfold cell, mget, applymask. rewrite vget_zipw. destruct (vget m i o) as [[|]|], (vget t i o); reflexivity. Qed.

Lemma vget_applymask3 {X} m (t:tbl3 X) i o :
  vget (applymask3 m t) i o = match vget m i o, vget t i o with Some b, Some v => Some (if b then v else blank v) | _, _ => None end.
Proof. apply vget_zipw. Qed.

Lemma nth_error_blank {X} (v:list (option X)) k : match nth_error (blank v) k with Some e => e | None => None end = None.
Proof. unfold blank. rewrite nth_error_map. destruct (nth_error v k); reflexivity. Qed.

Lemma cell3_applymask3 {X} m (t:tbl3 X) i o k : cell3 (applymask3 m t) i o k = if mget m i o then cell3 t i o k else None.
Proof.
  unfold cell3, mget. rewrite vget_applymask3.
  destruct (vget m i o) as [[|]|], (vget t i o) as [v|]; try reflexivity. apply nth_error_blank.
Qed.

Lemma vlen_applymask3 {X} m (t:tbl3 X) i o : (vlen (applymask3 m t) i o <= vlen t i o)%nat.
Proof.
  unfold vlen. rewrite vget_applymask3. destruct (vget m i o) as [[|]|], (vget t i o) as [v|]; cbn; try lia.
  unfold blank. rewrite map_length. lia.
Qed.

Lemma Qmult_1_r_eq (x:Q) : x * 1 = x.
Proof. destruct x as [n d]. unfold Qmult; cbn. rewrite Z.mul_1_r, Pos.mul_1_r. reflexivity. Qed.

Lemma times_mask_false x : times_mask false x = None.
Proof. unfold times_mask. assert (H: Qeq_bool (x*0) 0 = true) by (apply Qeq_bool_iff; ring). rewrite H. reflexivity. Qed.
Lemma times_mask_true x : times_mask true x = if Qeq_bool x 0 then None else Some x.
Proof. unfold times_mask. rewrite Qmult_1_r_eq. reflexivity. Qed.

Lemma cell_idiom_mask_of (p:option Q -> bool) (t:tbl Q) i o : p None = false ->
  cell (idiom (mask_of p t) t) i o =
  match cell t i o with Some x => if p (Some x) && negb (Qeq_bool x 0) then Some x else None | None => None end.
Proof.
  intros Hp. unfold cell, idiom, mask_of. rewrite vget_zipw, vget_map.
  destruct (vget t i o) as [[x|]|]; cbn; try reflexivity.
  destruct (p (Some x)); cbn; [rewrite times_mask_true; destruct (Qeq_bool x 0); reflexivity | apply times_mask_false].
Qed.

Lemma mget_mask_of_cell {A} (p:option A -> bool) (t:tbl A) i o : p None = false -> mget (mask_of p t) i o = p (cell t i o).
Proof. intros Hp. rewrite mget_mask_of. unfold cell. destruct (vget t i o); [reflexivity|symmetry; exact Hp]. Qed.

(* ---------- "table t is table t0 blanked outside kb" ---------- *)
Definition kfun := nat -> nat -> bool.
Definition masked2 {A} (kb:kfun) (t0 t:tbl A) : Prop := forall i o, cell t i o = if kb i o then cell t0 i o else None.
Definition masked3 {X} (kb:kfun) (P0 P:tbl3 X) : Prop := forall i o,
  (kb i o = true -> vget P i o = vget P0 i o) /\
  (forall k, cell3 P i o k = if kb i o then cell3 P0 i o k else None) /\
  (vlen P i o <= vlen P0 i o)%nat.
Definition omasked2 {A} (kb:kfun) (t0 t:option (tbl A)) : Prop :=
  match t0, t with Some a, Some b => masked2 kb a b | None, None => True | _, _ => False end.
Definition omasked3 {X} (kb:kfun) (t0 t:option (tbl3 X)) : Prop :=
  match t0, t with Some a, Some b => masked3 kb a b | None, None => True | _, _ => False end.

Lemma masked2_refl {A} (t:tbl A) : masked2 (fun _ _ => true) t t.
Proof. intros i o. reflexivity. Qed.
Lemma masked3_refl {X} (t:tbl3 X) : masked3 (fun _ _ => true) t t.
Proof. intros i o. repeat split; intros; reflexivity || lia. Qed.
Lemma masked2_ext {A} kb kb' (t0 t:tbl A) : (forall i o, kb i o = kb' i o) -> masked2 kb t0 t -> masked2 kb' t0 t.
Proof. intros He H i o. rewrite <- He. apply H. Qed.
Lemma masked3_ext {X} kb kb' (t0 t:tbl3 X) : (forall i o, kb i o = kb' i o) -> masked3 kb t0 t -> masked3 kb' t0 t.
Proof. intros He H i o. rewrite <- He. apply H. Qed.
Lemma omasked2_ext {A} kb kb' (t0 t:option (tbl A)) : (forall i o, kb i o = kb' i o) -> omasked2 kb t0 t -> omasked2 kb' t0 t.
Proof. destruct t0, t; cbn; try tauto. apply masked2_ext. Qed.
Lemma omasked3_ext {X} kb kb' (t0 t:option (tbl3 X)) : (forall i o, kb i o = kb' i o) -> omasked3 kb t0 t -> omasked3 kb' t0 t.
Proof. destruct t0, t; cbn; try tauto. apply masked3_ext. Qed.

Lemma masked2_am {A} kb m (t0 t:tbl A) : masked2 kb t0 t -> masked2 (fun i o => kb i o && mget m i o) t0 (applymask m t).
Proof. intros H i o. rewrite cell_applymask, H. destruct (kb i o), (mget m i o); reflexivity. Qed.
Lemma masked3_am {X} kb m (t0 t:tbl3 X) : masked3 kb t0 t -> masked3 (fun i o => kb i o && mget m i o) t0 (applymask3 m t).
Proof.
  intros H i o. destruct (H i o) as (Hv & Hc & Hl). repeat split.
  - intros Hk. apply andb_true_iff in Hk. destruct Hk as [Hk Hm]. rewrite <- (Hv Hk).
    rewrite vget_applymask3. unfold mget in Hm. destruct (vget m i o) as [[|]|]; try discriminate. destruct (vget t i o); reflexivity.
  - intros k. rewrite cell3_applymask3, Hc. destruct (kb i o), (mget m i o); reflexivity.
  - pose proof (vlen_applymask3 m t i o). lia.
Qed.
Lemma omasked2_am {A} kb m (t0 t:option (tbl A)) : omasked2 kb t0 t -> omasked2 (fun i o => kb i o && mget m i o) t0 (option_map (applymask m) t).
Proof. destruct t0, t; cbn; try tauto. apply masked2_am. Qed.
Lemma omasked3_am {X} kb m (t0 t:option (tbl3 X)) : omasked3 kb t0 t -> omasked3 (fun i o => kb i o && mget m i o) t0 (option_map (applymask3 m) t).
Proof. destruct t0, t; cbn; try tauto. apply masked3_am. Qed.

Section P.
Variable E EC : Type.
Variable mpc mpd : list (option E) -> option Q.
Notation ssi := (ssi_tabs E EC).
Notation pl := (pl_tabs E).

Definition InvMain (kb:kfun) (s0 s:ssi) : Prop :=
  masked2 kb (sFn s0) (sFn s) /\ masked2 kb (sXi s0) (sXi s) /\ masked3 kb (sPhi s0) (sPhi s) /\ masked2 kb (sLam s0) (sLam s)
  /\ omasked2 kb (sXiC s0) (sXiC s) /\ omasked3 kb (sPhiC s0) (sPhiC s).
Definition InvF (kb:kfun) (s0 s:ssi) : Prop := omasked2 kb (sFnC s0) (sFnC s).

Lemma InvMain_ext kb kb' s0 s : (forall i o, kb i o = kb' i o) -> InvMain kb s0 s -> InvMain kb' s0 s.
Proof.
  intros He (H1 & H2 & H3 & H4 & H5 & H6).
  refine (conj _ (conj _ (conj _ (conj _ (conj _ _))))).
  - eapply masked2_ext; eauto.
  - eapply masked2_ext; eauto.
  - eapply masked3_ext; eauto.
  - eapply masked2_ext; eauto.
  - eapply omasked2_ext; eauto.
  - eapply omasked3_ext; eauto.
Qed.

Lemma Inv_refl s : InvMain (fun _ _ => true) s s /\ InvF (fun _ _ => true) s s.
Proof.
  unfold InvMain, InvF. refine (conj (conj _ (conj _ (conj _ (conj _ (conj _ _))))) _);
    try apply masked2_refl; try apply masked3_refl.
  - destruct (sXiC s); cbn; [apply masked2_refl|exact I].
  - destruct (sPhiC s); cbn; [apply masked3_refl|exact I].
  - destruct (sFnC s); cbn; [apply masked2_refl|exact I].
Qed.

Lemma conj_okb_None l : conj_okb l None = false. Proof. reflexivity. Qed.
Lemma damp_okb_None x : damp_okb x None = false. Proof. reflexivity. Qed.
Lemma cov_okb_None x : cov_okb x None = false. Proof. reflexivity. Qed.

(* step 1: conjugates *)
Lemma step_conj on s :
  let kb := fun i o => conj_at on (sLam s) i o in
  InvMain kb s (ssi_step_conj E EC on s) /\ InvF kb s (ssi_step_conj E EC on s).
Proof.
  destruct on; cbn [ssi_step_conj conj_at].
  - destruct (Inv_refl s) as ((H1 & H2 & H3 & H4 & H5 & H6) & H7).
    set (m := snd (hc_conj (sLam s))).
    assert (Hm: forall i o, true && mget m i o = conj_okb (elems (sLam s)) (cell (sLam s) i o)).
    { intros i o. subst m. cbn [hc_conj snd]. rewrite mget_mask_of_cell by reflexivity. reflexivity. }
    split.
    + apply (InvMain_ext (fun i o => true && mget m i o)); [exact Hm|].
      unfold InvMain; cbn [sFn sXi sPhi sLam sFnC sXiC sPhiC hc_conj fst].
      refine (conj _ (conj _ (conj _ (conj _ (conj _ _))))).
      * apply (masked2_am _ m _ _ H1).
      * apply (masked2_am _ m _ _ H2).
      * apply (masked3_am _ m _ _ H3).
      * apply (masked2_am _ m _ _ H4).
      * apply (omasked2_am _ m _ _ H5).
      * apply (omasked3_am _ m _ _ H6).
    + unfold InvF. cbn [sFnC]. apply (omasked2_ext (fun i o => true && mget m i o)); [exact Hm|]. apply (omasked2_am _ m _ _ H7).
  - apply Inv_refl.
Qed.

Lemma damp_pos_nonzero xm x : damp_okb xm (Some x) = true -> Qeq_bool x 0 = false.
Proof.
  unfold damp_okb. intros H. apply andb_true_iff in H. destruct H as [_ H]. apply Qlt_bool_iff in H.
  destruct (Qeq_bool x 0) eqn:Ee; [|reflexivity]. apply Qeq_bool_iff in Ee. rewrite Ee in H. exfalso. apply (Qlt_irrefl 0 H).
Qed.

(* step 2: damping *)
Lemma step_damp kb s0 s xmax : InvMain kb s0 s -> InvF kb s0 s ->
  let kb' := fun i o => kb i o && damp_okb xmax (cell (sXi s0) i o) in
  InvMain kb' s0 (ssi_step_damp E EC xmax s) /\ InvF kb' s0 (ssi_step_damp E EC xmax s).
Proof.
  intros (H1 & H2 & H3 & H4 & H5 & H6) H7 kb'.
  set (m := snd (hc_damp (sXi s) xmax)).
  assert (Hm: forall i o, kb i o && mget m i o = kb' i o).
  { intros i o. subst m kb'. cbn [hc_damp snd]. rewrite mget_mask_of_cell by reflexivity. rewrite (H2 i o).
    destruct (kb i o); reflexivity. }
  split.
  - unfold InvMain, ssi_step_damp; cbn [sFn sXi sPhi sLam sFnC sXiC sPhiC]. fold m.
    refine (conj _ (conj _ (conj _ (conj _ (conj _ _))))).
    + apply (masked2_ext _ _ _ _ Hm). apply (masked2_am _ m _ _ H1).
    + intros i o. cbn [hc_damp fst]. rewrite cell_idiom_mask_of by reflexivity. rewrite (H2 i o). subst kb'. cbn beta.
      destruct (kb i o); cbn [andb]; [|reflexivity].
      destruct (cell (sXi s0) i o) as [x|]; [|reflexivity].
      destruct (damp_okb xmax (Some x)) eqn:Ed; cbn [andb]; [|reflexivity].
      rewrite (damp_pos_nonzero _ _ Ed). reflexivity.
    + apply (masked3_ext _ _ _ _ Hm). apply (masked3_am _ m _ _ H3).
    + apply (masked2_ext _ _ _ _ Hm). apply (masked2_am _ m _ _ H4).
    + apply (omasked2_ext _ _ _ _ Hm). apply (omasked2_am _ m _ _ H5).
    + apply (omasked3_ext _ _ _ _ Hm). apply (omasked3_am _ m _ _ H6).
  - unfold InvF, ssi_step_damp; cbn [sFnC]. fold m. apply (omasked2_ext _ _ _ _ Hm). apply (omasked2_am _ m _ _ H7).
Qed.

Lemma InvMain_mask_all kb m s0 s : InvMain kb s0 s -> InvF kb s0 s ->
  InvMain (fun i o => kb i o && mget m i o) s0 (ssi_mask_all E EC m s) /\ InvF (fun i o => kb i o && mget m i o) s0 (ssi_mask_all E EC m s).
Proof.
  intros (H1 & H2 & H3 & H4 & H5 & H6) H7. split.
  - unfold InvMain, ssi_mask_all; cbn [sFn sXi sPhi sLam sFnC sXiC sPhiC].
    refine (conj _ (conj _ (conj _ (conj _ (conj _ _))))).
    + apply (masked2_am _ m _ _ H1).
    + apply (masked2_am _ m _ _ H2).
    + apply (masked3_am _ m _ _ H3).
    + apply (masked2_am _ m _ _ H4).
    + apply (omasked2_am _ m _ _ H5).
    + apply (omasked3_am _ m _ _ H6).
  - unfold InvF, ssi_mask_all; cbn [sFnC]. apply (omasked2_am _ m _ _ H7).
Qed.

Lemma mget_vmask kb (p:list (option E) -> bool) (P0 P:tbl3 E) i o : masked3 kb P0 P ->
  kb i o && mget (mask_of p P) i o = kb i o && vokb E p P0 i o.
Proof.
  intros H. destruct (H i o) as (Hv & _ & _). rewrite mget_mask_of. unfold vokb.
  destruct (kb i o); [|reflexivity]. rewrite (Hv eq_refl). reflexivity.
Qed.

(* step 3: MPD then MPC, both masks computed from the same mode-shape table *)
Lemma step_phi kb s0 s mpc_lim mpd_lim : InvMain kb s0 s -> InvF kb s0 s ->
  let kb' := fun i o => kb i o && vokb E (mpd_okb E mpd mpd_lim) (sPhi s0) i o && vokb E (mpc_okb E mpc mpc_lim) (sPhi s0) i o in
  InvMain kb' s0 (ssi_step_phi E EC mpc mpd mpc_lim mpd_lim s) /\ InvF kb' s0 (ssi_step_phi E EC mpc mpd mpc_lim mpd_lim s).
Proof.
  intros HM HF kb'. unfold ssi_step_phi. cbn [hc_phi_comp fst snd].
  set (m3 := mask_of (mpd_okb E mpd mpd_lim) (sPhi s)). set (m4 := mask_of (mpc_okb E mpc mpc_lim) (sPhi s)).
  destruct (InvMain_mask_all kb m3 s0 s HM HF) as [HM1 HF1].
  destruct (InvMain_mask_all _ m4 s0 _ HM1 HF1) as [HM2 HF2].
  assert (Hk: forall i o, kb i o && mget m3 i o && mget m4 i o = kb' i o).
  { intros i o. subst kb' m3 m4. destruct HM as (_ & _ & H3 & _).
    pose proof (mget_vmask kb (mpd_okb E mpd mpd_lim) _ _ i o H3) as Ha.
    pose proof (mget_vmask kb (mpc_okb E mpc mpc_lim) _ _ i o H3) as Hb.
    cbn beta. destruct (kb i o); cbn [andb] in *; [rewrite Ha, Hb; reflexivity|reflexivity]. }
  split.
  - apply (InvMain_ext _ _ _ _ Hk HM2).
  - unfold InvF. apply (omasked2_ext _ _ _ _ Hk). exact HF2.
Qed.

(* step 4: covariance (only when the uncertainty tables exist) *)
Lemma step_cov_main kb s0 s cmax : InvMain kb s0 s -> InvF kb s0 s ->
  let kb' := fun i o => kb i o && cov_at cmax (sFnC s0) i o in
  InvMain kb' s0 (ssi_step_cov E EC cmax s).
Proof.
  intros HM HF kb'. unfold ssi_step_cov. unfold InvF, omasked2 in HF.
  destruct (sFnC s) as [F|] eqn:EF, (sFnC s0) as [F0|] eqn:EF0; try contradiction.
  - set (m := snd (hc_cov F cmax)).
    assert (Hm: forall i o, kb i o && mget m i o = kb' i o).
    { intros i o. subst m kb'. cbn [hc_cov snd cov_at]. rewrite mget_mask_of_cell by reflexivity. rewrite (HF i o).
      destruct (kb i o); reflexivity. }
    destruct HM as (H1 & H2 & H3 & H4 & H5 & H6).
    unfold InvMain; cbn [sFn sXi sPhi sLam sFnC sXiC sPhiC].
    refine (conj _ (conj _ (conj _ (conj _ (conj _ _))))).
    + apply (masked2_ext _ _ _ _ Hm). apply (masked2_am _ m _ _ H1).
    + apply (masked2_ext _ _ _ _ Hm). apply (masked2_am _ m _ _ H2).
    + apply (masked3_ext _ _ _ _ Hm). apply (masked3_am _ m _ _ H3).
    + apply (masked2_ext _ _ _ _ Hm). apply (masked2_am _ m _ _ H4).
    + apply (omasked2_ext _ _ _ _ Hm). apply (omasked2_am _ m _ _ H5).
    + apply (omasked3_ext _ _ _ _ Hm). apply (omasked3_am _ m _ _ H6).
  - apply (InvMain_ext kb); [|exact HM]. intros i o. subst kb'. cbn [cov_at]. apply (eq_sym (andb_true_r _)).
Qed.

Lemma step_cov_F kb s0 s cmax : InvF kb s0 s ->
  let kb' := fun i o => kb i o && cov_at cmax (sFnC s0) i o in
  (forall F0 i o c, sFnC s0 = Some F0 -> cell F0 i o = Some c -> kb' i o = true -> ~ c == 0) ->
  InvF kb' s0 (ssi_step_cov E EC cmax s).
Proof.
  intros HF kb' Hnz. unfold ssi_step_cov. unfold InvF, omasked2 in *.
  destruct (sFnC s) as [F|] eqn:EF, (sFnC s0) as [F0|] eqn:EF0; try contradiction.
  - cbn [sFnC hc_cov fst]. intros i o. rewrite cell_idiom_mask_of by reflexivity. rewrite (HF i o).
    specialize (Hnz F0 i o). subst kb'. cbn beta in *. cbn [cov_at] in *.
    destruct (kb i o); cbn [andb] in *; [|reflexivity].
    destruct (cell F0 i o) as [c|]; [|reflexivity].
    destruct (cov_okb cmax (Some c)) eqn:Ec; cbn [andb]; [|reflexivity].
    destruct (Qeq_bool c 0) eqn:Ez; [|reflexivity].
    exfalso. apply (Hnz c eq_refl eq_refl eq_refl). apply Qeq_bool_iff. exact Ez.
  - rewrite EF. exact I.
Qed.

Lemma keepb_chain h s i o :
  conj_at (hc_conj_on h) (sLam s) i o && damp_okb (hc_xi_max h) (cell (sXi s) i o)
  && vokb E (mpd_okb E mpd (hc_mpd_lim h)) (sPhi s) i o && vokb E (mpc_okb E mpc (hc_mpc_lim h)) (sPhi s) i o
  && cov_at (hc_cov_max h) (sFnC s) i o = ssi_keepb E EC mpc mpd h s i o.
Proof. unfold ssi_keepb, ssi_otherb. rewrite !andb_assoc. reflexivity. Qed.

Theorem run_ssi_main h s : InvMain (ssi_keepb E EC mpc mpd h s) s (run_ssi E EC mpc mpd h s).
Proof.
  unfold run_ssi.
  destruct (step_conj (hc_conj_on h) s) as [A1 B1].
  destruct (step_damp _ s _ (hc_xi_max h) A1 B1) as [A2 B2].
  destruct (step_phi _ s _ (hc_mpc_lim h) (hc_mpd_lim h) A2 B2) as [A3 B3].
  pose proof (step_cov_main _ s _ (hc_cov_max h) A3 B3) as A4.
  eapply InvMain_ext; [|exact A4]. intros i o. apply keepb_chain.
Qed.

Theorem run_ssi_F h s :
  (forall F0 i o c, sFnC s = Some F0 -> cell F0 i o = Some c -> ssi_keepb E EC mpc mpd h s i o = true -> ~ c == 0) ->
  InvF (ssi_keepb E EC mpc mpd h s) s (run_ssi E EC mpc mpd h s).
Proof.
  intros Hnz. unfold run_ssi.
  destruct (step_conj (hc_conj_on h) s) as [A1 B1].
  destruct (step_damp _ s _ (hc_xi_max h) A1 B1) as [A2 B2].
  destruct (step_phi _ s _ (hc_mpc_lim h) (hc_mpd_lim h) A2 B2) as [A3 B3].
  unfold InvF. eapply omasked2_ext; [|apply (step_cov_F _ s _ (hc_cov_max h) B3)].
  - intros i o. apply keepb_chain.
  - intros F0 i o c HF Hc Hk. apply (Hnz F0 i o c HF Hc). rewrite <- keepb_chain. exact Hk.
Qed.
End P.

(* ---------- boolean criteria <-> declarative criteria ---------- *)
Lemma ceqb_iff a b : ceqb a b = true <-> ceq a b.
Proof. unfold ceqb, ceq. rewrite andb_true_iff, !Qeq_bool_iff. tauto. Qed.
Lemma ceq_refl a : ceq a a. Proof. split; reflexivity. Qed.
Lemma ceq_sym a b : ceq a b -> ceq b a. Proof. intros [H1 H2]. split; symmetry; assumption. Qed.
Lemma ceq_trans a b c : ceq a b -> ceq b c -> ceq a c.
Proof. intros [H1 H2] [H3 H4]. split; etransitivity; eassumption. Qed.
Lemma ceq_conj a b : ceq a b -> ceq (cconjq a) (cconjq b).
Proof. intros [H1 H2]. split; cbn; [exact H1|rewrite H2; reflexivity]. Qed.
Lemma ceq_conj_invol a : ceq (cconjq (cconjq a)) a.
Proof. split; cbn; [reflexivity|ring]. Qed.

Lemma In_somes {A} (x:A) r : In x (somes r) <-> In (Some x) r.
Proof.
  unfold somes. rewrite in_flat_map. split.
  - intros ([y|] & Hy & Hx); cbn in Hx; [destruct Hx as [->|[]]; exact Hy|contradiction].
  - intros H. exists (Some x). split; [exact H|left; reflexivity].
Qed.
Lemma In_elems {A} (x:A) (t:tbl A) : In x (elems t) <-> exists i o, cell t i o = Some x.
Proof.
  unfold elems. rewrite in_flat_map. split.
  - intros (r & Hr & Hx). apply In_somes in Hx.
    destruct (In_nth_error _ _ Hr) as [i Hi]. destruct (In_nth_error _ _ Hx) as [o Ho].
    exists i, o. unfold cell, vget. rewrite Hi, Ho. reflexivity.
  - intros (i & o & H). unfold cell, vget in H.
    destruct (nth_error t i) as [r|] eqn:Hi; [|discriminate].
    destruct (nth_error r o) as [c|] eqn:Ho; [|discriminate]. subst c.
    exists r. split; [eapply nth_error_In; exact Hi|]. apply In_somes. eapply nth_error_In; exact Ho.
Qed.
Lemma in_set_iff z (L:tbl cplx) : in_set z (elems L) = true <-> exists i o z', cell L i o = Some z' /\ ceq z' z.
Proof.
  unfold in_set. rewrite existsb_exists. split.
  - intros (z' & Hin & He). apply In_elems in Hin. destruct Hin as (i & o & Hc). apply ceqb_iff in He.
    exists i, o, z'. split; [exact Hc|apply ceq_sym; exact He].
  - intros (i & o & z' & Hc & He). exists z'. split; [apply In_elems; eauto|apply ceqb_iff, ceq_sym; exact He].
Qed.

Lemma conj_okb_iff (L:tbl cplx) i o : conj_okb (elems L) (cell L i o) = true <-> has_conj L i o.
Proof.
  unfold conj_okb, has_conj. destruct (cell L i o) as [z|] eqn:Hz.
  - rewrite andb_true_iff, !in_set_iff. split.
    + intros [_ H]. exists z. split; [reflexivity|exact H].
    + intros (z0 & Hz0 & H). inversion Hz0; subst z0. split; [|exact H].
      exists i, o, z. split; [exact Hz|apply ceq_refl].
  - split; [discriminate|]. intros (z & Hz' & _). discriminate.
Qed.

Lemma damp_okb_iff xmax (X:tbl Q) i o : damp_okb xmax (cell X i o) = true <-> xi_ok xmax X i o.
Proof.
  unfold damp_okb, xi_ok. destruct (cell X i o) as [x|].
  - rewrite andb_true_iff, !Qlt_bool_iff. split.
    + intros [H1 H2]. exists x. auto.
    + intros (x0 & Hx & H1 & H2). inversion Hx; subst. auto.
  - split; [discriminate|]. intros (x & Hx & _). discriminate.
Qed.
Lemma cov_okb_iff cmax (F:tbl Q) i o : cov_okb cmax (cell F i o) = true <-> cov_ok cmax F i o.
Proof.
  unfold cov_okb, cov_ok. destruct (cell F i o) as [x|].
  - rewrite Qlt_bool_iff. split; [intros H; exists x; auto|intros (x0 & Hx & H); inversion Hx; subst; exact H].
  - split; [discriminate|]. intros (x & Hx & _). discriminate.
Qed.

Section R.
Variable E EC : Type.
Variable mpc mpd : list (option E) -> option Q.

Lemma mpd_okb_iff lim (P:tbl3 E) i o : vokb E (mpd_okb E mpd lim) P i o = true <-> mpd_ok E mpd lim P i o.
Proof.
  unfold vokb, mpd_okb, mpd_ok. destruct (vget P i o) as [v|].
  - destruct (mpd v) as [d|] eqn:Hd.
    + rewrite Qle_bool_iff. split; [intros H; exists v, d; auto|].
      intros (v0 & d0 & Hv & Hd0 & H). inversion Hv; subst v0. rewrite Hd in Hd0. inversion Hd0; subst. exact H.
    + split; [discriminate|]. intros (v0 & d0 & Hv & Hd0 & _). inversion Hv; subst v0. rewrite Hd in Hd0. discriminate.
  - split; [discriminate|]. intros (v0 & d0 & Hv & _). discriminate.
Qed.
Lemma mpc_okb_iff lim (P:tbl3 E) i o : vokb E (mpc_okb E mpc lim) P i o = true <-> mpc_ok E mpc lim P i o.
Proof.
  unfold vokb, mpc_okb, mpc_ok. destruct (vget P i o) as [v|].
  - destruct (mpc v) as [d|] eqn:Hd.
    + rewrite Qle_bool_iff. split; [intros H; exists v, d; auto|].
      intros (v0 & d0 & Hv & Hd0 & H). inversion Hv; subst v0. rewrite Hd in Hd0. inversion Hd0; subst. exact H.
    + split; [discriminate|]. intros (v0 & d0 & Hv & Hd0 & _). inversion Hv; subst v0. rewrite Hd in Hd0. discriminate.
  - split; [discriminate|]. intros (v0 & d0 & Hv & _). discriminate.
Qed.

Lemma ssi_otherb_iff h (s:ssi_tabs E EC) i o : ssi_otherb E EC mpc mpd h s i o = true <-> ssi_other E EC mpc mpd h s i o.
Proof.
  unfold ssi_otherb, ssi_other. rewrite !andb_true_iff, damp_okb_iff, mpd_okb_iff, mpc_okb_iff.
  assert (Hc: cov_at (hc_cov_max h) (sFnC s) i o = true <-> (forall F, sFnC s = Some F -> cov_ok (hc_cov_max h) F i o)).
  { unfold cov_at. destruct (sFnC s) as [F|].
    - rewrite cov_okb_iff. split; [intros H F0 HF; inversion HF; subst; exact H|intros H; apply H; reflexivity].
    - split; [intros _ F HF; discriminate|reflexivity]. }
  rewrite Hc. tauto.
Qed.
Lemma conj_at_iff on (L:tbl cplx) i o : conj_at on L i o = true <-> (on = true -> has_conj L i o).
Proof.
  unfold conj_at. destruct on.
  - rewrite conj_okb_iff. split; [auto|intros H; apply H; reflexivity].
  - split; [intros _ H; discriminate|reflexivity].
Qed.
Lemma ssi_keepb_iff h (s:ssi_tabs E EC) i o : ssi_keepb E EC mpc mpd h s i o = true <-> ssi_keep E EC mpc mpd h s i o.
Proof. unfold ssi_keepb, ssi_keep. rewrite andb_true_iff, conj_at_iff, ssi_otherb_iff. tauto. Qed.

(* ---------- from "masked by kb" to the iff form ---------- *)
Lemma masked2_spec {A} kb (K:nat->nat->Prop) (t0 t:tbl A) :
  (forall i o, kb i o = true <-> K i o) -> masked2 kb t0 t -> forall i o, tbl_spec (K i o) t0 t i o.
Proof.
  intros HK H i o v. rewrite (H i o). specialize (HK i o). destruct (kb i o).
  - split; [intros Hc; split; [exact Hc|apply HK; reflexivity]|tauto].
  - split; [discriminate|]. intros [_ Hk]. apply HK in Hk. discriminate.
Qed.
Lemma masked3_spec {X} kb (K:nat->nat->Prop) (t0 t:tbl3 X) :
  (forall i o, kb i o = true <-> K i o) -> masked3 kb t0 t -> forall i o, tbl3_spec (K i o) t0 t i o.
Proof.
  intros HK H i o k e. destruct (H i o) as (_ & Hc & _). rewrite (Hc k). specialize (HK i o). destruct (kb i o).
  - split; [intros Hx; split; [exact Hx|apply HK; reflexivity]|tauto].
  - split; [discriminate|]. intros [_ Hk]. apply HK in Hk. discriminate.
Qed.
Lemma omasked2_spec {A} kb (K:nat->nat->Prop) (t0 t:option (tbl A)) :
  (forall i o, kb i o = true <-> K i o) -> omasked2 kb t0 t -> forall i o, otbl_spec (K i o) t0 t i o.
Proof. intros HK. destruct t0, t; cbn; try tauto. apply masked2_spec; exact HK. Qed.
Lemma omasked3_spec {X} kb (K:nat->nat->Prop) (t0 t:option (tbl3 X)) :
  (forall i o, kb i o = true <-> K i o) -> omasked3 kb t0 t -> forall i o, otbl3_spec (K i o) t0 t i o.
Proof. intros HK. destruct t0, t; cbn; try tauto. apply masked3_spec; exact HK. Qed.

(* ================= SSI classes ================= *)
Theorem hc_sound_complete_ssi : forall (h:hcrit) (s:ssi_tabs E EC) (i o:nat),
  let r := run_ssi E EC mpc mpd h s in
  let K := ssi_keep E EC mpc mpd h s i o in
  tbl_spec K (sFn s) (sFn r) i o /\ tbl_spec K (sXi s) (sXi r) i o /\ tbl3_spec K (sPhi s) (sPhi r) i o
  /\ tbl_spec K (sLam s) (sLam r) i o /\ otbl_spec K (sXiC s) (sXiC r) i o /\ otbl3_spec K (sPhiC s) (sPhiC r) i o.
Proof.
  intros h s i o r K. destruct (run_ssi_main E EC mpc mpd h s) as (H1 & H2 & H3 & H4 & H5 & H6).
  pose proof (ssi_keepb_iff h s) as HK.
  refine (conj _ (conj _ (conj _ (conj _ (conj _ _))))).
  - apply (masked2_spec _ _ _ _ HK H1).
  - apply (masked2_spec _ _ _ _ HK H2).
  - apply (masked3_spec _ _ _ _ HK H3).
  - apply (masked2_spec _ _ _ _ HK H4).
  - apply (omasked2_spec _ _ _ _ HK H5).
  - apply (omasked3_spec _ _ _ _ HK H6).
Qed.

(* the frequency-covariance table is the product  Fn_cov*mask  with zeros turned into nan: a kept pole whose
   covariance is exactly 0 would be blanked in this table only - hence the hypothesis *)
Definition cov_nonzero (h:hcrit) (s:ssi_tabs E EC) : Prop :=
  forall F i o c, sFnC s = Some F -> cell F i o = Some c -> ssi_keep E EC mpc mpd h s i o -> ~ c == 0.

Theorem hc_sound_complete_ssi_cov : forall (h:hcrit) (s:ssi_tabs E EC), cov_nonzero h s -> forall i o,
  otbl_spec (ssi_keep E EC mpc mpd h s i o) (sFnC s) (sFnC (run_ssi E EC mpc mpd h s)) i o.
Proof.
  intros h s Hnz. apply (omasked2_spec _ _ _ _ (ssi_keepb_iff h s)). apply run_ssi_F.
  intros F i o c HF Hc Hk. apply (Hnz F i o c HF Hc). apply ssi_keepb_iff. exact Hk.
Qed.

Lemma is_some_if {A} (b:bool) (c:option A) : is_some (if b then c else None) = is_some c && b.
Proof. destruct b, c; reflexivity. Qed.

Theorem hc_joint_nan_ssi : forall (h:hcrit) (s:ssi_tabs E EC), cov_nonzero h s -> forall i o b,
  ssi_joint E EC s i o b ->
  exists b', ssi_joint E EC (run_ssi E EC mpc mpd h s) i o b' /\ (b' = true <-> b = true /\ ssi_keep E EC mpc mpd h s i o).
Proof.
  intros h s Hnz i o b (J1 & J2 & J3 & J4 & J5 & J6).
  destruct (run_ssi_main E EC mpc mpd h s) as (H1 & H2 & H3 & H4 & H5 & _).
  assert (HF: InvF E EC (ssi_keepb E EC mpc mpd h s) s (run_ssi E EC mpc mpd h s)).
  { apply run_ssi_F. intros F i0 o0 c HF Hc Hk. apply (Hnz F i0 o0 c HF Hc). apply ssi_keepb_iff. exact Hk. }
  exists (b && ssi_keepb E EC mpc mpd h s i o). split.
  - unfold ssi_joint. refine (conj _ (conj _ (conj _ (conj _ (conj _ _))))).
    + rewrite (H1 i o), is_some_if, J1. reflexivity.
    + rewrite (H2 i o), is_some_if, J2. reflexivity.
    + rewrite (H4 i o), is_some_if, J3. reflexivity.
    + intros k Hk. destruct (H3 i o) as (_ & Hc & Hl). rewrite (Hc k), is_some_if, J4 by lia. reflexivity.
    + intros F HFr. unfold InvF, omasked2 in HF. rewrite HFr in HF. destruct (sFnC s) as [F0|] eqn:EF0; [|contradiction].
      rewrite (HF i o), is_some_if, (J5 F0 eq_refl). reflexivity.
    + intros X HXr. unfold omasked2 in H5. rewrite HXr in H5. destruct (sXiC s) as [X0|] eqn:EX0; [|contradiction].
      rewrite (H5 i o), is_some_if, (J6 X0 eq_refl). reflexivity.
  - rewrite andb_true_iff, ssi_keepb_iff. tauto.
Qed.

(* conjugate pairs: the criterion is evaluated on the unfiltered eigenvalue table; when the other criteria treat a
   pole and its conjugate alike, the conjugate of every surviving pole survives too *)
Definition conj_symmetric (h:hcrit) (s:ssi_tabs E EC) : Prop :=
  forall i o i' o' z z', cell (sLam s) i o = Some z -> cell (sLam s) i' o' = Some z' -> ceq z' (cconjq z) ->
  (ssi_other E EC mpc mpd h s i o <-> ssi_other E EC mpc mpd h s i' o').

Lemma has_conj_partner (L:tbl cplx) i o i' o' z z' :
  cell L i o = Some z -> cell L i' o' = Some z' -> ceq z' (cconjq z) -> has_conj L i' o'.
Proof.
  intros Hz Hz' He. exists z'. split; [exact Hz'|]. exists i, o, z. split; [exact Hz|].
  apply ceq_sym. eapply ceq_trans; [apply ceq_conj; exact He|apply ceq_conj_invol].
Qed.

Theorem hc_conj_closed_ssi : forall (h:hcrit) (s:ssi_tabs E EC), hc_conj_on h = true -> conj_symmetric h s ->
  forall i o z, cell (sLam (run_ssi E EC mpc mpd h s)) i o = Some z ->
  exists i' o' z', cell (sLam (run_ssi E EC mpc mpd h s)) i' o' = Some z' /\ ceq z' (cconjq z).
Proof.
  intros h s Hon Hsym i o z Hr.
  destruct (hc_sound_complete_ssi h s i o) as (_ & _ & _ & HL & _). apply HL in Hr. destruct Hr as [Hz [Hc Ho]].
  destruct (Hc Hon) as (z0 & Hz0 & i' & o' & z' & Hz' & He). rewrite Hz in Hz0. inversion Hz0; subst z0.
  exists i', o', z'. split; [|exact He].
  destruct (hc_sound_complete_ssi h s i' o') as (_ & _ & _ & HL' & _). apply HL'. split; [exact Hz'|]. split.
  - intros _. apply (has_conj_partner _ i o i' o' z z' Hz Hz' He).
  - apply (Hsym i o i' o' z z' Hz Hz' He). exact Ho.
Qed.
End R.

(* ================= pLSCF classes: the same sequence without covariance tables; Lambds is not returned ============ *)
Section PL.
Variable E : Type.
Variable mpc mpd : list (option E) -> option Q.

Definition pl_embed (s:pl_tabs E) : ssi_tabs E unit :=
  {| sFn := pFn s; sXi := pXi s; sPhi := pPhi s; sLam := pLam s; sFnC := None; sXiC := None; sPhiC := None |}.

Lemma run_pl_embed h s :
  pFn (run_pl E mpc mpd h s) = sFn (run_ssi E unit mpc mpd h (pl_embed s)) /\
  pXi (run_pl E mpc mpd h s) = sXi (run_ssi E unit mpc mpd h (pl_embed s)) /\
  pPhi (run_pl E mpc mpd h s) = sPhi (run_ssi E unit mpc mpd h (pl_embed s)).
Proof.
  unfold run_pl, run_ssi, pl_step_conj, ssi_step_conj. destruct (hc_conj_on h); repeat split; reflexivity.
Qed.

Lemma pl_keep_embed h s i o : ssi_keep E unit mpc mpd h (pl_embed s) i o <-> pl_keep E mpc mpd h s i o.
Proof.
  unfold ssi_keep, pl_keep, ssi_other, pl_other; cbn [pl_embed sFn sXi sPhi sLam sFnC sXiC sPhiC].
  split.
  - intros (H1 & H2 & H3 & H4 & _). auto.
  - intros (H1 & H2 & H3 & H4). repeat split; auto. intros F HF; discriminate.
Qed.

Lemma pl_masked h s :
  let kb := ssi_keepb E unit mpc mpd h (pl_embed s) in
  masked2 kb (pFn s) (pFn (run_pl E mpc mpd h s)) /\ masked2 kb (pXi s) (pXi (run_pl E mpc mpd h s))
  /\ masked3 kb (pPhi s) (pPhi (run_pl E mpc mpd h s)).
Proof.
  intros kb. destruct (run_pl_embed h s) as (-> & -> & ->).
  destruct (run_ssi_main E unit mpc mpd h (pl_embed s)) as (H1 & H2 & H3 & _). auto.
Qed.

Lemma pl_kb_iff h s i o : ssi_keepb E unit mpc mpd h (pl_embed s) i o = true <-> pl_keep E mpc mpd h s i o.
Proof. rewrite ssi_keepb_iff. apply pl_keep_embed. Qed.

Theorem hc_sound_complete_pl : forall (h:hcrit) (s:pl_tabs E) (i o:nat),
  let r := run_pl E mpc mpd h s in
  let K := pl_keep E mpc mpd h s i o in
  tbl_spec K (pFn s) (pFn r) i o /\ tbl_spec K (pXi s) (pXi r) i o /\ tbl3_spec K (pPhi s) (pPhi r) i o.
Proof.
  intros h s i o r K. destruct (pl_masked h s) as (H1 & H2 & H3). pose proof (pl_kb_iff h s) as HK.
  refine (conj _ (conj _ _)).
  - apply (masked2_spec _ _ _ _ HK H1).
  - apply (masked2_spec _ _ _ _ HK H2).
  - apply (masked3_spec _ _ _ _ HK H3).
Qed.

Theorem hc_joint_nan_pl : forall (h:hcrit) (s:pl_tabs E) i o b,
  pl_joint E s i o b ->
  exists b', pl_joint E (run_pl E mpc mpd h s) i o b' /\ (b' = true <-> b = true /\ pl_keep E mpc mpd h s i o).
Proof.
  intros h s i o b (J1 & J2 & J3). destruct (pl_masked h s) as (H1 & H2 & H3).
  exists (b && ssi_keepb E unit mpc mpd h (pl_embed s) i o). split.
  - unfold pl_joint. refine (conj _ (conj _ _)).
    + rewrite (H1 i o), is_some_if, J1. reflexivity.
    + rewrite (H2 i o), is_some_if, J2. reflexivity.
    + intros k Hk. destruct (H3 i o) as (_ & Hc & Hl). rewrite (Hc k), is_some_if, J3 by lia. reflexivity.
  - rewrite andb_true_iff, pl_kb_iff. tauto.
Qed.

Definition pl_conj_symmetric (h:hcrit) (s:pl_tabs E) : Prop :=
  forall i o i' o' z z', cell (pLam s) i o = Some z -> cell (pLam s) i' o' = Some z' -> ceq z' (cconjq z) ->
  (pl_other E mpc mpd h s i o <-> pl_other E mpc mpd h s i' o').

(* Lambds is not part of a pLSCF result: the statement is about the cells that survive *)
Theorem hc_conj_closed_pl : forall (h:hcrit) (s:pl_tabs E), hc_conj_on h = true -> pl_conj_symmetric h s ->
  forall i o, pl_keep E mpc mpd h s i o ->
  exists z i' o' z', cell (pLam s) i o = Some z /\ cell (pLam s) i' o' = Some z' /\ ceq z' (cconjq z)
                     /\ pl_keep E mpc mpd h s i' o'.
Proof.
  intros h s Hon Hsym i o [Hc Ho]. destruct (Hc Hon) as (z & Hz & i' & o' & z' & Hz' & He).
  exists z, i', o', z'. refine (conj Hz (conj Hz' (conj He (conj _ _)))).
  - intros _. apply (has_conj_partner _ i o i' o' z z' Hz Hz' He).
  - apply (Hsym i o i' o' z z' Hz Hz' He). exact Ho.
Qed.
End PL.

(* ================= shapes are preserved (rows and orders; nothing is dropped) ================= *)
Lemma length_zipw {A B C} (f:A->B->C) a b : length a = length b -> length (zipw f a b) = length b.
Proof. revert b; induction a as [|x r IH]; intros [|y r2] H; cbn in *; try discriminate; [reflexivity|]. f_equal. apply IH. lia. Qed.
Lemma dims_zipw {A B C} (f:A->B->C) (m:list (list A)) (t:list (list B)) : dims m = dims t -> dims (zipw (zipw f) m t) = dims t.
Proof.
  revert t; induction m as [|x r IH]; intros [|y r2] H; cbn in *; try discriminate; [reflexivity|].
  injection H as H1 H2. rewrite (length_zipw f x y H1). f_equal. apply IH. unfold dims. exact H2.
Qed.
Lemma dims_mask_of {A} (p:A->bool) t : dims (mask_of p t) = dims t.
Proof. unfold dims, mask_of. rewrite map_map. apply map_ext. intros r. apply map_length. Qed.

Definition odimsP {A} (t:option (list (list A))) (d:list nat) : Prop := match t with Some x => dims x = d | None => True end.
Lemma odims_iff {A} (t:option (list (list A))) d : odims t d = true <-> odimsP t d.
Proof. unfold odims, odimsP. destruct t as [x|]; [|tauto]. destruct (list_eq_dec Nat.eq_dec (dims x) d); split; auto; discriminate. Qed.

Section SH.
Variable E EC : Type.
Variable mpc mpd : list (option E) -> option Q.
Definition Sh (d:list nat) (s:ssi_tabs E EC) : Prop :=
  dims (sFn s) = d /\ dims (sXi s) = d /\ dims (sPhi s) = d /\ dims (sLam s) = d
  /\ odimsP (sFnC s) d /\ odimsP (sXiC s) d /\ odimsP (sPhiC s) d.

Lemma odimsP_am {A} m (t:option (tbl A)) d : dims m = d -> odimsP t d -> odimsP (option_map (applymask m) t) d.
Proof. destruct t as [x|]; cbn; [|tauto]. intros Hm Hx. unfold applymask. rewrite dims_zipw; congruence. Qed.
Lemma odimsP_am3 {X} m (t:option (tbl3 X)) d : dims m = d -> odimsP t d -> odimsP (option_map (applymask3 m) t) d.
Proof. destruct t as [x|]; cbn; [|tauto]. intros Hm Hx. unfold applymask3. rewrite dims_zipw; congruence. Qed.
Lemma dims_am {A} m (t:tbl A) d : dims m = d -> dims t = d -> dims (applymask m t) = d.
Proof. intros Hm Ht. unfold applymask. rewrite dims_zipw; congruence. Qed.
Lemma dims_am3 {X} m (t:tbl3 X) d : dims m = d -> dims t = d -> dims (applymask3 m t) = d.
Proof. intros Hm Ht. unfold applymask3. rewrite dims_zipw; congruence. Qed.
Lemma dims_idiom m (t:tbl Q) d : dims m = d -> dims t = d -> dims (idiom m t) = d.
Proof. intros Hm Ht. unfold idiom. rewrite dims_zipw; congruence. Qed.

Lemma Sh_mask_all d m s : dims m = d -> Sh d s -> Sh d (ssi_mask_all E EC m s).
Proof.
  intros Hm (H1 & H2 & H3 & H4 & H5 & H6 & H7). unfold Sh, ssi_mask_all; cbn [sFn sXi sPhi sLam sFnC sXiC sPhiC].
  refine (conj _ (conj _ (conj _ (conj _ (conj _ (conj _ _)))))); auto using dims_am, dims_am3, odimsP_am, odimsP_am3.
Qed.

Theorem hc_shape_ssi : forall (h:hcrit) (s:ssi_tabs E EC), wf_ssi E EC s = true ->
  Sh (dims (sFn s)) (run_ssi E EC mpc mpd h s).
Proof.
  intros h s Hwf. set (d := dims (sFn s)).
  assert (H0: Sh d s).
  { unfold wf_ssi in Hwf. fold d in Hwf. rewrite !andb_true_iff, !odims_iff in Hwf. cbn [odimsP] in Hwf. unfold Sh. tauto. }
  clearbody d. unfold run_ssi.
  assert (H1: Sh d (ssi_step_conj E EC (hc_conj_on h) s)).
  { unfold ssi_step_conj. destruct (hc_conj_on h); [|exact H0]. cbn [hc_conj fst snd].
    destruct H0 as (A1 & A2 & A3 & A4 & A5 & A6 & A7).
    assert (Hm: dims (mask_of (conj_okb (elems (sLam s))) (sLam s)) = d) by (rewrite dims_mask_of; exact A4).
    unfold Sh; cbn [sFn sXi sPhi sLam sFnC sXiC sPhiC].
    refine (conj _ (conj _ (conj _ (conj _ (conj _ (conj _ _)))))); auto using dims_am, dims_am3, odimsP_am, odimsP_am3. }
  set (s1 := ssi_step_conj E EC (hc_conj_on h) s) in *. clearbody s1.
  assert (H2: Sh d (ssi_step_damp E EC (hc_xi_max h) s1)).
  { unfold ssi_step_damp. cbn [hc_damp fst snd]. destruct H1 as (A1 & A2 & A3 & A4 & A5 & A6 & A7).
    assert (Hm: dims (mask_of (damp_okb (hc_xi_max h)) (sXi s1)) = d) by (rewrite dims_mask_of; exact A2).
    unfold Sh; cbn [sFn sXi sPhi sLam sFnC sXiC sPhiC].
    refine (conj _ (conj _ (conj _ (conj _ (conj _ (conj _ _)))))); auto using dims_am, dims_am3, dims_idiom, odimsP_am, odimsP_am3. }
  set (s2 := ssi_step_damp E EC (hc_xi_max h) s1) in *. clearbody s2.
  assert (H3: Sh d (ssi_step_phi E EC mpc mpd (hc_mpc_lim h) (hc_mpd_lim h) s2)).
  { unfold ssi_step_phi. cbn [hc_phi_comp fst snd]. destruct H2 as (A1 & A2 & A3 & A4 & A5 & A6 & A7).
    apply Sh_mask_all; [rewrite dims_mask_of; exact A3|]. apply Sh_mask_all; [rewrite dims_mask_of; exact A3|].
    unfold Sh; tauto. }
  set (s3 := ssi_step_phi E EC mpc mpd (hc_mpc_lim h) (hc_mpd_lim h) s2) in *. clearbody s3.
  unfold ssi_step_cov. destruct (sFnC s3) as [F|] eqn:EF; [|exact H3].
  cbn [hc_cov fst snd]. destruct H3 as (A1 & A2 & A3 & A4 & A5 & A6 & A7). rewrite EF in A5. cbn [odimsP] in A5.
  assert (Hm: dims (mask_of (cov_okb (hc_cov_max h)) F) = d) by (rewrite dims_mask_of; exact A5).
  unfold Sh; cbn [sFn sXi sPhi sLam sFnC sXiC sPhiC odimsP].
  refine (conj _ (conj _ (conj _ (conj _ (conj _ (conj _ _)))))); auto using dims_am, dims_am3, dims_idiom, odimsP_am, odimsP_am3.
Qed.
End SH.

Theorem hc_shape_pl : forall E mpc mpd (h:hcrit) (s:pl_tabs E), wf_pl E s = true ->
  let r := run_pl E mpc mpd h s in
  dims (pFn r) = dims (pFn s) /\ dims (pXi r) = dims (pFn s) /\ dims (pPhi r) = dims (pFn s).
Proof.
  intros E mpc mpd h s Hwf r. subst r. destruct (run_pl_embed E mpc mpd h s) as (-> & -> & ->).
  assert (Hw: wf_ssi E unit (pl_embed E s) = true).
  { unfold wf_ssi, wf_pl in *. cbn [pl_embed sFn sXi sPhi sLam sFnC sXiC sPhiC]. rewrite Hwf. reflexivity. }
  destruct (hc_shape_ssi E unit mpc mpd h _ Hw) as (H1 & H2 & H3 & _). cbn [pl_embed sFn] in *. auto.
Qed.
