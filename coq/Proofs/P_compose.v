(* C01 o C11 - composition of the identification result (C01: at order 2m the pole table holds the true poles) with the
   extraction routine (C11: Model/M_mpe.v, mpe_explicit = SSI_mpe / pLSCF_mpe with an explicit order).

   M_mpe works on a frequency table Fn : list (list (option Q)) ([row][order-column], None = NaN) and ONE opaque payload
   table Pay (damping, shape, covariances of the same cell).  M_modal.pole_table builds a table of option X cells for any
   cell type X.  The bridge is a pair of projections fnof : X -> Q, payof : X -> P:
       Fn  = fn_table fnof (pole_table ordmax per)        Pay = pay_table payof (pole_table ordmax per)
   (the payload of a NaN cell is None, of a filled cell Some (payof x)).

   Everything here is over nat / Q / list / option: closed under the global context.  The proofs go through the C11
   lemmas mpe_explicit_total, mpe_whole and mpe_only_if_close (+ Argmin.first_argmin_unique): the row picked by the
   routine is THE first argmin of |column - f|, and it is kept when np.isclose accepts it. *)
From Coq Require Import List Arith ZArith QArith Qabs Bool Lia Lqa Permutation.
From PyOMA.Base Require Import Argmin.
From PyOMA.Model Require Import M_modal M_mpe.
From PyOMA.Proofs Require Import P_mpe.
Import ListNotations.
Open Scope Q_scope.

(* ------------------------------------------------------------------------------------------------------- *)
(* small facts *)

Lemma col_cell {A} (T:list (list A)) c col : getcol T c = Some col -> forall r, nth_error col r = cell T r c.
Proof.
  intros H r. destruct (getcol_nth T c col H) as [Hlen Hnth].
  destruct (Nat.lt_ge_cases r (length T)) as [Hr|Hr]; [apply Hnth; exact Hr|].
  unfold cell. assert (Hn : nth_error T r = None) by (apply nth_error_None; exact Hr). rewrite Hn.
  apply nth_error_None. lia.
Qed.

Lemma cell_getcol {A} n m (T:list (list A)) r c x : rect n m T -> cell T r c = Some x ->
  (r < n)%nat /\ (c < m)%nat /\ exists col, getcol T c = Some col.
Proof.
  intros HT Hc. unfold cell in Hc. destruct (nth_error T r) as [row|] eqn:Er; [|discriminate].
  destruct HT as [Hn Hm]. pose proof Hm as Hm'. rewrite Forall_forall in Hm'.
  assert (Hcm : (c < m)%nat) by (rewrite <- (Hm' row (nth_error_In _ _ Er)); apply nth_error_Some; rewrite Hc; discriminate).
  split; [rewrite <- Hn; apply nth_error_Some; rewrite Er; discriminate|]. split; [exact Hcm|].
  apply (getcol_rect n m T c (conj Hn Hm) Hcm).
Qed.

Lemma Qabs_sub_zero a b : a == b -> Qabs (a - b) == 0.
Proof. intros H. setoid_replace (a - b) with 0 by lra. reflexivity. Qed.

Lemma Qabs_sub_le0 a b : Qabs (a - b) <= 0 -> a == b.
Proof. intros H. apply Qabs_Qle_condition in H. lra. Qed.

Lemma tol_nonneg rtol f : 0 <= rtol -> 0 <= atol + rtol * Qabs f.
Proof.
  intros H. assert (H1 : 0 <= rtol * Qabs f) by (apply Qmult_le_0_compat; [exact H|apply Qabs_nonneg]).
  unfold atol. lra.
Qed.

Lemma somes_map_Some {A B} (h:A->B) l : somes (map (fun a => Some (h a)) l) = map h l.
Proof. induction l as [|a t IH]; cbn [map somes]; [reflexivity|rewrite IH; reflexivity]. Qed.

Lemma F2_map_l {A B C} (h:A->B) (R:B->C->Prop) l1 : forall l2, Forall2 R (map h l1) l2 -> Forall2 (fun a c => R (h a) c) l1 l2.
Proof. induction l1 as [|a t IH]; intros l2 H; cbn [map] in H; inversion H; subst; constructor; auto. Qed.

Lemma F2_impl_in {A B} (R S:A->B->Prop) l1 l2 : (forall a b, In a l1 -> R a b -> S a b) -> Forall2 R l1 l2 -> Forall2 S l1 l2.
Proof.
  intros H H2. induction H2 as [|a b t u Hab H2 IH]; constructor.
  - apply H; [left; reflexivity|exact Hab].
  - apply IH. intros a' b' Hin. apply H. right; exact Hin.
Qed.

(* ------------------------------------------------------------------------------------------------------- *)
(* "row r holds the retained pole of column c that is nearest to f, first row on ties" - the cell-level reading of
   Argmin.is_first_argmin (dists column f) *)
Definition nearest_row (Fn:tab) (c:nat) (f:Q) (r:nat) (g:Q) : Prop :=
  cell Fn r c = Some (Some g) /\
  (forall r' g', cell Fn r' c = Some (Some g') -> Qabs (g - f) <= Qabs (g' - f)) /\
  (forall r' g', (r' < r)%nat -> cell Fn r' c = Some (Some g') -> Qabs (g - f) < Qabs (g' - f)).

Lemma nearest_of_argmin Fn c col f r d : getcol Fn c = Some col -> is_first_argmin (dists col f) r d ->
  exists g, nearest_row Fn c f r g /\ d = Qabs (g - f).
Proof.
  intros Hg (Hk & Hmin & Hfst). destruct (dists_some col f r d Hk) as (p & Hp & Hd). subst d.
  exists p. split; [|reflexivity]. split; [rewrite <- (col_cell Fn c col Hg); exact Hp|]. split.
  - intros r' g' Hc. apply (Hmin r'). rewrite dists_nth, (col_cell Fn c col Hg), Hc. reflexivity.
  - intros r' g' Hlt Hc. apply (Hfst r'); [exact Hlt|]. rewrite dists_nth, (col_cell Fn c col Hg), Hc. reflexivity.
Qed.

Lemma nearest_row_unique Fn c f r g r' g' : nearest_row Fn c f r g -> nearest_row Fn c f r' g' -> r = r' /\ g = g'.
Proof.
  intros (Hc & Hmin & Hfst) (Hc' & Hmin' & Hfst').
  assert (Hr : r = r').
  { destruct (Nat.lt_trichotomy r r') as [H|[H|H]]; [exfalso|exact H|exfalso].
    - apply (Qlt_not_le _ _ (Hfst' r g H Hc)). apply (Hmin r' g' Hc').
    - apply (Qlt_not_le _ _ (Hfst r' g' H Hc')). apply (Hmin' r g Hc). }
  split; [exact Hr|]. subst r'. rewrite Hc in Hc'. inversion Hc'. reflexivity.
Qed.

(* a column with at least one retained pole has a nearest row for every request *)
Lemma nearest_exists Fn c col f r g : getcol Fn c = Some col -> cell Fn r c = Some (Some g) ->
  exists r0 g0, nearest_row Fn c f r0 g0.
Proof.
  intros Hg Hc. pose proof (nanargmin_spec (dists col f)) as Hs.
  destruct (nanargmin (dists col f)) as [[k d]|].
  - destruct (nearest_of_argmin Fn c col f k d Hg Hs) as (g0 & Hn & _). eauto.
  - exfalso. assert (Hd : nth_error (dists col f) r = Some (Some (Qabs (g - f)))).
    { rewrite dists_nth, (col_cell Fn c col Hg), Hc. reflexivity. }
    assert (Hlt : (r < length (dists col f))%nat) by (apply nth_error_Some; rewrite Hd; discriminate).
    rewrite (Hs r Hlt) in Hd. discriminate.
Qed.

(* ------------------------------------------------------------------------------------------------------- *)
(* one order c for all requests: if the nearest retained pole of every request is isclose to it, the selections are
   exactly those rows.  This is C11's "only if close" read in the direction needed here. *)
Lemma sel_of_nearest Fn rtol c freq rows : forall sels,
  pick_all Fn rtol (requests freq (OInt c)) = Ok sels ->
  Forall2 (fun f r => exists g, nearest_row Fn c f r g /\ Qabs (g - f) <= atol + rtol * Qabs f) freq rows ->
  sels = map (fun r => Some (r,c)) rows.
Proof.
  intros sels Hp H. apply mpe_only_if_close in Hp. unfold requests in Hp. revert sels Hp.
  induction H as [|f r freq' rows' H1 H2 IH]; intros sels Hp; cbn [map] in Hp.
  - inversion Hp. reflexivity.
  - inversion Hp as [|req sel reqs sels' Hhead Htail]; subst. cbn [map]. f_equal; [|apply IH; exact Htail].
    destruct H1 as (g & Hn & Hclose).
    destruct Hhead as (c0 & col & r0 & d & p & Hc & Hg & Ha & Hp0 & Hcell & Hyes & _). cbn [fst snd] in *.
    inversion Hc; subst c0; clear Hc.
    destruct (nearest_of_argmin Fn c col f r0 d Hg Ha) as (g0 & Hn0 & _).
    destruct (nearest_row_unique Fn c f r g r0 g0 Hn Hn0) as [<- <-].
    destruct Hn as (Hcg & _). rewrite Hcg in Hcell. inversion Hcell; subst p. apply Hyes. exact Hclose.
Qed.

(* CORE: the routine returns, request by request, frequency and payload of the cell (r_j, c), never an error *)
Theorem extract_core {P} n m Fn (Pay:list (list P)) c freq rows rtol : rect n m Fn -> rect n m Pay ->
  Forall2 (fun f r => exists g, nearest_row Fn c f r g /\ Qabs (g - f) <= atol + rtol * Qabs f) freq rows ->
  exists vals, mpe_explicit Fn Pay freq (OInt c) rtol = Ok (vals, OutInt c) /\
    Forall2 (fun r vp => cell Fn r c = Some (Some (fst vp)) /\ cell Pay r c = Some (snd vp)) rows vals.
Proof.
  intros HF HP H.
  destruct (mpe_explicit_total n m Fn Pay freq (OInt c) rtol HF HP) as [vals Hv].
  { unfold requests. apply Forall_forall. intros req Hin. apply in_map_iff in Hin. destruct Hin as (f & <- & Hf).
    pose proof (F2_Forall_l _ _ _ H) as Hall. rewrite Forall_forall in Hall.
    destruct (Hall f Hf) as (r & g & (Hc & _) & _). exists c, r, g. split; [reflexivity|exact Hc]. }
  exists vals. split; [exact Hv|].
  destruct (mpe_whole Fn Pay freq (OInt c) rtol vals _ Hv) as [_ (sels & Hs & Hg)].
  rewrite (sel_of_nearest Fn rtol c freq rows sels Hs H) in Hg.
  rewrite (somes_map_Some (fun r => (r,c)) rows) in Hg. apply F2_map_l in Hg. exact Hg.
Qed.

(* (a) EXACT identification: column c holds, for every request f, a retained cell whose frequency equals f.  Then for
   any rtol >= 0 the routine returns one pair per request: the frequency (== f) and the payload of the FIRST row of
   column c that holds f. *)
Theorem extract_exact {P} n m Fn (Pay:list (list P)) c freq rtol : rect n m Fn -> rect n m Pay -> 0 <= rtol ->
  Forall (fun f => exists r g, cell Fn r c = Some (Some g) /\ g == f) freq ->
  exists vals, mpe_explicit Fn Pay freq (OInt c) rtol = Ok (vals, OutInt c) /\
    Forall2 (fun f vp => fst vp == f /\
               exists r, cell Fn r c = Some (Some (fst vp)) /\ cell Pay r c = Some (snd vp) /\
                         forall r' g', (r' < r)%nat -> cell Fn r' c = Some (Some g') -> ~ g' == f) freq vals.
Proof.
  intros HF HP Hrt Hall.
  assert (Hall' : Forall (fun f => exists r, exists g, nearest_row Fn c f r g /\ Qabs (g - f) <= atol + rtol * Qabs f /\ g == f) freq).
  { eapply Forall_impl; [|exact Hall]. intros f (r & g & Hc & Heq).
    destruct (cell_getcol n m Fn r c _ HF Hc) as (_ & _ & col & Hcol).
    destruct (nearest_exists Fn c col f r g Hcol Hc) as (r0 & g0 & Hn0). exists r0, g0.
    assert (H0 : Qabs (g0 - f) <= 0).
    { destruct Hn0 as (_ & Hmin & _). rewrite <- (Qabs_sub_zero g f Heq). exact (Hmin r g Hc). }
    split; [exact Hn0|]. split; [|apply Qabs_sub_le0; exact H0].
    eapply Qle_trans; [exact H0|apply tol_nonneg; exact Hrt]. }
  destruct (Forall_exists_Forall2 _ _ Hall') as [rows Hrows].
  destruct (extract_core n m Fn Pay c freq rows rtol HF HP) as (vals & Hv & Hcells).
  { eapply F2_impl; [|exact Hrows]. intros f r (g & Hn & Hcl & _). eauto. }
  exists vals. split; [exact Hv|].
  pose proof (Forall2_comp _ _ _ _ _ Hrows Hcells) as Hc. eapply F2_impl; [|exact Hc].
  intros f vp (r & (g & (Hcg & _ & Hfst) & _ & Heq) & (HcF & HcP)).
  rewrite Hcg in HcF. inversion HcF as [Hgv]. split; [rewrite <- Hgv; exact Heq|].
  exists r. split; [rewrite <- Hgv; exact Hcg|]. split; [exact HcP|].
  intros r' g' Hlt Hc' Heq'. specialize (Hfst r' g' Hlt Hc').
  rewrite (Qabs_sub_zero g f Heq), (Qabs_sub_zero g' f Heq') in Hfst. apply (Qlt_irrefl 0). exact Hfst.
Qed.

(* (b) ROBUST identification: the identified frequency g_j (row r_j of column c) is within eps_j of the request f_j,
   every OTHER retained cell of the column is farther than eps_j from f_j, and eps_j fits in the isclose margin.
   Then the routine returns exactly the cells (r_j, c). *)
Theorem extract_robust {P} n m Fn (Pay:list (list P)) c freq rows rtol : rect n m Fn -> rect n m Pay ->
  Forall2 (fun f r => exists g eps, cell Fn r c = Some (Some g) /\ Qabs (g - f) <= eps /\
             (forall r' g', r' <> r -> cell Fn r' c = Some (Some g') -> eps < Qabs (g' - f)) /\
             eps <= atol + rtol * Qabs f) freq rows ->
  exists vals, mpe_explicit Fn Pay freq (OInt c) rtol = Ok (vals, OutInt c) /\
    Forall2 (fun r vp => cell Fn r c = Some (Some (fst vp)) /\ cell Pay r c = Some (snd vp)) rows vals.
Proof.
  intros HF HP H. apply (extract_core n m Fn Pay c freq rows rtol HF HP).
  eapply F2_impl; [|exact H]. intros f r (g & eps & Hc & Hle & Hsep & Hfit). exists g. split.
  - split; [exact Hc|]. split.
    + intros r' g' Hc'. destruct (Nat.eq_dec r' r) as [->|Hne].
      * rewrite Hc in Hc'. inversion Hc'. apply Qle_refl.
      * apply Qlt_le_weak. eapply Qle_lt_trans; [exact Hle|exact (Hsep r' g' Hne Hc')].
    + intros r' g' Hlt Hc'. eapply Qle_lt_trans; [exact Hle|]. apply (Hsep r' g'); [lia|exact Hc'].
  - eapply Qle_trans; [exact Hle|exact Hfit].
Qed.

(* (a') exact identification with the rows named: when f_j occurs in column c at row r_j only, the routine returns
   exactly the cells (r_j, c) - instance eps = 0 of (b) *)
Theorem extract_exact_rows {P} n m Fn (Pay:list (list P)) c freq rows rtol : rect n m Fn -> rect n m Pay -> 0 <= rtol ->
  Forall2 (fun f r => exists g, cell Fn r c = Some (Some g) /\ g == f /\
             forall r' g', cell Fn r' c = Some (Some g') -> g' == f -> r' = r) freq rows ->
  exists vals, mpe_explicit Fn Pay freq (OInt c) rtol = Ok (vals, OutInt c) /\
    Forall2 (fun r vp => cell Fn r c = Some (Some (fst vp)) /\ cell Pay r c = Some (snd vp)) rows vals.
Proof.
  intros HF HP Hrt H. apply (extract_robust n m Fn Pay c freq rows rtol HF HP).
  eapply F2_impl; [|exact H]. intros f r (g & Hc & Heq & Huniq). exists g, 0.
  split; [exact Hc|]. split; [rewrite (Qabs_sub_zero g f Heq); apply Qle_refl|]. split; [|apply tol_nonneg; exact Hrt].
  intros r' g' Hne Hc'. destruct (Qlt_le_dec 0 (Qabs (g' - f))) as [Hlt|Hle]; [exact Hlt|].
  exfalso. apply Hne. apply (Huniq r' g' Hc'). apply Qabs_sub_le0. exact Hle.
Qed.

(* ------------------------------------------------------------------------------------------------------- *)
(* (c) the tables of M_modal *)

Definition fn_table {X} (fnof:X->Q) (T:list (list (option X))) : tab := map (map (option_map fnof)) T.
Definition pay_table {X P} (payof:X->P) (T:list (list (option X))) : list (list (option P)) := map (map (option_map payof)) T.

Lemma cell_map {A B} (h:A->B) (T:list (list A)) r c : cell (map (map h) T) r c = option_map h (cell T r c).
Proof.
  unfold cell. rewrite nth_error_map. destruct (nth_error T r) as [row|]; cbn [option_map]; [apply nth_error_map|reflexivity].
Qed.

Lemma nth_error_seq0 n k : nth_error (seq 0 n) k = if (k <? n)%nat then Some k else None.
Proof.
  destruct (k <? n)%nat eqn:E.
  - apply Nat.ltb_lt in E. rewrite (nth_error_nth' _ 0%nat) by (rewrite seq_length; exact E).
    rewrite seq_nth by exact E. reflexivity.
  - apply Nat.ltb_ge in E. apply nth_error_None. rewrite seq_length. exact E.
Qed.

Lemma cell_pole_table {X} ordmax (per:nat -> list X) r c :
  cell (pole_table ordmax per) r c =
  if ((r <? ordmax) && (c <? S ordmax))%nat then Some (if (c =? 0)%nat then None else nth_error (per c) r) else None.
Proof.
  unfold cell, pole_table. rewrite nth_error_map, nth_error_seq0.
  destruct (r <? ordmax)%nat; cbn [option_map andb]; [|reflexivity].
  rewrite nth_error_map, nth_error_seq0. destruct (c <? S ordmax)%nat; reflexivity.
Qed.

Lemma rect_pole_table {X} ordmax (per:nat -> list X) : rect ordmax (S ordmax) (pole_table ordmax per).
Proof.
  unfold pole_table. split; [rewrite map_length, seq_length; reflexivity|].
  apply Forall_forall. intros row Hin. apply in_map_iff in Hin. destruct Hin as (r & <- & _).
  rewrite map_length, seq_length. reflexivity.
Qed.

(* a filled cell of column c >= 1 of the frequency / payload tables is an element of the pole list of that order *)
Lemma pole_cell_fn {X} (fnof:X->Q) ordmax (per:nat -> list X) r c g : (0 < c)%nat ->
  cell (fn_table fnof (pole_table ordmax per)) r c = Some (Some g) -> exists y, nth_error (per c) r = Some y /\ g = fnof y.
Proof.
  intros Hc0 H. unfold fn_table in H. rewrite cell_map, cell_pole_table in H.
  destruct ((r <? ordmax) && (c <? S ordmax))%nat; cbn [option_map] in H; [|discriminate].
  assert (E : (c =? 0)%nat = false) by (apply Nat.eqb_neq; lia). rewrite E in H.
  destruct (nth_error (per c) r) as [y|]; cbn [option_map] in H; [|discriminate]. inversion H. eauto.
Qed.

Lemma pole_cell_of {X B} (h:X->B) ordmax (per:nat -> list X) r c y : (0 < c <= ordmax)%nat -> (r < ordmax)%nat ->
  nth_error (per c) r = Some y -> cell (map (map (option_map h)) (pole_table ordmax per)) r c = Some (Some (h y)).
Proof.
  intros Hc Hr Hy. rewrite cell_map, cell_pole_table.
  assert (E1 : (r <? ordmax)%nat = true) by (apply Nat.ltb_lt; exact Hr).
  assert (E2 : (c <? S ordmax)%nat = true) by (apply Nat.ltb_lt; lia).
  assert (E3 : (c =? 0)%nat = false) by (apply Nat.eqb_neq; lia).
  rewrite E1, E2, E3, Hy. reflexivity.
Qed.

(* the pole list of order c is a rearrangement of the true mode list [truth] (C01: Permutation of the spectrum): whatever
   true frequencies are requested, extraction at order c returns for each of them frequency and payload of ONE true mode
   of that frequency - the one listed first at order c. *)
Theorem extract_pole_table {X P} (fnof:X->Q) (payof:X->P) ordmax (per:nat -> list X) c (truth:list X) freq rtol :
  (0 < c <= ordmax)%nat -> (length (per c) <= ordmax)%nat -> 0 <= rtol ->
  Permutation (per c) truth ->
  Forall (fun f => exists x, In x truth /\ fnof x == f) freq ->
  exists vals,
    mpe_explicit (fn_table fnof (pole_table ordmax per)) (pay_table payof (pole_table ordmax per)) freq (OInt c) rtol
      = Ok (vals, OutInt c) /\
    Forall2 (fun f vp => exists y, In y truth /\ fnof y == f /\ vp = (fnof y, Some (payof y))) freq vals.
Proof.
  intros Hc Hlen Hrt Hperm Hall.
  assert (HF : rect ordmax (S ordmax) (fn_table fnof (pole_table ordmax per))) by (apply rect_map, rect_pole_table).
  assert (HP : rect ordmax (S ordmax) (pay_table payof (pole_table ordmax per))) by (apply rect_map, rect_pole_table).
  destruct (extract_exact ordmax (S ordmax) _ _ c freq rtol HF HP Hrt) as (vals & Hv & H2).
  { eapply Forall_impl; [|exact Hall]. intros f (x & Hx & Hfx).
    apply (Permutation_in x (Permutation_sym Hperm)) in Hx. destruct (In_nth_error _ _ Hx) as [r Hr].
    assert (Hro : (r < ordmax)%nat).
    { assert (r < length (per c))%nat by (apply nth_error_Some; rewrite Hr; discriminate). lia. }
    exists r, (fnof x). split; [|exact Hfx]. apply (pole_cell_of fnof ordmax per r c x Hc Hro Hr). }
  exists vals. split; [exact Hv|]. eapply F2_impl; [|exact H2].
  intros f [v p] (Heq & r & HcF & HcP & _). cbn [fst snd] in *.
  destruct (pole_cell_fn fnof ordmax per r c v (proj1 Hc) HcF) as (y & Hy & ->).
  assert (Hro : (r < ordmax)%nat).
  { assert (r < length (per c))%nat by (apply nth_error_Some; rewrite Hy; discriminate). lia. }
  unfold pay_table in HcP. rewrite (pole_cell_of payof ordmax per r c y Hc Hro Hy) in HcP. inversion HcP; subst p.
  exists y. split; [apply (Permutation_in y Hperm); eapply nth_error_In; exact Hy|]. split; [exact Heq|reflexivity].
Qed.

(* ... hence, requesting the frequencies of a list of true modes: each answer carries the frequency of its mode and a
   payload [same] as that of the mode, provided true modes of equal frequency have [same] payloads (at order 2m every
   mode is listed twice, as a conjugate pair: equal fn and xi, conjugate shapes - take [same] = equality on xi and
   equality up to conjugation on shapes; with pairwise different frequencies [same] may be Leibniz equality). *)
Corollary extract_pole_table_modes {X P} (fnof:X->Q) (payof:X->P) (same:P->P->Prop) ordmax (per:nat -> list X) c
    (truth modes:list X) rtol :
  (0 < c <= ordmax)%nat -> (length (per c) <= ordmax)%nat -> 0 <= rtol ->
  Permutation (per c) truth ->
  (forall x, In x modes -> In x truth) ->
  (forall x y, In x truth -> In y truth -> fnof y == fnof x -> same (payof y) (payof x)) ->
  exists vals,
    mpe_explicit (fn_table fnof (pole_table ordmax per)) (pay_table payof (pole_table ordmax per)) (map fnof modes) (OInt c) rtol
      = Ok (vals, OutInt c) /\
    Forall2 (fun x vp => fst vp == fnof x /\ exists p, snd vp = Some p /\ same p (payof x)) modes vals.
Proof.
  intros Hc Hlen Hrt Hperm Hsub Hsame.
  destruct (extract_pole_table fnof payof ordmax per c truth (map fnof modes) rtol Hc Hlen Hrt Hperm) as (vals & Hv & H2).
  { apply Forall_forall. intros f Hin. apply in_map_iff in Hin. destruct Hin as (x & <- & Hx).
    exists x. split; [apply Hsub; exact Hx|reflexivity]. }
  exists vals. split; [exact Hv|]. apply F2_map_l in H2. eapply F2_impl_in; [|exact H2].
  intros x vp Hx (y & Hy & Heq & ->). cbn [fst snd]. split; [exact Heq|].
  exists (payof y). split; [reflexivity|]. apply Hsame; [apply Hsub; exact Hx|exact Hy|exact Heq].
Qed.

(* the same with the pole list given as the image of an eigenvalue list: [ds] = eigenvalues returned at order c,
   [lams] = true spectrum, Permutation ds lams is the first conclusion of C01_multiplicity, [g] = the pole-wise map
   of ac2mp (frequency, damping) *)
Corollary extract_pole_table_spectrum {L X P} (g:L->X) (fnof:X->Q) (payof:X->P) ordmax (per:nat -> list X) c (ds lams:list L) freq rtol :
  (0 < c <= ordmax)%nat -> (length ds <= ordmax)%nat -> 0 <= rtol ->
  per c = map g ds -> Permutation ds lams ->
  Forall (fun f => exists lam, In lam lams /\ fnof (g lam) == f) freq ->
  exists vals,
    mpe_explicit (fn_table fnof (pole_table ordmax per)) (pay_table payof (pole_table ordmax per)) freq (OInt c) rtol
      = Ok (vals, OutInt c) /\
    Forall2 (fun f vp => exists lam, In lam lams /\ fnof (g lam) == f /\ vp = (fnof (g lam), Some (payof (g lam)))) freq vals.
Proof.
  intros Hc Hlen Hrt Hper Hperm Hall.
  destruct (extract_pole_table fnof payof ordmax per c (map g lams) freq rtol Hc) as (vals & Hv & H2).
  - rewrite Hper, map_length. exact Hlen.
  - exact Hrt.
  - rewrite Hper. apply Permutation_map. exact Hperm.
  - eapply Forall_impl; [|exact Hall]. intros f (lam & Hl & Hf). exists (g lam). split; [apply in_map; exact Hl|exact Hf].
  - exists vals. split; [exact Hv|]. eapply F2_impl; [|exact H2]. intros f vp (y & Hy & Heq & ->).
    apply in_map_iff in Hy. destruct Hy as (lam & <- & Hl). exists lam. auto.
Qed.

(* ------------------------------------------------------------------------------------------------------- *)
(* concrete instances used by the Examples of Properties/C01.v *)

(* 3 rows x 3 orders; order 2 holds the true poles 5 and 10 (5 listed twice: a conjugate pair), order 1 holds a
   slightly wrong 5 Hz pole and a spurious one, order 0 has a NaN cell *)
Definition cx_Fn : tab :=
  [[Some (5#1);  Some (40000001#8000000); Some (10#1)];
   [None;        Some (15#2);             Some (5#1)];
   [Some (7#1);  Some (10#1);             Some (5#1)]].
Definition cx_Pay : list (list nat) := id_tab 3 3.

(* pole lists per order for M_modal.pole_table, cell type (fn, xi): order 2 = the two true modes in the other order *)
Definition cx_per (ii:nat) : list (Q*Q) :=
  match ii with
  | 1%nat => [(7#1, 1#50)]
  | 2%nat => [(10#1, 1#100); (5#1, 1#50)]
  | 3%nat => [(5#1, 1#50); (10#1, 1#100); (12#1, 1#10)]
  | _ => []
  end.

(* the hypotheses of extract_exact hold at order 2 for the requests 5 and 10 *)
Lemma cx_exact_hyps :
  rect 3 3 cx_Fn /\ rect 3 3 cx_Pay /\ 0 <= 1#100 /\
  Forall (fun f => exists r g, cell cx_Fn r 2 = Some (Some g) /\ g == f) [5#1; 10#1].
Proof.
  split; [split; [reflexivity|repeat constructor]|]. split; [split; [reflexivity|repeat constructor]|].
  split; [discriminate|]. constructor; [|constructor; [|constructor]].
  - exists 2%nat, (5#1). split; reflexivity.
  - exists 0%nat, (10#1). split; reflexivity.
Qed.

(* the hypotheses of extract_robust hold at order 1: the 5 Hz pole is identified as 5.000000125 (eps = 1.25e-7, inside the
   isclose margin 1e-8 + 5/100), the other retained poles of that order (7.5 and 10) are farther; 10 is exact (eps = 0) *)
Lemma cx_robust_hyps :
  Forall2 (fun f r => exists g eps, cell cx_Fn r 1 = Some (Some g) /\ Qabs (g - f) <= eps /\
             (forall r' g', r' <> r -> cell cx_Fn r' 1 = Some (Some g') -> eps < Qabs (g' - f)) /\
             eps <= atol + (1#100) * Qabs f) [5#1; 10#1] [0%nat; 2%nat].
Proof.
  constructor; [|constructor; [|constructor]].
  - exists (40000001#8000000), (1#8000000). split; [reflexivity|]. split; [vm_compute; discriminate|]. split; [|vm_compute; discriminate].
    intros [|[|[|r']]] g' Hne Hc; cbn in Hc; try (exfalso; apply Hne; reflexivity); try (destruct r'; discriminate);
      inversion Hc; subst; vm_compute; reflexivity.
  - exists (10#1), 0. split; [reflexivity|]. split; [vm_compute; discriminate|]. split; [|vm_compute; discriminate].
    intros [|[|[|r']]] g' Hne Hc; cbn in Hc; try (exfalso; apply Hne; reflexivity); try (destruct r'; discriminate);
      inversion Hc; subst; vm_compute; reflexivity.
Qed.

(* the hypotheses of extract_pole_table hold at order 2 of pole_table 3 cx_per, cell type (fn, xi) *)
Lemma cx_pole_hyps :
  (0 < 2 <= 3)%nat /\ (length (cx_per 2) <= 3)%nat /\ 0 <= 0 /\
  Permutation (cx_per 2) [(5#1, 1#50); (10#1, 1#100)] /\
  Forall (fun f => exists x, In x [(5#1, 1#50); (10#1, 1#100)] /\ fst x == f) [5#1; 10#1].
Proof.
  split; [lia|]. split; [cbn; lia|]. split; [discriminate|]. split; [apply perm_swap|].
  constructor; [|constructor; [|constructor]].
  - exists (5#1, 1#50). split; [left; reflexivity|reflexivity].
  - exists (10#1, 1#100). split; [right; left; reflexivity|reflexivity].
Qed.
